(* C02/SweepSound.v — soundness of tsk_table_collection_check_tree_integrity: a successful
   sweep establishes that the insertion order is a permutation sorted by left, the removal
   order is sorted by right (and a permutation when the trailing loop tests used_edges,
   i.e. with the repair of finding F1), that child intervals are disjoint and that known
   mutation times are below the time of the parent node in the tree at the site. *)
From Coq Require Import List ZArith Bool Lia Permutation.
From TskVerif Require Import Base.Common C02.Fl C02.Model C02.Arr C02.Tac C02.Spec C02.TableSound C02.ListX.
Import ListNotations.
Open Scope Z_scope.

Section SweepSound.
  Variable v : variant.
  Variable t : tables.
  Variables II OO : list Z.
  Variable Lz : Z.
  Hypothesis HL : seqlen t = Fin Lz.
  Hypothesis HLpos : 0 < Lz.
  Hypothesis HN : NodesOK t.
  Hypothesis HE : EdgeRowsOK t.
  Hypothesis HS : SitesOK t.
  Hypothesis HMR : MutRowsOK t.
  Hypothesis HMO : MutOrderOK t.
  Hypothesis HI : forall a, 0 <= a < num_edges t ->
      (exists e, aget II a = Ok e /\ 0 <= e < num_edges t) /\
      (exists e, aget OO a = Ok e /\ 0 <= e < num_edges t).

  Let ne := num_edges t.
  Let N := num_nodes t.
  Let NS := num_sites t.
  Let M := num_mutations t.
  Definition elz e := match fat (edge_left t) e with Fin z => z | _ => 0 end.
  Definition erz e := match fat (edge_right t) e with Fin z => z | _ => 0 end.
  Let ep e := zat (edge_parent t) e.
  Let ec e := zat (edge_child t) e.
  Definition ntz' u := match fat (node_time t) u with Fin z => z | _ => 0 end.
  Definition posz s := match fat (site_pos t) s with Fin z => z | _ => 0 end.
  Let ms m := zat (mut_site t) m.
  Let mn m := zat (mut_node t) m.
  Definition mtz m := match fat (mut_time t) m with Fin z => z | _ => 0 end.
  Let unk m := is_unknown (fat (mut_time t) m).

  Lemma edge_fin e : 0 <= e < ne ->
    fat (edge_left t) e = Fin (elz e) /\ fat (edge_right t) e = Fin (erz e) /\
    0 <= elz e < erz e /\ erz e <= Lz /\ 0 <= ep e < N /\ 0 <= ec e < N.
  Proof.
    intro R. destruct (HE e R) as [P [C [[l [r [El [Er [Rlr RL]]]]] _]]].
    unfold elz, erz. rewrite El, Er. rewrite HL in RL. unfold fgt in RL. simpl in RL. b2z.
    unfold ep, ec, N. repeat split; try reflexivity; lia.
  Qed.

  Lemma node_fin u : 0 <= u < N -> fat (node_time t) u = Fin (ntz' u).
  Proof.
    intro R. destruct (HN u R) as [F _]. unfold ntz'.
    destruct (fat (node_time t) u); simpl in F; try discriminate. reflexivity.
  Qed.

  Lemma site_fin s : 0 <= s < NS -> fat (site_pos t) s = Fin (posz s) /\ 0 <= posz s < Lz.
  Proof.
    intro R. destruct HS as [H1 _]. destruct (H1 s R) as [x [E [P Q]]].
    unfold posz. rewrite E. rewrite HL in Q. unfold fge in Q. rewrite fle_fin in Q. b2z.
    split; [reflexivity|lia].
  Qed.

  Lemma site_sorted a b : 0 <= a <= b -> b < NS -> posz a <= posz b.
  Proof.
    intros Rab Rb. destruct HS as [_ H2].
    assert (K : forall k : nat, a + Z.of_nat k < NS -> posz a <= posz (a + Z.of_nat k)).
    { induction k as [|k IH]; intro Hk.
      - replace (a + Z.of_nat 0) with a by lia. lia.
      - assert (IH' := IH ltac:(lia)).
        assert (O1 := H2 (a + Z.of_nat (S k)) ltac:(lia)).
        replace (a + Z.of_nat (S k) - 1) with (a + Z.of_nat k) in O1 by lia.
        destruct (site_fin (a + Z.of_nat k) ltac:(lia)) as [E1 _].
        destruct (site_fin (a + Z.of_nat (S k)) ltac:(lia)) as [E2 _].
        rewrite E1, E2, flt_fin in O1. b2z. lia. }
    specialize (K (Z.to_nat (b - a))). replace (a + Z.of_nat (Z.to_nat (b - a))) with b in K by lia.
    apply K. lia.
  Qed.

  Lemma mut_fin m : 0 <= m < M -> unk m = false -> fat (mut_time t) m = Fin (mtz m).
  Proof.
    intros R K. destruct (HMR m R) as [_ [_ [_ [[U|[F _]] _]]]]; [unfold unk in K; congruence|].
    unfold mtz. destruct (fat (mut_time t) m); simpl in F; try discriminate. reflexivity.
  Qed.

  Lemma mut_site_sorted a b : 0 <= a <= b -> b < M -> ms a <= ms b.
  Proof.
    intros Rab Rb.
    assert (K : forall k : nat, a + Z.of_nat k < M -> ms a <= ms (a + Z.of_nat k)).
    { induction k as [|k IH]; intro Hk.
      - replace (a + Z.of_nat 0) with a by lia. lia.
      - assert (IH' := IH ltac:(lia)).
        destruct (HMO (a + Z.of_nat (S k)) ltac:(lia)) as [O1 _].
        replace (a + Z.of_nat (S k) - 1) with (a + Z.of_nat k) in O1 by lia. unfold ms in *. lia. }
    specialize (K (Z.to_nat (b - a))). replace (a + Z.of_nat (Z.to_nat (b - a))) with b in K by lia.
    apply K. lia.
  Qed.

  (* ---- the invariant of the edge part ---- *)
  Definition cI j e := cnt (pre II j) e.
  Definition cO k e := cnt (pre OO k) e.
  Definition act j k e := cI j e = 1 /\ cO k e = 0.

  Record inv (j k x : Z) (par used : list Z) : Prop := {
    i_j : 0 <= j <= ne; i_k : 0 <= k <= ne; i_x : 0 <= x <= Lz;
    i_lenp : zlen par = N; i_lenu : zlen used = ne;
    i_cnt : forall e, cO k e <= cI j e <= 1;
    i_used : forall e, 0 <= e < ne -> zat used e = cI j e + cO k e;
    i_par : forall u, 0 <= u < N ->
       (zat par u = -1 /\ forall e, act j k e -> ec e <> u) \/
       (exists e, act j k e /\ ec e = u /\ zat par u = ep e);
    i_act1 : forall e1 e2, act j k e1 -> act j k e2 -> ec e1 = ec e2 -> e1 = e2;
    i_disj : forall e1 e2, cI j e1 >= 1 -> cI j e2 >= 1 -> e1 <> e2 -> ec e1 = ec e2 ->
       erz e1 <= elz e2 \/ erz e2 <= elz e1;
    i_rng : forall e, cI j e >= 1 -> 0 <= e < ne;
    i_oI : forall e, cI j e >= 1 -> elz e <= x;
    i_oO : forall e, cO k e >= 1 -> erz e <= x;
    i_sI : forall a, 0 < a < j -> elz (zat II (a - 1)) <= elz (zat II a);
    i_sO : forall a, 0 < a < k -> erz (zat OO (a - 1)) <= erz (zat OO a)
  }.

  Lemma cI_nonneg j e : 0 <= cI j e. Proof. apply cnt_nonneg. Qed.
  Lemma cO_nonneg k e : 0 <= cO k e. Proof. apply cnt_nonneg. Qed.

  Lemma zlen_II : ne <= zlen II.
  Proof.
    destruct (Z_le_gt_dec ne 0) as [Z0|P]; [unfold zlen; lia|].
    destruct (HI (ne - 1) ltac:(lia)) as [[e [A _]] _]. apply aget_range in A. lia.
  Qed.
  Lemma zlen_OO : ne <= zlen OO.
  Proof.
    destruct (Z_le_gt_dec ne 0) as [Z0|P]; [unfold zlen; lia|].
    destruct (HI (ne - 1) ltac:(lia)) as [_ [e [A _]]]. apply aget_range in A. lia.
  Qed.

  Lemma cI_succ j e e' : aget II j = Ok e -> cI (j + 1) e' = cI j e' + (if Z.eq_dec e e' then 1 else 0).
  Proof. intro A. unfold cI. rewrite (pre_snoc _ _ _ A). apply cnt_snoc. Qed.
  Lemma cO_succ k e e' : aget OO k = Ok e -> cO (k + 1) e' = cO k e' + (if Z.eq_dec e e' then 1 else 0).
  Proof. intro A. unfold cO. rewrite (pre_snoc _ _ _ A). apply cnt_snoc. Qed.

  Lemma cI_prev j a : 0 <= a < j -> j <= ne -> cI j (zat II a) >= 1.
  Proof. intros R L. apply cnt_In. apply zat_pre_In; [assumption|]. pose proof zlen_II. lia. Qed.
  Lemma cO_prev k a : 0 <= a < k -> k <= ne -> cO k (zat OO a) >= 1.
  Proof. intros R L. apply cnt_In. apply zat_pre_In; [assumption|]. pose proof zlen_OO. lia. Qed.

  Lemma nth_upd (l l' : list Z) i a :
    (forall k d, nth k l' d = if Nat.eqb k (Z.to_nat i) then a else nth k l d) -> 0 <= i ->
    forall u, 0 <= u -> zat l' u = if Z.eq_dec u i then a else zat l u.
  Proof.
    intros H Ri u Ru. unfold zat. rewrite H. destruct (Z.eq_dec u i).
    - subst. rewrite Nat.eqb_refl. reflexivity.
    - replace (Nat.eqb (Z.to_nat u) (Z.to_nat i)) with false; [reflexivity|].
      symmetry. apply Nat.eqb_neq. lia.
  Qed.

  (* ---- out_loop: edges leaving at x ---- *)
  Lemma out_step_inv j k x par used e par1 used1 :
    inv j k x par used -> k < ne -> aget OO k = Ok e -> 0 <= e < ne -> erz e = x -> zat used e = 1 ->
    (forall k0 d, nth k0 par1 d = if Nat.eqb k0 (Z.to_nat (ec e)) then TSK_NULL else nth k0 par d) ->
    zlen par1 = zlen par ->
    (forall k0 d, nth k0 used1 d = if Nat.eqb k0 (Z.to_nat e) then 1 + 1 else nth k0 used d) ->
    zlen used1 = zlen used ->
    inv j (k + 1) x par1 used1.
  Proof.
    intros INV Ck Ge Re Cx ZU NA LA NA' LA'.
    destruct (edge_fin e Re) as [El [Er [Rlr [RL [RP RC]]]]].
    assert (ZO : zat OO k = e) by (apply zat_aget; assumption).
    destruct INV as [Ij Ik Ix Lp Lu Cn Us Pa A1 Dj Rg oI oO sI sO].
    assert (ACT : act j k e).
    { unfold act. pose proof (Cn e). pose proof (Us e Re). pose proof (cO_nonneg k e). lia. }
    destruct ACT as [AI AO].
    assert (CO' : forall e', cO (k + 1) e' = cO k e' + (if Z.eq_dec e e' then 1 else 0)) by (intro; apply cO_succ; assumption).
    constructor; try assumption; try lia.
    + intro e'. rewrite CO'. specialize (Cn e'). destruct (Z.eq_dec e e'); [subst; lia|lia].
    + intros e' Re'. rewrite CO'. rewrite (nth_upd _ _ _ _ NA') by lia.
      destruct (Z.eq_dec e' e), (Z.eq_dec e e'); subst; try congruence.
      * lia.
      * rewrite (Us e' Re'). lia.
    + intros u Ru. rewrite (nth_upd _ _ _ _ NA) by lia. unfold TSK_NULL.
      destruct (Z.eq_dec u (ec e)).
      * left. split; [reflexivity|]. intros e' [B1 B2] EQ. rewrite CO' in B2.
        destruct (Z.eq_dec e e'); [pose proof (cO_nonneg k e'); lia|].
        apply n. symmetry. apply A1; [split; [assumption|lia]|split; assumption|congruence].
      * destruct (Pa u Ru) as [[P1 P2]|[e'' [[B1 B2] [B3 B4]]]].
        -- left. split; [assumption|]. intros e' [B1 B2]. apply P2. split; [assumption|].
           rewrite CO' in B2. pose proof (cO_nonneg k e').
           destruct (Z.eq_dec e e'); lia.
        -- right. exists e''. split; [|split; assumption]. split; [assumption|]. rewrite CO'.
           destruct (Z.eq_dec e e''); [subst; congruence|lia].
    + intros e1 e2 [B1 B2] [B3 B4] EQ. rewrite CO' in B2, B4.
      pose proof (cO_nonneg k e1). pose proof (cO_nonneg k e2).
      apply A1; [split| split|assumption]; try assumption;
      destruct (Z.eq_dec e e1), (Z.eq_dec e e2); lia.
    + intros e' Ce. rewrite CO' in Ce. destruct (Z.eq_dec e e'); [subst; lia|]. apply oO. lia.
    + intros a Ra. destruct (Z.eq_dec a k); [|apply sO; lia]. subst a. rewrite ZO.
      assert (Q := cO_prev k (k - 1) ltac:(lia) ltac:(lia)). apply oO in Q. lia.
  Qed.

  Lemma out_loop_inv j x fuel : forall k par used k' par' used',
    inv j k x par used ->
    out_loop t OO fuel (Fin x) k par used = Ok (k', par', used') ->
    inv j k' x par' used' /\ k <= k' /\ (k' < ne -> erz (zat OO k') <> x).
  Proof.
    induction fuel as [|fuel IH]; intros k par used k' par' used' INV H; simpl in H; [discriminate|].
    fold ne in H. destruct (k <? ne) eqn:Ck.
    2:{ inversion H; subst. split; [assumption|]. split; [lia|]. b2z. lia. }
    b2z. stepn H e Ge. stepn H r Gr.
    destruct (HI k ltac:(destruct INV; lia)) as [_ [e0 [Ge0 Re]]]. rewrite Ge in Ge0. inversion Ge0; subst e0.
    destruct (edge_fin e Re) as [El [Er [Rlr [RL [RP RC]]]]].
    assert (Er' := fat_aget _ _ _ Gr). rewrite Er in Er'. subst r.
    simpl in H. destruct (erz e =? x) eqn:Cx.
    2:{ inversion H; subst. split; [assumption|]. split; [lia|]. intros _. b2z.
        rewrite (zat_aget _ _ _ Ge). assumption. }
    b2z. stepn H u Gu. stepc H Bu. stepn H c Gc. stepn H par1 Gp. stepn H used1 Gus.
    assert (EC : ec e = c) by (unfold ec; apply zat_aget; assumption). subst c.
    assert (ZU : zat used e = u) by (apply zat_aget; assumption). b2z. subst u.
    destruct (aset_cases par (ec e) TSK_NULL) as [[p' [A [RA [LA NA]]]]|[A _]]; rewrite A in Gp; [|discriminate].
    inversion Gp; subst p'. clear Gp A.
    destruct (aset_cases used e (1 + 1)) as [[u' [A [RA' [LA' NA']]]]|[A _]]; rewrite A in Gus; [|discriminate].
    inversion Gus; subst u'. clear Gus A.
    apply IH in H.
    - destruct H as [H1 [H2 H3]]. split; [assumption|]. split; [lia|assumption].
    - eapply out_step_inv; eauto.
  Qed.

  (* ---- the invariant of the site / mutation cursors ---- *)
  Record minv (j xlo xhi sc mc : Z) : Prop := {
    m_sc : 0 <= sc <= NS; m_mc : 0 <= mc <= M;
    m_pos : forall s, 0 <= s < sc -> posz s < xhi;
    m_next : sc < NS -> xlo <= posz sc;
    m_cons : forall m, 0 <= m < mc -> ms m < sc;
    m_nextm : mc < M -> sc <= ms mc;
    m_G : forall m, 0 <= m < mc -> unk m = false -> forall e, 0 <= e < ne -> ec e = mn m ->
          elz e <= posz (ms m) < erz e -> mtz m < ntz' (ep e) \/ cI j e = 0
  }.

  (* ---- in_loop: edges entering at x ---- *)
  Lemma in_step_inv j k x par used e par1 used1 :
    inv j k x par used -> j < ne -> aget II j = Ok e -> 0 <= e < ne -> elz e = x -> zat used e = 0 ->
    zat par (ec e) = -1 ->
    (forall k0 d, nth k0 used1 d = if Nat.eqb k0 (Z.to_nat e) then 0 + 1 else nth k0 used d) ->
    zlen used1 = zlen used ->
    (forall k0 d, nth k0 par1 d = if Nat.eqb k0 (Z.to_nat (ec e)) then ep e else nth k0 par d) ->
    zlen par1 = zlen par ->
    inv (j + 1) k x par1 used1.
  Proof.
    intros INV Cj Ge Re Cx ZU Bpc NA' LA' NA LA.
    destruct (edge_fin e Re) as [El [Er [Rlr [RL [RP RC]]]]].
    assert (ZI : zat II j = e) by (apply zat_aget; assumption).
    destruct INV as [Ij Ik Ix Lp Lu Cn Us Pa A1 Dj Rg oI oO sI sO].
    assert (C0 : cI j e = 0 /\ cO k e = 0).
    { pose proof (Cn e). pose proof (Us e Re). pose proof (cO_nonneg k e). pose proof (cI_nonneg j e). lia. }
    destruct C0 as [CI0 CO0].
    assert (NOACT : forall e', act j k e' -> ec e' <> ec e).
    { destruct (Pa (ec e) RC) as [[_ P2]|[e'' [[B1 B2] [_ P4]]]]; [exact P2|]. exfalso.
      destruct (edge_fin e'' (Rg e'' ltac:(lia))) as [_ [_ [_ [_ [RP'' _]]]]]. lia. }
    assert (CI' : forall e', cI (j + 1) e' = cI j e' + (if Z.eq_dec e e' then 1 else 0)) by (intro; apply cI_succ; assumption).
    constructor; try assumption; try lia.
    + intro e'. rewrite CI'. specialize (Cn e'). destruct (Z.eq_dec e e'); [subst; lia|lia].
    + intros e' Re'. rewrite CI'. rewrite (nth_upd _ _ _ _ NA') by lia.
      destruct (Z.eq_dec e' e), (Z.eq_dec e e'); subst; try congruence.
      * lia.
      * rewrite (Us e' Re'). lia.
    + intros u Ru. rewrite (nth_upd _ _ _ _ NA) by lia.
      destruct (Z.eq_dec u (ec e)).
      * right. exists e. split; [split; [rewrite CI'; destruct (Z.eq_dec e e); [lia|congruence]|assumption]|].
        split; [congruence|reflexivity].
      * destruct (Pa u Ru) as [[P1 P2]|[e'' [[B1 B2] [B3 B4]]]].
        -- left. split; [assumption|]. intros e' [B1 B2]. rewrite CI' in B1.
           destruct (Z.eq_dec e e'); [subst; congruence|]. apply P2. split; [lia|assumption].
        -- right. exists e''. split; [|split; assumption]. split; [|assumption]. rewrite CI'.
           destruct (Z.eq_dec e e''); [subst; lia|lia].
    + intros e1 e2 [B1 B2] [B3 B4] EQ. rewrite CI' in B1, B3.
      destruct (Z.eq_dec e e1), (Z.eq_dec e e2); subst; try reflexivity.
      * exfalso. apply (NOACT e2); [split; [lia|assumption]|congruence].
      * exfalso. apply (NOACT e1); [split; [lia|assumption]|congruence].
      * apply A1; [split; [lia|assumption]|split; [lia|assumption]|assumption].
    + (* disjointness of the new edge with every earlier edge of the same child *)
      assert (NEW : forall e2, cI j e2 >= 1 -> ec e2 = ec e -> erz e2 <= elz e).
      { intros e2 C2 EQ. destruct (Z.eq_dec (cO k e2) 0) as [Z0|NZ].
        - exfalso. apply (NOACT e2); [split; [pose proof (Cn e2); lia|assumption]|assumption].
        - pose proof (cO_nonneg k e2). rewrite Cx. apply oO. lia. }
      intros e1 e2 C1 C2 NE EQ. rewrite CI' in C1, C2.
      destruct (Z.eq_dec e e1), (Z.eq_dec e e2); subst; try congruence.
      * right. apply NEW; [lia|congruence].
      * left. apply NEW; [lia|congruence].
      * apply Dj; try assumption; lia.
    + intros e' Ce. rewrite CI' in Ce. destruct (Z.eq_dec e e'); [subst; assumption|]. apply Rg. lia.
    + intros e' Ce. rewrite CI' in Ce. destruct (Z.eq_dec e e'); [subst; lia|]. apply oI. lia.
    + intros a Ra. destruct (Z.eq_dec a j); [|apply sI; lia]. subst a. rewrite ZI.
      assert (Q := cI_prev j (j - 1) ltac:(lia) ltac:(lia)). apply oI in Q. lia.
  Qed.

  Lemma in_step_minv j x sc mc e :
    minv j x x sc mc -> aget II j = Ok e -> elz e = x -> minv (j + 1) x x sc mc.
  Proof.
    intros MINV Ge Cx.
    assert (CI' : forall e', cI (j + 1) e' = cI j e' + (if Z.eq_dec e e' then 1 else 0)) by (intro; apply cI_succ; assumption).
    destruct MINV as [Msc Mmc Mpos Mnext Mcons Mnextm MG].
    constructor; try assumption.
    intros m Rm K e' Re' EQ COV. rewrite CI'.
    destruct (Z.eq_dec e e').
    + subst e'. exfalso. specialize (Mcons m Rm). specialize (Mpos (ms m)).
      destruct (HMR m ltac:(unfold M in *; lia)) as [RS _]. fold (ms m) in RS. lia.
    + destruct (MG m Rm K e' Re' EQ COV); [left; assumption|right; lia].
  Qed.

  Lemma in_loop_inv k x sc mc fuel : forall j par used j' par' used',
    inv j k x par used -> minv j x x sc mc ->
    in_loop t II fuel (Fin x) j par used = Ok (j', par', used') ->
    inv j' k x par' used' /\ minv j' x x sc mc /\ j <= j' /\ (j' < ne -> elz (zat II j') <> x).
  Proof.
    induction fuel as [|fuel IH]; intros j par used j' par' used' INV MINV H; simpl in H; [discriminate|].
    fold ne in H. destruct (j <? ne) eqn:Cj.
    2:{ inversion H; subst. split; [assumption|]. split; [assumption|]. split; [lia|]. b2z. lia. }
    b2z. stepn H e Ge. stepn H l Gl.
    destruct (HI j ltac:(destruct INV; lia)) as [[e0 [Ge0 Re]] _]. rewrite Ge in Ge0. inversion Ge0; subst e0.
    destruct (edge_fin e Re) as [El [Er [Rlr [RL [RP RC]]]]].
    assert (El' := fat_aget _ _ _ Gl). rewrite El in El'. subst l.
    simpl in H. destruct (elz e =? x) eqn:Cx.
    2:{ inversion H; subst. split; [assumption|]. split; [assumption|]. split; [lia|]. intros _. b2z.
        rewrite (zat_aget _ _ _ Ge). assumption. }
    b2z. stepn H u Gu. stepc H Bu. stepn H used1 Gus. stepn H c Gc. stepn H pc Gpc. stepc H Bpc.
    stepn H p Gp. stepn H par1 Gpar.
    assert (EC : ec e = c) by (unfold ec; apply zat_aget; assumption). subst c.
    assert (EP : ep e = p) by (unfold ep; apply zat_aget; assumption). subst p.
    assert (ZU : zat used e = u) by (apply zat_aget; assumption). b2z. subst u.
    assert (ZP : zat par (ec e) = pc) by (apply zat_aget; assumption). unfold TSK_NULL in *. subst pc.
    destruct (aset_cases used e (0 + 1)) as [[u' [A [RA' [LA' NA']]]]|[A _]]; rewrite A in Gus; [|discriminate].
    inversion Gus; subst u'. clear Gus A.
    destruct (aset_cases par (ec e) (ep e)) as [[p' [A [RA [LA NA]]]]|[A _]]; rewrite A in Gpar; [|discriminate].
    inversion Gpar; subst p'. clear Gpar A.
    apply IH in H.
    - destruct H as [H1 [H2 [H3 H4]]]. split; [assumption|]. split; [assumption|]. split; [lia|assumption].
    - eapply in_step_inv; eauto.
    - eapply in_step_minv; eauto.
  Qed.

  (* ---- mutations at one site ---- *)
  Definition Gcl j m : Prop :=
    unk m = false -> forall e, 0 <= e < ne -> ec e = mn m ->
      elz e <= posz (ms m) < erz e -> mtz m < ntz' (ep e) \/ cI j e = 0.

  Lemma mut_loop_inv j k x par used s fuel : forall mc mc',
    inv j k x par used -> 0 <= s < NS -> x <= posz s -> 0 <= mc <= M ->
    mut_loop t fuel par s mc = Ok mc' ->
    mc <= mc' <= M /\ (forall m, mc <= m < mc' -> ms m = s /\ Gcl j m) /\ (mc' < M -> ms mc' <> s).
  Proof.
    induction fuel as [|fuel IH]; intros mc mc' INV Rs Xs Rmc H; simpl in H; [discriminate|].
    fold M in H. destruct (mc <? M) eqn:Cm.
    2:{ inversion H; subst. b2z. split; [lia|]. split; [intros; lia|lia]. }
    b2z. stepn H sv Gsv. assert (ES : ms mc = sv) by (unfold ms; apply zat_aget; assumption). subst sv.
    destruct (ms mc =? s) eqn:Cs.
    2:{ inversion H; subst. b2z. split; [lia|]. split; [intros; lia|intros _; assumption]. }
    b2z. stepn H mt Gmt. stepn H uu Gchk.
    apply IH in H; try assumption; try lia.
    destruct H as [H1 [H2 H3]]. split; [lia|]. split; [|assumption].
    intros m Rm. destruct (Z.eq_dec m mc) as [E|E]; [|apply H2; lia]. subst m. split; [assumption|].
    intros K e Re EQ COV.
    assert (MT := fat_aget _ _ _ Gmt). fold (unk mc) in K. unfold unk in K. rewrite MT in K. rewrite K in Gchk.
    simpl in Gchk. stepn Gchk nd Gnd. stepn Gchk p Gp.
    assert (EN : mn mc = nd) by (unfold mn; apply zat_aget; assumption). subst nd.
    assert (ZP : zat par (mn mc) = p) by (apply zat_aget; assumption). subst p.
    destruct INV as [Ij Ik Ix Lp Lu Cn Us Pa A1 Dj Rg oI oO sI sO].
    destruct (Z.eq_dec (cI j e) 0) as [Z0|NZ]; [right; assumption|left].
    assert (ACT : act j k e).
    { split; [pose proof (Cn e); pose proof (cI_nonneg j e); lia|].
      destruct (Z.eq_dec (cO k e) 0) as [Z1|NZ1]; [assumption|]. exfalso.
      pose proof (cO_nonneg k e). assert (Q : erz e <= x) by (apply oO; lia). rewrite Cs in COV. lia. }
    destruct (edge_fin e Re) as [_ [_ [_ [_ [RP RC]]]]].
    destruct (Pa (ec e) RC) as [[_ P2]|[e'' [ACT'' [P3 P4]]]]; [exfalso; apply (P2 e ACT); reflexivity|].
    assert (e'' = e) by (apply A1; assumption). subst e''.
    rewrite EQ in P4. rewrite P4 in Gchk.
    replace (ep e =? TSK_NULL) with false in Gchk by (symmetry; apply Z.eqb_neq; unfold TSK_NULL; lia).
    simpl in Gchk. stepn Gchk pt Gpt. stepc Gchk Bpt.
    assert (PT := fat_aget _ _ _ Gpt). rewrite (node_fin _ RP) in PT. subst pt.
    assert (MF := mut_fin mc ltac:(lia) ltac:(unfold unk; rewrite MT; assumption)).
    try rewrite MT in MF. try subst mt. try rewrite MF in Bpt.
    rewrite fle_fin in Bpt. b2z. lia.
  Qed.

  (* ---- sites of one tree ---- *)
  Lemma site_loop_inv j k x tr par used fuel : forall sc mc sc' mc',
    inv j k x par used -> minv j x tr sc mc ->
    site_loop t fuel par (Fin tr) sc mc = Ok (sc', mc') ->
    minv j x tr sc' mc' /\ (sc' < NS -> tr <= posz sc').
  Proof.
    induction fuel as [|fuel IH]; intros sc mc sc' mc' INV MINV H; cbn [site_loop] in H; [discriminate|].
    fold NS in H. destruct (sc <? NS) eqn:Cs.
    2:{ inversion H; subst. b2z. split; [assumption|lia]. }
    b2z. stepn H pos Gpos. destruct (site_fin sc ltac:(destruct MINV; lia)) as [PF PR].
    assert (PE := fat_aget _ _ _ Gpos). rewrite PF in PE. subst pos. rewrite flt_fin in H.
    destruct (posz sc <? tr) eqn:Cp.
    2:{ inversion H; subst. b2z. split; [assumption|intros _; lia]. }
    b2z. stepn H m1 Gm.
    destruct MINV as [Msc Mmc Mpos Mnext Mcons Mnextm MG].
    apply (mut_loop_inv j k x par used sc) in Gm; try assumption; try lia; try (apply Mnext; lia).
    destruct Gm as [G1 [G2 G3]].
    apply IH in H; try assumption.
    constructor; try lia.
    - intros s Rs. destruct (Z.eq_dec s sc); [subst; assumption|apply Mpos; lia].
    - intros Lt. pose proof (site_sorted sc (sc + 1) ltac:(lia) ltac:(lia)). specialize (Mnext ltac:(lia)). lia.
    - intros m Rm. destruct (Z_lt_dec m mc); [specialize (Mcons m ltac:(lia)); lia|].
      destruct (G2 m ltac:(lia)) as [Q _]. lia.
    - intros Lt. specialize (G3 Lt).
      assert (sc <= ms m1).
      { destruct (Z.eq_dec m1 mc); [subst; apply Mnextm; lia|].
        destruct (G2 (m1 - 1) ltac:(lia)) as [Q _].
        pose proof (mut_site_sorted (m1 - 1) m1 ltac:(lia) ltac:(lia)). lia. }
      lia.
    - intros m Rm. destruct (Z_lt_dec m mc); [apply MG; lia|].
      destruct (G2 m ltac:(lia)) as [_ Q]. exact Q.
  Qed.

  Lemma inv_mono j k x x' par used : inv j k x par used -> x <= x' <= Lz -> inv j k x' par used.
  Proof.
    intros [Ij Ik Ix Lp Lu Cn Us Pa A1 Dj Rg oI oO sI sO] R.
    constructor; try assumption; try lia.
    - intros e C. specialize (oI e C). lia.
    - intros e C. specialize (oO e C). lia.
  Qed.

  (* ---- one iteration of the main loop ---- *)
  Definition sinv (s : sweep_state) : Prop :=
    exists x, sw_left s = Fin x /\
      inv (sw_j s) (sw_k s) x (sw_parent s) (sw_used s) /\
      minv (sw_j s) x x (sw_site s) (sw_mut s).

  Lemma sweep_step_inv s s' : sinv s -> sweep_step t II OO s = Ok s' -> sinv s'.
  Proof.
    intros [x [EX [INV MINV]]] H. unfold sweep_step in H. fold ne in H. rewrite EX in H.
    destruct (out_loop t OO (S (Z.to_nat (ne - sw_k s))) (Fin x) (sw_k s) (sw_parent s) (sw_used s))
      as [[[k1 par1] used1]| | |] eqn:GO; cbn [bind] in H; try discriminate H.
    apply (out_loop_inv (sw_j s) x) in GO; [|assumption]. destruct GO as [INV1 [K1 _]].
    destruct (in_loop t II (S (Z.to_nat (ne - sw_j s))) (Fin x) (sw_j s) par1 used1)
      as [[[j1 par2] used2]| | |] eqn:GI; cbn [bind] in H; try discriminate H.
    apply (in_loop_inv k1 x (sw_site s) (sw_mut s)) in GI; try assumption.
    destruct GI as [INV2 [MINV2 [J1 _]]].
    rewrite HL in H.
    (* tree_right *)
    stepn H trA GA.
    assert (TA : exists a, trA = Fin a /\ a <= Lz).
    { destruct (j1 <? ne) eqn:C; [|inversion GA; subst; eexists; split; [reflexivity|lia]].
      b2z. stepn GA e Ge. stepn GA l Gl.
      destruct (HI j1 ltac:(destruct INV2; lia)) as [[e0 [Ge0 Re]] _]. rewrite Ge in Ge0. inversion Ge0; subst e0.
      destruct (edge_fin e Re) as [El _]. assert (El' := fat_aget _ _ _ Gl). rewrite El in El'. subst l.
      inversion GA; subst. rewrite fmin_fin. eexists; split; [reflexivity|lia]. }
    destruct TA as [a [EA LA]]. subst trA.
    stepn H trB GB.
    assert (TB : exists b, trB = Fin b /\ b <= Lz).
    { destruct (k1 <? ne) eqn:C; [|inversion GB; subst; eexists; split; [reflexivity|lia]].
      b2z. stepn GB e Ge. stepn GB r Gr.
      destruct (HI k1 ltac:(destruct INV2; lia)) as [_ [e0 [Ge0 Re]]]. rewrite Ge in Ge0. inversion Ge0; subst e0.
      destruct (edge_fin e Re) as [_ [Er _]]. assert (Er' := fat_aget _ _ _ Gr). rewrite Er in Er'. subst r.
      inversion GB; subst. rewrite fmin_fin. eexists; split; [reflexivity|lia]. }
    destruct TB as [b [EB LB]]. subst trB.
    destruct (site_loop t (S (Z.to_nat (num_sites t - sw_site s))) par2 (Fin b) (sw_site s) (sw_mut s))
      as [[sc1 mc1]| | |] eqn:GS; cbn [bind] in H; try discriminate H.
    stepc H Bxb. stepc H Bov. inversion H; subst s'; clear H.
    rewrite fle_fin in Bxb. b2z.
    assert (MINV3 : minv j1 x b (sw_site s) (sw_mut s)).
    { destruct MINV2 as [Msc Mmc Mpos Mnext Mcons Mnextm MG]. constructor; try assumption.
      intros s0 Rs0. specialize (Mpos s0 Rs0). lia. }
    apply (site_loop_inv j1 k1 x b par2 used2) in GS; try assumption.
    destruct GS as [MINV4 EXIT].
    exists b. simpl. split; [reflexivity|]. split.
    - apply inv_mono with (x := x); [assumption|]. destruct INV2. lia.
    - destruct MINV4 as [Msc Mmc Mpos Mnext Mcons Mnextm MG]. constructor; assumption.
  Qed.

  Lemma sweep_inv fuel : forall s s', sinv s -> sweep t II OO fuel s = Ok s' ->
    sinv s' /\ (sw_j s' <? ne) || flt (sw_left s') (seqlen t) = false.
  Proof.
    induction fuel as [|fuel IH]; intros s s' SI H; simpl in H; fold ne in H.
    - destruct ((sw_j s <? ne) || flt (sw_left s) (seqlen t)) eqn:C; [discriminate|].
      inversion H; subst. split; assumption.
    - destruct ((sw_j s <? ne) || flt (sw_left s) (seqlen t)) eqn:C.
      + stepn H s1 G1. apply IH in H; [assumption|]. eapply sweep_step_inv; eauto.
      + inversion H; subst. split; assumption.
  Qed.

  (* ---- the trailing loop over the removal order ---- *)
  Definition tinv (k : Z) (used : list Z) : Prop :=
    0 <= k <= ne /\ zlen used = ne /\
    (forall a, 0 < a < k -> erz (zat OO (a - 1)) <= erz (zat OO a)) /\
    (fix_f1 v = true ->
       (forall e, cO k e <= cI ne e <= 1) /\
       (forall e, 0 <= e < ne -> zat used e = cI ne e + cO k e)).

  Lemma tail_loop_inv k used used' :
    tinv k used -> tail_loop v t OO k used = Ok used' -> tinv ne used'.
  Proof.
    intros T0 H. unfold tail_loop in H. fold ne in H.
    eapply for_loop_inv with (P := fun k' u' => tinv k' u') in H.
    - replace (k + Z.of_nat (Z.to_nat (ne - k))) with ne in H by (destruct T0; lia). exact H.
    - exact T0.
    - intros i u1 u2 Ri [Rk [Lu [So Fx]]] B. rewrite HL in B.
      assert (Ri' : 0 <= i < ne) by lia.
      stepn B e Ge. stepn B r Gr. stepc B Br. stepn B u Gu. stepc B Bf.
      destruct (HI i Ri') as [_ [e0 [Ge0 Re]]]. rewrite Ge in Ge0. inversion Ge0; subst e0.
      destruct (edge_fin e Re) as [_ [Er [_ [RL _]]]].
      assert (Er' := fat_aget _ _ _ Gr). rewrite Er in Er'. subst r.
      unfold fne in Br. simpl in Br. b2z.
      assert (ZO : zat OO i = e) by (apply zat_aget; assumption).
      assert (ZU : zat u1 e = u) by (apply zat_aget; assumption).
      destruct (aset_cases u1 e (u + 1)) as [[u' [A [RA' [LA' NA']]]]|[A _]]; rewrite A in B; [|discriminate].
      inversion B; subst u'. clear B A.
      split; [lia|]. split; [lia|]. split.
      + intros a Ra. destruct (Z.eq_dec a i); [|apply So; lia]. subst a. rewrite ZO.
        destruct (HI (i - 1) ltac:(lia)) as [_ [e1 [Ge1 Re1]]]. rewrite (zat_aget _ _ _ Ge1).
        destruct (edge_fin e1 Re1) as [_ [_ [_ [RL1 _]]]]. lia.
      + intro F. destruct (Fx F) as [Cn Us]. rewrite F in Bf. simpl in Bf. b2z.
        assert (CO' : forall e', cO (i + 1) e' = cO i e' + (if Z.eq_dec e e' then 1 else 0)) by (intro; apply cO_succ; assumption).
        pose proof (Cn e). pose proof (Us e Re). pose proof (cO_nonneg i e).
        split.
        * intro e'. rewrite CO'. specialize (Cn e'). destruct (Z.eq_dec e e'); [subst; lia|lia].
        * intros e' Re'. rewrite CO'. rewrite (nth_upd _ _ _ _ NA') by lia.
          destruct (Z.eq_dec e' e), (Z.eq_dec e e'); subst; try congruence; try lia.
          rewrite (Us e' Re'). lia.
  Qed.

  Lemma zat_repeat a n u : 0 <= u < Z.of_nat n -> zat (repeat a n) u = a.
  Proof.
    intro R. unfold zat. apply nth_repeat_lt || idtac.
    revert u R. induction n as [|n IH]; intros u R; [lia|].
    simpl. destruct (Z.to_nat u) eqn:E; [reflexivity|].
    specialize (IH (u - 1) ltac:(lia)). replace (Z.to_nat (u - 1)) with n0 in IH by lia. exact IH.
  Qed.

  Lemma sinv_init :
    sinv (mkSW 0 0 F0 (repeat TSK_NULL (length (node_time t))) (repeat 0 (length (edge_left t))) 0 0 0).
  Proof.
    exists 0. simpl. split; [reflexivity|]. split.
    - constructor; unfold cI, cO, act; rewrite ?pre_0, ?cnt_nil; try lia;
        try (unfold ne, num_edges, zlen; lia); try (intros; rewrite ?pre_0, ?cnt_nil in *; lia).
      + unfold zlen. rewrite repeat_length. reflexivity.
      + unfold zlen. rewrite repeat_length. reflexivity.
      + intros e Re. rewrite zat_repeat; [rewrite ?cnt_nil; lia|exact Re].
      + intros u Ru. left. split; [apply zat_repeat; exact Ru|]. intros e [A _]. unfold cI in A. rewrite pre_0, cnt_nil in A. lia.
      + intros e1 e2 [A _]. unfold cI in A. rewrite pre_0, cnt_nil in A. lia.
    - constructor; try lia; try (unfold NS, M, num_sites, num_mutations, zlen; lia).
      + intro P. destruct (site_fin 0 ltac:(lia)). lia.
      + intro P. destruct (HMR 0 ltac:(unfold M in *; lia)) as [RS _]. unfold ms. lia.
  Qed.

  Theorem sweep_sound n :
    length II = length (edge_left t) -> length OO = length (edge_left t) ->
    check_tree_integrity_with v t II OO = Ok n ->
    InsertionOK t II /\ RemovalSorted t OO /\ (fix_f1 v = true -> IsPerm t OO) /\
    ChildIntervalsDisjoint t /\ MutBelowParentNodeOK t.
  Proof.
    intros LI LO H. unfold check_tree_integrity_with in H.
    stepn H sf GS. stepn H uf GT. clear H.
    apply sweep_inv in GS; [|apply sinv_init]. destruct GS as [[x [EX [INV MINV]]] EXIT].
    rewrite EX, HL in EXIT. apply orb_false_iff in EXIT as [E1 E2]. fold ne in E1. rewrite flt_fin in E2. b2z.
    assert (EJ : sw_j sf = ne) by (destruct INV; lia).
    assert (EXL : x = Lz) by (destruct INV; lia). subst x. rewrite EJ in *.
    assert (LI' : zlen II = ne) by (unfold zlen, ne, num_edges; rewrite LI; reflexivity).
    assert (LO' : zlen OO = ne) by (unfold zlen, ne, num_edges; rewrite LO; reflexivity).
    assert (NE0 : 0 <= ne) by (unfold ne, num_edges, zlen; lia).
    assert (PI : pre II ne = II) by (rewrite <- LI'; apply pre_all).
    assert (PO : pre OO ne = OO) by (rewrite <- LO'; apply pre_all).
    destruct INV as [Ij Ik Ix Lp Lu Cn Us Pa A1 Dj Rg oI oO sI sO].
    (* the insertion order is a permutation *)
    assert (PERM : Permutation II (zrange ne)).
    { apply perm_of_nodup; try assumption.
      - apply cnt_NoDup. intro e. specialize (Cn e). unfold cI in Cn. rewrite PI in Cn. lia.
      - intros e He. apply Rg. unfold cI. rewrite PI. apply cnt_In. assumption. }
    assert (ALL : forall e, 0 <= e < ne -> cI ne e >= 1).
    { intros e Re. unfold cI. rewrite PI. apply cnt_In. apply (perm_zrange_In _ _ _ PERM). assumption. }
    assert (ZIR : forall a, 0 <= a < ne -> 0 <= zat II a < ne).
    { intros a Ra. destruct (HI a Ra) as [[e [Ge Re]] _]. rewrite (zat_aget _ _ _ Ge). exact Re. }
    assert (ZOR : forall a, 0 <= a < ne -> 0 <= zat OO a < ne).
    { intros a Ra. destruct (HI a Ra) as [_ [e [Ge Re]]]. rewrite (zat_aget _ _ _ Ge). exact Re. }
    (* the trailing loop *)
    assert (T0 : tinv (sw_k sf) (sw_used sf)).
    { split; [lia|]. split; [assumption|]. split; [assumption|]. intros _. split; assumption. }
    apply tail_loop_inv in GT; [|assumption]. destruct GT as [_ [_ [SO' FX]]].
    split; [|split; [|split; [|split]]].
    - split; [exact PERM|]. intros a Ra.
      destruct (edge_fin _ (ZIR (a - 1) ltac:(lia))) as [E1' _]. destruct (edge_fin _ (ZIR a ltac:(lia))) as [E2' _].
      rewrite E1', E2', fle_fin. apply Z.leb_le. apply sI. lia.
    - intros a Ra.
      destruct (edge_fin _ (ZOR (a - 1) ltac:(lia))) as [_ [E1' _]]. destruct (edge_fin _ (ZOR a ltac:(lia))) as [_ [E2' _]].
      rewrite E1', E2', fle_fin. apply Z.leb_le. apply SO'. lia.
    - intro F. destruct (FX F) as [Cn' _]. apply perm_of_nodup; try assumption.
      + apply cnt_NoDup. intro e. specialize (Cn' e). unfold cO in Cn'. rewrite PO in Cn'. lia.
      + intros e He. apply In_nth with (d := 0) in He as [n0 [Ln En]]. 
        specialize (ZOR (Z.of_nat n0) ltac:(unfold zlen in LO'; lia)). unfold zat in ZOR.
        rewrite Nat2Z.id, En in ZOR. exact ZOR.
    - intros a b Ra Rb NE EQ.
      destruct (edge_fin a Ra) as [La [Ra' _]]. destruct (edge_fin b Rb) as [Lb [Rb' _]].
      rewrite La, Ra', Lb, Rb', !fle_fin.
      destruct (Dj a b (ALL a Ra) (ALL b Rb) NE EQ); [left|right]; apply Z.leb_le; assumption.
    - destruct MINV as [Msc Mmc Mpos Mnext Mcons Mnextm MG].
      assert (SC : sw_site sf = NS).
      { destruct (Z.eq_dec (sw_site sf) NS); [assumption|]. exfalso.
        specialize (Mnext ltac:(lia)). destruct (site_fin (sw_site sf) ltac:(lia)). lia. }
      assert (MC : sw_mut sf = M).
      { destruct (Z.eq_dec (sw_mut sf) M); [assumption|]. exfalso.
        specialize (Mnextm ltac:(lia)). destruct (HMR (sw_mut sf) ltac:(unfold M in *; lia)) as [RS _].
        unfold ms, NS in *. lia. }
      intros m Rm K e Re EQ C1 C2.
      destruct (HMR m Rm) as [RS [RN _]].
      destruct (site_fin _ RS) as [PF _]. destruct (edge_fin e Re) as [Le [Re' [_ [_ [RP _]]]]].
      fold (ep e). rewrite (mut_fin m Rm K), (node_fin _ RP), flt_fin.
      rewrite Le, PF, fle_fin in C1. rewrite PF, Re', flt_fin in C2. b2z.
      destruct (MG m ltac:(lia) K e Re EQ ltac:(unfold ms; lia)) as [Q|Q].
      + apply Z.ltb_lt. exact Q.
      + specialize (ALL e Re). lia.
  Qed.
End SweepSound.
