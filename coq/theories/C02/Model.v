(* C02/Model.v — executable model of the tree-sequence gate of tskit:
     c/tskit/tables.c  check_offsets                                   (l. 467-491)
                       tsk_table_collection_check_offsets              (l. 10380-10428)
                       tsk_table_collection_check_node_integrity       (l. 10430-10463)
                       tsk_table_collection_check_edge_integrity       (l. 10465-10576)
                       tsk_table_collection_check_site_integrity       (l. 10578-10614)
                       tsk_table_collection_check_mutation_integrity   (l. 10616-10729)
                       tsk_table_collection_check_migration_integrity  (l. 10731-10794)
                       tsk_table_collection_check_individual_integrity (l. 10796-10831)
                       tsk_table_collection_check_tree_integrity       (l. 10833-10960)
                       tsk_table_collection_check_index_integrity      (l. 10962-10987)
                       tsk_table_collection_check_integrity            (l. 10989-11049)
                       tsk_table_collection_build_index, cmp_index_sort (l. 11305-11370, 10362-10378)
     c/tskit/trees.c   tsk_treeseq_init  (the gate: check_integrity(TSK_CHECK_TREES))
     python/tskit/tables.py  TableCollection.tree_sequence (build_index when has_index() is false)

   Definitions only (no proofs) so that the correspondence still runs if a proof breaks.
   The tables are *columnar*, as in C; every array read is a checked [get] so that an id
   used as an index before it has been range-checked is a visible [OOB] result.  Doubles
   are [Fl] (C02/Fl.v).  Allocation failures (TSK_ERR_NO_MEMORY) are not modelled.

   Two variants of the code are modelled, selected by a [variant] record:
     repaired : the code as it is in /repo since the fix commits e4937b5 (F1) and c14733b (F14);
                this is [code_variant], what the correspondence compares with
     faithful : the PINNED pre-fix code (380c75d), kept only as a historical record for the
                two [..._pinned_refuted] theorems *)
From Coq Require Import List ZArith Bool Lia.
From TskVerif Require Import Base.Common C02.Fl.
Import ListNotations.
Open Scope Z_scope.

(* ---- error codes (c/tskit/core.h; the harness reads the header of the tree under test
        and maps the implementation's TSK_ERR name to its number) ---- *)
Definition E_BAD_OFFSET := -200.
Definition E_NODE_OUT_OF_BOUNDS := -202.
Definition E_EDGE_OUT_OF_BOUNDS := -203.
Definition E_POPULATION_OUT_OF_BOUNDS := -204.
Definition E_SITE_OUT_OF_BOUNDS := -205.
Definition E_MUTATION_OUT_OF_BOUNDS := -206.
Definition E_INDIVIDUAL_OUT_OF_BOUNDS := -207.
Definition E_TIME_NONFINITE := -210.
Definition E_GENOME_COORDS_NONFINITE := -211.
Definition E_NULL_PARENT := -300.
Definition E_NULL_CHILD := -301.
Definition E_EDGES_NOT_SORTED_PARENT_TIME := -302.
Definition E_EDGES_NONCONTIGUOUS_PARENTS := -303.
Definition E_EDGES_NOT_SORTED_CHILD := -304.
Definition E_EDGES_NOT_SORTED_LEFT := -305.
Definition E_BAD_NODE_TIME_ORDERING := -306.
Definition E_BAD_EDGE_INTERVAL := -307.
Definition E_DUPLICATE_EDGES := -308.
Definition E_RIGHT_GREATER_SEQ_LENGTH := -309.
Definition E_LEFT_LESS_ZERO := -310.
Definition E_BAD_EDGES_CONTRADICTORY_CHILDREN := -311.
Definition E_UNSORTED_SITES := -400.
Definition E_DUPLICATE_SITE_POSITION := -401.
Definition E_BAD_SITE_POSITION := -402.
Definition E_MUTATION_PARENT_DIFFERENT_SITE := -500.
Definition E_MUTATION_PARENT_EQUAL := -501.
Definition E_MUTATION_PARENT_AFTER_CHILD := -502.
Definition E_UNSORTED_MUTATIONS := -504.
Definition E_MUTATION_TIME_YOUNGER_THAN_NODE := -506.
Definition E_MUTATION_TIME_OLDER_THAN_PARENT_MUTATION := -507.
Definition E_MUTATION_TIME_OLDER_THAN_PARENT_NODE := -508.
Definition E_MUTATION_TIME_HAS_BOTH_KNOWN_AND_UNKNOWN := -509.
Definition E_UNSORTED_MIGRATIONS := -550.
Definition E_BAD_SEQUENCE_LENGTH := -701.
Definition E_TABLES_NOT_INDEXED := -702.
Definition E_TREE_OVERFLOW := -705.
Definition E_TABLES_BAD_INDEXES := -707.
Definition E_UNSORTED_INDIVIDUALS := -1700.
Definition E_INDIVIDUAL_SELF_PARENT := -1701.

Definition TSK_NULL := -1.
Definition TSK_MAX_ID := 2147483646.   (* INT32_MAX - 1 *)

(* ---- tables (columnar) ---- *)
Record tables := mkTables {
  seqlen : Fl;
  npop : Z;                         (* populations.num_rows *)
  nind : Z;                         (* individuals.num_rows *)
  ind_parents : list Z;             (* individuals.parents (flat) *)
  ind_parents_offset : list Z;      (* individuals.parents_offset, nind+1 entries *)
  node_time : list Fl; node_pop : list Z; node_ind : list Z;
  edge_left : list Fl; edge_right : list Fl; edge_parent : list Z; edge_child : list Z;
  site_pos : list Fl;
  mut_site : list Z; mut_node : list Z; mut_parent : list Z; mut_time : list Fl;
  mig_left : list Fl; mig_right : list Fl; mig_node : list Z; mig_source : list Z;
  mig_dest : list Z; mig_time : list Fl;
  (* the 8 ragged columns re-validated by tsk_table_collection_check_offsets, in its order:
     (num_rows, offset column, data length) *)
  ragged : list (Z * list Z * Z);
  (* Some (I, O) iff tsk_table_collection_has_index: both arrays present and
     indexes.num_edges == edges.num_rows *)
  idx : option (list Z * list Z)
}.

Definition num_nodes t := zlen (node_time t).
Definition num_edges t := zlen (edge_left t).
Definition num_sites t := zlen (site_pos t).
Definition num_mutations t := zlen (mut_site t).
Definition num_migrations t := zlen (mig_left t).

(* ---- options (tables.h, the TSK_CHECK flags) ---- *)
Record opts := mkOpts {
  o_edge_ordering : bool; o_site_ordering : bool; o_site_duplicates : bool;
  o_mutation_ordering : bool; o_individual_ordering : bool; o_migration_ordering : bool;
  o_indexes : bool; o_trees : bool; o_no_check_population_refs : bool }.

Definition opts_none := mkOpts false false false false false false false false false.
Definition opts_trees := mkOpts false false false false false false false true false.
Definition opts_edge_ordering := mkOpts true false false false false false false false false.

(* l. 10995-11000: "Checking the trees implies these checks" *)
Definition imply_trees (o : opts) : opts :=
  if o_trees o then
    mkOpts true true true true (o_individual_ordering o) true true true (o_no_check_population_refs o)
  else o.

(* ---- which code is modelled ---- *)
Record variant := mkVariant {
  fix_f1 : bool;    (* trailing loop of check_tree_integrity also tests used_edges[e] != 1 *)
  fix_f14 : bool    (* sequence_length must be finite (not only "not <= 0") *)
}.
Definition faithful := mkVariant false false.   (* pinned pre-fix code *)
Definition repaired := mkVariant true true.     (* current code *)
Definition pinned := faithful.

(* ---- checked array access ----
   [aget]/[aset] are Base.Common's checked [get]/[set] guarded by an explicit bounds test, so
   that evaluating the model on ids such as 2^31-1 never converts a huge Z to a unary nat.
   C02/Arr proves  aget l i = get l i  and  aset l i a = set l i a. *)
Definition aget {A} (l : list A) (i : Z) : res A :=
  if (i <? 0) || (zlen l <=? i) then OOB else get l i.
Definition aset {A} (l : list A) (i : Z) (a : A) : res (list A) :=
  if (i <? 0) || (zlen l <=? i) then OOB else set l i a.

(* ---- loops ---- *)
(* for (j = j0; j < j0 + n; j++) s = body(j, s) *)
Fixpoint for_loop {S : Type} (n : nat) (j : Z) (body : Z -> S -> res S) (s : S) : res S :=
  match n with
  | O => Ok s
  | S n' => do s' <- body j s; for_loop n' (j + 1) body s'
  end.

Definition err_if {A} (b : bool) (code : Z) (k : res A) : res A := if b then Err code else k.
Notation "'check!' b 'else' c ; k" := (err_if b c k) (at level 200, b at level 100, c at level 100, k at level 200).

(* ---- check_offsets (l. 467-491), check_length = true ---- *)
Definition check_offsets (num_rows : Z) (offsets : list Z) (length : Z) : res unit :=
  do o0 <- aget offsets 0;
  check! negb (o0 =? 0) else E_BAD_OFFSET;
  do on <- aget offsets num_rows;
  check! negb (on =? length) else E_BAD_OFFSET;
  for_loop (Z.to_nat num_rows) 0 (fun j _ =>
    do a <- aget offsets j; do b <- aget offsets (j + 1);
    check! (a >? b) else E_BAD_OFFSET; Ok tt) tt.

Fixpoint check_all_offsets (l : list (Z * list Z * Z)) : res unit :=
  match l with
  | [] => Ok tt
  | (n, o, len) :: rest => do _ <- check_offsets n o len; check_all_offsets rest
  end.

(* ---- nodes (l. 10430-10463) ---- *)
Definition check_node_integrity (o : opts) (t : tables) : res unit :=
  for_loop (length (node_time t)) 0 (fun j _ =>
    do tm <- aget (node_time t) j;
    check! negb (isfinite tm) else E_TIME_NONFINITE;
    do _ <- (if negb (o_no_check_population_refs o) then
               do p <- aget (node_pop t) j;
               check! (p <? TSK_NULL) || (p >=? npop t) else E_POPULATION_OUT_OF_BOUNDS; Ok tt
             else Ok tt);
    do i <- aget (node_ind t) j;
    check! (i <? TSK_NULL) || (i >=? nind t) else E_INDIVIDUAL_OUT_OF_BOUNDS;
    Ok tt) tt.

(* ---- edges (l. 10465-10576) ---- *)
Record edge_state := mkES { parent_seen : list bool; last_parent : Z; last_child : Z; last_left : Fl }.

Definition edge_body (o : opts) (t : tables) (j : Z) (s : edge_state) : res edge_state :=
  do parent <- aget (edge_parent t) j;
  do child <- aget (edge_child t) j;
  do left <- aget (edge_left t) j;
  do right <- aget (edge_right t) j;
  check! (parent =? TSK_NULL) else E_NULL_PARENT;
  check! (parent <? 0) || (parent >=? num_nodes t) else E_NODE_OUT_OF_BOUNDS;
  check! (child =? TSK_NULL) else E_NULL_CHILD;
  check! (child <? 0) || (child >=? num_nodes t) else E_NODE_OUT_OF_BOUNDS;
  check! negb (isfinite left && isfinite right) else E_GENOME_COORDS_NONFINITE;
  check! flt left F0 else E_LEFT_LESS_ZERO;
  check! fgt right (seqlen t) else E_RIGHT_GREATER_SEQ_LENGTH;
  check! fge left right else E_BAD_EDGE_INTERVAL;
  do tc <- aget (node_time t) child;
  do tp <- aget (node_time t) parent;
  check! fge tc tp else E_BAD_NODE_TIME_ORDERING;
  if o_edge_ordering o then
    do seen <- aget (parent_seen s) parent;
    check! seen else E_EDGES_NONCONTIGUOUS_PARENTS;
    do ps <-
      (if j >? 0 then
         do tl <- aget (node_time t) (last_parent s);
         check! flt tp tl else E_EDGES_NOT_SORTED_PARENT_TIME;
         if feq tp tl then
           if parent =? last_parent s then
             check! (child <? last_child s) else E_EDGES_NOT_SORTED_CHILD;
             if child =? last_child s then
               check! feq left (last_left s) else E_DUPLICATE_EDGES;
               check! flt left (last_left s) else E_EDGES_NOT_SORTED_LEFT;
               Ok (parent_seen s)
             else Ok (parent_seen s)
           else aset (parent_seen s) (last_parent s) true
         else Ok (parent_seen s)
       else Ok (parent_seen s));
    Ok (mkES ps parent child left)
  else Ok s.

Definition check_edge_integrity (o : opts) (t : tables) : res unit :=
  do _ <- for_loop (length (edge_left t)) 0 (edge_body o t)
            (mkES (repeat false (length (node_time t))) 0 0 F0);
  Ok tt.

(* ---- sites (l. 10578-10614) ---- *)
Definition check_site_integrity (o : opts) (t : tables) : res unit :=
  for_loop (length (site_pos t)) 0 (fun j _ =>
    do pos <- aget (site_pos t) j;
    check! negb (isfinite pos) else E_BAD_SITE_POSITION;
    check! flt pos F0 || fge pos (seqlen t) else E_BAD_SITE_POSITION;
    if j >? 0 then
      do prev <- aget (site_pos t) (j - 1);
      check! o_site_duplicates o && feq prev pos else E_DUPLICATE_SITE_POSITION;
      check! o_site_ordering o && fgt prev pos else E_UNSORTED_SITES;
      Ok tt
    else Ok tt) tt.

(* ---- mutations (l. 10616-10729) ---- *)
Record mut_state := mkMS { last_known_time : Fl; num_known : Z; num_unknown : Z }.

Definition mut_body (o : opts) (t : tables) (j : Z) (s : mut_state) : res mut_state :=
  do site <- aget (mut_site t) j;
  check! (site <? 0) || (site >=? num_sites t) else E_SITE_OUT_OF_BOUNDS;
  do node <- aget (mut_node t) j;
  check! (node <? 0) || (node >=? num_nodes t) else E_NODE_OUT_OF_BOUNDS;
  do parent_mut <- aget (mut_parent t) j;
  check! (parent_mut <? TSK_NULL) || (parent_mut >=? num_mutations t) else E_MUTATION_OUT_OF_BOUNDS;
  check! (parent_mut =? j) else E_MUTATION_PARENT_EQUAL;
  do mt <- aget (mut_time t) j;
  let unknown := is_unknown mt in
  do _ <- (if negb unknown then
             check! negb (isfinite mt) else E_TIME_NONFINITE;
             do nt <- aget (node_time t) node;
             check! flt mt nt else E_MUTATION_TIME_YOUNGER_THAN_NODE; Ok tt
           else Ok tt);
  (* reset checks when reaching a new site *)
  do s1 <- (if j >? 0 then
              do prev_site <- aget (mut_site t) (j - 1);
              if negb (prev_site =? site) then Ok (mkMS FPInf 0 0) else Ok s
            else Ok s);
  let nu := if unknown then num_unknown s1 + 1 else num_unknown s1 in
  let nk := if unknown then num_known s1 else num_known s1 + 1 in
  check! (nu >? 0) && (nk >? 0) else E_MUTATION_TIME_HAS_BOTH_KNOWN_AND_UNKNOWN;
  do _ <- (if negb (parent_mut =? TSK_NULL) then
             do psite <- aget (mut_site t) parent_mut;
             check! negb (psite =? site) else E_MUTATION_PARENT_DIFFERENT_SITE;
             if negb unknown then
               do pt <- aget (mut_time t) parent_mut;
               check! fgt mt pt else E_MUTATION_TIME_OLDER_THAN_PARENT_MUTATION; Ok tt
             else Ok tt
           else Ok tt);
  if o_mutation_ordering o then
    do _ <- (if j >? 0 then
               do prev_site <- aget (mut_site t) (j - 1);
               check! (prev_site >? site) else E_UNSORTED_MUTATIONS; Ok tt
             else Ok tt);
    check! negb (parent_mut =? TSK_NULL) && (parent_mut >? j) else E_MUTATION_PARENT_AFTER_CHILD;
    if negb unknown then
      check! fgt mt (last_known_time s1) else E_UNSORTED_MUTATIONS;
      Ok (mkMS mt nk nu)
    else Ok (mkMS (last_known_time s1) nk nu)
  else Ok (mkMS (last_known_time s1) nk nu).

Definition check_mutation_integrity (o : opts) (t : tables) : res unit :=
  do _ <- for_loop (length (mut_site t)) 0 (mut_body o t) (mkMS FPInf 0 0);
  Ok tt.

(* ---- migrations (l. 10731-10794) ---- *)
Definition check_migration_integrity (o : opts) (t : tables) : res unit :=
  for_loop (length (mig_left t)) 0 (fun j _ =>
    do node <- aget (mig_node t) j;
    check! (node <? 0) || (node >=? num_nodes t) else E_NODE_OUT_OF_BOUNDS;
    do _ <- (if negb (o_no_check_population_refs o) then
               do src <- aget (mig_source t) j;
               check! (src <? 0) || (src >=? npop t) else E_POPULATION_OUT_OF_BOUNDS;
               do dst <- aget (mig_dest t) j;
               check! (dst <? 0) || (dst >=? npop t) else E_POPULATION_OUT_OF_BOUNDS; Ok tt
             else Ok tt);
    do tm <- aget (mig_time t) j;
    check! negb (isfinite tm) else E_TIME_NONFINITE;
    do _ <- (if j >? 0 then
               do prev <- aget (mig_time t) (j - 1);
               check! o_migration_ordering o && fgt prev tm else E_UNSORTED_MIGRATIONS; Ok tt
             else Ok tt);
    do left <- aget (mig_left t) j;
    do right <- aget (mig_right t) j;
    check! negb (isfinite left && isfinite right) else E_GENOME_COORDS_NONFINITE;
    check! flt left F0 else E_LEFT_LESS_ZERO;
    check! fgt right (seqlen t) else E_RIGHT_GREATER_SEQ_LENGTH;
    check! fge left right else E_BAD_EDGE_INTERVAL;
    Ok tt) tt.

(* ---- individuals (l. 10796-10831) ---- *)
Definition check_individual_integrity (o : opts) (t : tables) : res unit :=
  for_loop (Z.to_nat (nind t)) 0 (fun j _ =>
    do a <- aget (ind_parents_offset t) j;
    do b <- aget (ind_parents_offset t) (j + 1);
    for_loop (Z.to_nat (b - a)) a (fun k _ =>
      do p <- aget (ind_parents t) k;
      check! negb (p =? TSK_NULL) && ((p <? 0) || (p >=? nind t)) else E_INDIVIDUAL_OUT_OF_BOUNDS;
      check! (p =? j) else E_INDIVIDUAL_SELF_PARENT;
      check! o_individual_ordering o && negb (p =? TSK_NULL) && (p >=? j) else E_UNSORTED_INDIVIDUALS;
      Ok tt) tt) tt.

(* ---- index (l. 10962-10987) ---- *)
Definition check_index_integrity (t : tables) : res unit :=
  match idx t with
  | None => Err E_TABLES_NOT_INDEXED
  | Some (Iord, Oord) =>
      for_loop (length (edge_left t)) 0 (fun j _ =>
        do a <- aget Iord j;
        check! (a <? 0) || (a >=? num_edges t) else E_EDGE_OUT_OF_BOUNDS;
        do b <- aget Oord j;
        check! (b <? 0) || (b >=? num_edges t) else E_EDGE_OUT_OF_BOUNDS;
        Ok tt) tt
  end.

(* ---- trees (l. 10833-10960) ---- *)
Record sweep_state := mkSW {
  sw_j : Z; sw_k : Z; sw_left : Fl; sw_parent : list Z; sw_used : list Z;
  sw_site : Z; sw_mut : Z; sw_trees : Z }.

Section Sweep.
  Variable v : variant.
  Variable t : tables.
  Variables Iord Oord : list Z.
  Let ne := num_edges t.

  (* l. 10878-10887: while (k < num_edges && edge_right[O[k]] == tree_left) *)
  Fixpoint out_loop (fuel : nat) (tl : Fl) (k : Z) (par used : list Z) : res (Z * list Z * list Z) :=
    match fuel with
    | O => Fuel
    | S f =>
        if k <? ne then
          do e <- aget Oord k;
          do r <- aget (edge_right t) e;
          if feq r tl then
            do u <- aget used e;
            check! negb (u =? 1) else E_TABLES_BAD_INDEXES;
            do c <- aget (edge_child t) e;
            do par' <- aset par c TSK_NULL;
            do used' <- aset used e (u + 1);
            out_loop f tl (k + 1) par' used'
          else Ok (k, par, used)
        else Ok (k, par, used)
    end.

  (* l. 10888-10902: while (j < num_edges && edge_left[I[j]] == tree_left) *)
  Fixpoint in_loop (fuel : nat) (tl : Fl) (j : Z) (par used : list Z) : res (Z * list Z * list Z) :=
    match fuel with
    | O => Fuel
    | S f =>
        if j <? ne then
          do e <- aget Iord j;
          do l <- aget (edge_left t) e;
          if feq l tl then
            do u <- aget used e;
            check! negb (u =? 0) else E_TABLES_BAD_INDEXES;
            do used' <- aset used e (u + 1);
            do c <- aget (edge_child t) e;
            do pc <- aget par c;
            check! negb (pc =? TSK_NULL) else E_BAD_EDGES_CONTRADICTORY_CHILDREN;
            do p <- aget (edge_parent t) e;
            do par' <- aset par c p;
            in_loop f tl (j + 1) par' used'
          else Ok (j, par, used)
        else Ok (j, par, used)
    end.

  (* l. 10911-10920: while (mutation < num_mutations && mutation_site[mutation] == site) *)
  Fixpoint mut_loop (fuel : nat) (par : list Z) (site m : Z) : res Z :=
    match fuel with
    | O => Fuel
    | S f =>
        if m <? num_mutations t then
          do ms <- aget (mut_site t) m;
          if ms =? site then
            do mt <- aget (mut_time t) m;
            do _ <- (if negb (is_unknown mt) then
                       do nd <- aget (mut_node t) m;
                       do p <- aget par nd;
                       if negb (p =? TSK_NULL) then
                         do pt <- aget (node_time t) p;
                         check! fle pt mt else E_MUTATION_TIME_OLDER_THAN_PARENT_NODE; Ok tt
                       else Ok tt
                     else Ok tt);
            mut_loop f par site (m + 1)
          else Ok m
        else Ok m
    end.

  (* l. 10910-10922: while (site < num_sites && site_position[site] < tree_right) *)
  Fixpoint site_loop (fuel : nat) (par : list Z) (tr : Fl) (site m : Z) : res (Z * Z) :=
    match fuel with
    | O => Fuel
    | S f =>
        if site <? num_sites t then
          do pos <- aget (site_pos t) site;
          if flt pos tr then
            do m' <- mut_loop (S (Z.to_nat (num_mutations t - m))) par site m;
            site_loop f par tr (site + 1) m'
          else Ok (site, m)
        else Ok (site, m)
    end.

  (* one iteration of the main loop, l. 10877-10936 *)
  Definition sweep_step (s : sweep_state) : res sweep_state :=
    let tl := sw_left s in
    do '(k, par, used) <- out_loop (S (Z.to_nat (ne - sw_k s))) tl (sw_k s) (sw_parent s) (sw_used s);
    do '(j, par, used) <- in_loop (S (Z.to_nat (ne - sw_j s))) tl (sw_j s) par used;
    let tr := seqlen t in
    do tr <- (if j <? ne then do e <- aget Iord j; do l <- aget (edge_left t) e; Ok (fmin tr l) else Ok tr);
    do tr <- (if k <? ne then do e <- aget Oord k; do r <- aget (edge_right t) e; Ok (fmin tr r) else Ok tr);
    do '(site, m) <- site_loop (S (Z.to_nat (num_sites t - sw_site s))) par tr (sw_site s) (sw_mut s);
    check! fle tr tl else E_TABLES_BAD_INDEXES;
    check! (sw_trees s =? TSK_MAX_ID) else E_TREE_OVERFLOW;
    Ok (mkSW j k tr par used site m (sw_trees s + 1)).

  (* while (j < num_edges || tree_left < sequence_length) *)
  Fixpoint sweep (fuel : nat) (s : sweep_state) : res sweep_state :=
    if (sw_j s <? ne) || flt (sw_left s) (seqlen t) then
      match fuel with
      | O => Fuel
      | S f => do s' <- sweep_step s; sweep f s'
      end
    else Ok s.

  (* l. 10938-10949: trailing loop over the rest of the removal order.
     [fix_f1 v] adds the missing test of used_edges (finding F1). *)
  Definition tail_loop (k : Z) (used : list Z) : res (list Z) :=
    for_loop (Z.to_nat (ne - k)) k (fun k used =>
      do e <- aget Oord k;
      do r <- aget (edge_right t) e;
      check! fne r (seqlen t) else E_TABLES_BAD_INDEXES;
      do u <- aget used e;
      check! fix_f1 v && negb (u =? 1) else E_TABLES_BAD_INDEXES;
      aset used e (u + 1)) used.

  (* every non-failing iteration but the first and at most one more consumes an index entry *)
  Definition sweep_fuel : nat := S (S (Z.to_nat (2 * ne))).

  Definition check_tree_integrity_with : res Z :=
    let s0 := mkSW 0 0 F0 (repeat TSK_NULL (length (node_time t))) (repeat 0 (length (edge_left t))) 0 0 0 in
    do s <- sweep sweep_fuel s0;
    (* tsk_bug_assert(j == num_edges) holds by the loop condition *)
    do _ <- tail_loop (sw_k s) (sw_used s);
    Ok (sw_trees s).
End Sweep.

Definition check_tree_integrity (v : variant) (t : tables) : res Z :=
  match idx t with
  | None => OOB        (* unreachable: check_index_integrity has returned TABLES_NOT_INDEXED *)
  | Some (Iord, Oord) => check_tree_integrity_with v t Iord Oord
  end.

(* ---- tsk_table_collection_check_integrity (l. 10989-11049) ---- *)
Definition check_integrity (v : variant) (options : opts) (t : tables) : res Z :=
  let o := imply_trees options in
  check! fle (seqlen t) F0 || (fix_f14 v && negb (isfinite (seqlen t))) else E_BAD_SEQUENCE_LENGTH;
  do _ <- check_all_offsets (ragged t);
  do _ <- check_node_integrity o t;
  do _ <- check_edge_integrity o t;
  do _ <- check_site_integrity o t;
  do _ <- check_mutation_integrity o t;
  do _ <- check_migration_integrity o t;
  do _ <- check_individual_integrity o t;
  do _ <- (if o_indexes o then check_index_integrity t else Ok tt);
  if o_trees o then check_tree_integrity v t else Ok 0.

(* ---- the variant the correspondence uses (the code as it is in /repo, post-fix) ---- *)
Definition code_variant : variant := repaired.

(* tsk_treeseq_init: num_trees = check_integrity(tables, TSK_CHECK_TREES) *)
Definition check (t : tables) : res Z := check_integrity code_variant opts_trees t.
Definition check_repaired (t : tables) : res Z := check_integrity repaired opts_trees t.

(* ---- build_index (l. 11305-11370) ---- *)
(* cmp_index_sort on (first, second : double; third, fourth : id) — strictly less *)
Definition key := (Fl * Fl * Z * Z * Z)%type.   (* first, second, third, fourth, index *)
Definition key_lt (a b : key) : bool :=
  let '(a1, a2, a3, a4, _) := a in
  let '(b1, b2, b3, b4, _) := b in
  if flt a1 b1 then true else if fgt a1 b1 then false else
  if flt a2 b2 then true else if fgt a2 b2 then false else
  if a3 <? b3 then true else if a3 >? b3 then false else
  a4 <? b4.

Fixpoint insert_key (x : key) (l : list key) : list key :=
  match l with
  | [] => [x]
  | y :: r => if key_lt y x then y :: insert_key x r else x :: l
  end.
Definition sort_keys (l : list key) : list key := fold_right insert_key [] l.

Definition edge_keys (t : tables) (removal : bool) : res (list key) :=
  for_loop (length (edge_left t)) 0 (fun j acc =>
    do l <- aget (edge_left t) j; do r <- aget (edge_right t) j;
    do p <- aget (edge_parent t) j; do c <- aget (edge_child t) j;
    do tp <- aget (node_time t) p;
    Ok (acc ++ [if removal then (r, fneg tp, - p, - c, j) else (l, tp, p, c, j)])) [].

Definition with_index (t : tables) (i : option (list Z * list Z)) : tables :=
  mkTables (seqlen t) (npop t) (nind t) (ind_parents t) (ind_parents_offset t)
           (node_time t) (node_pop t) (node_ind t)
           (edge_left t) (edge_right t) (edge_parent t) (edge_child t) (site_pos t)
           (mut_site t) (mut_node t) (mut_parent t) (mut_time t)
           (mig_left t) (mig_right t) (mig_node t) (mig_source t) (mig_dest t) (mig_time t)
           (ragged t) i.

Definition build_index (t : tables) : res tables :=
  do _ <- check_integrity code_variant opts_edge_ordering t;
  do ki <- edge_keys t false;
  do ko <- edge_keys t true;
  let ix k := let '(_, _, _, _, j) := k in j in
  Ok (with_index t (Some (map ix (sort_keys ki), map ix (sort_keys ko)))).

(* TableCollection.tree_sequence(): if not has_index(): build_index(); then the gate *)
Definition tree_sequence_gate (t : tables) : res Z :=
  match idx t with
  | Some _ => check t
  | None => do t' <- build_index t; check t'
  end.

(* tskit.load / TreeSequence.load: tsk_treeseq_load = tsk_table_collection_load followed by
   tsk_treeseq_init(TSK_TAKE_OWNERSHIP) — no TSK_TS_INIT_BUILD_INDEXES, so a file without an
   index reaches check_index_integrity and is rejected with TSK_ERR_TABLES_NOT_INDEXED.  The
   kastore / column-length layer of tsk_table_collection_load is C05/C10's model; here the loaded
   tables are the input. *)
Definition load_gate (t : tables) : res Z := check t.

(* tskit.TreeSequence.load_tables(tables, build_indexes=b) = tsk_treeseq_init(copy of tables,
   b ? TSK_TS_INIT_BUILD_INDEXES : 0): with the option the index of the COPY is rebuilt
   unconditionally (trees.c l.455-460) before the gate; without it the gate alone. *)
Definition load_tables_gate (build : bool) (t : tables) : res Z :=
  if build then do t' <- build_index t; check t' else check t.

Definition res_eqb (a b : res Z) : bool :=
  match a, b with
  | Ok x, Ok y => x =? y
  | Err x, Err y => x =? y
  | OOB, OOB => true
  | Fuel, Fuel => true
  | _, _ => false
  end.
