(* C02/ErrClass.v — which error the gate returns.  The checks run in a fixed order (sequence
   length, offsets, nodes, edges, sites, mutations, migrations, individuals, index, trees); the
   error returned for a rejected collection is one of the codes of the FIRST requirement group, in
   that order, that the collection violates.  For a single-field departure from a valid collection
   this pins the error class to the group of the damaged requirement. *)
From Coq Require Import List ZArith Bool Lia.
From TskVerif Require Import Base.Common C02.Fl C02.Model C02.Arr C02.Tac C02.Spec C02.TableSound
  C02.EdgeSound C02.MutSound C02.ListX C02.SweepSound C02.Sound C02.NoOOB C02.Complete
  C02.SweepComplete C02.Termination C02.Top.
Import ListNotations.
Open Scope Z_scope.

Definition erp {A} (S : list Z) (r : res A) : Prop := match r with Err c => In c S | _ => True end.

Lemma erp_bind {A B} S (r : res A) (f : A -> res B) : erp S r -> (forall a, erp S (f a)) -> erp S (bind r f).
Proof. destruct r; simpl; auto. Qed.
Lemma erp_aget {A B} S (l : list A) i (f : A -> res B) : (forall a, erp S (f a)) -> erp S (bind (aget l i) f).
Proof. intro H. destruct (aget l i) eqn:E; simpl; auto. exfalso. eapply aget_not_err; eauto. Qed.
Lemma erp_aset {A B} S (l : list A) i a (f : list A -> res B) : (forall l', erp S (f l')) -> erp S (bind (aset l i a) f).
Proof. intro H. destruct (aset l i a) eqn:E; simpl; auto. exfalso. eapply aset_not_err; eauto. Qed.
Lemma erp_aset_tail {A} S (l : list A) i a : erp S (aset l i a).
Proof. destruct (aset l i a) eqn:E; simpl; auto. exfalso. eapply aset_not_err; eauto. Qed.
Lemma erp_err_if {A} S b c (k : res A) : In c S -> erp S k -> erp S (err_if b c k).
Proof. destruct b; simpl; auto. Qed.
Lemma for_loop_erp {St} S (body : Z -> St -> res St) n j s :
  (forall i s1, erp S (body i s1)) -> erp S (for_loop n j body s).
Proof.
  intro H. revert j s; induction n as [|n IH]; intros j s; cbn [for_loop]; [exact I|].
  apply erp_bind; [apply H|]. intro; apply IH.
Qed.

Ltac ep :=
  repeat first
    [ exact I
    | apply erp_aget; intro
    | apply erp_aset; intro
    | apply erp_aset_tail
    | apply erp_err_if; [simpl; tauto|]
    | match goal with |- erp _ (if ?b then _ else _) => destruct b end
    | match goal with |- erp _ (bind (if ?b then _ else _) _) => apply erp_bind; [|intro] end
    | match goal with |- erp _ (Ok _) => exact I end ].

Definition seqlen_codes := [E_BAD_SEQUENCE_LENGTH].
Definition offset_codes := [E_BAD_OFFSET].
Definition node_codes := [E_TIME_NONFINITE; E_POPULATION_OUT_OF_BOUNDS; E_INDIVIDUAL_OUT_OF_BOUNDS].
Definition edge_codes := [E_NULL_PARENT; E_NODE_OUT_OF_BOUNDS; E_NULL_CHILD; E_GENOME_COORDS_NONFINITE;
  E_LEFT_LESS_ZERO; E_RIGHT_GREATER_SEQ_LENGTH; E_BAD_EDGE_INTERVAL; E_BAD_NODE_TIME_ORDERING;
  E_EDGES_NONCONTIGUOUS_PARENTS; E_EDGES_NOT_SORTED_PARENT_TIME; E_EDGES_NOT_SORTED_CHILD;
  E_DUPLICATE_EDGES; E_EDGES_NOT_SORTED_LEFT].
Definition site_codes := [E_BAD_SITE_POSITION; E_DUPLICATE_SITE_POSITION; E_UNSORTED_SITES].
Definition mut_codes := [E_SITE_OUT_OF_BOUNDS; E_NODE_OUT_OF_BOUNDS; E_MUTATION_OUT_OF_BOUNDS;
  E_MUTATION_PARENT_EQUAL; E_TIME_NONFINITE; E_MUTATION_TIME_YOUNGER_THAN_NODE;
  E_MUTATION_TIME_HAS_BOTH_KNOWN_AND_UNKNOWN; E_MUTATION_PARENT_DIFFERENT_SITE;
  E_MUTATION_TIME_OLDER_THAN_PARENT_MUTATION; E_UNSORTED_MUTATIONS; E_MUTATION_PARENT_AFTER_CHILD].
Definition mig_codes := [E_NODE_OUT_OF_BOUNDS; E_POPULATION_OUT_OF_BOUNDS; E_TIME_NONFINITE;
  E_UNSORTED_MIGRATIONS; E_GENOME_COORDS_NONFINITE; E_LEFT_LESS_ZERO; E_RIGHT_GREATER_SEQ_LENGTH;
  E_BAD_EDGE_INTERVAL].
Definition ind_codes := [E_INDIVIDUAL_OUT_OF_BOUNDS; E_INDIVIDUAL_SELF_PARENT; E_UNSORTED_INDIVIDUALS].
Definition index_codes := [E_TABLES_NOT_INDEXED; E_EDGE_OUT_OF_BOUNDS].
Definition tree_codes := [E_TABLES_BAD_INDEXES; E_BAD_EDGES_CONTRADICTORY_CHILDREN;
  E_MUTATION_TIME_OLDER_THAN_PARENT_NODE; E_TREE_OVERFLOW].

Lemma offsets_erp l : erp offset_codes (check_all_offsets l).
Proof.
  induction l as [|[[n o] len] r IH]; simpl; [exact I|].
  apply erp_bind; [|intro; exact IH]. unfold check_offsets. ep. apply for_loop_erp. intros. ep.
Qed.
Lemma nodes_erp o t : erp node_codes (check_node_integrity o t).
Proof. unfold check_node_integrity. apply for_loop_erp. intros. ep. Qed.
Lemma edges_erp o t : erp edge_codes (check_edge_integrity o t).
Proof.
  unfold check_edge_integrity. apply erp_bind; [|intro; exact I]. apply for_loop_erp. intros. unfold edge_body. ep.
Qed.
Lemma sites_erp o t : erp site_codes (check_site_integrity o t).
Proof. unfold check_site_integrity. apply for_loop_erp. intros. ep. Qed.
Lemma muts_erp o t : erp mut_codes (check_mutation_integrity o t).
Proof.
  unfold check_mutation_integrity. apply erp_bind; [|intro; exact I]. apply for_loop_erp. intros.
  unfold mut_body. ep.
Qed.
Lemma migs_erp o t : erp mig_codes (check_migration_integrity o t).
Proof. unfold check_migration_integrity. apply for_loop_erp. intros. ep. Qed.
Lemma inds_erp o t : erp ind_codes (check_individual_integrity o t).
Proof.
  unfold check_individual_integrity. apply for_loop_erp. intros. ep. apply for_loop_erp. intros. ep.
Qed.
Lemma index_erp t : erp index_codes (check_index_integrity t).
Proof.
  unfold check_index_integrity. destruct (idx t) as [[Io Oo]|]; [|simpl; tauto].
  apply for_loop_erp. intros. ep.
Qed.

Lemma out_loop_erp t OO tl fuel : forall k par used, erp tree_codes (out_loop t OO fuel tl k par used).
Proof. induction fuel as [|fuel IH]; intros; cbn [out_loop]; [exact I|]. ep. apply IH. Qed.
Lemma in_loop_erp t II tl fuel : forall j par used, erp tree_codes (in_loop t II fuel tl j par used).
Proof. induction fuel as [|fuel IH]; intros; cbn [in_loop]; [exact I|]. ep. apply IH. Qed.
Lemma mut_loop_erp t par site fuel : forall m, erp tree_codes (mut_loop t fuel par site m).
Proof.
  induction fuel as [|fuel IH]; intros; cbn [mut_loop]; [exact I|]. ep; apply IH.
Qed.
Lemma site_loop_erp t par tr fuel : forall site m, erp tree_codes (site_loop t fuel par tr site m).
Proof.
  induction fuel as [|fuel IH]; intros; cbn [site_loop]; [exact I|]. ep.
  apply erp_bind; [apply mut_loop_erp|intro; apply IH].
Qed.
Lemma sweep_erp t II OO fuel : forall s, erp tree_codes (sweep t II OO fuel s).
Proof.
  induction fuel as [|fuel IH]; intros; cbn [sweep].
  - destruct (_ || _); exact I.
  - destruct (_ || _); [|exact I]. apply erp_bind; [|intro; apply IH].
    unfold sweep_step. apply erp_bind; [apply out_loop_erp|]. intros [[k1 p1] u1].
    apply erp_bind; [apply in_loop_erp|]. intros [[j1 p2] u2].
    apply erp_bind; [ep|intro]. apply erp_bind; [ep|intro].
    apply erp_bind; [apply site_loop_erp|]. intros [s1 m1]. ep.
Qed.
Lemma tree_erp v t : erp tree_codes (check_tree_integrity v t).
Proof.
  unfold check_tree_integrity. destruct (idx t) as [[Io Oo]|]; [|exact I].
  unfold check_tree_integrity_with. apply erp_bind; [apply sweep_erp|intro].
  apply erp_bind; [|intro; exact I]. unfold tail_loop. apply for_loop_erp. intros. ep.
Qed.

Lemma phase_err S (r : res unit) : r <> OOB -> r <> Fuel -> r <> Ok tt -> erp S r ->
  exists c, In c S /\ r = Err c.
Proof. destruct r as [[]| | |]; simpl; intros; try congruence. eauto. Qed.

Definition EdgesOK t := EdgeRowsOK t /\ EdgeOrderOK t.
Definition MutsOK t := MutRowsOK t /\ MutOrderOK t /\ MutKnownUnknownOK t.
Definition TreesOK t := IndexOK t /\ ChildIntervalsDisjoint t /\ MutBelowParentNodeOK t.

Section Phases.
  Variable t : tables.
  Hypothesis W : WF t.

  Ltac seq_ok HL HLpos :=
    unfold check, check_integrity; fold oT; rewrite err_if_false;
    [|rewrite HL; unfold F0; rewrite fle_fin; simpl; rewrite orb_false_r; apply Z.leb_gt; lia].

  Lemma err_seqlen : ~ SeqlenOK t -> check t = Err E_BAD_SEQUENCE_LENGTH.
  Proof.
    intro N. unfold check, check_integrity. destruct (seqlen t) as [z| | | |] eqn:E; try reflexivity.
    destruct (Z_le_gt_dec z 0) as [L|G].
    - unfold F0. rewrite fle_fin. replace (z <=? 0) with true by (symmetry; apply Z.leb_le; lia). reflexivity.
    - exfalso. apply N. exists z. split; [assumption|lia].
  Qed.

  Lemma err_offsets : SeqlenOK t -> ~ OffsetsOK t -> check t = Err E_BAD_OFFSET.
  Proof.
    intros [Lz [HL HLpos]] N. seq_ok HL HLpos.
    destruct (phase_err offset_codes (check_all_offsets (ragged t))) as [c [I E]].
    - apply all_offsets_no_oob. apply (wf_ragged t W).
    - apply offsets_no_fuel.
    - intro H. apply N. apply offsets_sound. assumption.
    - apply offsets_erp.
    - rewrite E. simpl in I. destruct I as [I|[]]. subst. reflexivity.
  Qed.

  Lemma err_nodes : SeqlenOK t -> OffsetsOK t -> ~ NodesOK t ->
    exists c, In c node_codes /\ check t = Err c.
  Proof.
    intros [Lz [HL HLpos]] VO N. seq_ok HL HLpos. rewrite (offsets_complete t W VO). cbn [bind].
    destruct (phase_err node_codes (check_node_integrity oT t)) as [c [I E]].
    - apply nodes_no_oob; assumption.
    - apply nodes_no_fuel.
    - intro H. apply N. apply nodes_sound. assumption.
    - apply nodes_erp.
    - exists c. rewrite E. auto.
  Qed.

  Lemma err_edges : SeqlenOK t -> OffsetsOK t -> NodesOK t -> ~ EdgesOK t ->
    exists c, In c edge_codes /\ check t = Err c.
  Proof.
    intros [Lz [HL HLpos]] VO VN N. seq_ok HL HLpos. rewrite (offsets_complete t W VO). cbn [bind].
    rewrite (nodes_complete t oT eq_refl W VN). cbn [bind].
    destruct (phase_err edge_codes (check_edge_integrity oT t)) as [c [I E]].
    - apply edges_no_oob; assumption.
    - apply edges_no_fuel.
    - intro H. apply N. apply edges_sound; assumption.
    - apply edges_erp.
    - exists c. rewrite E. auto.
  Qed.

  Lemma err_sites : SeqlenOK t -> OffsetsOK t -> NodesOK t -> EdgesOK t -> ~ SitesOK t ->
    exists c, In c site_codes /\ check t = Err c.
  Proof.
    intros [Lz [HL HLpos]] VO VN [VE1 VE2] N. seq_ok HL HLpos. rewrite (offsets_complete t W VO). cbn [bind].
    rewrite (nodes_complete t oT eq_refl W VN). cbn [bind].
    rewrite (edges_complete t oT eq_refl W VN VE1 VE2). cbn [bind].
    destruct (phase_err site_codes (check_site_integrity oT t)) as [c [I E]].
    - apply sites_no_oob; assumption.
    - apply sites_no_fuel.
    - intro H. apply N. apply sites_sound. assumption.
    - apply sites_erp.
    - exists c. rewrite E. auto.
  Qed.

  Lemma err_muts : SeqlenOK t -> OffsetsOK t -> NodesOK t -> EdgesOK t -> SitesOK t -> ~ MutsOK t ->
    exists c, In c mut_codes /\ check t = Err c.
  Proof.
    intros [Lz [HL HLpos]] VO VN [VE1 VE2] VS N. seq_ok HL HLpos. rewrite (offsets_complete t W VO). cbn [bind].
    rewrite (nodes_complete t oT eq_refl W VN). cbn [bind].
    rewrite (edges_complete t oT eq_refl W VN VE1 VE2). cbn [bind].
    rewrite (sites_complete t oT VS). cbn [bind].
    destruct (phase_err mut_codes (check_mutation_integrity oT t)) as [c [I E]].
    - apply muts_no_oob; assumption.
    - apply muts_no_fuel.
    - intro H. apply N. apply muts_sound; assumption.
    - apply muts_erp.
    - exists c. rewrite E. auto.
  Qed.

  Lemma err_migs : SeqlenOK t -> OffsetsOK t -> NodesOK t -> EdgesOK t -> SitesOK t -> MutsOK t -> ~ MigsOK t ->
    exists c, In c mig_codes /\ check t = Err c.
  Proof.
    intros [Lz [HL HLpos]] VO VN [VE1 VE2] VS [VM1 [VM2 VM3]] N. seq_ok HL HLpos.
    rewrite (offsets_complete t W VO). cbn [bind].
    rewrite (nodes_complete t oT eq_refl W VN). cbn [bind].
    rewrite (edges_complete t oT eq_refl W VN VE1 VE2). cbn [bind].
    rewrite (sites_complete t oT VS). cbn [bind].
    rewrite (muts_complete t oT W VN VM1 VM2 VM3). cbn [bind].
    destruct (phase_err mig_codes (check_migration_integrity oT t)) as [c [I E]].
    - apply migs_no_oob; assumption.
    - apply migs_no_fuel.
    - intro H. apply N. apply migs_sound. assumption.
    - apply migs_erp.
    - exists c. rewrite E. auto.
  Qed.

  Lemma err_inds : SeqlenOK t -> OffsetsOK t -> NodesOK t -> EdgesOK t -> SitesOK t -> MutsOK t -> MigsOK t ->
    ~ IndsOK t -> exists c, In c ind_codes /\ check t = Err c.
  Proof.
    intros [Lz [HL HLpos]] VO VN [VE1 VE2] VS [VM1 [VM2 VM3]] VG N. seq_ok HL HLpos.
    rewrite (offsets_complete t W VO). cbn [bind].
    rewrite (nodes_complete t oT eq_refl W VN). cbn [bind].
    rewrite (edges_complete t oT eq_refl W VN VE1 VE2). cbn [bind].
    rewrite (sites_complete t oT VS). cbn [bind].
    rewrite (muts_complete t oT W VN VM1 VM2 VM3). cbn [bind].
    rewrite (migs_complete t oT eq_refl W VG). cbn [bind].
    destruct (phase_err ind_codes (check_individual_integrity oT t)) as [c [I E]].
    - apply inds_no_oob; assumption.
    - apply inds_no_fuel.
    - intro H. apply N. apply inds_sound. assumption.
    - apply inds_erp.
    - exists c. rewrite E. auto.
  Qed.

  (* the last group: the index and the tree-wise requirements *)
  Lemma err_trees : SeqlenOK t -> RowsValid t -> ~ TreesOK t ->
    exists c, In c (index_codes ++ tree_codes) /\ check t = Err c.
  Proof.
    intros SL R N. pose proof SL as [Lz [HL HLpos]]. destruct R.
    destruct r_edge_order as [VE2a VE2b].
    assert (NOK : forall n, check t <> Ok n).
    { intros n H. apply N. destruct (Top.check_sound_top t n W H). repeat split; assumption. }
    assert (NOOB := check_no_oob_lemma code_variant t W). assert (NF := Top.check_terminates_now t).
    assert (ER : erp (index_codes ++ tree_codes) (check t)).
    { seq_ok HL HLpos. rewrite (offsets_complete t W r_offsets). cbn [bind].
      rewrite (nodes_complete t oT eq_refl W r_nodes). cbn [bind].
      rewrite (edges_complete t oT eq_refl W r_nodes r_edge_rows (conj VE2a VE2b)). cbn [bind].
      rewrite (sites_complete t oT r_sites). cbn [bind].
      rewrite (muts_complete t oT W r_nodes r_mut_rows r_mut_order r_mut_mix). cbn [bind].
      rewrite (migs_complete t oT eq_refl W r_migs). cbn [bind].
      rewrite (inds_complete t oT eq_refl W r_inds). cbn [bind].
      cbn [oT imply_trees opts_trees o_trees o_indexes].
      assert (E1 := index_erp t). assert (E2 := tree_erp code_variant t).
      destruct (check_index_integrity t) as [[]|c| |]; cbn [bind erp] in *; try exact I.
      - destruct (check_tree_integrity code_variant t); cbn [erp] in *; try exact I. apply in_or_app. right. exact E2.
      - apply in_or_app. left. exact E1. }
    unfold check in *. destruct (check_integrity code_variant opts_trees t) as [n|c| |]; try congruence.
    exists c. split; [exact ER|reflexivity].
  Qed.
End Phases.

(* non-vacuity: a departure in the mutation table of the example collection (parent at itself) *)
Example err_phase_example :
  let t := mkTables (Fin 4) 1 1 [-1] [0; 1] [Fin 0; Fin 0; Fin 2] [0; -1; 0] [0; -1; -1]
             [Fin 0; Fin 0] [Fin 4; Fin 4] [2; 2] [0; 1] [Fin 1] [0] [0] [0] [Fin 1]
             [Fin 0] [Fin 2] [0] [0] [0] [Fin 1] [(3, [0; 0; 1; 2], 2); (1, [0; 1], 1)] (Some ([0; 1], [0; 1])) in
  check t = Err E_MUTATION_PARENT_EQUAL /\ In E_MUTATION_PARENT_EQUAL mut_codes.
Proof. split; [vm_compute; reflexivity|simpl; tauto]. Qed.
