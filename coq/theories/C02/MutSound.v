(* C02/MutSound.v — soundness of tsk_table_collection_check_mutation_integrity (with
   TSK_CHECK_MUTATION_ORDERING). *)
From Coq Require Import List ZArith Bool Lia.
From TskVerif Require Import Base.Common C02.Fl C02.Model C02.Arr C02.Tac C02.Spec C02.TableSound.
Import ListNotations.
Open Scope Z_scope.

Section MutSound.
  Variable t : tables.
  Hypothesis HN : NodesOK t.

  Let N := num_nodes t.
  Let nt (u : Z) : Fl := fat (node_time t) u.
  Let ms m := zat (mut_site t) m.
  Let mn m := zat (mut_node t) m.
  Let mp m := zat (mut_parent t) m.
  Let mtm m := fat (mut_time t) m.
  Let unk m := is_unknown (mtm m).

  Definition mrow_ok (m : Z) : Prop :=
    0 <= ms m < num_sites t /\ 0 <= mn m < N /\ -1 <= mp m < m /\
    (unk m = true \/ (isfinite (mtm m) = true /\ fle (nt (mn m)) (mtm m) = true)) /\
    (mp m <> -1 -> ms (mp m) = ms m /\ (unk m = false -> fle (mtm m) (mtm (mp m)) = true)).

  Definition mord_ok (m : Z) : Prop :=
    ms (m - 1) <= ms m /\ (ms (m - 1) = ms m -> unk m = false -> fle (mtm m) (mtm (m - 1)) = true).

  Definition mut_inv (i : Z) (s : mut_state) : Prop :=
    (forall m, 0 <= m < i -> mrow_ok m) /\
    (forall m, 0 < m < i -> mord_ok m) /\
    (forall a b, 0 <= a < i -> 0 <= b < i -> ms a = ms b -> unk a = unk b) /\
    (num_known s >= 0 /\ num_unknown s >= 0 /\
     (i = 0 -> num_known s = 0 /\ num_unknown s = 0) /\
     (i > 0 -> (unk (i - 1) = true -> num_known s = 0 /\ num_unknown s > 0) /\
               (unk (i - 1) = false -> num_unknown s = 0 /\ num_known s > 0))) /\
    (i > 0 -> unk (i - 1) = false -> last_known_time s = mtm (i - 1)).

  Lemma site_chain i :
    (forall m, 0 < m < i -> mord_ok m) -> forall a b, 0 <= a <= b -> b < i -> ms a <= ms b.
  Proof.
    intros OO a b Rab Rb.
    assert (K : forall k : nat, a + Z.of_nat k < i -> ms a <= ms (a + Z.of_nat k)).
    { induction k as [|k IH]; intro Hk.
      - replace (a + Z.of_nat 0) with a by lia. lia.
      - assert (IH' := IH ltac:(lia)).
        destruct (OO (a + Z.of_nat (S k)) ltac:(lia)) as [O1 _].
        replace (a + Z.of_nat (S k) - 1) with (a + Z.of_nat k) in O1 by lia. lia. }
    specialize (K (Z.to_nat (b - a))). replace (a + Z.of_nat (Z.to_nat (b - a))) with b in K by lia.
    apply K. lia.
  Qed.

  Lemma known_finite m : mrow_ok m -> unk m = false -> exists z, mtm m = Fin z.
  Proof.
    intros [_ [_ [_ [[U|[F _]] _]]]] K; [congruence|]. apply isfinite_fin in F. exact F.
  Qed.

  Lemma mut_inv_step i s1 s2 :
    0 <= i -> mut_inv i s1 -> mut_body oT t i s1 = Ok s2 -> mut_inv (i + 1) s2.
  Proof.
    intros Ri [RO [OO [MX [[NK [NU [C0 CN]]] LK]]]] H. unfold mut_body in H.
    cbn [oT imply_trees opts_trees o_trees o_mutation_ordering] in H.
    stepn H site Gs. stepc H Bs. stepn H node Gn. stepc H Bn. stepn H par Gp. stepc H Bp. stepc H Bpe.
    stepn H tm Gtm. cbv zeta in H.
    assert (ES : ms i = site) by (unfold ms; apply zat_aget; assumption).
    assert (EN : mn i = node) by (unfold mn; apply zat_aget; assumption).
    assert (EP : mp i = par) by (unfold mp; apply zat_aget; assumption).
    assert (ET : mtm i = tm) by (unfold mtm; apply fat_aget; assumption).
    subst site node par tm. fold (unk i) in H.
    unfold TSK_NULL in *. b2z.
    stepn H u1 Gtime. stepn H sr Greset. stepc H Bmix. stepn H u2 Gpar. stepn H u3 Gsort. stepc H Bafter.
    clear Gs Gn Gp Gtm.
    (* time of the row *)
    assert (TM : unk i = true \/ (isfinite (mtm i) = true /\ fle (nt (mn i)) (mtm i) = true)).
    { fold (unk i) in Gtime. destruct (unk i) eqn:U; [left; reflexivity|right]. simpl in Gtime.
      stepc Gtime Bf. stepn Gtime ntv Gnt. stepc Gtime By. b2z. split; [assumption|].
      destruct (HN (mn i)) as [F _]; [unfold N; lia|]. unfold nt. rewrite (fat_aget _ _ _ Gnt) in *.
      apply isfinite_fin in Bf as [x Ex]. apply isfinite_fin in F as [y Ey]. rewrite Ex, Ey in *.
      rewrite fle_fin. simpl in By. b2z. apply Z.leb_le. lia. }
    clear Gtime.
    (* sortedness by site *)
    assert (SO : i > 0 -> ms (i - 1) <= ms i).
    { intro Pos. replace (i >? 0) with true in Gsort by (symmetry; apply Z.gtb_lt; lia).
      stepn Gsort ps Gps. stepc Gsort Bso. apply zat_aget in Gps. fold (ms (i - 1)) in Gps. b2z. lia. }
    clear Gsort.
    (* the state after the possible reset *)
    assert (RS : (i > 0 -> ms (i - 1) = ms i -> sr = s1) /\
                 ((i > 0 -> ms (i - 1) <> ms i) -> num_known sr = 0 /\ num_unknown sr = 0)
                 /\ num_known sr >= 0 /\ num_unknown sr >= 0).
    { destruct (i >? 0) eqn:C.
      - b2z. stepn Greset ps Gps. apply zat_aget in Gps. fold (ms (i - 1)) in Gps. subst ps.
        destruct (negb (ms (i - 1) =? ms i)) eqn:C2; inversion Greset; subst sr; simpl; b2z.
        + repeat split; try lia; intros; try lia.
        + repeat split; try lia; intros; try reflexivity.
      - b2z. inversion Greset; subst sr. repeat split; try lia; intros; try lia.
        }
    destruct RS as [RS1 [RS2 [NK' NU']]].
    (* known/unknown agrees with every earlier mutation at the same site *)
    assert (PREV : i > 0 -> ms (i - 1) = ms i -> unk (i - 1) = unk i).
    { intros Pos E. rewrite (RS1 Pos E) in *. destruct (CN Pos) as [CU CK].
      destruct (unk i) eqn:U, (unk (i - 1)) eqn:U1; try reflexivity; exfalso.
      - destruct (CK eq_refl). apply andb_false_iff in Bmix as [Q|Q]; b2z; lia.
      - destruct (CU eq_refl). apply andb_false_iff in Bmix as [Q|Q]; b2z; lia. }
    assert (MXI : forall a, 0 <= a < i -> ms a = ms i -> unk a = unk i).
    { intros a Ra E. assert (Pos : i > 0) by lia.
      assert (C1 := site_chain i OO a (i - 1) ltac:(lia) ltac:(lia)).
      specialize (SO Pos). assert (E1 : ms (i - 1) = ms i) by lia.
      rewrite <- (PREV Pos E1). apply MX; try lia. }
    (* the row *)
    assert (ROW : mrow_ok i).
    { unfold mrow_ok. split; [lia|]. split; [unfold N; lia|].
      assert (PR : -1 <= mp i < i).
      { apply andb_false_iff in Bafter as [Q|Q]; b2z; lia. }
      split; [exact PR|]. split; [exact TM|]. intro NE.
      replace (mp i =? -1) with false in Gpar by (symmetry; apply Z.eqb_neq; assumption).
      simpl in Gpar. stepn Gpar psite Gps. stepc Gpar Bps. apply zat_aget in Gps. fold (ms (mp i)) in Gps.
      b2z. subst psite. split; [assumption|]. intro K. fold (unk i) in Gpar. rewrite K in Gpar. simpl in Gpar.
      stepn Gpar pt Gpt. stepc Gpar Bpt. apply fat_aget in Gpt. fold (mtm (mp i)) in Gpt. subst pt.
      assert (KP : unk (mp i) = false) by (rewrite <- K; apply MXI; [lia|assumption]).
      destruct (known_finite _ (RO (mp i) ltac:(lia)) KP) as [y Ey].
      destruct TM as [U|[F _]]; [congruence|]. apply isfinite_fin in F as [x Ex].
      rewrite Ex, Ey in *. rewrite fle_fin. unfold fgt in Bpt. simpl in Bpt. b2z. apply Z.leb_le. lia. }
    assert (ORD : i > 0 -> mord_ok i).
    { intro Pos. split; [apply SO; assumption|]. intros E K.
      rewrite (RS1 Pos E) in *. assert (K1 : unk (i - 1) = false) by (rewrite PREV; assumption).
      rewrite K in H. simpl in H. stepc H Blk. rewrite (LK Pos K1) in Blk.
      destruct (known_finite _ (RO (i - 1) ltac:(lia)) K1) as [y Ey].
      destruct TM as [U|[F _]]; [congruence|]. apply isfinite_fin in F as [x Ex].
      rewrite Ex, Ey in *. rewrite fle_fin. unfold fgt in Blk. simpl in Blk. b2z. apply Z.leb_le. lia. }
    unfold mut_inv. split; [|split; [|split; [|split]]].
    - intros m Rm. destruct (Z.eq_dec m i); [subst; assumption | apply RO; lia].
    - intros m Rm. destruct (Z.eq_dec m i); [subst; apply ORD; lia | apply OO; lia].
    - intros a b Ra Rb E. destruct (Z.eq_dec a i), (Z.eq_dec b i); subst; try reflexivity.
      + symmetry. apply MXI; [lia|congruence].
      + apply MXI; [lia|assumption].
      + apply MX; try lia; assumption.
    - replace (i + 1 - 1) with i by lia.
      destruct (unk i) eqn:U; simpl in H.
      + inversion H; subst s2; simpl. split; [lia|]. split; [lia|]. split; [intro; lia|]. intros _.
        split; [intros _|intro; discriminate].
        apply andb_false_iff in Bmix as [Q|Q]; b2z; lia.
      + stepc H Blk. inversion H; subst s2; simpl. split; [lia|]. split; [lia|]. split; [intro; lia|]. intros _.
        split; [intro; discriminate|intros _].
        apply andb_false_iff in Bmix as [Q|Q]; b2z; lia.
    - replace (i + 1 - 1) with i by lia. intros _ K. rewrite K in H. simpl in H.
      stepc H Blk. inversion H; subst s2; reflexivity.
  Qed.

  Lemma mut_inv_init : mut_inv 0 (mkMS FPInf 0 0).
  Proof. unfold mut_inv; simpl. repeat split; intros; lia. Qed.

  Lemma muts_sound : check_mutation_integrity oT t = Ok tt ->
    MutRowsOK t /\ MutOrderOK t /\ MutKnownUnknownOK t.
  Proof.
    unfold check_mutation_integrity. intro H. stepn H sf G. clear H.
    assert (INV : mut_inv (0 + Z.of_nat (length (mut_site t))) sf).
    { eapply for_loop_inv with (P := fun i s => 0 <= i /\ mut_inv i s) in G.
      - tauto.
      - split; [lia | apply mut_inv_init].
      - intros i s1 s2 R [R0 I1] B. split; [lia|]. eapply mut_inv_step; eauto. }
    simpl in INV. rewrite zlen_nat in INV. fold (num_mutations t) in INV.
    destruct INV as [RO [OO [MX _]]]. split; [|split].
    - intros m Rm. exact (RO m Rm).
    - intros m Rm. exact (OO m Rm).
    - intros a b Ra Rb E. exact (MX a b Ra Rb E).
  Qed.
End MutSound.
