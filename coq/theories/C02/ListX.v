(* C02/ListX.v — list facts used by the sweep proofs: occurrence counts as Z, prefixes
   addressed by a Z cursor, and "NoDup + in range + right length = permutation". *)
From Coq Require Import List ZArith Bool Lia Permutation FinFun.
From TskVerif Require Import Base.Common C02.Fl C02.Model C02.Arr C02.Spec.
Import ListNotations.
Open Scope Z_scope.

Definition cnt (l : list Z) (e : Z) : Z := Z.of_nat (count_occ Z.eq_dec l e).
Definition pre (l : list Z) (j : Z) : list Z := firstn (Z.to_nat j) l.

Lemma cnt_nonneg l e : 0 <= cnt l e. Proof. unfold cnt; lia. Qed.

Lemma cnt_snoc l a e : cnt (l ++ [a]) e = cnt l e + (if Z.eq_dec a e then 1 else 0).
Proof.
  unfold cnt. rewrite count_occ_app. simpl. destruct (Z.eq_dec a e); lia.
Qed.

Lemma cnt_nil e : cnt [] e = 0. Proof. reflexivity. Qed.

Lemma cnt_In l e : In e l <-> cnt l e >= 1.
Proof. unfold cnt. rewrite (count_occ_In Z.eq_dec). lia. Qed.

Lemma cnt_NoDup l : (forall e, cnt l e <= 1) -> NoDup l.
Proof.
  intro H. apply (NoDup_count_occ Z.eq_dec). intro x. specialize (H x). unfold cnt in H. lia.
Qed.

Lemma firstn_snoc_nat {A} (l : list A) n e :
  nth_error l n = Some e -> firstn (S n) l = firstn n l ++ [e].
Proof.
  revert n; induction l as [|h r IH]; intros [|n] H; simpl in *; try discriminate.
  - inversion H; reflexivity.
  - f_equal. apply IH; assumption.
Qed.

Lemma pre_snoc l j e : aget l j = Ok e -> pre l (j + 1) = pre l j ++ [e].
Proof.
  intro H. apply aget_ok in H as [R N]. unfold pre.
  replace (Z.to_nat (j + 1)) with (S (Z.to_nat j)) by lia. apply firstn_snoc_nat; assumption.
Qed.

Lemma pre_0 l : pre l 0 = []. Proof. reflexivity. Qed.

Lemma pre_all l : pre l (zlen l) = l.
Proof. unfold pre, zlen. rewrite Nat2Z.id. apply firstn_all. Qed.

Lemma nth_error_firstn_lt {A} (l : list A) n k : (k < n)%nat -> nth_error (firstn n l) k = nth_error l k.
Proof.
  revert n k; induction l as [|h r IH]; intros [|n] [|k] H; simpl; try reflexivity; try lia.
  apply IH. lia.
Qed.

Lemma pre_In_range l j e : In e (pre l j) -> exists a, 0 <= a < j /\ aget l a = Ok e.
Proof.
  unfold pre. intro H. apply In_nth_error in H as [n Hn].
  assert (L : (n < length (firstn (Z.to_nat j) l))%nat) by (apply nth_error_Some; congruence).
  rewrite firstn_length in L.
  exists (Z.of_nat n). split; [lia|]. apply aget_ok. split; [unfold zlen; lia|].
  rewrite Nat2Z.id. rewrite nth_error_firstn_lt in Hn by lia. exact Hn.
Qed.

Lemma zat_pre_In l j a : 0 <= a < j -> j <= zlen l -> In (zat l a) (pre l j).
Proof.
  intros R L. unfold pre, zat.
  assert (E : nth (Z.to_nat a) l 0 = nth (Z.to_nat a) (firstn (Z.to_nat j) l) 0).
  { rewrite <- (firstn_skipn (Z.to_nat j) l) at 1. rewrite app_nth1; [reflexivity|].
    rewrite firstn_length. unfold zlen in L. lia. }
  rewrite E. apply nth_In. rewrite firstn_length. unfold zlen in L. lia.
Qed.

Lemma zrange_NoDup n : NoDup (zrange n).
Proof.
  unfold zrange. apply Injective_map_NoDup; [|apply seq_NoDup].
  intros a b H. lia.
Qed.

Lemma zrange_In n e : In e (zrange n) <-> 0 <= e < n.
Proof.
  unfold zrange. rewrite in_map_iff. split.
  - intros [x [E H]]. apply in_seq in H. lia.
  - intro R. exists (Z.to_nat e). split; [lia|]. apply in_seq. lia.
Qed.

Lemma zrange_length n : 0 <= n -> zlen (zrange n) = n.
Proof. intro H. unfold zrange, zlen. rewrite map_length, seq_length. lia. Qed.

Lemma perm_of_nodup l n :
  0 <= n -> NoDup l -> (forall e, In e l -> 0 <= e < n) -> zlen l = n -> Permutation l (zrange n).
Proof.
  intros Hn ND R L. apply NoDup_Permutation_bis; [assumption| |].
  - assert (L2 := zrange_length n Hn). unfold zlen in *. lia.
  - intros e He. apply zrange_In. auto.
Qed.

Lemma perm_zrange_In l n e : Permutation l (zrange n) -> (In e l <-> 0 <= e < n).
Proof.
  intro P. rewrite <- zrange_In. split; intro H.
  - eapply Permutation_in; eauto.
  - eapply Permutation_in; [apply Permutation_sym|]; eauto.
Qed.
