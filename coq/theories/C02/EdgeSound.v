(* C02/EdgeSound.v — soundness of tsk_table_collection_check_edge_integrity (with
   TSK_CHECK_EDGE_ORDERING): row requirements, sort order, contiguous parents. *)
From Coq Require Import List ZArith Bool Lia.
From TskVerif Require Import Base.Common C02.Fl C02.Model C02.Arr C02.Tac C02.Spec C02.TableSound.
Import ListNotations.
Open Scope Z_scope.

Section EdgeSound.
  Variable t : tables.
  Hypothesis HN : NodesOK t.

  Let N := num_nodes t.
  Let nt (u : Z) : Fl := fat (node_time t) u.
  Let el e := fat (edge_left t) e.
  Let er e := fat (edge_right t) e.
  Let ep e := zat (edge_parent t) e.
  Let ec e := zat (edge_child t) e.
  Definition ntz (u : Z) : Z := match fat (node_time t) u with Fin z => z | _ => 0 end.

  Lemma nt_fin u : 0 <= u < N -> nt u = Fin (ntz u).
  Proof.
    intro R. destruct (HN u R) as [F _]. unfold nt, ntz in *.
    destruct (fat (node_time t) u); simpl in F; try discriminate. reflexivity.
  Qed.

  Definition row_ok (e : Z) : Prop :=
    0 <= ep e < N /\ 0 <= ec e < N /\
    (exists l r, el e = Fin l /\ er e = Fin r /\ 0 <= l < r /\ fgt (Fin r) (seqlen t) = false) /\
    flt (nt (ec e)) (nt (ep e)) = true.

  Definition ord_ok (e : Z) : Prop :=
    fle (nt (ep (e - 1))) (nt (ep e)) = true /\
    (ep (e - 1) = ep e -> ec (e - 1) < ec e \/ (ec (e - 1) = ec e /\ flt (el (e - 1)) (el e) = true)).

  Definition edge_inv (i : Z) (s : edge_state) : Prop :=
    (forall e, 0 <= e < i -> row_ok e) /\
    (i > 0 -> last_parent s = ep (i - 1) /\ last_child s = ec (i - 1) /\ last_left s = el (i - 1)) /\
    zlen (parent_seen s) = N /\
    (forall e, 0 < e < i -> ord_ok e) /\
    (forall a, 0 <= a -> a + 1 < i -> ep a <> ep (a + 1) ->
        feq (nt (ep a)) (nt (ep (a + 1))) = true ->
        nth (Z.to_nat (ep a)) (parent_seen s) false = true) /\
    (forall a, 0 <= a -> a + 1 < i -> ep a <> ep (a + 1) -> forall b, a < b < i -> ep b <> ep a).

  (* times along the prefix are monotone *)
  Lemma chain i :
    (forall e, 0 <= e < i -> row_ok e) -> (forall e, 0 < e < i -> ord_ok e) ->
    forall a b, 0 <= a <= b -> b < i -> ntz (ep a) <= ntz (ep b).
  Proof.
    intros RO OO a b Rab Rb.
    assert (K : forall k : nat, a + Z.of_nat k < i -> ntz (ep a) <= ntz (ep (a + Z.of_nat k))).
    { induction k as [|k IH]; intro Hk.
      - replace (a + Z.of_nat 0) with a by lia. lia.
      - assert (IH' := IH ltac:(lia)).
        destruct (OO (a + Z.of_nat (S k)) ltac:(lia)) as [O1 _].
        replace (a + Z.of_nat (S k) - 1) with (a + Z.of_nat k) in O1 by lia.
        destruct (RO (a + Z.of_nat k) ltac:(lia)) as [P1 _].
        destruct (RO (a + Z.of_nat (S k)) ltac:(lia)) as [P2 _].
        rewrite (nt_fin _ P1), (nt_fin _ P2), fle_fin in O1. b2z. lia. }
    specialize (K (Z.to_nat (b - a))). replace (a + Z.of_nat (Z.to_nat (b - a))) with b in K by lia.
    apply K. lia.
  Qed.

  Lemma edge_inv_init :
    edge_inv 0 (mkES (repeat false (length (node_time t))) 0 0 F0).
  Proof.
    unfold edge_inv; simpl. repeat split; intros; try lia.
    unfold zlen. rewrite repeat_length. reflexivity.
  Qed.

  Lemma edge_inv_step i s1 s2 :
    0 <= i -> edge_inv i s1 -> edge_body oT t i s1 = Ok s2 -> edge_inv (i + 1) s2.
  Proof.
    intros Ri [RO [ST [LN [OO [SE CT]]]]] H. unfold edge_body in H.
    cbn [oT imply_trees opts_trees o_trees o_edge_ordering] in H.
    (* the row part, common to all paths *)
    do 15 (step H).
    assert (ROW : row_ok i).
    { fins. unfold TSK_NULL, F0, fge, fgt in *. rewrite fle_fin in *. simpl in B4. b2z.
      assert (F3 : isfinite a3 = true).
      { destruct (HN a0) as [F _]; [unfold N; lia|]. unfold nt in F. rewrite (fat_aget _ _ _ G3) in F. exact F. }
      assert (F4 : isfinite a4 = true).
      { destruct (HN a) as [F _]; [unfold N; lia|]. unfold nt in F. rewrite (fat_aget _ _ _ G4) in F. exact F. }
      fins.
      unfold row_ok, ep, ec, el, er, nt.
      rewrite (zat_aget _ _ _ G), (zat_aget _ _ _ G0), (fat_aget _ _ _ G1), (fat_aget _ _ _ G2).
      rewrite (fat_aget _ _ _ G3), (fat_aget _ _ _ G4).
      split; [unfold N; lia|]. split; [unfold N; lia|]. split.
      - eexists _, _. repeat split; try reflexivity; try lia. assumption.
      - rewrite fle_fin in B7. simpl. b2z. apply Z.ltb_lt. lia. }
    assert (RO' : forall e, 0 <= e < i + 1 -> row_ok e).
    { intros e Re. destruct (Z.eq_dec e i); [subst; assumption | apply RO; lia]. }
    assert (EP : ep i = a) by (unfold ep; apply zat_aget; assumption).
    assert (EC : ec i = a0) by (unfold ec; apply zat_aget; assumption).
    assert (EL : el i = a1) by (unfold el; apply fat_aget; assumption).
    subst a a0 a1.
    assert (NTP : nt (ep i) = a4) by (unfold nt; apply fat_aget; assumption).
    step H.
    assert (SEEN : nth (Z.to_nat (ep i)) (parent_seen s1) false = a) by (eapply aget_nth; eauto).
    destruct a; [discriminate H|]. cbn [err_if] in H.
    destruct ROW as [RP [RC [[l [r [El [Er [Rlr RL]]]]] TO]]].
    rewrite (nt_fin _ RP) in NTP.
    (* the ordering part *)
    step H.
    assert (ST' : last_parent s2 = ep i /\ last_child s2 = ec i /\ last_left s2 = el i)
      by (inversion H; subst s2; simpl; auto).
    assert (PS : parent_seen s2 = a) by (inversion H; subst s2; reflexivity).
    clear H.
    destruct (Z_gt_dec i 0) as [Pos|Zero].
    2:{ (* first row *)
      assert (i = 0) by lia. subst i.
      unfold edge_inv. split; [assumption|]. split; [intros _; simpl; exact ST'|].
      split; [|split; [intros e Re; lia | split; intros; lia]].
      rewrite PS. replace (0 >? 0) with false in G6 by reflexivity. inversion G6; subst. assumption. }
    replace (i >? 0) with true in G6 by (symmetry; apply Z.gtb_lt; lia).
    destruct (ST Pos) as [LP [LC LL]].
    destruct (RO (i - 1) ltac:(lia)) as [RP1 [RC1 [[l1 [r1 [El1 [Er1 [Rlr1 RL1]]]]] TO1]]].
    step G6. assert (NTL : nt (ep (i - 1)) = a0) by (unfold nt; rewrite <- LP; apply fat_aget; assumption).
    rewrite (nt_fin _ RP1) in NTL. subst a4 a0. step G6. simpl in B8.
    (* facts shared by the remaining paths *)
    assert (ORD1 : fle (nt (ep (i - 1))) (nt (ep i)) = true).
    { rewrite (nt_fin _ RP1), (nt_fin _ RP), fle_fin. b2z. apply Z.leb_le. lia. }
    assert (SAMEP : ep (i - 1) = ep i -> ntz (ep (i - 1)) = ntz (ep i)) by (intro E; rewrite E; reflexivity).
    assert (LEN' : zlen a = N /\ (forall k, nth k (parent_seen s1) false = true -> nth k a false = true)
                   /\ (feq (Fin (ntz (ep i))) (Fin (ntz (ep (i - 1)))) = true -> ep i <> last_parent s1 ->
                         nth (Z.to_nat (ep (i - 1))) a false = true)
                   /\ (ep (i - 1) = ep i -> ec (i - 1) < ec i \/ (ec (i - 1) = ec i /\ flt (el (i - 1)) (el i) = true))).
    { rewrite LC, LL in G6. clear PS.
      destruct (feq (Fin (ntz (ep i))) (Fin (ntz (ep (i - 1))))) eqn:C0.
      2:{ inversion G6; subst a. split; [assumption|]. split; [auto|]. split; [intros; congruence|].
          simpl in C0. b2z. intro E. apply SAMEP in E. lia. }
      destruct (ep i =? last_parent s1) eqn:C1.
      2:{ destruct (aset_cases (parent_seen s1) (last_parent s1) true) as [[l' [A [RA [LA NA]]]]|[A _]];
            rewrite A in G6; [|discriminate]. inversion G6; subst l'. clear G6.
          split; [lia|]. split; [|split].
          - intros k Hk. rewrite NA. destruct (Nat.eqb k (Z.to_nat (last_parent s1))); auto.
          - intros _ _. rewrite NA, LP. rewrite Nat.eqb_refl. reflexivity.
          - intro E. b2z. congruence. }
      step G6. destruct (ec i =? ec (i - 1)) eqn:C2.
      - step G6. step G6. inversion G6; subst a. split; [assumption|]. split; [auto|].
        split; [intros; b2z; congruence|]. intros _. right. b2z. split; [congruence|].
        rewrite El1, El in *. simpl in *. b2z. apply Z.ltb_lt. lia.
      - inversion G6; subst a. split; [assumption|]. split; [auto|].
        split; [intros; b2z; congruence|]. intros _. left. b2z. lia. }
    destruct LEN' as [LEN [MONO [NEWSEEN ORD2]]].
    assert (OO' : forall e, 0 < e < i + 1 -> ord_ok e).
    { intros e Re. destruct (Z.eq_dec e i); [subst e; split; assumption | apply OO; lia]. }
    unfold edge_inv. rewrite PS. split; [assumption|]. split; [intros _; replace (i + 1 - 1) with i by lia; exact ST'|].
    split; [assumption|]. split; [assumption|]. split.
    - (* seen *)
      intros a' R0 R1 NE FE. destruct (Z.eq_dec (a' + 1) i) as [E|E].
      + replace a' with (i - 1) in * by lia. replace (i - 1 + 1) with i in * by lia.
        apply NEWSEEN.
        * rewrite (nt_fin _ RP1), (nt_fin _ RP) in FE. simpl in *. b2z. apply Z.eqb_eq. lia.
        * rewrite LP. congruence.
      + apply MONO. apply SE; try assumption; lia.
    - (* never return to a parent that has been left *)
      intros a' R0 R1 NE b Rb. destruct (Z.eq_dec b i) as [E|E].
      2:{ apply CT; try assumption; lia. }
      subst b. destruct (Z.eq_dec (a' + 1) i) as [E|E]; [subst i; congruence|].
      intro EQ. (* times: nt(ep a') <= nt(ep (a'+1)) <= nt(ep i) = nt(ep a') *)
      assert (C1 := chain (i + 1) RO' OO' a' (a' + 1) ltac:(lia) ltac:(lia)).
      assert (C2 := chain (i + 1) RO' OO' (a' + 1) i ltac:(lia) ltac:(lia)).
      rewrite EQ in C2.
      assert (S1 : nth (Z.to_nat (ep a')) (parent_seen s1) false = true).
      { apply SE; try assumption; try lia.
        destruct (RO' a' ltac:(lia)) as [Q1 _]. destruct (RO' (a' + 1) ltac:(lia)) as [Q2 _].
        rewrite (nt_fin _ Q1), (nt_fin _ Q2). simpl. apply Z.eqb_eq. lia. }
      rewrite <- EQ in S1. congruence.
  Qed.

  Lemma edges_sound : check_edge_integrity oT t = Ok tt -> EdgeRowsOK t /\ EdgeOrderOK t.
  Proof.
    unfold check_edge_integrity. intro H. step H. clear H.
    assert (INV : edge_inv (0 + Z.of_nat (length (edge_left t))) a).
    { eapply for_loop_inv with (P := fun i s => 0 <= i /\ edge_inv i s) in G.
      - tauto.
      - split; [lia | apply edge_inv_init].
      - intros i s1 s2 R [R0 I1] B. split; [lia|]. eapply edge_inv_step; eauto. }
    simpl in INV. rewrite zlen_nat in INV. fold (num_edges t) in INV.
    destruct INV as [RO [_ [_ [OO [_ CT]]]]]. split; [exact RO|]. split; [exact OO|].
    (* contiguity from "never return" *)
    intros a0 b Rab Rb EQ m Rm. change (ep a0 = ep b) in EQ. change (ep m = ep a0).
    assert (K : forall k : nat, a0 + Z.of_nat k <= b -> ep (a0 + Z.of_nat k) = ep a0).
    { induction k as [|k IH]; intro Hk.
      - f_equal. lia.
      - assert (IH' := IH ltac:(lia)).
        destruct (Z.eq_dec (ep (a0 + Z.of_nat k)) (ep (a0 + Z.of_nat (S k)))) as [E|E]; [congruence|].
        exfalso. replace (a0 + Z.of_nat (S k)) with (a0 + Z.of_nat k + 1) in E by lia.
        destruct (Z.eq_dec (a0 + Z.of_nat k + 1) b) as [Eb|Eb]; [rewrite Eb in E; congruence|].
        apply (CT (a0 + Z.of_nat k) ltac:(lia) ltac:(lia) E b ltac:(lia)). congruence. }
    specialize (K (Z.to_nat (m - a0))). replace (a0 + Z.of_nat (Z.to_nat (m - a0))) with m in K by lia.
    apply K. lia.
  Qed.
End EdgeSound.
