(* Shared basics: result monad with a visible out-of-bounds outcome, checked array
   access, and the generic observation tree used by the correspondence checks. *)
From Coq Require Import List ZArith Bool Lia.
Import ListNotations.
Open Scope Z_scope.

(* A model function mirroring a C loop over raw memory returns [OOB] when it would
   index outside an array, [Err c] for a library error code class, [Fuel] when an
   explicit fuel bound is exhausted (always excluded by the theorem statements). *)
Inductive res (A : Type) : Type :=
| Ok (a : A)
| Err (code : Z)
| OOB
| Fuel.
Arguments Ok {A} a.
Arguments Err {A} code.
Arguments OOB {A}.
Arguments Fuel {A}.

Definition bind {A B} (r : res A) (f : A -> res B) : res B :=
  match r with Ok a => f a | Err c => Err c | OOB => OOB | Fuel => Fuel end.
Notation "'do' x <- r ; k" := (bind r (fun x => k)) (at level 200, x name, r at level 100, k at level 200).
Notation "'do' ' p <- r ; k" := (bind r (fun p => k)) (at level 200, p pattern, r at level 100, k at level 200).

Definition is_ok {A} (r : res A) : bool := match r with Ok _ => true | _ => false end.

(* checked access with Z indices *)
Definition get {A} (l : list A) (i : Z) : res A :=
  if (i <? 0) then OOB else
  match nth_error l (Z.to_nat i) with Some a => Ok a | None => OOB end.

Fixpoint set_nat {A} (l : list A) (i : nat) (a : A) : option (list A) :=
  match l, i with
  | [], _ => None
  | _ :: t, O => Some (a :: t)
  | h :: t, S i' => match set_nat t i' a with Some t' => Some (h :: t') | None => None end
  end.

Definition set {A} (l : list A) (i : Z) (a : A) : res (list A) :=
  if (i <? 0) then OOB else
  match set_nat l (Z.to_nat i) a with Some l' => Ok l' | None => OOB end.

Definition zlen {A} (l : list A) : Z := Z.of_nat (length l).

Lemma get_ok_iff {A} (l : list A) i : (exists a, get l i = Ok a) <-> 0 <= i < zlen l.
Proof.
  unfold get, zlen. destruct (i <? 0) eqn:E.
  - split; [intros [a H]; discriminate | lia].
  - apply Z.ltb_ge in E. destruct (nth_error l (Z.to_nat i)) eqn:N.
    + split; [intros _ | eauto]. apply nth_error_Some' in N || idtac.
      assert (Z.to_nat i < length l)%nat by (apply nth_error_Some; congruence). lia.
    + split; [intros [a H]; discriminate|]. intros H.
      apply nth_error_None in N. lia.
Qed.

Lemma set_nat_length {A} (l : list A) i a l' : set_nat l i a = Some l' -> length l' = length l.
Proof.
  revert i l'; induction l as [|h t IH]; intros [|i] l' H; simpl in H; try discriminate.
  - inversion H; reflexivity.
  - destruct (set_nat t i a) eqn:E; [|discriminate]. inversion H; simpl. f_equal. eauto.
Qed.

(* Generic observation tree: what an implementation adapter reports, compared with
   what the model computes.  Integers, null, and lists (bytes = list of integers). *)
Inductive J : Type :=
| JZ (z : Z)
| JN
| JL (l : list J).

Fixpoint J_eqb (a b : J) {struct a} : bool :=
  match a, b with
  | JZ x, JZ y => x =? y
  | JN, JN => true
  | JL xs, JL ys =>
      (fix go (xs ys : list J) {struct xs} : bool :=
         match xs, ys with
         | [], [] => true
         | x :: xs', y :: ys' => J_eqb x y && go xs' ys'
         | _, _ => false
         end) xs ys
  | _, _ => false
  end.

Definition jz_list (l : list Z) : J := JL (map JZ l).
Definition jopt (o : option Z) : J := match o with Some z => JZ z | None => JN end.
Definition jbool (b : bool) : J := JZ (if b then 1 else 0).

Fixpoint list_eqb {A} (eqb : A -> A -> bool) (a b : list A) : bool :=
  match a, b with
  | [], [] => true
  | x :: a', y :: b' => eqb x y && list_eqb eqb a' b'
  | _, _ => false
  end.

Lemma list_eqb_eq {A} (eqb : A -> A -> bool) :
  (forall x y, eqb x y = true <-> x = y) ->
  forall a b, list_eqb eqb a b = true <-> a = b.
Proof.
  intros H a; induction a as [|x a IH]; intros [|y b]; simpl; split; intro E;
    try reflexivity; try discriminate.
  - apply andb_true_iff in E as [E1 E2]. apply H in E1. apply IH in E2. congruence.
  - inversion E; subst. apply andb_true_iff; split; [apply H | apply IH]; reflexivity.
Qed.

Definition zlist_eqb := list_eqb Z.eqb.
Definition opt_eqb {A} (eqb : A -> A -> bool) (a b : option A) : bool :=
  match a, b with Some x, Some y => eqb x y | None, None => true | _, _ => false end.
