(* C13 — totality / memory safety of the logic: under the invariant the operations return
   Ok or one of the library's documented error codes; never an out-of-bounds access (OOB),
   never a failed tsk_bug_assert.  And the converse for the column setters: when the binding's
   dimension checks and check_offsets pass, the call succeeds unless a size limit overflows. *)
From Coq Require Import List ZArith Bool Lia.
From TskVerif Require Import Base.Common C13.Model C13.Lemmas C13.Rep C13.Bridge C13.OpsProofs
  C13.ColsProofs C13.TotalProofs.
Import ListNotations.
Open Scope Z_scope.

(* the result is Ok or an error whose code is in the list *)
Definition ok_or {A} (codes : list Z) (r : res A) : Prop :=
  match r with Ok _ => True | Err c => In c codes | OOB => False | Fuel => False end.

Lemma ok_or_weaken {A} (c1 c2 : list Z) (r : res A) : incl c1 c2 -> ok_or c1 r -> ok_or c2 r.
Proof. intros I. destruct r; simpl; auto. Qed.

(* ---------- growth ---------- *)
Lemma calc_max_rows_cases n m incr add :
  (exists x, calc_max_rows n m incr add = Ok x) \/ calc_max_rows n m incr add = Err TSK_ERR_TABLE_OVERFLOW.
Proof.
  unfold calc_max_rows. destruct (check_table_overflow n add); [right; reflexivity|].
  destruct (n + add <=? m); [left; eexists; reflexivity|].
  destruct (incr =? 0); cbn [bind]; [left; eexists; reflexivity|].
  destruct (check_table_overflow m incr); cbn [bind]; [right; reflexivity | left; eexists; reflexivity].
Qed.

Lemma calc_max_length_cases cur m incr add :
  (exists x, calc_max_length cur m incr add = Ok x /\ cur + add <= x) \/
  calc_max_length cur m incr add = Err TSK_ERR_COLUMN_OVERFLOW.
Proof.
  unfold calc_max_length. destruct (check_offset_overflow cur add); [right; reflexivity|].
  destruct (cur + add <=? m) eqn:Le; [apply Z.leb_le in Le; left; eexists; split; [reflexivity | lia]|].
  destruct (incr =? 0); cbn [bind]; [left; eexists; split; [reflexivity | lia]|].
  destruct (check_offset_overflow m incr); cbn [bind]; [right; reflexivity | left; eexists; split; [reflexivity | lia]].
Qed.

Lemma expand_main_cases t add :
  (exists t1, expand_main t add = Ok t1) \/ expand_main t add = Err TSK_ERR_TABLE_OVERFLOW.
Proof.
  unfold expand_main. destruct (calc_max_rows_cases (nrows t) (maxrows t) (rowincr t) add) as [[x E]|E];
    rewrite E; cbn [bind]; [left; eexists; reflexivity | right; reflexivity].
Qed.

Lemma expand_rag_cases c add :
  (exists c1, expand_rag c add = Ok c1 /\ rlen c + add <= rmax c1) \/
  expand_rag c add = Err TSK_ERR_COLUMN_OVERFLOW.
Proof.
  unfold expand_rag. destruct (calc_max_length_cases (rlen c) (rmax c) (rincr c) add) as [(x & E & G)|E];
    rewrite E; cbn [bind]; [|right; reflexivity].
  left. eexists. split; [reflexivity|]. destruct (x >? rmax c) eqn:C; simpl; [lia|].
  rewrite Z.gtb_ltb in C. apply Z.ltb_ge in C. lia.
Qed.

Lemma store_seq_total vs : forall buf cap i, 0 <= i -> i + zlen vs <= cap -> exists b, store_seq buf cap i vs = Ok b.
Proof.
  induction vs as [|v vs IH]; intros buf cap i Hi Hc; simpl; [eexists; reflexivity|].
  rewrite zlen_cons in Hc. pose proof (zlen_nonneg vs).
  unfold store. destruct (blit_total buf cap i [v]) as [b Hb]; [lia | unfold zlen; simpl; lia |].
  rewrite Hb. cbn [bind]. apply IH; lia.
Qed.

(* ---------- pointwise case analysis of the monadic maps ---------- *)
Lemma map2M_cases {A B C} (f : A -> B -> res C) e l : forall m,
  length l = length m ->
  (forall j a b, nth_error l j = Some a -> nth_error m j = Some b -> (exists c, f a b = Ok c) \/ f a b = Err e) ->
  (exists l', map2M f l m = Ok l') \/ map2M f l m = Err e.
Proof.
  induction l as [|x l IH]; intros [|y m] L H; simpl in L; try discriminate.
  - left. exists []. reflexivity.
  - simpl. destruct (H 0%nat x y eq_refl eq_refl) as [[c Hc]|Hc]; rewrite Hc; cbn [bind]; [|right; reflexivity].
    destruct (IH m) as [[l' Hl']|Hl']; [lia | intros j a b Ha Hb; apply (H (S j) a b Ha Hb) | |];
      rewrite Hl'; cbn [bind]; [left; eexists; reflexivity | right; reflexivity].
Qed.

Lemma mapM_exists {A B} (f : A -> res B) l :
  (forall j a, nth_error l j = Some a -> exists b, f a = Ok b) -> exists l', mapM f l = Ok l'.
Proof.
  induction l as [|x l IH]; intros H; simpl; [eexists; reflexivity|].
  destruct (H 0%nat x eq_refl) as [b Hb]. rewrite Hb. cbn [bind].
  destruct IH as [l' Hl']; [intros j a Ha; apply (H (S j) a Ha)|]. rewrite Hl'. cbn [bind]. eexists; reflexivity.
Qed.

(* ---------- add_row ---------- *)
Lemma rag_add_cases a n maxr c cells vs :
  RRep n maxr c cells -> n + 1 <= maxr ->
  (exists c', rag_add a n maxr c vs = Ok c') \/ rag_add a n maxr c vs = Err TSK_ERR_COLUMN_OVERFLOW.
Proof.
  intros R Cap. unfold rag_add.
  pose proof (RRep_off_len _ _ _ _ R) as [OL N0]. pose proof (RRep_data_len _ _ _ _ R) as DL.
  pose proof (rr_n _ _ _ _ R) as N.
  assert (As : (if a then do o <- get (roff c) n; if o =? rlen c then Ok tt else Err BUG_ASSERT else Ok tt) = Ok tt).
  { destruct a; [|reflexivity]. rewrite (RRep_off_nth _ _ _ _ n R) by lia. cbn [bind].
    rewrite firstn_all2 by (unfold zlen in N; lia). rewrite <- (rr_len _ _ _ _ R), Z.eqb_refl. reflexivity. }
  rewrite As. cbn [bind].
  destruct (expand_rag_cases c (zlen vs)) as [(c1 & E & G)|E]; rewrite E; cbn [bind]; [|right; reflexivity].
  destruct (expand_rag_Ok _ _ _ E) as (D1 & D2 & D3 & D4 & D5). rewrite D1, D2, D4.
  destruct (blit_total (rdata c) (rmax c1) (rlen c) vs) as [dt Hd]; [lia | lia |]. rewrite Hd. cbn [bind].
  unfold store. destruct (blit_total (roff c) (maxr + 1) (n + 1) [rlen c + zlen vs]) as [o Ho];
    [lia | unfold zlen; simpl; lia |]. rewrite Ho. cbn [bind]. left. eexists; reflexivity.
Qed.

Definition overflow_codes : list Z := [TSK_ERR_TABLE_OVERFLOW; TSK_ERR_COLUMN_OVERFLOW].

Theorem add_row_safe d t r :
  WF d t -> row_ok d r = true -> ok_or overflow_codes (add_row d t r).
Proof.
  intros W Hr. pose proof (WF_TRep _ _ W) as R. destruct (row_ok_lengths _ _ Hr) as [Lf Lr].
  unfold add_row.
  destruct (expand_main_cases t 1) as [[t1 Em]|Em]; rewrite Em; cbn [bind]; [|simpl; auto].
  destruct (expand_main_Ok _ _ _ Em) as (N1 & I1 & F1 & R1 & M1 & C1). rewrite N1, F1, R1.
  pose proof (tr_n _ _ _ R) as N. pose proof (zlen_nonneg (abs t)) as Nn.
  destruct (map2M_exists (fun buf v => store buf (maxrows t1) (nrows t) v) (fcols t) (fst r)) as [fc Hfc].
  { rewrite (tr_nf _ _ _ R). symmetry. exact Lf. }
  { intros j a b Ha Hb. unfold store. apply blit_total; [lia | unfold zlen; simpl; lia]. }
  rewrite Hfc. cbn [bind].
  destruct (map2M_cases (rag_add (td_assert d) (nrows t) (maxrows t1)) TSK_ERR_COLUMN_OVERFLOW (rcols t) (snd r))
    as [[rc Hrc]|Hrc].
  { rewrite (tr_nr _ _ _ R). symmetry. exact Lr. }
  { intros j a b Ha Hb. eapply rag_add_cases; [eapply RRep_mono; [apply (tr_r _ _ _ R _ _ Ha) | exact M1] | lia]. }
  - rewrite Hrc. cbn [bind]. exact I.
  - rewrite Hrc. cbn [bind]. simpl. auto.
Qed.

(* ---------- truncate / clear ---------- *)
Theorem truncate_total d t m : WF d t -> 0 <= m <= nrows t -> exists t', truncate t m = Ok t'.
Proof.
  intros W Hm. pose proof (WF_TRep _ _ W) as R. unfold truncate.
  replace ((m <? 0) || (m >? nrows t)) with false.
  2:{ symmetry. apply orb_false_iff. split; [apply Z.ltb_ge; lia | rewrite Z.gtb_ltb; apply Z.ltb_ge; lia]. }
  destruct (mapM_exists (fun c => do l <- get (roff c) m; Ok (mkRag (rdata c) l (rmax c) (rincr c) (roff c))) (rcols t)) as [rc Hrc].
  { intros j c Hc. rewrite (RRep_off_nth _ _ _ _ m (tr_r _ _ _ R _ _ Hc)) by lia. cbn [bind]. eexists; reflexivity. }
  rewrite Hrc. cbn [bind]. eexists; reflexivity.
Qed.

Corollary clear_total d t : WF d t -> exists t', clear t = Ok t'.
Proof.
  intros W. apply (truncate_total d); [exact W|]. pose proof (WF_TRep _ _ W) as R.
  pose proof (tr_n _ _ _ R). pose proof (zlen_nonneg (abs t)). lia.
Qed.

(* ---------- extend ---------- *)
Lemma get_row_out_of_range' d t i : i < 0 \/ nrows t <= i -> get_row d t i = Err (td_oob d).
Proof.
  intros H. unfold get_row. replace ((i <? 0) || (i >=? nrows t)) with true; [reflexivity|].
  symmetry. apply orb_true_iff. destruct H; [left; apply Z.ltb_lt | right; rewrite Z.geb_leb; apply Z.leb_le]; lia.
Qed.

Definition extend_codes (d : tdesc) : list Z := td_oob d :: overflow_codes.

Lemma extend_loop_safe d idx : forall t u, WF d t -> WF d u ->
  ok_or (extend_codes d) (snd (extend_loop d t u idx)).
Proof.
  induction idx as [|i idx IH]; intros t u W Wu; simpl; [exact I|].
  destruct (Z_lt_dec i 0) as [Lt|Ge].
  { rewrite get_row_out_of_range' by (left; exact Lt). simpl. auto. }
  destruct (Z_le_dec (nrows u) i) as [Le|Gt].
  { rewrite get_row_out_of_range' by (right; exact Le). simpl. auto. }
  pose proof (WF_TRep _ _ Wu) as Ru.
  rewrite (get_row_rep _ _ _ _ Ru) by lia.
  assert (Okr : row_ok d (nth (Z.to_nat i) (abs u) row0) = true).
  { pose proof (tr_shape _ _ _ Ru) as S. rewrite Forall_forall in S. apply S, nth_In.
    pose proof (tr_n _ _ _ Ru) as N. unfold zlen in N. lia. }
  pose proof (add_row_safe d t _ W Okr) as Sa.
  destruct (add_row d t (nth (Z.to_nat i) (abs u) row0)) as [t1| | |] eqn:A; simpl in Sa; try contradiction.
  - apply IH; [|exact Wu]. pose proof (add_row_rep _ _ _ _ _ (WF_TRep _ _ W) Okr A) as R1.
    eapply TRep_WF; eassumption.
  - simpl. right. exact Sa.
Qed.

Lemma expand_main_TRep d t rows add t1 : TRep d t rows -> expand_main t add = Ok t1 -> TRep d t1 rows.
Proof.
  intros R E. destruct (expand_main_Ok _ _ _ E) as (N1 & I1 & F1 & R1 & M1 & C1).
  destruct R. constructor; rewrite ?N1, ?I1, ?F1, ?R1; auto; try lia.
  - intros j buf Hj. eapply FRep_mono; eauto.
  - intros j c Hj. eapply RRep_mono; eauto.
Qed.

Theorem extend_safe d t u idx : WF d t -> WF d u -> ok_or (extend_codes d) (snd (extend d t u idx)).
Proof.
  intros W Wu. unfold extend.
  destruct (expand_main_cases t (zlen idx)) as [[t1 E]|E]; rewrite E; [|simpl; auto].
  apply extend_loop_safe; [|exact Wu].
  eapply TRep_WF. eapply expand_main_TRep; [apply WF_TRep; exact W | exact E].
Qed.

(* ---------- append_columns / set_columns: the converse ---------- *)
(* a supplied ragged column is well formed for m rows: check_offsets passes and the last
   offset lies inside the data array *)
Definition input_wf (m : Z) (inp : option (list Z * list Z)) : Prop :=
  match inp with
  | None => True
  | Some (data, offs) =>
      check_offsets m offs = Ok tt /\ exists len, get offs m = Ok len /\ 0 <= len <= zlen data
  end.

Definition cols_wf (d : tdesc) (m : Z) (cs : cols) : Prop :=
  length (fst cs) = length (td_kinds d) /\ length (snd cs) = td_nr d /\
  Forall (fun c => m <= zlen c) (fst cs) /\ Forall (input_wf m) (snd cs).

Lemma take_exact_total n l : 0 <= n <= zlen l -> take_exact n l = Ok (firstn (Z.to_nat n) l).
Proof.
  intros H. unfold take_exact.
  replace ((0 <=? n) && (n <=? zlen l)) with true; [reflexivity|].
  symmetry. apply andb_true_iff. split; apply Z.leb_le; lia.
Qed.

Lemma rag_append_cases n maxr m c cells inp :
  RRep n maxr c cells -> 0 <= m -> n + m <= maxr -> input_wf m inp ->
  (exists c', rag_append n maxr m c inp = Ok c') \/ rag_append n maxr m c inp = Err TSK_ERR_COLUMN_OVERFLOW.
Proof.
  intros R Hm Cap Wf.
  pose proof (RRep_off_len _ _ _ _ R) as [OL N0]. pose proof (RRep_data_len _ _ _ _ R) as DL.
  destruct inp as [[data offs]|]; simpl.
  - destruct Wf as (Ck & len & Gl & Ll). rewrite Ck. cbn [bind].
    destruct (check_offsets_spec _ _ Hm Ck) as (Lo & _ & _).
    rewrite (take_exact_total m offs) by lia. cbn [bind].
    destruct (store_seq_total (map (fun x => rlen c + x) (firstn (Z.to_nat m) offs)) (roff c) (maxr + 1) n) as [o Ho];
      [lia | rewrite zlen_map, zlen_firstn; lia |].
    rewrite Ho, Gl. cbn [bind].
    destruct (expand_rag_cases c len) as [(c1 & E & G)|E]; rewrite E; cbn [bind]; [|right; reflexivity].
    destruct (expand_rag_Ok _ _ _ E) as (D1 & D2 & D3 & D4 & D5). rewrite D1, D2.
    rewrite (take_exact_total len data) by lia. cbn [bind].
    destruct (blit_total (rdata c) (rmax c1) (rlen c) (firstn (Z.to_nat len) data)) as [dt Hd];
      [lia | rewrite zlen_firstn; lia |].
    rewrite Hd. cbn [bind]. unfold store.
    destruct (blit_total o (maxr + 1) (n + m) [rlen c + len]) as [o' Ho']; [lia | unfold zlen; simpl; lia |].
    rewrite Ho'. cbn [bind]. left. eexists; reflexivity.
  - destruct (store_seq_total (repeat (rlen c) (Z.to_nat m)) (roff c) (maxr + 1) (n + 1)) as [o Ho];
      [lia | rewrite zlen_repeat; lia |].
    rewrite Ho. cbn [bind]. unfold store.
    destruct (blit_total o (maxr + 1) (n + m) [rlen c]) as [o' Ho']; [lia | unfold zlen; simpl; lia |].
    rewrite Ho'. cbn [bind]. left. eexists; reflexivity.
Qed.

Lemma append_ragged_cases n maxr m inputs (cellsf : nat -> list (list Z)) : 0 <= m -> n + m <= maxr ->
  Forall (input_wf m) inputs ->
  forall order rc, NoDup order -> length inputs = length rc ->
  (forall j, In j order -> (j < length rc)%nat) ->
  (forall j c, In j order -> nth_error rc j = Some c -> RRep n maxr c (cellsf j)) ->
  ok_or [TSK_ERR_COLUMN_OVERFLOW] (snd (append_ragged n maxr m rc inputs order)).
Proof.
  intros Hm Cap Wf. induction order as [|j order IH]; intros rc ND Li Lt P; simpl; [exact I|].
  inversion ND as [|? ? Nin ND']; subst.
  assert (Lj : (j < length rc)%nat) by (apply Lt; left; reflexivity).
  destruct (nth_error rc j) as [c|] eqn:Hc; [|apply nth_error_None in Hc; lia].
  destruct (nth_error inputs j) as [inp|] eqn:Hi; [|apply nth_error_None in Hi; lia].
  assert (Wi : input_wf m inp) by (rewrite Forall_forall in Wf; apply Wf; eapply nth_error_In; eassumption).
  destruct (rag_append_cases n maxr m c (cellsf j) inp) as [[c1 A]|A]; try assumption.
  { apply (P j c); [left; reflexivity | exact Hc]. }
  - rewrite A. apply IH; [exact ND' | rewrite set_nth_length; exact Li | |].
    + intros k Hk. rewrite set_nth_length. apply Lt. right. exact Hk.
    + intros k c0 Hk Hc0. assert (j <> k) by (intros ->; contradiction).
      rewrite set_nth_other in Hc0 by assumption. apply (P k c0); [right; assumption | assumption].
  - rewrite A. simpl. auto.
Qed.

Theorem append_columns_c_safe d t rows m cs :
  TRep d t rows -> order_ok d -> 0 <= m -> cols_wf d m cs ->
  ok_or overflow_codes (snd (append_columns_c d t m cs)).
Proof.
  intros R [ND Oall] Hm (Lf & Lr & Wfx & Wrg). unfold append_columns_c.
  destruct (expand_main_cases t m) as [[t1 E]|E]; rewrite E; [|simpl; auto].
  destruct (expand_main_Ok _ _ _ E) as (N1 & I1 & F1 & R1 & M1 & C1). rewrite N1, F1, R1.
  pose proof (tr_n _ _ _ R) as N. pose proof (zlen_nonneg rows) as Nn.
  destruct (map2M_exists (fun buf vals => do src <- take_exact m vals; blit buf (maxrows t1) (nrows t) src)
              (fcols t) (fst cs)) as [fc Hfc].
  { rewrite (tr_nf _ _ _ R). symmetry. exact Lf. }
  { intros j a b Ha Hb. rewrite Forall_forall in Wfx. specialize (Wfx b (nth_error_In _ _ Hb)).
    rewrite (take_exact_total m b) by lia. cbn [bind]. apply blit_total; [lia | rewrite zlen_firstn; lia]. }
  rewrite Hfc.
  pose proof (append_ragged_cases (nrows t) (maxrows t1) m (snd cs) (rcol_of rows) Hm C1 Wrg (td_order d) (rcols t) ND) as S.
  destruct (append_ragged (nrows t) (maxrows t1) m (rcols t) (snd cs) (td_order d)) as [rc st].
  simpl in S.
  assert (S' : ok_or [TSK_ERR_COLUMN_OVERFLOW] st).
  { apply S.
    - rewrite Lr. symmetry. apply (tr_nr _ _ _ R).
    - intros j Hj. rewrite (tr_nr _ _ _ R). apply Oall. exact Hj.
    - intros j c _ Hc. eapply RRep_mono; [apply (tr_r _ _ _ R _ _ Hc) | exact M1]. }
  destruct st as [[]| | |]; simpl in *; try contradiction; try (destruct S' as [<-|[]]); auto.
Qed.

(* check_offsets of every supplied column, pointwise *)
Lemma precheck_offsets_all m inputs :
  precheck_offsets m inputs = Ok tt <->
  (forall data offs, In (Some (data, offs)) inputs -> check_offsets m offs = Ok tt).
Proof.
  induction inputs as [|inp inputs [IH1 IH2]]; simpl.
  - split; [intros _ ? ? [] | reflexivity].
  - destruct inp as [[data offs]|].
    + split.
      * intros H. binv H as u C H1. destruct u.
        intros d o [X|X]; [inversion X; subst; exact C | apply (IH1 H1 d o X)].
      * intros H. rewrite (H data offs (or_introl eq_refl)). cbn [bind]. apply IH2.
        intros d o X. apply (H d o). right. exact X.
    + split.
      * intros H d o [X|X]; [discriminate | apply (IH1 H d o X)].
      * intros H. apply IH2. intros d o X. apply (H d o). right. exact X.
Qed.

Lemma parse_cols_shape d cs n : parse_cols d cs = Ok n ->
  length (fst cs) = length (td_kinds d) /\ length (snd cs) = td_nr d.
Proof.
  unfold parse_cols. intros H.
  match type of H with (if negb ?c then _ else _) = _ => destruct c; simpl in H; [|discriminate] end.
  match type of H with (if negb ?c then _ else _) = _ => destruct c eqn:Sh; simpl in H; [|discriminate] end.
  apply andb_true_iff in Sh as [A B]. apply Nat.eqb_eq in A. apply Nat.eqb_eq in B. auto.
Qed.

Lemma parse_precheck_cols_wf d cs n :
  td_mdlen_bug d = false -> parse_cols d cs = Ok n -> precheck_offsets n (snd cs) = Ok tt ->
  cols_wf d n cs.
Proof.
  intros Hb P C. destruct (parse_cols_shape _ _ _ P) as [Lf Lr].
  destruct (parse_cols_lengths _ _ _ Hb P) as [Fx Rg].
  repeat split; auto.
  - eapply Forall_impl; [|exact Fx]. intros c Hc. simpl in Hc. lia.
  - apply Forall_forall. intros inp Hin. destruct inp as [[data offs]|]; [|exact I].
    destruct (Rg _ _ Hin) as [Lo Gl]. split.
    + apply (proj1 (precheck_offsets_all n (snd cs)) C data offs Hin).
    + exists (zlen data). split; [exact Gl|]. pose proof (zlen_nonneg data). lia.
Qed.

(* (g), the converse: the binding's dimension checks and check_offsets pass  ==>  the call
   succeeds, unless a size limit of the C code overflows *)
Theorem append_columns_gen_safe bchk atomic d t cs n :
  WF d t -> order_ok d -> td_mdlen_bug d = false ->
  parse_cols d cs = Ok n -> precheck_offsets n (snd cs) = Ok tt ->
  ok_or overflow_codes (snd (append_columns_gen bchk atomic d t cs)).
Proof.
  intros W O Hb P C. pose proof (parse_precheck_cols_wf _ _ _ Hb P C) as Wf.
  destruct (parse_cols_Ok _ _ _ P) as [Hn _].
  unfold append_columns_gen. rewrite P.
  replace (if bchk then precheck_offsets n (snd cs) else Ok tt) with (@Ok unit tt) by (destruct bchk; [symmetry; exact C | reflexivity]).
  unfold append_columns_c_gen. replace (if atomic then _ else _) with (append_columns_c d t n cs)
    by (destruct atomic; [rewrite C|]; reflexivity).
  apply (append_columns_c_safe _ _ _ _ _ (WF_TRep _ _ W) O Hn Wf).
Qed.

Theorem set_columns_gen_safe bchk atomic d t cs n :
  WF d t -> order_ok d -> td_mdlen_bug d = false ->
  parse_cols d cs = Ok n -> precheck_offsets n (snd cs) = Ok tt ->
  ok_or overflow_codes (snd (set_columns_gen bchk atomic d t cs)).
Proof.
  intros W O Hb P C. pose proof (parse_precheck_cols_wf _ _ _ Hb P C) as Wf.
  destruct (parse_cols_Ok _ _ _ P) as [Hn _].
  unfold set_columns_gen. rewrite P.
  replace (if bchk then precheck_offsets n (snd cs) else Ok tt) with (@Ok unit tt) by (destruct bchk; [symmetry; exact C | reflexivity]).
  destruct (clear_total _ _ W) as [t0 C0]. rewrite C0.
  pose proof (clear_rep _ _ _ _ (WF_TRep _ _ W) C0) as R0.
  unfold append_columns_c_gen. replace (if atomic then _ else _) with (append_columns_c d t0 n cs)
    by (destruct atomic; [rewrite C|]; reflexivity).
  apply (append_columns_c_safe _ _ _ _ _ R0 O Hn Wf).
Qed.

(* ... and a successful call means check_offsets passed for every supplied column *)
Lemma append_ragged_checks n maxr m inputs : forall order rc rc',
  append_ragged n maxr m rc inputs order = (rc', Ok tt) ->
  forall j data offs, In j order -> nth_error inputs j = Some (Some (data, offs)) ->
  check_offsets m offs = Ok tt.
Proof.
  induction order as [|k order IH]; intros rc rc' H j data offs Hj Hi; [destruct Hj|].
  simpl in H. destruct (nth_error rc k) as [c|] eqn:Hc; [|discriminate].
  destruct (nth_error inputs k) as [inp|] eqn:Hk; [|discriminate].
  destruct (rag_append n maxr m c inp) as [c1| | |] eqn:A; try discriminate.
  destruct Hj as [<-|Hj]; [|eapply IH; eassumption].
  rewrite Hi in Hk. inversion Hk; subst inp. simpl in A. binv A as u Ck A1. destruct u. exact Ck.
Qed.

Theorem columns_success_checks bchk atomic d t cs t' n :
  order_ok d -> parse_cols d cs = Ok n ->
  (append_columns_gen bchk atomic d t cs = (t', Ok tt) \/ set_columns_gen bchk atomic d t cs = (t', Ok tt)) ->
  precheck_offsets n (snd cs) = Ok tt.
Proof.
  intros [ND Oall] P H. destruct (parse_cols_shape _ _ _ P) as [_ Lr].
  assert (Core : forall t0, append_columns_c d t0 n cs = (t', Ok tt) -> precheck_offsets n (snd cs) = Ok tt).
  { intros t0 A. unfold append_columns_c in A.
    destruct (expand_main t0 n) as [t1| | |]; try (inversion A; fail).
    destruct (map2M _ (fcols t1) (fst cs)) as [fc| | |]; try (inversion A; fail).
    destruct (append_ragged (nrows t1) (maxrows t1) n (rcols t1) (snd cs) (td_order d)) as [rc st] eqn:Er.
    destruct st as [[]| | |]; try (inversion A; fail).
    apply precheck_offsets_all. intros data offs Hin. apply In_nth_error in Hin as [j Hj].
    apply (append_ragged_checks _ _ _ _ _ _ _ Er j data offs); [|exact Hj].
    apply Oall. rewrite <- Lr. apply nth_error_Some. congruence. }
  destruct H as [H|H].
  - unfold append_columns_gen in H. rewrite P in H.
    destruct (if bchk then precheck_offsets n (snd cs) else Ok tt); try (inversion H; fail).
    apply append_columns_c_gen_ok in H. eapply Core; eassumption.
  - unfold set_columns_gen in H. rewrite P in H.
    destruct (if bchk then precheck_offsets n (snd cs) else Ok tt); try (inversion H; fail).
    destruct (clear t) as [t0| | |]; try (inversion H; fail).
    apply append_columns_c_gen_ok in H. eapply Core; eassumption.
Qed.

(* F14 repaired (the variants with the up-front checks): a call whose offsets do not pass
   check_offsets returns that error and leaves the table exactly as it was *)
Theorem repaired_binding_refusal_unchanged atomic d t cs n e :
  parse_cols d cs = Ok n -> precheck_offsets n (snd cs) = Err e ->
  set_columns_gen true atomic d t cs = (t, Err e) /\ append_columns_gen true atomic d t cs = (t, Err e).
Proof.
  intros P C. unfold set_columns_gen, append_columns_gen. rewrite P, C. simpl. auto.
Qed.

Theorem repaired_c_refusal_unchanged d t m cs e :
  precheck_offsets m (snd cs) = Err e -> append_columns_c_gen true d t m cs = (t, Err e).
Proof. intros C. unfold append_columns_c_gen. rewrite C. reflexivity. Qed.

Example repaired_refusal_ex :
  set_columns_gen true true d_individuals
    (fold_left (fun t r => match add_row d_individuals t r with Ok t' => t' | _ => t end)
               [([1], [[10]; []; [7]])] (init d_individuals 0))
    ([[5; 6]], [Some ([9; 8], [0; 1; 2]); Some ([1; 1], [0; 3; 2]); None])
  = (fold_left (fun t r => match add_row d_individuals t r with Ok t' => t' | _ => t end)
               [([1], [[10]; []; [7]])] (init d_individuals 0), Err TSK_ERR_BAD_OFFSET).
Proof. vm_compute. reflexivity. Qed.

Lemma init_wf_local d : WF d (init d 0) /\ abs (init d 0) = [].
Proof.
  pose proof (init_rep d 0 (Z.le_refl 0)) as R. split; [eapply TRep_WF; eassumption | apply (TRep_abs _ _ _ R)].
Qed.

(* ---------- the table's own offsets pass check_offsets (for tsk_*_table_copy) ---------- *)
Lemma psum_step (cells : list (list Z)) j : (j < length cells)%nat ->
  zlen (concat (firstn j cells)) <= zlen (concat (firstn (S j) cells)).
Proof.
  intros H. rewrite (concat_firstn_S _ _ H), zlen_app. pose proof (zlen_nonneg (nth j cells [])). lia.
Qed.

Lemma RRep_offsets_monotone n maxr c cells : RRep n maxr c cells ->
  forall k j, 0 <= j -> j + Z.of_nat k <= n -> offsets_monotone k j (roff c) = Ok true.
Proof.
  intros R. pose proof (rr_n _ _ _ _ R) as N.
  induction k as [|k IH]; intros j Hj Hk; [reflexivity|].
  simpl. rewrite (RRep_off_nth _ _ _ _ j R) by lia. rewrite (RRep_off_nth _ _ _ _ (j + 1) R) by lia. cbn [bind].
  replace (Z.to_nat (j + 1)) with (S (Z.to_nat j)) by lia.
  pose proof (psum_step cells (Z.to_nat j) ltac:(unfold zlen in N; lia)) as P.
  replace (zlen (concat (firstn (Z.to_nat j) cells)) >? zlen (concat (firstn (S (Z.to_nat j)) cells))) with false
    by (symmetry; rewrite Z.gtb_ltb; apply Z.ltb_ge; lia).
  apply IH; lia.
Qed.

Lemma RRep_check_offsets n maxr c cells : RRep n maxr c cells -> check_offsets n (roff c) = Ok tt.
Proof.
  intros R. pose proof (RRep_off_len _ _ _ _ R) as [_ N0]. unfold check_offsets.
  rewrite (RRep_off_nth _ _ _ _ 0 R) by lia. cbn [bind]. simpl firstn. simpl concat.
  change (zlen (@nil Z)) with 0. simpl negb. cbn iota.
  rewrite (RRep_offsets_monotone _ _ _ _ R (Z.to_nat n) 0) by lia. reflexivity.
Qed.

Theorem table_copy_safe d t : WF d t -> order_ok d -> ok_or overflow_codes (snd (table_copy d t)).
Proof.
  intros W O. pose proof (WF_TRep _ _ W) as R. unfold table_copy.
  destruct (init_wf_local d) as [W0 _].
  destruct (clear_total _ _ W0) as [t0 C0]. rewrite C0.
  pose proof (clear_rep _ _ _ _ (WF_TRep _ _ W0) C0) as R0.
  pose proof (tr_n _ _ _ R) as N. pose proof (zlen_nonneg (abs t)) as Nn.
  apply (append_columns_c_safe _ _ _ _ _ R0 O); [lia|].
  repeat split; simpl.
  - apply (tr_nf _ _ _ R).
  - rewrite map_length. apply (tr_nr _ _ _ R).
  - apply Forall_forall. intros buf Hb. apply In_nth_error in Hb as [j Hj].
    pose proof (FRep_bounds _ _ _ _ (tr_f _ _ _ R _ _ Hj)). lia.
  - apply Forall_forall. intros inp Hin. apply in_map_iff in Hin as (c & <- & Hc).
    apply In_nth_error in Hc as [j Hj]. pose proof (tr_r _ _ _ R _ _ Hj) as Rc.
    split; [apply (RRep_check_offsets _ _ _ _ Rc)|].
    exists (rlen c). pose proof (RRep_data_len _ _ _ _ Rc). split; [|lia].
    rewrite (RRep_off_nth _ _ _ _ (nrows t) Rc) by lia. f_equal.
    pose proof (rr_n _ _ _ _ Rc) as Nc. rewrite firstn_all2 by (unfold zlen in Nc; lia).
    symmetry. apply (rr_len _ _ _ _ Rc).
Qed.

(* ---------- update_row, both paths ---------- *)
Lemma list_eqb_Z_eq' a b : list_eqb Z.eqb a b = true -> a = b.
Proof. apply list_eqb_eq. intros x y. apply Z.eqb_eq. Qed.

Theorem update_row_safe d t i r :
  WF d t -> order_ok d -> row_ok d r = true ->
  ok_or (extend_codes d) (snd (update_row d t i r)).
Proof.
  intros W O Hr. pose proof (WF_TRep _ _ W) as R. unfold update_row.
  destruct (Z_lt_dec i 0) as [Lt|Ge]; [rewrite get_row_out_of_range' by (left; exact Lt); simpl; auto|].
  destruct (Z_le_dec (nrows t) i) as [Le|Gt]; [rewrite get_row_out_of_range' by (right; exact Le); simpl; auto|].
  assert (Hi : 0 <= i < nrows t) by lia.
  rewrite (get_row_rep _ _ _ _ R Hi).
  pose proof (tr_n _ _ _ R) as N.
  assert (Li : (Z.to_nat i < length (abs t))%nat) by (unfold zlen in N; lia).
  destruct (row_ok_lengths _ _ Hr) as [Lrf Lrr].
  pose proof (tr_shape _ _ _ R) as Sh. rewrite Forall_forall in Sh.
  destruct (row_ok_lengths _ _ (Sh _ (nth_In _ row0 Li))) as [_ Lcr].
  destruct (list_eqb Z.eqb _ _) eqn:Same.
  - (* in place: every store is inside the used part of its buffer *)
    apply list_eqb_Z_eq' in Same.
    destruct (map2M_exists (fun buf v => store buf (maxrows t) i v) (fcols t) (fst r)) as [fc Hfc].
    { rewrite (tr_nf _ _ _ R). symmetry. exact Lrf. }
    { intros j a b Ha Hb. unfold store. pose proof (tr_max _ _ _ R). apply blit_total; [lia | unfold zlen; simpl; lia]. }
    destruct (map2M_exists (fun c vs => do a <- get (roff c) i; do dt <- blit (rdata c) (rmax c) a vs;
                                       Ok (mkRag dt (rlen c) (rmax c) (rincr c) (roff c))) (rcols t) (snd r)) as [rc Hrc].
    { rewrite (tr_nr _ _ _ R). symmetry. exact Lrr. }
    { intros j c vs Hc Hv. pose proof (tr_r _ _ _ R _ _ Hc) as Rc.
      pose proof (rr_n _ _ _ _ Rc) as Nc. pose proof (RRep_data_len _ _ _ _ Rc) as DL.
      rewrite (RRep_off_nth _ _ _ _ i Rc) by lia. cbn [bind].
      assert (Lc : (Z.to_nat i < length (rcol_of (abs t) j))%nat) by (unfold zlen in Nc; lia).
      assert (Lv : zlen vs = zlen (nth (Z.to_nat i) (rcol_of (abs t) j) [])).
      { unfold rcol_of. rewrite (nth_map_lt _ _ _ row0) by exact Li.
        apply (f_equal (fun l => nth j l 0)) in Same.
        rewrite !(nth_map_lt _ _ _ []) in Same.
        - rewrite (nth_error_nth _ _ [] Hv) in Same. symmetry. exact Same.
        - apply nth_error_Some. congruence.
        - rewrite Lcr, <- Lrr. apply nth_error_Some. congruence. }
      pose proof (psum_step _ _ Lc) as _.
      assert (Up : zlen (concat (firstn (Z.to_nat i) (rcol_of (abs t) j))) + zlen vs <= rlen c).
      { rewrite Lv. rewrite (rr_len _ _ _ _ Rc).
        rewrite <- (firstn_skipn (S (Z.to_nat i)) (rcol_of (abs t) j)) at 3.
        rewrite concat_app, zlen_app, (concat_firstn_S _ _ Lc), zlen_app.
        pose proof (zlen_nonneg (concat (skipn (S (Z.to_nat i)) (rcol_of (abs t) j)))). lia. }
      pose proof (rr_capd _ _ _ _ Rc). pose proof (zlen_nonneg (concat (firstn (Z.to_nat i) (rcol_of (abs t) j)))).
      destruct (blit_total (rdata c) (rmax c) (zlen (concat (firstn (Z.to_nat i) (rcol_of (abs t) j)))) vs) as [dt Hd]; [lia | lia |].
      rewrite Hd. cbn [bind]. eexists; reflexivity. }
    unfold lift. rewrite Hfc. cbn [bind]. rewrite Hrc. cbn [bind]. exact I.
  - (* rewrite: copy, truncate, add_row, extend *)
    unfold update_row_rewrite.
    pose proof (table_copy_safe _ _ W O) as Sc.
    destruct (table_copy d t) as [cp stc] eqn:Cp. simpl in Sc.
    destruct stc as [[]| | |]; simpl in *; try contradiction.
    2:{ right. exact Sc. }
    pose proof (table_copy_rep _ _ _ _ R O Cp) as Rc.
    destruct (truncate_total _ _ i W) as [t1 T]; [lia|]. rewrite T.
    pose proof (truncate_rep _ _ _ _ _ R T) as R1.
    pose proof (add_row_safe d t1 r (TRep_WF _ _ _ R1) Hr) as Sa.
    destruct (add_row d t1 r) as [t2| | |] eqn:A; simpl in Sa; try contradiction.
    + apply extend_safe; [eapply TRep_WF; eapply add_row_rep; eassumption | eapply TRep_WF; exact Rc].
    + simpl. right. exact Sa.
Qed.
