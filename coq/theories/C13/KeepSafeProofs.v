(* C13 — keep_rows is total and memory safe under the invariant: the reference check returns
   Ok or one of its two error codes, and once it has passed the in-place compaction loops
   never leave their buffers and never fail. *)
From Coq Require Import List ZArith Bool Lia.
From TskVerif Require Import Base.Common C13.Model C13.Lemmas C13.Rep C13.Bridge C13.OpsProofs
  C13.ColsProofs C13.KeepProofs C13.TotalProofs C13.SafeProofs.
Import ListNotations.
Open Scope Z_scope.

Lemma nth_after_store buf cap k v b m i :
  store buf cap k v = Ok b -> 0 <= k <= zlen buf -> (Z.to_nat k + 1 <= m)%nat ->
  nth (m + i) b 0 = nth (m + i) buf 0.
Proof.
  intros H R M. rewrite <- !nth_skipn. rewrite (store_skipn_ge _ _ _ _ _ _ H R M). reflexivity.
Qed.

(* ---------- fixed columns ---------- *)
Lemma subset_loop_total (f : Z -> res Z) cap keep : forall j k buf,
  0 <= k <= j -> j + zlen keep <= zlen buf -> zlen buf <= cap ->
  (forall i, (i < length keep)%nat -> nth i keep false = true ->
             exists v', f (nth (Z.to_nat j + i) buf 0) = Ok v') ->
  exists r, subset_loop f cap keep j k buf = Ok r.
Proof.
  induction keep as [|b keep IH]; intros j k buf K J C F; [eexists; reflexivity|].
  rewrite zlen_cons in J. pose proof (zlen_nonneg keep) as Kn.
  assert (F' : forall buf1, (forall i, nth (Z.to_nat (j + 1) + i) buf1 0 = nth (Z.to_nat (j + 1) + i) buf 0) ->
               forall i, (i < length keep)%nat -> nth i keep false = true ->
               exists v', f (nth (Z.to_nat (j + 1) + i) buf1 0) = Ok v').
  { intros buf1 E i Hi Ki. rewrite E. replace (Z.to_nat (j + 1) + i)%nat with (Z.to_nat j + S i)%nat by lia.
    apply F; [simpl; lia | exact Ki]. }
  destruct b; simpl.
  - rewrite (get_in_range _ _ 0) by lia. cbn [bind].
    destruct (F 0%nat) as [v' Fv]; [simpl; lia | reflexivity|]. rewrite Nat.add_0_r in Fv. rewrite Fv. cbn [bind].
    unfold store at 1. destruct (blit_total buf cap k [v']) as [buf1 St]; [lia | unfold zlen; simpl; unfold zlen in *; lia|].
    rewrite St. cbn [bind].
    assert (Bk : 0 <= k <= zlen buf) by lia.
    assert (Z1 : zlen buf1 = zlen buf) by (apply (store_zlen_inside _ _ _ _ _ St); lia).
    apply IH; [lia | lia | lia |].
    apply F'. intros i. apply (nth_after_store _ _ _ _ _ _ _ St Bk). lia.
  - apply IH; [lia | lia | lia |]. apply F'. reflexivity.
Qed.

(* ---------- ragged columns ---------- *)
Lemma subset_rag_loop_total (f : Z -> res Z) (g : Z -> Z) capd capo :
  (forall v v', f v = Ok v' -> v' = g v) ->
  forall keep cs j k offset data off aj,
  length cs = length keep ->
  0 <= k <= j -> 0 <= offset <= aj -> (k = j -> offset = aj) ->
  firstn (S (length keep)) (skipn (Z.to_nat j) off) = psums aj cs ->
  firstn (length (concat cs)) (skipn (Z.to_nat aj) data) = concat cs ->
  aj + zlen (concat cs) <= zlen data -> zlen data <= capd -> zlen off <= capo ->
  Forall (fun c => Forall (fun v => exists v', f v = Ok v') c) (filter_mask keep cs) ->
  exists r, subset_rag_loop f capd capo keep j k offset data off = Ok r.
Proof.
  intros Fg. induction keep as [|b keep IH];
    intros cs j k offset data off aj Lc K Of Al Ho Hd Hz Cd Co Fok.
  - destruct cs; [|discriminate]. simpl. cbn [length psums] in Ho.
    destruct (firstn_skipn_cons _ _ _ _ _ 0 Ho) as (Lj & _ & _).
    unfold store. destruct (blit_total off capo k [offset]) as [o So]; [lia | unfold zlen in *; simpl; lia|].
    rewrite So. cbn [bind]. eexists; reflexivity.
  - destruct cs as [|c cs]; [discriminate|]. simpl in Lc. cbn [psums length] in Ho.
    destruct (firstn_skipn_cons _ _ _ _ _ 0 Ho) as (Lj & Nj & Ho').
    destruct (psums_head (aj + zlen c) cs) as [tl Ep].
    pose proof Ho' as Ho''. rewrite Ep in Ho''.
    destruct (firstn_skipn_cons _ _ _ _ _ 0 Ho'') as (Lj1 & Nj1 & _).
    simpl concat in Hd. rewrite app_length in Hd.
    destruct (data_skip _ _ _ _ Hd) as [Dc Dr].
    simpl concat in Hz. rewrite zlen_app in Hz. pose proof (zlen_nonneg (concat cs)) as Ccn.
    pose proof (zlen_nonneg c) as Cn.
    replace (Z.to_nat aj + length c)%nat with (Z.to_nat (aj + zlen c)) in Dr by (unfold zlen; lia).
    replace (S (Z.to_nat j)) with (Z.to_nat (j + 1)) in * by lia.
    destruct b; simpl.
    + cbn [filter_mask] in Fok. pose proof (Forall_inv Fok) as Fc. pose proof (Forall_inv_tail Fok) as Frest.
      assert (Bk : 0 <= k <= zlen off) by (unfold zlen; lia).
      unfold store at 1. destruct (blit_total off capo k [offset]) as [off1 St]; [lia | unfold zlen in *; simpl; lia|].
      rewrite St. cbn [bind].
      assert (Zo : zlen off1 = zlen off) by (apply (store_zlen_inside _ _ _ _ _ St); unfold zlen; lia).
      assert (Sk1 : skipn (Z.to_nat (j + 1)) off1 = skipn (Z.to_nat (j + 1)) off)
        by (apply (store_skipn_ge _ _ _ _ _ _ St Bk); lia).
      assert (Ga : get off1 j = Ok aj).
      { rewrite (get_in_range _ _ 0) by (rewrite Zo; unfold zlen; lia). f_equal.
        destruct (Z.eq_dec k j) as [->|Ne].
        - rewrite <- (nth_firstn_lt _ _ (S (Z.to_nat j))) by lia.
          rewrite (store_firstn_upto _ _ _ _ _ St Bk).
          rewrite app_nth2 by (rewrite firstn_length; unfold zlen in Bk; lia).
          rewrite firstn_length. replace (Z.to_nat j - Init.Nat.min (Z.to_nat j) (length off))%nat with 0%nat by (unfold zlen in Bk; lia).
          simpl. apply Al. reflexivity.
        - replace (Z.to_nat j) with ((Z.to_nat k + 1) + (Z.to_nat j - (Z.to_nat k + 1)))%nat by lia.
          rewrite (nth_after_store _ _ _ _ _ (Z.to_nat k + 1) _ St Bk) by lia.
          replace ((Z.to_nat k + 1) + (Z.to_nat j - (Z.to_nat k + 1)))%nat with (Z.to_nat j) by lia. exact Nj. }
      assert (Ge : get off1 (j + 1) = Ok (aj + zlen c)).
      { rewrite (get_in_range _ _ 0) by (rewrite Zo; unfold zlen; lia). f_equal.
        rewrite <- (Nat.add_0_r (Z.to_nat (j + 1))).
        rewrite (nth_after_store _ _ _ _ _ (Z.to_nat (j + 1)) 0 St Bk) by lia.
        rewrite Nat.add_0_r. exact Nj1. }
      rewrite Ga, Ge. cbn [bind].
      replace (Z.to_nat (aj + zlen c - aj)) with (length c) by (unfold zlen; lia).
      rewrite copy_loop_as_subset.
      destruct (subset_loop_total f capd (repeat true (length c)) aj offset data) as [[data1 offset1] Cp];
        [lia | rewrite zlen_repeat; unfold zlen in *; lia | lia | |].
      { intros i Hi _. rewrite repeat_length in Hi. rewrite Forall_forall in Fc.
        apply Fc. rewrite <- Dc. rewrite <- nth_skipn.
        rewrite <- (nth_firstn_lt _ _ (length c)) by lia. apply nth_In. rewrite Dc. exact Hi. }
      rewrite Cp. cbn [bind].
      destruct (subset_loop_spec f g capd Fg _ _ _ _ _ _ Cp) as (C1 & C2 & C3 & C4);
        [lia | rewrite zlen_repeat; unfold zlen in *; lia |].
      rewrite count_true_repeat in C1. rewrite repeat_length in C3.
      replace (Z.to_nat aj + length c)%nat with (Z.to_nat (aj + zlen c)) in C3 by (unfold zlen; lia).
      apply (IH cs (j + 1) (k + 1) offset1 data1 off1 (aj + zlen c)); try lia.
      * unfold zlen in *. lia.
      * intros E. assert (Ekj : k = j) by lia. specialize (Al Ekj). unfold zlen in *. lia.
      * rewrite Sk1. exact Ho'.
      * rewrite C3. exact Dr.
      * exact Frest.
    + cbn [filter_mask] in Fok.
      apply (IH cs (j + 1) k offset data off (aj + zlen c)); try lia; try assumption.
Qed.

(* ---------- the reference check returns Ok or one of its error codes ---------- *)
Definition keep_codes (d : tdesc) : list Z :=
  [td_oob d; TSK_ERR_KEEP_ROWS_MAP_TO_DELETED; TSK_ERR_BAD_PARAM_VALUE].

Lemma check_ref_codes oob n idm p : zlen idm = n ->
  ok_or [oob; TSK_ERR_KEEP_ROWS_MAP_TO_DELETED] (check_ref oob n idm p).
Proof.
  intros L. unfold check_ref. destruct (p =? TSK_NULL); [exact I|].
  destruct ((p <? 0) || (p >=? n)) eqn:B; [simpl; auto|].
  apply orb_false_iff in B as [B1 B2]. apply Z.ltb_ge in B1. rewrite Z.geb_leb in B2. apply Z.leb_gt in B2.
  rewrite (get_in_range _ _ TSK_NULL) by lia. cbn [bind].
  destruct (_ =? TSK_NULL); simpl; auto.
Qed.

Lemma check_refs_codes oob n idm ps : zlen idm = n ->
  ok_or [oob; TSK_ERR_KEEP_ROWS_MAP_TO_DELETED] (check_refs oob n idm ps).
Proof.
  intros L. induction ps as [|p ps IH]; simpl; [exact I|].
  pose proof (check_ref_codes oob n idm p L) as C.
  destruct (check_ref oob n idm p) as [[]| | |]; simpl in *; auto.
Qed.

Lemma check_rows_codes cell oob n idm (refs : Z -> list Z) : zlen idm = n ->
  forall keep j, (forall i, j <= i < j + zlen keep -> cell i = Ok (refs i)) ->
  ok_or [oob; TSK_ERR_KEEP_ROWS_MAP_TO_DELETED] (check_rows cell oob n idm keep j).
Proof.
  intros L. induction keep as [|b keep IH]; intros j C; [exact I|].
  rewrite zlen_cons in C. pose proof (zlen_nonneg keep) as Kn.
  assert (C' : forall i, j + 1 <= i < j + 1 + zlen keep -> cell i = Ok (refs i)) by (intros i Hi; apply C; lia).
  destruct b; simpl; [|apply IH; exact C'].
  rewrite (C j) by lia. cbn [bind].
  pose proof (check_refs_codes oob n idm (refs j) L) as R.
  destruct (check_refs oob n idm (refs j)) as [[]| | |]; simpl in *; auto.
Qed.

Lemma Forall_filter_mask_inv {A} (P : A -> Prop) d keep : forall l, length keep = length l ->
  Forall P (filter_mask keep l) ->
  forall i, (i < length keep)%nat -> nth i keep false = true -> P (nth i l d).
Proof.
  induction keep as [|b keep IH]; intros [|x l] L F i Hi Ki; simpl in *; try lia.
  destruct b.
  - destruct i as [|i]; [apply (Forall_inv F) | apply (IH l ltac:(lia) (Forall_inv_tail F) i ltac:(lia) Ki)].
  - destruct i as [|i]; [discriminate | apply (IH l ltac:(lia) F i ltac:(lia) Ki)].
Qed.

Lemma mapi_aux_exists {A B} (f : nat -> A -> res B) l : forall i,
  (forall j a, nth_error l j = Some a -> exists b, f (i + j)%nat a = Ok b) ->
  exists l', mapi_aux f i l = Ok l'.
Proof.
  induction l as [|x l IH]; intros i H; simpl; [eexists; reflexivity|].
  destruct (H 0%nat x eq_refl) as [b Hb]. rewrite Nat.add_0_r in Hb. rewrite Hb. cbn [bind].
  destruct (IH (S i)) as [l' Hl'].
  { intros j a Ha. replace (S i + j)%nat with (i + S j)%nat by lia. apply (H (S j) a Ha). }
  rewrite Hl'. cbn [bind]. eexists; reflexivity.
Qed.

Lemma remap_total idm n p : zlen idm = n -> ref_ok n idm p -> exists v', remap idm p = Ok v'.
Proof.
  intros L [->|[R _]]; unfold remap.
  - rewrite Z.eqb_refl. eexists; reflexivity.
  - destruct (p =? TSK_NULL); [eexists; reflexivity|].
    rewrite (get_in_range _ _ 0) by lia. eexists; reflexivity.
Qed.

(* ---------- keep_rows ---------- *)
Theorem keep_rows_safe d t keep :
  WF d t -> zlen keep = nrows t -> ok_or (keep_codes d) (keep_rows d t keep).
Proof.
  intros W Lk. pose proof (WF_TRep _ _ W) as R. set (rows := abs t) in *.
  pose proof (tr_n _ _ _ R) as N. pose proof (zlen_nonneg rows) as Nn.
  assert (Lkr : length keep = length rows) by (unfold zlen in *; lia).
  assert (Lkn : length keep = Z.to_nat (nrows t)) by (unfold zlen in Lk; lia).
  set (idm := keep_mask_to_id_map keep).
  assert (Li : zlen idm = nrows t) by (unfold idm; rewrite keep_mask_to_id_map_length; exact Lk).
  pose proof (check_phase _ _ _ _ R Lk) as CP. cbn zeta in CP. fold idm in CP.
  pose proof (check_cells _ _ _ R) as CC.
  unfold keep_rows. fold idm.
  (* the check *)
  match goal with |- ok_or _ (bind ?chk _) => set (c := chk) in *; assert (Cc : ok_or (keep_codes d) c) end.
  { unfold c. destruct (td_selfref d) as [[[] s]|]; [| |exact I].
    - destruct (nth_error (fcols t) s) as [buf|] eqn:Hb; [|simpl; auto].
      eapply ok_or_weaken; [|apply (check_rows_codes _ _ _ _ (fun i => refs_of d (nth (Z.to_nat i) rows row0)) Li keep 0)].
      + intros x [<-|[<-|[]]]; simpl; auto.
      + intros i Hi. apply (CC buf eq_refl). lia.
    - destruct (nth_error (rcols t) s) as [cc|] eqn:Hc; [|simpl; auto].
      eapply ok_or_weaken; [|apply (check_rows_codes _ _ _ _ (fun i => refs_of d (nth (Z.to_nat i) rows row0)) Li keep 0)].
      + intros x [<-|[<-|[]]]; simpl; auto.
      + intros i Hi. apply (CC cc eq_refl). lia. }
  destruct CP as [[Ec Kok]|(e & Ec & _)]; fold c in Ec; rewrite Ec in *; [|exact Cc].
  cbn [bind]. clear Cc.
  unfold kept_refs_ok in Kok.
  (* every reference of a kept row can be remapped *)
  assert (Kp : forall i, (i < length keep)%nat -> nth i keep false = true ->
               Forall (ref_ok (nrows t) idm) (refs_of d (nth i rows row0))).
  { apply (Forall_filter_mask_inv _ row0 keep rows Lkr Kok). }
  (* fixed columns *)
  destruct (mapi_aux_exists (fun j buf =>
      do '(b, _) <- subset_loop (match td_selfref d with
               | Some (true, s) => if Nat.eqb s j then remap idm else no_remap
               | _ => no_remap end) (maxrows t) keep 0 0 buf; Ok b) (fcols t) 0) as [fc Hfc].
  { intros j buf Hj. simpl Nat.add. pose proof (tr_f _ _ _ R _ _ Hj) as F. pose proof (FRep_bounds _ _ _ _ F) as B.
    set (f := match td_selfref d with
               | Some (true, s) => if Nat.eqb s j then remap idm else no_remap
               | _ => no_remap end).
    destruct (subset_loop_total f (maxrows t) keep 0 0 buf) as [[b k] Hs];
      [lia | lia | apply (fr_cap _ _ _ _ F) | | rewrite Hs; cbn [bind]; eexists; reflexivity].
    intros i Hi Ki. simpl Nat.add. unfold f.
    destruct (td_selfref d) as [[[] s]|] eqn:Sr; try (eexists; reflexivity).
    destruct (Nat.eqb s j) eqn:Es; [|eexists; reflexivity]. apply Nat.eqb_eq in Es. subst s.
    apply (remap_total idm (nrows t)); [exact Li|].
    specialize (Kp i Hi Ki). unfold refs_of in Kp. rewrite Sr in Kp. apply Forall_inv in Kp.
    replace (nth i buf 0) with (nth j (fst (nth i rows row0)) 0); [exact Kp|].
    symmetry. rewrite <- (nth_firstn_lt _ _ (Z.to_nat (nrows t))) by lia.
    rewrite (fr_cells _ _ _ _ F). unfold fcol_of.
    apply (nth_map_lt (fun r : row => nth j (fst r) 0) rows i row0 0). lia. }
  unfold mapiM. rewrite Hfc. cbn [bind].
  (* ragged columns *)
  destruct (mapi_aux_exists (fun j c =>
      if is_some_eq (td_md d) j && (rlen c =? 0) then Ok c else
      do '(dt, off, _, len) <- subset_rag_loop (match td_selfref d with
               | Some (false, s) => if Nat.eqb s j then remap idm else no_remap
               | _ => no_remap end) (rmax c) (maxrows t + 1) keep 0 0 0 (rdata c) (roff c);
      Ok (mkRag dt len (rmax c) (rincr c) off)) (rcols t) 0) as [rc Hrc].
  { intros j cc Hj. simpl Nat.add. pose proof (tr_r _ _ _ R _ _ Hj) as Rc.
    destruct (is_some_eq (td_md d) j && (rlen cc =? 0)); [eexists; reflexivity|].
    set (f := match td_selfref d with
               | Some (false, s) => if Nat.eqb s j then remap idm else no_remap
               | _ => no_remap end).
    pose proof (rr_n _ _ _ _ Rc) as Nc. pose proof (RRep_data_len _ _ _ _ Rc) as DL.
    destruct (subset_rag_loop_total f (gr d idm j) (rmax cc) (maxrows t + 1)) with
      (keep := keep) (cs := rcol_of rows j) (j := 0) (k := 0) (offset := 0) (data := rdata cc) (off := roff cc) (aj := 0)
      as [[[[dt off] k] len] Hs]; try lia.
    - unfold f, gr. destruct (td_selfref d) as [[[] s]|]; try (intros v v' X; inversion X; reflexivity).
      destruct (Nat.eqb s j); [apply remap_g | intros v v' X; inversion X; reflexivity].
    - unfold zlen in *. lia.
    - change (Z.to_nat 0) with 0%nat. rewrite skipn_O.
      replace (length keep) with (Z.to_nat (nrows t)) by (unfold zlen in Lk; lia). apply (rr_off _ _ _ _ Rc).
    - change (Z.to_nat 0) with 0%nat. rewrite skipn_O. rewrite <- (rr_data _ _ _ _ Rc) at 2. f_equal.
      rewrite (rr_len _ _ _ _ Rc). unfold zlen. lia.
    - rewrite <- (rr_len _ _ _ _ Rc). lia.
    - apply (rr_capd _ _ _ _ Rc).
    - apply (rr_capo _ _ _ _ Rc).
    - unfold rcol_of. rewrite filter_mask_map. apply Forall_map.
      eapply Forall_impl; [|exact Kok]. intros r Hr. simpl in Hr. unfold f.
      destruct (td_selfref d) as [[[] s]|] eqn:Sr; try (apply Forall_forall; intros; eexists; reflexivity).
      destruct (Nat.eqb s j) eqn:Es; [|apply Forall_forall; intros; eexists; reflexivity].
      apply Nat.eqb_eq in Es. subst s. unfold refs_of in Hr. rewrite Sr in Hr.
      eapply Forall_impl; [|exact Hr]. intros p Hp. apply (remap_total idm (nrows t)); assumption.
    - rewrite Hs. cbn [bind]. eexists; reflexivity. }
  rewrite Hrc. cbn [bind]. exact I.
Qed.
