(* C13 — the places where the faithful model does NOT satisfy the list-of-rows property:
   concrete witnesses (replayed on the real code by harness/props/c13.py, families
   tableops and hazard; findings/C13.json). *)
From Coq Require Import List ZArith Bool Lia.
From TskVerif Require Import Base.Common C13.Model C13.Rep C13.RefineProofs.
Import ListNotations.
Open Scope Z_scope.

Definition build_tbl (d : tdesc) (rows : list row) : tbl :=
  fold_left (fun t r => match add_row d t r with Ok t' => t' | _ => t end) rows (init d 0).

(* F8 (repaired in /repo by dd5e92d): at the PINNED commit BaseTable.__getitem__ copied
   metadata_schema unconditionally ([py_getitem_idx_gen false]) and ProvenanceTable[slice |
   mask | ids] raised AttributeError although every index is in range.  Historical record
   about the pinned variant; the current model is [py_getitem_idx_gen c13_getitem_schema_guarded]
   and the positive statement is RefineProofs.py_getitem_idx_refines. *)
Definition prov_tbl := build_tbl d_provenances [([], [[114]; [116]]); ([], [[115]; [117]])].
Definition pop_tbl := build_tbl d_populations [([], [[114]]); ([], [[115]])].

Theorem provenance_getitem_slice_pinned_refuted :
  exists t idx, WF d_provenances t /\ Forall (fun i => 0 <= i < nrows t) idx /\
    py_getitem_idx_gen false d_provenances t idx = Err PY_ATTRIBUTE_ERROR.
Proof.
  exists prov_tbl, [1; 0]. split; [vm_compute; reflexivity|]. split; [|vm_compute; reflexivity].
  repeat constructor; vm_compute; congruence.
Qed.

Example getitem_slice_other_tables :
  py_getitem_idx_gen false d_populations pop_tbl [1; 0] = Ok (rows_at (abs pop_tbl) [1; 0]) /\
  py_getitem_idx_gen true d_provenances prov_tbl [1; 0] = Ok (rows_at (abs prov_tbl) [1; 0]).
Proof. split; vm_compute; reflexivity. Qed.

(* F14 (repaired in /repo by 86175ae = fixes/C13-F14-atomic-column-setters.diff; the regenerated
   facts c13_binding_checks_offsets / c13_append_offsets_checked_first are now true).  Historical
   record about the PINNED variant [append_columns_gen false false]: a refused append_columns (bad offsets in the ragged column treated last) leaves
   the table outside its invariant ... *)
Definition f14_cols : cols := ([[5; 6]], [Some ([9; 8], [0; 1; 2]); Some ([1; 1], [0; 3; 2]); None]).

Theorem append_columns_not_atomic_pinned_refuted :
  exists t cs t', WF d_individuals t /\
    append_columns_gen false false d_individuals t cs = (t', Err TSK_ERR_BAD_OFFSET) /\
    WFb d_individuals t' = false.
Proof.
  exists ex_tbl, f14_cols, (fst (append_columns_gen false false d_individuals ex_tbl f14_cols)).
  split; [vm_compute; reflexivity|]. split; vm_compute; reflexivity.
Qed.

(* ... and the next add_row then stores a row that is not the row that was added *)
Theorem add_row_after_refused_append_pinned_refuted :
  exists t cs r, WF d_individuals t /\ row_ok d_individuals r = true /\
    snd (append_columns_gen false false d_individuals t cs) = Err TSK_ERR_BAD_OFFSET /\
    (do t'' <- add_row d_individuals (fst (append_columns_gen false false d_individuals t cs)) r;
     Ok (last (abs t'') row0)) = Ok ([3], [[9; 8; 7]; [1]; [122]]) /\
    r = ([3], [[7]; [1]; [122]]).
Proof.
  exists ex_tbl, f14_cols, ([3], [[7]; [1]; [122]]).
  repeat split; vm_compute; reflexivity.
Qed.

(* for sites and mutations add_row asserts offset[num_rows] == length: the process aborts *)
Definition site_tbl := build_tbl d_sites [([0], [[65]; [1]]); ([1], [[67]; []])].
Definition f14_site_cols : cols := ([[2]], [Some ([71], [1; 1]); Some ([5], [0; 1])]).

Theorem site_add_row_after_refused_append_aborts_pinned_refuted :
  WF d_sites site_tbl /\
  snd (append_columns_gen false false d_sites site_tbl f14_site_cols) = Err TSK_ERR_BAD_OFFSET /\
  add_row d_sites (fst (append_columns_gen false false d_sites site_tbl f14_site_cols)) ([3], [[84]; []]) = Err BUG_ASSERT.
Proof. repeat split; vm_compute; reflexivity. Qed.

(* a refused set_columns has already emptied the table *)
Theorem set_columns_failure_clears_pinned_refuted :
  exists t cs t', WF d_nodes t /\ abs t <> [] /\
    set_columns_gen false false d_nodes t cs = (t', Err TSK_ERR_BAD_OFFSET) /\ abs t' = [].
Proof.
  exists (build_tbl d_nodes [([0; 1; -1; -1], [[1; 2]])]),
         ([[0; 0]; [1; 1]; [-1; -1]; [-1; -1]], [Some ([1; 2; 3], [0; 4; 3])]).
  eexists. split; [vm_compute; reflexivity|]. split; [vm_compute; congruence|].
  split; vm_compute; reflexivity.
Qed.

(* F15 (repaired in /repo by b50fe2e): at the PINNED commit parse_site_table_dict and
   parse_mutation_table_dict let metadata_offset *set* num_rows ([with_mdlen_bug d true]): a
   shorter array silently dropped rows, a longer one made the C code read past the other
   arrays.  Historical record about the pinned variant; the current descriptors take the flag
   from the source (the c13_md_offset_length_checked facts) and ColsProofs.parse_cols_lengths is the
   positive statement. *)
Definition d_sites_pinned := with_mdlen_bug d_sites true.

Theorem site_metadata_offset_length_pinned_refuted :
  snd (set_columns d_sites_pinned site_tbl ([[0; 1; 2]], [Some ([65; 67; 71], [0; 1; 2; 3]); Some ([], [0; 0])])) = Ok tt /\
  nrows (fst (set_columns d_sites_pinned site_tbl ([[0; 1; 2]], [Some ([65; 67; 71], [0; 1; 2; 3]); Some ([], [0; 0])]))) = 1 /\
  snd (set_columns d_sites_pinned site_tbl ([[0]], [Some ([65], [0; 1]); Some ([], [0; 0; 0])])) = OOB.
Proof. repeat split; vm_compute; reflexivity. Qed.

(* the repaired code refuses both column sets, for every table *)
Example metadata_offset_length_refused_now :
  td_mdlen_bug d_sites = false /\ td_mdlen_bug d_mutations = false /\
  snd (set_columns d_sites site_tbl ([[0; 1; 2]], [Some ([65; 67; 71], [0; 1; 2; 3]); Some ([], [0; 0])])) = Err PY_VALUE_ERROR /\
  snd (set_columns d_sites site_tbl ([[0]], [Some ([65], [0; 1]); Some ([], [0; 0; 0])])) = Err PY_VALUE_ERROR /\
  fst (set_columns d_sites site_tbl ([[0]], [Some ([65], [0; 1]); Some ([], [0; 0; 0])])) = site_tbl.
Proof. repeat split; vm_compute; reflexivity. Qed.
