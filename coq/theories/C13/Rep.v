(* C13 — representation predicates: what it means for a column / a table to hold a given
   list of cells / rows, and the bridges to the executable invariant [WFb] and to [abs]. *)
From Coq Require Import List ZArith Bool Lia.
From TskVerif Require Import Base.Common C13.Model C13.Lemmas.
Import ListNotations.
Open Scope Z_scope.

(* offsets of a list of cells: running sums starting at a *)
Fixpoint psums (a : Z) (cells : list (list Z)) : list Z :=
  match cells with [] => [a] | c :: cs => a :: psums (a + zlen c) cs end.

Lemma psums_length a cells : length (psums a cells) = S (length cells).
Proof. revert a; induction cells; simpl; intros; [reflexivity | rewrite IHcells; reflexivity]. Qed.

Lemma psums_head a cells : exists t, psums a cells = a :: t.
Proof. destruct cells; simpl; eauto. Qed.

Lemma concat_snoc {A} (l : list (list A)) x : concat (l ++ [x]) = concat l ++ x.
Proof. rewrite concat_app. simpl. rewrite app_nil_r. reflexivity. Qed.

Lemma psums_snoc cells : forall a c,
  psums a (cells ++ [c]) = psums a cells ++ [a + zlen (concat cells) + zlen c].
Proof.
  induction cells as [|x cells IH]; simpl; intros a c.
  - repeat f_equal. change (zlen (@nil Z)) with 0. lia.
  - rewrite IH. rewrite zlen_app. do 3 f_equal. lia.
Qed.

Lemma psums_app cells1 : forall a cells2,
  psums a (cells1 ++ cells2) = removelast (psums a cells1) ++ psums (a + zlen (concat cells1)) cells2.
Proof.
  induction cells1 as [|x cells1 IH]; simpl; intros a cells2.
  - rewrite zlen_nil, Z.add_0_r. reflexivity.
  - rewrite IH. destruct (psums_head (a + zlen x) cells1) as [t ->].
    rewrite zlen_app, Z.add_assoc. reflexivity.
Qed.

Lemma psums_nth cells : forall a m d, (m <= length cells)%nat ->
  nth m (psums a cells) d = a + zlen (concat (firstn m cells)).
Proof.
  induction cells as [|x cells IH]; intros a m d H; simpl in H.
  - replace m with 0%nat by lia. simpl. rewrite zlen_nil. lia.
  - destruct m; simpl.
    + rewrite zlen_nil. lia.
    + rewrite IH by lia. rewrite zlen_app. lia.
Qed.

Lemma psums_firstn cells : forall a m, (m <= length cells)%nat ->
  firstn (S m) (psums a cells) = psums a (firstn m cells).
Proof.
  induction cells as [|x cells IH]; intros a m H; simpl in H.
  - replace m with 0%nat by lia. reflexivity.
  - destruct m; simpl; [reflexivity|]. f_equal. apply IH. lia.
Qed.

Lemma psums_last cells : forall a d, last (psums a cells) d = a + zlen (concat cells).
Proof.
  induction cells as [|x cells IH]; intros a d; simpl.
  - rewrite zlen_nil. lia.
  - destruct (psums_head (a + zlen x) cells) as [t E]. rewrite E. rewrite <- E.
    rewrite IH, zlen_app. lia.
Qed.

Lemma monotoneb_psums cells : forall a, monotoneb (psums a cells) = true.
Proof.
  induction cells as [|x cells IH]; intros a; simpl; [reflexivity|].
  destruct (psums_head (a + zlen x) cells) as [t E]. rewrite E. rewrite <- E.
  rewrite IH, andb_true_r. apply Z.leb_le. pose proof (zlen_nonneg x). lia.
Qed.

(* slicing the concatenation at the running sums gives the cells back *)
Lemma unpack_psums cells : forall a data, 0 <= a ->
  firstn (length (concat cells)) (skipn (Z.to_nat a) data) = concat cells ->
  unpack data (psums a cells) = cells.
Proof.
  induction cells as [|c cells IH]; intros a data Ha H; simpl; [reflexivity|].
  destruct (psums_head (a + zlen c) cells) as [t E]. rewrite E. rewrite <- E.
  simpl in H. rewrite app_length in H.
  assert (Hc : firstn (length c) (skipn (Z.to_nat a) data) = c).
  { apply (f_equal (firstn (length c))) in H. rewrite firstn_firstn in H.
    rewrite firstn_app_exact in H by reflexivity.
    replace (Init.Nat.min (length c) (length c + length (concat cells))) with (length c) in H by lia.
    exact H. }
  f_equal.
  - unfold slice. replace (Z.to_nat (a + zlen c - a)) with (length c) by (unfold zlen; lia). exact Hc.
  - apply IH; [pose proof (zlen_nonneg c); lia|].
    apply (f_equal (skipn (length c))) in H.
    rewrite skipn_app_exact in H by reflexivity.
    rewrite skipn_firstn_comm in H.
    replace (length c + length (concat cells) - length c)%nat with (length (concat cells)) in H by lia.
    rewrite skipn_skipn in H.
    replace (Z.to_nat (a + zlen c)) with (Z.to_nat a + length c)%nat by (unfold zlen; lia).
    exact H.
Qed.

(* conversely: monotone offsets inside the data are the running sums of the slices *)
Lemma psums_unpack data : forall offs a rest, offs = a :: rest -> 0 <= a ->
  monotoneb offs = true -> last offs 0 <= zlen data ->
  psums a (unpack data offs) = offs /\
  concat (unpack data offs) = slice data a (last offs 0).
Proof.
  induction offs as [|o offs IH]; intros a rest E Ha M L; [discriminate|].
  inversion E; subst o rest; clear E.
  destruct offs as [|b offs'].
  - simpl. split; [reflexivity|]. unfold slice. rewrite Z.sub_diag. reflexivity.
  - simpl in M. apply andb_true_iff in M as [M1 M2]. apply Z.leb_le in M1.
    change (last (a :: b :: offs') 0) with (last (b :: offs') 0) in *.
    specialize (IH b offs' eq_refl ltac:(lia) M2 L) as [I1 I2].
    assert (Lb : b <= last (b :: offs') 0).
    { clear -M2. revert b M2. induction offs' as [|x t IHt]; intros b M2; [simpl; lia|].
      simpl in M2. apply andb_true_iff in M2 as [A B]. apply Z.leb_le in A.
      change (last (b :: x :: t) 0) with (last (x :: t) 0). specialize (IHt x B). lia. }
    change (unpack data (a :: b :: offs')) with (slice data a b :: unpack data (b :: offs')).
    assert (Zs : zlen (slice data a b) = b - a).
    { unfold slice. rewrite zlen_firstn, zlen_skipn. lia. }
    split.
    + change (psums a (slice data a b :: unpack data (b :: offs'))) with (a :: psums (a + zlen (slice data a b)) (unpack data (b :: offs'))).
      rewrite Zs. replace (a + (b - a)) with b by lia. rewrite I1. reflexivity.
    + change (concat (slice data a b :: unpack data (b :: offs'))) with (slice data a b ++ concat (unpack data (b :: offs'))).
      rewrite I2. unfold slice.
      set (e := last (b :: offs') 0) in *.
      replace (Z.to_nat (e - a)) with (Z.to_nat (b - a) + Z.to_nat (e - b))%nat by lia.
      rewrite <- (firstn_skipn (Z.to_nat (b - a)) (firstn (Z.to_nat (b - a) + Z.to_nat (e - b)) (skipn (Z.to_nat a) data))).
      f_equal.
      * rewrite firstn_firstn. f_equal. lia.
      * rewrite skipn_firstn_comm. rewrite skipn_skipn. f_equal; [lia|]. f_equal. lia.
Qed.

(* ---------------------------------------------------------------------------------- *)
(* columns                                                                             *)

Record FRep (n maxr : Z) (buf cells : list Z) : Prop := mkFRep {
  fr_cells : firstn (Z.to_nat n) buf = cells;
  fr_len : zlen cells = n;
  fr_cap : zlen buf <= maxr }.

Record RRep (n maxr : Z) (c : rag) (cells : list (list Z)) : Prop := mkRRep {
  rr_n : zlen cells = n;
  rr_off : firstn (S (Z.to_nat n)) (roff c) = psums 0 cells;
  rr_len : rlen c = zlen (concat cells);
  rr_data : firstn (Z.to_nat (rlen c)) (rdata c) = concat cells;
  rr_capd : zlen (rdata c) <= rmax c;
  rr_capo : zlen (roff c) <= maxr + 1;
  rr_incr : 0 <= rincr c }.

Lemma FRep_bounds n maxr buf cells : FRep n maxr buf cells -> 0 <= n <= zlen buf.
Proof.
  intros [H1 H2 H3]. pose proof (zlen_nonneg cells). split; [lia|].
  subst cells. rewrite zlen_firstn in H2. lia.
Qed.

Lemma FRep_mono n maxr maxr' buf cells : FRep n maxr buf cells -> maxr <= maxr' -> FRep n maxr' buf cells.
Proof. intros [H1 H2 H3] L. constructor; auto. lia. Qed.

Lemma RRep_mono n maxr maxr' c cells : RRep n maxr c cells -> maxr <= maxr' -> RRep n maxr' c cells.
Proof. intros [] L. constructor; auto. lia. Qed.

Lemma RRep_off_len n maxr c cells : RRep n maxr c cells -> n + 1 <= zlen (roff c) /\ 0 <= n.
Proof.
  intros R. pose proof (rr_off _ _ _ _ R) as H. pose proof (rr_n _ _ _ _ R) as N.
  pose proof (zlen_nonneg cells).
  apply (f_equal (@length Z)) in H. rewrite psums_length, firstn_length in H.
  unfold zlen in *. lia.
Qed.

Lemma RRep_data_len n maxr c cells : RRep n maxr c cells -> 0 <= rlen c <= zlen (rdata c).
Proof.
  intros R. pose proof (rr_data _ _ _ _ R) as H. pose proof (rr_len _ _ _ _ R) as L.
  apply (f_equal (@length Z)) in H. rewrite firstn_length in H. unfold zlen in *. lia.
Qed.

Lemma RRep_off_nth n maxr c cells m : RRep n maxr c cells -> 0 <= m <= n ->
  get (roff c) m = Ok (zlen (concat (firstn (Z.to_nat m) cells))).
Proof.
  intros R Hm. pose proof (RRep_off_len _ _ _ _ R) as [L _].
  rewrite (get_in_range _ _ 0) by lia. f_equal.
  rewrite <- (nth_firstn_lt _ _ (S (Z.to_nat n))) by lia.
  rewrite (rr_off _ _ _ _ R). rewrite psums_nth; [lia|].
  pose proof (rr_n _ _ _ _ R). unfold zlen in *. lia.
Qed.

Lemma RRep_cells n maxr c cells : RRep n maxr c cells -> rag_cells (Z.to_nat n) c = cells.
Proof.
  intros R. unfold rag_cells. rewrite (rr_off _ _ _ _ R).
  apply unpack_psums; [lia|]. change (Z.to_nat 0) with 0%nat. rewrite skipn_O.
  rewrite <- (rr_data _ _ _ _ R) at 2. f_equal.
  rewrite (rr_len _ _ _ _ R). unfold zlen. lia.
Qed.

(* ---------------------------------------------------------------------------------- *)
(* pointwise characterisation of the monadic maps                                      *)

Lemma mapM_Ok {A B} (f : A -> res B) l : forall l',
  mapM f l = Ok l' ->
  length l' = length l /\
  forall j a, nth_error l j = Some a -> exists b, nth_error l' j = Some b /\ f a = Ok b.
Proof.
  induction l as [|x l IH]; simpl; intros l' H.
  - inversion H; subst. split; [reflexivity|]. intros [|j] a E; discriminate.
  - bind_inv H. bind_inv E0. inversion E2; subst; clear E2.
    destruct (IH _ E1) as [L P]. split; [simpl; lia|].
    intros [|j] a Ha; simpl in *.
    + inversion Ha; subst. eauto.
    + apply P; assumption.
Qed.

Lemma map2M_Ok {A B C} (f : A -> B -> res C) l : forall m l',
  map2M f l m = Ok l' ->
  length l' = length l /\ length m = length l /\
  forall j a, nth_error l j = Some a ->
    exists b c, nth_error m j = Some b /\ nth_error l' j = Some c /\ f a b = Ok c.
Proof.
  induction l as [|x l IH]; intros [|y m] l' H; simpl in H; try discriminate.
  - inversion H; subst. repeat split; auto. intros [|j] a E; discriminate.
  - bind_inv H. bind_inv E0. inversion E2; subst; clear E2.
    destruct (IH _ _ E1) as (L1 & L2 & P). repeat split; simpl; try lia.
    intros [|j] a Ha; simpl in *.
    + inversion Ha; subst. eauto.
    + apply P; assumption.
Qed.

Lemma mapi_aux_Ok {A B} (f : nat -> A -> res B) l : forall i l',
  mapi_aux f i l = Ok l' ->
  length l' = length l /\
  forall j a, nth_error l j = Some a -> exists b, nth_error l' j = Some b /\ f (i + j)%nat a = Ok b.
Proof.
  induction l as [|x l IH]; simpl; intros i l' H.
  - inversion H; subst. split; [reflexivity|]. intros [|j] a E; discriminate.
  - bind_inv H. bind_inv E0. inversion E2; subst; clear E2.
    destruct (IH _ _ E1) as [L P]. split; [simpl; lia|].
    intros [|j] a Ha; simpl in *.
    + inversion Ha; subst. rewrite Nat.add_0_r. eauto.
    + destruct (P _ _ Ha) as (b & Hb & Hf). exists b. split; auto.
      replace (i + S j)%nat with (S i + j)%nat by lia. exact Hf.
Qed.

Lemma mapiM_Ok {A B} (f : nat -> A -> res B) l l' :
  mapiM f l = Ok l' ->
  length l' = length l /\
  forall j a, nth_error l j = Some a -> exists b, nth_error l' j = Some b /\ f j a = Ok b.
Proof. intros H. apply mapi_aux_Ok in H. exact H. Qed.

Lemma nth_error_same_length {A B} (l : list A) (l' : list B) j b :
  length l' = length l -> nth_error l' j = Some b -> exists a, nth_error l j = Some a.
Proof.
  intros L H. assert (j < length l')%nat by (apply nth_error_Some; congruence).
  destruct (nth_error l j) eqn:E; eauto. apply nth_error_None in E. lia.
Qed.

(* ---------------------------------------------------------------------------------- *)
(* tables                                                                              *)

Definition fcol_of (rows : list row) (j : nat) : list Z := map (fun r => nth j (fst r) 0) rows.
Definition rcol_of (rows : list row) (j : nat) : list (list Z) := map (fun r => nth j (snd r) []) rows.

Record TRep (d : tdesc) (t : tbl) (rows : list row) : Prop := mkTRep {
  tr_n : zlen rows = nrows t;
  tr_max : nrows t <= maxrows t;
  tr_incr : 0 <= rowincr t;
  tr_nf : length (fcols t) = length (td_kinds d);
  tr_nr : length (rcols t) = td_nr d;
  tr_shape : Forall (fun r => row_ok d r = true) rows;
  tr_f : forall j buf, nth_error (fcols t) j = Some buf ->
         FRep (nrows t) (maxrows t) buf (fcol_of rows j);
  tr_r : forall j c, nth_error (rcols t) j = Some c ->
         RRep (nrows t) (maxrows t) c (rcol_of rows j) }.

Lemma row_ok_lengths d r : row_ok d r = true ->
  length (fst r) = length (td_kinds d) /\ length (snd r) = td_nr d.
Proof.
  unfold row_ok. intros H. apply andb_true_iff in H as [A B].
  apply Nat.eqb_eq in A. apply Nat.eqb_eq in B. auto.
Qed.

(* generic extensionality helpers *)
Lemma map_seq_eq {A} (f : nat -> A) (l : list A) d :
  (forall i, (i < length l)%nat -> f i = nth i l d) -> map f (seq 0 (length l)) = l.
Proof.
  intros H. apply (nth_ext _ _ d d).
  - rewrite map_length, seq_length. reflexivity.
  - intros i Hi. rewrite map_length, seq_length in Hi.
    rewrite (nth_indep _ d (f 0%nat)) by (rewrite map_length, seq_length; lia).
    rewrite map_nth. rewrite seq_nth by lia. simpl. apply H. lia.
Qed.

Lemma map_eq_pointwise {A B} (g : A -> B) (l : list A) (l' : list B) d :
  length l' = length l ->
  (forall j a, nth_error l j = Some a -> g a = nth j l' d) -> map g l = l'.
Proof.
  revert l'. induction l as [|x l IH]; intros [|y l'] L H; simpl in *; try lia; [reflexivity|].
  f_equal.
  - apply (H 0%nat x). reflexivity.
  - apply IH; [lia|]. intros j a Ha. apply (H (S j) a). exact Ha.
Qed.

Lemma map_nth_seq {A} (l : list A) d n : (n <= length l)%nat ->
  map (fun i => nth i l d) (seq 0 n) = firstn n l.
Proof.
  intros H. rewrite <- (firstn_length_le l H) at 1.
  apply (map_seq_eq _ _ d). intros i Hi. rewrite firstn_length in Hi.
  symmetry. apply nth_firstn_lt. lia.
Qed.

(* bridge: a represented table abstracts to exactly those rows *)
Definition row0 : row := ([], []).

Lemma nth_map_lt {A B} (f : A -> B) (l : list A) i d d' : (i < length l)%nat ->
  nth i (map f l) d' = f (nth i l d).
Proof.
  intros H. rewrite (nth_indep _ d' (f d)) by (rewrite map_length; assumption). apply map_nth.
Qed.

Lemma TRep_abs d t rows : TRep d t rows -> abs t = rows.
Proof.
  intros R. unfold abs.
  pose proof (tr_n _ _ _ R) as N.
  replace (Z.to_nat (nrows t)) with (length rows) by (unfold zlen in N; lia).
  apply (map_seq_eq _ _ row0). intros i Hi.
  pose proof (tr_shape _ _ _ R) as S. rewrite Forall_forall in S.
  assert (Ok_i : row_ok d (nth i rows row0) = true) by (apply S, nth_In; assumption).
  apply row_ok_lengths in Ok_i as [Lf Lr].
  remember (nth i rows row0) as ri eqn:Er. destruct ri as [fx rg]. simpl in Lf, Lr. f_equal.
  - apply (map_eq_pointwise _ _ _ 0); [rewrite (tr_nf _ _ _ R); assumption|].
    intros j buf Hj. pose proof (tr_f _ _ _ R _ _ Hj) as F.
    rewrite <- (nth_firstn_lt _ _ (Z.to_nat (nrows t))) by (unfold zlen in N; lia).
    rewrite (fr_cells _ _ _ _ F). unfold fcol_of.
    rewrite (nth_map_lt _ _ _ row0) by assumption. rewrite <- Er. reflexivity.
  - apply (map_eq_pointwise _ _ _ []); [rewrite (tr_nr _ _ _ R); assumption|].
    intros j c Hj. pose proof (tr_r _ _ _ R _ _ Hj) as F.
    replace (length rows) with (Z.to_nat (nrows t)) by (unfold zlen in N; lia).
    rewrite (RRep_cells _ _ _ _ F). unfold rcol_of.
    rewrite (nth_map_lt _ _ _ row0) by assumption. rewrite <- Er. reflexivity.
Qed.

