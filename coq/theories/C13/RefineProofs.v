(* C13 — the refinement theorems in their final form: invariant [WF] (executable, Model.v)
   and abstraction [abs : tbl -> list row]. *)
From Coq Require Import List ZArith Bool Lia.
From TskVerif Require Import Base.Common C13.Model C13.Lemmas C13.Rep C13.Bridge C13.OpsProofs
  C13.ColsProofs C13.UpdateProofs C13.KeepProofs.
Import ListNotations.
Open Scope Z_scope.

(* a small non-trivial individuals table used by the Examples: three rows, ragged cells of
   different lengths (including empty ones), built through the modelled API *)
Definition ex_rows : list row :=
  [ ([1], [[10; 11]; []; [7]]);
    ([2], [[]; [0]; []]);
    ([3], [[12]; [0; 1]; [8; 9]]) ].
Definition ex_tbl : tbl :=
  fold_left (fun t r => match add_row d_individuals t r with Ok t' => t' | _ => t end)
            ex_rows (init d_individuals 1).

Example ex_tbl_wf : WF d_individuals ex_tbl /\ abs ex_tbl = ex_rows.
Proof. split; vm_compute; reflexivity. Qed.

(* ---------- (b) add_row ---------- *)
Theorem add_row_refines d t r t' :
  WF d t -> row_ok d r = true -> add_row d t r = Ok t' ->
  WF d t' /\ abs t' = abs t ++ [r].
Proof.
  intros W Hr H. pose proof (add_row_rep _ _ _ _ _ (WF_TRep _ _ W) Hr H) as R.
  split; [eapply TRep_WF; eassumption | apply (TRep_abs _ _ _ R)].
Qed.

Example add_row_ex :
  (do t' <- add_row d_individuals ex_tbl ([5], [[]; [2; 0]; [1; 2; 3]]); Ok (WFb d_individuals t', abs t'))
  = Ok (true, ex_rows ++ [([5], [[]; [2; 0]; [1; 2; 3]])]).
Proof. vm_compute. reflexivity. Qed.

(* ---------- (c) truncate, clear ---------- *)
Theorem truncate_refines d t m t' :
  WF d t -> truncate t m = Ok t' -> WF d t' /\ abs t' = firstn (Z.to_nat m) (abs t).
Proof.
  intros W H. pose proof (truncate_rep _ _ _ _ _ (WF_TRep _ _ W) H) as R.
  split; [eapply TRep_WF; eassumption | apply (TRep_abs _ _ _ R)].
Qed.

Theorem truncate_out_of_range t m :
  m < 0 \/ nrows t < m -> truncate t m = Err TSK_ERR_BAD_TABLE_POSITION.
Proof.
  intros H. unfold truncate.
  replace ((m <? 0) || (m >? nrows t)) with true; [reflexivity|].
  symmetry. apply orb_true_iff. destruct H; [left; apply Z.ltb_lt | right; apply Z.gtb_lt]; lia.
Qed.

Theorem clear_refines d t t' : WF d t -> clear t = Ok t' -> WF d t' /\ abs t' = [].
Proof. intros W H. apply (truncate_refines _ _ _ _ W H). Qed.

Example truncate_ex :
  (do t' <- truncate ex_tbl 2; Ok (WFb d_individuals t', abs t')) = Ok (true, firstn 2 ex_rows).
Proof. vm_compute. reflexivity. Qed.

(* ---------- get_row ---------- *)
Theorem get_row_refines d t i :
  WF d t -> 0 <= i < nrows t -> get_row d t i = Ok (nth (Z.to_nat i) (abs t) row0).
Proof. intros W H. apply get_row_rep; [apply WF_TRep; assumption | assumption]. Qed.

Theorem get_row_out_of_range d t i : i < 0 \/ nrows t <= i -> get_row d t i = Err (td_oob d).
Proof.
  intros H. unfold get_row. replace ((i <? 0) || (i >=? nrows t)) with true; [reflexivity|].
  symmetry. apply orb_true_iff. destruct H; [left; apply Z.ltb_lt | right; rewrite Z.geb_leb; apply Z.leb_le]; lia.
Qed.

(* ---------- (f) extend ---------- *)
Definition rows_at (rows : list row) (idx : list Z) : list row :=
  map (fun i => nth (Z.to_nat i) rows row0) idx.

(* whatever the status, the table holds its old rows followed by the rows named by a
   prefix of idx, all of that prefix in range; on success the prefix is all of idx *)
Theorem extend_refines d t u idx t' st :
  WF d t -> WF d u -> extend d t u idx = (t', st) ->
  WF d t' /\
  exists k, (k <= length idx)%nat /\
    abs t' = abs t ++ rows_at (abs u) (firstn k idx) /\
    Forall (fun i => 0 <= i < nrows u) (firstn k idx) /\
    (st = Ok tt -> k = length idx).
Proof.
  intros W Wu H.
  destruct (extend_rep _ _ _ _ _ _ _ _ (WF_TRep _ _ W) (WF_TRep _ _ Wu) H) as (k & Lk & R & F & S).
  split; [eapply TRep_WF; eassumption|].
  exists k. split; [assumption|]. split; [apply (TRep_abs _ _ _ R)|]. split; assumption.
Qed.

Corollary extend_ok d t u idx t' :
  WF d t -> WF d u -> extend d t u idx = (t', Ok tt) ->
  WF d t' /\ abs t' = abs t ++ rows_at (abs u) idx /\ Forall (fun i => 0 <= i < nrows u) idx.
Proof.
  intros W Wu H. destruct (extend_refines _ _ _ _ _ _ W Wu H) as (W' & k & Lk & A & F & S).
  specialize (S eq_refl). subst k. rewrite firstn_all in *. auto.
Qed.

(* an index outside the source table always makes extend report an error *)
Corollary extend_bad_index d t u idx t' st :
  WF d t -> WF d u -> extend d t u idx = (t', st) ->
  Exists (fun i => i < 0 \/ nrows u <= i) idx -> st <> Ok tt.
Proof.
  intros W Wu H Ex E. subst st. destruct (extend_ok _ _ _ _ _ W Wu H) as (_ & _ & F).
  rewrite Exists_exists in Ex. destruct Ex as (i & Hi & Bad). rewrite Forall_forall in F.
  specialize (F i Hi). lia.
Qed.

Example extend_ex :
  (let '(t', st) := extend d_individuals ex_tbl ex_tbl [2; 0; 0] in (st, WFb d_individuals t', abs t'))
  = (Ok tt, true, ex_rows ++ rows_at ex_rows [2; 0; 0]).
Proof. vm_compute. reflexivity. Qed.

Example extend_bad_ex :
  (let '(t', st) := extend d_individuals ex_tbl ex_tbl [1; 3; 0] in (st, WFb d_individuals t', abs t'))
  = (Err (-207), true, ex_rows ++ rows_at ex_rows [1]).
Proof. vm_compute. reflexivity. Qed.

(* ---------- (d) update_row ---------- *)
Theorem update_row_refines d t i r t' :
  WF d t -> order_ok d -> row_ok d r = true -> update_row d t i r = (t', Ok tt) ->
  0 <= i < nrows t /\ WF d t' /\ abs t' = replace_nth (Z.to_nat i) r (abs t).
Proof.
  intros W O Hr H. destruct (update_row_rep _ _ _ _ _ _ (WF_TRep _ _ W) O Hr H) as [Hi R].
  split; [exact Hi|]. split; [eapply TRep_WF; eassumption | apply (TRep_abs _ _ _ R)].
Qed.

(* both code paths are exercised: same ragged lengths (in place) / different (rewrite) *)
Example update_row_in_place_ex :
  (let '(t', st) := update_row d_individuals ex_tbl 1 ([9], [[]; [2]; []]) in (st, WFb d_individuals t', abs t'))
  = (Ok tt, true, replace_nth 1 ([9], [[]; [2]; []]) ex_rows).
Proof. vm_compute. reflexivity. Qed.

Example update_row_rewrite_ex :
  (let '(t', st) := update_row d_individuals ex_tbl 0 ([9], [[1; 2; 3]; []; [4]]) in (st, WFb d_individuals t', abs t'))
  = (Ok tt, true, replace_nth 0 ([9], [[1; 2; 3]; []; [4]]) ex_rows).
Proof. vm_compute. reflexivity. Qed.

(* ---------- (g) set_columns / append_columns ---------- *)
(* a successful call means: the dimension checks of the binding passed (parse_cols), every
   supplied offset array passed check_offsets, and the table now stands for the old rows
   followed by (append) / exactly (set) the rows the columns encode *)
Theorem append_columns_refines d t cs t' :
  WF d t -> order_ok d -> append_columns d t cs = (t', Ok tt) ->
  exists m, parse_cols d cs = Ok m /\ WF d t' /\ abs t' = abs t ++ rows_of_cols (Z.to_nat m) cs.
Proof.
  intros W O H. destruct (append_columns_rep _ _ _ _ _ (WF_TRep _ _ W) O H) as (m & P & R).
  exists m. split; [exact P|]. split; [eapply TRep_WF; eassumption | apply (TRep_abs _ _ _ R)].
Qed.

Theorem set_columns_refines d t cs t' :
  WF d t -> order_ok d -> set_columns d t cs = (t', Ok tt) ->
  exists m, parse_cols d cs = Ok m /\ WF d t' /\ abs t' = rows_of_cols (Z.to_nat m) cs.
Proof.
  intros W O H. destruct (set_columns_rep _ _ _ _ _ (WF_TRep _ _ W) O H) as (m & P & R).
  exists m. split; [exact P|]. split; [eapply TRep_WF; eassumption | apply (TRep_abs _ _ _ R)].
Qed.

Definition ex_cols : cols :=
  ([[4; 5]], [Some ([1; 2; 3], [0; 1; 3]); None; Some ([7], [0; 0; 1])]).

Example set_columns_ex :
  (let '(t', st) := set_columns d_individuals ex_tbl ex_cols in (st, WFb d_individuals t', abs t'))
  = (Ok tt, true, [([4], [[1]; []; []]); ([5], [[2; 3]; []; [7]])]).
Proof. vm_compute. reflexivity. Qed.

Example append_columns_ex :
  (let '(t', st) := append_columns d_individuals ex_tbl ex_cols in (st, WFb d_individuals t', abs t'))
  = (Ok tt, true, ex_rows ++ [([4], [[1]; []; []]); ([5], [[2; 3]; []; [7]])]).
Proof. vm_compute. reflexivity. Qed.

(* decreasing offsets and offsets not starting at 0 are refused *)
Example set_columns_bad_offsets_ex :
  snd (set_columns d_individuals ex_tbl ([[4; 5]], [Some ([1; 2; 3], [0; 3; 3]); None; Some ([7], [0; 2; 1])]))
  = Err TSK_ERR_BAD_OFFSET /\
  snd (set_columns d_individuals ex_tbl ([[4; 5]], [Some ([1; 2; 3], [1; 2; 3]); None; None]))
  = Err TSK_ERR_BAD_OFFSET.
Proof. split; vm_compute; reflexivity. Qed.

Theorem table_copy_refines d t cp :
  WF d t -> order_ok d -> table_copy d t = (cp, Ok tt) -> WF d cp /\ abs cp = abs t.
Proof.
  intros W O H. pose proof (table_copy_rep _ _ _ _ (WF_TRep _ _ W) O H) as R.
  split; [eapply TRep_WF; eassumption | apply (TRep_abs _ _ _ R)].
Qed.

(* ---------- (e) keep_rows ---------- *)
Theorem keep_rows_refines d t keep t' idm :
  WF d t -> zlen keep = nrows t -> keep_rows d t keep = Ok (t', idm) ->
  idm = keep_mask_to_id_map keep /\ WF d t' /\
  abs t' = map (remap_row d idm) (filter_mask keep (abs t)) /\
  kept_refs_ok d (nrows t) idm keep (abs t).
Proof.
  intros W Lk H. pose proof (WF_TRep _ _ W) as R0.
  destruct (keep_rows_rep _ _ _ _ _ _ R0 Lk H) as [E R].
  split; [exact E|]. split; [eapply TRep_WF; eassumption|]. split; [apply (TRep_abs _ _ _ R)|].
  apply (keep_rows_refs_ok _ _ _ _ _ _ R0 Lk H).
Qed.

(* a kept row that references a dropped (or non-existent) row makes the call fail; the
   model returns no new state in that case: the table is unchanged *)
Theorem keep_rows_dangling d t keep :
  WF d t -> zlen keep = nrows t ->
  ~ kept_refs_ok d (nrows t) (keep_mask_to_id_map keep) keep (abs t) ->
  exists c, keep_rows d t keep = Err c.
Proof. intros W Lk B. apply (keep_rows_dangling_rejected _ _ _ _ (WF_TRep _ _ W) Lk B). Qed.

Definition ex_mut_rows : list row :=
  [ ([0; 0; 5; -1], [[65]; []]); ([0; 1; 5; 0], [[67; 67]; [1]]);
    ([1; 2; 5; -1], [[]; [2; 3]]); ([1; 3; 5; 2], [[71]; []]); ([1; 3; 5; 0], [[84]; [9]]) ].
Definition ex_mut : tbl :=
  fold_left (fun t r => match add_row d_mutations t r with Ok t' => t' | _ => t end) ex_mut_rows (init d_mutations 0).

(* rows 0, 2, 3, 4 kept: parents 2 -> 1 and 0 -> 0 are renumbered, ragged cells compacted in place *)
Example keep_rows_ex :
  (do p <- keep_rows d_mutations ex_mut [true; false; true; true; true];
   Ok (snd p, WFb d_mutations (fst p), abs (fst p)))
  = Ok ([0; -1; 1; 2; 3], true,
        [ ([0; 0; 5; -1], [[65]; []]); ([1; 2; 5; -1], [[]; [2; 3]]);
          ([1; 3; 5; 1], [[71]; []]); ([1; 3; 5; 0], [[84]; [9]]) ]).
Proof. vm_compute. reflexivity. Qed.

(* dropping row 0, which rows 1 and 4 reference, is refused *)
Example keep_rows_dangling_ex :
  keep_rows d_mutations ex_mut [false; true; true; true; true] = Err TSK_ERR_KEEP_ROWS_MAP_TO_DELETED.
Proof. vm_compute. reflexivity. Qed.

(* the theorems make no assumption on the order of references: an UNSORTED table in which
   row 0 refers forward to row 2 (and row 2 back to row 1) *)
Definition ex_mut_unsorted : tbl :=
  fold_left (fun t r => match add_row d_mutations t r with Ok t' => t' | _ => t end)
    [ ([0; 0; 5; 2], [[65]; []]); ([0; 1; 5; -1], [[67]; [1]]); ([1; 2; 5; 1], [[]; [2; 3]]); ([1; 3; 5; 0], [[71]; []]) ]
    (init d_mutations 0).

Example keep_rows_forward_reference_ex :
  (* the kept child 0 sits BEFORE the first dropped row, its parent 2 is dropped: refused *)
  keep_rows d_mutations ex_mut_unsorted [true; true; false; true] = Err TSK_ERR_KEEP_ROWS_MAP_TO_DELETED /\
  (* dropping row 3 only: forward and backward references are renumbered *)
  (do p <- keep_rows d_mutations ex_mut_unsorted [true; true; true; false]; Ok (snd p, WFb d_mutations (fst p), abs (fst p)))
  = Ok ([0; 1; 2; -1], true,
        [ ([0; 0; 5; 2], [[65]; []]); ([0; 1; 5; -1], [[67]; [1]]); ([1; 2; 5; 1], [[]; [2; 3]]) ]) /\
  (* dropping row 1, to which row 2 refers back: refused; dropping rows 0 and 3: 2 -> 1, 1 -> 0 *)
  keep_rows d_mutations ex_mut_unsorted [true; false; true; true] = Err TSK_ERR_KEEP_ROWS_MAP_TO_DELETED /\
  (do p <- keep_rows d_mutations ex_mut_unsorted [false; true; true; false]; Ok (abs (fst p)))
  = Ok [ ([0; 1; 5; -1], [[67]; [1]]); ([1; 2; 5; 0], [[]; [2; 3]]) ].
Proof. repeat split; vm_compute; reflexivity. Qed.

Example keep_rows_individuals_ex :
  (do p <- keep_rows d_individuals ex_tbl [true; false; true]; Ok (snd p, WFb d_individuals (fst p), abs (fst p)))
  = Err TSK_ERR_KEEP_ROWS_MAP_TO_DELETED /\
  (do p <- keep_rows d_individuals ex_tbl [true; true; false]; Ok (snd p, WFb d_individuals (fst p), abs (fst p)))
  = Ok ([0; 1; -1], true, firstn 2 ex_rows).
Proof. split; vm_compute; reflexivity. Qed.

(* ---------- every finite sequence of operations ---------- *)
Inductive cop :=
| CAdd (r : row) | CTruncate (n : Z) | CClear | CUpdate (i : Z) (r : row)
| CExtend (u : tbl) (idx : list Z) | CSet (cs : cols) | CAppend (cs : cols) | CKeep (keep : list bool).

(* the columnar implementation *)
Definition cstep (d : tdesc) (t : tbl) (o : cop) : tbl * res unit :=
  match o with
  | CAdd r => if row_ok d r then lift t (add_row d t r) else (t, Err TSK_ERR_BAD_PARAM_VALUE)
  | CTruncate n => lift t (truncate t n)
  | CClear => lift t (clear t)
  | CUpdate i r => if row_ok d r then update_row d t i r else (t, Err TSK_ERR_BAD_PARAM_VALUE)
  | CExtend u idx => if WFb d u then extend d t u idx else (t, Err TSK_ERR_BAD_PARAM_VALUE)
  | CSet cs => set_columns d t cs
  | CAppend cs => append_columns d t cs
  | CKeep keep =>
      if zlen keep =? nrows t then
        match keep_rows d t keep with
        | Ok (t', _) => (t', Ok tt)
        | e => (t, err_of e)
        end
      else (t, Err PY_VALUE_ERROR)
  end.

(* the same operation on a plain list of rows *)
Definition lstep (d : tdesc) (rows : list row) (o : cop) : list row :=
  match o with
  | CAdd r => rows ++ [r]
  | CTruncate n => firstn (Z.to_nat n) rows
  | CClear => []
  | CUpdate i r => replace_nth (Z.to_nat i) r rows
  | CExtend u idx => rows ++ rows_at (abs u) idx
  | CSet cs => match parse_cols d cs with Ok m => rows_of_cols (Z.to_nat m) cs | _ => rows end
  | CAppend cs => match parse_cols d cs with Ok m => rows ++ rows_of_cols (Z.to_nat m) cs | _ => rows end
  | CKeep keep => map (remap_row d (keep_mask_to_id_map keep)) (filter_mask keep rows)
  end.

(* run a sequence; None as soon as a step reports an error *)
Fixpoint crun (d : tdesc) (t : tbl) (ops : list cop) : option tbl :=
  match ops with
  | [] => Some t
  | o :: rest => match cstep d t o with
                 | (t', Ok _) => crun d t' rest
                 | _ => None
                 end
  end.

Lemma cstep_refines d t o t' :
  WF d t -> order_ok d -> cstep d t o = (t', Ok tt) -> WF d t' /\ abs t' = lstep d (abs t) o.
Proof.
  intros W O H. destruct o as [r|n| |i r|u idx|cs|cs|keep]; simpl in H.
  - destruct (row_ok d r) eqn:Hr; [|inversion H]. unfold lift in H.
    destruct (add_row d t r) as [t1| | |] eqn:A; inversion H; subst t1.
    apply (add_row_refines _ _ _ _ W Hr A).
  - unfold lift in H. destruct (truncate t n) as [t1| | |] eqn:A; inversion H; subst t1.
    apply (truncate_refines _ _ _ _ W A).
  - unfold lift in H. destruct (clear t) as [t1| | |] eqn:A; inversion H; subst t1.
    apply (clear_refines _ _ _ W A).
  - destruct (row_ok d r) eqn:Hr; [|inversion H].
    destruct (update_row_refines _ _ _ _ _ W O Hr H) as (_ & W' & A). auto.
  - destruct (WFb d u) eqn:Wu; [|inversion H].
    destruct (extend_ok _ _ _ _ _ W Wu H) as (W' & A & _). auto.
  - destruct (set_columns_refines _ _ _ _ W O H) as (m & P & W' & A). simpl. rewrite P. auto.
  - destruct (append_columns_refines _ _ _ _ W O H) as (m & P & W' & A). simpl. rewrite P. auto.
  - destruct (zlen keep =? nrows t) eqn:Lk; [|inversion H]. apply Z.eqb_eq in Lk.
    destruct (keep_rows d t keep) as [[t1 idm]| | |] eqn:A; inversion H; subst t1.
    destruct (keep_rows_refines _ _ _ _ _ W Lk A) as (E & W' & A' & _). subst idm. auto.
Qed.

(* the corollary: after any sequence of successful operations the table stands for the
   plain list subjected to the same operations *)
Theorem op_sequence_refines d : order_ok d -> forall ops t t',
  WF d t -> crun d t ops = Some t' ->
  WF d t' /\ abs t' = fold_left (lstep d) ops (abs t).
Proof.
  intros O. induction ops as [|o ops IH]; intros t t' W H; simpl in H.
  - inversion H; subst. auto.
  - destruct (cstep d t o) as [t1 st] eqn:S. destruct st as [[]| | |]; try discriminate.
    destruct (cstep_refines _ _ _ _ W O S) as [W1 A1].
    destruct (IH _ _ W1 H) as [W' A']. split; [exact W'|]. simpl. rewrite <- A1. exact A'.
Qed.

Lemma init_wf d incr : 0 <= incr -> WF d (init d incr) /\ abs (init d incr) = [].
Proof.
  intros H. pose proof (init_rep d incr H) as R. split; [eapply TRep_WF; eassumption | apply (TRep_abs _ _ _ R)].
Qed.

Corollary op_sequence_from_empty d incr ops t' :
  order_ok d -> 0 <= incr -> crun d (init d incr) ops = Some t' ->
  WF d t' /\ abs t' = fold_left (lstep d) ops [].
Proof.
  intros O Hi H. destruct (init_wf d incr Hi) as [W A].
  destruct (op_sequence_refines d O ops _ _ W H) as [W' A']. rewrite A in A'. auto.
Qed.

Definition ex_ops : list cop :=
  [ CAdd ([0; 0; 5; -1], [[65]; []]); CAdd ([0; 1; 5; 0], [[67; 67]; [1]]);
    CAppend ([[1; 1]; [2; 3]; [5; 5]; [-1; 2]], [Some ([71], [0; 0; 1]); Some ([2; 3], [0; 2; 2])]);
    CUpdate 1 ([0; 1; 6; 0], [[67]; [1; 1; 1]]);
    CKeep [true; false; true; true];
    CExtend ex_mut [4; 4];
    CTruncate 4;
    CUpdate 0 ([7; 7; 7; -1], [[66]; []]) ].

Example op_sequence_ex :
  (match crun d_mutations (init d_mutations 1) ex_ops with
   | Some t' => Some (WFb d_mutations t', abs t')
   | None => None end)
  = Some (true, fold_left (lstep d_mutations) ex_ops []) /\
  fold_left (lstep d_mutations) ex_ops []
  = [ ([7; 7; 7; -1], [[66]; []]); ([1; 2; 5; -1], [[]; [2; 3]]);
      ([1; 3; 5; 1], [[71]; []]); ([1; 3; 5; 0], [[84]; [9]]) ].
Proof. split; vm_compute; reflexivity. Qed.

(* ---------- table[slice | mask | ids] (repaired F8: every table class) ---------- *)
Theorem py_getitem_idx_refines d t idx rows :
  WF d t -> py_getitem_idx_gen true d t idx = Ok rows ->
  rows = rows_at (abs t) idx /\ Forall (fun i => 0 <= i < nrows t) idx.
Proof.
  intros W H. unfold py_getitem_idx_gen in H. rewrite andb_false_r in H.
  destruct (extend d (init d 0) t idx) as [t' st] eqn:E.
  destruct st as [[]| | |]; try discriminate. inversion H; subst rows; clear H.
  destruct (init_wf d 0 (Z.le_refl 0)) as [W0 A0].
  destruct (extend_ok _ _ _ _ _ W0 W E) as (_ & A & F). rewrite A, A0. auto.
Qed.

Example provenance_getitem_ex :
  let t := fold_left (fun t r => match add_row d_provenances t r with Ok t' => t' | _ => t end)
                     [([], [[114]; [116]]); ([], [[115]; [117]])] (init d_provenances 0) in
  py_getitem_idx_gen true d_provenances t [1; 0] = Ok [([], [[115]; [117]]); ([], [[114]; [116]])].
Proof. vm_compute. reflexivity. Qed.

