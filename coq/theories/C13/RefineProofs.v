(* C13 — the refinement theorems in their final form: invariant [WF] (executable, Model.v)
   and abstraction [abs : tbl -> list row]. *)
From Coq Require Import List ZArith Bool Lia.
From TskVerif Require Import Base.Common C13.Model C13.Lemmas C13.Rep C13.Bridge C13.OpsProofs.
Import ListNotations.
Open Scope Z_scope.

(* a small non-trivial individuals table used by the Examples: three rows, ragged cells of
   different lengths (including empty ones), built through the modelled API *)
Definition ex_rows : list row :=
  [ ([1], [[10; 11]; []; [7]]);
    ([2], [[]; [0]; []]);
    ([3], [[12]; [0; 1]; [8; 9]]) ].
Definition ex_tbl : tbl :=
  fold_left (fun t r => match add_row d_individuals t r with Ok t' => t' | _ => t end)
            ex_rows (init d_individuals 1).

Example ex_tbl_wf : WF d_individuals ex_tbl /\ abs ex_tbl = ex_rows.
Proof. split; vm_compute; reflexivity. Qed.

(* ---------- (b) add_row ---------- *)
Theorem add_row_refines d t r t' :
  WF d t -> row_ok d r = true -> add_row d t r = Ok t' ->
  WF d t' /\ abs t' = abs t ++ [r].
Proof.
  intros W Hr H. pose proof (add_row_rep _ _ _ _ _ (WF_TRep _ _ W) Hr H) as R.
  split; [eapply TRep_WF; eassumption | apply (TRep_abs _ _ _ R)].
Qed.

Example add_row_ex :
  exists t', add_row d_individuals ex_tbl ([5], [[]; [2; 0]; [1; 2; 3]]) = Ok t'
             /\ abs t' = ex_rows ++ [([5], [[]; [2; 0]; [1; 2; 3]])].
Proof. eexists. split; vm_compute; reflexivity. Qed.

(* ---------- (c) truncate, clear ---------- *)
Theorem truncate_refines d t m t' :
  WF d t -> truncate t m = Ok t' -> WF d t' /\ abs t' = firstn (Z.to_nat m) (abs t).
Proof.
  intros W H. pose proof (truncate_rep _ _ _ _ _ (WF_TRep _ _ W) H) as R.
  split; [eapply TRep_WF; eassumption | apply (TRep_abs _ _ _ R)].
Qed.

Theorem truncate_out_of_range t m :
  m < 0 \/ nrows t < m -> truncate t m = Err TSK_ERR_BAD_TABLE_POSITION.
Proof.
  intros H. unfold truncate.
  replace ((m <? 0) || (m >? nrows t)) with true; [reflexivity|].
  symmetry. apply orb_true_iff. destruct H; [left; apply Z.ltb_lt | right; apply Z.gtb_lt]; lia.
Qed.

Theorem clear_refines d t t' : WF d t -> clear t = Ok t' -> WF d t' /\ abs t' = [].
Proof. intros W H. apply (truncate_refines _ _ _ _ W H). Qed.

Example truncate_ex :
  exists t', truncate ex_tbl 2 = Ok t' /\ abs t' = firstn 2 ex_rows /\ WF d_individuals t'.
Proof. eexists. repeat split; vm_compute; reflexivity. Qed.

(* ---------- get_row ---------- *)
Theorem get_row_refines d t i :
  WF d t -> 0 <= i < nrows t -> get_row d t i = Ok (nth (Z.to_nat i) (abs t) row0).
Proof. intros W H. apply get_row_rep; [apply WF_TRep; assumption | assumption]. Qed.

Theorem get_row_out_of_range d t i : i < 0 \/ nrows t <= i -> get_row d t i = Err (td_oob d).
Proof.
  intros H. unfold get_row. replace ((i <? 0) || (i >=? nrows t)) with true; [reflexivity|].
  symmetry. apply orb_true_iff. destruct H; [left; apply Z.ltb_lt | right; rewrite Z.geb_leb; apply Z.leb_le]; lia.
Qed.

(* ---------- (f) extend ---------- *)
Definition rows_at (rows : list row) (idx : list Z) : list row :=
  map (fun i => nth (Z.to_nat i) rows row0) idx.

(* whatever the status, the table holds its old rows followed by the rows named by a
   prefix of idx, all of that prefix in range; on success the prefix is all of idx *)
Theorem extend_refines d t u idx t' st :
  WF d t -> WF d u -> extend d t u idx = (t', st) ->
  WF d t' /\
  exists k, (k <= length idx)%nat /\
    abs t' = abs t ++ rows_at (abs u) (firstn k idx) /\
    Forall (fun i => 0 <= i < nrows u) (firstn k idx) /\
    (st = Ok tt -> k = length idx).
Proof.
  intros W Wu H.
  destruct (extend_rep _ _ _ _ _ _ _ _ (WF_TRep _ _ W) (WF_TRep _ _ Wu) H) as (k & Lk & R & F & S).
  split; [eapply TRep_WF; eassumption|].
  exists k. split; [assumption|]. split; [apply (TRep_abs _ _ _ R)|]. split; assumption.
Qed.

Corollary extend_ok d t u idx t' :
  WF d t -> WF d u -> extend d t u idx = (t', Ok tt) ->
  WF d t' /\ abs t' = abs t ++ rows_at (abs u) idx /\ Forall (fun i => 0 <= i < nrows u) idx.
Proof.
  intros W Wu H. destruct (extend_refines _ _ _ _ _ _ W Wu H) as (W' & k & Lk & A & F & S).
  specialize (S eq_refl). subst k. rewrite firstn_all in *. auto.
Qed.

(* an index outside the source table always makes extend report an error *)
Corollary extend_bad_index d t u idx t' st :
  WF d t -> WF d u -> extend d t u idx = (t', st) ->
  Exists (fun i => i < 0 \/ nrows u <= i) idx -> st <> Ok tt.
Proof.
  intros W Wu H Ex E. subst st. destruct (extend_ok _ _ _ _ _ W Wu H) as (_ & _ & F).
  rewrite Exists_exists in Ex. destruct Ex as (i & Hi & Bad). rewrite Forall_forall in F.
  specialize (F i Hi). lia.
Qed.

Example extend_ex :
  exists t', extend d_individuals ex_tbl ex_tbl [2; 0; 0] = (t', Ok tt)
             /\ abs t' = ex_rows ++ rows_at ex_rows [2; 0; 0].
Proof. eexists. split; vm_compute; reflexivity. Qed.

Example extend_bad_ex :
  exists t' c, extend d_individuals ex_tbl ex_tbl [1; 3; 0] = (t', Err c)
               /\ abs t' = ex_rows ++ rows_at ex_rows [1].
Proof. do 2 eexists. split; vm_compute; reflexivity. Qed.
