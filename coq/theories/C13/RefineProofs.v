(* C13 — the refinement theorems in their final form: invariant [WF] (executable, Model.v)
   and abstraction [abs : tbl -> list row]. *)
From Coq Require Import List ZArith Bool Lia.
From TskVerif Require Import Base.Common C13.Model C13.Lemmas C13.Rep C13.Bridge C13.OpsProofs
  C13.ColsProofs C13.UpdateProofs.
Import ListNotations.
Open Scope Z_scope.

(* a small non-trivial individuals table used by the Examples: three rows, ragged cells of
   different lengths (including empty ones), built through the modelled API *)
Definition ex_rows : list row :=
  [ ([1], [[10; 11]; []; [7]]);
    ([2], [[]; [0]; []]);
    ([3], [[12]; [0; 1]; [8; 9]]) ].
Definition ex_tbl : tbl :=
  fold_left (fun t r => match add_row d_individuals t r with Ok t' => t' | _ => t end)
            ex_rows (init d_individuals 1).

Example ex_tbl_wf : WF d_individuals ex_tbl /\ abs ex_tbl = ex_rows.
Proof. split; vm_compute; reflexivity. Qed.

(* ---------- (b) add_row ---------- *)
Theorem add_row_refines d t r t' :
  WF d t -> row_ok d r = true -> add_row d t r = Ok t' ->
  WF d t' /\ abs t' = abs t ++ [r].
Proof.
  intros W Hr H. pose proof (add_row_rep _ _ _ _ _ (WF_TRep _ _ W) Hr H) as R.
  split; [eapply TRep_WF; eassumption | apply (TRep_abs _ _ _ R)].
Qed.

Example add_row_ex :
  (do t' <- add_row d_individuals ex_tbl ([5], [[]; [2; 0]; [1; 2; 3]]); Ok (WFb d_individuals t', abs t'))
  = Ok (true, ex_rows ++ [([5], [[]; [2; 0]; [1; 2; 3]])]).
Proof. vm_compute. reflexivity. Qed.

(* ---------- (c) truncate, clear ---------- *)
Theorem truncate_refines d t m t' :
  WF d t -> truncate t m = Ok t' -> WF d t' /\ abs t' = firstn (Z.to_nat m) (abs t).
Proof.
  intros W H. pose proof (truncate_rep _ _ _ _ _ (WF_TRep _ _ W) H) as R.
  split; [eapply TRep_WF; eassumption | apply (TRep_abs _ _ _ R)].
Qed.

Theorem truncate_out_of_range t m :
  m < 0 \/ nrows t < m -> truncate t m = Err TSK_ERR_BAD_TABLE_POSITION.
Proof.
  intros H. unfold truncate.
  replace ((m <? 0) || (m >? nrows t)) with true; [reflexivity|].
  symmetry. apply orb_true_iff. destruct H; [left; apply Z.ltb_lt | right; apply Z.gtb_lt]; lia.
Qed.

Theorem clear_refines d t t' : WF d t -> clear t = Ok t' -> WF d t' /\ abs t' = [].
Proof. intros W H. apply (truncate_refines _ _ _ _ W H). Qed.

Example truncate_ex :
  (do t' <- truncate ex_tbl 2; Ok (WFb d_individuals t', abs t')) = Ok (true, firstn 2 ex_rows).
Proof. vm_compute. reflexivity. Qed.

(* ---------- get_row ---------- *)
Theorem get_row_refines d t i :
  WF d t -> 0 <= i < nrows t -> get_row d t i = Ok (nth (Z.to_nat i) (abs t) row0).
Proof. intros W H. apply get_row_rep; [apply WF_TRep; assumption | assumption]. Qed.

Theorem get_row_out_of_range d t i : i < 0 \/ nrows t <= i -> get_row d t i = Err (td_oob d).
Proof.
  intros H. unfold get_row. replace ((i <? 0) || (i >=? nrows t)) with true; [reflexivity|].
  symmetry. apply orb_true_iff. destruct H; [left; apply Z.ltb_lt | right; rewrite Z.geb_leb; apply Z.leb_le]; lia.
Qed.

(* ---------- (f) extend ---------- *)
Definition rows_at (rows : list row) (idx : list Z) : list row :=
  map (fun i => nth (Z.to_nat i) rows row0) idx.

(* whatever the status, the table holds its old rows followed by the rows named by a
   prefix of idx, all of that prefix in range; on success the prefix is all of idx *)
Theorem extend_refines d t u idx t' st :
  WF d t -> WF d u -> extend d t u idx = (t', st) ->
  WF d t' /\
  exists k, (k <= length idx)%nat /\
    abs t' = abs t ++ rows_at (abs u) (firstn k idx) /\
    Forall (fun i => 0 <= i < nrows u) (firstn k idx) /\
    (st = Ok tt -> k = length idx).
Proof.
  intros W Wu H.
  destruct (extend_rep _ _ _ _ _ _ _ _ (WF_TRep _ _ W) (WF_TRep _ _ Wu) H) as (k & Lk & R & F & S).
  split; [eapply TRep_WF; eassumption|].
  exists k. split; [assumption|]. split; [apply (TRep_abs _ _ _ R)|]. split; assumption.
Qed.

Corollary extend_ok d t u idx t' :
  WF d t -> WF d u -> extend d t u idx = (t', Ok tt) ->
  WF d t' /\ abs t' = abs t ++ rows_at (abs u) idx /\ Forall (fun i => 0 <= i < nrows u) idx.
Proof.
  intros W Wu H. destruct (extend_refines _ _ _ _ _ _ W Wu H) as (W' & k & Lk & A & F & S).
  specialize (S eq_refl). subst k. rewrite firstn_all in *. auto.
Qed.

(* an index outside the source table always makes extend report an error *)
Corollary extend_bad_index d t u idx t' st :
  WF d t -> WF d u -> extend d t u idx = (t', st) ->
  Exists (fun i => i < 0 \/ nrows u <= i) idx -> st <> Ok tt.
Proof.
  intros W Wu H Ex E. subst st. destruct (extend_ok _ _ _ _ _ W Wu H) as (_ & _ & F).
  rewrite Exists_exists in Ex. destruct Ex as (i & Hi & Bad). rewrite Forall_forall in F.
  specialize (F i Hi). lia.
Qed.

Example extend_ex :
  (let '(t', st) := extend d_individuals ex_tbl ex_tbl [2; 0; 0] in (st, WFb d_individuals t', abs t'))
  = (Ok tt, true, ex_rows ++ rows_at ex_rows [2; 0; 0]).
Proof. vm_compute. reflexivity. Qed.

Example extend_bad_ex :
  (let '(t', st) := extend d_individuals ex_tbl ex_tbl [1; 3; 0] in (st, WFb d_individuals t', abs t'))
  = (Err (-207), true, ex_rows ++ rows_at ex_rows [1]).
Proof. vm_compute. reflexivity. Qed.

(* ---------- (d) update_row ---------- *)
Theorem update_row_refines d t i r t' :
  WF d t -> order_ok d -> row_ok d r = true -> update_row d t i r = (t', Ok tt) ->
  0 <= i < nrows t /\ WF d t' /\ abs t' = replace_nth (Z.to_nat i) r (abs t).
Proof.
  intros W O Hr H. destruct (update_row_rep _ _ _ _ _ _ (WF_TRep _ _ W) O Hr H) as [Hi R].
  split; [exact Hi|]. split; [eapply TRep_WF; eassumption | apply (TRep_abs _ _ _ R)].
Qed.

(* both code paths are exercised: same ragged lengths (in place) / different (rewrite) *)
Example update_row_in_place_ex :
  (let '(t', st) := update_row d_individuals ex_tbl 1 ([9], [[]; [2]; []]) in (st, WFb d_individuals t', abs t'))
  = (Ok tt, true, replace_nth 1 ([9], [[]; [2]; []]) ex_rows).
Proof. vm_compute. reflexivity. Qed.

Example update_row_rewrite_ex :
  (let '(t', st) := update_row d_individuals ex_tbl 0 ([9], [[1; 2; 3]; []; [4]]) in (st, WFb d_individuals t', abs t'))
  = (Ok tt, true, replace_nth 0 ([9], [[1; 2; 3]; []; [4]]) ex_rows).
Proof. vm_compute. reflexivity. Qed.

(* ---------- (g) set_columns / append_columns ---------- *)
(* a successful call means: the dimension checks of the binding passed (parse_cols), every
   supplied offset array passed check_offsets, and the table now stands for the old rows
   followed by (append) / exactly (set) the rows the columns encode *)
Theorem append_columns_refines d t cs t' :
  WF d t -> order_ok d -> append_columns d t cs = (t', Ok tt) ->
  exists m, parse_cols d cs = Ok m /\ WF d t' /\ abs t' = abs t ++ rows_of_cols (Z.to_nat m) cs.
Proof.
  intros W O H. destruct (append_columns_rep _ _ _ _ _ (WF_TRep _ _ W) O H) as (m & P & R).
  exists m. split; [exact P|]. split; [eapply TRep_WF; eassumption | apply (TRep_abs _ _ _ R)].
Qed.

Theorem set_columns_refines d t cs t' :
  WF d t -> order_ok d -> set_columns d t cs = (t', Ok tt) ->
  exists m, parse_cols d cs = Ok m /\ WF d t' /\ abs t' = rows_of_cols (Z.to_nat m) cs.
Proof.
  intros W O H. destruct (set_columns_rep _ _ _ _ _ (WF_TRep _ _ W) O H) as (m & P & R).
  exists m. split; [exact P|]. split; [eapply TRep_WF; eassumption | apply (TRep_abs _ _ _ R)].
Qed.

Definition ex_cols : cols :=
  ([[4; 5]], [Some ([1; 2; 3], [0; 1; 3]); None; Some ([7], [0; 0; 1])]).

Example set_columns_ex :
  (let '(t', st) := set_columns d_individuals ex_tbl ex_cols in (st, WFb d_individuals t', abs t'))
  = (Ok tt, true, [([4], [[1]; []; []]); ([5], [[2; 3]; []; [7]])]).
Proof. vm_compute. reflexivity. Qed.

Example append_columns_ex :
  (let '(t', st) := append_columns d_individuals ex_tbl ex_cols in (st, WFb d_individuals t', abs t'))
  = (Ok tt, true, ex_rows ++ [([4], [[1]; []; []]); ([5], [[2; 3]; []; [7]])]).
Proof. vm_compute. reflexivity. Qed.

(* decreasing offsets and offsets not starting at 0 are refused *)
Example set_columns_bad_offsets_ex :
  snd (set_columns d_individuals ex_tbl ([[4; 5]], [Some ([1; 2; 3], [0; 3; 3]); None; Some ([7], [0; 2; 1])]))
  = Err TSK_ERR_BAD_OFFSET /\
  snd (set_columns d_individuals ex_tbl ([[4; 5]], [Some ([1; 2; 3], [1; 2; 3]); None; None]))
  = Err TSK_ERR_BAD_OFFSET.
Proof. split; vm_compute; reflexivity. Qed.

Theorem table_copy_refines d t cp :
  WF d t -> order_ok d -> table_copy d t = (cp, Ok tt) -> WF d cp /\ abs cp = abs t.
Proof.
  intros W O H. pose proof (table_copy_rep _ _ _ _ (WF_TRep _ _ W) O H) as R.
  split; [eapply TRep_WF; eassumption | apply (TRep_abs _ _ _ R)].
Qed.
