(* C13 — the executable invariant [WFb] (equal column lengths; offsets start at 0, are
   monotone and end at the data length; everything inside its allocation) is equivalent to
   "the table represents [abs t]". *)
From Coq Require Import List ZArith Bool Lia.
From TskVerif Require Import Base.Common C13.Model C13.Lemmas C13.Rep.
Import ListNotations.
Open Scope Z_scope.

Lemma In_nth_error_ex {A} (l : list A) x : In x l -> exists j, nth_error l j = Some x.
Proof. apply In_nth_error. Qed.

Lemma last_nth {A} (l : list A) d n : length l = S n -> last l d = nth n l d.
Proof.
  revert n; induction l as [|x l IH]; intros n H; simpl in H; [discriminate|].
  destruct l as [|y l'].
  - simpl in H. inversion H. subst. reflexivity.
  - destruct n; [simpl in H; discriminate|].
    change (last (x :: y :: l') d) with (last (y :: l') d). rewrite (IH n) by (simpl in *; lia).
    reflexivity.
Qed.

Lemma unpack_length data offs : length (unpack data offs) = (length offs - 1)%nat.
Proof.
  induction offs as [|a offs IH]; [reflexivity|].
  destruct offs as [|b offs']; [reflexivity|].
  change (unpack data (a :: b :: offs')) with (slice data a b :: unpack data (b :: offs')).
  simpl length in *. rewrite IH. lia.
Qed.

Lemma nth_map_error {A B} (g : A -> B) l j a d : nth_error l j = Some a -> nth j (map g l) d = g a.
Proof.
  intros H. apply nth_error_nth. rewrite nth_error_map, H. reflexivity.
Qed.

(* ---------- TRep -> WF ---------- *)
Lemma FRep_wf n maxr buf cells : FRep n maxr buf cells -> wf_fixed n maxr buf = true.
Proof.
  intros F. pose proof (FRep_bounds _ _ _ _ F). pose proof (fr_cap _ _ _ _ F).
  unfold wf_fixed. apply andb_true_iff. split; apply Z.leb_le; lia.
Qed.

Lemma RRep_wf n maxr c cells : RRep n maxr c cells -> wf_rag n maxr c = true.
Proof.
  intros R. pose proof (RRep_off_len _ _ _ _ R) as [OL N0].
  pose proof (RRep_data_len _ _ _ _ R) as DL. pose proof (rr_n _ _ _ _ R) as N.
  unfold wf_rag. rewrite (rr_off _ _ _ _ R).
  repeat (apply andb_true_iff; split).
  - apply Z.eqb_eq. unfold zlen. rewrite psums_length. unfold zlen in N. lia.
  - apply Z.eqb_eq. rewrite <- (nth_firstn_lt _ _ (S (Z.to_nat n))) by lia.
    rewrite (rr_off _ _ _ _ R), psums_nth by lia. reflexivity.
  - apply monotoneb_psums.
  - apply Z.eqb_eq. rewrite <- (nth_firstn_lt _ _ (S (Z.to_nat n))) by lia.
    rewrite (rr_off _ _ _ _ R), psums_nth by (unfold zlen in N; lia).
    rewrite firstn_all2 by (unfold zlen in N; lia). rewrite (rr_len _ _ _ _ R). lia.
  - apply Z.leb_le. lia.
  - apply Z.leb_le. apply (rr_capd _ _ _ _ R).
  - apply Z.leb_le. apply (rr_capo _ _ _ _ R).
  - apply Z.leb_le. apply (rr_incr _ _ _ _ R).
Qed.

Theorem TRep_WF d t rows : TRep d t rows -> WF d t.
Proof.
  intros R. unfold WF, WFb.
  pose proof (tr_n _ _ _ R) as N. pose proof (zlen_nonneg rows).
  repeat (apply andb_true_iff; split).
  - apply Z.leb_le. lia.
  - apply Z.leb_le. apply (tr_max _ _ _ R).
  - apply Z.leb_le. apply (tr_incr _ _ _ R).
  - apply Nat.eqb_eq, (tr_nf _ _ _ R).
  - apply Nat.eqb_eq, (tr_nr _ _ _ R).
  - apply forallb_forall. intros buf Hb. apply In_nth_error in Hb as [j Hj].
    eapply FRep_wf, (tr_f _ _ _ R _ _ Hj).
  - apply forallb_forall. intros c Hc. apply In_nth_error in Hc as [j Hj].
    eapply RRep_wf, (tr_r _ _ _ R _ _ Hj).
Qed.

(* ---------- WF -> TRep (abs t) ---------- *)
Lemma wf_rag_spec n maxr c : wf_rag n maxr c = true <->
  zlen (firstn (S (Z.to_nat n)) (roff c)) = n + 1 /\ nth 0 (roff c) (-1) = 0 /\
  monotoneb (firstn (S (Z.to_nat n)) (roff c)) = true /\ nth (Z.to_nat n) (roff c) (-1) = rlen c /\
  rlen c <= zlen (rdata c) /\ zlen (rdata c) <= rmax c /\ zlen (roff c) <= maxr + 1 /\ 0 <= rincr c.
Proof.
  unfold wf_rag. rewrite !andb_true_iff, !Z.eqb_eq, !Z.leb_le. tauto.
Qed.

Lemma WFb_spec d t : WFb d t = true <->
  0 <= nrows t /\ nrows t <= maxrows t /\ 0 <= rowincr t /\
  length (fcols t) = length (td_kinds d) /\ length (rcols t) = td_nr d /\
  forallb (wf_fixed (nrows t) (maxrows t)) (fcols t) = true /\
  forallb (wf_rag (nrows t) (maxrows t)) (rcols t) = true.
Proof.
  unfold WFb. rewrite !andb_true_iff, !Z.leb_le, !Nat.eqb_eq. tauto.
Qed.

Lemma monotoneb_last_ge rest : forall a d, monotoneb (a :: rest) = true -> a <= last (a :: rest) d.
Proof.
  induction rest as [|x t IHt]; intros a d M; [simpl; lia|].
  simpl in M. apply andb_true_iff in M as [A B]. apply Z.leb_le in A.
  change (last (a :: x :: t) d) with (last (x :: t) d). specialize (IHt x d B). lia.
Qed.

Lemma wf_rag_RRep n maxr c : 0 <= n -> wf_rag n maxr c = true ->
  RRep n maxr c (rag_cells (Z.to_nat n) c).
Proof.
  intros N0 H. apply wf_rag_spec in H as (H & H6 & H5 & H4 & H3 & H2 & H1 & H0).
  set (offs := firstn (S (Z.to_nat n)) (roff c)) in *.
  assert (Lo : length offs = S (Z.to_nat n)) by (unfold zlen in H; lia).
  assert (Lr : (S (Z.to_nat n) <= length (roff c))%nat).
  { unfold offs in Lo. rewrite firstn_length in Lo. lia. }
  assert (Hd : exists rest, offs = 0 :: rest).
  { destruct offs as [|a rest] eqn:E; [simpl in Lo; discriminate|]. exists rest. f_equal.
    rewrite <- H6. rewrite <- (nth_firstn_lt _ _ (S (Z.to_nat n))) by lia. fold offs. rewrite E. reflexivity. }
  destruct Hd as [rest Hd].
  assert (La : last offs 0 = rlen c).
  { rewrite (last_nth _ _ _ Lo). unfold offs. rewrite nth_firstn_lt by lia.
    rewrite (nth_indep _ 0 (-1)) by lia. exact H4. }
  destruct (psums_unpack (rdata c) offs 0 rest Hd ltac:(lia) H5 ltac:(lia)) as [P1 P2].
  unfold rag_cells. fold offs.
  assert (Zc : zlen (concat (unpack (rdata c) offs)) = rlen c).
  { rewrite P2, La. unfold slice. rewrite zlen_firstn, zlen_skipn.
    assert (0 <= rlen c).
    { rewrite <- La. rewrite Hd. apply monotoneb_last_ge. rewrite <- Hd. exact H5. }
    lia. }
  constructor.
  - unfold zlen. rewrite unpack_length, Lo. lia.
  - symmetry. exact P1.
  - symmetry. exact Zc.
  - rewrite P2, La. unfold slice. change (Z.to_nat 0) with 0%nat. rewrite skipn_O. f_equal. lia.
  - exact H2.
  - exact H1.
  - exact H0.
Qed.

Theorem WF_TRep d t : WF d t -> TRep d t (abs t).
Proof.
  intros H. unfold WF in H. apply WFb_spec in H as (H & H5 & H4 & H3 & H2 & H1 & H0).
  rewrite forallb_forall in H1. rewrite forallb_forall in H0.
  set (n := Z.to_nat (nrows t)).
  assert (Labs : length (abs t) = n) by (unfold abs; rewrite map_length, seq_length; reflexivity).
  constructor.
  - unfold zlen. rewrite Labs. unfold n. lia.
  - exact H5.
  - exact H4.
  - exact H3.
  - exact H2.
  - apply Forall_forall. intros r Hr. unfold abs in Hr. apply in_map_iff in Hr as (i & <- & _).
    unfold row_ok. simpl. rewrite !map_length, H3, H2, !Nat.eqb_refl. reflexivity.
  - intros j buf Hj.
    assert (W : wf_fixed (nrows t) (maxrows t) buf = true) by (apply H1; eapply nth_error_In; eassumption).
    unfold wf_fixed in W. apply andb_true_iff in W as [W1 W2]. apply Z.leb_le in W1. apply Z.leb_le in W2.
    assert (E : fcol_of (abs t) j = firstn n buf).
    { unfold fcol_of, abs. fold n. rewrite map_map. simpl.
      rewrite <- (map_nth_seq buf 0 n) by (unfold zlen in W1; lia).
      apply map_ext. intros i. apply (nth_map_error (fun b : list Z => nth i b 0) _ _ buf 0 Hj). }
    rewrite E. constructor; [reflexivity | |exact W2].
    rewrite zlen_firstn. unfold n. lia.
  - intros j c Hj.
    assert (W : wf_rag (nrows t) (maxrows t) c = true) by (apply H0; eapply nth_error_In; eassumption).
    pose proof (wf_rag_RRep _ _ _ H W) as R. fold n in R.
    assert (E : rcol_of (abs t) j = rag_cells n c).
    { unfold rcol_of, abs. fold n. rewrite map_map. simpl.
      pose proof (rr_n _ _ _ _ R) as N.
      assert (Ln : length (rag_cells n c) = n) by (unfold zlen in N; unfold n in *; lia).
      transitivity (firstn n (rag_cells n c)); [|rewrite <- Ln at 1; apply firstn_all].
      rewrite <- (map_nth_seq (rag_cells n c) [] n) by lia.
      apply map_ext. intros i. apply (nth_map_error (fun c0 : rag => nth i (rag_cells n c0) []) _ _ c [] Hj). }
    rewrite E. exact R.
Qed.

(* the two directions together *)
Corollary WF_iff_rep d t : WF d t <-> TRep d t (abs t).
Proof. split; [apply WF_TRep | apply TRep_WF]. Qed.
