(* C13 — list / buffer lemmas used by the refinement proofs. *)
From Coq Require Import List ZArith Bool Lia.
From TskVerif Require Import Base.Common C13.Model.
Import ListNotations.
Open Scope Z_scope.

(* ---------- the result monad ---------- *)
Lemma bind_Ok {A B} (r : res A) (f : A -> res B) b :
  bind r f = Ok b -> exists a, r = Ok a /\ f a = Ok b.
Proof. destruct r; simpl; intros; try discriminate. eauto. Qed.

Ltac bind_inv H :=
  let a := fresh "x" in let H1 := fresh "E" in let H2 := fresh "E" in
  apply bind_Ok in H; destruct H as (a & H1 & H2).

Tactic Notation "binv" hyp(H) "as" ident(a) ident(H1) ident(H2) :=
  apply bind_Ok in H; destruct H as (a & H1 & H2).

(* ---------- zlen ---------- *)
Lemma zlen_nonneg {A} (l : list A) : 0 <= zlen l.
Proof. unfold zlen; lia. Qed.
Lemma zlen_app {A} (a b : list A) : zlen (a ++ b) = zlen a + zlen b.
Proof. unfold zlen; rewrite app_length; lia. Qed.
Lemma zlen_cons {A} (x : A) l : zlen (x :: l) = zlen l + 1.
Proof. unfold zlen; simpl; lia. Qed.
Lemma zlen_nil {A} : zlen (@nil A) = 0.
Proof. reflexivity. Qed.
Lemma zlen_map {A B} (f : A -> B) l : zlen (map f l) = zlen l.
Proof. unfold zlen; rewrite map_length; reflexivity. Qed.
Lemma zlen_firstn {A} n (l : list A) : zlen (firstn n l) = Z.min (Z.of_nat n) (zlen l).
Proof. unfold zlen; rewrite firstn_length; lia. Qed.
Lemma zlen_skipn {A} n (l : list A) : zlen (skipn n l) = Z.max 0 (zlen l - Z.of_nat n).
Proof. unfold zlen; rewrite skipn_length; lia. Qed.
Lemma zlen_repeat {A} (a : A) n : zlen (repeat a n) = Z.of_nat n.
Proof. unfold zlen; rewrite repeat_length; reflexivity. Qed.
Lemma zlen_length {A} (l : list A) : Z.to_nat (zlen l) = length l.
Proof. unfold zlen; lia. Qed.

(* ---------- firstn / skipn ---------- *)
Lemma firstn_app_exact {A} (a b : list A) n : n = length a -> firstn n (a ++ b) = a.
Proof. intros ->. rewrite firstn_app, Nat.sub_diag, firstn_all. simpl. apply app_nil_r. Qed.

Lemma firstn_app_le {A} (a b : list A) n : (n <= length a)%nat -> firstn n (a ++ b) = firstn n a.
Proof.
  intros. rewrite firstn_app. replace (n - length a)%nat with 0%nat by lia. simpl. apply app_nil_r.
Qed.

Lemma firstn_app_ge {A} (a b : list A) n : (length a <= n)%nat ->
  firstn n (a ++ b) = a ++ firstn (n - length a) b.
Proof. intros. rewrite firstn_app. rewrite (firstn_all2 a) by lia. reflexivity. Qed.

Lemma skipn_app_exact {A} (a b : list A) n : n = length a -> skipn n (a ++ b) = b.
Proof. intros ->. rewrite skipn_app, Nat.sub_diag, skipn_all. reflexivity. Qed.

Lemma skipn_app_ge {A} (a b : list A) n : (length a <= n)%nat ->
  skipn n (a ++ b) = skipn (n - length a) b.
Proof. intros. rewrite skipn_app. rewrite (skipn_all2 a) by lia. reflexivity. Qed.

Lemma skipn_skipn {A} (l : list A) : forall m n, skipn m (skipn n l) = skipn (n + m) l.
Proof.
  induction l as [|h t IH]; intros m n.
  - rewrite !skipn_nil. reflexivity.
  - destruct n; simpl; [reflexivity | apply IH].
Qed.

Lemma firstn_firstn_le {A} (l : list A) m n : (m <= n)%nat -> firstn m (firstn n l) = firstn m l.
Proof. intros. rewrite firstn_firstn. f_equal. lia. Qed.

Lemma firstn_snoc_nth {A} (l : list A) n d : (n < length l)%nat ->
  firstn (S n) l = firstn n l ++ [nth n l d].
Proof.
  revert n; induction l as [|h t IH]; intros [|n] H; simpl in *; try lia; try reflexivity.
  f_equal. apply IH. lia.
Qed.

Lemma nth_firstn_lt {A} (l : list A) i n d : (i < n)%nat -> nth i (firstn n l) d = nth i l d.
Proof.
  revert i n; induction l as [|h t IH]; intros [|i] [|n] H; simpl; try lia; try reflexivity.
  apply IH. lia.
Qed.

Lemma firstn_eq_length {A} (l x : list A) n : firstn n l = x -> length x = n -> (n <= length l)%nat.
Proof. intros <- H. rewrite firstn_length in H. lia. Qed.

(* ---------- checked access ---------- *)
Lemma get_Ok {A} (l : list A) i a :
  get l i = Ok a <-> 0 <= i /\ nth_error l (Z.to_nat i) = Some a.
Proof.
  unfold get. destruct (i <? 0) eqn:E.
  - apply Z.ltb_lt in E. split; [discriminate | lia].
  - apply Z.ltb_ge in E. destruct (nth_error l (Z.to_nat i)) eqn:N.
    + split; [intro H; inversion H; subst; auto | intros [_ H]; inversion H; reflexivity].
    + split; [discriminate | intros [_ H]; discriminate].
Qed.

Lemma get_Ok_nth {A} (l : list A) i a d :
  get l i = Ok a -> 0 <= i < zlen l /\ nth (Z.to_nat i) l d = a.
Proof.
  intros H. apply get_Ok in H as [H0 H]. split.
  - assert (Z.to_nat i < length l)%nat by (apply nth_error_Some; congruence). unfold zlen; lia.
  - apply nth_error_nth; assumption.
Qed.

Lemma get_in_range {A} (l : list A) i d : 0 <= i < zlen l -> get l i = Ok (nth (Z.to_nat i) l d).
Proof.
  intros H. apply get_Ok. split; [lia|]. apply nth_error_nth'. unfold zlen in H; lia.
Qed.

Lemma get_firstn_lt {A} (l : list A) i k : 0 <= i < Z.of_nat k -> get (firstn k l) i = get l i.
Proof.
  intros H. unfold get. destruct (i <? 0) eqn:E; [reflexivity|].
  rewrite <- (firstn_skipn k l) at 2.
  destruct (Nat.lt_ge_cases (Z.to_nat i) (length (firstn k l))) as [L|L].
  - rewrite nth_error_app1 by assumption. reflexivity.
  - assert (nth_error (firstn k l) (Z.to_nat i) = None) as -> by (apply nth_error_None; lia).
    rewrite firstn_length in L.
    assert (nth_error (firstn k l ++ skipn k l) (Z.to_nat i) = None) as ->; [|reflexivity].
    apply nth_error_None. rewrite firstn_skipn. lia.
Qed.

Lemma get_firstn {A} (l : list A) i k a :
  get (firstn k l) i = Ok a -> get l i = Ok a.
Proof.
  intros H. pose proof H as H'. apply get_Ok in H' as [H0 H1].
  assert (L : (Z.to_nat i < length (firstn k l))%nat) by (apply nth_error_Some; congruence).
  rewrite firstn_length in L. rewrite get_firstn_lt in H by lia. assumption.
Qed.

(* ---------- blit / store ---------- *)
Lemma blit_Ok buf cap i vs b :
  blit buf cap i vs = Ok b -> 0 <= i <= zlen buf ->
  b = firstn (Z.to_nat i) buf ++ vs ++ skipn (Z.to_nat i + length vs) buf /\ i + zlen vs <= cap.
Proof.
  unfold blit. intros H R. destruct (0 <=? i) eqn:E1; simpl in H; [|discriminate].
  destruct (i + zlen vs <=? cap) eqn:E2; [|discriminate].
  apply Z.leb_le in E2. inversion H; subst; clear H. split; [|assumption].
  replace (Z.to_nat (i - zlen buf)) with 0%nat by lia. simpl. rewrite app_nil_r. reflexivity.
Qed.

Lemma blit_zlen buf cap i vs b :
  blit buf cap i vs = Ok b -> 0 <= i <= zlen buf -> zlen b = Z.max (zlen buf) (i + zlen vs).
Proof.
  intros H R. apply blit_Ok in H as [-> _]; auto.
  rewrite !zlen_app, zlen_firstn, zlen_skipn. unfold zlen in *. lia.
Qed.

Lemma blit_firstn_before buf cap i vs b k :
  blit buf cap i vs = Ok b -> 0 <= i <= zlen buf -> (k <= Z.to_nat i)%nat ->
  firstn k b = firstn k buf.
Proof.
  intros H R K. apply blit_Ok in H as [-> _]; auto.
  rewrite firstn_app_le by (rewrite firstn_length; unfold zlen in R; lia).
  apply firstn_firstn_le; assumption.
Qed.

Lemma blit_firstn_upto buf cap i vs b :
  blit buf cap i vs = Ok b -> 0 <= i <= zlen buf ->
  firstn (Z.to_nat i + length vs) b = firstn (Z.to_nat i) buf ++ vs.
Proof.
  intros H R. apply blit_Ok in H as [-> _]; auto.
  rewrite app_assoc. apply firstn_app_exact.
  rewrite app_length, firstn_length. unfold zlen in R. lia.
Qed.

Lemma blit_skipn_after buf cap i vs b :
  blit buf cap i vs = Ok b -> 0 <= i <= zlen buf ->
  skipn (Z.to_nat i + length vs) b = skipn (Z.to_nat i + length vs) buf.
Proof.
  intros H R. apply blit_Ok in H as [-> _]; auto.
  rewrite app_assoc. apply skipn_app_exact.
  rewrite app_length, firstn_length. unfold zlen in R. lia.
Qed.

Lemma store_firstn_upto buf cap i v b :
  store buf cap i v = Ok b -> 0 <= i <= zlen buf ->
  firstn (S (Z.to_nat i)) b = firstn (Z.to_nat i) buf ++ [v].
Proof.
  intros H R. unfold store in H. pose proof (blit_firstn_upto _ _ _ _ _ H R) as P.
  simpl length in P. replace (Z.to_nat i + 1)%nat with (S (Z.to_nat i)) in P by lia. exact P.
Qed.

Lemma store_zlen buf cap i v b :
  store buf cap i v = Ok b -> 0 <= i <= zlen buf -> zlen b = Z.max (zlen buf) (i + 1) /\ i + 1 <= cap.
Proof.
  intros H R. unfold store in H. pose proof (blit_zlen _ _ _ _ _ H R) as P.
  apply blit_Ok in H; [|assumption]. destruct H as [_ C]. unfold zlen in *; simpl length in *. lia.
Qed.

Lemma store_firstn_before buf cap i v b k :
  store buf cap i v = Ok b -> 0 <= i <= zlen buf -> (k <= Z.to_nat i)%nat ->
  firstn k b = firstn k buf.
Proof. intros H. unfold store in H. eapply blit_firstn_before; eassumption. Qed.

Lemma store_seq_blit vs : forall buf cap i b,
  store_seq buf cap i vs = Ok b -> 0 <= i <= zlen buf ->
  b = firstn (Z.to_nat i) buf ++ vs ++ skipn (Z.to_nat i + length vs) buf
  /\ (vs <> [] -> i + zlen vs <= cap).
Proof.
  induction vs as [|v vs IH]; simpl; intros buf cap i b H R.
  - inversion H; subst. rewrite Nat.add_0_r, firstn_skipn. split; [reflexivity|congruence].
  - bind_inv H. unfold store in E.
    pose proof (blit_zlen _ _ _ _ _ E R) as Z1.
    apply blit_Ok in E as [-> C1]; auto.
    apply IH in E0.
    2:{ rewrite Z1. unfold zlen; simpl length; lia. }
    destruct E0 as [-> C2]. split.
    2:{ intros _. destruct vs as [|w vs']; [unfold zlen in *; simpl in *; lia|].
        assert (w :: vs' <> []) as NE by congruence. specialize (C2 NE).
        unfold zlen in *; simpl length in *; lia. }
    replace (Z.to_nat (i + 1)) with (S (Z.to_nat i)) by lia.
    set (a := firstn (Z.to_nat i) buf).
    assert (La : length a = Z.to_nat i) by (unfold a; rewrite firstn_length; unfold zlen in R; lia).
    set (tl := skipn (Z.to_nat i + length [v]) buf).
    replace (a ++ [v] ++ tl) with ((a ++ [v]) ++ tl) by (rewrite <- app_assoc; reflexivity).
    rewrite firstn_app_exact by (rewrite app_length; simpl; lia).
    rewrite skipn_app_ge by (rewrite app_length; simpl; lia).
    rewrite app_length, La. simpl length. unfold tl. simpl length.
    rewrite skipn_skipn.
    match goal with |- context [skipn ?k buf] => replace k with (Z.to_nat i + S (length vs))%nat by lia end.
    rewrite <- app_assoc. reflexivity.
Qed.
