(* C13 — every operation of every history is safe: starting from any table satisfying the
   invariant (in particular the empty table), each step returns Ok or a documented error
   code — never an out-of-bounds access, never a failed tsk_bug_assert — the invariant is
   kept (also by the steps that fail), and the successful steps follow the list model. *)
From Coq Require Import List ZArith Bool Lia.
From TskVerif Require Import Base.Common C13.Model C13.Lemmas C13.Rep C13.Bridge C13.OpsProofs
  C13.ColsProofs C13.UpdateProofs C13.KeepProofs C13.RefineProofs C13.TotalProofs C13.SafeProofs
  C13.KeepSafeProofs Gen.Generated.
Import ListNotations.
Open Scope Z_scope.

Definition all_codes (d : tdesc) : list Z :=
  [td_oob d; TSK_ERR_TABLE_OVERFLOW; TSK_ERR_COLUMN_OVERFLOW; TSK_ERR_KEEP_ROWS_MAP_TO_DELETED;
   TSK_ERR_BAD_PARAM_VALUE; TSK_ERR_BAD_TABLE_POSITION; TSK_ERR_BAD_OFFSET; PY_VALUE_ERROR].

Definition is_overflow (st : res unit) : bool :=
  match st with Err c => (c =? TSK_ERR_TABLE_OVERFLOW) || (c =? TSK_ERR_COLUMN_OVERFLOW) | _ => false end.

Lemma ok_or_overflow_all d (st : res unit) : ok_or overflow_codes st -> ok_or (all_codes d) st.
Proof. apply ok_or_weaken. intros x [<-|[<-|[]]]; simpl; auto. Qed.

Lemma ok_or_extend_all d (st : res unit) : ok_or (extend_codes d) st -> ok_or (all_codes d) st.
Proof. apply ok_or_weaken. intros x [<-|[<-|[<-|[]]]]; simpl; auto. Qed.

Lemma ok_or_err_of {A} codes (r : res A) : ok_or codes r -> ok_or codes (err_of r).
Proof. destruct r; simpl; auto. Qed.

(* check_offsets on an array that is long enough: Ok or BAD_OFFSET *)
Lemma offsets_monotone_total offs : forall k j, 0 <= j -> j + Z.of_nat k < zlen offs ->
  exists b, offsets_monotone k j offs = Ok b.
Proof.
  induction k as [|k IH]; intros j Hj Hk; [eexists; reflexivity|].
  simpl. rewrite (get_in_range _ _ 0) by lia. rewrite (get_in_range _ _ 0) by lia. cbn [bind].
  destruct (_ >? _); [eexists; reflexivity | apply IH; lia].
Qed.

Lemma check_offsets_cases m offs : 0 <= m -> m + 1 <= zlen offs ->
  ok_or [TSK_ERR_BAD_OFFSET] (check_offsets m offs).
Proof.
  intros Hm L. unfold check_offsets. rewrite (get_in_range _ _ 0) by lia. cbn [bind].
  destruct (negb _); [simpl; auto|].
  destruct (offsets_monotone_total offs (Z.to_nat m) 0) as [b Hb]; [lia | lia|]. rewrite Hb. cbn [bind].
  destruct b; simpl; auto.
Qed.

Lemma precheck_offsets_cases m inputs : 0 <= m ->
  (forall data offs, In (Some (data, offs)) inputs -> zlen offs = m + 1) ->
  ok_or [TSK_ERR_BAD_OFFSET] (precheck_offsets m inputs).
Proof.
  intros Hm. induction inputs as [|inp inputs IH]; intros H; simpl; [exact I|].
  destruct inp as [[data offs]|].
  - pose proof (check_offsets_cases m offs Hm) as C. rewrite (H data offs (or_introl eq_refl)) in C.
    specialize (C (Z.le_refl _)).
    destruct (check_offsets m offs) as [[]| | |]; simpl in *; auto.
    apply IH. intros d o X. apply (H d o). right. exact X.
  - apply IH. intros d o X. apply (H d o). right. exact X.
Qed.

Lemma parse_cols_codes d cs : ok_or [PY_VALUE_ERROR] (parse_cols d cs).
Proof.
  unfold parse_cols.
  destruct (negb _); [simpl; auto|]. destruct (negb _); [simpl; auto|].
  assert (Q : forall md bug inputs j nr, match nr with Some x => 0 <= x | None => True end ->
                ok_or [PY_VALUE_ERROR] (parse_ragged md bug j nr inputs)).
  { intros md bug inputs. induction inputs as [|inp inputs IH]; intros j nr Hnr; simpl; [exact I|].
    destruct inp as [[data offs]|]; [|apply IH; exact Hnr].
    match goal with |- ok_or _ (if ?c then _ else _) => destruct c end.
    - destruct (zlen offs =? 0) eqn:Z0; [simpl; auto|]. apply Z.eqb_neq in Z0. pose proof (zlen_nonneg offs).
      rewrite (get_in_range _ _ 0) by lia. cbn [bind]. destruct (negb _); [simpl; auto | apply IH; simpl; lia].
    - destruct nr as [x|]; [|simpl; auto]. destruct (zlen offs =? x + 1) eqn:L; simpl; [|auto].
      apply Z.eqb_eq in L. rewrite (get_in_range _ _ 0) by lia. cbn [bind].
      destruct (negb _); [simpl; auto | apply IH; exact Hnr]. }
  specialize (Q (td_md d) (td_mdlen_bug d) (snd cs) 0%nat
                (match fst cs with [] => None | c :: _ => Some (zlen c) end)).
  assert (Hn : match (match fst cs with [] => None | c :: _ => Some (zlen c) end) with Some x => 0 <= x | None => True end)
    by (destruct (fst cs); [exact I | apply zlen_nonneg]).
  specialize (Q Hn).
  destruct (parse_ragged _ _ _ _ _) as [[n|]| | |]; simpl in *; auto.
Qed.

(* ---------- one step: the status ---------- *)
Lemma cstep_status d t o :
  WF d t -> order_ok d -> td_mdlen_bug d = false -> ok_or (all_codes d) (snd (cstep d t o)).
Proof.
  intros W O Hb. destruct (cstep d t o) as [t' st] eqn:S. simpl.
  assert (X : True) by exact I. revert X. intros _.
  (* case analysis on the operation *)
  idtac.
  { idtac.
    destruct o as [r|n| |i r|u idx|cs|cs|keep]; simpl in S.
    + destruct (row_ok d r) eqn:Hr; [|inversion S; simpl; auto 10].
      pose proof (add_row_safe d t r W Hr) as A. unfold lift in S.
      destruct (add_row d t r); inversion S; subst; simpl in *; auto 10.
      destruct A as [<-|[<-|[]]]; auto 10.
    + unfold lift, truncate in S.
      destruct ((n <? 0) || (n >? nrows t)) eqn:B; [inversion S; simpl; auto 10|].
      apply orb_false_iff in B as [B1 B2]. apply Z.ltb_ge in B1. rewrite Z.gtb_ltb in B2. apply Z.ltb_ge in B2.
      destruct (truncate_total d t n W ltac:(lia)) as [t1 T]. unfold truncate in T.
      replace ((n <? 0) || (n >? nrows t)) with false in T
        by (symmetry; apply orb_false_iff; split; [apply Z.ltb_ge | rewrite Z.gtb_ltb; apply Z.ltb_ge]; lia).
      rewrite T in S. inversion S. exact I.
    + destruct (clear_total d t W) as [t1 T]. unfold lift in S. rewrite T in S. inversion S. exact I.
    + destruct (row_ok d r) eqn:Hr; [|inversion S; simpl; auto 10].
      pose proof (update_row_safe d t i r W O Hr) as U. rewrite S in U. apply ok_or_extend_all. exact U.
    + destruct (WFb d u) eqn:Wu; [|inversion S; simpl; auto 10].
      pose proof (extend_safe d t u idx W Wu) as E. rewrite S in E. apply ok_or_extend_all. exact E.
    + (* set_columns *)
      change (set_columns d t cs) with (set_columns_gen c13_binding_checks_offsets c13_append_offsets_checked_first d t cs) in S.
      pose proof (parse_cols_codes d cs) as Pc. unfold set_columns_gen in S.
      destruct (parse_cols d cs) as [n| | |] eqn:P; simpl in Pc; try contradiction.
      2:{ inversion S. destruct Pc as [<-|[]]. simpl. auto 10. }
      destruct (parse_cols_Ok _ _ _ P) as [Hn _]. destruct (parse_cols_lengths _ _ _ Hb P) as [_ Lo].
      pose proof (precheck_offsets_cases n (snd cs) Hn (fun da o X => proj1 (Lo da o X))) as Pk.
      destruct (precheck_offsets n (snd cs)) as [[]| | |] eqn:C; simpl in Pk; try contradiction.
      * pose proof (set_columns_gen_safe c13_binding_checks_offsets c13_append_offsets_checked_first d t cs n W O Hb P C) as Sf.
        unfold set_columns_gen in Sf. rewrite P, C in Sf.
        replace (if c13_binding_checks_offsets then Ok tt else Ok tt) with (@Ok unit tt) in * by (destruct c13_binding_checks_offsets; reflexivity).
        rewrite S in Sf. apply ok_or_overflow_all. exact Sf.
      * destruct Pk as [<-|[]].
        (* bad offsets: refused by the binding (repaired code) *)
        change c13_binding_checks_offsets with true in S. simpl in S. inversion S. simpl. auto 10.
    + (* append_columns *)
      change (append_columns d t cs) with (append_columns_gen c13_binding_checks_offsets c13_append_offsets_checked_first d t cs) in S.
      pose proof (parse_cols_codes d cs) as Pc. unfold append_columns_gen in S.
      destruct (parse_cols d cs) as [n| | |] eqn:P; simpl in Pc; try contradiction.
      2:{ inversion S. destruct Pc as [<-|[]]. simpl. auto 10. }
      destruct (parse_cols_Ok _ _ _ P) as [Hn _]. destruct (parse_cols_lengths _ _ _ Hb P) as [_ Lo].
      pose proof (precheck_offsets_cases n (snd cs) Hn (fun da o X => proj1 (Lo da o X))) as Pk.
      destruct (precheck_offsets n (snd cs)) as [[]| | |] eqn:C; simpl in Pk; try contradiction.
      * pose proof (append_columns_gen_safe c13_binding_checks_offsets c13_append_offsets_checked_first d t cs n W O Hb P C) as Sf.
        unfold append_columns_gen in Sf. rewrite P, C in Sf.
        replace (if c13_binding_checks_offsets then Ok tt else Ok tt) with (@Ok unit tt) in * by (destruct c13_binding_checks_offsets; reflexivity).
        rewrite S in Sf. apply ok_or_overflow_all. exact Sf.
      * destruct Pk as [<-|[]].
        change c13_binding_checks_offsets with true in S. simpl in S. inversion S. simpl. auto 10.
    + destruct (zlen keep =? nrows t) eqn:Lk; [|inversion S; simpl; auto 10]. apply Z.eqb_eq in Lk.
      pose proof (keep_rows_safe d t keep W Lk) as K.
      destruct (keep_rows d t keep) as [[t1 m]| | |]; inversion S; subst; simpl in *; auto 10.
      destruct K as [<-|[<-|[<-|[]]]]; auto 10.
  }
Qed.

(* ---------- one step: the invariant survives, also when the step fails ---------- *)
Lemma update_row_wf d t i r t' st :
  WF d t -> order_ok d -> row_ok d r = true -> update_row d t i r = (t', st) -> WF d t'.
Proof.
  intros W O Hr H. destruct st as [[]| | |] eqn:E.
  { apply (update_row_refines _ _ _ _ _ W O Hr H). }
  all: unfold update_row in H; destruct (get_row d t i) as [cur| | |]; try (inversion H; subst; exact W);
    destruct (list_eqb Z.eqb _ _);
    [ unfold lift in H;
      match type of H with (match ?e with _ => _ end) = _ => destruct e end; inversion H; subst; exact W
    | unfold update_row_rewrite in H;
      destruct (table_copy d t) as [cp stc] eqn:Cp; destruct stc as [[]| | |]; try (inversion H; subst; exact W);
      pose proof (table_copy_refines _ _ _ W O Cp) as [Wc _];
      destruct (truncate t i) as [t1| | |] eqn:T; try (inversion H; subst; exact W);
      pose proof (truncate_refines _ _ _ _ W T) as [W1 _];
      destruct (add_row d t1 r) as [t2| | |] eqn:A; try (inversion H; subst; exact W1);
      pose proof (add_row_refines _ _ _ _ W1 Hr A) as [W2 _];
      apply (proj1 (extend_refines _ _ _ _ _ _ W2 Wc H)) ].
Qed.

Lemma cstep_wf d t o :
  WF d t -> order_ok d -> td_mdlen_bug d = false ->
  is_overflow (snd (cstep d t o)) = false -> WF d (fst (cstep d t o)).
Proof.
  intros W O Hb NoOv. destruct (cstep d t o) as [t' st] eqn:S. simpl in *.
  destruct st as [[]|c| |] eqn:Est.
  { apply (proj1 (cstep_refines _ _ _ _ W O S)). }
  2,3: (pose proof (cstep_status d t o W O Hb) as Z; rewrite S in Z; simpl in Z; contradiction).
  destruct o as [r|n| |i r|u idx|cs|cs|keep]; simpl in S.
  - destruct (row_ok d r); [unfold lift in S; destruct (add_row d t r); inversion S; subst; exact W | inversion S; subst; exact W].
  - unfold lift in S. destruct (truncate t n); inversion S; subst; exact W.
  - unfold lift in S. destruct (clear t); inversion S; subst; exact W.
  - destruct (row_ok d r) eqn:Hr; [apply (update_row_wf _ _ _ _ _ _ W O Hr S) | inversion S; subst; exact W].
  - destruct (WFb d u) eqn:Wu; [apply (proj1 (extend_refines _ _ _ _ _ _ W Wu S)) | inversion S; subst; exact W].
  - (* set_columns: refused before anything is changed, or an overflow *)
    change (set_columns d t cs) with (set_columns_gen c13_binding_checks_offsets c13_append_offsets_checked_first d t cs) in S.
    unfold set_columns_gen in S.
    destruct (parse_cols d cs) as [n| | |] eqn:P; try (inversion S; subst; exact W).
    change c13_binding_checks_offsets with true in S. cbn iota in S.
    destruct (precheck_offsets n (snd cs)) as [[]| | |] eqn:C; try (inversion S; subst; exact W).
    pose proof (set_columns_gen_safe true c13_append_offsets_checked_first d t cs n W O Hb P C) as Sf.
    unfold set_columns_gen in Sf. rewrite P, C in Sf. rewrite S in Sf. simpl in Sf.
    exfalso. destruct Sf as [<-|[<-|[]]]; vm_compute in NoOv; discriminate.
  - change (append_columns d t cs) with (append_columns_gen c13_binding_checks_offsets c13_append_offsets_checked_first d t cs) in S.
    unfold append_columns_gen in S.
    destruct (parse_cols d cs) as [n| | |] eqn:P; try (inversion S; subst; exact W).
    change c13_binding_checks_offsets with true in S. cbn iota in S.
    destruct (precheck_offsets n (snd cs)) as [[]| | |] eqn:C; try (inversion S; subst; exact W).
    pose proof (append_columns_gen_safe true c13_append_offsets_checked_first d t cs n W O Hb P C) as Sf.
    unfold append_columns_gen in Sf. rewrite P, C in Sf. rewrite S in Sf. simpl in Sf.
    exfalso. destruct Sf as [<-|[<-|[]]]; vm_compute in NoOv; discriminate.
  - destruct (zlen keep =? nrows t); [|inversion S; subst; exact W].
    destruct (keep_rows d t keep) as [[t1 m]| | |]; inversion S; subst; exact W.
Qed.

(* ---------- histories: run every operation, continuing after the ones that fail; stop only
   at a size-limit overflow (2^31 rows / 2^64 cells), after which the C code may leave dead
   cells behind ---------- *)
Fixpoint crun_all (d : tdesc) (t : tbl) (ops : list cop) : list (res unit) * tbl :=
  match ops with
  | [] => ([], t)
  | o :: rest =>
      let '(t', st) := cstep d t o in
      if is_overflow st then ([st], t')
      else let '(l, tf) := crun_all d t' rest in (st :: l, tf)
  end.

(* the list model with refusals: a refused operation leaves the list as it is, except that a
   refused extend / update_row may have appended / rewritten a prefix (whatever abs says) *)
Theorem history_safe d : order_ok d -> td_mdlen_bug d = false -> forall ops t,
  WF d t ->
  Forall (ok_or (all_codes d)) (fst (crun_all d t ops)) /\
  (Forall (fun st => is_overflow st = false) (fst (crun_all d t ops)) -> WF d (snd (crun_all d t ops))).
Proof.
  intros O Hb. induction ops as [|o ops IH]; intros t W; simpl; [split; [constructor | intros _; exact W]|].
  pose proof (cstep_status d t o W O Hb) as St. pose proof (cstep_wf d t o W O Hb) as Wf.
  destruct (cstep d t o) as [t' st]. simpl in St, Wf.
  destruct (is_overflow st) eqn:Ov; simpl.
  - split; [constructor; [exact St | constructor]|]. intros F. apply Forall_inv in F. congruence.
  - specialize (Wf eq_refl). destruct (IH t' Wf) as [A B].
    destruct (crun_all d t' ops) as [l tf]. simpl in *. split; [constructor; assumption|].
    intros F. apply B. apply (Forall_inv_tail F).
Qed.

Corollary history_safe_from_empty d incr ops :
  order_ok d -> td_mdlen_bug d = false -> 0 <= incr ->
  Forall (ok_or (all_codes d)) (fst (crun_all d (init d incr) ops)).
Proof.
  intros O Hb Hi. destruct (init_wf d incr Hi) as [W _]. apply (proj1 (history_safe d O Hb ops _ W)).
Qed.

Example history_safe_ex :
  fst (crun_all d_mutations (init d_mutations 1)
         (ex_ops ++ [CKeep [false; true; true; true]; CUpdate 9 ([0; 0; 0; -1], [[]; []]); CTruncate 7; CTruncate 1]))
  = repeat (Ok tt) 8 ++ [Err TSK_ERR_KEEP_ROWS_MAP_TO_DELETED; Err (-206); Err TSK_ERR_BAD_TABLE_POSITION; Ok tt].
Proof. vm_compute. reflexivity. Qed.
