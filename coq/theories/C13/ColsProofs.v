(* C13 — refinement of append_columns / set_columns / table_copy. *)
From Coq Require Import List ZArith Bool Lia.
From TskVerif Require Import Base.Common C13.Model C13.Lemmas C13.Rep C13.Bridge C13.OpsProofs.
Import ListNotations.
Open Scope Z_scope.

(* the cells a (data, offsets) pair / a missing column contributes for m new rows *)
Definition new_rcells (m : nat) (inp : option (list Z * list Z)) : list (list Z) :=
  match inp with
  | None => repeat [] m
  | Some (data, offs) => unpack data (firstn (S m) offs)
  end.

(* rows made of the i-th cells of the given logical columns *)
Definition mk_rows (n : nat) (fcs : list (list Z)) (rcs : list (list (list Z))) : list row :=
  map (fun i => (map (fun c => nth i c 0) fcs, map (fun c => nth i c []) rcs)) (seq 0 n).

(* rows_of columns: what a well-formed column set stands for *)
Definition rows_of_cols (m : nat) (cs : cols) : list row :=
  mk_rows m (fst cs) (map (new_rcells m) (snd cs)).

Lemma mk_rows_length n fcs rcs : length (mk_rows n fcs rcs) = n.
Proof. unfold mk_rows. rewrite map_length, seq_length. reflexivity. Qed.

Lemma fcol_of_mk_rows n fcs rcs j c : nth_error fcs j = Some c -> (n <= length c)%nat ->
  fcol_of (mk_rows n fcs rcs) j = firstn n c.
Proof.
  intros Hj L. unfold fcol_of, mk_rows. rewrite map_map. simpl.
  rewrite <- (map_nth_seq c 0 n L). apply map_ext. intros i.
  apply (nth_map_error (fun b : list Z => nth i b 0) _ _ c 0 Hj).
Qed.

Lemma rcol_of_mk_rows n fcs rcs j c : nth_error rcs j = Some c -> length c = n ->
  rcol_of (mk_rows n fcs rcs) j = c.
Proof.
  intros Hj L. unfold rcol_of, mk_rows. rewrite map_map. simpl.
  transitivity (firstn n c); [|rewrite <- L; apply firstn_all].
  rewrite <- (map_nth_seq c [] n) by lia. apply map_ext. intros i.
  apply (nth_map_error (fun b : list (list Z) => nth i b []) _ _ c [] Hj).
Qed.

(* ---------- check_offsets ---------- *)
Lemma offsets_monotone_spec n : forall j offs, 0 <= j ->
  offsets_monotone n j offs = Ok true ->
  j + Z.of_nat n < zlen offs \/ n = 0%nat.
Proof.
  induction n as [|n IH]; intros j offs Hj H; [right; reflexivity|]. left.
  simpl in H. binv H as a Ga H1. binv H1 as b Gb H2.
  destruct (a >? b); [discriminate|].
  apply (get_Ok_nth _ _ _ 0) in Gb as [Rb _].
  assert (J1 : 0 <= j + 1) by lia. destruct (IH _ _ J1 H2) as [L|L]; lia.
Qed.

Lemma offsets_monotone_mono n : forall j offs, 0 <= j ->
  offsets_monotone n j offs = Ok true ->
  monotoneb (firstn (S n) (skipn (Z.to_nat j) offs)) = true.
Proof.
  induction n as [|n IH]; intros j offs Hj H.
  - destruct (skipn (Z.to_nat j) offs); reflexivity.
  - simpl in H. binv H as a Ga H1. binv H1 as b Gb H2.
    destruct (a >? b) eqn:G; [discriminate|]. rewrite Z.gtb_ltb in G. apply Z.ltb_ge in G.
    assert (J1 : 0 <= j + 1) by lia. specialize (IH _ _ J1 H2).
    apply get_Ok in Ga as [_ Ga]. apply get_Ok in Gb as [_ Gb].
    replace (Z.to_nat (j + 1)) with (S (Z.to_nat j)) in * by lia.
    assert (E : skipn (Z.to_nat j) offs = a :: skipn (S (Z.to_nat j)) offs).
    { clear -Ga. revert Ga. generalize (Z.to_nat j). intros k. revert offs.
      induction k as [|k IHk]; intros [|x l] H; simpl in H; try discriminate.
      - inversion H; reflexivity.
      - apply IHk in H. exact H. }
    rewrite E.
    assert (E2 : exists r, skipn (S (Z.to_nat j)) offs = b :: r).
    { clear -Gb. revert Gb. generalize (S (Z.to_nat j)). intros k. revert offs.
      induction k as [|k IHk]; intros [|x l] H; simpl in H; try discriminate.
      - inversion H. eexists; reflexivity.
      - apply IHk in H. exact H. }
    destruct E2 as [r E2]. rewrite E2 in *.
    change (firstn (S (S n)) (a :: b :: r)) with (a :: firstn (S n) (b :: r)).
    change (firstn (S n) (b :: r)) with (b :: firstn n r) in *.
    simpl. apply andb_true_iff. split; [apply Z.leb_le; lia | exact IH].
Qed.

Lemma check_offsets_spec m offs :
  0 <= m -> check_offsets m offs = Ok tt ->
  m + 1 <= zlen offs /\ (exists rest, firstn (S (Z.to_nat m)) offs = 0 :: rest) /\
  monotoneb (firstn (S (Z.to_nat m)) offs) = true.
Proof.
  intros Hm H. unfold check_offsets in H. binv H as o0 G0 H1.
  destruct (o0 =? 0) eqn:E0; simpl in H1; [|discriminate]. apply Z.eqb_eq in E0. subst o0.
  binv H1 as mo M H2. destruct mo; [|discriminate].
  pose proof (offsets_monotone_mono _ _ _ (Z.le_refl 0) M) as Mo. change (Z.to_nat 0) with 0%nat in Mo.
  rewrite skipn_O in Mo.
  apply (get_Ok_nth _ _ _ 0) in G0 as [R0 N0].
  split; [|split; [|exact Mo]].
  - destruct (offsets_monotone_spec _ _ _ (Z.le_refl 0) M) as [L|L]; lia.
  - destruct offs as [|x l]; [unfold zlen in R0; simpl in R0; lia|]. simpl in N0. subst x.
    simpl. eexists; reflexivity.
Qed.

(* ---------- psums helpers ---------- *)
Lemma psums_shift cells : forall a b, psums (a + b) cells = map (fun x => a + x) (psums b cells).
Proof.
  induction cells as [|c cells IH]; intros a b; simpl; [reflexivity|].
  f_equal. rewrite <- IH. f_equal. lia.
Qed.

Lemma psums_repeat_nil m : forall a, psums a (repeat [] m) = repeat a (S m).
Proof.
  induction m as [|m IH]; intros a; simpl; [reflexivity|].
  rewrite zlen_nil, Z.add_0_r, IH. reflexivity.
Qed.

Lemma concat_repeat_nil {A} m : concat (repeat (@nil A) m) = [].
Proof. induction m; simpl; auto. Qed.

Lemma removelast_firstn_S {A} (l : list A) n : (n < length l)%nat ->
  removelast (firstn (S n) l) = firstn n l.
Proof. apply removelast_firstn. Qed.

Lemma removelast_snoc {A} (l : list A) x : removelast (l ++ [x]) = l.
Proof. apply removelast_last. Qed.

Lemma take_exact_Ok n l x : take_exact n l = Ok x -> 0 <= n <= zlen l /\ x = firstn (Z.to_nat n) l.
Proof.
  unfold take_exact. destruct (0 <=? n) eqn:A; simpl; [|discriminate].
  destruct (n <=? zlen l) eqn:B; [|discriminate]. intros H; inversion H.
  apply Z.leb_le in A. apply Z.leb_le in B. auto.
Qed.

Lemma skipn_nth_cons {A} (l : list A) : forall k d, (k < length l)%nat ->
  skipn k l = nth k l d :: skipn (k + 1) l.
Proof.
  induction l as [|x l IH]; intros [|k] d H; simpl in *; try lia; [reflexivity|].
  apply IH. lia.
Qed.

(* ---------- one ragged column ---------- *)
Lemma RRep_append n maxr m c cells inp c' :
  RRep n maxr c cells -> 0 <= m -> rag_append n maxr m c inp = Ok c' ->
  RRep (n + m) maxr c' (cells ++ new_rcells (Z.to_nat m) inp).
Proof.
  intros R Hm H.
  pose proof (RRep_off_len _ _ _ _ R) as [OL N0].
  pose proof (RRep_data_len _ _ _ _ R) as DL.
  pose proof (rr_n _ _ _ _ R) as N.
  assert (RL : removelast (psums 0 cells) = firstn (Z.to_nat n) (roff c)).
  { rewrite <- (rr_off _ _ _ _ R). apply removelast_firstn. unfold zlen in OL. lia. }
  destruct inp as [[data offs]|]; simpl in H.
  - (* data and offsets supplied *)
    binv H as u Ck H1. binv H1 as heads Th H2. binv H2 as o So H3. binv H3 as len Gl H4.
    binv H4 as c1 Ex H5. binv H5 as src Ts H6. binv H6 as dt Bd H7. binv H7 as o' So' H8.
    inversion H8; subst c'; clear H8.
    destruct (expand_rag_Ok _ _ _ Ex) as (D1 & D2 & D3 & D4 & D5). rewrite D1, D2 in *.
    destruct u. destruct (check_offsets_spec _ _ Hm Ck) as (Lo & (rest & Hd) & Mo).
    apply take_exact_Ok in Th as [_ ->]. apply take_exact_Ok in Ts as [Rl ->].
    apply (get_Ok_nth _ _ _ 0) in Gl as [_ Gl].
    set (offs' := firstn (S (Z.to_nat m)) offs) in *.
    assert (Lo' : length offs' = S (Z.to_nat m)) by (unfold offs'; rewrite firstn_length; unfold zlen in Lo; lia).
    assert (La : last offs' 0 = len).
    { rewrite (last_nth _ _ _ Lo'). unfold offs'. rewrite nth_firstn_lt by lia. exact Gl. }
    assert (LaD : last offs' 0 <= zlen data) by lia.
    destruct (psums_unpack data offs' 0 rest Hd (Z.le_refl 0) Mo LaD) as [P1 P2].
    rewrite La in P2.
    set (nc := unpack data offs') in *.
    assert (Csrc : concat nc = firstn (Z.to_nat len) data).
    { rewrite P2. unfold slice. change (Z.to_nat 0) with 0%nat. rewrite skipn_O. f_equal. lia. }
    assert (Hh : firstn (Z.to_nat m) offs ++ [len] = offs').
    { unfold offs'. rewrite (firstn_snoc_nth _ _ 0) by (unfold zlen in Lo; lia). rewrite Gl. reflexivity. }
    (* the offsets written *)
    assert (Bn : 0 <= n <= zlen (roff c)) by lia.
    destruct (store_seq_blit _ _ _ _ _ So Bn) as [-> _].
    set (heads := firstn (Z.to_nat m) offs) in *.
    assert (Lh : length heads = Z.to_nat m) by (unfold heads; rewrite firstn_length; unfold zlen in Lo; lia).
    set (mid := map (fun x : Z => rlen c + x) heads) in *.
    assert (Lmid : length mid = Z.to_nat m) by (unfold mid; rewrite map_length; exact Lh).
    set (o := firstn (Z.to_nat n) (roff c) ++ mid ++ skipn (Z.to_nat n + length mid) (roff c)) in *.
    assert (Lpre : length (firstn (Z.to_nat n) (roff c)) = Z.to_nat n) by (rewrite firstn_length; unfold zlen in OL; lia).
    assert (Bo : 0 <= n + m <= zlen o).
    { unfold o. rewrite !zlen_app, zlen_skipn. unfold zlen. rewrite Lpre, Lmid. lia. }
    assert (Fo : firstn (Z.to_nat (n + m)) o = firstn (Z.to_nat n) (roff c) ++ mid).
    { unfold o. rewrite app_assoc. apply firstn_app_exact. rewrite app_length, Lpre, Lmid. lia. }
    assert (Zlen : 0 <= len) by lia.
    constructor; cbn [rdata rlen rmax rincr roff].
    + rewrite zlen_app, N. unfold new_rcells. fold offs'. fold nc.
      unfold zlen. unfold nc. rewrite unpack_length, Lo'. lia.
    + rewrite (store_firstn_upto _ _ _ _ _ So' Bo). rewrite Fo.
      unfold new_rcells. fold offs'. fold nc.
      rewrite psums_app, RL. rewrite <- (rr_len _ _ _ _ R).
      replace (0 + rlen c) with (rlen c + 0) by lia. rewrite psums_shift, P1, <- Hh.
      rewrite map_app. simpl. rewrite <- app_assoc. reflexivity.
    + unfold new_rcells. fold offs'. fold nc. rewrite concat_app, zlen_app, Csrc, <- (rr_len _ _ _ _ R).
      rewrite zlen_firstn. lia.
    + unfold new_rcells. fold offs'. fold nc. rewrite concat_app, Csrc, <- (rr_data _ _ _ _ R).
      replace (Z.to_nat (rlen c + len)) with (Z.to_nat (rlen c) + length (firstn (Z.to_nat len) data))%nat
        by (rewrite firstn_length; unfold zlen in Rl; lia).
      apply (blit_firstn_upto _ _ _ _ _ Bd DL).
    + rewrite (blit_zlen _ _ _ _ _ Bd DL). apply blit_Ok in Bd; [|assumption]. destruct Bd as [_ C].
      pose proof (rr_capd _ _ _ _ R). lia.
    + destruct (store_zlen _ _ _ _ _ So' Bo) as [Z1 C]. rewrite Z1.
      assert (zlen o <= maxr + 1).
      { unfold o. rewrite !zlen_app, zlen_skipn. unfold zlen at 1 2. rewrite Lpre, Lmid.
        pose proof (rr_capo _ _ _ _ R). unfold zlen in *. lia. }
      lia.
    + rewrite D3. apply (rr_incr _ _ _ _ R).
  - (* column not supplied: m empty cells *)
    binv H as o So H1. binv H1 as o' So' H2. inversion H2; subst c'; clear H2.
    assert (Bn : 0 <= n + 1 <= zlen (roff c)) by lia.
    destruct (store_seq_blit _ _ _ _ _ So Bn) as [-> _].
    set (mid := repeat (rlen c) (Z.to_nat m)) in *.
    assert (Lmid : length mid = Z.to_nat m) by (unfold mid; apply repeat_length).
    set (o := firstn (Z.to_nat (n + 1)) (roff c) ++ mid ++ skipn (Z.to_nat (n + 1) + length mid) (roff c)) in *.
    assert (Lpre : length (firstn (Z.to_nat (n + 1)) (roff c)) = Z.to_nat (n + 1)) by (rewrite firstn_length; unfold zlen in OL; lia).
    assert (Lo : n + 1 + m <= zlen o).
    { unfold o. rewrite !zlen_app, zlen_skipn. unfold zlen. rewrite Lpre, Lmid. lia. }
    assert (Fo : firstn (Z.to_nat (n + m) + 1) o = firstn (Z.to_nat (n + 1)) (roff c) ++ mid).
    { unfold o. rewrite app_assoc. apply firstn_app_exact. rewrite app_length, Lpre, Lmid. lia. }
    assert (Bo : 0 <= n + m <= zlen o) by lia.
    assert (Last : nth (Z.to_nat (n + m)) o 0 = rlen c).
    { rewrite <- (nth_firstn_lt _ _ (Z.to_nat (n + m) + 1)) by lia. rewrite Fo.
      destruct (Z.eq_dec m 0) as [->|Nz].
      - unfold mid. simpl. rewrite app_nil_r. rewrite Z.add_0_r.
        rewrite nth_firstn_lt by lia.
        rewrite <- (nth_firstn_lt _ _ (S (Z.to_nat n))) by lia.
        rewrite (rr_off _ _ _ _ R), psums_nth by (unfold zlen in N; lia).
        rewrite firstn_all2 by (unfold zlen in N; lia). rewrite (rr_len _ _ _ _ R). lia.
      - rewrite app_nth2 by lia. rewrite Lpre.
        rewrite (nth_indep _ 0 (rlen c)) by lia. unfold mid. apply nth_repeat. }
    assert (So'' : o' = o).
    { unfold store in So'. apply blit_Ok in So'; [|assumption]. destruct So' as [-> _].
      simpl length. rewrite <- (firstn_skipn (Z.to_nat (n + m)) o) at 3.
      f_equal.
      assert (E : skipn (Z.to_nat (n + m)) o = rlen c :: skipn (Z.to_nat (n + m) + 1) o).
      { rewrite <- Last. apply skipn_nth_cons. unfold zlen in Lo. lia. }
      rewrite E. reflexivity. }
    subst o'.
    constructor; cbn [rdata rlen rmax rincr roff].
    + rewrite zlen_app, N. unfold new_rcells. rewrite zlen_repeat. lia.
    + unfold new_rcells. rewrite psums_app, RL, <- (rr_len _ _ _ _ R), Z.add_0_l, psums_repeat_nil.
      replace (S (Z.to_nat (n + m))) with (Z.to_nat (n + m) + 1)%nat by lia. rewrite Fo.
      replace (Z.to_nat (n + 1)) with (S (Z.to_nat n)) by lia.
      rewrite (firstn_snoc_nth _ _ 0) by (unfold zlen in OL; lia).
      rewrite <- app_assoc. f_equal. simpl. f_equal.
      rewrite <- (nth_firstn_lt _ _ (S (Z.to_nat n))) by lia.
      rewrite (rr_off _ _ _ _ R), psums_nth by (unfold zlen in N; lia).
      rewrite firstn_all2 by (unfold zlen in N; lia). rewrite (rr_len _ _ _ _ R). lia.
    + unfold new_rcells. rewrite concat_app, concat_repeat_nil, app_nil_r. apply (rr_len _ _ _ _ R).
    + unfold new_rcells. rewrite concat_app, concat_repeat_nil, app_nil_r. apply (rr_data _ _ _ _ R).
    + apply (rr_capd _ _ _ _ R).
    + assert (zlen o <= maxr + 1); [|lia].
      destruct (store_zlen _ _ _ _ _ So' Bo) as [Z1 C].
      unfold o in *. rewrite !zlen_app, zlen_skipn in *. unfold zlen at 1 2. rewrite Lpre, Lmid.
      pose proof (rr_capo _ _ _ _ R). unfold zlen in *.
      destruct (Z.eq_dec m 0); lia.
    + apply (rr_incr _ _ _ _ R).
Qed.

(* ---------- set_nth ---------- *)
Lemma set_nth_length {A} (l : list A) : forall i a, length (set_nth l i a) = length l.
Proof. induction l as [|x l IH]; intros [|i] a; simpl; auto. Qed.

Lemma set_nth_same {A} (l : list A) : forall i a, (i < length l)%nat -> nth_error (set_nth l i a) i = Some a.
Proof. induction l as [|x l IH]; intros [|i] a H; simpl in *; try lia; auto. apply IH. lia. Qed.

Lemma set_nth_other {A} (l : list A) : forall i k a, i <> k -> nth_error (set_nth l i a) k = nth_error l k.
Proof.
  induction l as [|x l IH]; intros [|i] [|k] a H; simpl; auto; try congruence.
Qed.

(* ---------- all ragged columns, in the table's own order ---------- *)
Lemma append_ragged_rep n maxr m inputs (cellsf : nat -> list (list Z)) : 0 <= m ->
  forall order rc rc',
  append_ragged n maxr m rc inputs order = (rc', Ok tt) ->
  NoDup order ->
  (forall j c, In j order -> nth_error rc j = Some c -> RRep n maxr c (cellsf j)) ->
  length rc' = length rc /\
  forall j c', nth_error rc' j = Some c' ->
    (In j order -> exists inp, nth_error inputs j = Some inp /\
                   RRep (n + m) maxr c' (cellsf j ++ new_rcells (Z.to_nat m) inp)) /\
    (~ In j order -> nth_error rc j = Some c').
Proof.
  intros Hm. induction order as [|j order IH]; intros rc rc' H ND P; simpl in H.
  - inversion H; subst. split; [reflexivity|]. intros j c' Hj. split; [intros []|auto].
  - destruct (nth_error rc j) as [c|] eqn:Hc; [|discriminate].
    destruct (nth_error inputs j) as [inp|] eqn:Hi; [|discriminate].
    destruct (rag_append n maxr m c inp) as [c1| | |] eqn:A; try discriminate.
    inversion ND as [|? ? Nin ND']; subst.
    assert (Lj : (j < length rc)%nat) by (apply nth_error_Some; congruence).
    destruct (IH _ _ H ND') as [L Q].
    { intros k c0 Hk Hc0. assert (j <> k) by (intros ->; contradiction).
      rewrite set_nth_other in Hc0 by assumption. apply (P k c0); [right; assumption | assumption]. }
    rewrite set_nth_length in L. split; [assumption|].
    intros k c' Hk. destruct (Q _ _ Hk) as [Q1 Q2]. split.
    + intros [<-|Hin]; [|apply Q1; assumption].
      specialize (Q2 Nin). rewrite set_nth_same in Q2 by assumption. inversion Q2; subst c'.
      exists inp. split; [assumption|].
      apply (RRep_append _ _ _ c); [apply (P j c); [left; reflexivity | assumption] | assumption | assumption].
    + intros Hn. assert (j <> k) by (intros ->; apply Hn; left; reflexivity).
      assert (~ In k order) by (intros X; apply Hn; right; assumption).
      specialize (Q2 H1). rewrite set_nth_other in Q2 by assumption. exact Q2.
Qed.

Definition order_ok (d : tdesc) : Prop :=
  NoDup (td_order d) /\ forall j, (j < td_nr d)%nat <-> In j (td_order d).

Lemma order_ok_all : order_ok d_individuals /\ order_ok d_nodes /\ order_ok d_edges /\
  order_ok d_migrations /\ order_ok d_sites /\ order_ok d_mutations /\ order_ok d_populations /\
  order_ok d_provenances.
Proof.
  unfold order_ok; simpl; repeat split;
    try (repeat constructor; simpl; intuition lia);
    try (intros; simpl in *; intuition lia).
Qed.

Lemma mk_rows_shape d m fcs rcs :
  length fcs = length (td_kinds d) -> length rcs = td_nr d ->
  Forall (fun r => row_ok d r = true) (mk_rows m fcs rcs).
Proof.
  intros Lf Lr. apply Forall_forall. intros r Hr. unfold mk_rows in Hr.
  apply in_map_iff in Hr as (i & <- & _). unfold row_ok. simpl.
  rewrite !map_length, Lf, Lr, !Nat.eqb_refl. reflexivity.
Qed.

(* ---------- (g) append_columns at the C level ---------- *)
Theorem append_columns_c_rep d t rows m cs t' :
  TRep d t rows -> order_ok d -> 0 <= m -> length (snd cs) = td_nr d ->
  append_columns_c d t m cs = (t', Ok tt) ->
  TRep d t' (rows ++ rows_of_cols (Z.to_nat m) cs).
Proof.
  intros R [ND Oall] Hm Lin H. unfold append_columns_c in H.
  destruct (expand_main t m) as [t1| | |] eqn:E; try (inversion H; fail).
  destruct (expand_main_Ok _ _ _ E) as (N1 & I1 & F1 & R1 & M1 & C1).
  rewrite N1, F1, R1, I1 in *.
  destruct (map2M _ (fcols t) (fst cs)) as [fc| | |] eqn:Ef; try (inversion H; fail).
  destruct (append_ragged (nrows t) (maxrows t1) m (rcols t) (snd cs) (td_order d)) as [rc st] eqn:Er.
  destruct st as [[]| | |]; inversion H; subst t'; clear H.
  destruct (map2M_Ok _ _ _ _ Ef) as (Lf & Lf' & Pf).
  destruct (append_ragged_rep _ _ _ _ (rcol_of rows) Hm _ _ _ Er ND) as [Lr Pr].
  { intros j c _ Hc. eapply RRep_mono; [apply (tr_r _ _ _ R _ _ Hc) | assumption]. }
  pose proof (tr_n _ _ _ R) as N.
  set (X := rows_of_cols (Z.to_nat m) cs).
  assert (LX : length X = Z.to_nat m) by apply mk_rows_length.
  constructor; cbn [nrows maxrows rowincr fcols rcols].
  - rewrite zlen_app, N. unfold zlen. rewrite LX. lia.
  - lia.
  - apply (tr_incr _ _ _ R).
  - rewrite Lf. apply (tr_nf _ _ _ R).
  - rewrite Lr. apply (tr_nr _ _ _ R).
  - apply Forall_app. split; [apply (tr_shape _ _ _ R)|].
    apply mk_rows_shape; [rewrite Lf'; apply (tr_nf _ _ _ R) | rewrite map_length; exact Lin].
  - intros j buf' Hj.
    destruct (nth_error_same_length (fcols t) _ _ _ Lf Hj) as [a Ha].
    destruct (Pf _ _ Ha) as (vals & c & Hb & Hc & Hs). rewrite Hj in Hc. inversion Hc; subst c; clear Hc.
    binv Hs as src Ts Bl. apply take_exact_Ok in Ts as [Rm ->].
    pose proof (tr_f _ _ _ R _ _ Ha) as F. pose proof (FRep_bounds _ _ _ _ F) as B.
    rewrite fcol_of_app. unfold X, rows_of_cols.
    rewrite (fcol_of_mk_rows _ _ _ _ _ Hb) by (unfold zlen in Rm; lia).
    set (src := firstn (Z.to_nat m) vals) in *.
    assert (Ls : length src = Z.to_nat m) by (unfold src; rewrite firstn_length; unfold zlen in Rm; lia).
    constructor.
    + replace (Z.to_nat (nrows t + m)) with (Z.to_nat (nrows t) + length src)%nat by lia.
      rewrite (blit_firstn_upto _ _ _ _ _ Bl B). rewrite (fr_cells _ _ _ _ F). reflexivity.
    + rewrite zlen_app, (fr_len _ _ _ _ F). unfold zlen. rewrite Ls. lia.
    + rewrite (blit_zlen _ _ _ _ _ Bl B). apply blit_Ok in Bl; [|assumption]. destruct Bl as [_ C].
      pose proof (fr_cap _ _ _ _ F). lia.
  - intros j c' Hj.
    assert (Hjn : (j < td_nr d)%nat).
    { rewrite <- (tr_nr _ _ _ R), <- Lr. apply nth_error_Some. congruence. }
    destruct (Pr _ _ Hj) as [Q _]. destruct (Q (proj1 (Oall j) Hjn)) as (inp & Hi & RR).
    rewrite rcol_of_app. unfold X, rows_of_cols.
    assert (Ln : length (new_rcells (Z.to_nat m) inp) = Z.to_nat m).
    { pose proof (rr_n _ _ _ _ RR) as Z1. rewrite zlen_app in Z1.
      destruct (nth_error_same_length (rcols t) _ _ _ Lr Hj) as [c0 Hc0].
      pose proof (rr_n _ _ _ _ (tr_r _ _ _ R _ _ Hc0)) as Z2.
      unfold zlen in *. lia. }
    rewrite (rcol_of_mk_rows _ _ _ _ (new_rcells (Z.to_nat m) inp)); [exact RR | | exact Ln].
    rewrite nth_error_map, Hi. reflexivity.
Qed.

(* ---------- a fresh table ---------- *)
Lemma nth_error_repeat {A} (a : A) n j x : nth_error (repeat a n) j = Some x -> x = a.
Proof. intros H. apply nth_error_In in H. apply repeat_spec in H. exact H. Qed.

Lemma init_rep d incr : 0 <= incr -> TRep d (init d incr) [].
Proof.
  intros Hi. unfold init. constructor; cbn [nrows maxrows rowincr fcols rcols].
  - reflexivity.
  - lia.
  - exact Hi.
  - apply map_length.
  - apply repeat_length.
  - constructor.
  - intros j buf Hj. apply nth_error_In in Hj. apply in_map_iff in Hj as (k & <- & _).
    constructor; [reflexivity | reflexivity | unfold zlen; simpl; lia].
  - intros j c Hj. apply nth_error_repeat in Hj. subst c. unfold init_rag.
    constructor; cbn [rdata rlen rmax rincr roff]; try reflexivity; unfold zlen; simpl; lia.
Qed.

(* ---------- Python level: append_columns / set_columns ---------- *)
Lemma parse_ragged_nonneg md bug inputs : forall j nr n,
  (match nr with Some x => 0 <= x | None => True end) ->
  parse_ragged md bug j nr inputs = Ok (Some n) -> 0 <= n.
Proof.
  induction inputs as [|inp inputs IH]; intros j nr n Hnr H; simpl in H.
  - inversion H; subst. exact Hnr.
  - destruct inp as [[data offs]|]; [|eapply IH; eassumption].
    match type of H with (if ?c then _ else _) = _ => destruct c end.
    + destruct (zlen offs =? 0) eqn:Z0; [discriminate|]. apply Z.eqb_neq in Z0.
      binv H as last G H1. destruct (negb (last =? zlen data)); [discriminate|].
      apply (IH (S j) (Some (zlen offs - 1)) n); [|exact H1]. simpl. pose proof (zlen_nonneg offs). lia.
    + destruct nr as [x|]; [|discriminate].
      destruct (negb (zlen offs =? x + 1)); [discriminate|].
      binv H as last G H1. destruct (negb (last =? zlen data)); [discriminate|].
      apply (IH (S j) (Some x) n Hnr H1).
Qed.

Lemma parse_cols_Ok d cs n : parse_cols d cs = Ok n -> 0 <= n /\ length (snd cs) = td_nr d.
Proof.
  unfold parse_cols. intros H.
  match type of H with (if negb ?c then _ else _) = _ => destruct c; simpl in H; [|discriminate] end.
  match type of H with (if negb ?c then _ else _) = _ => destruct c eqn:Sh; simpl in H; [|discriminate] end.
  apply andb_true_iff in Sh as [_ Sh]. apply Nat.eqb_eq in Sh.
  binv H as nr P H1. destruct nr as [x|]; [|discriminate]. inversion H1; subst x. split; [|exact Sh].
  eapply parse_ragged_nonneg; [|exact P]. destruct (fst cs); [exact I | apply zlen_nonneg].
Qed.

Lemma append_columns_c_gen_ok atomic d t m cs t' :
  append_columns_c_gen atomic d t m cs = (t', Ok tt) -> append_columns_c d t m cs = (t', Ok tt).
Proof.
  unfold append_columns_c_gen. destruct atomic; [|auto].
  destruct (precheck_offsets m (snd cs)); simpl; intros H; try exact H; inversion H.
Qed.

(* whichever variant of the code (pinned / F14 repaired) *)
Theorem append_columns_gen_rep bchk atomic d t rows cs t' :
  TRep d t rows -> order_ok d -> append_columns_gen bchk atomic d t cs = (t', Ok tt) ->
  exists m, parse_cols d cs = Ok m /\ TRep d t' (rows ++ rows_of_cols (Z.to_nat m) cs).
Proof.
  intros R O H. unfold append_columns_gen in H.
  destruct (parse_cols d cs) as [m| | |] eqn:P; try (inversion H; fail).
  destruct (parse_cols_Ok _ _ _ P) as [Hm L]. exists m. split; [reflexivity|].
  destruct (if bchk then precheck_offsets m (snd cs) else Ok tt); try (inversion H; fail).
  apply append_columns_c_gen_ok in H.
  eapply append_columns_c_rep; eassumption.
Qed.

Theorem set_columns_gen_rep bchk atomic d t rows cs t' :
  TRep d t rows -> order_ok d -> set_columns_gen bchk atomic d t cs = (t', Ok tt) ->
  exists m, parse_cols d cs = Ok m /\ TRep d t' (rows_of_cols (Z.to_nat m) cs).
Proof.
  intros R O H. unfold set_columns_gen in H.
  destruct (parse_cols d cs) as [m| | |] eqn:P; try (inversion H; fail).
  destruct (parse_cols_Ok _ _ _ P) as [Hm L]. exists m. split; [reflexivity|].
  destruct (if bchk then precheck_offsets m (snd cs) else Ok tt); try (inversion H; fail).
  destruct (clear t) as [t0| | |] eqn:C; try (inversion H; fail).
  pose proof (clear_rep _ _ _ _ R C) as R0.
  apply append_columns_c_gen_ok in H.
  apply (append_columns_c_rep _ _ _ _ _ _ R0 O Hm L H).
Qed.

Theorem append_columns_rep d t rows cs t' :
  TRep d t rows -> order_ok d -> append_columns d t cs = (t', Ok tt) ->
  exists m, parse_cols d cs = Ok m /\ TRep d t' (rows ++ rows_of_cols (Z.to_nat m) cs).
Proof. apply append_columns_gen_rep. Qed.

Theorem set_columns_rep d t rows cs t' :
  TRep d t rows -> order_ok d -> set_columns d t cs = (t', Ok tt) ->
  exists m, parse_cols d cs = Ok m /\ TRep d t' (rows_of_cols (Z.to_nat m) cs).
Proof. apply set_columns_gen_rep. Qed.

(* tsk_*_table_copy: the copy stands for the same rows *)
Theorem table_copy_rep d t rows cp :
  TRep d t rows -> order_ok d -> table_copy d t = (cp, Ok tt) -> TRep d cp rows.
Proof.
  intros R O H. unfold table_copy in H.
  destruct (clear (init d 0)) as [t0| | |] eqn:C; try (inversion H; fail).
  pose proof (clear_rep _ _ _ _ (init_rep d 0 (Z.le_refl 0)) C) as R0.
  pose proof (tr_n _ _ _ R) as N. pose proof (zlen_nonneg rows) as Nn.
  assert (L : length (snd (fcols t, map (fun c => Some (rdata c, roff c)) (rcols t))) = td_nr d)
    by (simpl; rewrite map_length; apply (tr_nr _ _ _ R)).
  assert (Hn : 0 <= nrows t) by lia.
  pose proof (append_columns_c_rep _ _ _ _ _ _ R0 O Hn L H) as Rc.
  simpl app in Rc.
  replace (rows_of_cols (Z.to_nat (nrows t)) (fcols t, map (fun c => Some (rdata c, roff c)) (rcols t)))
    with (abs t) in Rc; [rewrite (TRep_abs _ _ _ R) in Rc; exact Rc|].
  unfold abs, rows_of_cols, mk_rows. simpl fst. simpl snd.
  apply map_ext. intros i. f_equal. rewrite !map_map. apply map_ext. intros c. reflexivity.
Qed.

(* ---------- the dimension checks of the binding (repaired code: no descriptor lets
   metadata_offset set num_rows) ---------- *)
Lemma parse_ragged_lengths md inputs : forall j nr n,
  parse_ragged md false j nr inputs = Ok (Some n) ->
  (forall x, nr = Some x -> x = n) /\
  forall data offs, In (Some (data, offs)) inputs ->
    zlen offs = n + 1 /\ get offs n = Ok (zlen data).
Proof.
  induction inputs as [|inp inputs IH]; intros j nr n H; simpl in H.
  - inversion H; subst. split; [intros x E; inversion E; reflexivity | intros ? ? []].
  - destruct inp as [[data offs]|].
    2:{ destruct (IH _ _ _ H) as [A B]. split; [exact A|]. intros d o [X|X]; [discriminate | apply B; exact X]. }
    destruct nr as [x|].
    + simpl in H.
      destruct (zlen offs =? x + 1) eqn:L; simpl in H; [|discriminate]. apply Z.eqb_eq in L.
      binv H as last G H1. destruct (last =? zlen data) eqn:E; simpl in H1; [|discriminate].
      apply Z.eqb_eq in E. subst last.
      destruct (IH _ _ _ H1) as [A B]. specialize (A x eq_refl). subst x.
      split; [intros y Ey; inversion Ey; reflexivity|].
      intros d o [X|X]; [inversion X; subst; auto | apply B; exact X].
    + simpl in H. destruct (zlen offs =? 0) eqn:Z0; [discriminate|].
      binv H as last G H1. destruct (last =? zlen data) eqn:E; simpl in H1; [|discriminate].
      apply Z.eqb_eq in E. subst last.
      destruct (IH _ _ _ H1) as [A B]. specialize (A _ eq_refl). subst n.
      split; [intros y Ey; discriminate|].
      intros d o [X|X]; [inversion X; subst d o; split; [lia | exact G] | apply B; exact X].
Qed.

(* F15 repaired: an accepted column set has num_rows entries in every fixed column and
   num_rows + 1 offsets, ending at the data length, in every supplied ragged column *)
Theorem parse_cols_lengths d cs n :
  td_mdlen_bug d = false -> parse_cols d cs = Ok n ->
  Forall (fun c => zlen c = n) (fst cs) /\
  forall data offs, In (Some (data, offs)) (snd cs) -> zlen offs = n + 1 /\ get offs n = Ok (zlen data).
Proof.
  intros Hb H. unfold parse_cols in H. rewrite Hb in H.
  match type of H with (if negb ?c then _ else _) = _ => destruct c eqn:Fx; simpl in H; [|discriminate] end.
  match type of H with (if negb ?c then _ else _) = _ => destruct c; simpl in H; [|discriminate] end.
  binv H as nr P H1. destruct nr as [x|]; [|discriminate]. inversion H1; subst x; clear H1.
  destruct (parse_ragged_lengths _ _ _ _ _ P) as [A B]. split; [|exact B].
  rewrite forallb_forall in Fx. apply Forall_forall. intros c Hc. specialize (Fx c Hc).
  destruct (fst cs) as [|c0 l] eqn:E; [destruct Hc|]. specialize (A _ eq_refl).
  apply Z.eqb_eq in Fx. lia.
Qed.
