(* C13 — refinement of the row-level operations: add_row, get_row, truncate, clear,
   extend, update_row (in place).  Every lemma has the shape
      TRep d t rows -> op t = Ok t' -> TRep d t' (F rows). *)
From Coq Require Import List ZArith Bool Lia.
From TskVerif Require Import Base.Common C13.Model C13.Lemmas C13.Rep.
Import ListNotations.
Open Scope Z_scope.

(* ---------- growth ---------- *)
Lemma calc_max_rows_ge n m incr add x :
  calc_max_rows n m incr add = Ok x -> n + add <= x /\ m <= x.
Proof.
  unfold calc_max_rows. destruct (check_table_overflow n add); [discriminate|].
  destruct (n + add <=? m) eqn:E.
  - intros H; inversion H; subst. apply Z.leb_le in E. lia.
  - apply Z.leb_gt in E. intros H. bind_inv H. inversion E1; subst. lia.
Qed.

Lemma expand_main_Ok t add t1 :
  expand_main t add = Ok t1 ->
  nrows t1 = nrows t /\ rowincr t1 = rowincr t /\ fcols t1 = fcols t /\ rcols t1 = rcols t /\
  maxrows t <= maxrows t1 /\ nrows t + add <= maxrows t1.
Proof.
  unfold expand_main. intros H. bind_inv H. apply calc_max_rows_ge in E.
  destruct (nrows t + add >? maxrows t) eqn:G; inversion E0; subst; simpl.
  - repeat split; lia.
  - rewrite Z.gtb_ltb in G. apply Z.ltb_ge in G. repeat split; lia.
Qed.

Lemma expand_rag_Ok c add c1 :
  expand_rag c add = Ok c1 ->
  rdata c1 = rdata c /\ rlen c1 = rlen c /\ rincr c1 = rincr c /\ roff c1 = roff c /\ rmax c <= rmax c1.
Proof.
  unfold expand_rag. intros H. bind_inv H.
  destruct (x >? rmax c) eqn:G; inversion E0; subst; simpl.
  - apply Z.gtb_lt in G. repeat split; lia.
  - repeat split; lia.
Qed.

(* ---------- column level ---------- *)
Lemma FRep_store_end n maxr cap buf cells v b :
  FRep n maxr buf cells -> maxr <= cap -> store buf cap n v = Ok b ->
  FRep (n + 1) cap b (cells ++ [v]).
Proof.
  intros F L H. pose proof (FRep_bounds _ _ _ _ F) as B. destruct F as [F1 F2 F3].
  constructor.
  - replace (Z.to_nat (n + 1)) with (S (Z.to_nat n)) by lia.
    rewrite (store_firstn_upto _ _ _ _ _ H B). rewrite F1. reflexivity.
  - rewrite zlen_app, F2. reflexivity.
  - destruct (store_zlen _ _ _ _ _ H B) as [Z1 C]. lia.
Qed.

Lemma RRep_add a n maxr c cells vs c' :
  RRep n maxr c cells -> rag_add a n maxr c vs = Ok c' -> RRep (n + 1) maxr c' (cells ++ [vs]).
Proof.
  intros R H. unfold rag_add in H. binv H as u Eu H1. clear Eu. binv H1 as c1 E H2.
  binv H2 as dt E0 H3. binv H3 as o E1 H4. inversion H4; subst; clear H4.
  destruct (expand_rag_Ok _ _ _ E) as (D1 & D2 & D3 & D4 & D5). rewrite D1, D2, D4 in *.
  pose proof (RRep_off_len _ _ _ _ R) as [OL N0].
  pose proof (RRep_data_len _ _ _ _ R) as DL.
  assert (Bo : 0 <= n + 1 <= zlen (roff c)) by lia.
  constructor; cbn [rdata rlen rmax rincr roff].
  - rewrite zlen_app, (rr_n _ _ _ _ R). reflexivity.
  - rewrite (store_firstn_upto _ _ _ _ _ E1 Bo).
    replace (Z.to_nat (n + 1)) with (S (Z.to_nat n)) by lia.
    rewrite (rr_off _ _ _ _ R), psums_snoc, (rr_len _ _ _ _ R). reflexivity.
  - rewrite concat_snoc, zlen_app, (rr_len _ _ _ _ R). reflexivity.
  - replace (Z.to_nat (rlen c + zlen vs)) with (Z.to_nat (rlen c) + length vs)%nat by (unfold zlen; lia).
    rewrite (blit_firstn_upto _ _ _ _ _ E0 DL). rewrite (rr_data _ _ _ _ R), concat_snoc. reflexivity.
  - rewrite (blit_zlen _ _ _ _ _ E0 DL). apply blit_Ok in E0 as [_ C]; auto.
    pose proof (rr_capd _ _ _ _ R). lia.
  - destruct (store_zlen _ _ _ _ _ E1 Bo) as [Z1 C].
    pose proof (rr_capo _ _ _ _ R). lia.
  - rewrite D3. apply (rr_incr _ _ _ _ R).
Qed.

(* ---------- fcol_of / rcol_of under list operations ---------- *)
Lemma fcol_of_app rows1 rows2 j : fcol_of (rows1 ++ rows2) j = fcol_of rows1 j ++ fcol_of rows2 j.
Proof. unfold fcol_of. apply map_app. Qed.
Lemma rcol_of_app rows1 rows2 j : rcol_of (rows1 ++ rows2) j = rcol_of rows1 j ++ rcol_of rows2 j.
Proof. unfold rcol_of. apply map_app. Qed.
Lemma fcol_of_firstn rows m j : fcol_of (firstn m rows) j = firstn m (fcol_of rows j).
Proof. unfold fcol_of. symmetry. apply firstn_map. Qed.
Lemma rcol_of_firstn rows m j : rcol_of (firstn m rows) j = firstn m (rcol_of rows j).
Proof. unfold rcol_of. symmetry. apply firstn_map. Qed.

(* ---------- add_row ---------- *)
Theorem add_row_rep d t rows r t' :
  TRep d t rows -> row_ok d r = true -> add_row d t r = Ok t' -> TRep d t' (rows ++ [r]).
Proof.
  intros R Hr H. unfold add_row in H. binv H as t1 E H1. binv H1 as fc E0 H2.
  binv H2 as rc E1 H3. inversion H3; subst; clear H3.
  destruct (expand_main_Ok _ _ _ E) as (N1 & I1 & F1 & R1 & M1 & C1).
  rewrite N1, F1, R1, I1 in *.
  destruct (map2M_Ok _ _ _ _ E0) as (Lf & Lf' & Pf).
  destruct (map2M_Ok _ _ _ _ E1) as (Lr & Lr' & Pr).
  constructor; cbn [nrows maxrows rowincr fcols rcols].
  - rewrite zlen_app, (tr_n _ _ _ R). reflexivity.
  - lia.
  - apply (tr_incr _ _ _ R).
  - rewrite Lf. apply (tr_nf _ _ _ R).
  - rewrite Lr. apply (tr_nr _ _ _ R).
  - apply Forall_app. split; [apply (tr_shape _ _ _ R) | constructor; [assumption | constructor]].
  - intros j buf' Hj.
    destruct (nth_error_same_length (fcols t) _ _ _ Lf Hj) as [a Ha].
    destruct (Pf _ _ Ha) as (b & c & Hb & Hc & Hs). rewrite Hj in Hc. inversion Hc; subst c; clear Hc.
    rewrite fcol_of_app. unfold fcol_of at 2. simpl.
    rewrite (nth_error_nth _ _ 0 Hb).
    eapply FRep_store_end; [apply (tr_f _ _ _ R _ _ Ha) | assumption | exact Hs].
  - intros j c' Hj.
    destruct (nth_error_same_length (rcols t) _ _ _ Lr Hj) as [a Ha].
    destruct (Pr _ _ Ha) as (b & c & Hb & Hc & Hs). rewrite Hj in Hc. inversion Hc; subst c; clear Hc.
    rewrite rcol_of_app. unfold rcol_of at 2. simpl.
    rewrite (nth_error_nth _ _ [] Hb).
    eapply RRep_add; [|exact Hs]. eapply RRep_mono; [apply (tr_r _ _ _ R _ _ Ha) | assumption].
Qed.

(* ---------- get_row ---------- *)
Lemma mapM_pointwise {A B} (f : A -> res B) l : forall l' d,
  length l' = length l ->
  (forall j a, nth_error l j = Some a -> f a = Ok (nth j l' d)) -> mapM f l = Ok l'.
Proof.
  induction l as [|x l IH]; intros [|y l'] d L H; simpl in *; try lia; [reflexivity|].
  rewrite (H 0%nat x eq_refl). simpl.
  rewrite (IH l' d); [reflexivity | lia |]. intros j a Ha. apply (H (S j) a Ha).
Qed.

Lemma concat_firstn_S (cells : list (list Z)) i : (i < length cells)%nat ->
  concat (firstn (S i) cells) = concat (firstn i cells) ++ nth i cells [].
Proof. intros H. rewrite (firstn_snoc_nth _ _ [] H). apply concat_snoc. Qed.

Lemma concat_firstn_prefix (cells : list (list Z)) m :
  firstn (length (concat (firstn m cells))) (concat cells) = concat (firstn m cells).
Proof.
  rewrite <- (firstn_skipn m cells) at 2. rewrite concat_app. apply firstn_app_exact. reflexivity.
Qed.

Lemma RRep_get n maxr c cells i :
  RRep n maxr c cells -> 0 <= i < n -> rag_get c i = Ok (nth (Z.to_nat i) cells []).
Proof.
  intros R Hi. unfold rag_get.
  pose proof (rr_n _ _ _ _ R) as N. pose proof (RRep_data_len _ _ _ _ R) as DL.
  rewrite (RRep_off_nth _ _ _ _ _ R) by lia. simpl.
  rewrite (RRep_off_nth _ _ _ _ _ R) by lia. simpl.
  replace (Z.to_nat (i + 1)) with (S (Z.to_nat i)) by lia.
  assert (Li : (Z.to_nat i < length cells)%nat) by (unfold zlen in N; lia).
  rewrite (concat_firstn_S _ _ Li).
  set (pre := concat (firstn (Z.to_nat i) cells)). set (ci := nth (Z.to_nat i) cells []).
  assert (P : firstn (length (pre ++ ci)) (rdata c) = pre ++ ci).
  { unfold pre, ci. rewrite <- (concat_firstn_S _ _ Li).
    assert (LX : (length (concat (firstn (S (Z.to_nat i)) cells)) <= length (concat cells))%nat).
    { rewrite <- (firstn_skipn (S (Z.to_nat i)) cells) at 2. rewrite concat_app, app_length. lia. }
    rewrite <- (firstn_firstn_le _ _ (Z.to_nat (rlen c))) by (rewrite (rr_len _ _ _ _ R); unfold zlen; lia).
    rewrite (rr_data _ _ _ _ R). apply concat_firstn_prefix. }
  assert (Lp : (length (pre ++ ci) <= length (rdata c))%nat).
  { apply (f_equal (@length Z)) in P. rewrite firstn_length in P. lia. }
  unfold read. rewrite zlen_app.
  pose proof (zlen_nonneg pre). pose proof (zlen_nonneg ci).
  replace (0 <=? zlen pre) with true by (symmetry; apply Z.leb_le; lia).
  replace (zlen pre <=? zlen pre + zlen ci) with true by (symmetry; apply Z.leb_le; lia).
  replace (zlen pre + zlen ci <=? zlen (rdata c)) with true
    by (symmetry; apply Z.leb_le; rewrite app_length in Lp; unfold zlen; lia).
  simpl. f_equal.
  replace (Z.to_nat (zlen pre + zlen ci - zlen pre)) with (length ci) by (unfold zlen; lia).
  replace (Z.to_nat (zlen pre)) with (length pre) by (unfold zlen; lia).
  rewrite <- (firstn_skipn (length (pre ++ ci)) (rdata c)). rewrite P.
  rewrite <- app_assoc. rewrite skipn_app_exact by reflexivity.
  apply firstn_app_exact. reflexivity.
Qed.

Theorem get_row_rep d t rows i :
  TRep d t rows -> 0 <= i < nrows t -> get_row d t i = Ok (nth (Z.to_nat i) rows row0).
Proof.
  intros R Hi. unfold get_row.
  replace ((i <? 0) || (i >=? nrows t)) with false.
  2:{ symmetry. apply orb_false_iff. split; [apply Z.ltb_ge; lia | rewrite Z.geb_leb; apply Z.leb_gt; lia]. }
  pose proof (tr_n _ _ _ R) as N.
  assert (Li : (Z.to_nat i < length rows)%nat) by (unfold zlen in N; lia).
  pose proof (tr_shape _ _ _ R) as S. rewrite Forall_forall in S.
  assert (Ok_i : row_ok d (nth (Z.to_nat i) rows row0) = true) by (apply S, nth_In; assumption).
  apply row_ok_lengths in Ok_i as [Lf Lr].
  remember (nth (Z.to_nat i) rows row0) as ri eqn:Er. destruct ri as [fx rg]. simpl in Lf, Lr.
  rewrite (mapM_pointwise _ _ fx 0).
  - simpl. rewrite (mapM_pointwise _ _ rg []).
    + reflexivity.
    + rewrite (tr_nr _ _ _ R); assumption.
    + intros j c Hj. rewrite (RRep_get _ _ _ _ _ (tr_r _ _ _ R _ _ Hj) Hi).
      unfold rcol_of. rewrite (nth_map_lt _ _ _ row0) by assumption. rewrite <- Er. reflexivity.
  - rewrite (tr_nf _ _ _ R); assumption.
  - intros j buf Hj. pose proof (tr_f _ _ _ R _ _ Hj) as F.
    pose proof (FRep_bounds _ _ _ _ F) as B.
    rewrite (get_in_range _ _ 0) by lia. f_equal.
    rewrite <- (nth_firstn_lt _ _ (Z.to_nat (nrows t))) by lia.
    rewrite (fr_cells _ _ _ _ F). unfold fcol_of.
    rewrite (nth_map_lt _ _ _ row0) by assumption. rewrite <- Er. reflexivity.
Qed.

(* ---------- truncate / clear ---------- *)
Lemma RRep_truncate n maxr c cells m l :
  RRep n maxr c cells -> 0 <= m <= n -> get (roff c) m = Ok l ->
  RRep m maxr (mkRag (rdata c) l (rmax c) (rincr c) (roff c)) (firstn (Z.to_nat m) cells).
Proof.
  intros R Hm G. rewrite (RRep_off_nth _ _ _ _ _ R Hm) in G. inversion G; subst l; clear G.
  pose proof (rr_n _ _ _ _ R) as N.
  assert (Lm : (Z.to_nat m <= length cells)%nat) by (unfold zlen in N; lia).
  constructor; cbn [rdata rlen rmax rincr roff].
  - rewrite zlen_firstn. unfold zlen in *. lia.
  - rewrite <- (firstn_firstn_le _ (S (Z.to_nat m)) (S (Z.to_nat n))) by lia.
    rewrite (rr_off _ _ _ _ R). apply psums_firstn. assumption.
  - reflexivity.
  - rewrite zlen_length.
    assert (length (concat (firstn (Z.to_nat m) cells)) <= length (concat cells))%nat.
    { rewrite <- (firstn_skipn (Z.to_nat m) cells) at 2. rewrite concat_app, app_length. lia. }
    rewrite <- (firstn_firstn_le _ _ (Z.to_nat (rlen c))) by (rewrite (rr_len _ _ _ _ R); unfold zlen; lia).
    rewrite (rr_data _ _ _ _ R). apply concat_firstn_prefix.
  - apply (rr_capd _ _ _ _ R).
  - apply (rr_capo _ _ _ _ R).
  - apply (rr_incr _ _ _ _ R).
Qed.

Lemma In_firstn_in {A} (x : A) n l : In x (firstn n l) -> In x l.
Proof. intros H. rewrite <- (firstn_skipn n l). apply in_or_app. left. exact H. Qed.

Lemma Forall_firstn_ok {A} (P : A -> Prop) n l : Forall P l -> Forall P (firstn n l).
Proof. rewrite !Forall_forall. intros H x Hx. apply H. eapply In_firstn_in; eassumption. Qed.

Theorem truncate_rep d t rows m t' :
  TRep d t rows -> truncate t m = Ok t' -> TRep d t' (firstn (Z.to_nat m) rows).
Proof.
  intros R H. unfold truncate in H.
  destruct ((m <? 0) || (m >? nrows t)) eqn:G; [discriminate|].
  apply orb_false_iff in G as [G1 G2]. apply Z.ltb_ge in G1. rewrite Z.gtb_ltb in G2. apply Z.ltb_ge in G2.
  binv H as rc E H1. inversion H1; subst; clear H1.
  destruct (mapM_Ok _ _ _ E) as [L P].
  pose proof (tr_n _ _ _ R) as N.
  constructor; cbn [nrows maxrows rowincr fcols rcols].
  - rewrite zlen_firstn. lia.
  - pose proof (tr_max _ _ _ R). lia.
  - apply (tr_incr _ _ _ R).
  - apply (tr_nf _ _ _ R).
  - rewrite L. apply (tr_nr _ _ _ R).
  - apply Forall_firstn_ok, (tr_shape _ _ _ R).
  - intros j buf Hj. pose proof (tr_f _ _ _ R _ _ Hj) as F.
    pose proof (FRep_bounds _ _ _ _ F) as B. rewrite fcol_of_firstn.
    constructor.
    + rewrite <- (fr_cells _ _ _ _ F). rewrite (firstn_firstn_le buf (Z.to_nat m) (Z.to_nat (nrows t))) by lia. reflexivity.
    + rewrite zlen_firstn. rewrite (fr_len _ _ _ _ F). lia.
    + apply (fr_cap _ _ _ _ F).
  - intros j c' Hj.
    destruct (nth_error_same_length (rcols t) _ _ _ L Hj) as [c Hc].
    destruct (P _ _ Hc) as (c2 & Hc2 & Hf). rewrite Hj in Hc2. inversion Hc2; subst c2; clear Hc2.
    binv Hf as l G H2. inversion H2; subst; clear H2.
    rewrite rcol_of_firstn. apply (RRep_truncate (nrows t)); [apply (tr_r _ _ _ R _ _ Hc) | lia | exact G].
Qed.

Theorem clear_rep d t rows t' : TRep d t rows -> clear t = Ok t' -> TRep d t' [].
Proof. intros R H. apply (truncate_rep _ _ _ _ _ R H). Qed.

(* ---------- extend ---------- *)
Ltac zero_case R :=
  exists 0%nat; simpl; rewrite app_nil_r; split; [lia|]; split; [exact R|]; split; [constructor|];
  intros X; try discriminate X; try reflexivity.
Lemma extend_loop_rep d idx : forall t rows other orows t' st,
  TRep d t rows -> TRep d other orows ->
  extend_loop d t other idx = (t', st) ->
  exists k, (k <= length idx)%nat /\
    TRep d t' (rows ++ map (fun i => nth (Z.to_nat i) orows row0) (firstn k idx)) /\
    Forall (fun i => 0 <= i < nrows other) (firstn k idx) /\
    (st = Ok tt -> k = length idx).
Proof.
  induction idx as [|i idx IH]; intros t rows other orows t' st R Ro H; simpl in H.
  - inversion H; subst. zero_case R.
  - destruct (get_row d other i) as [r| | |] eqn:G.
    2-4: (inversion H; subst; zero_case R).
    assert (Hi : 0 <= i < nrows other).
    { unfold get_row in G. destruct ((i <? 0) || (i >=? nrows other)) eqn:C; [discriminate|].
      apply orb_false_iff in C as [C1 C2]. apply Z.ltb_ge in C1. rewrite Z.geb_leb in C2.
      apply Z.leb_gt in C2. lia. }
    rewrite (get_row_rep _ _ _ _ Ro Hi) in G. inversion G; subst r; clear G.
    assert (Okr : row_ok d (nth (Z.to_nat i) orows row0) = true).
    { pose proof (tr_shape _ _ _ Ro) as S. rewrite Forall_forall in S. apply S, nth_In.
      pose proof (tr_n _ _ _ Ro) as N. unfold zlen in N. lia. }
    destruct (add_row d t (nth (Z.to_nat i) orows row0)) as [t1| | |] eqn:A.
    2-4: (inversion H; subst; zero_case R).
    pose proof (add_row_rep _ _ _ _ _ R Okr A) as R1.
    destruct (IH _ _ _ _ _ _ R1 Ro H) as (k & Lk & Rk & Fk & Sk).
    exists (S k). simpl. split; [lia|]. split; [rewrite <- app_assoc in Rk; exact Rk|].
    split; [constructor; assumption|]. intros E. rewrite (Sk E). reflexivity.
Qed.

Theorem extend_rep d t rows other orows idx t' st :
  TRep d t rows -> TRep d other orows ->
  extend d t other idx = (t', st) ->
  exists k, (k <= length idx)%nat /\
    TRep d t' (rows ++ map (fun i => nth (Z.to_nat i) orows row0) (firstn k idx)) /\
    Forall (fun i => 0 <= i < nrows other) (firstn k idx) /\
    (st = Ok tt -> k = length idx).
Proof.
  intros R Ro H. unfold extend in H.
  destruct (expand_main t (zlen idx)) as [t1| | |] eqn:E.
  2-4: (inversion H; subst; zero_case R).
  destruct (expand_main_Ok _ _ _ E) as (N1 & I1 & F1 & R1 & M1 & C1).
  assert (Rt1 : TRep d t1 rows).
  { destruct R. constructor; rewrite ?N1, ?I1, ?F1, ?R1; auto; try lia.
    - intros j buf Hj. eapply FRep_mono; eauto.
    - intros j c Hj. eapply RRep_mono; eauto. }
  eapply extend_loop_rep; eassumption.
Qed.
