(* C13 — glue between the model and the correspondence cases written by
   harness/props/c13.py: an operation language, its interpreter over Model.v, and the
   comparison with what the implementation was observed to do.  Definitions only. *)
From Coq Require Import List ZArith Bool Lia.
From TskVerif Require Import Base.Common C13.Model.
Import ListNotations.
Open Scope Z_scope.

Inductive op :=
| OAddRow (r : row)                                  (* add_row, append *)
| OGetItem (i : Z)
| OSlice (start stop : option Z) (step : Z)
| OMask (m : list bool)
| OIds (ids : list Z)
| OIter
| OSetItem (i : Z) (r : row)
| OSetItemFrom (i j : Z)
| OTruncate (n : Z)
| OKeepRows (keep : list bool)
| OClear
| OSetColumns (c : pcols)
| OAppendColumns (c : pcols)
| OPackset (j : nat) (vals : list (list Z))
| OSetAttrFixed (j : nat) (vals : list Z)
| OSetAttrData (j : nat) (vals : list Z)
| OSetAttrOffset (j : nat) (vals : list Z)
| ODropMetadata
| OCopy
| OExtend (other : list row) (idx : list Z).

Definition jrow (r : row) : J := JL [jz_list (fst r); JL (map jz_list (snd r))].
Definition jrows (rs : list row) : J := JL (map jrow rs).

Definition is_okb {A} (r : res A) : bool := match r with Ok _ => true | _ => false end.

(* build a table by add_row (what the harness does for the `other` table of extend) *)
Fixpoint build (d : tdesc) (t : tbl) (rows : list row) : step :=
  match rows with
  | [] => (t, Ok tt)
  | r :: rest => match py_add_row d t r with
                 | (t', Ok _) => build d t' rest
                 | s => s
                 end
  end.

(* one operation: new state, did it succeed, the value it returned *)
Definition exec (d : tdesc) (t : tbl) (o : op) : tbl * bool * J :=
  let of_step (s : step) := (fst s, is_okb (snd s), JN) in
  let of_rows (r : res (list row)) := match r with Ok rs => (t, true, jrows rs) | _ => (t, false, JN) end in
  match o with
  | OAddRow r => match py_add_row d t r with
                 | (t', Ok _) => (t', true, JZ (nrows t))
                 | (t', _) => (t', false, JN)
                 end
  | OGetItem i => match py_getitem d t i with Ok r => (t, true, jrow r) | _ => (t, false, JN) end
  | OSlice a b s => of_rows (py_getitem_idx d t (slice_indices (nrows t) a b s))
  | OMask m => if negb (zlen m =? nrows t) then (t, false, JN)
               else of_rows (py_getitem_idx d t (flatnonzero 0 m))
  | OIds ids => of_rows (py_getitem_idx d t ids)
  | OIter => of_rows (mapM (get_row d t) (zrange 0 (Z.to_nat (nrows t))))
  | OSetItem i r => of_step (py_setitem d t i r)
  | OSetItemFrom i j => match py_getitem d t j with
                        | Ok r => of_step (py_setitem d t i r)
                        | _ => (t, false, JN)
                        end
  | OTruncate n => of_step (py_truncate t n)
  | OKeepRows keep => match py_keep_rows d t keep with
                      | (t', Ok m) => (t', true, jz_list m)
                      | (t', _) => (t', false, JN)
                      end
  | OClear => of_step (lift t (clear t))
  | OSetColumns c => match fill_cols d c with Some cs => of_step (set_columns d t cs) | None => (t, false, JN) end
  | OAppendColumns c => match fill_cols d c with Some cs => of_step (append_columns d t cs) | None => (t, false, JN) end
  | OPackset j vals => of_step (py_packset d t j vals)
  | OSetAttrFixed j vals => of_step (py_setattr_fixed d t j vals)
  | OSetAttrData j vals => of_step (py_setattr_data d t j vals)
  | OSetAttrOffset j vals => of_step (py_setattr_offset d t j vals)
  | ODropMetadata => of_step (py_drop_metadata d t)
  | OCopy => match py_copy d t with
             | (t', Ok _) => (t, true, jrows (abs t'))
             | _ => (t, false, JN)
             end
  | OExtend other idx => match build d (init d 0) other with
                         | (o', Ok _) => of_step (extend d t o' idx)
                         | _ => (t, false, JN)
                         end
  end.

(* what Python can see of a table: num_rows, max_rows, the columns *)
Definition dump : Type := (Z * Z * list (list Z) * list (list Z * list Z))%type.
Definition dump_of (t : tbl) : dump :=
  let n := Z.to_nat (nrows t) in
  (nrows t, maxrows t, map (firstn n) (fcols t),
   map (fun c => (firstn (Z.to_nat (rlen c)) (rdata c), firstn (S n) (roff c))) (rcols t)).

Definition zll_eqb := list_eqb zlist_eqb.
Definition dump_eqb (a b : dump) : bool :=
  let '(n1, m1, f1, r1) := a in let '(n2, m2, f2, r2) := b in
  (n1 =? n2) && (m1 =? m2) && zll_eqb f1 f2
  && list_eqb (fun x y => zlist_eqb (fst x) (fst y) && zlist_eqb (snd x) (snd y)) r1 r2.

(* expected: (succeeded, value (JN when it failed or returns nothing), new dump or None = unchanged) *)
Definition expect : Type := (bool * J * option dump)%type.

(* index of the first step at which model and implementation differ, -1 if none *)
Fixpoint first_diff (d : tdesc) (t : tbl) (k : Z) (ops : list op) (exps : list expect) : Z :=
  match ops, exps with
  | o :: ops', (ok, v, dm) :: exps' =>
      let '(t', ok', v') := exec d t o in
      let want := match dm with Some x => x | None => dump_of t end in
      if Bool.eqb ok ok' && J_eqb v v' && dump_eqb (dump_of t') want
      then first_diff d t' (k + 1) ops' exps' else k
  | _, _ => -1
  end.

Definition c13_check (d : tdesc) (incr : Z) (ops : list op) (exps : list expect) : bool :=
  first_diff d (init d incr) 0 ops exps =? -1.

(* util.pack_* / unpack_*: pack(rows) = (packed, offs) and unpack(packed, offs) = back *)
Definition c13_pack_check (rows : list (list Z)) (packed offs : list Z) (back : list (list Z)) : bool :=
  match pack rows with
  | Ok (p, o) => zlist_eqb p packed && zlist_eqb o offs && zll_eqb (unpack packed offs) back
  | _ => false
  end.
