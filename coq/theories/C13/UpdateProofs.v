(* C13 — refinement of update_row: in place when every ragged length is unchanged, else
   copy + truncate + add_row + extend (tsk_*_table_update_row(_rewrite)). *)
From Coq Require Import List ZArith Bool Lia.
From TskVerif Require Import Base.Common C13.Model C13.Lemmas C13.Rep C13.Bridge C13.OpsProofs C13.ColsProofs.
Import ListNotations.
Open Scope Z_scope.

Definition replace_nth {A} (i : nat) (a : A) (l : list A) : list A :=
  firstn i l ++ a :: skipn (S i) l.

Lemma replace_nth_length {A} i (a : A) l : (i < length l)%nat -> length (replace_nth i a l) = length l.
Proof.
  intros H. unfold replace_nth. rewrite app_length, firstn_length. cbn [length]. rewrite skipn_length. lia.
Qed.

Lemma map_replace_nth {A B} (f : A -> B) i a l : map f (replace_nth i a l) = replace_nth i (f a) (map f l).
Proof. unfold replace_nth. rewrite map_app. cbn [map]. rewrite firstn_map, skipn_map. reflexivity. Qed.

Lemma split_nth {A} (l : list A) i d : (i < length l)%nat ->
  l = firstn i l ++ nth i l d :: skipn (S i) l.
Proof.
  intros H. rewrite <- (firstn_skipn i l) at 1. f_equal.
  replace (S i) with (i + 1)%nat by lia. apply skipn_nth_cons. exact H.
Qed.

(* ---------- fixed column, store inside the used part ---------- *)
Lemma FRep_store_at n maxr buf cells i v b :
  FRep n maxr buf cells -> 0 <= i < n -> store buf maxr i v = Ok b ->
  FRep n maxr b (replace_nth (Z.to_nat i) v cells).
Proof.
  intros F Hi H. pose proof (FRep_bounds _ _ _ _ F) as B. destruct F as [F1 F2 F3].
  assert (Bi : 0 <= i <= zlen buf) by lia.
  destruct (store_zlen _ _ _ _ _ H Bi) as [Zb _].
  unfold store in H. apply blit_Ok in H; [|assumption]. destruct H as [-> _].
  constructor.
  - simpl length. unfold replace_nth. rewrite <- F1.
    rewrite (firstn_firstn_le buf (Z.to_nat i) (Z.to_nat n)) by lia.
    rewrite skipn_firstn_comm.
    replace (firstn (Z.to_nat i) buf ++ [v] ++ skipn (Z.to_nat i + 1) buf)
      with ((firstn (Z.to_nat i) buf ++ [v]) ++ skipn (Z.to_nat i + 1) buf) by (rewrite <- app_assoc; reflexivity).
    rewrite firstn_app_ge by (rewrite app_length, firstn_length; simpl; unfold zlen in Bi; lia).
    rewrite app_length, firstn_length. simpl length.
    replace (Init.Nat.min (Z.to_nat i) (length buf)) with (Z.to_nat i) by (unfold zlen in Bi; lia).
    rewrite <- app_assoc. cbn [app]. do 2 f_equal.
    replace (Z.to_nat i + 1)%nat with (S (Z.to_nat i)) by lia. reflexivity.
  - unfold zlen. rewrite replace_nth_length; [exact F2 | unfold zlen in F2; lia].
  - lia.
Qed.

(* ---------- ragged column, same length ---------- *)
Lemma psums_same_len l1 : forall a x y l2, zlen x = zlen y ->
  psums a (l1 ++ x :: l2) = psums a (l1 ++ y :: l2).
Proof.
  induction l1 as [|c l1 IH]; intros a x y l2 E; simpl.
  - rewrite E. reflexivity.
  - f_equal. apply IH. exact E.
Qed.

Lemma RRep_update n maxr c cells i vs a dt :
  RRep n maxr c cells -> 0 <= i < n -> zlen vs = zlen (nth (Z.to_nat i) cells []) ->
  get (roff c) i = Ok a -> blit (rdata c) (rmax c) a vs = Ok dt ->
  RRep n maxr (mkRag dt (rlen c) (rmax c) (rincr c) (roff c)) (replace_nth (Z.to_nat i) vs cells).
Proof.
  intros R Hi Lv G B.
  pose proof (rr_n _ _ _ _ R) as N. pose proof (RRep_data_len _ _ _ _ R) as DL.
  rewrite (RRep_off_nth _ _ _ _ _ R) in G by lia. inversion G; subst a; clear G.
  assert (Li : (Z.to_nat i < length cells)%nat) by (unfold zlen in N; lia).
  set (k := Z.to_nat i) in *.
  set (pre := concat (firstn k cells)) in *. set (ci := nth k cells []) in *.
  set (post := concat (skipn (S k) cells)).
  assert (Cc : concat cells = pre ++ ci ++ post).
  { rewrite (split_nth cells k [] Li) at 1. rewrite concat_app. reflexivity. }
  set (rest := skipn (Z.to_nat (rlen c)) (rdata c)).
  assert (Dd : rdata c = (pre ++ ci ++ post) ++ rest).
  { rewrite <- Cc, <- (rr_data _ _ _ _ R). unfold rest. symmetry. apply firstn_skipn. }
  assert (Tot : Z.to_nat (rlen c) = length (pre ++ ci ++ post)).
  { rewrite (rr_len _ _ _ _ R), Cc. unfold zlen. lia. }
  assert (Lvs : length vs = length ci) by (unfold zlen in Lv; lia).
  assert (Ba : 0 <= zlen pre <= zlen (rdata c)).
  { pose proof (zlen_nonneg pre). rewrite Dd, !zlen_app. pose proof (zlen_nonneg ci).
    pose proof (zlen_nonneg post). pose proof (zlen_nonneg rest). lia. }
  pose proof (blit_zlen _ _ _ _ _ B Ba) as Zd.
  apply blit_Ok in B; [|assumption]. destruct B as [-> _].
  assert (E1 : firstn (Z.to_nat (zlen pre)) (rdata c) = pre).
  { rewrite Dd. rewrite <- app_assoc. apply firstn_app_exact. unfold zlen. lia. }
  assert (E2 : skipn (Z.to_nat (zlen pre) + length vs) (rdata c) = post ++ rest).
  { rewrite Dd. replace ((pre ++ ci ++ post) ++ rest) with ((pre ++ ci) ++ post ++ rest)
      by (rewrite <- !app_assoc; reflexivity).
    apply skipn_app_exact. rewrite app_length. unfold zlen. lia. }
  rewrite E1, E2 in *.
  constructor; cbn [rdata rlen rmax rincr roff].
  - unfold zlen. rewrite replace_nth_length by assumption. exact N.
  - rewrite (rr_off _ _ _ _ R). rewrite (split_nth cells k [] Li) at 1. unfold replace_nth.
    apply psums_same_len. fold ci. lia.
  - rewrite (rr_len _ _ _ _ R), Cc. unfold replace_nth. rewrite concat_app.
    change (concat (vs :: skipn (S k) cells)) with (vs ++ post). fold pre. rewrite !zlen_app. lia.
  - unfold replace_nth. rewrite concat_app.
    change (concat (vs :: skipn (S k) cells)) with (vs ++ post). fold pre.
    rewrite Tot. rewrite !app_length, <- Lvs.
    replace (pre ++ vs ++ post ++ rest) with ((pre ++ vs ++ post) ++ rest) by (rewrite <- !app_assoc; reflexivity).
    apply firstn_app_exact. rewrite !app_length. reflexivity.
  - rewrite Zd. pose proof (rr_capd _ _ _ _ R).
    assert (zlen pre + zlen vs <= zlen (rdata c)).
    { rewrite Dd, !zlen_app. pose proof (zlen_nonneg post). pose proof (zlen_nonneg rest). lia. }
    lia.
  - apply (rr_capo _ _ _ _ R).
  - apply (rr_incr _ _ _ _ R).
Qed.

(* ---------- rows named by a run of consecutive indexes ---------- *)
Lemma rows_at_zrange (rows : list row) k : forall a, (a + k <= length rows)%nat ->
  map (fun i => nth (Z.to_nat i) rows row0) (zrange (Z.of_nat a) k) = firstn k (skipn a rows).
Proof.
  induction k as [|k IH]; intros a H; [reflexivity|].
  simpl zrange. simpl map. rewrite Nat2Z.id.
  replace (Z.of_nat a + 1) with (Z.of_nat (S a)) by lia. rewrite IH by lia.
  rewrite (skipn_nth_cons rows a row0) by lia. simpl. f_equal.
  replace (a + 1)%nat with (S a) by lia. reflexivity.
Qed.

Lemma fcol_of_replace rows i r j :
  fcol_of (replace_nth i r rows) j = replace_nth i (nth j (fst r) 0) (fcol_of rows j).
Proof. unfold fcol_of. apply (map_replace_nth (fun r0 : row => nth j (fst r0) 0)). Qed.
Lemma rcol_of_replace rows i r j :
  rcol_of (replace_nth i r rows) j = replace_nth i (nth j (snd r) []) (rcol_of rows j).
Proof. unfold rcol_of. apply (map_replace_nth (fun r0 : row => nth j (snd r0) [])). Qed.

Lemma list_eqb_Z_eq a b : list_eqb Z.eqb a b = true -> a = b.
Proof. apply list_eqb_eq. intros x y. apply Z.eqb_eq. Qed.

(* ---------- (d) update_row ---------- *)
Theorem update_row_rep d t rows i r t' :
  TRep d t rows -> order_ok d -> row_ok d r = true ->
  update_row d t i r = (t', Ok tt) ->
  0 <= i < nrows t /\ TRep d t' (replace_nth (Z.to_nat i) r rows).
Proof.
  intros R O Hr H. unfold update_row in H.
  destruct (get_row d t i) as [cur| | |] eqn:G; try (inversion H; fail).
  assert (Hi : 0 <= i < nrows t).
  { unfold get_row in G. destruct ((i <? 0) || (i >=? nrows t)) eqn:C; [discriminate|].
    apply orb_false_iff in C as [C1 C2]. apply Z.ltb_ge in C1. rewrite Z.geb_leb in C2.
    apply Z.leb_gt in C2. lia. }
  split; [exact Hi|].
  rewrite (get_row_rep _ _ _ _ R Hi) in G. inversion G; subst cur; clear G.
  pose proof (tr_n _ _ _ R) as N.
  assert (Li : (Z.to_nat i < length rows)%nat) by (unfold zlen in N; lia).
  destruct (row_ok_lengths _ _ Hr) as [Lrf Lrr].
  destruct (list_eqb Z.eqb _ _) eqn:Same.
  - (* in place *)
    apply list_eqb_Z_eq in Same.
    unfold lift in H.
    match type of H with (match ?e with _ => _ end) = _ => destruct e as [t2| | |] eqn:E end;
      inversion H; subst t2; clear H.
    binv E as fc Ef E1. binv E1 as rc Er E2. inversion E2; subst t'; clear E2.
    destruct (map2M_Ok _ _ _ _ Ef) as (Lf & Lf' & Pf).
    destruct (map2M_Ok _ _ _ _ Er) as (Lr & Lr' & Pr).
    constructor; cbn [nrows maxrows rowincr fcols rcols].
    + unfold zlen. rewrite replace_nth_length by assumption. exact N.
    + apply (tr_max _ _ _ R).
    + apply (tr_incr _ _ _ R).
    + rewrite Lf. apply (tr_nf _ _ _ R).
    + rewrite Lr. apply (tr_nr _ _ _ R).
    + unfold replace_nth. pose proof (tr_shape _ _ _ R) as Sh. apply Forall_app. split.
      * apply Forall_firstn_ok; assumption.
      * constructor; [assumption|]. rewrite Forall_forall in *. intros x Hx. apply Sh.
        rewrite <- (firstn_skipn (S (Z.to_nat i)) rows). apply in_or_app. right. exact Hx.
    + intros j buf' Hj.
      destruct (nth_error_same_length (fcols t) _ _ _ Lf Hj) as [a Ha].
      destruct (Pf _ _ Ha) as (b & c & Hb & Hc & Hs). rewrite Hj in Hc. inversion Hc; subst c; clear Hc.
      rewrite fcol_of_replace, (nth_error_nth _ _ 0 Hb).
      eapply FRep_store_at; [apply (tr_f _ _ _ R _ _ Ha) | exact Hi | exact Hs].
    + intros j c' Hj.
      destruct (nth_error_same_length (rcols t) _ _ _ Lr Hj) as [a Ha].
      destruct (Pr _ _ Ha) as (vs & c & Hb & Hc & Hs). rewrite Hj in Hc. inversion Hc; subst c; clear Hc.
      binv Hs as o Go Hs1. binv Hs1 as dt Bl Hs2. inversion Hs2; subst c'; clear Hs2.
      rewrite rcol_of_replace, (nth_error_nth _ _ [] Hb).
      eapply RRep_update; [apply (tr_r _ _ _ R _ _ Ha) | exact Hi | | exact Go | exact Bl].
      unfold rcol_of. rewrite (nth_map_lt _ _ _ row0) by assumption.
      apply (f_equal (fun l => nth j l 0)) in Same.
      rewrite !(nth_map_lt _ _ _ []) in Same.
      * rewrite (nth_error_nth _ _ [] Hb) in Same. symmetry. exact Same.
      * apply nth_error_Some. congruence.
      * pose proof (tr_shape _ _ _ R) as Sh. rewrite Forall_forall in Sh.
        destruct (row_ok_lengths _ _ (Sh _ (nth_In _ row0 Li))) as [_ L2]. rewrite L2, <- Lrr.
        apply nth_error_Some. congruence.
  - (* rewrite: copy, truncate, add_row, extend with the tail *)
    unfold update_row_rewrite in H.
    destruct (table_copy d t) as [cp stc] eqn:Cp. destruct stc as [[]| | |]; try (inversion H; fail).
    pose proof (table_copy_rep _ _ _ _ R O Cp) as Rc.
    destruct (truncate t i) as [t1| | |] eqn:T; try (inversion H; fail).
    pose proof (truncate_rep _ _ _ _ _ R T) as R1.
    destruct (add_row d t1 r) as [t2| | |] eqn:A; try (inversion H; fail).
    pose proof (add_row_rep _ _ _ _ _ R1 Hr A) as R2.
    destruct (extend_rep _ _ _ _ _ _ _ _ R2 Rc H) as (k & Lk & R3 & _ & Sk).
    specialize (Sk eq_refl). subst k. rewrite firstn_all in R3.
    pose proof (tr_n _ _ _ Rc) as Nc. rewrite N in Nc.
    replace (i + 1) with (Z.of_nat (S (Z.to_nat i))) in R3 by lia.
    rewrite rows_at_zrange in R3 by (unfold zlen in N; lia).
    rewrite (firstn_all2 (skipn (S (Z.to_nat i)) rows)) in R3 by (rewrite skipn_length; unfold zlen in N; lia).
    unfold replace_nth. rewrite <- app_assoc in R3. exact R3.
Qed.

Theorem update_row_out_of_range d t i r :
  i < 0 \/ nrows t <= i -> update_row d t i r = (t, Err (td_oob d)).
Proof.
  intros H. unfold update_row. unfold get_row.
  replace ((i <? 0) || (i >=? nrows t)) with true; [reflexivity|].
  symmetry. apply orb_true_iff. destruct H; [left; apply Z.ltb_lt | right; rewrite Z.geb_leb; apply Z.leb_le]; lia.
Qed.
