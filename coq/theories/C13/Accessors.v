(* C13, second half (immutability; runtime property, labelled partial): the part that is
   *logic* — which accessor hands out a view of the object's own memory and whether that view
   is read-only — as a checked table.  The table (c13_accessors: every array-valued entry of
   TreeSequence_getsetters / Tree_getsetters of python/_tskitmodule.c; c13_cached_arrays: the
   arrays cached by python/tskit/trees.py) is regenerated from the sources on every run by
   translator/facts_c13.py and compared with the live objects by the `accessors` family. *)
From Coq Require Import List ZArith Bool String.
From TskVerif Require Import Gen.Generated.
Import ListNotations.

(* what a write into a handed-out array does to the object it came from *)
Definition object_after_write {A} (h : c13_handout) (object written : A) : A :=
  match h with
  | C13_WriteableView => written      (* the array IS the object's memory *)
  | C13_ReadOnlyView => object        (* numpy refuses the write *)
  | C13_Copy => object                (* the write lands in a private copy *)
  end.

Definition handout_safe (h : c13_handout) : bool :=
  match h with C13_WriteableView => false | _ => true end.

Definition all_handouts : list (string * c13_handout) := List.app c13_accessors c13_cached_arrays.

Lemma all_handouts_safe : forallb (fun p => handout_safe (snd p)) all_handouts = true.
Proof. vm_compute. reflexivity. Qed.

(* no accessor of the table lets a write reach the tree sequence / tree *)
Theorem no_accessor_is_a_writeable_view : forall name h, In (name, h) all_handouts ->
  forall (A : Type) (object written : A), object_after_write h object written = object.
Proof.
  intros name h Hin A object written.
  pose proof (proj1 (forallb_forall _ _) all_handouts_safe (name, h) Hin) as S. simpl in S.
  destruct h; [reflexivity | reflexivity | discriminate].
Qed.

Example accessor_table_nontrivial :
  (10 <=? List.length c13_accessors)%nat = true /\ In ("Tree.parent_array"%string, C13_ReadOnlyView) all_handouts.
Proof. split; [vm_compute; reflexivity | vm_compute; tauto]. Qed.
