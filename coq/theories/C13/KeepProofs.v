(* C13 — keep_rows: the in-place compaction loops (subset_*_column) are correct although
   source and destination are the same buffer, and the reference check rejects exactly
   the dangling references. *)
From Coq Require Import List ZArith Bool Lia.
From TskVerif Require Import Base.Common C13.Model C13.Lemmas C13.Rep C13.Bridge C13.OpsProofs C13.ColsProofs.
Import ListNotations.
Open Scope Z_scope.

Fixpoint filter_mask {A} (keep : list bool) (l : list A) : list A :=
  match keep, l with
  | b :: k, x :: l' => if b then x :: filter_mask k l' else filter_mask k l'
  | _, _ => []
  end.

Lemma filter_mask_map {A B} (f : A -> B) keep : forall l,
  filter_mask keep (map f l) = map f (filter_mask keep l).
Proof.
  induction keep as [|b keep IH]; intros [|x l]; simpl; auto.
  destruct b; simpl; rewrite IH; reflexivity.
Qed.

Lemma count_true_cons b keep : count_true (b :: keep) = (if b then 1 else 0) + count_true keep.
Proof. unfold count_true. simpl. destruct b; [rewrite zlen_cons|]; lia. Qed.

Lemma count_true_nonneg keep : 0 <= count_true keep.
Proof. unfold count_true. apply zlen_nonneg. Qed.

Lemma filter_mask_length {A} keep : forall (l : list A), length keep = length l ->
  zlen (filter_mask keep l) = count_true keep.
Proof.
  induction keep as [|b keep IH]; intros [|x l] H; simpl in H; try discriminate; [reflexivity|].
  rewrite count_true_cons. simpl. destruct b; [rewrite zlen_cons|]; rewrite IH by lia; lia.
Qed.

Lemma filter_mask_all_true {A} n : forall (l : list A), filter_mask (repeat true n) l = firstn n l.
Proof. induction n as [|n IH]; intros [|x l]; simpl; auto. rewrite IH. reflexivity. Qed.

Lemma Forall_filter_mask {A} (P : A -> Prop) keep : forall l, Forall P l -> Forall P (filter_mask keep l).
Proof.
  induction keep as [|b keep IH]; intros [|x l] H; simpl; auto.
  inversion H; subst. destruct b; [constructor; auto | auto].
Qed.

(* ---------- stores and what they leave alone ---------- *)
Lemma store_skipn_ge buf cap k v b m :
  store buf cap k v = Ok b -> 0 <= k <= zlen buf -> (Z.to_nat k + 1 <= m)%nat ->
  skipn m b = skipn m buf.
Proof.
  intros H R M. unfold store in H. apply blit_Ok in H; [|assumption]. destruct H as [-> _].
  simpl length.
  replace (firstn (Z.to_nat k) buf ++ [v] ++ skipn (Z.to_nat k + 1) buf)
    with ((firstn (Z.to_nat k) buf ++ [v]) ++ skipn (Z.to_nat k + 1) buf) by (rewrite <- app_assoc; reflexivity).
  assert (L : length (firstn (Z.to_nat k) buf ++ [v]) = (Z.to_nat k + 1)%nat).
  { rewrite app_length, firstn_length. simpl. unfold zlen in R. lia. }
  rewrite skipn_app_ge by lia. rewrite L, skipn_skipn. f_equal. lia.
Qed.

Lemma store_zlen_inside buf cap k v b :
  store buf cap k v = Ok b -> 0 <= k < zlen buf -> zlen b = zlen buf.
Proof. intros H R. destruct (store_zlen _ _ _ _ _ H ltac:(lia)) as [Z1 _]. lia. Qed.

Lemma nth_skipn {A} (l : list A) : forall j i d, nth i (skipn j l) d = nth (j + i) l d.
Proof.
  induction l as [|x l IH]; intros [|j] i d; simpl; auto. destruct i; reflexivity.
Qed.

Lemma get_of_skipn {A} (b buf : list A) j m : (m <= Z.to_nat j)%nat -> 0 <= j ->
  skipn m b = skipn m buf -> get b j = get buf j.
Proof.
  intros M J E. unfold get. destruct (j <? 0); [reflexivity|].
  replace (Z.to_nat j) with (m + (Z.to_nat j - m))%nat by lia.
  assert (X : forall (l : list A) a c, nth_error l (a + c) = nth_error (skipn a l) c).
  { induction l as [|x l IH]; intros [|a] c; simpl; auto. destruct c; reflexivity. }
  rewrite !X, E. reflexivity.
Qed.

(* ---------- (a) fixed columns: subset_id/flags/double/remap_id_column ---------- *)
Lemma subset_loop_spec (f : Z -> res Z) (g : Z -> Z) cap :
  (forall v v', f v = Ok v' -> v' = g v) ->
  forall keep j k buf buf' k',
  subset_loop f cap keep j k buf = Ok (buf', k') ->
  0 <= k <= j -> j + zlen keep <= zlen buf ->
  k' = k + count_true keep /\
  firstn (Z.to_nat k') buf' =
    firstn (Z.to_nat k) buf ++ map g (filter_mask keep (firstn (length keep) (skipn (Z.to_nat j) buf))) /\
  skipn (Z.to_nat j + length keep) buf' = skipn (Z.to_nat j + length keep) buf /\
  zlen buf' = zlen buf.
Proof.
  intros Fg. induction keep as [|b keep IH]; intros j k buf buf' k' H K J.
  - simpl in H. inversion H; subst. simpl. rewrite app_nil_r.
    unfold count_true; simpl. rewrite Z.add_0_r. auto.
  - rewrite zlen_cons in J. pose proof (zlen_nonneg keep) as Kn.
    assert (Lj : (Z.to_nat j < length buf)%nat) by (unfold zlen in *; lia).
    rewrite count_true_cons.
    simpl length.
    rewrite (skipn_nth_cons buf (Z.to_nat j) 0 Lj). cbn [firstn].
    replace (Z.to_nat j + 1)%nat with (Z.to_nat (j + 1)) by lia.
    destruct b; simpl in H.
    + binv H as v G H1. binv H1 as v' Fv H2. binv H2 as buf1 St H3.
      apply (get_Ok_nth _ _ _ 0) in G as [_ G]. subst v.
      assert (Bk : 0 <= k <= zlen buf) by lia.
      assert (Sk : skipn (Z.to_nat (j + 1)) buf1 = skipn (Z.to_nat (j + 1)) buf)
        by (apply (store_skipn_ge _ _ _ _ _ _ St Bk); lia).
      assert (Z1 : zlen buf1 = zlen buf) by (apply (store_zlen_inside _ _ _ _ _ St); lia).
      destruct (IH _ _ _ _ _ H3) as (E1 & E2 & E3 & E4); [lia | lia |].
      split; [lia|]. split; [|split; [|lia]].
      * rewrite E2, Sk. replace (Z.to_nat (k + 1)) with (S (Z.to_nat k)) by lia.
        rewrite (store_firstn_upto _ _ _ _ _ St Bk). rewrite (Fg _ _ Fv).
        cbn [filter_mask map]. rewrite <- app_assoc. reflexivity.
      * replace (Z.to_nat j + S (length keep))%nat with (Z.to_nat (j + 1) + length keep)%nat by lia.
        rewrite E3. rewrite <- !(skipn_skipn _ (length keep) (Z.to_nat (j + 1))).
        rewrite Sk. reflexivity.
    + destruct (IH _ _ _ _ _ H) as (E1 & E2 & E3 & E4); [lia | lia |].
      split; [lia|]. split; [|split; [|lia]].
      * rewrite E2. cbn [filter_mask]. reflexivity.
      * replace (Z.to_nat j + S (length keep))%nat with (Z.to_nat (j + 1) + length keep)%nat by lia.
        exact E3.
Qed.

Lemma FRep_subset f g n maxr buf cells keep buf' k' :
  (forall v v', f v = Ok v' -> v' = g v) ->
  FRep n maxr buf cells -> zlen keep = n ->
  subset_loop f maxr keep 0 0 buf = Ok (buf', k') ->
  FRep (count_true keep) maxr buf' (map g (filter_mask keep cells)).
Proof.
  intros Fg F Lk H. pose proof (FRep_bounds _ _ _ _ F) as B.
  destruct (subset_loop_spec f g maxr Fg _ _ _ _ _ _ H) as (E1 & E2 & _ & E4); [lia | lia |].
  simpl in E1. subst k'. change (Z.to_nat 0) with 0%nat in E2. rewrite skipn_O in E2. simpl in E2.
  replace (length keep) with (Z.to_nat n) in E2 by (unfold zlen in Lk; lia).
  rewrite (fr_cells _ _ _ _ F) in E2.
  constructor.
  - exact E2.
  - rewrite zlen_map. apply filter_mask_length. rewrite <- (fr_cells _ _ _ _ F), firstn_length.
    unfold zlen in *. lia.
  - rewrite E4. apply (fr_cap _ _ _ _ F).
Qed.

(* ---------- (b) ragged columns: subset_ragged_*_column, subset_remap_ragged_id_column ---------- *)
Lemma copy_loop_as_subset f cap cnt : forall data i offset,
  copy_loop f cap data i offset cnt = subset_loop f cap (repeat true cnt) i offset data.
Proof.
  induction cnt as [|cnt IH]; intros data i offset; simpl; [reflexivity|].
  destruct (get data i); simpl; try reflexivity.
  destruct (f a); simpl; try reflexivity.
  destruct (store data cap offset a0); simpl; try reflexivity. apply IH.
Qed.

Lemma count_true_repeat n : count_true (repeat true n) = Z.of_nat n.
Proof.
  induction n as [|n IH]; [reflexivity|]. change (repeat true (S n)) with (true :: repeat true n).
  rewrite count_true_cons, IH. lia.
Qed.

Lemma skipn_cons_inv {A} (off : list A) : forall j y l d, skipn j off = y :: l ->
  (j < length off)%nat /\ nth j off d = y /\ skipn (S j) off = l.
Proof.
  induction off as [|x off IH]; intros [|j] y l d H; simpl in H; try discriminate.
  - inversion H; subst. simpl. repeat split. lia.
  - destruct (IH _ _ _ d H) as (A1 & A2 & A3). simpl. repeat split; auto. lia.
Qed.

Lemma firstn_skipn_cons {A} (off : list A) j m x xs d :
  firstn (S m) (skipn j off) = x :: xs ->
  (j < length off)%nat /\ nth j off d = x /\ firstn m (skipn (S j) off) = xs.
Proof.
  intros H. destruct (skipn j off) as [|y l] eqn:E; [discriminate|].
  simpl in H. inversion H; subst. destruct (skipn_cons_inv _ _ _ _ d E) as (A1 & A2 & A3).
  rewrite A3. auto.
Qed.

Lemma data_skip (c X data : list Z) a :
  firstn (length c + length X) (skipn a data) = c ++ X ->
  firstn (length c) (skipn a data) = c /\ firstn (length X) (skipn (a + length c) data) = X.
Proof.
  intros H. split.
  - apply (f_equal (firstn (length c))) in H. rewrite firstn_firstn in H.
    rewrite firstn_app_exact in H by reflexivity.
    replace (Init.Nat.min (length c) (length c + length X)) with (length c) in H by lia. exact H.
  - apply (f_equal (skipn (length c))) in H. rewrite skipn_app_exact in H by reflexivity.
    rewrite skipn_firstn_comm in H.
    replace (length c + length X - length c)%nat with (length X) in H by lia.
    rewrite skipn_skipn in H. exact H.
Qed.

Lemma subset_rag_loop_spec (f : Z -> res Z) (g : Z -> Z) capd capo :
  (forall v v', f v = Ok v' -> v' = g v) ->
  forall keep cs j k offset data off data' off' k' offset' aj,
  subset_rag_loop f capd capo keep j k offset data off = Ok (data', off', k', offset') ->
  length cs = length keep ->
  0 <= k <= j -> 0 <= offset <= aj -> (k = j -> offset = aj) ->
  firstn (S (length keep)) (skipn (Z.to_nat j) off) = psums aj cs ->
  firstn (length (concat cs)) (skipn (Z.to_nat aj) data) = concat cs ->
  aj + zlen (concat cs) <= zlen data ->
  k' = k + count_true keep /\
  offset' = offset + zlen (concat (map (map g) (filter_mask keep cs))) /\
  firstn (S (Z.to_nat k')) off' =
    firstn (Z.to_nat k) off ++ psums offset (map (map g) (filter_mask keep cs)) /\
  firstn (Z.to_nat offset') data' =
    firstn (Z.to_nat offset) data ++ concat (map (map g) (filter_mask keep cs)) /\
  zlen data' = zlen data /\ zlen off' = zlen off.
Proof.
  intros Fg. induction keep as [|b keep IH];
    intros cs j k offset data off data' off' k' offset' aj H Lc K Of Al Ho Hd Hz.
  - destruct cs; [|discriminate]. simpl in H. binv H as o St H1. inversion H1; subst data' off' k' offset'; clear H1.
    cbn [length psums] in Ho. destruct (firstn_skipn_cons _ _ _ _ _ 0 Ho) as (Lj & _ & _).
    assert (Bk : 0 <= k <= zlen off) by (unfold zlen; lia).
    simpl. unfold count_true; simpl. rewrite !Z.add_0_r, app_nil_r.
    repeat split; auto.
    + apply (store_firstn_upto _ _ _ _ _ St Bk).
    + apply (store_zlen_inside _ _ _ _ _ St). unfold zlen. lia.
  - destruct cs as [|c cs]; [discriminate|]. simpl in Lc.
    cbn [psums length] in Ho.
    destruct (firstn_skipn_cons _ _ _ _ _ 0 Ho) as (Lj & Nj & Ho').
    destruct (psums_head (aj + zlen c) cs) as [tl Ep].
    pose proof Ho' as Ho''. rewrite Ep in Ho''.
    destruct (firstn_skipn_cons _ _ _ _ _ 0 Ho'') as (Lj1 & Nj1 & _).
    simpl concat in Hd. rewrite app_length in Hd.
    destruct (data_skip _ _ _ _ Hd) as [Dc Dr].
    simpl concat in Hz. rewrite zlen_app in Hz. pose proof (zlen_nonneg (concat cs)) as Ccn.
    assert (Lda : (Z.to_nat aj + length c <= length data)%nat) by (unfold zlen in *; lia).
    rewrite count_true_cons.
    replace (Z.to_nat aj + length c)%nat with (Z.to_nat (aj + zlen c)) in Dr by (unfold zlen; lia).
    replace (S (Z.to_nat j)) with (Z.to_nat (j + 1)) in * by lia.
    pose proof (zlen_nonneg c) as Cn.
    destruct b; simpl in H.
    + binv H as off1 St H1. binv H1 as a Ga H2. binv H2 as e Ge H3. binv H3 as p Cp H4.
      destruct p as [data1 offset1].
      assert (Bk : 0 <= k <= zlen off) by (unfold zlen; lia).
      assert (Zo : zlen off1 = zlen off) by (apply (store_zlen_inside _ _ _ _ _ St); unfold zlen; lia).
      (* what the two reads of the offset column see *)
      assert (Ea : a = aj).
      { destruct (Z.eq_dec k j) as [->|Ne].
        - rewrite (get_in_range _ _ 0) in Ga by (rewrite Zo; unfold zlen; lia). inversion Ga; subst a.
          rewrite <- (nth_firstn_lt _ _ (S (Z.to_nat j))) by lia.
          rewrite (store_firstn_upto _ _ _ _ _ St Bk).
          rewrite app_nth2 by (rewrite firstn_length; unfold zlen in Bk; lia).
          rewrite firstn_length. replace (Z.to_nat j - Init.Nat.min (Z.to_nat j) (length off))%nat with 0%nat by (unfold zlen in Bk; lia).
          simpl. apply Al. reflexivity.
        - assert (Sk : skipn (Z.to_nat k + 1) off1 = skipn (Z.to_nat k + 1) off)
            by (apply (store_skipn_ge _ _ _ _ _ _ St Bk); lia).
          assert (M1 : (Z.to_nat k + 1 <= Z.to_nat j)%nat) by lia. assert (J0 : 0 <= j) by lia.
          rewrite (get_of_skipn _ _ j _ M1 J0 Sk) in Ga.
          rewrite (get_in_range _ _ 0) in Ga by (unfold zlen; lia). inversion Ga. exact Nj. }
      assert (Sk1 : skipn (Z.to_nat (j + 1)) off1 = skipn (Z.to_nat (j + 1)) off)
        by (apply (store_skipn_ge _ _ _ _ _ _ St Bk); lia).
      assert (Ee : e = aj + zlen c).
      { assert (J1 : 0 <= j + 1) by lia.
        rewrite (get_of_skipn _ _ (j + 1) _ (Nat.le_refl _) J1 Sk1) in Ge.
        rewrite (get_in_range _ _ 0) in Ge by (unfold zlen; lia). inversion Ge. exact Nj1. }
      subst a e. replace (Z.to_nat (aj + zlen c - aj)) with (length c) in Cp by (unfold zlen; lia).
      rewrite copy_loop_as_subset in Cp.
      destruct (subset_loop_spec f g capd Fg _ _ _ _ _ _ Cp) as (C1 & C2 & C3 & C4);
        [lia | rewrite zlen_repeat; unfold zlen; lia |].
      rewrite count_true_repeat in C1. rewrite repeat_length in C2, C3.
      rewrite filter_mask_all_true, firstn_firstn, Nat.min_id, Dc in C2.
      replace (Z.to_nat aj + length c)%nat with (Z.to_nat (aj + zlen c)) in C3 by (unfold zlen; lia).
      destruct (IH cs (j + 1) (k + 1) offset1 data1 off1 data' off' k' offset' (aj + zlen c) H4)
        as (I1 & I2 & I3 & I4 & I5 & I6).
      * lia.
      * lia.
      * unfold zlen in *. lia.
      * intros E. assert (Ekj : k = j) by lia. specialize (Al Ekj). unfold zlen in *. lia.
      * rewrite Sk1. exact Ho'.
      * rewrite C3. exact Dr.
      * unfold zlen in *. lia.
      * cbn [filter_mask map concat]. rewrite zlen_app, zlen_map.
        split; [lia|]. split; [unfold zlen in *; lia|]. split; [|split; [|split; lia]].
        -- rewrite I3. replace (Z.to_nat (k + 1)) with (S (Z.to_nat k)) by lia.
           rewrite (store_firstn_upto _ _ _ _ _ St Bk). rewrite <- app_assoc. simpl. rewrite zlen_map.
           replace (offset + zlen c) with offset1 by (unfold zlen in C1; lia). reflexivity.
        -- rewrite I4, C2. rewrite <- app_assoc. reflexivity.
    + destruct (IH cs (j + 1) k offset data off data' off' k' offset' (aj + zlen c) H)
        as (I1 & I2 & I3 & I4 & I5 & I6).
      * lia.
      * lia.
      * lia.
      * intros E. lia.
      * exact Ho'.
      * exact Dr.
      * lia.
      * cbn [filter_mask]. repeat split; auto; lia.
Qed.

(* ---------- column level results ---------- *)
Lemma RRep_subset f g n maxr c cells keep dt off k len :
  (forall v v', f v = Ok v' -> v' = g v) ->
  RRep n maxr c cells -> zlen keep = n ->
  subset_rag_loop f (rmax c) (maxr + 1) keep 0 0 0 (rdata c) (roff c) = Ok (dt, off, k, len) ->
  RRep (count_true keep) maxr (mkRag dt len (rmax c) (rincr c) off) (map (map g) (filter_mask keep cells)).
Proof.
  intros Fg R Lk H.
  pose proof (rr_n _ _ _ _ R) as N. pose proof (RRep_data_len _ _ _ _ R) as DL.
  assert (Lc : length cells = length keep) by (unfold zlen in *; lia).
  destruct (subset_rag_loop_spec f g _ _ Fg keep cells 0 0 0 (rdata c) (roff c) dt off k len 0 H Lc)
    as (E1 & E2 & E3 & E4 & E5 & E6); try lia.
  - change (Z.to_nat 0) with 0%nat. rewrite skipn_O.
    replace (length keep) with (Z.to_nat n) by (unfold zlen in Lk; lia). apply (rr_off _ _ _ _ R).
  - change (Z.to_nat 0) with 0%nat. rewrite skipn_O. rewrite <- (rr_data _ _ _ _ R) at 2. f_equal.
    rewrite (rr_len _ _ _ _ R). unfold zlen. lia.
  - rewrite <- (rr_len _ _ _ _ R). lia.
  - simpl in E1, E2, E3, E4. subst k len.
    constructor; cbn [rdata rlen rmax rincr roff].
    + rewrite zlen_map. apply filter_mask_length. lia.
    + exact E3.
    + reflexivity.
    + exact E4.
    + rewrite E5. apply (rr_capd _ _ _ _ R).
    + rewrite E6. apply (rr_capo _ _ _ _ R).
    + apply (rr_incr _ _ _ _ R).
Qed.

Lemma concat_nil_all_nil {A} (cells : list (list A)) : concat cells = [] -> cells = repeat [] (length cells).
Proof.
  induction cells as [|c cells IH]; simpl; intros H; [reflexivity|].
  apply app_eq_nil in H as [-> H]. rewrite <- IH by assumption. reflexivity.
Qed.

Lemma filter_mask_repeat {A} (a : A) keep : forall n, length keep = n ->
  filter_mask keep (repeat a n) = repeat a (Z.to_nat (count_true keep)).
Proof.
  induction keep as [|b keep IH]; intros n H; simpl in H; subst n; [reflexivity|].
  rewrite count_true_cons. simpl. pose proof (count_true_nonneg keep). destruct b.
  - rewrite IH by reflexivity. replace (Z.to_nat (1 + count_true keep)) with (S (Z.to_nat (count_true keep))) by lia.
    reflexivity.
  - rewrite IH by reflexivity. reflexivity.
Qed.

Lemma firstn_repeat_le {A} (a : A) : forall m n, (m <= n)%nat -> firstn m (repeat a n) = repeat a m.
Proof.
  induction m as [|m IH]; intros [|n] H; simpl; try lia; try reflexivity. rewrite IH by lia. reflexivity.
Qed.

Lemma count_true_le keep : count_true keep <= zlen keep.
Proof.
  induction keep as [|b keep IH]; [unfold count_true, zlen; simpl; lia|].
  rewrite count_true_cons, zlen_cons. destruct b; lia.
Qed.

(* the metadata column of a table without metadata is left alone: all its cells are empty *)
Lemma RRep_skip_empty g n maxr c cells keep :
  RRep n maxr c cells -> zlen keep = n -> rlen c = 0 ->
  RRep (count_true keep) maxr c (map (map g) (filter_mask keep cells)).
Proof.
  intros R Lk Z0. pose proof (rr_n _ _ _ _ R) as N.
  assert (Cn : concat cells = []).
  { pose proof (rr_len _ _ _ _ R) as L. rewrite Z0 in L. destruct (concat cells); [reflexivity|].
    unfold zlen in L; simpl in L; lia. }
  apply concat_nil_all_nil in Cn.
  assert (Lc : length keep = length cells) by (unfold zlen in *; lia).
  rewrite Cn, (filter_mask_repeat _ keep _ Lc).
  set (m := Z.to_nat (count_true keep)).
  assert (Em : map (map g) (repeat [] m) = repeat [] m).
  { clear. induction m; simpl; [reflexivity | rewrite IHm; reflexivity]. }
  rewrite Em.
  pose proof (count_true_le keep) as Le. pose proof (count_true_nonneg keep) as Ge.
  pose proof (rr_off _ _ _ _ R) as Ho. rewrite Cn, psums_repeat_nil in Ho.
  constructor.
  - rewrite zlen_repeat. unfold m. lia.
  - rewrite psums_repeat_nil.
    replace (S (Z.to_nat (count_true keep))) with (S m) by reflexivity.
    rewrite <- (firstn_firstn_le _ (S m) (S (Z.to_nat n))) by (unfold m; lia).
    rewrite Ho. rewrite firstn_repeat_le; [reflexivity|]. unfold m. unfold zlen in *. lia.
  - rewrite concat_repeat_nil. exact Z0.
  - rewrite concat_repeat_nil, Z0. reflexivity.
  - apply (rr_capd _ _ _ _ R).
  - apply (rr_capo _ _ _ _ R).
  - apply (rr_incr _ _ _ _ R).
Qed.

(* ---------- the abstract effect on a row: remap the self-referencing column ---------- *)
Definition remap_val (idm : list Z) (v : Z) : Z :=
  if v =? TSK_NULL then v else nth (Z.to_nat v) idm 0.

Fixpoint map_at {A} (s : nat) (h : A -> A) (l : list A) : list A :=
  match l, s with
  | [], _ => []
  | x :: t, O => h x :: t
  | x :: t, S s' => x :: map_at s' h t
  end.

Definition remap_row (d : tdesc) (idm : list Z) (r : row) : row :=
  match td_selfref d with
  | None => r
  | Some (true, s) => (map_at s (remap_val idm) (fst r), snd r)
  | Some (false, s) => (fst r, map_at s (map (remap_val idm)) (snd r))
  end.

Lemma map_at_length {A} (h : A -> A) l : forall s, length (map_at s h l) = length l.
Proof. induction l as [|x l IH]; intros [|s]; simpl; auto. Qed.

Lemma nth_map_at {A} (h : A -> A) l : forall s j d, (j < length l)%nat ->
  nth j (map_at s h l) d = if Nat.eqb s j then h (nth j l d) else nth j l d.
Proof.
  induction l as [|x l IH]; intros [|s] [|j] d H; simpl in *; try lia; try reflexivity.
  apply IH. lia.
Qed.

Lemma remap_row_ok d idm r : row_ok d r = true -> row_ok d (remap_row d idm r) = true.
Proof.
  unfold row_ok, remap_row. destruct (td_selfref d) as [[[] s]|]; simpl; rewrite ?map_at_length; auto.
Qed.

Definition gf (d : tdesc) (idm : list Z) (j : nat) : Z -> Z :=
  match td_selfref d with
  | Some (true, s) => if Nat.eqb s j then remap_val idm else (fun v => v)
  | _ => fun v => v
  end.
Definition gr (d : tdesc) (idm : list Z) (j : nat) : Z -> Z :=
  match td_selfref d with
  | Some (false, s) => if Nat.eqb s j then remap_val idm else (fun v => v)
  | _ => fun v => v
  end.

Lemma remap_g idm v v' : remap idm v = Ok v' -> v' = remap_val idm v.
Proof.
  unfold remap, remap_val. destruct (v =? TSK_NULL); [intros H; inversion H; reflexivity|].
  intros H. apply (get_Ok_nth _ _ _ 0) in H as [_ H]. symmetry. exact H.
Qed.

Lemma map_id_fun (l : list Z) : map (fun v : Z => v) l = l.
Proof. apply map_id. Qed.

Lemma fst_remap_row d idm r j : (j < length (fst r))%nat ->
  nth j (fst (remap_row d idm r)) 0 = gf d idm j (nth j (fst r) 0).
Proof.
  intros H. unfold remap_row, gf. destruct (td_selfref d) as [[[] s]|]; simpl; try reflexivity.
  rewrite nth_map_at by assumption. destruct (Nat.eqb s j); reflexivity.
Qed.

Lemma snd_remap_row d idm r j : (j < length (snd r))%nat ->
  nth j (snd (remap_row d idm r)) [] = map (gr d idm j) (nth j (snd r) []).
Proof.
  intros H. unfold remap_row, gr. destruct (td_selfref d) as [[[] s]|]; simpl; rewrite ?map_id_fun; try reflexivity.
  rewrite nth_map_at by assumption. destruct (Nat.eqb s j); [reflexivity | rewrite map_id_fun; reflexivity].
Qed.

(* ---------- (e) keep_rows ---------- *)
Theorem keep_rows_rep d t rows keep t' idm :
  TRep d t rows -> zlen keep = nrows t ->
  keep_rows d t keep = Ok (t', idm) ->
  idm = keep_mask_to_id_map keep /\
  TRep d t' (map (remap_row d idm) (filter_mask keep rows)).
Proof.
  intros R Lk H. unfold keep_rows in H.
  binv H as u Chk H1. clear Chk u. binv H1 as fc Ef H2. binv H2 as rc Er H3.
  inversion H3; subst t' idm; clear H3. split; [reflexivity|].
  set (idm := keep_mask_to_id_map keep) in *.
  destruct (mapiM_Ok _ _ _ Ef) as [Lf Pf]. destruct (mapiM_Ok _ _ _ Er) as [Lr Pr].
  pose proof (tr_n _ _ _ R) as N.
  pose proof (tr_shape _ _ _ R) as Sh.
  assert (Lkr : length keep = length rows) by (unfold zlen in *; lia).
  assert (Sh' : Forall (fun r => row_ok d r = true) (filter_mask keep rows)) by (apply Forall_filter_mask; exact Sh).
  constructor; cbn [nrows maxrows rowincr fcols rcols].
  - rewrite zlen_map. apply filter_mask_length. exact Lkr.
  - pose proof (count_true_le keep). pose proof (tr_max _ _ _ R). lia.
  - apply (tr_incr _ _ _ R).
  - rewrite Lf. apply (tr_nf _ _ _ R).
  - rewrite Lr. apply (tr_nr _ _ _ R).
  - apply Forall_forall. intros r Hr. apply in_map_iff in Hr as (r0 & <- & Hr0).
    apply remap_row_ok. rewrite Forall_forall in Sh'. apply Sh'. exact Hr0.
  - intros j buf' Hj.
    destruct (nth_error_same_length (fcols t) _ _ _ Lf Hj) as [a Ha].
    destruct (Pf _ _ Ha) as (b & Hb & Hs). rewrite Hj in Hb. inversion Hb; subst b; clear Hb.
    binv Hs as p Sl Hs1. destruct p as [b k]. inversion Hs1; subst b; clear Hs1.
    assert (Jn : (j < length (td_kinds d))%nat).
    { rewrite <- (tr_nf _ _ _ R). apply nth_error_Some. congruence. }
    assert (E : fcol_of (map (remap_row d idm) (filter_mask keep rows)) j
                = map (gf d idm j) (filter_mask keep (fcol_of rows j))).
    { unfold fcol_of. rewrite filter_mask_map, !map_map. apply map_ext_in. intros r Hr.
      apply fst_remap_row. rewrite Forall_forall in Sh'. destruct (row_ok_lengths _ _ (Sh' _ Hr)) as [L1 _]. lia. }
    rewrite E.
    eapply FRep_subset; [| apply (tr_f _ _ _ R _ _ Ha) | exact Lk | exact Sl].
    unfold gf. destruct (td_selfref d) as [[[] s]|]; try (intros v v' X; inversion X; reflexivity).
    destruct (Nat.eqb s j); [apply remap_g | intros v v' X; inversion X; reflexivity].
  - intros j c' Hj.
    destruct (nth_error_same_length (rcols t) _ _ _ Lr Hj) as [a Ha].
    destruct (Pr _ _ Ha) as (b & Hb & Hs). rewrite Hj in Hb. inversion Hb; subst b; clear Hb.
    assert (E : rcol_of (map (remap_row d idm) (filter_mask keep rows)) j
                = map (map (gr d idm j)) (filter_mask keep (rcol_of rows j))).
    { unfold rcol_of. rewrite filter_mask_map, !map_map. apply map_ext_in. intros r Hr.
      apply snd_remap_row. rewrite Forall_forall in Sh'. destruct (row_ok_lengths _ _ (Sh' _ Hr)) as [_ L2].
      rewrite L2, <- (tr_nr _ _ _ R). apply nth_error_Some. congruence. }
    rewrite E.
    destruct (is_some_eq (td_md d) j && (rlen a =? 0)) eqn:Skip.
    + inversion Hs; subst c'. apply andb_true_iff in Skip as [_ Z0]. apply Z.eqb_eq in Z0.
      apply (RRep_skip_empty _ (nrows t)); [apply (tr_r _ _ _ R _ _ Ha) | exact Lk | exact Z0].
    + binv Hs as p Sl Hs1. destruct p as [[[dt off] k] len]. inversion Hs1; subst c'; clear Hs1.
      eapply RRep_subset; [| apply (tr_r _ _ _ R _ _ Ha) | exact Lk | exact Sl].
      unfold gr. destruct (td_selfref d) as [[[] s]|]; try (intros v v' X; inversion X; reflexivity).
      destruct (Nat.eqb s j); [apply remap_g | intros v v' X; inversion X; reflexivity].
Qed.

(* ---------- the reference check: dangling references are rejected, nothing else ---------- *)
Definition refs_of (d : tdesc) (r : row) : list Z :=
  match td_selfref d with
  | None => []
  | Some (true, s) => [nth s (fst r) 0]
  | Some (false, s) => nth s (snd r) []
  end.

(* a reference is fine when it is NULL or names a row that is kept *)
Definition ref_ok (n : Z) (idm : list Z) (p : Z) : Prop :=
  p = TSK_NULL \/ (0 <= p < n /\ nth (Z.to_nat p) idm TSK_NULL <> TSK_NULL).

Lemma check_ref_spec oob n idm p : zlen idm = n ->
  (check_ref oob n idm p = Ok tt /\ ref_ok n idm p) \/
  (exists c, check_ref oob n idm p = Err c /\ ~ ref_ok n idm p).
Proof.
  intros L. unfold check_ref, ref_ok. destruct (p =? TSK_NULL) eqn:E.
  - apply Z.eqb_eq in E. left. auto.
  - apply Z.eqb_neq in E. destruct ((p <? 0) || (p >=? n)) eqn:B.
    + right. exists oob. split; [reflexivity|]. intros [X|[X _]]; [contradiction|].
      apply orb_true_iff in B as [B|B]; [apply Z.ltb_lt in B | rewrite Z.geb_leb in B; apply Z.leb_le in B]; lia.
    + apply orb_false_iff in B as [B1 B2]. apply Z.ltb_ge in B1. rewrite Z.geb_leb in B2. apply Z.leb_gt in B2.
      rewrite (get_in_range _ _ TSK_NULL) by lia. simpl.
      destruct (nth (Z.to_nat p) idm TSK_NULL =? TSK_NULL) eqn:M.
      * apply Z.eqb_eq in M. right. eexists. split; [reflexivity|]. intros [X|[_ X]]; contradiction.
      * apply Z.eqb_neq in M. left. split; [reflexivity|]. right. split; [lia | exact M].
Qed.

Lemma check_refs_spec oob n idm ps : zlen idm = n ->
  (check_refs oob n idm ps = Ok tt /\ Forall (ref_ok n idm) ps) \/
  (exists c, check_refs oob n idm ps = Err c /\ Exists (fun p => ~ ref_ok n idm p) ps).
Proof.
  intros L. induction ps as [|p ps IH]; simpl.
  - left. split; [reflexivity | constructor].
  - destruct (check_ref_spec oob n idm p L) as [[E O]|(c & E & O)]; rewrite E; simpl.
    + destruct IH as [[E2 O2]|(c & E2 & O2)].
      * left. split; [exact E2 | constructor; assumption].
      * right. exists c. split; [exact E2 | apply Exists_cons_tl; exact O2].
    + right. exists c. split; [reflexivity | apply Exists_cons_hd; exact O].
Qed.

Lemma check_rows_spec cell oob n idm (refs : Z -> list Z) : zlen idm = n ->
  forall keep j, (forall i, j <= i < j + zlen keep -> cell i = Ok (refs i)) ->
  (check_rows cell oob n idm keep j = Ok tt /\
   forall i, (i < length keep)%nat -> nth i keep false = true ->
             Forall (ref_ok n idm) (refs (j + Z.of_nat i))) \/
  (exists c, check_rows cell oob n idm keep j = Err c /\
   exists i, (i < length keep)%nat /\ nth i keep false = true /\
             Exists (fun p => ~ ref_ok n idm p) (refs (j + Z.of_nat i))).
Proof.
  intros L. induction keep as [|b keep IH]; intros j C.
  - left. split; [reflexivity|]. intros i Hi. simpl in Hi. lia.
  - rewrite zlen_cons in C. pose proof (zlen_nonneg keep) as Kn.
    assert (C' : forall i, j + 1 <= i < j + 1 + zlen keep -> cell i = Ok (refs i)) by (intros i Hi; apply C; lia).
    specialize (IH (j + 1) C').
    assert (Shift : forall i, j + 1 + Z.of_nat i = j + Z.of_nat (S i)) by (intros; lia).
    destruct b; simpl.
    + rewrite (C j) by lia. simpl.
      destruct (check_refs_spec oob n idm (refs j) L) as [[E O]|(c & E & O)]; rewrite E; simpl.
      * destruct IH as [[E2 O2]|(c & E2 & i & Hi & Ki & Xi)].
        -- left. split; [exact E2|]. intros [|i] Hi Ki.
           ++ rewrite Z.add_0_r. exact O.
           ++ rewrite <- Shift. apply O2; [simpl in Hi; lia | exact Ki].
        -- right. exists c. split; [exact E2|]. exists (S i). rewrite <- Shift. simpl. repeat split; auto. lia.
      * right. exists c. split; [reflexivity|]. exists 0%nat. rewrite Z.add_0_r. simpl. repeat split; auto. lia.
    + destruct IH as [[E2 O2]|(c & E2 & i & Hi & Ki & Xi)].
      * left. split; [exact E2|]. intros [|i] Hi Ki; [discriminate|].
        rewrite <- Shift. apply O2; [simpl in Hi; lia | exact Ki].
      * right. exists c. split; [exact E2|]. exists (S i). rewrite <- Shift. simpl. repeat split; auto. lia.
Qed.

Lemma Forall_filter_mask_nth {A} (P : A -> Prop) d keep : forall l, length keep = length l ->
  (forall i, (i < length keep)%nat -> nth i keep false = true -> P (nth i l d)) ->
  Forall P (filter_mask keep l).
Proof.
  induction keep as [|b keep IH]; intros [|x l] L H; simpl in *; try discriminate; [constructor|].
  assert (H' : forall i, (i < length keep)%nat -> nth i keep false = true -> P (nth i l d)).
  { intros i Hi Ki. apply (H (S i)); [lia | exact Ki]. }
  destruct b; [constructor; [apply (H 0%nat); [lia | reflexivity] | apply IH; [lia | exact H']] | apply IH; [lia | exact H']].
Qed.

Lemma Exists_filter_mask_nth {A} (P : A -> Prop) d keep : forall l, length keep = length l ->
  forall i, (i < length keep)%nat -> nth i keep false = true -> P (nth i l d) ->
  Exists P (filter_mask keep l).
Proof.
  induction keep as [|b keep IH]; intros [|x l] L i Hi Ki Pi; simpl in *; try lia.
  destruct i as [|i].
  - subst b. apply Exists_cons_hd. exact Pi.
  - assert (E : Exists P (filter_mask keep l)) by (apply (IH l ltac:(lia) i); [lia | exact Ki | exact Pi]).
    destruct b; [apply Exists_cons_tl|]; exact E.
Qed.

Lemma keep_mask_to_id_map_length keep : zlen (keep_mask_to_id_map keep) = zlen keep.
Proof.
  unfold keep_mask_to_id_map. generalize 0. induction keep as [|b keep IH]; intros a; [reflexivity|].
  destruct b; simpl; rewrite !zlen_cons, IH; reflexivity.
Qed.

(* the cells the check reads are the references of the abstract rows *)
Lemma check_cells d t rows :
  TRep d t rows ->
  match td_selfref d with
  | None => True
  | Some (true, s) =>
      forall buf, nth_error (fcols t) s = Some buf ->
      forall i, 0 <= i < nrows t -> (do v <- get buf i; Ok [v]) = Ok (refs_of d (nth (Z.to_nat i) rows row0))
  | Some (false, s) =>
      forall c, nth_error (rcols t) s = Some c ->
      forall i, 0 <= i < nrows t -> rag_get c i = Ok (refs_of d (nth (Z.to_nat i) rows row0))
  end.
Proof.
  intros R. pose proof (tr_n _ _ _ R) as N. unfold refs_of.
  destruct (td_selfref d) as [[[] s]|]; [| |exact I].
  - intros buf Hb i Hi. pose proof (tr_f _ _ _ R _ _ Hb) as F. pose proof (FRep_bounds _ _ _ _ F) as B.
    rewrite (get_in_range _ _ 0) by lia. simpl. do 2 f_equal.
    rewrite <- (nth_firstn_lt _ _ (Z.to_nat (nrows t))) by lia. rewrite (fr_cells _ _ _ _ F).
    unfold fcol_of. apply (nth_map_lt (fun r : row => nth s (fst r) 0) rows (Z.to_nat i) row0 0). unfold zlen in N. lia.
  - intros c Hc i Hi. rewrite (RRep_get _ _ _ _ _ (tr_r _ _ _ R _ _ Hc) Hi). f_equal.
    unfold rcol_of. apply (nth_map_lt (fun r : row => nth s (snd r) []) rows (Z.to_nat i) row0 []). unfold zlen in N. lia.
Qed.

Definition kept_refs_ok (d : tdesc) (n : Z) (idm : list Z) (keep : list bool) (rows : list row) : Prop :=
  Forall (fun r => Forall (ref_ok n idm) (refs_of d r)) (filter_mask keep rows).

(* the outcome of the check phase, in terms of the abstract rows *)
Lemma check_phase d t rows keep :
  TRep d t rows -> zlen keep = nrows t ->
  let idm := keep_mask_to_id_map keep in
  let chk := match td_selfref d with
             | None => Ok tt
             | Some (true, j) =>
                 match nth_error (fcols t) j with
                 | Some buf => check_rows (fun i => do v <- get buf i; Ok [v]) (td_oob d) (nrows t) idm keep 0
                 | None => Err TSK_ERR_BAD_PARAM_VALUE
                 end
             | Some (false, j) =>
                 match nth_error (rcols t) j with
                 | Some c => check_rows (rag_get c) (td_oob d) (nrows t) idm keep 0
                 | None => Err TSK_ERR_BAD_PARAM_VALUE
                 end
             end in
  (chk = Ok tt /\ kept_refs_ok d (nrows t) idm keep rows) \/
  (exists c, chk = Err c /\ (~ kept_refs_ok d (nrows t) idm keep rows \/ c = TSK_ERR_BAD_PARAM_VALUE)).
Proof.
  intros R Lk idm chk. pose proof (tr_n _ _ _ R) as N.
  assert (Li : zlen idm = nrows t) by (unfold idm; rewrite keep_mask_to_id_map_length; exact Lk).
  assert (Lkr : length keep = length rows) by (unfold zlen in *; lia).
  pose proof (check_cells _ _ _ R) as CC.
  assert (Core : forall cell,
     (forall i, 0 <= i < nrows t -> cell i = Ok (refs_of d (nth (Z.to_nat i) rows row0))) ->
     (check_rows cell (td_oob d) (nrows t) idm keep 0 = Ok tt /\ kept_refs_ok d (nrows t) idm keep rows) \/
     (exists c, check_rows cell (td_oob d) (nrows t) idm keep 0 = Err c /\
                (~ kept_refs_ok d (nrows t) idm keep rows \/ c = TSK_ERR_BAD_PARAM_VALUE))).
  { intros cell Hc.
    destruct (check_rows_spec cell (td_oob d) (nrows t) idm
                (fun i => refs_of d (nth (Z.to_nat i) rows row0)) Li keep 0) as [[E O]|(c & E & i & Hi & Ki & Xi)].
    - intros i Hi. apply Hc. lia.
    - left. split; [exact E|]. unfold kept_refs_ok. apply (Forall_filter_mask_nth _ row0 _ _ Lkr).
      intros i Hi Ki. specialize (O i Hi Ki). simpl in O. rewrite Nat2Z.id in O. exact O.
    - right. exists c. split; [exact E|]. left. intros All. unfold kept_refs_ok in All.
      simpl in Xi. rewrite Nat2Z.id in Xi.
      rewrite Forall_forall in All. rewrite Exists_exists in Xi. destruct Xi as (p & Hp & Bad).
      assert (Hin : In (nth i rows row0) (filter_mask keep rows)).
      { assert (Ex : Exists (fun r => r = nth i rows row0) (filter_mask keep rows))
          by (apply (Exists_filter_mask_nth _ row0 keep rows Lkr i Hi Ki); reflexivity).
        rewrite Exists_exists in Ex. destruct Ex as (r & Hr & ->). exact Hr. }
      specialize (All _ Hin). rewrite Forall_forall in All. exact (Bad (All _ Hp)). }
  unfold chk. destruct (td_selfref d) as [[[] s]|] eqn:Sr.
  - destruct (nth_error (fcols t) s) as [buf|] eqn:Hb.
    + apply Core. apply CC. reflexivity.
    + right. eexists. split; [reflexivity | right; reflexivity].
  - destruct (nth_error (rcols t) s) as [c|] eqn:Hc.
    + apply Core. apply CC. reflexivity.
    + right. eexists. split; [reflexivity | right; reflexivity].
  - left. split; [reflexivity|]. unfold kept_refs_ok, refs_of. rewrite Sr.
    apply Forall_forall. intros r _. constructor.
Qed.

Theorem keep_rows_refs_ok d t rows keep t' idm :
  TRep d t rows -> zlen keep = nrows t -> keep_rows d t keep = Ok (t', idm) ->
  kept_refs_ok d (nrows t) idm keep rows.
Proof.
  intros R Lk H. pose proof (check_phase _ _ _ _ R Lk) as CP. simpl in CP.
  unfold keep_rows in H. binv H as u Chk H1. destruct u.
  assert (idm = keep_mask_to_id_map keep) as ->.
  { binv H1 as fc Ef H2. binv H2 as rc Er H3. inversion H3; reflexivity. }
  destruct CP as [[_ O]|(c & E & _)]; [exact O|]. rewrite E in Chk. discriminate.
Qed.

Theorem keep_rows_dangling_rejected d t rows keep :
  TRep d t rows -> zlen keep = nrows t ->
  ~ kept_refs_ok d (nrows t) (keep_mask_to_id_map keep) keep rows ->
  exists c, keep_rows d t keep = Err c.
Proof.
  intros R Lk Bad. pose proof (check_phase _ _ _ _ R Lk) as CP. simpl in CP.
  destruct CP as [[_ O]|(c & E & _)]; [contradiction|].
  exists c. unfold keep_rows. rewrite E. reflexivity.
Qed.
