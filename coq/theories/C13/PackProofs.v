(* C13 — util.pack_bytes / pack_arrays and unpack_bytes / unpack_arrays are inverse. *)
From Coq Require Import List ZArith Bool Lia.
From TskVerif Require Import Base.Common C13.Model C13.Lemmas C13.Rep.
Import ListNotations.
Open Scope Z_scope.

Lemma pack_offsets_psums data : forall acc, 0 <= acc -> acc + zlen (concat data) < U32_MOD ->
  acc :: pack_offsets acc data = psums acc data.
Proof.
  induction data as [|x data IH]; intros acc Ha Hb; simpl; [reflexivity|].
  simpl in Hb. rewrite zlen_app in Hb.
  pose proof (zlen_nonneg x). pose proof (zlen_nonneg (concat data)).
  rewrite Z.mod_small by lia. f_equal. apply IH; lia.
Qed.

Lemma skipn_repeat {A} (a : A) n m : skipn n (repeat a m) = repeat a (m - n).
Proof.
  revert n; induction m as [|m IH]; intros [|n]; simpl; auto.
Qed.

Lemma pack_fill_spec data : forall pre,
  pack_fill (pre ++ repeat 0 (length (concat data))) (psums (zlen pre) data) data = Ok (pre ++ concat data).
Proof.
  induction data as [|x data IH]; intros pre; simpl.
  - rewrite app_nil_r. reflexivity.
  - destruct (psums_head (zlen pre + zlen x) data) as [t E]. rewrite E. rewrite <- E.
    rewrite app_length.
    unfold np_assign. rewrite zlen_app, zlen_repeat.
    pose proof (zlen_nonneg x). pose proof (zlen_nonneg pre).
    replace (Z.min (zlen pre) (zlen pre + Z.of_nat (length x + length (concat data)))) with (zlen pre) by lia.
    replace (Z.min (zlen pre + zlen x) (zlen pre + Z.of_nat (length x + length (concat data))))
      with (zlen pre + zlen x) by (unfold zlen; lia).
    replace (Z.max (zlen pre + zlen x - zlen pre) 0 =? zlen x) with true by (symmetry; apply Z.eqb_eq; lia).
    simpl.
    rewrite firstn_app_exact by (unfold zlen; lia).
    rewrite skipn_app_ge by (unfold zlen; lia).
    replace (Z.to_nat (zlen pre) + length x - length pre)%nat with (length x) by (unfold zlen; lia).
    rewrite skipn_repeat. replace (length x + length (concat data) - length x)%nat with (length (concat data)) by lia.
    specialize (IH (pre ++ x)). rewrite zlen_app in IH. rewrite <- app_assoc in IH.
    rewrite IH. rewrite <- app_assoc. reflexivity.
Qed.

(* (h) pack then unpack is the identity (below the uint32 wrap-around of the offsets) *)
Theorem pack_unpack data : zlen (concat data) < U32_MOD ->
  pack data = Ok (concat data, psums 0 data) /\ unpack (concat data) (psums 0 data) = data.
Proof.
  intros H. split.
  - unfold pack. rewrite (pack_offsets_psums data 0 (Z.le_refl 0)) by lia.
    rewrite psums_last, Z.add_0_l. rewrite zlen_length.
    pose proof (pack_fill_spec data []) as P. simpl app in P. change (zlen (@nil Z)) with 0 in P.
    rewrite P. reflexivity.
  - apply unpack_psums; [lia|]. change (Z.to_nat 0) with 0%nat. rewrite skipn_O. apply firstn_all.
Qed.

Example pack_unpack_ex :
  (do p <- pack [[1; 2]; []; [3]; [4; 5; 6]]; Ok (p, unpack (fst p) (snd p)))
  = Ok (([1; 2; 3; 4; 5; 6], [0; 2; 2; 3; 6]), [[1; 2]; []; [3]; [4; 5; 6]]).
Proof. vm_compute. reflexivity. Qed.

(* the other direction: well-formed (packed, offsets) survive unpack then pack *)
Theorem unpack_pack packed offs rest :
  offs = 0 :: rest -> monotoneb offs = true -> last offs 0 = zlen packed -> zlen packed < U32_MOD ->
  pack (unpack packed offs) = Ok (packed, offs).
Proof.
  intros E M L B.
  destruct (psums_unpack packed offs 0 rest E (Z.le_refl 0) M ltac:(lia)) as [P1 P2].
  assert (C : concat (unpack packed offs) = packed).
  { rewrite P2, L. unfold slice. change (Z.to_nat 0) with 0%nat. rewrite skipn_O, Z.sub_0_r.
    rewrite zlen_length. apply firstn_all. }
  destruct (pack_unpack (unpack packed offs)) as [Q _]; [rewrite C; exact B|].
  rewrite Q, C, P1. reflexivity.
Qed.
