(* C13 — the Python facade where it is more than a thin wrapper: index normalisation of
   BaseTable.__getitem__ / __setitem__ = Python list indexing on abs. *)
From Coq Require Import List ZArith Bool Lia.
From TskVerif Require Import Base.Common C13.Model C13.Lemmas C13.Rep C13.Bridge C13.OpsProofs
  C13.ColsProofs C13.UpdateProofs C13.KeepProofs C13.RefineProofs C13.TotalProofs C13.SafeProofs.
Import ListNotations.
Open Scope Z_scope.

(* ---------- integers: l[i] for -n <= i < n is l[i mod n]; anything else IndexError ---------- *)
Lemma py_index_spec n i : 0 <= n ->
  (- n <= i < n -> py_index n i = Ok (i mod n)) /\
  (i < - n \/ n <= i -> py_index n i = Err PY_INDEX_ERROR).
Proof.
  intros Hn. unfold py_index. split; intros H.
  - destruct (i <? 0) eqn:E.
    + apply Z.ltb_lt in E.
      replace ((i + n <? 0) || (i + n >=? n)) with false
        by (symmetry; apply orb_false_iff; split; [apply Z.ltb_ge | rewrite Z.geb_leb; apply Z.leb_gt]; lia).
      f_equal. replace i with ((i + n) + (-1) * n) at 2 by lia. rewrite Z.mod_add by lia. rewrite Z.mod_small; lia.
    + apply Z.ltb_ge in E.
      replace ((i <? 0) || (i >=? n)) with false
        by (symmetry; apply orb_false_iff; split; [apply Z.ltb_ge | rewrite Z.geb_leb; apply Z.leb_gt]; lia).
      rewrite Z.mod_small; [reflexivity | lia].
  - destruct (i <? 0) eqn:E.
    + apply Z.ltb_lt in E. replace ((i + n <? 0) || (i + n >=? n)) with true; [reflexivity|].
      symmetry. apply orb_true_iff. destruct H; [left; apply Z.ltb_lt | right; rewrite Z.geb_leb; apply Z.leb_le]; lia.
    + apply Z.ltb_ge in E. replace ((i <? 0) || (i >=? n)) with true; [reflexivity|].
      symmetry. apply orb_true_iff. right. rewrite Z.geb_leb. apply Z.leb_le. lia.
Qed.

Theorem py_getitem_int d t i :
  WF d t ->
  (- nrows t <= i < nrows t -> py_getitem d t i = Ok (nth (Z.to_nat (i mod nrows t)) (abs t) row0)) /\
  (i < - nrows t \/ nrows t <= i -> py_getitem d t i = Err PY_INDEX_ERROR).
Proof.
  intros W. pose proof (WF_TRep _ _ W) as R. pose proof (tr_n _ _ _ R) as N. pose proof (zlen_nonneg (abs t)) as Nn.
  destruct (py_index_spec (nrows t) i ltac:(lia)) as [A B]. unfold py_getitem. split; intros H.
  - rewrite (A H). cbn [bind]. apply get_row_refines; [exact W|]. apply Z.mod_pos_bound. lia.
  - rewrite (B H). reflexivity.
Qed.

(* table[i] = row for an integer index: Python list item assignment *)
Theorem py_setitem_int d t i r t' :
  WF d t -> order_ok d -> py_setitem d t i r = (t', Ok tt) ->
  - nrows t <= i < nrows t /\ WF d t' /\ abs t' = replace_nth (Z.to_nat (i mod nrows t)) r (abs t).
Proof.
  intros W O H. pose proof (WF_TRep _ _ W) as R. pose proof (tr_n _ _ _ R) as N. pose proof (zlen_nonneg (abs t)) as Nn.
  destruct (py_index_spec (nrows t) i ltac:(lia)) as [A B]. unfold py_setitem in H.
  destruct (Z_lt_dec i (- nrows t)) as [L|L]; [rewrite B in H by (left; exact L); inversion H|].
  destruct (Z_le_dec (nrows t) i) as [G|G]; [rewrite B in H by (right; exact G); inversion H|].
  assert (Hi : - nrows t <= i < nrows t) by lia. split; [exact Hi|]. rewrite (A Hi) in H.
  destruct (row_ok d r && ids_ok (td_kinds d) (fst r)) eqn:E; simpl in H; [|inversion H].
  apply andb_true_iff in E as [Hr _].
  destruct (update_row_refines _ _ _ _ _ W O Hr H) as (_ & W' & A'). auto.
Qed.

(* ---------- boolean masks: numpy.flatnonzero then extend = filtering the list ---------- *)
Lemma rows_at_flatnonzero (rows : list row) : forall m j, (j + length m = length rows)%nat ->
  rows_at rows (flatnonzero (Z.of_nat j) m) = filter_mask m (skipn j rows).
Proof.
  induction m as [|b m IH]; intros j H; cbn [length] in H.
  - destruct (skipn j rows); reflexivity.
  - rewrite (skipn_nth_cons rows j row0) by lia. cbn [flatnonzero filter_mask].
    replace (j + 1)%nat with (S j) by lia.
    assert (E : Z.of_nat j + 1 = Z.of_nat (S j)) by lia. rewrite E.
    specialize (IH (S j) ltac:(lia)). unfold rows_at in *.
    destruct b; [cbn [map]; rewrite Nat2Z.id; f_equal; exact IH | exact IH].
Qed.

Theorem py_getitem_mask d t m rows :
  WF d t -> zlen m = nrows t ->
  py_getitem_idx_gen true d t (flatnonzero 0 m) = Ok rows -> rows = filter_mask m (abs t).
Proof.
  intros W Lm H. destruct (py_getitem_idx_refines _ _ _ _ W H) as [-> _].
  pose proof (tr_n _ _ _ (WF_TRep _ _ W)) as N.
  change 0 with (Z.of_nat 0).
  rewrite (rows_at_flatnonzero (abs t) m 0); [reflexivity | unfold zlen in *; simpl; lia].
Qed.

(* ---------- slices with step 1: l[a:b] for 0 <= a <= b <= n, and l[:] ---------- *)
Lemma map_seq_shift_rows (rows : list row) : forall k a, 0 <= a -> (Z.to_nat a + k <= length rows)%nat ->
  map (fun i : Z => nth (Z.to_nat i) rows row0) (map (fun j : nat => a + Z.of_nat j * 1) (seq 0 k))
  = firstn k (skipn (Z.to_nat a) rows).
Proof.
  intros k a Ha H. rewrite map_map.
  transitivity (map (fun j : nat => nth j (skipn (Z.to_nat a) rows) row0) (seq 0 k)).
  - apply map_ext. intros j. rewrite nth_skipn. f_equal. lia.
  - apply map_nth_seq. rewrite skipn_length. lia.
Qed.

Theorem slice_step1 (rows : list row) a b :
  0 <= a <= b -> b <= zlen rows ->
  rows_at rows (slice_indices (zlen rows) (Some a) (Some b) 1)
  = firstn (Z.to_nat (b - a)) (skipn (Z.to_nat a) rows).
Proof.
  intros Hab Hb. unfold slice_indices, rows_at. cbn [Z.ltb Z.compare].
  replace (1 <? 0) with false by reflexivity. cbn iota.
  replace (a <? 0) with false by (symmetry; apply Z.ltb_ge; lia).
  replace (b <? 0) with false by (symmetry; apply Z.ltb_ge; lia).
  replace (Z.max 0 (Z.min (zlen rows) a)) with a by lia.
  replace (Z.max 0 (Z.min (zlen rows) b)) with b by lia.
  destruct (a <? b) eqn:E.
  - apply Z.ltb_lt in E. rewrite Z.div_1_r. replace (b - a - 1 + 1) with (b - a) by lia.
    apply map_seq_shift_rows; [lia | unfold zlen in Hb; lia].
  - apply Z.ltb_ge in E. replace (b - a) with 0 by lia. reflexivity.
Qed.

Theorem slice_whole (rows : list row) :
  rows_at rows (slice_indices (zlen rows) None None 1) = rows.
Proof.
  unfold slice_indices, rows_at. replace (1 <? 0) with false by reflexivity. cbn iota.
  pose proof (zlen_nonneg rows).
  destruct (0 <? zlen rows) eqn:E.
  - rewrite Z.div_1_r, Z.sub_0_r. replace (zlen rows - 1 + 1) with (zlen rows) by lia.
    rewrite map_seq_shift_rows by (unfold zlen; lia).
    change (Z.to_nat 0) with 0%nat. rewrite skipn_O, zlen_length. apply firstn_all.
  - apply Z.ltb_ge in E. assert (rows = []) as -> by (destruct rows; [reflexivity | unfold zlen in E; simpl in E; lia]).
    reflexivity.
Qed.

(* ---------- bridge to C02: the shape invariant its gate assumes ---------- *)
(* C02/Spec.v states WF for a whole collection record whose columns are the arrays Python can
   see (exactly num_rows long, floats as Fl).  For one table of this model those arrays are
   [asdict t]; under this file's WF they have C02's shape: every fixed column has num_rows
   cells (wf_node_pop ... wf_mig_time), every offsets array has num_rows + 1 entries
   (wf_nind / wf_ragged) and 0 <= off[j] <= off[j+1] <= len(data) (wf_ind_offsets). *)
Theorem asdict_has_C02_shape d t :
  WF d t ->
  Forall (fun c => zlen c = nrows t) (fst (asdict t)) /\
  Forall (fun x => match x with
                   | Some (data, offs) =>
                       zlen offs = nrows t + 1 /\
                       forall j, 0 <= j < nrows t ->
                         0 <= nth (Z.to_nat j) offs 0 <= nth (Z.to_nat (j + 1)) offs 0 /\
                         nth (Z.to_nat (j + 1)) offs 0 <= zlen data
                   | None => False
                   end) (snd (asdict t)).
Proof.
  intros W. pose proof (WF_TRep _ _ W) as R. unfold asdict. cbn zeta. cbn [fst snd]. split.
  - apply Forall_forall. intros c Hc. apply in_map_iff in Hc as (buf & <- & Hb).
    apply In_nth_error in Hb as [j Hj]. pose proof (tr_f _ _ _ R _ _ Hj) as F.
    rewrite (fr_cells _ _ _ _ F). apply (fr_len _ _ _ _ F).
  - apply Forall_forall. intros x Hx. apply in_map_iff in Hx as (c & <- & Hc).
    apply In_nth_error in Hc as [k Hk]. pose proof (tr_r _ _ _ R _ _ Hk) as Rc.
    set (cells := rcol_of (abs t) k) in *.
    pose proof (rr_n _ _ _ _ Rc) as N. pose proof (zlen_nonneg cells) as Nn.
    rewrite (rr_off _ _ _ _ Rc). split.
    + unfold zlen. rewrite psums_length. unfold zlen in N. lia.
    + intros j Hj.
      rewrite !psums_nth by (unfold zlen in N; lia).
      replace (Z.to_nat (j + 1)) with (S (Z.to_nat j)) by lia.
      pose proof (psum_step cells (Z.to_nat j) ltac:(unfold zlen in N; lia)) as P.
      pose proof (zlen_nonneg (concat (firstn (Z.to_nat j) cells))).
      split; [lia|]. rewrite Z.add_0_l.
      rewrite zlen_firstn. pose proof (RRep_data_len _ _ _ _ Rc) as DL.
      replace (Z.min (Z.of_nat (Z.to_nat (rlen c))) (zlen (rdata c))) with (rlen c) by lia.
      rewrite (rr_len _ _ _ _ Rc).
      rewrite <- (firstn_skipn (S (Z.to_nat j)) cells) at 2. rewrite concat_app, zlen_app.
      pose proof (zlen_nonneg (concat (skipn (S (Z.to_nat j)) cells))). lia.
Qed.

(* ---------- Table.keep_rows as reached from Python: the complete outcome ---------- *)
(* Either the call succeeds — then the mask had one entry per row, no kept row referred to a
   dropped or missing row (references in ANY direction: the table need not be sorted), the
   returned array is the old-id -> new-id map and the table is the list model's result — or
   it raises and the table is exactly as it was. *)
Theorem py_keep_rows_spec d t keep :
  WF d t ->
  match py_keep_rows d t keep with
  | (t', Ok m) =>
      zlen keep = nrows t /\ m = keep_mask_to_id_map keep /\ WF d t' /\
      abs t' = map (remap_row d m) (filter_mask keep (abs t)) /\
      kept_refs_ok d (nrows t) m keep (abs t)
  | (t', _) => t' = t
  end.
Proof.
  intros W. unfold py_keep_rows.
  destruct (zlen keep =? nrows t) eqn:L; simpl; [|reflexivity]. apply Z.eqb_eq in L.
  destruct (keep_rows d t keep) as [[t' m]| | |] eqn:K; try reflexivity.
  destruct (keep_rows_refines _ _ _ _ _ W L K) as (E & W' & A & Kok). auto.
Qed.

Theorem py_keep_rows_wrong_length d t keep :
  zlen keep <> nrows t -> py_keep_rows d t keep = (t, Err PY_VALUE_ERROR).
Proof.
  intros H. unfold py_keep_rows. replace (zlen keep =? nrows t) with false; [reflexivity|].
  symmetry. apply Z.eqb_neq. exact H.
Qed.

(* a dangling reference (kept row -> dropped / missing row) is always refused, table unchanged *)
Theorem py_keep_rows_dangling d t keep :
  WF d t -> zlen keep = nrows t ->
  ~ kept_refs_ok d (nrows t) (keep_mask_to_id_map keep) keep (abs t) ->
  exists c, py_keep_rows d t keep = (t, Err c).
Proof.
  intros W L B. destruct (keep_rows_dangling _ _ _ W L B) as [c K].
  exists c. unfold py_keep_rows. rewrite (proj2 (Z.eqb_eq _ _) L). simpl. rewrite K. reflexivity.
Qed.

(* the ragged `parents` column of individuals, forward and backward references *)
Example py_keep_rows_individuals_forward_ex :
  let t := fold_left (fun t r => match add_row d_individuals t r with Ok t' => t' | _ => t end)
            [ ([0], [[]; [2; 1]; [7]]); ([1], [[1]; []; []]); ([2], [[]; [0]; [8; 9]]); ([3], [[]; [-1; 2]; []]) ]
            (init d_individuals 0) in
  (* row 0 refers FORWARD to rows 2 and 1: dropping row 2 is refused and nothing changes *)
  py_keep_rows d_individuals t [true; true; false; false] = (t, Err TSK_ERR_KEEP_ROWS_MAP_TO_DELETED) /\
  (* dropping row 3 only: every reference is renumbered (here: unchanged ids) *)
  (let '(t', st) := py_keep_rows d_individuals t [true; true; true; false] in (st, abs t'))
  = (Ok [0; 1; 2; -1], [ ([0], [[]; [2; 1]; [7]]); ([1], [[1]; []; []]); ([2], [[]; [0]; [8; 9]]) ]) /\
  (* dropping row 1 is refused (row 0 refers to it); dropping rows 0 and 1: 2 -> 0, 3 -> 1 fails
     because row 2 refers back to the dropped row 0 *)
  py_keep_rows d_individuals t [true; false; true; true] = (t, Err TSK_ERR_KEEP_ROWS_MAP_TO_DELETED) /\
  py_keep_rows d_individuals t [false; false; true; true] = (t, Err TSK_ERR_KEEP_ROWS_MAP_TO_DELETED).
Proof. repeat split; vm_compute; reflexivity. Qed.

(* Table.truncate as reached from Python: list truncation, or ValueError and no change *)
Theorem py_truncate_spec d t n :
  WF d t ->
  (0 <= n <= nrows t ->
     exists t', py_truncate t n = (t', Ok tt) /\ WF d t' /\ abs t' = firstn (Z.to_nat n) (abs t)) /\
  (n < 0 \/ nrows t < n -> py_truncate t n = (t, Err PY_VALUE_ERROR)).
Proof.
  intros W. unfold py_truncate. split; intros H.
  - replace ((n <? 0) || (n >? nrows t)) with false
      by (symmetry; apply orb_false_iff; split; [apply Z.ltb_ge | rewrite Z.gtb_ltb; apply Z.ltb_ge]; lia).
    destruct (truncate_total d t n W H) as [t' T]. exists t'. unfold lift. rewrite T.
    split; [reflexivity|]. apply (truncate_refines _ _ _ _ W T).
  - replace ((n <? 0) || (n >? nrows t)) with true; [reflexivity|].
    symmetry. apply orb_true_iff. destruct H; [left; apply Z.ltb_lt | right; apply Z.gtb_lt]; lia.
Qed.
