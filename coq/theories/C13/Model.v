(* C13 — executable model of tskit's columnar tables (c/tskit/tables.c) and of the Python
   facade over them (python/tskit/tables.py, util.py, lwt_interface/tskit_lwt_interface.h).

   One generic table: f fixed columns and k ragged columns.  A fixed column is a buffer of
   cells; a ragged column is a flat data buffer, its logical length, its capacity, the
   user increment and an offset buffer (tsk_*_table_t: X, X_length, max_X_length,
   max_X_length_increment, X_offset).  Every cell is a Z (doubles are carried as their
   bit patterns: the code only copies them).  Buffers are lists holding the cells that
   have been initialised so far; the allocated capacity is kept as a number
   (max_rows, max_X_length) and every store is checked against it, so that a write past
   the allocation is a visible [OOB] and never silently succeeds.

   The eight concrete tables differ only in a descriptor [tdesc] (number/kind of columns,
   the order in which append_columns treats the ragged columns, the self-referencing
   column, the "metadata" column that keep_rows skips when empty, whether add_row asserts
   offset[num_rows] == length, and the error code of get_row).  Definitions only: the
   proofs are in RefineProofs.v etc.; this file keeps running if a proof breaks. *)
From Coq Require Import List ZArith Bool Lia.
From TskVerif Require Import Base.Common Gen.Generated.
Import ListNotations.
Open Scope Z_scope.

(* ---------------------------------------------------------------------------------- *)
(* constants (c/tskit/core.h): re-read from the source on every run by
   translator/facts_c13.py -> Gen/Generated.v (names prefixed c13_)                  *)
Definition TSK_MAX_ID : Z := c13_tsk_max_id.               (* INT32_MAX - 1 *)
Definition TSK_MAX_SIZE : Z := 18446744073709551615.       (* UINT64_MAX *)
Definition SIZE_MOD : Z := 18446744073709551616.
Definition U32_MOD : Z := 4294967296.
Definition TSK_NULL : Z := -1.
Definition TSK_UNKNOWN_TIME_BITS : Z := c13_tsk_unknown_time_bits.  (* TSK_UNKNOWN_TIME_HEX *)
Definition TSK_ERR_BAD_PARAM_VALUE : Z := c13_tsk_err_bad_param_value.
Definition TSK_ERR_BAD_OFFSET : Z := c13_tsk_err_bad_offset.
Definition TSK_ERR_KEEP_ROWS_MAP_TO_DELETED : Z := c13_tsk_err_keep_rows_map_to_deleted.
Definition TSK_ERR_BAD_TABLE_POSITION : Z := c13_tsk_err_bad_table_position.
Definition TSK_ERR_TABLE_OVERFLOW : Z := c13_tsk_err_table_overflow.
Definition TSK_ERR_COLUMN_OVERFLOW : Z := c13_tsk_err_column_overflow.
(* not library codes: outcomes of the Python layer / of tsk_bug_assert *)
Definition PY_INDEX_ERROR : Z := 1.
Definition PY_VALUE_ERROR : Z := 2.
Definition BUG_ASSERT : Z := 3.          (* tsk_bug_assert failed: the process aborts *)
Definition PY_ATTRIBUTE_ERROR : Z := 4.
Definition POISON : Z := -559038737.     (* content of a cell that was never written *)

(* ---------------------------------------------------------------------------------- *)
(* buffers                                                                             *)

(* a store of [vs] at index [i] in a buffer whose allocation holds [cap] cells: memcpy /
   memmove of a block (tsk_memcpy, tsk_memmove).  Cells between the initialised part and
   [i] stay uninitialised (POISON). *)
Definition blit (buf : list Z) (cap i : Z) (vs : list Z) : res (list Z) :=
  if (0 <=? i) && (i + zlen vs <=? cap) then
    let pad := repeat POISON (Z.to_nat (i - zlen buf)) in
    Ok (firstn (Z.to_nat i) (buf ++ pad) ++ vs ++ skipn (Z.to_nat i + length vs) buf)
  else OOB.

Definition store (buf : list Z) (cap i v : Z) : res (list Z) := blit buf cap i [v].

(* a loop of stores at consecutive indices: for (j = 0; j < n; j++) buf[i + j] = vs[j] *)
Fixpoint store_seq (buf : list Z) (cap i : Z) (vs : list Z) : res (list Z) :=
  match vs with
  | [] => Ok buf
  | v :: rest => do b <- store buf cap i v; store_seq b cap (i + 1) rest
  end.

(* reading [n] cells of an input array: shorter input = read past its end *)
Definition take_exact (n : Z) (l : list Z) : res (list Z) :=
  if (0 <=? n) && (n <=? zlen l) then Ok (firstn (Z.to_nat n) l) else OOB.

(* data[a .. b) with bounds checking (row->X = self->X + offset[i], length offset[i+1]-offset[i]) *)
Definition read (data : list Z) (a b : Z) : res (list Z) :=
  if (0 <=? a) && (a <=? b) && (b <=? zlen data)
  then Ok (firstn (Z.to_nat (b - a)) (skipn (Z.to_nat a) data)) else OOB.

Fixpoint mapM {A B} (f : A -> res B) (l : list A) : res (list B) :=
  match l with
  | [] => Ok []
  | a :: t => do b <- f a; do bs <- mapM f t; Ok (b :: bs)
  end.

Fixpoint map2M {A B C} (f : A -> B -> res C) (l : list A) (m : list B) : res (list C) :=
  match l, m with
  | [], [] => Ok []
  | a :: l', b :: m' => do c <- f a b; do cs <- map2M f l' m'; Ok (c :: cs)
  | _, _ => Err TSK_ERR_BAD_PARAM_VALUE
  end.

(* ---------------------------------------------------------------------------------- *)
(* tables                                                                              *)

Definition row : Type := (list Z * list (list Z))%type.     (* fixed cells, ragged cells *)

Record rag := mkRag {
  rdata : list Z;      (* self->X            *)
  rlen : Z;            (* self->X_length     *)
  rmax : Z;            (* self->max_X_length *)
  rincr : Z;           (* self->max_X_length_increment *)
  roff : list Z        (* self->X_offset (allocation: max_rows + 1 cells) *)
}.

Record tbl := mkTbl {
  nrows : Z;           (* self->num_rows *)
  maxrows : Z;         (* self->max_rows *)
  rowincr : Z;         (* self->max_rows_increment *)
  fcols : list (list Z);
  rcols : list rag
}.

Inductive kind := KId | KU32 | KF64.

Record tdesc := mkDesc {
  td_kinds : list kind;                (* the fixed columns *)
  td_nr : nat;                         (* number of ragged columns *)
  td_order : list nat;                 (* order in which append_columns treats them *)
  td_selfref : option (bool * nat);    (* (true, j): fixed column j; (false, j): ragged j *)
  td_md : option nat;                  (* ragged column that keep_rows skips when empty *)
  td_assert : bool;                    (* add_row: tsk_bug_assert(offset[num_rows] == length) *)
  td_oob : Z;                          (* TSK_ERR_<TABLE>_OUT_OF_BOUNDS *)
  td_mdlen_bug : bool;                 (* parse_<table>_table_dict reads metadata_offset with
                                          check_num_rows = false (sites, mutations) *)
  td_ropt : list bool;                 (* per ragged column: may it be omitted (None) in
                                          set_columns / append_columns?  A required column
                                          that is missing is a TypeError before any change *)
  td_fdefault : list (option Z)        (* per fixed column: None = required; Some v = may be
                                          omitted in set_columns / append_columns, the new
                                          rows then get v (TSK_NULL, TSK_UNKNOWN_TIME) *)
}.

(* column order = harness/props/c13.py SCHEMAS.  The order in which append_columns treats
   the ragged columns, the add_row assertion, the error code and the flag of the binding's
   metadata_offset read are regenerated from tables.c / tskit_lwt_interface.h / core.h on
   every run (translator/facts_c13.py), so a change there changes the model. *)
Definition d_individuals := mkDesc [KU32] 3 c13_order_individual (Some (false, 1%nat)) (Some 2%nat)
  c13_addrow_assert_individual c13_tsk_err_individual_out_of_bounds (negb c13_md_offset_length_checked_individual)
  [true; true; true] [None].
Definition d_nodes := mkDesc [KF64; KU32; KId; KId] 1 c13_order_node None (Some 0%nat)
  c13_addrow_assert_node c13_tsk_err_node_out_of_bounds (negb c13_md_offset_length_checked_node)
  [true] [None; None; Some TSK_NULL; Some TSK_NULL].
Definition d_edges := mkDesc [KF64; KF64; KId; KId] 1 c13_order_edge None (Some 0%nat)
  c13_addrow_assert_edge c13_tsk_err_edge_out_of_bounds (negb c13_md_offset_length_checked_edge)
  [true] [None; None; None; None].
Definition d_migrations := mkDesc [KF64; KF64; KId; KId; KId; KF64] 1 c13_order_migration None (Some 0%nat)
  c13_addrow_assert_migration c13_tsk_err_migration_out_of_bounds (negb c13_md_offset_length_checked_migration)
  [true] [None; None; None; None; None; None].
Definition d_sites := mkDesc [KF64] 2 c13_order_site None (Some 1%nat)
  c13_addrow_assert_site c13_tsk_err_site_out_of_bounds (negb c13_md_offset_length_checked_site)
  [false; true] [None].
Definition d_mutations := mkDesc [KId; KId; KF64; KId] 2 c13_order_mutation (Some (true, 3%nat)) (Some 1%nat)
  c13_addrow_assert_mutation c13_tsk_err_mutation_out_of_bounds (negb c13_md_offset_length_checked_mutation)
  [false; true] [None; None; Some TSK_UNKNOWN_TIME_BITS; Some TSK_NULL].
Definition d_populations := mkDesc [] 1 c13_order_population None (Some 0%nat)
  c13_addrow_assert_population c13_tsk_err_population_out_of_bounds (negb c13_md_offset_length_checked_population)
  [false] [].
Definition d_provenances := mkDesc [] 2 c13_order_provenance None None
  c13_addrow_assert_provenance c13_tsk_err_provenance_out_of_bounds false
  [false; false] [].

(* tsk_*_table_init: one row / one cell allocated with increment 1, then the increments
   are reset to 0; the Python constructor then sets max_rows_increment *)
Definition init_rag : rag := mkRag [] 0 1 0 [0].
Definition init (d : tdesc) (incr : Z) : tbl :=
  mkTbl 0 1 incr (map (fun _ => []) (td_kinds d)) (repeat init_rag (td_nr d)).

(* ---------------------------------------------------------------------------------- *)
(* growth: calculate_max_rows / calculate_max_length / expand_*                        *)

Definition check_table_overflow (cur add : Z) : bool :=
  (add >? TSK_MAX_ID) || (cur >? TSK_MAX_ID - add).
Definition check_offset_overflow (cur add : Z) : bool :=
  (add >? TSK_MAX_SIZE) || (cur >? TSK_MAX_SIZE - add).

(* tables.c:494 calculate_max_rows *)
Definition calc_max_rows (num_rows max_rows incr add : Z) : res Z :=
  if check_table_overflow num_rows add then Err TSK_ERR_TABLE_OVERFLOW else
  if num_rows + add <=? max_rows then Ok max_rows else
  do nm <- (if incr =? 0 then
              let a := Z.min ((max_rows * 2) mod SIZE_MOD) (TSK_MAX_ID + 1) in
              let b := if a <? 1024 then 1024 else a in
              Ok (if (b - max_rows) mod SIZE_MOD >? 2097152 then max_rows + 2097152 else b)
            else if check_table_overflow max_rows incr then Err TSK_ERR_TABLE_OVERFLOW
            else Ok (max_rows + incr));
  Ok (Z.max nm (num_rows + add)).

(* tables.c:536 calculate_max_length *)
Definition calc_max_length (cur max incr add : Z) : res Z :=
  if check_offset_overflow cur add then Err TSK_ERR_COLUMN_OVERFLOW else
  if cur + add <=? max then Ok max else
  do nm <- (if incr =? 0 then
              let a := Z.min ((max * 2) mod SIZE_MOD) TSK_MAX_SIZE in
              let b := if a <? 65536 then 65536 else a in
              let c := if (b - max) mod SIZE_MOD >? 104857600 then max + 104857600 else b in
              Ok (Z.max c (cur + add))
            else if check_offset_overflow max incr then Err TSK_ERR_COLUMN_OVERFLOW
            else Ok (max + incr));
  Ok (Z.max nm (cur + add)).

Definition set_maxrows (t : tbl) (m : Z) : tbl := mkTbl (nrows t) m (rowincr t) (fcols t) (rcols t).

(* tsk_*_table_expand_main_columns: realloc keeps the contents *)
Definition expand_main (t : tbl) (add : Z) : res tbl :=
  do nm <- calc_max_rows (nrows t) (maxrows t) (rowincr t) add;
  Ok (if nrows t + add >? maxrows t then set_maxrows t nm else t).

(* expand_ragged_column *)
Definition expand_rag (c : rag) (add : Z) : res rag :=
  do nm <- calc_max_length (rlen c) (rmax c) (rincr c) add;
  Ok (if nm >? rmax c then mkRag (rdata c) (rlen c) nm (rincr c) (roff c) else c).

(* ---------------------------------------------------------------------------------- *)
(* add_row, get_row, truncate, clear                                                   *)

(* one ragged column of tsk_*_table_add_row(_internal) *)
Definition rag_add (assert : bool) (n maxr : Z) (c : rag) (vs : list Z) : res rag :=
  do _ <- (if assert then do o <- get (roff c) n; if o =? rlen c then Ok tt else Err BUG_ASSERT
           else Ok tt);
  do c1 <- expand_rag c (zlen vs);
  do dt <- blit (rdata c1) (rmax c1) (rlen c1) vs;
  do o <- store (roff c1) (maxr + 1) (n + 1) (rlen c1 + zlen vs);
  Ok (mkRag dt (rlen c1 + zlen vs) (rmax c1) (rincr c1) o).

(* tsk_*_table_add_row.  (The sites/mutations versions interleave expansion and stores per
   column, the others expand everything first; the result is the same unless an
   expansion overflows, which only changes dead cells beyond num_rows.) *)
Definition add_row (d : tdesc) (t : tbl) (r : row) : res tbl :=
  do t1 <- expand_main t 1;
  do fc <- map2M (fun buf v => store buf (maxrows t1) (nrows t1) v) (fcols t1) (fst r);
  do rc <- map2M (rag_add (td_assert d) (nrows t1) (maxrows t1)) (rcols t1) (snd r);
  Ok (mkTbl (nrows t1 + 1) (maxrows t1) (rowincr t1) fc rc).

Definition rag_get (c : rag) (i : Z) : res (list Z) :=
  do a <- get (roff c) i; do b <- get (roff c) (i + 1); read (rdata c) a b.

(* tsk_*_table_get_row *)
Definition get_row (d : tdesc) (t : tbl) (i : Z) : res row :=
  if (i <? 0) || (i >=? nrows t) then Err (td_oob d) else
  do fx <- mapM (fun buf => get buf i) (fcols t);
  do rg <- mapM (fun c => rag_get c i) (rcols t);
  Ok (fx, rg).

(* tsk_*_table_truncate *)
Definition truncate (t : tbl) (n : Z) : res tbl :=
  if (n <? 0) || (n >? nrows t) then Err TSK_ERR_BAD_TABLE_POSITION else
  do rc <- mapM (fun c => do l <- get (roff c) n; Ok (mkRag (rdata c) l (rmax c) (rincr c) (roff c))) (rcols t);
  Ok (mkTbl n (maxrows t) (rowincr t) (fcols t) rc).

Definition clear (t : tbl) : res tbl := truncate t 0.

(* ---------------------------------------------------------------------------------- *)
(* operations that can fail half way return the state they leave behind and a status   *)

Definition step : Type := (tbl * res unit)%type.
Definition err_of {A} (r : res A) : res unit :=
  match r with Ok _ => Ok tt | Err c => Err c | OOB => OOB | Fuel => Fuel end.
Definition lift (t : tbl) (r : res tbl) : step :=
  match r with Ok t' => (t', Ok tt) | _ => (t, err_of r) end.

(* tsk_*_table_extend: expand once, then get_row + add_row per index; an error leaves the
   rows added so far *)
Fixpoint extend_loop (d : tdesc) (t other : tbl) (idx : list Z) : step :=
  match idx with
  | [] => (t, Ok tt)
  | i :: rest =>
      match get_row d other i with
      | Ok r => match add_row d t r with
                | Ok t' => extend_loop d t' other rest
                | e => (t, err_of e)
                end
      | e => (t, err_of e)
      end
  end.

Definition extend (d : tdesc) (t other : tbl) (idx : list Z) : step :=
  match expand_main t (zlen idx) with
  | Ok t1 => extend_loop d t1 other idx
  | e => (t, err_of e)
  end.

(* ---------------------------------------------------------------------------------- *)
(* set_columns / append_columns                                                        *)

(* what Python passes: every fixed column, and per ragged column None or (data, offsets) *)
Definition cols : Type := (list (list Z) * list (option (list Z * list Z)))%type.

(* tables.c:468 check_offsets(num_rows, offsets, 0, false) *)
Fixpoint offsets_monotone (n : nat) (j : Z) (offs : list Z) : res bool :=
  match n with
  | O => Ok true
  | S n' => do a <- get offs j; do b <- get offs (j + 1);
            if a >? b then Ok false else offsets_monotone n' (j + 1) offs
  end.

Definition check_offsets (num_rows : Z) (offs : list Z) : res unit :=
  do o0 <- get offs 0;
  if negb (o0 =? 0) then Err TSK_ERR_BAD_OFFSET else
  do m <- offsets_monotone (Z.to_nat num_rows) 0 offs;
  if m then Ok tt else Err TSK_ERR_BAD_OFFSET.

(* one ragged column of tsk_*_table_append_columns *)
Definition rag_append (n maxr num_rows : Z) (c : rag) (input : option (list Z * list Z)) : res rag :=
  match input with
  | None =>
      do o <- store_seq (roff c) (maxr + 1) (n + 1) (repeat (rlen c) (Z.to_nat num_rows));
      do o' <- store o (maxr + 1) (n + num_rows) (rlen c);
      Ok (mkRag (rdata c) (rlen c) (rmax c) (rincr c) o')
  | Some (data, offs) =>
      do _ <- check_offsets num_rows offs;
      do heads <- take_exact num_rows offs;
      do o <- store_seq (roff c) (maxr + 1) n (map (fun x => rlen c + x) heads);
      do len <- get offs num_rows;
      do c1 <- expand_rag c len;
      do src <- take_exact len data;
      do dt <- blit (rdata c1) (rmax c1) (rlen c1) src;
      do o' <- store o (maxr + 1) (n + num_rows) (rlen c1 + len);
      Ok (mkRag dt (rlen c1 + len) (rmax c1) (rincr c1) o')
  end.

Fixpoint set_nth {A} (l : list A) (i : nat) (a : A) : list A :=
  match l, i with
  | [], _ => []
  | _ :: t, O => a :: t
  | h :: t, S i' => h :: set_nth t i' a
  end.

(* the ragged columns are treated one after the other in the table's own order; a bad
   offset array stops the call with the earlier columns already appended *)
Fixpoint append_ragged (n maxr num_rows : Z) (rc : list rag) (inputs : list (option (list Z * list Z)))
         (order : list nat) : list rag * res unit :=
  match order with
  | [] => (rc, Ok tt)
  | j :: rest =>
      match nth_error rc j, nth_error inputs j with
      | Some c, Some inp =>
          match rag_append n maxr num_rows c inp with
          | Ok c' => append_ragged n maxr num_rows (set_nth rc j c') inputs rest
          | e => (rc, err_of e)
          end
      | _, _ => (rc, Err TSK_ERR_BAD_PARAM_VALUE)
      end
  end.

(* tsk_*_table_append_columns(self, num_rows, ...) *)
Definition append_columns_c (d : tdesc) (t : tbl) (num_rows : Z) (cs : cols) : step :=
  match expand_main t num_rows with
  | Ok t1 =>
      match map2M (fun buf vals => do src <- take_exact num_rows vals;
                                   blit buf (maxrows t1) (nrows t1) src) (fcols t1) (fst cs) with
      | Ok fc =>
          let '(rc, st) := append_ragged (nrows t1) (maxrows t1) num_rows (rcols t1) (snd cs) (td_order d) in
          match st with
          | Ok _ => (mkTbl (nrows t1 + num_rows) (maxrows t1) (rowincr t1) fc rc, Ok tt)
          | _ => (mkTbl (nrows t1) (maxrows t1) (rowincr t1) fc rc, st)
          end
      | e => (t1, err_of e)
      end
  | e => (t, err_of e)
  end.

(* parse_<table>_table_dict (tskit_lwt_interface.h): the dimension checks made before the
   C call.  num_rows is the length of the first array; every other fixed array must have
   that length; an offsets array must have num_rows + 1 entries and end at the data
   length.  For sites and mutations metadata_offset is read with check_num_rows = false,
   which *sets* num_rows instead of checking it. *)
Fixpoint parse_ragged (md : option nat) (bug : bool) (j : nat) (num_rows : option Z)
         (inputs : list (option (list Z * list Z))) : res (option Z) :=
  match inputs with
  | [] => Ok num_rows
  | None :: rest => parse_ragged md bug (S j) num_rows rest
  | Some (data, offs) :: rest =>
      let overwrite := match num_rows with None => true
                       | Some _ => bug && match md with Some m => Nat.eqb m j | None => false end end in
      if overwrite then
        if zlen offs =? 0 then Err PY_VALUE_ERROR else
        do last <- get offs (zlen offs - 1);
        if negb (last =? zlen data) then Err PY_VALUE_ERROR else
        parse_ragged md bug (S j) (Some (zlen offs - 1)) rest
      else
        match num_rows with
        | Some n =>
            if negb (zlen offs =? n + 1) then Err PY_VALUE_ERROR else
            do last <- get offs n;
            if negb (last =? zlen data) then Err PY_VALUE_ERROR else
            parse_ragged md bug (S j) num_rows rest
        | None => Err PY_VALUE_ERROR
        end
  end.

Definition parse_cols (d : tdesc) (cs : cols) : res Z :=
  let nr0 := match fst cs with [] => None | c :: _ => Some (zlen c) end in
  if negb (forallb (fun c => match nr0 with Some n => zlen c =? n | None => true end) (fst cs))
  then Err PY_VALUE_ERROR else
  if negb (Nat.eqb (length (fst cs)) (length (td_kinds d)) && Nat.eqb (length (snd cs)) (td_nr d))
  then Err PY_VALUE_ERROR else
  do nr <- parse_ragged (td_md d) (td_mdlen_bug d) 0 nr0 (snd cs);
  match nr with Some n => Ok n | None => Err PY_VALUE_ERROR end.

(* all supplied offset arrays checked up front (the repair of finding F14 hoists the
   check_offsets calls before the first change; it also lets the binding check them while it
   parses the arguments, i.e. before parse_<table>_table_dict clears the table) *)
Fixpoint precheck_offsets (m : Z) (inputs : list (option (list Z * list Z))) : res unit :=
  match inputs with
  | [] => Ok tt
  | None :: rest => precheck_offsets m rest
  | Some (_, offs) :: rest => do _ <- check_offsets m offs; precheck_offsets m rest
  end.

(* tsk_*_table_append_columns, pinned ([atomic = false]: append_columns_c above) or repaired *)
Definition append_columns_c_gen (atomic : bool) (d : tdesc) (t : tbl) (m : Z) (cs : cols) : step :=
  if atomic then
    match precheck_offsets m (snd cs) with
    | Ok _ => append_columns_c d t m cs
    | e => (t, err_of e)
    end
  else append_columns_c d t m cs.

(* Table.append_columns / Table.set_columns as reached from Python:
   parse_<table>_table_dict = dimension checks (+ offset checks in the repaired binding),
   then clear (set_columns only), then tsk_*_table_append_columns *)
Definition append_columns_gen (bchk atomic : bool) (d : tdesc) (t : tbl) (cs : cols) : step :=
  match parse_cols d cs with
  | Ok n =>
      match (if bchk then precheck_offsets n (snd cs) else Ok tt) with
      | Ok _ => append_columns_c_gen atomic d t n cs
      | e => (t, err_of e)
      end
  | e => (t, err_of e)
  end.

Definition set_columns_gen (bchk atomic : bool) (d : tdesc) (t : tbl) (cs : cols) : step :=
  match parse_cols d cs with
  | Ok n =>
      match (if bchk then precheck_offsets n (snd cs) else Ok tt) with
      | Ok _ => match clear t with
                | Ok t0 => append_columns_c_gen atomic d t0 n cs
                | e => (t, err_of e)
                end
      | e => (t, err_of e)
      end
  | e => (t, err_of e)
  end.

(* What Python passes may leave out optional fixed columns (population, individual of nodes;
   parent, time of mutations).  tsk_*_table_append_columns then fills the NEW rows only:
   memset(self->X + self->num_rows, 0xff, num_rows * sizeof(tsk_id_t)) / a loop storing
   TSK_UNKNOWN_TIME at self->time[self->num_rows + j].  The same effect is obtained by
   supplying the column [repeat default num_rows]; num_rows is the length of the first
   (always required) fixed column.  A required column that is missing is a TypeError. *)
Definition pcols : Type := (list (option (list Z)) * list (option (list Z * list Z)))%type.

Fixpoint fill_fixed (n : nat) (defaults : list (option Z)) (pf : list (option (list Z))) : option (list (list Z)) :=
  match defaults, pf with
  | [], [] => Some []
  | _ :: ds, Some c :: rest => match fill_fixed n ds rest with Some l => Some (c :: l) | None => None end
  | Some v :: ds, None :: rest => match fill_fixed n ds rest with Some l => Some (repeat v n :: l) | None => None end
  | _, _ => None
  end.

Definition fill_cols (d : tdesc) (pc : pcols) : option cols :=
  let n := match fst pc with Some c :: _ => length c | _ => 0%nat end in
  let ragged_ok := (fix go (opt : list bool) (inp : list (option (list Z * list Z))) : bool :=
                      match opt, inp with
                      | [], [] => true
                      | o :: os, x :: xs => (o || match x with Some _ => true | None => false end) && go os xs
                      | _, _ => false
                      end) (td_ropt d) (snd pc) in
  if negb ragged_ok then None else
  match fill_fixed n (td_fdefault d) (fst pc) with
  | Some f => Some (f, snd pc)
  | None => None
  end.

(* which variant the code has is regenerated from tables.c / tskit_lwt_interface.h *)
Definition append_columns := append_columns_gen c13_binding_checks_offsets c13_append_offsets_checked_first.
Definition set_columns := set_columns_gen c13_binding_checks_offsets c13_append_offsets_checked_first.

(* the columns as Python sees them: t.X has X_length cells, t.X_offset num_rows + 1 *)
Definition asdict (t : tbl) : cols :=
  let n := Z.to_nat (nrows t) in
  (map (firstn n) (fcols t),
   map (fun c => Some (firstn (Z.to_nat (rlen c)) (rdata c), firstn (S n) (roff c))) (rcols t)).

(* tsk_*_table_copy(self, dest, 0): init + set_columns with self's own arrays *)
Definition table_copy (d : tdesc) (t : tbl) : step :=
  let n := Z.to_nat (nrows t) in
  match clear (init d 0) with
  | Ok t0 => append_columns_c d t0 (nrows t)
               (fcols t, map (fun c => Some (rdata c, roff c)) (rcols t))
  | e => (init d 0, err_of e)
  end.

(* ---------------------------------------------------------------------------------- *)
(* update_row                                                                          *)

Fixpoint zrange (a : Z) (n : nat) : list Z :=
  match n with O => [] | S n' => a :: zrange (a + 1) n' end.

(* tsk_*_table_update_row_rewrite: copy, truncate, add_row, extend with the tail *)
Definition update_row_rewrite (d : tdesc) (t : tbl) (i : Z) (r : row) : step :=
  match table_copy d t with
  | (cp, Ok _) =>
      match truncate t i with
      | Ok t1 =>
          match add_row d t1 r with
          | Ok t2 => extend d t2 cp (zrange (i + 1) (Z.to_nat (nrows cp - (i + 1))))
          | e => (t1, err_of e)
          end
      | e => (t, err_of e)
      end
  | (_, e) => (t, e)
  end.

(* tsk_*_table_update_row: in place iff every ragged length is unchanged *)
Definition update_row (d : tdesc) (t : tbl) (i : Z) (r : row) : step :=
  match get_row d t i with
  | Ok cur =>
      if list_eqb Z.eqb (map zlen (snd cur)) (map zlen (snd r)) then
        lift t (do fc <- map2M (fun buf v => store buf (maxrows t) i v) (fcols t) (fst r);
                do rc <- map2M (fun c vs => do a <- get (roff c) i;
                                            do dt <- blit (rdata c) (rmax c) a vs;
                                            Ok (mkRag dt (rlen c) (rmax c) (rincr c) (roff c)))
                               (rcols t) (snd r);
                Ok (mkTbl (nrows t) (maxrows t) (rowincr t) fc rc))
      else update_row_rewrite d t i r
  | e => (t, err_of e)
  end.

(* ---------------------------------------------------------------------------------- *)
(* keep_rows                                                                           *)

(* tables.c:755 keep_mask_to_id_map *)
Fixpoint id_map_from (next : Z) (keep : list bool) : list Z :=
  match keep with
  | [] => []
  | true :: k => next :: id_map_from (next + 1) k
  | false :: k => TSK_NULL :: id_map_from next k
  end.
Definition keep_mask_to_id_map (keep : list bool) : list Z := id_map_from 0 keep.

Definition remap (id_map : list Z) (v : Z) : res Z :=
  if v =? TSK_NULL then Ok v else get id_map v.
Definition no_remap (v : Z) : res Z := Ok v.

(* subset_id_column / subset_flags_column / subset_double_column / subset_remap_id_column:
   for (j = 0; j < num_rows; j++) if (keep[j]) { column[k] = f(column[j]); k++; } *)
Fixpoint subset_loop (f : Z -> res Z) (cap : Z) (keep : list bool) (j k : Z) (buf : list Z)
  : res (list Z * Z) :=
  match keep with
  | [] => Ok (buf, k)
  | true :: rest =>
      do v <- get buf j; do v' <- f v; do buf' <- store buf cap k v';
      subset_loop f cap rest (j + 1) (k + 1) buf'
  | false :: rest => subset_loop f cap rest (j + 1) k buf
  end.

(* the inner loop: for (i = offset_col[j]; i < offset_col[j+1]; i++) { data[offset] = f(data[i]); offset++; } *)
Fixpoint copy_loop (f : Z -> res Z) (cap : Z) (data : list Z) (i offset : Z) (cnt : nat)
  : res (list Z * Z) :=
  match cnt with
  | O => Ok (data, offset)
  | S c => do v <- get data i; do v' <- f v; do data' <- store data cap offset v';
           copy_loop f cap data' (i + 1) (offset + 1) c
  end.

(* subset_ragged_char_column / _double_column / subset_remap_ragged_id_column: the offset
   store offset_col[k] = offset happens before offset_col[j] is read (same cell when k = j) *)
Fixpoint subset_rag_loop (f : Z -> res Z) (capd capo : Z) (keep : list bool) (j k offset : Z)
         (data off : list Z) : res (list Z * list Z * Z * Z) :=
  match keep with
  | [] => do off' <- store off capo k offset; Ok (data, off', k, offset)
  | true :: rest =>
      do off1 <- store off capo k offset;
      do a <- get off1 j; do e <- get off1 (j + 1);
      do '(data', offset') <- copy_loop f capd data a offset (Z.to_nat (e - a));
      subset_rag_loop f capd capo rest (j + 1) (k + 1) offset' data' off1
  | false :: rest => subset_rag_loop f capd capo rest (j + 1) k offset data off
  end.

(* the self-reference check of tsk_individual_table_keep_rows / tsk_mutation_table_keep_rows *)
Definition check_ref (oob : Z) (n : Z) (id_map : list Z) (p : Z) : res unit :=
  if p =? TSK_NULL then Ok tt else
  if (p <? 0) || (p >=? n) then Err oob else
  do m <- get id_map p;
  if m =? TSK_NULL then Err TSK_ERR_KEEP_ROWS_MAP_TO_DELETED else Ok tt.

Fixpoint check_refs (oob n : Z) (id_map : list Z) (ps : list Z) : res unit :=
  match ps with
  | [] => Ok tt
  | p :: rest => do _ <- check_ref oob n id_map p; check_refs oob n id_map rest
  end.

Fixpoint check_rows (cell : Z -> res (list Z)) (oob n : Z) (id_map : list Z) (keep : list bool) (j : Z)
  : res unit :=
  match keep with
  | [] => Ok tt
  | true :: rest => do ps <- cell j; do _ <- check_refs oob n id_map ps;
                    check_rows cell oob n id_map rest (j + 1)
  | false :: rest => check_rows cell oob n id_map rest (j + 1)
  end.

Definition count_true (keep : list bool) : Z := zlen (filter (fun b => b) keep).

Fixpoint mapi_aux {A B} (f : nat -> A -> res B) (i : nat) (l : list A) : res (list B) :=
  match l with
  | [] => Ok []
  | a :: t => do b <- f i a; do bs <- mapi_aux f (S i) t; Ok (b :: bs)
  end.
Definition mapiM {A B} (f : nat -> A -> res B) (l : list A) : res (list B) := mapi_aux f 0 l.

Definition is_some_eq (o : option nat) (j : nat) : bool :=
  match o with Some m => Nat.eqb m j | None => false end.

(* tsk_*_table_keep_rows (keep has num_rows entries: checked by the Python binding) *)
Definition keep_rows (d : tdesc) (t : tbl) (keep : list bool) : res (tbl * list Z) :=
  let n := nrows t in
  let id_map := keep_mask_to_id_map keep in
  do _ <- match td_selfref d with
          | None => Ok tt
          | Some (true, j) =>
              match nth_error (fcols t) j with
              | Some buf => check_rows (fun i => do v <- get buf i; Ok [v]) (td_oob d) n id_map keep 0
              | None => Err TSK_ERR_BAD_PARAM_VALUE
              end
          | Some (false, j) =>
              match nth_error (rcols t) j with
              | Some c => check_rows (rag_get c) (td_oob d) n id_map keep 0
              | None => Err TSK_ERR_BAD_PARAM_VALUE
              end
          end;
  do fc <- mapiM (fun j buf =>
                    let f := match td_selfref d with
                             | Some (true, s) => if Nat.eqb s j then remap id_map else no_remap
                             | _ => no_remap end in
                    do '(b, _) <- subset_loop f (maxrows t) keep 0 0 buf; Ok b) (fcols t);
  do rc <- mapiM (fun j c =>
                    if is_some_eq (td_md d) j && (rlen c =? 0) then Ok c else
                    let f := match td_selfref d with
                             | Some (false, s) => if Nat.eqb s j then remap id_map else no_remap
                             | _ => no_remap end in
                    do '(dt, off, _, len) <- subset_rag_loop f (rmax c) (maxrows t + 1) keep 0 0 0 (rdata c) (roff c);
                    Ok (mkRag dt len (rmax c) (rincr c) off)) (rcols t);
  Ok (mkTbl (count_true keep) (maxrows t) (rowincr t) fc rc, id_map).

(* ---------------------------------------------------------------------------------- *)
(* the abstraction: the list of rows a table stands for                                *)

Definition slice (data : list Z) (a b : Z) : list Z :=
  firstn (Z.to_nat (b - a)) (skipn (Z.to_nat a) data).

(* [data[o_0:o_1]; data[o_1:o_2]; ...] for consecutive offsets (also util.unpack_bytes, util.unpack_arrays) *)
Fixpoint unpack (packed : list Z) (offs : list Z) : list (list Z) :=
  match offs with
  | a :: ((b :: _) as rest) => slice packed a b :: unpack packed rest
  | _ => []
  end.

(* the cells of the first n rows of a ragged column *)
Definition rag_cells (n : nat) (c : rag) : list (list Z) :=
  unpack (rdata c) (firstn (S n) (roff c)).

(* row i = the i-th cell of every column *)
Definition abs (t : tbl) : list row :=
  let n := Z.to_nat (nrows t) in
  map (fun i => (map (fun buf => nth i buf 0) (fcols t),
                 map (fun c => nth i (rag_cells n c) []) (rcols t))) (seq 0 n).

(* the invariant, executable: equal column lengths, offsets start at 0, are monotone and
   end at the data length; everything inside its allocation *)
Fixpoint monotoneb (l : list Z) : bool :=
  match l with
  | a :: ((b :: _) as t) => (a <=? b) && monotoneb t
  | _ => true
  end.

Definition wf_rag (n maxr : Z) (c : rag) : bool :=
  let offs := firstn (S (Z.to_nat n)) (roff c) in
  (zlen offs =? n + 1) && (nth 0 (roff c) (-1) =? 0) && monotoneb offs
  && (nth (Z.to_nat n) (roff c) (-1) =? rlen c)
  && (rlen c <=? zlen (rdata c)) && (zlen (rdata c) <=? rmax c)
  && (zlen (roff c) <=? maxr + 1) && (0 <=? rincr c).

Definition wf_fixed (n maxr : Z) (buf : list Z) : bool :=
  (n <=? zlen buf) && (zlen buf <=? maxr).

Definition WFb (d : tdesc) (t : tbl) : bool :=
  (0 <=? nrows t) && (nrows t <=? maxrows t) && (0 <=? rowincr t)
  && Nat.eqb (length (fcols t)) (length (td_kinds d)) && Nat.eqb (length (rcols t)) (td_nr d)
  && forallb (wf_fixed (nrows t) (maxrows t)) (fcols t)
  && forallb (wf_rag (nrows t) (maxrows t)) (rcols t).

Definition WF (d : tdesc) (t : tbl) : Prop := WFb d t = true.

(* a row has the table's shape *)
Definition row_ok (d : tdesc) (r : row) : bool :=
  Nat.eqb (length (fst r)) (length (td_kinds d)) && Nat.eqb (length (snd r)) (td_nr d).

(* ---------------------------------------------------------------------------------- *)
(* python/tskit/util.py                                                                *)

(* pack_bytes / pack_arrays: offsets = np.zeros(n + 1, uint32); offsets[j+1] = offsets[j] + len(x_j)
   (uint32 arithmetic); column = concatenation *)
Fixpoint pack_offsets (acc : Z) (data : list (list Z)) : list Z :=
  match data with
  | [] => []
  | x :: rest => let o := (acc + zlen x) mod U32_MOD in o :: pack_offsets o rest
  end.

(* column[offsets[j] : offsets[j+1]] = x_j into a zero array of offsets[-1] cells *)
Definition np_assign (col : list Z) (a b : Z) (x : list Z) : res (list Z) :=
  (* numpy slice assignment: the slice [a:b] clipped to the array must have len(x) cells *)
  let n := zlen col in
  let a' := Z.min a n in let b' := Z.min b n in
  if negb (Z.max (b' - a') 0 =? zlen x) then Err PY_VALUE_ERROR else
  Ok (firstn (Z.to_nat a') col ++ x ++ skipn (Z.to_nat a' + length x) col).

Fixpoint pack_fill (col : list Z) (offs : list Z) (data : list (list Z)) : res (list Z) :=
  match data, offs with
  | [], _ => Ok col
  | x :: rest, a :: ((b :: _) as offs') => do col' <- np_assign col a b x; pack_fill col' offs' rest
  | _, _ => OOB
  end.

Definition pack (data : list (list Z)) : res (list Z * list Z) :=
  let offs := 0 :: pack_offsets 0 data in
  let total := last offs 0 in
  do col <- pack_fill (repeat 0 (Z.to_nat total)) offs data;
  Ok (col, offs).

(* unpack_bytes / unpack_arrays: [packed[offset[j]:offset[j+1]] for j in range(len(offset)-1)]
   (numpy slicing of non-negative bounds clips, it never fails): [unpack] above. *)

(* ---------------------------------------------------------------------------------- *)
(* python/tskit/tables.py: BaseTable                                                   *)

(* __getitem__/__setitem__ with an integer: negative indexes count from the end *)
Definition py_index (n i : Z) : res Z :=
  let i' := if i <? 0 then i + n else i in
  if (i' <? 0) || (i' >=? n) then Err PY_INDEX_ERROR else Ok i'.

(* slice.indices(len) + range(): CPython PySlice_AdjustIndices, step <> 0 *)
Definition slice_indices (n : Z) (start stop : option Z) (step : Z) : list Z :=
  let clamp lo hi x := Z.max lo (Z.min hi x) in
  let adj x := if x <? 0 then x + n else x in
  let start' := match start with
                | None => if step <? 0 then n - 1 else 0
                | Some s => if step <? 0 then clamp (-1) (n - 1) (adj s) else clamp 0 n (adj s)
                end in
  let stop' := match stop with
               | None => if step <? 0 then -1 else n
               | Some s => if step <? 0 then clamp (-1) (n - 1) (adj s) else clamp 0 n (adj s)
               end in
  let len := if step <? 0 then (if stop' <? start' then (start' - stop' - 1) / (- step) + 1 else 0)
             else (if start' <? stop' then (stop' - start' - 1) / step + 1 else 0) in
  map (fun k => start' + Z.of_nat k * step) (seq 0 (Z.to_nat len)).

Fixpoint flatnonzero (j : Z) (m : list bool) : list Z :=
  match m with
  | [] => []
  | true :: r => j :: flatnonzero (j + 1) r
  | false :: r => flatnonzero (j + 1) r
  end.

(* the row-level API parses id arguments with the binding's tsk_id_t converter:
   NULL or 0 .. TSK_MAX_ID *)
Definition id_ok (k : kind) (v : Z) : bool :=
  match k with KId => (TSK_NULL <=? v) && (v <=? TSK_MAX_ID) | _ => true end.
Fixpoint ids_ok (ks : list kind) (vs : list Z) : bool :=
  match ks, vs with
  | k :: ks', v :: vs' => id_ok k v && ids_ok ks' vs'
  | _, _ => true
  end.

Definition py_add_row (d : tdesc) (t : tbl) (r : row) : step :=
  if negb (row_ok d r && ids_ok (td_kinds d) (fst r)) then (t, Err PY_VALUE_ERROR)
  else lift t (add_row d t r).

Definition py_getitem (d : tdesc) (t : tbl) (i : Z) : res row :=
  do i' <- py_index (nrows t) i; get_row d t i'.

(* table[slice | mask | ids]: ret = cls(); ret.metadata_schema = self.metadata_schema;
   ret.ll_table.extend(self.ll_table, row_indexes=idx).  Only MetadataTable subclasses
   (the tables with a metadata column) have a metadata_schema attribute.  At the pinned
   commit the copy was unconditional and BaseTable.__getattr__ raised AttributeError for
   ProvenanceTable (finding F8, [guarded = false]); the repaired code guards it with
   hasattr.  Which variant the code has is regenerated (c13_getitem_schema_guarded). *)
Definition has_schema (d : tdesc) : bool := match td_md d with Some _ => true | None => false end.

Definition py_getitem_idx_gen (guarded : bool) (d : tdesc) (t : tbl) (idx : list Z) : res (list row) :=
  if negb (has_schema d) && negb guarded then Err PY_ATTRIBUTE_ERROR else
  match extend d (init d 0) t idx with
  | (t', Ok _) => Ok (abs t')
  | (_, e) => match e with Ok _ => OOB | Err c => Err c | OOB => OOB | Fuel => Fuel end
  end.

Definition py_getitem_idx := py_getitem_idx_gen c13_getitem_schema_guarded.

(* the pinned (pre-fix) variant of a descriptor whose binding let metadata_offset set
   num_rows (finding F15) *)
Definition with_mdlen_bug (d : tdesc) (b : bool) : tdesc :=
  mkDesc (td_kinds d) (td_nr d) (td_order d) (td_selfref d) (td_md d) (td_assert d) (td_oob d) b (td_ropt d) (td_fdefault d).

Definition py_setitem (d : tdesc) (t : tbl) (i : Z) (r : row) : step :=
  match py_index (nrows t) i with
  | Ok i' =>
      if negb (row_ok d r && ids_ok (td_kinds d) (fst r)) then (t, Err PY_VALUE_ERROR)
      else update_row d t i' r
  | e => (t, err_of e)
  end.

Definition py_truncate (t : tbl) (n : Z) : step :=
  if (n <? 0) || (n >? nrows t) then (t, Err PY_VALUE_ERROR) else lift t (truncate t n).

Definition py_keep_rows (d : tdesc) (t : tbl) (keep : list bool) : tbl * res (list Z) :=
  if negb (zlen keep =? nrows t) then (t, Err PY_VALUE_ERROR) else
  match keep_rows d t keep with
  | Ok (t', m) => (t', Ok m)
  | Err c => (t, Err c) | OOB => (t, OOB) | Fuel => (t, Fuel)
  end.

Definition replace_ragged (cs : cols) (j : nat) (v : option (list Z * list Z)) : cols :=
  (fst cs, set_nth (snd cs) j v).

(* packset_X(values): packed, offset = util.pack_*(values); d = self.asdict(); d[X] = packed;
   d[X_offset] = offset; self.set_columns(all of d) *)
Definition py_packset (d : tdesc) (t : tbl) (j : nat) (vals : list (list Z)) : step :=
  match pack vals with
  | Ok (col, offs) => set_columns d t (replace_ragged (asdict t) j (Some (col, offs)))
  | e => (t, err_of e)
  end.

(* BaseTable.__setattr__ for a column name: d = self.asdict(); d[name] = value; set_columns *)
Definition py_setattr_fixed (d : tdesc) (t : tbl) (j : nat) (vals : list Z) : step :=
  let cs := asdict t in set_columns d t (set_nth (fst cs) j vals, snd cs).
Definition py_setattr_data (d : tdesc) (t : tbl) (j : nat) (vals : list Z) : step :=
  let cs := asdict t in
  match nth_error (snd cs) j with
  | Some (Some (_, offs)) => set_columns d t (replace_ragged cs j (Some (vals, offs)))
  | _ => (t, Err PY_VALUE_ERROR)
  end.
Definition py_setattr_offset (d : tdesc) (t : tbl) (j : nat) (vals : list Z) : step :=
  let cs := asdict t in
  match nth_error (snd cs) j with
  | Some (Some (data, _)) => set_columns d t (replace_ragged cs j (Some (data, vals)))
  | _ => (t, Err PY_VALUE_ERROR)
  end.

(* MetadataTable.drop_metadata: data["metadata"] = []; data["metadata_offset"][:] = 0 *)
Definition py_drop_metadata (d : tdesc) (t : tbl) : step :=
  match td_md d with
  | Some j => set_columns d t (replace_ragged (asdict t) j
                                 (Some ([], repeat 0 (S (Z.to_nat (nrows t))))))
  | None => (t, Err PY_VALUE_ERROR)
  end.

(* BaseTable.copy: copy = cls(); copy.set_columns(all of self.asdict()) *)
Definition py_copy (d : tdesc) (t : tbl) : step := set_columns d (init d 0) (asdict t).
