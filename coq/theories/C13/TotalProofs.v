(* C13 — add_row never leaves the buffers: under the invariant, and short of the 2^31-row /
   2^64-cell overflow limits, tsk_*_table_add_row returns Ok — no out-of-bounds store (OOB),
   no failed tsk_bug_assert, no error. *)
From Coq Require Import List ZArith Bool Lia.
From TskVerif Require Import Base.Common C13.Model C13.Lemmas C13.Rep C13.Bridge C13.OpsProofs.
Import ListNotations.
Open Scope Z_scope.

Lemma map2M_exists {A B C} (f : A -> B -> res C) l : forall m,
  length l = length m ->
  (forall j a b, nth_error l j = Some a -> nth_error m j = Some b -> exists c, f a b = Ok c) ->
  exists l', map2M f l m = Ok l'.
Proof.
  induction l as [|x l IH]; intros [|y m] L H; simpl in L; try discriminate.
  - exists []. reflexivity.
  - destruct (H 0%nat x y eq_refl eq_refl) as [c Hc].
    destruct (IH m ltac:(lia)) as [l' Hl'].
    { intros j a b Ha Hb. apply (H (S j) a b Ha Hb). }
    exists (c :: l'). simpl. rewrite Hc. simpl. rewrite Hl'. reflexivity.
Qed.

Lemma calc_max_rows_total n m incr add :
  0 <= m -> 0 <= n -> 0 <= add -> 0 <= incr -> n + add <= TSK_MAX_ID ->
  (incr = 0 \/ m + incr <= TSK_MAX_ID) ->
  exists x, calc_max_rows n m incr add = Ok x.
Proof.
  intros Hm Hn Ha Hi Hb Hc. unfold calc_max_rows, check_table_overflow.
  replace ((add >? TSK_MAX_ID) || (n >? TSK_MAX_ID - add)) with false.
  2:{ symmetry. apply orb_false_iff. split; rewrite Z.gtb_ltb; apply Z.ltb_ge; lia. }
  destruct (n + add <=? m); [eexists; reflexivity|].
  destruct (incr =? 0) eqn:E; cbn [bind]; [eexists; reflexivity|].
  apply Z.eqb_neq in E. destruct Hc as [Hc|Hc]; [contradiction|].
  replace ((incr >? TSK_MAX_ID) || (m >? TSK_MAX_ID - incr)) with false.
  2:{ symmetry. apply orb_false_iff. split; rewrite Z.gtb_ltb; apply Z.ltb_ge; lia. }
  cbn [bind]. eexists; reflexivity.
Qed.

Lemma calc_max_length_total cur m incr add :
  0 <= m -> 0 <= cur -> 0 <= add -> 0 <= incr -> cur + add <= TSK_MAX_SIZE ->
  (incr = 0 \/ m + incr <= TSK_MAX_SIZE) ->
  exists x, calc_max_length cur m incr add = Ok x /\ cur + add <= x.
Proof.
  intros Hm Hn Ha Hi Hb Hc. unfold calc_max_length, check_offset_overflow.
  replace ((add >? TSK_MAX_SIZE) || (cur >? TSK_MAX_SIZE - add)) with false.
  2:{ symmetry. apply orb_false_iff. split; rewrite Z.gtb_ltb; apply Z.ltb_ge; lia. }
  destruct (cur + add <=? m) eqn:Le; [apply Z.leb_le in Le; eexists; split; [reflexivity | lia]|].
  destruct (incr =? 0) eqn:E; cbn [bind]; [eexists; split; [reflexivity | lia]|].
  apply Z.eqb_neq in E. destruct Hc as [Hc|Hc]; [contradiction|].
  replace ((incr >? TSK_MAX_SIZE) || (m >? TSK_MAX_SIZE - incr)) with false.
  2:{ symmetry. apply orb_false_iff. split; rewrite Z.gtb_ltb; apply Z.ltb_ge; lia. }
  cbn [bind]. eexists; split; [reflexivity | lia].
Qed.

Lemma blit_total buf cap i vs : 0 <= i -> i + zlen vs <= cap -> exists b, blit buf cap i vs = Ok b.
Proof.
  intros H1 H2. unfold blit.
  replace ((0 <=? i) && (i + zlen vs <=? cap)) with true; [eexists; reflexivity|].
  symmetry. apply andb_true_iff. split; apply Z.leb_le; lia.
Qed.

(* the size limits of the C code, as a predicate on the call *)
Definition fits (t : tbl) (r : row) : Prop :=
  nrows t + 1 <= TSK_MAX_ID /\ (rowincr t = 0 \/ maxrows t + rowincr t <= TSK_MAX_ID) /\
  forall j c vs, nth_error (rcols t) j = Some c -> nth_error (snd r) j = Some vs ->
    rlen c + zlen vs <= TSK_MAX_SIZE /\ (rincr c = 0 \/ rmax c + rincr c <= TSK_MAX_SIZE).

Lemma rag_add_total a n maxr c cells vs :
  RRep n maxr c cells -> n + 1 <= maxr ->
  rlen c + zlen vs <= TSK_MAX_SIZE -> (rincr c = 0 \/ rmax c + rincr c <= TSK_MAX_SIZE) ->
  exists c', rag_add a n maxr c vs = Ok c'.
Proof.
  intros R Cap S1 S2. unfold rag_add.
  pose proof (RRep_off_len _ _ _ _ R) as [OL N0]. pose proof (RRep_data_len _ _ _ _ R) as DL.
  pose proof (rr_n _ _ _ _ R) as N.
  assert (As : (if a then do o <- get (roff c) n; if o =? rlen c then Ok tt else Err BUG_ASSERT else Ok tt) = Ok tt).
  { destruct a; [|reflexivity]. rewrite (RRep_off_nth _ _ _ _ n R) by lia. simpl.
    rewrite firstn_all2 by (unfold zlen in N; lia). rewrite <- (rr_len _ _ _ _ R), Z.eqb_refl. reflexivity. }
  rewrite As. simpl.
  pose proof (rr_capd _ _ _ _ R) as Cd. pose proof (zlen_nonneg (rdata c)) as Dn.
  destruct (calc_max_length_total (rlen c) (rmax c) (rincr c) (zlen vs)) as (x & Ex & Gx);
    try lia; try apply zlen_nonneg; try apply (rr_incr _ _ _ _ R); try assumption.
  unfold expand_rag. rewrite Ex. simpl.
  set (c1 := if x >? rmax c then _ else c).
  assert (D : rdata c1 = rdata c /\ rlen c1 = rlen c /\ roff c1 = roff c /\ rlen c + zlen vs <= rmax c1).
  { unfold c1. destruct (x >? rmax c) eqn:G; simpl; repeat split; try lia;
      rewrite Z.gtb_ltb in G; apply Z.ltb_ge in G; lia. }
  destruct D as (D1 & D2 & D3 & D4). rewrite D1, D2, D3.
  destruct (blit_total (rdata c) (rmax c1) (rlen c) vs) as [dt Hd]; [lia | lia |]. rewrite Hd. simpl.
  unfold store. destruct (blit_total (roff c) (maxr + 1) (n + 1) [rlen c + zlen vs]) as [o Ho];
    [lia | unfold zlen; simpl; lia |]. rewrite Ho. simpl. eexists; reflexivity.
Qed.

Theorem add_row_total d t r :
  WF d t -> row_ok d r = true -> fits t r -> exists t', add_row d t r = Ok t'.
Proof.
  intros W Hr (S1 & S2 & S3). pose proof (WF_TRep _ _ W) as R.
  destruct (row_ok_lengths _ _ Hr) as [Lf Lr].
  pose proof (tr_n _ _ _ R) as N. pose proof (zlen_nonneg (abs t)) as Nn.
  unfold add_row.
  pose proof (tr_max _ _ _ R) as Mx.
  destruct (calc_max_rows_total (nrows t) (maxrows t) (rowincr t) 1) as [x Ex];
    try lia; try apply (tr_incr _ _ _ R); try assumption.
  assert (Em : exists t1, expand_main t 1 = Ok t1) by (unfold expand_main; rewrite Ex; simpl; eexists; reflexivity).
  destruct Em as [t1 Em]. rewrite Em. simpl.
  destruct (expand_main_Ok _ _ _ Em) as (N1 & I1 & F1 & R1 & M1 & C1). rewrite N1, F1, R1.
  destruct (map2M_exists (fun buf v => store buf (maxrows t1) (nrows t) v) (fcols t) (fst r)) as [fc Hfc].
  { rewrite (tr_nf _ _ _ R). symmetry. exact Lf. }
  { intros j a b Ha Hb. unfold store. apply blit_total; [lia | unfold zlen; simpl; lia]. }
  rewrite Hfc. simpl.
  destruct (map2M_exists (rag_add (td_assert d) (nrows t) (maxrows t1)) (rcols t) (snd r)) as [rc Hrc].
  { rewrite (tr_nr _ _ _ R). symmetry. exact Lr. }
  { intros j a b Ha Hb. destruct (S3 _ _ _ Ha Hb) as [S4 S5].
    eapply rag_add_total; [eapply RRep_mono; [apply (tr_r _ _ _ R _ _ Ha) | exact M1] | lia | exact S4 | exact S5]. }
  rewrite Hrc. simpl. eexists; reflexivity.
Qed.

(* together with add_row_rep: the complete specification of add_row *)
Corollary add_row_complete d t r :
  WF d t -> row_ok d r = true -> fits t r ->
  exists t', add_row d t r = Ok t' /\ WF d t' /\ abs t' = abs t ++ [r].
Proof.
  intros W Hr F. destruct (add_row_total _ _ _ W Hr F) as [t' H]. exists t'. split; [exact H|].
  pose proof (add_row_rep _ _ _ _ _ (WF_TRep _ _ W) Hr H) as R.
  split; [eapply TRep_WF; eassumption | apply (TRep_abs _ _ _ R)].
Qed.
