(* C06 — facts that need no validity hypothesis: what the loops preserve, return values. *)
From Coq Require Import List ZArith Bool Lia.
From TskVerif Require Import Base.Common C06.Model.
Import ListNotations.
Open Scope Z_scope.

Lemma bind_ok {A B} (r : res A) (f : A -> res B) b :
  bind r f = Ok b -> exists a, r = Ok a /\ f a = Ok b.
Proof. destruct r; simpl; intros H; try discriminate. eauto. Qed.

Tactic Notation "inv_bind" hyp(H) "as" ident(a) ident(Ha) :=
  apply bind_ok in H; destruct H as [a [Ha H]].

Lemma edge_loop_inv (P : tree -> Prop) ts d order body :
  (forall t e ed t', body t e ed = Ok t' -> P t -> P t') ->
  forall fuel j stop t t', edge_loop fuel ts d order body j stop t = Ok t' -> P t -> P t'.
Proof.
  intros Hb fuel; induction fuel as [|f IH]; intros j stop t t' H Pt; simpl in H; [discriminate|].
  destruct (j =? stop); [inversion H; subst; exact Pt|].
  inv_bind H as e He. inv_bind H as ed Hed. inv_bind H as t1 Ht1. eapply IH; eauto.
Qed.

Lemma remove_edge_pos m t p c t' : remove_edge m t p c = Ok t' ->
  t_pos t' = t_pos t /\ t_index t' = t_index t /\ t_left t' = t_left t /\ t_right t' = t_right t /\ t_sites t' = t_sites t.
Proof.
  unfold remove_edge; intros H. inv_bind H as par Hp. inv_bind H as edg He. inv_bind H as tr Ht.
  inversion H; subst; simpl; auto.
Qed.

Lemma insert_edge_pos m t p c e t' : insert_edge m t p c e = Ok t' ->
  t_pos t' = t_pos t /\ t_index t' = t_index t /\ t_left t' = t_left t /\ t_right t' = t_right t /\ t_sites t' = t_sites t.
Proof.
  unfold insert_edge; intros H. inv_bind H as tr Ht. inv_bind H as par Hp. inv_bind H as edg He.
  inversion H; subst; simpl; auto.
Qed.

Lemma apply_diffs_pos m ts d t t' : apply_diffs m ts d t = Ok t' -> t_pos t' = t_pos t.
Proof.
  unfold apply_diffs; intros H. inv_bind H as lo Hlo. inv_bind H as t1 Ht1. inv_bind H as li Hli.
  transitivity (t_pos t1).
  - eapply (edge_loop_inv (fun x => t_pos x = t_pos t1)); [|exact H|reflexivity].
    intros t0 e ed t2 Hb Hp. unfold body_insert in Hb. apply insert_edge_pos in Hb. intuition congruence.
  - eapply (edge_loop_inv (fun x => t_pos x = t_pos t)); [|exact Ht1|reflexivity].
    intros t0 e ed t2 Hb Hp. unfold body_remove in Hb. apply remove_edge_pos in Hb. intuition congruence.
Qed.

Lemma update_index t ts t' : update_index_and_interval ts t = Ok t' ->
  t_index t' = p_index (t_pos t) /\ t_left t' = p_left (t_pos t) /\ t_right t' = p_right (t_pos t) /\
  t_pos t' = t_pos t /\ t_parent t' = t_parent t /\ t_edge t' = t_edge t /\ t_num_edges t' = t_num_edges t.
Proof.
  unfold update_index_and_interval; intros H. inv_bind H as sites Hs. inversion H; subst; simpl. intuition.
Qed.

(* tsk_tree_next / tsk_tree_prev return 1 exactly when the tree is not null afterwards *)
Lemma tree_next_ret m ts t t' r : tree_next m ts t = Ok (t', r) ->
  (r = 1 /\ t_index t' <> -1) \/ (r = 0 /\ t_index t' = -1).
Proof.
  unfold tree_next; intros H. inv_bind H as p Hp.
  destruct (p_index p =? -1) eqn:E; simpl in H.
  - inversion H; subst. right; split; reflexivity.
  - inv_bind H as t2 Ht2. inv_bind H as t3 Ht3. inversion H; subst. left; split; [reflexivity|].
    apply update_index in Ht3 as (Hi & _). apply apply_diffs_pos in Ht2. simpl in Ht2.
    rewrite Hi, Ht2. apply Z.eqb_neq in E. exact E.
Qed.

Lemma tree_prev_ret m ts t t' r : tree_prev m ts t = Ok (t', r) ->
  (r = 1 /\ t_index t' <> -1) \/ (r = 0 /\ t_index t' = -1).
Proof.
  unfold tree_prev; intros H. inv_bind H as p Hp.
  destruct (p_index p =? -1) eqn:E; simpl in H.
  - inversion H; subst. right; split; reflexivity.
  - inv_bind H as t2 Ht2. inv_bind H as t3 Ht3. inversion H; subst. left; split; [reflexivity|].
    apply update_index in Ht3 as (Hi & _). apply apply_diffs_pos in Ht2. simpl in Ht2.
    rewrite Hi, Ht2. apply Z.eqb_neq in E. exact E.
Qed.

(* Tree.next() / Tree.prev(): the Python return value is False (0) exactly when the tree
   is in the null state afterwards, True (1) otherwise; no other outcome exists. *)
Lemma next_prev_ret m ts st o st' r :
  o = OpNext \/ o = OpPrev ->
  py_step m ts st o = Ok (st', r) ->
  (r = 0 /\ t_index (fst st') = -1) \/ (r = 1 /\ t_index (fst st') <> -1).
Proof.
  intros Ho H. destruct st as [cur other]. unfold py_step, py_step_fuel in H.
  destruct Ho; subst o; inv_bind H as a Ha; destruct a as [t r0]; inversion H; subst; simpl.
  - apply tree_next_ret in Ha as [[-> Hi]|[-> Hi]]; simpl; auto.
  - apply tree_prev_ret in Ha as [[-> Hi]|[-> Hi]]; simpl; auto.
Qed.

(* a copy is indistinguishable from the original *)
Lemma tree_copy_id t : tree_copy t = t.
Proof. destruct t as [i l r [pi pl pr pd a b c d e f] pa ed ne tr si]. reflexivity. Qed.
