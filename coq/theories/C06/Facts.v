(* C06 — the constants the model hard-codes, against the values re-extracted from /repo's
   headers on every run (translator/facts_c06.py -> Gen/Generated.v).  A changed constant
   breaks this file, which is in the cone of Props/C06.v. *)
From Coq Require Import ZArith.
From TskVerif Require Import Gen.Generated C06.Model.
Open Scope Z_scope.

(* tsk_tree_seek / tsk_tree_seek_index error code *)
Example err_seek_out_of_bounds : TSK_ERR_SEEK_OUT_OF_BOUNDS = c06_tsk_err_seek_out_of_bounds.
Proof. reflexivity. Qed.

Example tsk_null_is : C06.Model.TSK_NULL = tsk_null.
Proof. reflexivity. Qed.

(* tsk_tree_next / _prev return TSK_TREE_OK = 1 on a tree, 0 (tsk_tree_clear) on null;
   Tree_next / Tree_prev report `err == 1` *)
Example tree_ok_is_one : c06_tsk_tree_ok = 1.
Proof. reflexivity. Qed.

(* the three-valued [dir] of the model: 0 after memset is neither direction *)
Example directions_distinct :
  c06_tsk_dir_forward <> 0 /\ c06_tsk_dir_reverse <> 0 /\ c06_tsk_dir_forward <> c06_tsk_dir_reverse.
Proof. repeat split; discriminate. Qed.
