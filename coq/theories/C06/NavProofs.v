(* C06 — the invariant of the navigation state machine ([tree_ok]: cursor invariant +
   arrays = SPEC at the current tree) and its preservation by tsk_tree_next / _prev /
   _clear / _seek_from_null ([core] mode). *)
From Coq Require Import List ZArith Bool Lia ZifyBool.
From TskVerif Require Import Base.Common C06.Model C06.BasicProofs C06.ListFacts C06.Valid
  C06.CursorProofs C06.WriteLoops C06.NumEdges.
Import ListNotations.
Open Scope Z_scope.

Section Nav.
Variable ts : tseq.
Hypothesis V : valid_ts ts.

Let M := num_edges ts.
Let T := num_trees ts.

Definition tree_ok (t : tree) : Prop :=
  t_index t = p_index (t_pos t) /\ t_left t = p_left (t_pos t) /\ t_right t = p_right (t_pos t) /\
  ((pos_null (t_pos t) /\ arrays_at ts t (-1)) \/
   (pos_ok ts (t_pos t) /\ arrays_at ts t (bp ts (t_index t)))).

(* position whose covering edges the arrays hold; the edge counter is their number *)
Definition cur_x (t : tree) : Z := if t_index t =? -1 then -1 else bp ts (t_index t).
Definition cnt_ok (t : tree) : Prop := t_num_edges t = num_edges_at ts (cur_x t).
(* the site list is that of the current tree (empty in the null state): holds since the
   repair of tsk_tree_clear (9583b70) *)
Definition sites_ok (t : tree) : Prop := t_sites t = sites_at ts (t_index t).
Definition ne_ok (t : tree) : Prop := cnt_ok t /\ sites_ok t.

Lemma sites_step t t2 t3 : sites_ok t -> t_sites t2 = t_sites t ->
  update_index_and_interval ts t2 = Ok t3 -> p_index (t_pos t2) <> -1 -> sites_ok t3.
Proof.
  intros Hs E U N. unfold sites_ok. pose proof (update_index _ _ _ U) as (U1 & _). rewrite U1.
  unfold update_index_and_interval in U. unfold sites_at at 1.
  replace (p_index (t_pos t2) =? -1) with false by lia.
  destruct (0 <? ts_nsites ts) eqn:Z.
  - inv_bind U as s0 Hs0. injection U as <-. simpl. rewrite Hs0. reflexivity.
  - cbn [bind] in U. injection U as <-. simpl. rewrite E, Hs. unfold sites_at. rewrite Z.
    destruct (t_index t =? -1); reflexivity.
Qed.

(* ---- which edges a cursor range visits ---- *)

Lemma In_ids order j d n e :
  In e (map (zn order) (positions j d n)) <-> exists i, 0 <= i < Z.of_nat n /\ zn order (j + d * i) = e.
Proof.
  rewrite in_map_iff. split.
  - intros [p [<- Hp]]. apply In_positions in Hp as [i [Hi ->]]. eauto.
  - intros [i [Hi <-]]. exists (j + d * i). split; [reflexivity|]. apply In_positions. eauto.
Qed.

Lemma O_range_iff b e ed : get (ts_edges ts) e = Ok ed ->
  ((exists pos, cnt_lt (RO ts) b <= pos < cnt_le (RO ts) b /\ zn (ts_O ts) pos = e) <-> e_right ed = b).
Proof.
  intros G. pose proof (cnt_lt_bounds (RO ts) b) as B1. pose proof (cnt_le_bounds (RO ts) b) as B2.
  rewrite (zlen_RO ts V) in B1, B2. split.
  - intros [pos [Hp <-]]. destruct (edge_of_O ts V pos ltac:(fold M; lia)) as (ed' & G1 & G2 & E1 & E2).
    rewrite G in G2. injection G2 as <-. rewrite <- E2.
    assert (R : 0 <= pos < zlen (RO ts)) by (rewrite (zlen_RO ts V); lia).
    pose proof (proj1 (cnt_le_spec (RO ts) b pos (v_O_sorted ts V) R)).
    pose proof (proj2 (cnt_lt_spec (RO ts) b pos (v_O_sorted ts V) R)). lia.
  - intros Er. pose proof (get_ok_range _ _ _ G) as Re.
    destruct (v_O_surj ts V e Re) as [pos [Hp Ep]]. exists pos. split; [|exact Ep].
    destruct (edge_of_O ts V pos Hp) as (ed' & G1 & G2 & E1 & E2).
    rewrite Ep, G in G2. injection G2 as <-.
    assert (R : 0 <= pos < zlen (RO ts)) by (rewrite (zlen_RO ts V); exact Hp).
    pose proof (proj2 (cnt_le_spec (RO ts) b pos (v_O_sorted ts V) R)).
    pose proof (proj1 (cnt_lt_spec (RO ts) b pos (v_O_sorted ts V) R)). lia.
Qed.

Lemma I_range_iff b e ed : get (ts_edges ts) e = Ok ed ->
  ((exists pos, cnt_lt (LI ts) b <= pos < cnt_le (LI ts) b /\ zn (ts_I ts) pos = e) <-> e_left ed = b).
Proof.
  intros G. pose proof (cnt_lt_bounds (LI ts) b) as B1. pose proof (cnt_le_bounds (LI ts) b) as B2.
  rewrite (zlen_LI ts V) in B1, B2. split.
  - intros [pos [Hp <-]]. destruct (edge_of_I ts V pos ltac:(fold M; lia)) as (ed' & G1 & G2 & E1 & E2).
    rewrite G in G2. injection G2 as <-. rewrite <- E1.
    assert (R : 0 <= pos < zlen (LI ts)) by (rewrite (zlen_LI ts V); lia).
    pose proof (proj1 (cnt_le_spec (LI ts) b pos (v_I_sorted ts V) R)).
    pose proof (proj2 (cnt_lt_spec (LI ts) b pos (v_I_sorted ts V) R)). lia.
  - intros Er. pose proof (get_ok_range _ _ _ G) as Re.
    destruct (v_I_surj ts V e Re) as [pos [Hp Ep]]. exists pos. split; [|exact Ep].
    destruct (edge_of_I ts V pos Hp) as (ed' & G1 & G2 & E1 & E2).
    rewrite Ep, G in G2. injection G2 as <-.
    assert (R : 0 <= pos < zlen (LI ts)) by (rewrite (zlen_LI ts V); exact Hp).
    pose proof (proj2 (cnt_le_spec (LI ts) b pos (v_I_sorted ts V) R)).
    pose proof (proj1 (cnt_lt_spec (LI ts) b pos (v_I_sorted ts V) R)). lia.
Qed.

Lemma endpoints_of e ed : get (ts_edges ts) e = Ok ed ->
  endpoint ts (e_left ed) /\ endpoint ts (e_right ed) /\ 0 <= e_left ed < e_right ed /\ e_right ed <= ts_L ts.
Proof.
  intros G. pose proof (v_edge ts V _ _ G). destruct (v_bp_mem ts V _ _ G) as [A B].
  split; [exact A|]. split; [exact B|]. lia.
Qed.

(* ---- the two loops of tsk_tree_next ---- *)

Lemma edge_loop_wloop_eq sel order d n fuel j stop t :
  d = 1 \/ d = -1 -> stop = j + d * Z.of_nat n -> (n < fuel)%nat ->
  (forall p, In p (positions j d n) -> 0 <= p < zlen order) ->
  edge_loop fuel ts d order (sel_body sel) j stop t = wloop ts sel (map (zn order) (positions j d n)) t.
Proof. intros Hd -> Hf Hp. apply edge_loop_wloop; assumption. Qed.


Lemma apply_diffs_next t x b :
  arrays_at ts t x -> x < b ->
  (forall v, endpoint ts v -> (v <= x <-> v < b)) ->
  p_out_ord (t_pos t) = ORem -> p_out_start (t_pos t) = cnt_lt (RO ts) b ->
  p_out_stop (t_pos t) = cnt_le (RO ts) b ->
  p_in_ord (t_pos t) = OIns -> p_in_start (t_pos t) = cnt_lt (LI ts) b ->
  p_in_stop (t_pos t) = cnt_le (LI ts) b ->
  exists t2, apply_diffs core ts 1 t = Ok t2 /\ frame t t2 /\ arrays_at ts t2 b /\
             (t_num_edges t = num_edges_at ts x -> t_num_edges t2 = num_edges_at ts b).
Proof.
  intros A Hxb Hbet O1 O2 O3 I1 I2 I3.
  pose proof (cnt_lt_bounds (RO ts) b) as B1. pose proof (cnt_le_bounds (RO ts) b) as B2.
  pose proof (cnt_lt_bounds (LI ts) b) as B3. pose proof (cnt_le_bounds (LI ts) b) as B4.
  pose proof (cnt_lt_le (RO ts) b (v_O_sorted ts V)) as B5.
  pose proof (cnt_lt_le (LI ts) b (v_I_sorted ts V)) as B6.
  rewrite (zlen_RO ts V) in B1, B2. rewrite (zlen_LI ts V) in B3, B4.
  pose proof (scan_fuel_gt ts) as HF.
  set (nr := Z.to_nat (cnt_le (RO ts) b - cnt_lt (RO ts) b)).
  set (ni := Z.to_nat (cnt_le (LI ts) b - cnt_lt (LI ts) b)).
  set (es_r := map (zn (ts_O ts)) (positions (cnt_lt (RO ts) b) 1 nr)).
  set (es_i := map (zn (ts_I ts)) (positions (cnt_lt (LI ts) b) 1 ni)).
  assert (PR : forall p, In p (positions (cnt_lt (RO ts) b) 1 nr) -> 0 <= p < zlen (ts_O ts)).
  { intros p Hp. apply In_positions in Hp as [i [Hi ->]]. rewrite (v_O_len ts V). fold M. lia. }
  assert (PI : forall p, In p (positions (cnt_lt (LI ts) b) 1 ni) -> 0 <= p < zlen (ts_I ts)).
  { intros p Hp. apply In_positions in Hp as [i [Hi ->]]. rewrite (v_I_len ts V). fold M. lia. }
  assert (InR : forall e, In e es_r <-> exists pos, cnt_lt (RO ts) b <= pos < cnt_le (RO ts) b /\ zn (ts_O ts) pos = e).
  { intros e. unfold es_r. rewrite In_ids. split.
    - intros [i [Hi E]]. exists (cnt_lt (RO ts) b + 1 * i). split; [lia|exact E].
    - intros [pos [Hp E]]. exists (pos - cnt_lt (RO ts) b). split; [lia|]. rewrite <- E. f_equal. lia. }
  assert (InI : forall e, In e es_i <-> exists pos, cnt_lt (LI ts) b <= pos < cnt_le (LI ts) b /\ zn (ts_I ts) pos = e).
  { intros e. unfold es_i. rewrite In_ids. split.
    - intros [i [Hi E]]. exists (cnt_lt (LI ts) b + 1 * i). split; [lia|exact E].
    - intros [pos [Hp E]]. exists (pos - cnt_lt (LI ts) b). split; [lia|]. rewrite <- E. f_equal. lia. }
  assert (Rr : forall e, In e es_r -> 0 <= e < num_edges ts).
  { intros e He. apply InR in He as [pos [Hp <-]]. apply (v_O_rng ts V). fold M. lia. }
  assert (Ri : forall e, In e es_i -> 0 <= e < num_edges ts).
  { intros e He. apply InI in He as [pos [Hp <-]]. apply (v_I_rng ts V). fold M. lia. }
  assert (R1 : forall e ed, In e es_r -> get (ts_edges ts) e = Ok ed -> covers ed x = true /\ covers ed b = false).
  { intros e ed He G. apply InR in He. apply (O_range_iff b e ed G) in He.
    destruct (endpoints_of e ed G) as (EL & ER & R1 & R2).
    pose proof (Hbet _ EL). unfold covers. lia. }
  assert (R2 : forall e ed, get (ts_edges ts) e = Ok ed -> covers ed x = true -> covers ed b = false -> In e es_r).
  { intros e ed G Cx Cy. apply InR. apply (O_range_iff b e ed G).
    destruct (endpoints_of e ed G) as (EL & ER & R1' & R2').
    pose proof (Hbet _ ER). unfold covers in Cx, Cy. lia. }
  assert (J1 : forall e ed, In e es_i -> get (ts_edges ts) e = Ok ed -> (fun _ : edge => true) ed = true ->
                            covers ed b = true /\ covers ed x = false).
  { intros e ed He G _. apply InI in He. apply (I_range_iff b e ed G) in He.
    destruct (endpoints_of e ed G) as (EL & ER & R1' & R2'). unfold covers. lia. }
  assert (J2 : forall e ed, get (ts_edges ts) e = Ok ed -> covers ed b = true -> covers ed x = false ->
                            In e es_i /\ (fun _ : edge => true) ed = true).
  { intros e ed G Cy Cx. split; [|reflexivity]. apply InI. apply (I_range_iff b e ed G).
    destruct (endpoints_of e ed G) as (EL & ER & R1' & R2').
    pose proof (Hbet _ EL). unfold covers in Cx, Cy. lia. }
  destruct (transition ts V t x b es_r es_i (fun _ => true) A Rr Ri R1 R2
              (fun e ed a1 a2 a3 => proj1 (J1 e ed a1 a2 a3)) J2) as (t1 & t2 & W1 & W2 & F & A2).
  exists t2. split; [|split; [exact F|split; [exact A2|]]].
  - unfold apply_diffs. rewrite O1, O2, O3, I1, I2, I3. cbn [order_list bind].
    rewrite (edge_loop_ext ts 1 (ts_O ts) _ _ body_remove_sel).
    rewrite (edge_loop_wloop_eq _ (ts_O ts) 1 nr);
      [|left; reflexivity|lia|unfold scan_fuel; unfold M, num_edges, zlen in *; lia|exact PR].
    fold es_r. rewrite W1. cbn [bind].
    rewrite (edge_loop_ext ts 1 (ts_I ts) _ _ body_insert_sel).
    rewrite (edge_loop_wloop_eq _ (ts_I ts) 1 ni);
      [|left; reflexivity|lia|unfold scan_fuel; unfold M, num_edges, zlen in *; lia|exact PI].
    fold es_i. exact W2.
  - apply (transition_ne ts t x b es_r es_i (fun _ => true) t1 t2); auto.
    + apply NoDup_ids; [apply (NoDup_O ts V)|left; reflexivity|exact PR].
    + apply NoDup_ids; [apply (NoDup_I ts V)|left; reflexivity|exact PI].
Qed.

(* ---- the two loops of tsk_tree_prev ---- *)

Lemma apply_diffs_prev t x y :
  arrays_at ts t x -> y < x ->
  (forall v, endpoint ts v -> (v <= y <-> v < x)) ->
  p_out_ord (t_pos t) = OIns -> p_out_start (t_pos t) = cnt_le (LI ts) x - 1 ->
  p_out_stop (t_pos t) = cnt_lt (LI ts) x - 1 ->
  p_in_ord (t_pos t) = ORem -> p_in_start (t_pos t) = cnt_le (RO ts) x - 1 ->
  p_in_stop (t_pos t) = cnt_lt (RO ts) x - 1 ->
  exists t2, apply_diffs core ts (-1) t = Ok t2 /\ frame t t2 /\ arrays_at ts t2 y /\
             (t_num_edges t = num_edges_at ts x -> t_num_edges t2 = num_edges_at ts y).
Proof.
  intros A Hyx Hbet O1 O2 O3 I1 I2 I3.
  pose proof (cnt_lt_bounds (RO ts) x) as B1. pose proof (cnt_le_bounds (RO ts) x) as B2.
  pose proof (cnt_lt_bounds (LI ts) x) as B3. pose proof (cnt_le_bounds (LI ts) x) as B4.
  pose proof (cnt_lt_le (RO ts) x (v_O_sorted ts V)) as B5.
  pose proof (cnt_lt_le (LI ts) x (v_I_sorted ts V)) as B6.
  rewrite (zlen_RO ts V) in B1, B2. rewrite (zlen_LI ts V) in B3, B4.
  pose proof (scan_fuel_gt ts) as HF.
  set (nr := Z.to_nat (cnt_le (LI ts) x - cnt_lt (LI ts) x)).
  set (ni := Z.to_nat (cnt_le (RO ts) x - cnt_lt (RO ts) x)).
  set (es_r := map (zn (ts_I ts)) (positions (cnt_le (LI ts) x - 1) (-1) nr)).
  set (es_i := map (zn (ts_O ts)) (positions (cnt_le (RO ts) x - 1) (-1) ni)).
  assert (PR : forall p, In p (positions (cnt_le (LI ts) x - 1) (-1) nr) -> 0 <= p < zlen (ts_I ts)).
  { intros p Hp. apply In_positions in Hp as [i [Hi ->]]. rewrite (v_I_len ts V). fold M. lia. }
  assert (PI : forall p, In p (positions (cnt_le (RO ts) x - 1) (-1) ni) -> 0 <= p < zlen (ts_O ts)).
  { intros p Hp. apply In_positions in Hp as [i [Hi ->]]. rewrite (v_O_len ts V). fold M. lia. }
  assert (InR : forall e, In e es_r <-> exists pos, cnt_lt (LI ts) x <= pos < cnt_le (LI ts) x /\ zn (ts_I ts) pos = e).
  { intros e. unfold es_r. rewrite In_ids. split.
    - intros [i [Hi E]]. exists (cnt_le (LI ts) x - 1 + -1 * i). split; [lia|exact E].
    - intros [pos [Hp E]]. exists (cnt_le (LI ts) x - 1 - pos). split; [lia|]. rewrite <- E. f_equal. lia. }
  assert (InI : forall e, In e es_i <-> exists pos, cnt_lt (RO ts) x <= pos < cnt_le (RO ts) x /\ zn (ts_O ts) pos = e).
  { intros e. unfold es_i. rewrite In_ids. split.
    - intros [i [Hi E]]. exists (cnt_le (RO ts) x - 1 + -1 * i). split; [lia|exact E].
    - intros [pos [Hp E]]. exists (cnt_le (RO ts) x - 1 - pos). split; [lia|]. rewrite <- E. f_equal. lia. }
  assert (Rr : forall e, In e es_r -> 0 <= e < num_edges ts).
  { intros e He. apply InR in He as [pos [Hp <-]]. apply (v_I_rng ts V). fold M. lia. }
  assert (Ri : forall e, In e es_i -> 0 <= e < num_edges ts).
  { intros e He. apply InI in He as [pos [Hp <-]]. apply (v_O_rng ts V). fold M. lia. }
  assert (R1 : forall e ed, In e es_r -> get (ts_edges ts) e = Ok ed -> covers ed x = true /\ covers ed y = false).
  { intros e ed He G. apply InR in He. apply (I_range_iff x e ed G) in He.
    destruct (endpoints_of e ed G) as (EL & ER & R1 & R2). unfold covers. lia. }
  assert (R2 : forall e ed, get (ts_edges ts) e = Ok ed -> covers ed x = true -> covers ed y = false -> In e es_r).
  { intros e ed G Cx Cy. apply InR. apply (I_range_iff x e ed G).
    destruct (endpoints_of e ed G) as (EL & ER & R1' & R2').
    pose proof (Hbet _ EL). unfold covers in Cx, Cy. lia. }
  assert (J1 : forall e ed, In e es_i -> get (ts_edges ts) e = Ok ed -> (fun _ : edge => true) ed = true ->
                            covers ed y = true /\ covers ed x = false).
  { intros e ed He G _. apply InI in He. apply (O_range_iff x e ed G) in He.
    destruct (endpoints_of e ed G) as (EL & ER & R1' & R2').
    pose proof (Hbet _ EL). unfold covers. lia. }
  assert (J2 : forall e ed, get (ts_edges ts) e = Ok ed -> covers ed y = true -> covers ed x = false ->
                            In e es_i /\ (fun _ : edge => true) ed = true).
  { intros e ed G Cy Cx. split; [|reflexivity]. apply InI. apply (O_range_iff x e ed G).
    destruct (endpoints_of e ed G) as (EL & ER & R1' & R2').
    pose proof (Hbet _ ER). unfold covers in Cx, Cy. lia. }
  destruct (transition ts V t x y es_r es_i (fun _ => true) A Rr Ri R1 R2
              (fun e ed a1 a2 a3 => proj1 (J1 e ed a1 a2 a3)) J2) as (t1 & t2 & W1 & W2 & F & A2).
  exists t2. split; [|split; [exact F|split; [exact A2|]]].
  - unfold apply_diffs. rewrite O1, O2, O3, I1, I2, I3. cbn [order_list bind].
    rewrite (edge_loop_ext ts (-1) (ts_I ts) _ _ body_remove_sel).
    rewrite (edge_loop_wloop_eq _ (ts_I ts) (-1) nr);
      [|right; reflexivity|lia|unfold scan_fuel; unfold M, num_edges, zlen in *; lia|exact PR].
    fold es_r. rewrite W1. cbn [bind].
    rewrite (edge_loop_ext ts (-1) (ts_O ts) _ _ body_insert_sel).
    rewrite (edge_loop_wloop_eq _ (ts_O ts) (-1) ni);
      [|right; reflexivity|lia|unfold scan_fuel; unfold M, num_edges, zlen in *; lia|exact PI].
    fold es_i. exact W2.
  - apply (transition_ne ts t x y es_r es_i (fun _ => true) t1 t2); auto.
    + apply NoDup_ids; [apply (NoDup_I ts V)|right; reflexivity|exact PR].
    + apply NoDup_ids; [apply (NoDup_O ts V)|right; reflexivity|exact PI].
Qed.

(* ---- clear / init ---- *)

Lemma map_const {A B} (c : B) (l : list A) : map (fun _ => c) l = repeat c (length l).
Proof. induction l; simpl; [reflexivity|f_equal; assumption]. Qed.

Lemma tree_ok_len t : tree_ok t -> zlen (t_parent t) = ts_N ts + 1 /\ zlen (t_edge t) = ts_N ts + 1.
Proof.
  intros (_ & _ & _ & [[_ [A1 A2]]|[_ [A1 A2]]]); rewrite A1, A2;
    split; [apply zlen_parent_at|apply zlen_edges_at|apply zlen_parent_at|apply zlen_edges_at]; exact V.
Qed.

Lemma ne_ok_clear t : ne_ok (tree_clear core ts t).
Proof.
  split; [unfold cnt_ok, cur_x, tree_clear; simpl; symmetry; apply (num_edges_outside ts V); lia|reflexivity].
Qed.

Lemma tree_clear_ok t : tree_ok t -> tree_ok (tree_clear core ts t) /\ t_index (tree_clear core ts t) = -1.
Proof.
  intros H. destruct (tree_ok_len t H) as [Lp Le]. split; [|reflexivity].
  unfold tree_ok, tree_clear; simpl. repeat split. left. split; [unfold pos_null; simpl; auto|].
  destruct (outside_null ts V (-1) ltac:(lia)) as [P E]. unfold arrays_at; simpl.
  rewrite !map_const, P, E. unfold zlen in Lp, Le.
  replace (length (t_parent t)) with (Z.to_nat (ts_N ts + 1)) by lia.
  replace (length (t_edge t)) with (Z.to_nat (ts_N ts + 1)) by lia. split; reflexivity.
Qed.

Lemma ne_ok_init : ne_ok (tree_init ts).
Proof.
  split; [unfold cnt_ok, cur_x, tree_init; simpl; symmetry; apply (num_edges_outside ts V); lia|reflexivity].
Qed.

Lemma tree_init_ok : tree_ok (tree_init ts) /\ t_index (tree_init ts) = -1.
Proof.
  split; [|reflexivity]. unfold tree_ok, tree_init; simpl. repeat split. left.
  split; [unfold pos_null; simpl; auto|].
  destruct (outside_null ts V (-1) ltac:(lia)) as [P E]. unfold arrays_at; simpl. rewrite P, E. auto.
Qed.

Lemma update_ok t : 0 <= p_index (t_pos t) < T ->
  exists t', update_index_and_interval ts t = Ok t'.
Proof.
  intros H. unfold update_index_and_interval. destruct (0 <? ts_nsites ts) eqn:E.
  - destruct (get_in_range (ts_tree_sites ts) (p_index (t_pos t))) as [s Hs].
    + rewrite (v_sites ts V) by lia. fold T. lia.
    + rewrite Hs. cbn [bind]. eauto.
  - cbn [bind]. eauto.
Qed.


Lemma tree_ok_cases t : tree_ok t ->
  (t_index t = -1 /\ pos_null (t_pos t) /\ arrays_at ts t (-1)) \/
  (0 <= t_index t < T /\ pos_ok ts (t_pos t) /\ arrays_at ts t (bp ts (t_index t))).
Proof.
  intros (Hi & _ & _ & [[N A]|[P A]]).
  - left. pose proof N as (N1 & _). split; [lia|]. split; [exact N|exact A].
  - right. pose proof P as (K & R). split; [fold T in K; lia|]. split; [exact P|exact A].
Qed.

Definition nxt (k : Z) : Z := if k + 1 =? T then -1 else k + 1.
Definition prv (k : Z) : Z := if k =? -1 then T - 1 else k - 1.

Lemma endpoint_nonneg v : endpoint ts v -> 0 <= v <= ts_L ts.
Proof. intros [i [Hi <-]]. apply bp_range; assumption. Qed.

(* ---- tsk_tree_next ---- *)

Lemma tree_next_ok t : tree_ok t ->
  exists t' r, tree_next core ts t = Ok (t', r) /\ tree_ok t' /\ t_index t' = nxt (t_index t) /\
               (ne_ok t -> ne_ok t').
Proof.
  intros H. pose proof H as (Hi & Hl & Hr & Hd).
  assert (PI : pos_inv ts (t_pos t)) by (destruct Hd as [[N _]|[P _]]; [left|right]; assumption).
  unfold tree_next. rewrite (position_next_spec ts V _ PI). cbn [bind].
  rewrite <- Hi. set (k' := t_index t + 1).
  destruct (tree_ok_len t H) as [Lp Le].
  pose proof (v_T ts V) as HT. fold T in HT.
  destruct (Z.eq_dec k' T) as [E|NE].
  - (* off the right end: clear *)
    assert (EP : p_index (next_pos ts k') = -1).
    { unfold next_pos. fold T. rewrite (proj2 (Z.eqb_eq k' T) E). reflexivity. }
    rewrite EP. simpl negb. cbv iota.
    eexists; eexists; split; [reflexivity|].
    split; [|split; [|intros _; apply ne_ok_clear]].
    + unfold tree_ok, tree_clear; simpl. repeat split. left. split; [unfold pos_null; simpl; auto|].
      destruct (outside_null ts V (-1) ltac:(lia)) as [P E']. unfold arrays_at; simpl.
      rewrite !map_const, P, E'. unfold zlen in Lp, Le.
      replace (length (t_parent t)) with (Z.to_nat (ts_N ts + 1)) by lia.
      replace (length (t_edge t)) with (Z.to_nat (ts_N ts + 1)) by lia. split; reflexivity.
    + simpl. unfold nxt. fold k'. rewrite (proj2 (Z.eqb_eq k' T) E). reflexivity.
  - destruct (tree_ok_cases t H) as [(I0 & N & A)|(K & P & A)].
    + (* from the null state: the first tree *)
      assert (Hk : k' = 0) by (unfold k'; lia).
      assert (EP : next_pos ts k' = mkPos 0 (bp ts 0) (bp ts 1) DFwd
                 (cnt_lt (LI ts) (bp ts 0)) (cnt_le (LI ts) (bp ts 0)) OIns
                 (cnt_lt (RO ts) (bp ts 0)) (cnt_le (RO ts) (bp ts 0)) ORem).
      { unfold next_pos. fold T. rewrite Hk. replace (0 =? T) with false by lia. reflexivity. }
      rewrite EP. simpl p_index. simpl negb. cbv iota.
      destruct (apply_diffs_next (with_pos t (mkPos 0 (bp ts 0) (bp ts 1) DFwd
                 (cnt_lt (LI ts) (bp ts 0)) (cnt_le (LI ts) (bp ts 0)) OIns
                 (cnt_lt (RO ts) (bp ts 0)) (cnt_le (RO ts) (bp ts 0)) ORem)) (-1) (bp ts 0))
        as (t2 & D & F & A2 & NE2); try reflexivity.
      * exact A.
      * rewrite (v_bp0 ts V). lia.
      * intros v Hv. apply endpoint_nonneg in Hv. rewrite (v_bp0 ts V). lia.
      * rewrite D. cbn [bind].
        destruct F as (F1 & F2 & F3 & F4 & F5 & F6 & F7 & F8). simpl in F4.
        destruct (update_ok t2) as [t3 U]; [rewrite F4; simpl; fold T; lia|].
        rewrite U. cbn [bind]. eexists; eexists; split; [reflexivity|].
        pose proof U as U0. apply update_index in U as (U1 & U2 & U3 & U4 & U5 & U6 & U7).
        split; [|split].
        -- unfold tree_ok. rewrite U1, U2, U3, U4, F4. simpl. repeat split. right.
           split.
           ++ rewrite <- EP, Hk. apply next_pos_ok; fold T; lia.
           ++ destruct A2 as [A21 A22]. unfold arrays_at. rewrite U5, U6. split; assumption.
        -- rewrite U1, F4. simpl. unfold nxt. fold k'. rewrite Hk. replace (0 =? T) with false by lia. reflexivity.
        -- intros [Hn Hs]. split; [|apply (sites_step t t2 t3 Hs); [exact F6|exact U0|rewrite F4; simpl; lia]]. unfold cnt_ok, cur_x. rewrite U7, U1, F4. simpl. apply NE2. simpl.
           unfold cnt_ok, cur_x in Hn. rewrite I0 in Hn. exact Hn.
    + (* from tree k to tree k + 1 *)
      assert (Hk : 0 <= k' < T) by (unfold k'; lia).
      assert (EP : next_pos ts k' = mkPos k' (bp ts k') (bp ts (k' + 1)) DFwd
                 (cnt_lt (LI ts) (bp ts k')) (cnt_le (LI ts) (bp ts k')) OIns
                 (cnt_lt (RO ts) (bp ts k')) (cnt_le (RO ts) (bp ts k')) ORem).
      { unfold next_pos. fold T. replace (k' =? T) with false by lia. reflexivity. }
      rewrite EP. simpl p_index. replace (k' =? -1) with false by lia. simpl negb. cbv iota.
      destruct (apply_diffs_next (with_pos t (mkPos k' (bp ts k') (bp ts (k' + 1)) DFwd
                 (cnt_lt (LI ts) (bp ts k')) (cnt_le (LI ts) (bp ts k')) OIns
                 (cnt_lt (RO ts) (bp ts k')) (cnt_le (RO ts) (bp ts k')) ORem)) (bp ts (t_index t)) (bp ts k'))
        as (t2 & D & F & A2 & NE2); try reflexivity.
      * exact A.
      * apply (v_bp_strict ts V); fold T; unfold k'; lia.
      * intros v Hv. unfold k'. apply (between ts V); [fold T; lia|exact Hv].
      * rewrite D. cbn [bind].
        destruct F as (F1 & F2 & F3 & F4 & F5 & F6 & F7 & F8). simpl in F4.
        destruct (update_ok t2) as [t3 U]; [rewrite F4; simpl; fold T; lia|].
        rewrite U. cbn [bind]. eexists; eexists; split; [reflexivity|].
        pose proof U as U0. apply update_index in U as (U1 & U2 & U3 & U4 & U5 & U6 & U7).
        split; [|split].
        -- unfold tree_ok. rewrite U1, U2, U3, U4, F4. simpl. repeat split. right.
           split.
           ++ rewrite <- EP. apply next_pos_ok; fold T; lia.
           ++ destruct A2 as [A21 A22]. unfold arrays_at. rewrite U5, U6. split; assumption.
        -- rewrite U1, F4. simpl. unfold nxt. fold k'. replace (k' =? T) with false by lia. reflexivity.
        -- intros [Hn Hs]. split; [|apply (sites_step t t2 t3 Hs); [exact F6|exact U0|rewrite F4; simpl; lia]]. unfold cnt_ok, cur_x. rewrite U7, U1, F4. simpl. replace (k' =? -1) with false by lia.
           apply NE2. simpl. unfold cnt_ok, cur_x in Hn. replace (t_index t =? -1) with false in Hn by lia. exact Hn.
Qed.

(* ---- tsk_tree_prev ---- *)

Lemma arrays_outside t x1 x2 : (x1 < 0 \/ ts_L ts <= x1) -> (x2 < 0 \/ ts_L ts <= x2) ->
  arrays_at ts t x1 -> arrays_at ts t x2.
Proof.
  intros H1 H2 [A B]. destruct (outside_null ts V x1 H1) as [P1 E1]. destruct (outside_null ts V x2 H2) as [P2 E2].
  unfold arrays_at. rewrite A, B, P1, P2, E1, E2. auto.
Qed.

Lemma tree_prev_ok t : tree_ok t ->
  exists t' r, tree_prev core ts t = Ok (t', r) /\ tree_ok t' /\ t_index t' = prv (t_index t) /\
               (ne_ok t -> ne_ok t').
Proof.
  intros H. pose proof H as (Hi & Hl & Hr & Hd).
  assert (PI : pos_inv ts (t_pos t)) by (destruct Hd as [[N _]|[P _]]; [left|right]; assumption).
  unfold tree_prev. rewrite (position_prev_spec ts V _ PI). cbn [bind].
  unfold prev_from. fold T. rewrite <- Hi. set (k := if t_index t =? -1 then T else t_index t).
  destruct (tree_ok_len t H) as [Lp Le].
  pose proof (v_T ts V) as HT. fold T in HT.
  destruct (Z.eq_dec k 0) as [E|NE].
  - (* off the left end: clear *)
    assert (EP : p_index (prev_pos ts k) = -1) by (rewrite E; reflexivity).
    rewrite EP. simpl negb. cbv iota.
    eexists; eexists; split; [reflexivity|].
    split; [|split; [|intros _; apply ne_ok_clear]].
    + unfold tree_ok, tree_clear; simpl. repeat split. left. split; [unfold pos_null; simpl; auto|].
      destruct (outside_null ts V (-1) ltac:(lia)) as [P E']. unfold arrays_at; simpl.
      rewrite !map_const, P, E'. unfold zlen in Lp, Le.
      replace (length (t_parent t)) with (Z.to_nat (ts_N ts + 1)) by lia.
      replace (length (t_edge t)) with (Z.to_nat (ts_N ts + 1)) by lia. split; reflexivity.
    + simpl. unfold prv. subst k. destruct (t_index t =? -1) eqn:E1; lia.
  - destruct (tree_ok_cases t H) as [(I0 & N & A)|(K & P & A)].
    + (* from the null state: the last tree *)
      assert (Hk : k = T) by (subst k; rewrite I0; reflexivity).
      assert (Ax : arrays_at ts t (bp ts k)).
      { apply (arrays_outside t (-1)); [lia| |exact A]. right. rewrite Hk. unfold T. rewrite (v_bpT ts V). lia. }
      clearbody k. subst k.
      assert (EP : prev_pos ts T = mkPos (T - 1) (bp ts (T - 1)) (bp ts T) DRev
                 (cnt_le (RO ts) (bp ts T) - 1) (cnt_lt (RO ts) (bp ts T) - 1) ORem
                 (cnt_le (LI ts) (bp ts T) - 1) (cnt_lt (LI ts) (bp ts T) - 1) OIns).
      { unfold prev_pos. replace (T - 1 =? -1) with false by lia. reflexivity. }
      rewrite EP. simpl p_index. replace (T - 1 =? -1) with false by lia. simpl negb. cbv iota.
      destruct (apply_diffs_prev (with_pos t (mkPos (T - 1) (bp ts (T - 1)) (bp ts T) DRev
                 (cnt_le (RO ts) (bp ts T) - 1) (cnt_lt (RO ts) (bp ts T) - 1) ORem
                 (cnt_le (LI ts) (bp ts T) - 1) (cnt_lt (LI ts) (bp ts T) - 1) OIns)) (bp ts T) (bp ts (T - 1)))
        as (t2 & D & F & A2 & NE2); try reflexivity.
      * exact Ax.
      * apply (v_bp_strict ts V); fold T; lia.
      * intros v Hv. pose proof (between ts V (T - 1) v ltac:(fold T; lia) Hv) as Hb.
        replace (T - 1 + 1) with T in Hb by lia. exact Hb.
      * rewrite D. cbn [bind].
        destruct F as (F1 & F2 & F3 & F4 & F5 & F6 & F7 & F8). simpl in F4.
        destruct (update_ok t2) as [t3 U]; [rewrite F4; simpl; fold T; lia|].
        rewrite U. cbn [bind]. eexists; eexists; split; [reflexivity|].
        pose proof U as U0. apply update_index in U as (U1 & U2 & U3 & U4 & U5 & U6 & U7).
        split; [|split].
        -- unfold tree_ok. rewrite U1, U2, U3, U4, F4. simpl. repeat split. right.
           split.
           ++ rewrite <- EP. apply prev_pos_ok; fold T; lia.
           ++ destruct A2 as [A21 A22]. unfold arrays_at. rewrite U5, U6. split; assumption.
        -- rewrite U1, F4. simpl. unfold prv. rewrite I0. reflexivity.
        -- intros [Hn Hs]. split; [|apply (sites_step t t2 t3 Hs); [exact F6|exact U0|rewrite F4; simpl; lia]]. unfold cnt_ok, cur_x. rewrite U7, U1, F4. simpl. replace (T - 1 =? -1) with false by lia.
           apply NE2. simpl. unfold cnt_ok, cur_x in Hn. rewrite I0 in Hn. simpl in Hn. rewrite Hn.
           rewrite !(num_edges_outside ts V); [reflexivity|right; unfold T; rewrite (v_bpT ts V); lia|lia].
    + (* from tree k to tree k - 1 *)
      assert (Hk : k = t_index t) by (subst k; replace (t_index t =? -1) with false by lia; reflexivity).
      clearbody k. subst k. set (k := t_index t) in *.
      assert (EP : prev_pos ts k = mkPos (k - 1) (bp ts (k - 1)) (bp ts k) DRev
                 (cnt_le (RO ts) (bp ts k) - 1) (cnt_lt (RO ts) (bp ts k) - 1) ORem
                 (cnt_le (LI ts) (bp ts k) - 1) (cnt_lt (LI ts) (bp ts k) - 1) OIns).
      { unfold prev_pos. replace (k - 1 =? -1) with false by lia. reflexivity. }
      rewrite EP. simpl p_index. replace (k - 1 =? -1) with false by lia. simpl negb. cbv iota.
      destruct (apply_diffs_prev (with_pos t (mkPos (k - 1) (bp ts (k - 1)) (bp ts k) DRev
                 (cnt_le (RO ts) (bp ts k) - 1) (cnt_lt (RO ts) (bp ts k) - 1) ORem
                 (cnt_le (LI ts) (bp ts k) - 1) (cnt_lt (LI ts) (bp ts k) - 1) OIns)) (bp ts k) (bp ts (k - 1)))
        as (t2 & D & F & A2 & NE2); try reflexivity.
      * exact A.
      * apply (v_bp_strict ts V); fold T; lia.
      * intros v Hv. pose proof (between ts V (k - 1) v ltac:(fold T; lia) Hv) as Hb.
        replace (k - 1 + 1) with k in Hb by lia. exact Hb.
      * rewrite D. cbn [bind].
        destruct F as (F1 & F2 & F3 & F4 & F5 & F6 & F7 & F8). simpl in F4.
        destruct (update_ok t2) as [t3 U]; [rewrite F4; simpl; fold T; lia|].
        rewrite U. cbn [bind]. eexists; eexists; split; [reflexivity|].
        pose proof U as U0. apply update_index in U as (U1 & U2 & U3 & U4 & U5 & U6 & U7).
        split; [|split].
        -- unfold tree_ok. rewrite U1, U2, U3, U4, F4. simpl. repeat split. right.
           split.
           ++ rewrite <- EP. apply prev_pos_ok; fold T; lia.
           ++ destruct A2 as [A21 A22]. unfold arrays_at. rewrite U5, U6. split; assumption.
        -- rewrite U1, F4. simpl. unfold prv. fold k. replace (k =? -1) with false by lia. reflexivity.
        -- intros [Hn Hs]. split; [|apply (sites_step t t2 t3 Hs); [exact F6|exact U0|rewrite F4; simpl; lia]]. unfold cnt_ok, cur_x. rewrite U7, U1, F4. simpl. replace (k - 1 =? -1) with false by lia.
           apply NE2. simpl. unfold cnt_ok, cur_x in Hn. fold k in Hn. replace (k =? -1) with false in Hn by lia. exact Hn.
Qed.

(* ---- tsk_search_sorted on the breakpoints ---- *)

Lemma search_loop_spec a v : forall fuel lo hi,
  0 <= lo < hi -> hi <= zlen a -> zn a lo <= v -> (hi < zlen a -> v < zn a hi) ->
  Z.of_nat fuel >= hi - lo ->
  exists r, search_loop fuel a (Fin v) lo hi = Ok r /\ lo <= r < hi /\ zn a r <= v /\
            (r + 1 < zlen a -> v < zn a (r + 1)).
Proof.
  induction fuel as [|n IH]; intros lo hi H1 H2 H3 H4 Hf; [lia|].
  cbn [search_loop]. destruct (1 <? hi - lo) eqn:E.
  - set (mid := (hi + lo) / 2).
    assert (Hm : lo < mid < hi) by (unfold mid; pose proof (Z.div_mod (hi + lo) 2 ltac:(lia)); pose proof (Z.mod_pos_bound (hi + lo) 2 ltac:(lia)); lia).
    rewrite get_zn by lia. cbn [bind]. unfold x_ge_z.
    destruct (zn a mid <=? v) eqn:C.
    + destruct (IH mid hi) as [r [R1 [R2 [R3 R4]]]]; try lia. exists r. split; [exact R1|]. split; [lia|]. auto.
    + destruct (IH lo mid) as [r [R1 [R2 [R3 R4]]]]; try lia. exists r. split; [exact R1|]. split; [lia|]. auto.
  - exists lo. split; [reflexivity|]. split; [lia|]. split; [exact H3|].
    intros Hlt. assert (hi = lo + 1) by lia. subst hi. apply H4. lia.
Qed.

Lemma seek_index_calc v : 0 <= v < ts_L ts ->
  exists k, 0 <= k < T /\ bp ts k <= v < bp ts (k + 1) /\
    exists i0 b0, search_sorted (ts_bps ts) (Fin v) = Ok i0 /\ get (ts_bps ts) i0 = Ok b0 /\
                  (if z_gt_x b0 (Fin v) then i0 - 1 else i0) = k.
Proof.
  intros Hv. pose proof (v_T ts V) as HT. fold T in HT.
  assert (HL : zlen (ts_bps ts) = T + 1) by (unfold T, num_trees; lia).
  destruct (search_loop_spec (ts_bps ts) v (S (length (ts_bps ts))) 0 (zlen (ts_bps ts))) as [r [R1 [R2 [R3 R4]]]];
    try lia.
  - fold (bp ts 0). rewrite (v_bp0 ts V). lia.
  - unfold zlen. lia.
  - fold (bp ts r) in R3. fold (bp ts (r + 1)) in R4.
    assert (Hr : r < T).
    { destruct (Z.eq_dec r T) as [->|]; [|lia]. unfold T in R3. rewrite (v_bpT ts V) in R3. lia. }
    exists r. split; [lia|]. split; [split; [exact R3|apply R4; lia]|].
    unfold search_sorted. replace (zlen (ts_bps ts) =? 0) with false by lia.
    rewrite R1. cbn [bind]. rewrite get_bp by (fold T; lia). cbn [bind].
    unfold z_lt_x. destruct (bp ts r <? v) eqn:C.
    + exists (r + 1), (bp ts (r + 1)). split; [reflexivity|]. split; [apply get_bp; fold T; lia|].
      unfold z_gt_x. specialize (R4 ltac:(lia)). replace (v <? bp ts (r + 1)) with true by lia. lia.
    + exists (r + 0), (bp ts r). split; [reflexivity|]. replace (r + 0) with r by lia.
      split; [apply get_bp; fold T; lia|].
      unfold z_gt_x. replace (v <? bp ts r) with false by lia. reflexivity.
Qed.

(* ---- tsk_tree_seek_from_null ---- *)

Lemma insert_only t y es_i f :
  arrays_at ts t (-1) -> NoDup es_i ->
  (forall e, In e es_i -> 0 <= e < num_edges ts) ->
  (forall e ed, In e es_i -> get (ts_edges ts) e = Ok ed -> f ed = true -> covers ed y = true) ->
  (forall e ed, get (ts_edges ts) e = Ok ed -> covers ed y = true -> In e es_i /\ f ed = true) ->
  exists t2, wloop ts (sel_ins f) es_i t = Ok t2 /\ frame t t2 /\ arrays_at ts t2 y /\
             (t_num_edges t = num_edges_at ts (-1) -> t_num_edges t2 = num_edges_at ts y).
Proof.
  intros A Nd Ri I1 I2.
  assert (Cm : forall e ed, get (ts_edges ts) e = Ok ed -> covers ed (-1) = false).
  { intros e ed G. pose proof (v_edge ts V _ _ G). unfold covers. lia. }
  assert (R1 : forall e ed, In e (@nil Z) -> get (ts_edges ts) e = Ok ed -> covers ed (-1) = true /\ covers ed y = false)
    by (intros e ed He; destruct He).
  assert (R2 : forall e ed, get (ts_edges ts) e = Ok ed -> covers ed (-1) = true -> covers ed y = false -> In e (@nil Z)).
  { intros e ed G C _. rewrite (Cm e ed G) in C. discriminate. }
  assert (Rr : forall e, In e (@nil Z) -> 0 <= e < num_edges ts) by (intros e He; destruct He).
  assert (J1 : forall e ed, In e es_i -> get (ts_edges ts) e = Ok ed -> f ed = true ->
                            covers ed y = true /\ covers ed (-1) = false).
  { intros e ed He G Hf. split; [apply (I1 e ed He G Hf)|apply (Cm e ed G)]. }
  assert (J2 : forall e ed, get (ts_edges ts) e = Ok ed -> covers ed y = true -> covers ed (-1) = false ->
                            In e es_i /\ f ed = true).
  { intros e ed G C _. apply I2; assumption. }
  destruct (transition ts V t (-1) y [] es_i f A Rr Ri R1 R2 I1 J2) as (t1 & t2 & W1 & W2 & F & A2).
  exists t2. split; [|split; [exact F|split; [exact A2|]]].
  - simpl in W1. injection W1 as <-. exact W2.
  - apply (transition_ne ts t (-1) y [] es_i f t1 t2); auto. constructor.
Qed.

Lemma tree_seek_from_null_ok t v : tree_ok t -> t_index t = -1 -> 0 <= v < ts_L ts ->
  exists t', tree_seek_from_null core ts t (Fin v) = Ok t' /\ tree_ok t' /\
             (0 <= t_index t' < T /\ bp ts (t_index t') <= v < bp ts (t_index t' + 1)) /\
             (ne_ok t -> ne_ok t').
Proof.
  intros H I0 Hv.
  destruct (tree_ok_cases t H) as [(_ & N & A)|(K & _)]; [|lia].
  destruct (seek_index_calc v Hv) as (k & Hk & Hb & i0 & b0 & S1 & S2 & S3).
  unfold tree_seek_from_null. rewrite S1. cbn [bind]. rewrite S2. cbn [bind]. rewrite S3.
  pose proof (scan_fuel_gt ts) as HF.
  destruct (x_le_half (Fin v) (ts_L ts)).
  - (* forward scan *)
    destruct (position_seek_forward_null_spec ts V (t_pos t) k N Hk) as (j1 & F & E).
    rewrite E. cbn [bind]. simpl p_in_ord. cbn [order_list bind]. simpl p_left. simpl p_in_start. simpl p_in_stop.
    set (a := bp ts k) in *. destruct F as (F1 & F2 & F3).
    pose proof (cnt_le_bounds (LI ts) a) as B. rewrite (zlen_LI ts V) in B.
    set (p := mkPos k a (bp ts (k + 1)) DFwd j1 (cnt_le (LI ts) a) OIns (cnt_le (RO ts) a) (cnt_le (RO ts) a) ORem).
    set (n := Z.to_nat (cnt_le (LI ts) a - j1)).
    set (es := map (zn (ts_I ts)) (positions j1 1 n)).
    assert (InE : forall e, In e es <-> exists pos, j1 <= pos < cnt_le (LI ts) a /\ zn (ts_I ts) pos = e).
    { intros e. unfold es. rewrite In_ids. split.
      - intros [i [Hi Ee]]. exists (j1 + 1 * i). split; [lia|exact Ee].
      - intros [pos [Hp Ee]]. exists (pos - j1). split; [lia|]. rewrite <- Ee. f_equal. lia. }
    destruct (insert_only (with_pos t p) a es (fun ed => (e_left ed <=? a) && (a <? e_right ed))) as (t2 & W & Fr & A2 & NE2).
    + exact A.
    + apply NoDup_ids; [apply (NoDup_I ts V)|left; reflexivity|].
      intros q Hq. apply In_positions in Hq as [i [Hi ->]]. rewrite (v_I_len ts V). fold M. lia.
    + intros e He. apply InE in He as [pos [Hp <-]]. apply (v_I_rng ts V). fold M. lia.
    + intros e ed _ _ C. exact C.
    + intros e ed G C. split; [|exact C]. apply InE.
      pose proof (get_ok_range _ _ _ G) as Re. destruct (v_I_surj ts V e Re) as [pos [Hp Ep]].
      exists pos. split; [|exact Ep].
      destruct (edge_of_I ts V pos Hp) as (ed' & G1 & G2 & E1 & E2). rewrite Ep, G in G2. injection G2 as <-.
      assert (R : 0 <= pos < zlen (LI ts)) by (rewrite (zlen_LI ts V); exact Hp).
      pose proof (proj2 (cnt_le_spec (LI ts) a pos (v_I_sorted ts V) R)).
      unfold covers in C. split; [|lia].
      destruct (Z_le_gt_dec j1 pos); [assumption|]. specialize (F2 pos ltac:(lia)). lia.
    + rewrite (edge_loop_ext ts 1 (ts_I ts) _ _ (body_insert_left_sel a)).
      rewrite (edge_loop_wloop_eq _ (ts_I ts) 1 n);
        [|left; reflexivity|lia|unfold scan_fuel; unfold M, num_edges, zlen in *; lia|].
      2:{ intros q Hq. apply In_positions in Hq as [i [Hi ->]]. rewrite (v_I_len ts V). fold M. lia. }
      fold es. rewrite W. cbn [bind].
      destruct Fr as (Fr1 & Fr2 & Fr3 & Fr4 & Fr5 & Fr6 & Fr7 & Fr8). simpl in Fr4.
      destruct (update_ok t2) as [t3 U]; [rewrite Fr4; simpl; fold T; lia|].
      rewrite U. eexists; split; [reflexivity|].
      pose proof U as U0. apply update_index in U as (U1 & U2 & U3 & U4 & U5 & U6 & U7).
      rewrite U1, Fr4. simpl. split; [|split; [split; [fold T; lia|exact Hb]|]].
      2:{ intros [Hn Hs]. split; [|apply (sites_step t t2 t3 Hs); [exact Fr6|exact U0|rewrite Fr4; simpl; lia]]. unfold cnt_ok, cur_x. rewrite U7, U1, Fr4. simpl. replace (k =? -1) with false by lia.
          apply NE2. simpl. unfold cnt_ok, cur_x in Hn. rewrite I0 in Hn. exact Hn. }
      unfold tree_ok. rewrite U1, U2, U3, U4, Fr4. simpl. repeat split. right. split.
      * unfold pos_ok; simpl. fold T. repeat split; lia.
      * destruct A2 as [A21 A22]. unfold arrays_at. rewrite U5, U6. split; assumption.
  - (* backward scan *)
    destruct (position_seek_backward_null_spec ts V (t_pos t) k N Hk) as (j1 & F & E).
    rewrite E. cbn [bind]. simpl p_in_ord. cbn [order_list bind]. simpl p_right. simpl p_in_start. simpl p_in_stop.
    set (b := bp ts (k + 1)) in *. destruct F as (F1 & F2 & F3).
    pose proof (cnt_lt_bounds (RO ts) b) as B. rewrite (zlen_RO ts V) in B.
    set (p := mkPos k (bp ts k) b DRev j1 (cnt_lt (RO ts) b - 1) ORem (cnt_lt (LI ts) b - 1) (cnt_lt (LI ts) b - 1) OIns).
    set (n := Z.to_nat (j1 - (cnt_lt (RO ts) b - 1))).
    set (es := map (zn (ts_O ts)) (positions j1 (-1) n)).
    assert (InE : forall e, In e es <-> exists pos, cnt_lt (RO ts) b - 1 < pos <= j1 /\ zn (ts_O ts) pos = e).
    { intros e. unfold es. rewrite In_ids. split.
      - intros [i [Hi Ee]]. exists (j1 + -1 * i). split; [lia|exact Ee].
      - intros [pos [Hp Ee]]. exists (j1 - pos). split; [lia|]. rewrite <- Ee. f_equal. lia. }
    destruct (insert_only (with_pos t p) (bp ts k) es (fun ed => (b <=? e_right ed) && (e_left ed <? b))) as (t2 & W & Fr & A2 & NE2).
    + exact A.
    + apply NoDup_ids; [apply (NoDup_O ts V)|right; reflexivity|].
      intros q Hq. apply In_positions in Hq as [i [Hi ->]]. rewrite (v_O_len ts V). fold M. lia.
    + intros e He. apply InE in He as [pos [Hp <-]]. apply (v_O_rng ts V). fold M. lia.
    + intros e ed _ G C. destruct (endpoints_of e ed G) as (EL & ER & R1 & R2).
      pose proof (between ts V k _ Hk EL). pose proof (between ts V k _ Hk ER). fold b in H0, H1.
      unfold covers. lia.
    + intros e ed G C. destruct (endpoints_of e ed G) as (EL & ER & R1 & R2).
      pose proof (between ts V k _ Hk EL). pose proof (between ts V k _ Hk ER). fold b in H0, H1.
      unfold covers in C. split; [|lia]. apply InE.
      pose proof (get_ok_range _ _ _ G) as Re. destruct (v_O_surj ts V e Re) as [pos [Hp Ep]].
      exists pos. split; [|exact Ep].
      destruct (edge_of_O ts V pos Hp) as (ed' & G1 & G2 & E1 & E2). rewrite Ep, G in G2. injection G2 as <-.
      assert (R : 0 <= pos < zlen (RO ts)) by (rewrite (zlen_RO ts V); exact Hp).
      pose proof (proj1 (cnt_lt_spec (RO ts) b pos (v_O_sorted ts V) R)).
      split; [lia|].
      destruct (Z_le_gt_dec pos j1); [assumption|]. specialize (F2 pos ltac:(fold M in Hp; lia)). lia.
    + rewrite (edge_loop_ext ts (-1) (ts_O ts) _ _ (body_insert_right_sel b)).
      rewrite (edge_loop_wloop_eq _ (ts_O ts) (-1) n);
        [|right; reflexivity|lia|unfold scan_fuel; unfold M, num_edges, zlen in *; lia|].
      2:{ intros q Hq. apply In_positions in Hq as [i [Hi ->]]. rewrite (v_O_len ts V). fold M. lia. }
      fold es. rewrite W. cbn [bind].
      destruct Fr as (Fr1 & Fr2 & Fr3 & Fr4 & Fr5 & Fr6 & Fr7 & Fr8). simpl in Fr4.
      destruct (update_ok t2) as [t3 U]; [rewrite Fr4; simpl; fold T; lia|].
      rewrite U. eexists; split; [reflexivity|].
      pose proof U as U0. apply update_index in U as (U1 & U2 & U3 & U4 & U5 & U6 & U7).
      rewrite U1, Fr4. simpl. split; [|split; [split; [fold T; lia|exact Hb]|]].
      2:{ intros [Hn Hs]. split; [|apply (sites_step t t2 t3 Hs); [exact Fr6|exact U0|rewrite Fr4; simpl; lia]]. unfold cnt_ok, cur_x. rewrite U7, U1, Fr4. simpl. replace (k =? -1) with false by lia.
          apply NE2. simpl. unfold cnt_ok, cur_x in Hn. rewrite I0 in Hn. exact Hn. }
      unfold tree_ok. rewrite U1, U2, U3, U4, Fr4. simpl. repeat split. right. split.
      * unfold pos_ok; simpl. fold T. fold b. repeat split; lia.
      * destruct A2 as [A21 A22]. unfold arrays_at. rewrite U5, U6. split; assumption.
Qed.

End Nav.
