(* C06 — the validity hypothesis of the theorems as a Prop, and its derivation from the
   boolean [valid_tsb] that the correspondence evaluates on every generated case. *)
From Coq Require Import List ZArith Bool Lia ZifyBool.
From TskVerif Require Import Base.Common C06.Model C06.ListFacts.
Import ListNotations.
Open Scope Z_scope.

Definition eleft (ts : tseq) (e : Z) : Z := match get (ts_edges ts) e with Ok ed => e_left ed | _ => 0 end.
Definition eright (ts : tseq) (e : Z) : Z := match get (ts_edges ts) e with Ok ed => e_right ed | _ => 0 end.
Definition LI ts := coords ts e_left (ts_I ts).     (* left coordinates in insertion order *)
Definition RI ts := coords ts e_right (ts_I ts).    (* right coordinates in insertion order *)
Definition RO ts := coords ts e_right (ts_O ts).    (* right coordinates in removal order *)
Definition LO ts := coords ts e_left (ts_O ts).     (* left coordinates in removal order *)
Definition bp ts k := zn (ts_bps ts) k.

Record valid_ts (ts : tseq) : Prop := {
  v_L : 0 < ts_L ts;
  v_N : 0 <= ts_N ts;
  v_edge : forall e ed, get (ts_edges ts) e = Ok ed ->
      0 <= e_left ed /\ e_left ed < e_right ed /\ e_right ed <= ts_L ts /\
      0 <= e_child ed < ts_N ts /\ 0 <= e_parent ed < ts_N ts;
  v_I_len : zlen (ts_I ts) = num_edges ts;
  v_I_rng : forall j, 0 <= j < num_edges ts -> 0 <= zn (ts_I ts) j < num_edges ts;
  v_I_surj : forall e, 0 <= e < num_edges ts -> exists j, 0 <= j < num_edges ts /\ zn (ts_I ts) j = e;
  v_I_sorted : sortedb (LI ts) = true;
  v_O_len : zlen (ts_O ts) = num_edges ts;
  v_O_rng : forall j, 0 <= j < num_edges ts -> 0 <= zn (ts_O ts) j < num_edges ts;
  v_O_surj : forall e, 0 <= e < num_edges ts -> exists j, 0 <= j < num_edges ts /\ zn (ts_O ts) j = e;
  v_O_sorted : sortedb (RO ts) = true;
  v_disj : forall e1 e2 ed1 ed2, get (ts_edges ts) e1 = Ok ed1 -> get (ts_edges ts) e2 = Ok ed2 ->
      e_child ed1 = e_child ed2 -> e_left ed1 < e_right ed2 -> e_left ed2 < e_right ed1 -> e1 = e2;
  v_T : 1 <= num_trees ts;
  v_bp0 : bp ts 0 = 0;
  v_bpT : bp ts (num_trees ts) = ts_L ts;
  v_bp_strict : forall i j, 0 <= i < j -> j <= num_trees ts -> bp ts i < bp ts j;
  v_bp_mem : forall e ed, get (ts_edges ts) e = Ok ed ->
      (exists i, 0 <= i <= num_trees ts /\ bp ts i = e_left ed) /\
      (exists i, 0 <= i <= num_trees ts /\ bp ts i = e_right ed);
  v_sites : 0 < ts_nsites ts -> zlen (ts_tree_sites ts) = num_trees ts;
  v_time : time_ok ts = true
}.

(* ---- reflection helpers ---- *)

Lemma In_zseq n e : In e (zseq n) <-> 0 <= e < n.
Proof.
  unfold zseq. rewrite in_map_iff. split.
  - intros [k [<- Hk]]. apply in_seq in Hk. lia.
  - intros H. exists (Z.to_nat e). split; [lia|]. apply in_seq. lia.
Qed.

Lemma memb_In x l : memb x l = true <-> In x l.
Proof.
  unfold memb. rewrite existsb_exists. split.
  - intros [y [Hy E]]. apply Z.eqb_eq in E. subst. exact Hy.
  - intros H. exists x. split; [exact H|apply Z.eqb_refl].
Qed.

Lemma In_zn l x : In x l -> exists j, 0 <= j < zlen l /\ zn l j = x.
Proof.
  intros H. apply In_get in H as [j Hj]. exists j. pose proof (get_ok_range _ _ _ Hj).
  split; [exact H|]. rewrite get_zn in Hj by exact H. inversion Hj; reflexivity.
Qed.

Lemma order_ok_spec M o : order_ok M o = true ->
  zlen o = M /\ (forall j, 0 <= j < M -> 0 <= zn o j < M) /\
  (forall e, 0 <= e < M -> exists j, 0 <= j < M /\ zn o j = e).
Proof.
  unfold order_ok. intros H. apply andb_true_iff in H as [H H3]. apply andb_true_iff in H as [H1 H2].
  apply Z.eqb_eq in H1. split; [exact H1|]. split.
  - intros j Hj. rewrite forallb_forall in H2. specialize (H2 (zn o j)).
    assert (In (zn o j) o) by (apply zn_In; lia). specialize (H2 H). lia.
  - intros e He. rewrite forallb_forall in H3. specialize (H3 e (proj2 (In_zseq M e) He)).
    apply memb_In in H3. apply In_zn in H3 as [j [Hj Ej]]. exists j. split; [lia|exact Ej].
Qed.

Lemma get_cons_0 {A} (a : A) l : get (a :: l) 0 = Ok a.
Proof. reflexivity. Qed.

Lemma get_cons_pos {A} (a : A) l j : 0 < j -> get (a :: l) j = get l (j - 1).
Proof.
  intros H. unfold get. destruct (j <? 0) eqn:E1; [lia|]. destruct (j - 1 <? 0) eqn:E2; [lia|].
  replace (Z.to_nat j) with (S (Z.to_nat (j - 1))) by lia. reflexivity.
Qed.

Definition dis_cond (a b : edge) : bool :=
  negb (e_child a =? e_child b) || (e_right a <=? e_left b) || (e_right b <=? e_left a).

Lemma disjointb_spec es : disjointb es = true ->
  forall e1 e2 ed1 ed2, get es e1 = Ok ed1 -> get es e2 = Ok ed2 -> e1 < e2 -> dis_cond ed1 ed2 = true.
Proof.
  unfold disjointb. induction es as [|a t IH]; intros H e1 e2 ed1 ed2 G1 G2 Hlt.
  - unfold get in G1. destruct (e1 <? 0); [discriminate|]. destruct (Z.to_nat e1); discriminate.
  - apply andb_true_iff in H as [Ha Ht].
    pose proof (get_ok_range _ _ _ G1) as R1.
    destruct (Z.eq_dec e1 0) as [->|N1].
    + rewrite get_cons_0 in G1. inversion G1; subst ed1.
      rewrite get_cons_pos in G2 by lia. rewrite forallb_forall in Ha.
      apply (Ha ed2). eapply get_In; eauto.
    + rewrite get_cons_pos in G1 by lia. rewrite get_cons_pos in G2 by lia.
      apply (IH Ht (e1 - 1) (e2 - 1)); auto; lia.
Qed.

Lemma strictb_tail a l : strictb (a :: l) = true -> strictb l = true.
Proof. destruct l; simpl; [reflexivity|]. intros H. apply andb_true_iff in H. apply H. Qed.

Lemma strictb_head_lt a l : strictb (a :: l) = true -> forall y, In y l -> a < y.
Proof.
  revert a; induction l as [|b l IH]; intros a H y Hy; [destruct Hy|].
  simpl in H. apply andb_true_iff in H as [H1 H2].
  destruct Hy as [->|Hy]; [lia|]. specialize (IH b H2 y Hy). lia.
Qed.

Lemma strictb_spec l : strictb l = true ->
  forall i j, 0 <= i < j -> j < zlen l -> zn l i < zn l j.
Proof.
  induction l as [|a l IH]; intros H i j Hij Hj; [unfold zlen in Hj; simpl in Hj; lia|].
  rewrite zlen_cons in Hj. rewrite (zn_cons_pos a l j) by lia.
  destruct (Z.eq_dec i 0) as [->|Ni].
  - rewrite zn_cons_0. apply (strictb_head_lt _ _ H). apply zn_In. lia.
  - rewrite zn_cons_pos by lia. apply IH; [eapply strictb_tail; eauto|lia|lia].
Qed.

Lemma last_zn l : l <> [] -> last l 0 = zn l (zlen l - 1).
Proof.
  induction l as [|a l IH]; intros H; [congruence|].
  destruct l as [|b l]; [reflexivity|].
  change (last (a :: b :: l) 0) with (last (b :: l) 0). rewrite IH by discriminate.
  rewrite (zlen_cons a). rewrite (zn_cons_pos a) by (rewrite zlen_cons; pose proof (zlen_nonneg l); lia).
  f_equal. lia.
Qed.

Lemma valid_tsb_sound ts : valid_tsb ts = true -> valid_ts ts.
Proof.
  unfold valid_tsb. intros H.
  repeat (match type of H with _ && _ = true => apply andb_true_iff in H; destruct H as [H ?H] end).
  match goal with [ X : time_ok _ = true |- _ ] => rename X into Htime end.
  match goal with [ X : (_ <=? 0) || _ = true |- _ ] => rename X into Hsites end.
  rename H into HL.
  match goal with [ X : forallb (fun ed => memb _ _ && memb _ _) _ = true |- _ ] => rename X into Hmem end.
  match goal with [ X : strictb _ = true |- _ ] => rename X into Hstrict end.
  match goal with [ X : (last _ _ =? _) = true |- _ ] => rename X into Hlast end.
  match goal with [ X : (hd _ _ =? _) = true |- _ ] => rename X into Hhd end.
  match goal with [ X : disjointb _ = true |- _ ] => rename X into Hdis end.
  match goal with [ X : sortedb (coords ts e_right _) = true |- _ ] => rename X into HsO end.
  match goal with [ X : sortedb (coords ts e_left _) = true |- _ ] => rename X into HsI end.
  match goal with [ X : order_ok _ (ts_O ts) = true |- _ ] => rename X into HoO end.
  match goal with [ X : order_ok _ (ts_I ts) = true |- _ ] => rename X into HoI end.
  match goal with [ X : forallb (edge_ok ts) _ = true |- _ ] => rename X into Hed end.
  apply order_ok_spec in HoO as (O1 & O2 & O3). apply order_ok_spec in HoI as (I1 & I2 & I3).
  assert (Hne : ts_bps ts <> []) by (destruct (ts_bps ts); [simpl in Hhd; lia|discriminate]).
  assert (H0 : bp ts 0 = 0).
  { unfold bp. destruct (ts_bps ts) as [|a l]; [congruence|]. simpl in Hhd. rewrite zn_cons_0. lia. }
  assert (HT : bp ts (num_trees ts) = ts_L ts).
  { unfold bp, num_trees. rewrite <- last_zn by exact Hne. lia. }
  assert (HT1 : 1 <= num_trees ts).
  { unfold num_trees. destruct (ts_bps ts) as [|a [|b l]]; [congruence| |rewrite !zlen_cons; pose proof (zlen_nonneg l); lia].
    unfold bp, num_trees in *. simpl in Hhd, Hlast. lia. }
  constructor; auto; try lia.
  - intros e ed G. rewrite forallb_forall in Hed. specialize (Hed ed (get_In _ _ _ G)).
    unfold edge_ok in Hed. lia.
  - intros e1 e2 ed1 ed2 G1 G2 Hc Ha Hb.
    destruct (Z.lt_trichotomy e1 e2) as [Hlt|[Heq|Hgt]]; [|exact Heq|]; exfalso.
    + pose proof (disjointb_spec _ Hdis _ _ _ _ G1 G2 Hlt) as D. unfold dis_cond in D. lia.
    + pose proof (disjointb_spec _ Hdis _ _ _ _ G2 G1 Hgt) as D. unfold dis_cond in D. lia.
  - intros i j Hij Hj. unfold bp. apply strictb_spec; [exact Hstrict|lia|unfold num_trees in Hj; lia].
  - intros e ed G. rewrite forallb_forall in Hmem. specialize (Hmem ed (get_In _ _ _ G)).
    apply andb_true_iff in Hmem as [M1 M2]. apply memb_In in M1, M2.
    apply In_zn in M1 as [i [Hi Ei]]. apply In_zn in M2 as [j [Hj Ej]].
    unfold bp, num_trees. split; [exists i|exists j]; split; auto; lia.
Qed.
