(* C06 — list / index facts: checked access vs [zn], counting in sorted lists, the scan
   loops of tsk_tree_position_* and the binary search. *)
From Coq Require Import List ZArith Bool Lia ZifyBool.
From TskVerif Require Import Base.Common C06.Model.
Import ListNotations.
Open Scope Z_scope.

Definition zn (l : list Z) (j : Z) : Z := nth (Z.to_nat j) l 0.

Lemma zlen_nonneg {A} (l : list A) : 0 <= zlen l.
Proof. unfold zlen; lia. Qed.

Lemma zlen_cons {A} (a : A) l : zlen (a :: l) = zlen l + 1.
Proof. unfold zlen; simpl length; lia. Qed.

Lemma zlen_map {A B} (f : A -> B) l : zlen (map f l) = zlen l.
Proof. unfold zlen; rewrite map_length; reflexivity. Qed.

Lemma zn_cons_0 a l : zn (a :: l) 0 = a.
Proof. reflexivity. Qed.

Lemma zn_cons_pos a l j : 0 < j -> zn (a :: l) j = zn l (j - 1).
Proof.
  intros H. unfold zn. replace (Z.to_nat j) with (S (Z.to_nat (j - 1))) by lia. reflexivity.
Qed.

Lemma get_zn (l : list Z) j : 0 <= j < zlen l -> get l j = Ok (zn l j).
Proof.
  intros H. unfold get, zn, zlen in *. destruct (j <? 0) eqn:E; [lia|].
  destruct (nth_error l (Z.to_nat j)) eqn:N.
  - f_equal. symmetry. apply nth_error_nth. exact N.
  - apply nth_error_None in N. lia.
Qed.

Lemma get_ok_range {A} (l : list A) j a : get l j = Ok a -> 0 <= j < zlen l.
Proof. intros H. apply get_ok_iff. eauto. Qed.

Lemma get_in_range {A} (l : list A) j : 0 <= j < zlen l -> exists a, get l j = Ok a.
Proof. intros H. apply get_ok_iff. exact H. Qed.

Lemma get_map {A B} (f : A -> B) l j a : get l j = Ok a -> get (map f l) j = Ok (f a).
Proof.
  unfold get. destruct (j <? 0); [discriminate|].
  rewrite nth_error_map. destruct (nth_error l (Z.to_nat j)); simpl; intros H; inversion H; reflexivity.
Qed.

Lemma zn_map_get {A} (f : A -> Z) (l : list A) j a : get l j = Ok a -> zn (map f l) j = f a.
Proof.
  intros H. pose proof (get_map f l j a H) as G.
  rewrite get_zn in G. - inversion G; reflexivity.
  - rewrite zlen_map. eapply get_ok_range; eauto.
Qed.

Lemma get_In {A} (l : list A) j a : get l j = Ok a -> In a l.
Proof.
  unfold get. destruct (j <? 0); [discriminate|].
  destruct (nth_error l (Z.to_nat j)) eqn:N; intros H; inversion H; subst.
  eapply nth_error_In; eauto.
Qed.

Lemma In_get {A} (l : list A) a : In a l -> exists j, get l j = Ok a.
Proof.
  intros H. apply In_nth_error in H as [n Hn]. exists (Z.of_nat n).
  unfold get. destruct (Z.of_nat n <? 0) eqn:E; [lia|]. rewrite Nat2Z.id, Hn. reflexivity.
Qed.

Lemma zn_In l j : 0 <= j < zlen l -> In (zn l j) l.
Proof. intros H. eapply get_In. apply get_zn; exact H. Qed.

Lemma list_eq_zn (l1 l2 : list Z) :
  zlen l1 = zlen l2 -> (forall j, 0 <= j < zlen l1 -> zn l1 j = zn l2 j) -> l1 = l2.
Proof.
  revert l2; induction l1 as [|a l1 IH]; intros [|b l2] Hl H; try reflexivity;
    try (rewrite zlen_cons in Hl; unfold zlen in Hl; simpl in Hl; lia).
  rewrite !zlen_cons in Hl. f_equal.
  - specialize (H 0). rewrite !zn_cons_0 in H. apply H. rewrite zlen_cons. pose proof (zlen_nonneg l1). lia.
  - apply IH; [lia|]. intros j Hj. specialize (H (j + 1)).
    rewrite !zn_cons_pos in H by lia. replace (j + 1 - 1) with j in H by lia. apply H.
    rewrite zlen_cons. lia.
Qed.

(* ---- set ---- *)

Lemma set_nat_spec {A} (l : list A) i a : (i < length l)%nat ->
  exists l', set_nat l i a = Some l' /\ length l' = length l /\
             forall k d, nth k l' d = if Nat.eqb k i then a else nth k l d.
Proof.
  revert i; induction l as [|h t IH]; intros [|i] H; simpl in H; try lia.
  - exists (a :: t). simpl. split; [reflexivity|]. split; [reflexivity|]. intros [|k] d; reflexivity.
  - destruct (IH i) as [t' [E [Hl Hn]]]; [lia|]. exists (h :: t'). simpl. rewrite E.
    split; [reflexivity|]. split; [simpl; lia|]. intros [|k] d; simpl; [reflexivity|]. apply Hn.
Qed.

Lemma set_spec (l : list Z) i a : 0 <= i < zlen l ->
  exists l', set l i a = Ok l' /\ zlen l' = zlen l /\
             forall k, 0 <= k -> zn l' k = if k =? i then a else zn l k.
Proof.
  intros H. unfold set. destruct (i <? 0) eqn:E; [lia|].
  destruct (set_nat_spec l (Z.to_nat i) a) as [l' [E1 [Hl Hn]]]; [unfold zlen in H; lia|].
  exists l'. rewrite E1. split; [reflexivity|]. split; [unfold zlen; lia|].
  intros k Hk. unfold zn. rewrite Hn.
  destruct (k =? i) eqn:Eki.
  - apply Z.eqb_eq in Eki. subst. rewrite Nat.eqb_refl. reflexivity.
  - apply Z.eqb_neq in Eki. destruct (Nat.eqb (Z.to_nat k) (Z.to_nat i)) eqn:En; [|reflexivity].
    apply Nat.eqb_eq in En. lia.
Qed.

Lemma set_ok_range {A} (l : list A) i a l' : set l i a = Ok l' -> 0 <= i < zlen l.
Proof.
  unfold set. destruct (i <? 0) eqn:E; [discriminate|]. apply Z.ltb_ge in E.
  destruct (set_nat l (Z.to_nat i) a) eqn:S; [|discriminate]. intros _.
  assert (Z.to_nat i < length l)%nat; [|unfold zlen; lia].
  clear E. revert l S. generalize (Z.to_nat i) as n. clear i.
  intros n l; revert n l0; induction l as [|h t IH]; intros [|n] l0 S; simpl in S; try discriminate; simpl; try lia.
  destruct (set_nat t n a) eqn:S'; [|discriminate]. apply IH in S'. lia.
Qed.

(* ---- counting in sorted lists ---- *)

Definition cnt_le (l : list Z) (x : Z) : Z := zlen (filter (fun v => v <=? x) l).
Definition cnt_lt (l : list Z) (x : Z) : Z := zlen (filter (fun v => v <? x) l).

Lemma sortedb_tail a l : sortedb (a :: l) = true -> sortedb l = true.
Proof. destruct l; simpl; [reflexivity|]. intros H. apply andb_true_iff in H. apply H. Qed.

Lemma sortedb_head_le a l : sortedb (a :: l) = true -> forall y, In y l -> a <= y.
Proof.
  revert a; induction l as [|b l IH]; intros a H y Hy; [destruct Hy|].
  simpl in H. apply andb_true_iff in H as [H1 H2]. apply Z.leb_le in H1.
  destruct Hy as [->|Hy]; [exact H1|]. specialize (IH b H2 y Hy). lia.
Qed.

Lemma filter_none (f : Z -> bool) l : (forall y, In y l -> f y = false) -> filter f l = [].
Proof.
  induction l as [|a l IH]; intros H; simpl; [reflexivity|].
  rewrite (H a (or_introl eq_refl)). apply IH. intros y Hy. apply H. right; exact Hy.
Qed.

Lemma cnt_bounds_gen (f : Z -> bool) l : 0 <= zlen (filter f l) <= zlen l.
Proof.
  split; [apply zlen_nonneg|]. unfold zlen.
  assert (length (filter f l) <= length l)%nat; [|lia].
  induction l as [|a l IH]; simpl; [lia|]. destruct (f a); simpl; lia.
Qed.

Lemma cnt_le_bounds l x : 0 <= cnt_le l x <= zlen l.
Proof. apply cnt_bounds_gen. Qed.
Lemma cnt_lt_bounds l x : 0 <= cnt_lt l x <= zlen l.
Proof. apply cnt_bounds_gen. Qed.

(* for a predicate that is downward closed along a sorted list, position j is counted
   exactly when it satisfies the predicate *)
Lemma cnt_spec_gen (f : Z -> bool) l :
  sortedb l = true ->
  (forall a b, a <= b -> f b = true -> f a = true) ->
  forall j, 0 <= j < zlen l -> (j < zlen (filter f l) <-> f (zn l j) = true).
Proof.
  intros Hs Hf. induction l as [|a l IH]; intros j Hj; [unfold zlen in Hj; simpl in Hj; lia|].
  rewrite zlen_cons in Hj. simpl filter.
  destruct (f a) eqn:Fa.
  - rewrite zlen_cons. destruct (Z.eq_dec j 0) as [->|Hn].
    + rewrite zn_cons_0. split; [intros _; exact Fa|]. intros _. pose proof (zlen_nonneg (filter f l)). lia.
    + rewrite zn_cons_pos by lia. specialize (IH (sortedb_tail _ _ Hs) (j - 1)).
      split; intros H.
      * apply IH; lia.
      * apply IH in H; lia.
  - assert (E : filter f l = []).
    { apply filter_none. intros y Hy. destruct (f y) eqn:Fy; [|reflexivity].
      pose proof (sortedb_head_le _ _ Hs y Hy). rewrite (Hf a y H Fy) in Fa. discriminate. }
    rewrite E. unfold zlen at 1; simpl. split; [lia|]. intros H. exfalso.
    destruct (Z.eq_dec j 0) as [->|Hn].
    + rewrite zn_cons_0 in H. congruence.
    + rewrite zn_cons_pos in H by lia.
      assert (In (zn l (j - 1)) l) by (apply zn_In; lia).
      pose proof (sortedb_head_le _ _ Hs _ H0). rewrite (Hf a _ H1 H) in Fa. discriminate.
Qed.

Lemma cnt_le_spec l x j : sortedb l = true -> 0 <= j < zlen l -> (j < cnt_le l x <-> zn l j <= x).
Proof.
  intros Hs Hj. unfold cnt_le. rewrite (cnt_spec_gen (fun v => v <=? x) l Hs); [|..|exact Hj].
  - apply Z.leb_le.
  - intros a b Hab H. apply Z.leb_le in H. apply Z.leb_le. lia.
Qed.

Lemma cnt_lt_spec l x j : sortedb l = true -> 0 <= j < zlen l -> (j < cnt_lt l x <-> zn l j < x).
Proof.
  intros Hs Hj. unfold cnt_lt. rewrite (cnt_spec_gen (fun v => v <? x) l Hs); [|..|exact Hj].
  - apply Z.ltb_lt.
  - intros a b Hab H. apply Z.ltb_lt in H. apply Z.ltb_lt. lia.
Qed.

Lemma cnt_lt_le l x : sortedb l = true -> cnt_lt l x <= cnt_le l x.
Proof.
  intros Hs. pose proof (cnt_lt_bounds l x). pose proof (cnt_le_bounds l x).
  destruct (Z_lt_le_dec (cnt_le l x) (cnt_lt l x)); [|lia]. exfalso.
  assert (Hj : 0 <= cnt_le l x < zlen l) by lia.
  pose proof (proj1 (cnt_lt_spec l x _ Hs Hj) l0).
  pose proof (proj2 (cnt_le_spec l x _ Hs Hj)). lia.
Qed.

(* two thresholds that no element separates give the same count *)
Lemma cnt_le_eq_lt l x y : sortedb l = true ->
  (forall v, In v l -> (v <= x <-> v < y)) -> cnt_le l x = cnt_lt l y.
Proof.
  intros Hs H. unfold cnt_le, cnt_lt. f_equal. apply filter_ext_in. intros v Hv.
  specialize (H v Hv). destruct (v <=? x) eqn:E1, (v <? y) eqn:E2; try reflexivity.
  - apply Z.leb_le in E1. apply Z.ltb_ge in E2. lia.
  - apply Z.leb_gt in E1. apply Z.ltb_lt in E2. lia.
Qed.

Lemma cnt_lt_all l x : (forall v, In v l -> v < x) -> cnt_lt l x = zlen l.
Proof.
  intros H. unfold cnt_lt. f_equal. induction l as [|a l IH]; simpl; [reflexivity|].
  assert (a <? x = true) by (apply Z.ltb_lt; apply H; left; reflexivity). rewrite H0. f_equal.
  apply IH. intros v Hv. apply H. right; exact Hv.
Qed.

Lemma cnt_le_all l x : (forall v, In v l -> v <= x) -> cnt_le l x = zlen l.
Proof.
  intros H. unfold cnt_le. f_equal. induction l as [|a l IH]; simpl; [reflexivity|].
  assert (a <=? x = true) by (apply Z.leb_le; apply H; left; reflexivity). rewrite H0. f_equal.
  apply IH. intros v Hv. apply H. right; exact Hv.
Qed.

Lemma cnt_lt_none l x : (forall v, In v l -> x <= v) -> cnt_lt l x = 0.
Proof.
  intros H. unfold cnt_lt. rewrite filter_none; [reflexivity|].
  intros y Hy. apply Z.ltb_ge. apply H; exact Hy.
Qed.

Lemma cnt_le_none l x : (forall v, In v l -> x < v) -> cnt_le l x = 0.
Proof.
  intros H. unfold cnt_le. rewrite filter_none; [reflexivity|].
  intros y Hy. apply Z.leb_gt. apply H; exact Hy.
Qed.

(* ---- the scan loops ---- *)

Lemma scan_up_spec fuel M test (f : Z -> bool) s :
  (forall j, s <= j < M -> test j = Ok (f j)) -> s <= M -> Z.of_nat fuel > M - s ->
  exists r, scan_up fuel M test s = Ok r /\ s <= r <= M /\
            (forall j, s <= j < r -> f j = true) /\ (r < M -> f r = false).
Proof.
  revert s; induction fuel as [|n IH]; intros s Ht Hs Hf; [lia|].
  simpl. destruct (s <? M) eqn:E.
  - apply Z.ltb_lt in E. rewrite (Ht s) by lia. simpl. destruct (f s) eqn:Fs.
    + destruct (IH (s + 1)) as [r [Hr [Hb [Ha Hn]]]]; [intros; apply Ht; lia|lia|lia|].
      exists r. split; [exact Hr|]. split; [lia|]. split; [|exact Hn].
      intros j Hj. destruct (Z.eq_dec j s) as [->|]; [exact Fs|apply Ha; lia].
    + exists s. split; [reflexivity|]. split; [lia|]. split; [intros; lia|]. intros _; exact Fs.
  - apply Z.ltb_ge in E. exists s. split; [reflexivity|]. split; [lia|]. split; intros; lia.
Qed.

Lemma scan_down_spec fuel test (f : Z -> bool) s :
  (forall j, 0 <= j <= s -> test j = Ok (f j)) -> -1 <= s -> Z.of_nat fuel > s + 1 ->
  exists r, scan_down fuel test s = Ok r /\ -1 <= r <= s /\
            (forall j, r < j <= s -> f j = true) /\ (0 <= r -> f r = false).
Proof.
  revert s; induction fuel as [|n IH]; intros s Ht Hs Hf; [lia|].
  simpl. destruct (0 <=? s) eqn:E.
  - apply Z.leb_le in E. rewrite (Ht s) by lia. simpl. destruct (f s) eqn:Fs.
    + destruct (IH (s - 1)) as [r [Hr [Hb [Ha Hn]]]]; [intros; apply Ht; lia|lia|lia|].
      exists r. split; [exact Hr|]. split; [lia|]. split; [|exact Hn].
      intros j Hj. destruct (Z.eq_dec j s) as [->|]; [exact Fs|apply Ha; lia].
    + exists s. split; [reflexivity|]. split; [lia|]. split; [intros; lia|]. intros _; exact Fs.
  - apply Z.leb_gt in E. exists s. split; [reflexivity|]. split; [lia|]. split; intros; lia.
Qed.

(* ---- scans over a sorted coordinate list land on the counts ---- *)

Lemma scan_up_eq_sorted fuel l x test :
  sortedb l = true ->
  (forall j, 0 <= j < zlen l -> test j = Ok (zn l j =? x)) ->
  Z.of_nat fuel > zlen l ->
  scan_up fuel (zlen l) test (cnt_lt l x) = Ok (cnt_le l x).
Proof.
  intros Hs Ht Hf. pose proof (cnt_lt_bounds l x) as B1. pose proof (cnt_le_bounds l x) as B2.
  pose proof (cnt_lt_le l x Hs) as B3.
  destruct (scan_up_spec fuel (zlen l) test (fun j => zn l j =? x) (cnt_lt l x)) as [r [Hr [Hb [Ha Hn]]]];
    [intros; apply Ht; lia|lia|lia|].
  rewrite Hr. f_equal.
  destruct (Z.lt_trichotomy r (cnt_le l x)) as [Hlt|[Heq|Hgt]]; [|exact Heq|]; exfalso.
  - assert (R : 0 <= r < zlen l) by lia. specialize (Hn ltac:(lia)).
    pose proof (proj1 (cnt_le_spec l x r Hs R) Hlt).
    pose proof (proj2 (cnt_lt_spec l x r Hs R)). lia.
  - assert (R : 0 <= cnt_le l x < zlen l) by lia.
    specialize (Ha (cnt_le l x) ltac:(lia)).
    pose proof (proj2 (cnt_le_spec l x _ Hs R)). lia.
Qed.

Lemma scan_up_le_sorted fuel l x test s :
  sortedb l = true ->
  (forall j, 0 <= j < zlen l -> test j = Ok (zn l j <=? x)) ->
  Z.of_nat fuel > zlen l -> 0 <= s <= cnt_le l x ->
  scan_up fuel (zlen l) test s = Ok (cnt_le l x).
Proof.
  intros Hs Ht Hf Hss. pose proof (cnt_le_bounds l x) as B2.
  destruct (scan_up_spec fuel (zlen l) test (fun j => zn l j <=? x) s) as [r [Hr [Hb [Ha Hn]]]];
    [intros; apply Ht; lia|lia|lia|].
  rewrite Hr. f_equal.
  destruct (Z.lt_trichotomy r (cnt_le l x)) as [Hlt|[Heq|Hgt]]; [|exact Heq|]; exfalso.
  - assert (R : 0 <= r < zlen l) by lia. specialize (Hn ltac:(lia)).
    pose proof (proj1 (cnt_le_spec l x r Hs R) Hlt). lia.
  - assert (R : 0 <= cnt_le l x < zlen l) by lia.
    specialize (Ha (cnt_le l x) ltac:(lia)).
    pose proof (proj2 (cnt_le_spec l x _ Hs R)). lia.
Qed.

Lemma scan_down_eq_sorted fuel l x test :
  sortedb l = true ->
  (forall j, 0 <= j < zlen l -> test j = Ok (zn l j =? x)) ->
  Z.of_nat fuel > zlen l ->
  scan_down fuel test (cnt_le l x - 1) = Ok (cnt_lt l x - 1).
Proof.
  intros Hs Ht Hf. pose proof (cnt_lt_bounds l x) as B1. pose proof (cnt_le_bounds l x) as B2.
  pose proof (cnt_lt_le l x Hs) as B3.
  destruct (scan_down_spec fuel test (fun j => zn l j =? x) (cnt_le l x - 1)) as [r [Hr [Hb [Ha Hn]]]];
    [intros; apply Ht; lia|lia|lia|].
  rewrite Hr. f_equal.
  destruct (Z.lt_trichotomy r (cnt_lt l x - 1)) as [Hlt|[Heq|Hgt]]; [|exact Heq|]; exfalso.
  - assert (R : 0 <= cnt_lt l x - 1 < zlen l) by lia.
    specialize (Ha (cnt_lt l x - 1) ltac:(lia)).
    pose proof (proj1 (cnt_lt_spec l x _ Hs R)). lia.
  - assert (R : 0 <= r < zlen l) by lia. specialize (Hn ltac:(lia)).
    pose proof (proj1 (cnt_le_spec l x r Hs R)).
    pose proof (proj2 (cnt_lt_spec l x r Hs R)). lia.
Qed.

Lemma scan_down_ge_sorted fuel l x test s :
  sortedb l = true ->
  (forall j, 0 <= j < zlen l -> test j = Ok (x <=? zn l j)) ->
  Z.of_nat fuel > zlen l -> cnt_lt l x - 1 <= s <= zlen l - 1 ->
  scan_down fuel test s = Ok (cnt_lt l x - 1).
Proof.
  intros Hs Ht Hf Hss. pose proof (cnt_lt_bounds l x) as B1.
  destruct (scan_down_spec fuel test (fun j => x <=? zn l j) s) as [r [Hr [Hb [Ha Hn]]]];
    [intros; apply Ht; lia|lia|lia|].
  rewrite Hr. f_equal.
  destruct (Z.lt_trichotomy r (cnt_lt l x - 1)) as [Hlt|[Heq|Hgt]]; [|exact Heq|]; exfalso.
  - assert (R : 0 <= cnt_lt l x - 1 < zlen l) by lia.
    specialize (Ha (cnt_lt l x - 1) ltac:(lia)).
    pose proof (proj1 (cnt_lt_spec l x _ Hs R)). lia.
  - assert (R : 0 <= r < zlen l) by lia. specialize (Hn ltac:(lia)).
    pose proof (proj2 (cnt_lt_spec l x r Hs R)). lia.
Qed.
