(* C06 — the subtree-sum recurrence of the count arrays (num_tracked_samples, num_samples):
       count[u] = own[u] + sum of count[v] over the children v of u        (0 <= u < N)
   has exactly one solution for an acyclic parent array, is preserved by the ancestor walks
   of tsk_tree_insert_edge / tsk_tree_remove_edge and re-established by tsk_tree_clear.
   Part A (this section): arithmetic of the sums, uniqueness, the walk. *)
From Coq Require Import List ZArith Bool Lia ZifyBool.
From TskVerif Require Import Base.Common C06.Model C06.BasicProofs C06.ListFacts C06.Valid
  C06.CursorProofs C06.WriteLoops C06.NumEdges C06.NavProofs C06.SeekProofs C06.Theorems
  C06.FullProofs.
Import ListNotations.
Open Scope Z_scope.

Definition sumz (f : Z -> Z) (l : list Z) : Z := fold_right (fun v acc => f v + acc) 0 l.

Lemma sumz_ext f g l : (forall v, In v l -> f v = g v) -> sumz f l = sumz g l.
Proof.
  induction l as [|a l IH]; intros H; [reflexivity|]. simpl.
  rewrite (H a (or_introl eq_refl)), IH; [reflexivity|]. intros; apply H; right; assumption.
Qed.

Lemma sumz_point f g a l : NoDup l -> In a l -> (forall v, In v l -> v <> a -> f v = g v) ->
  sumz g l = sumz f l + g a - f a.
Proof.
  induction 1 as [|x l Hx Hnd IH]; intros Hin H; [destruct Hin|]. simpl.
  destruct Hin as [->|Hin].
  - rewrite (sumz_ext g f l); [lia|]. intros v Hv. symmetry. apply H; [right; exact Hv|].
    intros ->. contradiction.
  - rewrite IH; [|assumption|intros v Hv; apply H; right; exact Hv].
    rewrite (H x); [lia|left; reflexivity|]. intros ->. contradiction.
Qed.

Lemma sumz_cons f a l : sumz f (a :: l) = f a + sumz f l.
Proof. reflexivity. Qed.

Lemma sumz_map f (h : Z -> Z) l : sumz f (map h l) = sumz (fun v => f (h v)) l.
Proof. induction l as [|a l IH]; simpl; [reflexivity|rewrite IH; reflexivity]. Qed.

Lemma zseq_succ n : 0 <= n -> zseq (n + 1) = 0 :: map (fun v => v + 1) (zseq n).
Proof.
  intros H. unfold zseq. replace (Z.to_nat (n + 1)) with (S (Z.to_nat n)) by lia.
  cbn [seq map]. f_equal. rewrite <- seq_shift, !map_map. apply map_ext. intros a. lia.
Qed.

(* Model.children_sum (a fold over the two arrays) as a sum over node ids *)
Lemma children_sum_sumz u : forall P C, length P = length C ->
  children_sum P C u = sumz (fun v => if zn P v =? u then zn C v else 0) (zseq (zlen P)).
Proof.
  unfold children_sum. induction P as [|a P IH]; intros [|c C] HL; try discriminate; [reflexivity|].
  simpl in HL. injection HL as HL. rewrite zlen_cons, zseq_succ by apply zlen_nonneg.
  rewrite sumz_cons, sumz_map. cbn [combine fold_right fst snd]. rewrite (IH C HL). rewrite !zn_cons_0.
  rewrite (sumz_ext (fun v => if zn (a :: P) (v + 1) =? u then zn (c :: C) (v + 1) else 0)
                    (fun v => if zn P v =? u then zn C v else 0)).
  - destruct (a =? u); lia.
  - intros v Hv. apply In_zseq in Hv. rewrite !zn_cons_pos by lia. replace (v + 1 - 1) with v by lia. reflexivity.
Qed.

Section Counts.
Variable ts : tseq.
Hypothesis V : valid_ts ts.
Variable own : Z -> Z.

Let N := ts_N ts.

Definition Sx (P C : list Z) (u : Z) : Z :=
  sumz (fun v => if zn P v =? u then zn C v else 0) (zseq (N + 1)).

(* the recurrence, short by d at node p (p = -1: the recurrence itself) *)
Definition rec_ex (P C : list Z) (p d : Z) : Prop :=
  forall u, 0 <= u < N -> zn C u + (if u =? p then d else 0) = own u + Sx P C u.
Definition rec (P C : list Z) : Prop := rec_ex P C (-1) 0.

Lemma N_nonneg : 0 <= N.
Proof. apply (v_N ts V). Qed.

Lemma In_nodes a : 0 <= a <= N -> In a (zseq (N + 1)).
Proof. intros H. apply In_zseq. lia. Qed.

(* one entry of the count array changes *)
Lemma Sx_set_C P C a x C' u : 0 <= a <= N -> zlen C = N + 1 -> set C a x = Ok C' ->
  Sx P C' u = Sx P C u + (if zn P a =? u then x - zn C a else 0).
Proof.
  intros Ha L S. destruct (set_spec C a x ltac:(lia)) as [C2 [E [L2 Z2]]]. rewrite S in E. injection E as <-.
  unfold Sx. rewrite (sumz_point (fun v => if zn P v =? u then zn C v else 0)
                                 (fun v => if zn P v =? u then zn C' v else 0) a);
    [|apply NoDup_zseq|apply In_nodes; exact Ha|].
  - rewrite Z2 by lia. rewrite Z.eqb_refl. destruct (zn P a =? u); lia.
  - intros v Hv Hne. apply In_zseq in Hv. rewrite (Z2 v) by lia. replace (v =? a) with false by lia. reflexivity.
Qed.

(* one entry of the parent array changes *)
Lemma Sx_set_P P C c q P' u : 0 <= c <= N -> zlen P = N + 1 -> set P c q = Ok P' ->
  Sx P' C u = Sx P C u + (if q =? u then zn C c else 0) - (if zn P c =? u then zn C c else 0).
Proof.
  intros Hc L S. destruct (set_spec P c q ltac:(lia)) as [P2 [E [L2 Z2]]]. rewrite S in E. injection E as <-.
  unfold Sx. rewrite (sumz_point (fun v => if zn P v =? u then zn C v else 0)
                                 (fun v => if zn P' v =? u then zn C v else 0) c);
    [|apply NoDup_zseq|apply In_nodes; exact Hc|].
  - rewrite Z2 by lia. rewrite Z.eqb_refl. lia.
  - intros v Hv Hne. apply In_zseq in Hv. rewrite (Z2 v) by lia. replace (v =? c) with false by lia. reflexivity.
Qed.

(* ---- the ancestor walk repairs a recurrence that is short by d at its start node ---- *)

Lemma walk_rec P : backed ts P -> forall fuel C d p, zlen C = N + 1 ->
  (p = -1 \/ 0 <= p < N) -> Z.of_nat fuel > wmeasure ts p -> rec_ex P C p d ->
  exists C', walk_up fuel P C d p = Ok C' /\ zlen C' = N + 1 /\ rec P C' /\ zn C' N = zn C N.
Proof.
  intros B. pose proof B as [L Bk]. fold N in L, Bk.
  induction fuel as [|f IH]; intros C d p LC Hp Hf R.
  - exfalso. unfold wmeasure in Hf. destruct (p =? -1) eqn:E; [lia|].
    destruct Hp as [->|Hp]; [lia|]. pose proof (proj1 (proj2 (time_facts ts V)) p Hp). fold N in H. lia.
  - cbn [walk_up]. unfold TSK_NULL. destruct (p =? -1) eqn:E.
    + exists C. split; [reflexivity|]. split; [exact LC|]. split; [|reflexivity].
      intros u Hu. specialize (R u Hu). replace (u =? -1) with false by lia.
      replace (u =? p) with false in R by lia. lia.
    + destruct Hp as [->|Hp]; [lia|].
      rewrite get_zn by lia. cbn [bind].
      destruct (set_spec C p (zn C p + d)) as [C1 [S1 [L1 Z1]]]; [lia|]. rewrite S1. cbn [bind].
      rewrite get_zn by lia. cbn [bind].
      pose proof (proj1 (proj2 (time_facts ts V)) p Hp) as Tp. fold N in Tp.
      assert (Hq : zn P p = -1 \/ 0 <= zn P p < N) by (destruct (Bk p ltac:(lia)) as [A|(A & _)]; auto).
      assert (R1 : rec_ex P C1 (zn P p) d).
      { intros u Hu. specialize (R u Hu).
        rewrite (Sx_set_C P C p (zn C p + d) C1 u ltac:(lia) LC S1). rewrite (Z1 u) by lia.
        rewrite (Z.eqb_sym (zn P p) u).
        destruct (u =? p) eqn:E1, (u =? zn P p) eqn:E2; try (assert (u = p) by lia; subst u); lia. }
      destruct (IH C1 d (zn P p) ltac:(lia) Hq) as (C' & W & LC' & RC' & NC'); [|exact R1|].
      * destruct (Bk p ltac:(lia)) as [A|(A & _ & At)].
        -- rewrite A. unfold wmeasure in *. rewrite E in Hf. simpl. lia.
        -- pose proof (proj1 (proj2 (time_facts ts V)) _ A) as Tq. fold N in Tq.
           unfold wmeasure in *. rewrite E in Hf. replace (zn P p =? -1) with false by lia. lia.
      * exists C'. split; [exact W|]. split; [exact LC'|]. split; [exact RC'|].
        rewrite NC'. rewrite (Z1 N) by (pose proof N_nonneg; lia). replace (N =? p) with false by lia. reflexivity.
Qed.

(* ---- uniqueness of the solution ---- *)

Lemma rec_unique P C1 C2 : backed ts P -> rec P C1 -> rec P C2 ->
  forall u, 0 <= u < N -> zn C1 u = zn C2 u.
Proof.
  intros [L Bk] R1 R2. fold N in L, Bk.
  assert (H : forall k u, 0 <= u < N -> tm ts u < Z.of_nat k -> zn C1 u = zn C2 u).
  { induction k as [|k IH]; intros u Hu Ht.
    - pose proof (proj1 (proj2 (time_facts ts V)) u Hu). fold N in H. lia.
    - specialize (R1 u Hu). specialize (R2 u Hu). replace (u =? -1) with false in R1, R2 by lia.
      assert (E : Sx P C1 u = Sx P C2 u).
      { unfold Sx. apply sumz_ext. intros v Hv. apply In_zseq in Hv.
        destruct (zn P v =? u) eqn:Ev; [|reflexivity].
        destruct (Bk v ltac:(lia)) as [A|(A & Av & At)]; [lia|].
        apply IH; [exact Av|]. replace (zn P v) with u in At by lia. lia. }
      lia. }
  intros u Hu. apply (H (Z.to_nat (tm ts u + 1)) u Hu). lia.
Qed.

(* ---- navigation along an equal upper part of two parent arrays ---- *)

Lemma walk_congr P P' k : backed ts P -> zlen P' = N + 1 ->
  (forall u, 0 <= u < N -> k <= tm ts u -> zn P u = zn P' u) ->
  forall fuel C d p, (p = -1 \/ (0 <= p < N /\ k <= tm ts p)) ->
  walk_up fuel P C d p = walk_up fuel P' C d p.
Proof.
  intros [L Bk] L' H. fold N in L, Bk.
  induction fuel as [|f IH]; intros C d p Hp; [reflexivity|].
  cbn [walk_up]. unfold TSK_NULL. destruct (p =? -1) eqn:E; [reflexivity|].
  destruct Hp as [->|[Hp Hk]]; [lia|].
  destruct (get C p) as [cu| | |]; cbn [bind]; try reflexivity.
  destruct (set C p (cu + d)) as [tr| | |]; cbn [bind]; try reflexivity.
  rewrite !get_zn by lia. cbn [bind]. rewrite <- (H p Hp Hk).
  apply IH. destruct (Bk p ltac:(lia)) as [A|(A & _ & At)]; [left; exact A|right; split; [exact A|lia]].
Qed.

(* ---- insert / remove at the level of the two arrays ---- *)

Lemma insert_rec P C c p P' C' fuel :
  backed ts P -> zlen C = N + 1 -> rec P C -> 0 <= c < N -> 0 <= p < N -> tm ts c < tm ts p ->
  zn P c = -1 -> set P c p = Ok P' -> Z.of_nat fuel > N + 1 ->
  walk_up fuel P C (zn C c) p = Ok C' ->
  backed ts P' /\ zlen C' = N + 1 /\ rec P' C' /\ zn C' N = zn C N.
Proof.
  intros B LC R Hc Hp Ht Hn S Hf W. pose proof B as [L Bk]. fold N in L, Bk.
  assert (B' : backed ts P') by (eapply backed_set; eauto; right; fold N; lia).
  pose proof B' as [L' _]. fold N in L'.
  destruct (set_spec P c p ltac:(lia)) as [P2 [E [_ Z2]]]. rewrite S in E. injection E as <-.
  rewrite (walk_congr P P' (tm ts c + 1) B L') in W.
  - destruct (walk_rec P' B' fuel C (zn C c) p LC (or_intror Hp)) as (C2 & W2 & LC2 & R2 & N2).
    + pose proof (wmeasure_bound ts V p (or_intror Hp)). fold N in H. lia.
    + intros u Hu. specialize (R u Hu). replace (u =? -1) with false in R by lia.
      rewrite (Sx_set_P P C c p P' u ltac:(lia) L S). rewrite Hn.
      replace (-1 =? u) with false by lia. rewrite (Z.eqb_sym p u). destruct (u =? p); lia.
    + rewrite W in W2. injection W2 as <-. auto.
  - intros u Hu Hk. assert (u <> c) by (intros ->; lia). rewrite (Z2 u) by lia.
    replace (u =? c) with false by lia. reflexivity.
  - right. split; [exact Hp|lia].
Qed.

Lemma remove_rec P C c p P' C' fuel :
  backed ts P -> zlen C = N + 1 -> rec P C -> 0 <= c < N -> 0 <= p < N ->
  zn P c = p -> set P c (-1) = Ok P' -> Z.of_nat fuel > N + 1 ->
  walk_up fuel P' C (- zn C c) p = Ok C' ->
  backed ts P' /\ zlen C' = N + 1 /\ rec P' C' /\ zn C' N = zn C N.
Proof.
  intros B LC R Hc Hp Hn S Hf W. pose proof B as [L Bk]. fold N in L, Bk.
  assert (B' : backed ts P') by (eapply backed_set; eauto).
  destruct (walk_rec P' B' fuel C (- zn C c) p LC (or_intror Hp)) as (C2 & W2 & LC2 & R2 & N2).
  - pose proof (wmeasure_bound ts V p (or_intror Hp)). fold N in H. lia.
  - intros u Hu. specialize (R u Hu). replace (u =? -1) with false in R by lia.
    rewrite (Sx_set_P P C c (-1) P' u ltac:(lia) L S). rewrite Hn.
    replace (-1 =? u) with false by lia. rewrite (Z.eqb_sym p u). destruct (u =? p); lia.
  - rewrite W in W2. injection W2 as <-. auto.
Qed.

End Counts.

(* ------------------------------------------------------------------------------ *)
(* Part B: the loops of mode [full] on the tracked counts                           *)

Fixpoint lloop (ts : tseq) (body : tree -> Z -> edge -> res tree) (es : list Z) (t : tree) : res tree :=
  match es with
  | [] => Ok t
  | e :: r => do ed <- get (ts_edges ts) e; do t' <- body t e ed; lloop ts body r t'
  end.

Lemma edge_loop_lloop ts body order d : d = 1 \/ d = -1 ->
  forall n fuel j t, (n < fuel)%nat ->
  (forall p, In p (positions j d n) -> 0 <= p < zlen order) ->
  edge_loop fuel ts d order body j (j + d * Z.of_nat n) t
  = lloop ts body (map (zn order) (positions j d n)) t.
Proof.
  intros Hd n; induction n as [|n IH]; intros fuel j t Hf Hp.
  - destruct fuel; [lia|]. simpl. replace (j + d * 0) with j by lia. rewrite Z.eqb_refl. reflexivity.
  - destruct fuel as [|f]; [lia|]. rewrite positions_S. cbn [map lloop edge_loop].
    assert (Hne : (j =? j + d * Z.of_nat (S n)) = false) by (destruct Hd; subst d; lia).
    rewrite Hne.
    rewrite get_zn by (apply Hp; rewrite positions_S; left; reflexivity). cbn [bind].
    destruct (get (ts_edges ts) (zn order j)); cbn [bind]; try reflexivity.
    destruct (body t (zn order j) a); cbn [bind]; try reflexivity.
    replace (j + d * Z.of_nat (S n)) with (j + d + d * Z.of_nat n) by (destruct Hd; subst d; lia).
    apply IH; [lia|]. intros p Hin. apply Hp. rewrite positions_S. right; exact Hin.
Qed.

Lemma edge_loop_lloop_eq ts body order d n fuel j stop t :
  d = 1 \/ d = -1 -> stop = j + d * Z.of_nat n -> (n < fuel)%nat ->
  (forall p, In p (positions j d n) -> 0 <= p < zlen order) ->
  edge_loop fuel ts d order body j stop t = lloop ts body (map (zn order) (positions j d n)) t.
Proof. intros Hd -> Hf Hp. apply edge_loop_lloop; assumption. Qed.

Section Tracked.
Variable ts : tseq.
Hypothesis V : valid_ts ts.
Let N := ts_N ts.

Definition trec := rec ts (own0 ts).

(* the count part of the invariant of a tree of mode [full] *)
Definition good (t : tree) : Prop :=
  backed ts (t_parent t) /\ zlen (t_tracked t) = N + 1 /\
  trec (t_parent t) (t_tracked t) /\ zn (t_tracked t) N = own0 ts N.

Lemma walk_fuel_gt t : zlen (t_parent t) = N + 1 -> Z.of_nat (walk_fuel t) > N + 1.
Proof. intros H. unfold walk_fuel. unfold zlen in H. lia. Qed.

Lemma remove_good t e ed t' : get (ts_edges ts) e = Ok ed -> good t ->
  zn (t_parent t) (e_child ed) = e_parent ed ->
  remove_edge full t (e_parent ed) (e_child ed) = Ok t' ->
  good t' /\ forall k, 0 <= k -> zn (t_parent t') k = if k =? e_child ed then -1 else zn (t_parent t) k.
Proof.
  intros G (B & LC & R & RN) Hpres H. destruct (edge_facts ts V e ed G) as (Hc & Hp & Ht). fold N in Hc, Hp.
  pose proof B as [L _]. fold N in L.
  unfold remove_edge in H. inv_bind H as par Hpar. inv_bind H as edg Hedg. inv_bind H as tr Htr.
  injection H as <-. rewrite get_zn in Htr by lia. cbn [bind] in Htr.
  destruct (remove_rec ts V (own0 ts) (t_parent t) (t_tracked t) (e_child ed) (e_parent ed) par tr (walk_fuel t)
              B LC R Hc Hp Hpres Hpar (walk_fuel_gt t L) Htr) as (B' & LC' & R' & N').
  split.
  - unfold good; simpl. fold N. split; [exact B'|]. split; [exact LC'|]. split; [exact R'|]. fold N in N'. lia.
  - simpl. destruct (set_spec (t_parent t) (e_child ed) (-1) ltac:(lia)) as [P2 [E [_ Z2]]].
    unfold TSK_NULL in Hpar. rewrite Hpar in E. injection E as <-. exact Z2.
Qed.

Lemma insert_good t e ed t' : get (ts_edges ts) e = Ok ed -> good t ->
  zn (t_parent t) (e_child ed) = -1 ->
  insert_edge full t (e_parent ed) (e_child ed) e = Ok t' ->
  good t' /\ forall k, 0 <= k -> zn (t_parent t') k = if k =? e_child ed then e_parent ed else zn (t_parent t) k.
Proof.
  intros G (B & LC & R & RN) Hnull H. destruct (edge_facts ts V e ed G) as (Hc & Hp & Ht). fold N in Hc, Hp.
  pose proof B as [L _]. fold N in L.
  unfold insert_edge in H. inv_bind H as tr Htr. inv_bind H as par Hpar. inv_bind H as edg Hedg.
  injection H as <-. rewrite get_zn in Htr by lia. cbn [bind] in Htr.
  destruct (insert_rec ts V (own0 ts) (t_parent t) (t_tracked t) (e_child ed) (e_parent ed) par tr (walk_fuel t)
              B LC R Hc Hp Ht Hnull Hpar (walk_fuel_gt t L) Htr) as (B' & LC' & R' & N').
  split.
  - unfold good; simpl. fold N. split; [exact B'|]. split; [exact LC'|]. split; [exact R'|]. fold N in N'. lia.
  - simpl. destruct (set_spec (t_parent t) (e_child ed) (e_parent ed) ltac:(lia)) as [P2 [E [_ Z2]]].
    rewrite Hpar in E. injection E as <-. exact Z2.
Qed.

(* distinct edges of the list have distinct children *)
Definition distinct_children (es : list Z) (f : edge -> bool) : Prop :=
  forall e1 e2 ed1 ed2, In e1 es -> In e2 es -> get (ts_edges ts) e1 = Ok ed1 -> get (ts_edges ts) e2 = Ok ed2 ->
    f ed1 = true -> f ed2 = true -> e_child ed1 = e_child ed2 -> e1 = e2.

Lemma rem_loop_good es : NoDup es -> (forall e, In e es -> 0 <= e < num_edges ts) ->
  distinct_children es (fun _ => true) ->
  forall t t', good t ->
  (forall e ed, In e es -> get (ts_edges ts) e = Ok ed -> zn (t_parent t) (e_child ed) = e_parent ed) ->
  lloop ts (body_remove full) es t = Ok t' ->
  good t' /\
  (forall k, 0 <= k -> (forall e ed, In e es -> get (ts_edges ts) e = Ok ed -> e_child ed <> k) ->
             zn (t_parent t') k = zn (t_parent t) k) /\
  (forall e ed, In e es -> get (ts_edges ts) e = Ok ed -> zn (t_parent t') (e_child ed) = -1).
Proof.
  induction 1 as [|e es He Hnd IH]; intros Hr Hd t t' Gd Hp H.
  - simpl in H. injection H as <-. split; [exact Gd|]. split; [auto|]. intros e ed [].
  - cbn [lloop] in H. inv_bind H as ed Hed. inv_bind H as t1 Ht1. unfold body_remove in Ht1.
    destruct (remove_good t e ed t1 Hed Gd (Hp e ed (or_introl eq_refl) Hed) Ht1) as [G1 Z1].
    pose proof (v_edge ts V _ _ Hed) as Ve.
    destruct (IH (fun x Hx => Hr x (or_intror Hx))) with (t := t1) (t' := t') as (G' & F' & Nl'); auto.
    + intros e1 e2 ed1 ed2 I1 I2. apply Hd; right; assumption.
    + intros e2 ed2 I2 G2. rewrite Z1 by (pose proof (v_edge ts V _ _ G2); lia).
      destruct (e_child ed2 =? e_child ed) eqn:E; [|apply (Hp e2 ed2); [right; exact I2|exact G2]].
      exfalso. assert (e2 = e) by (apply (Hd e2 e ed2 ed); auto; [right; exact I2|left; reflexivity|lia]).
      subst e2. contradiction.
    + split; [exact G'|]. split.
      * intros k Hk Hnk. rewrite F'; [|exact Hk|intros e2 ed2 I2; apply Hnk; right; exact I2].
        rewrite Z1 by exact Hk. replace (k =? e_child ed) with false; [reflexivity|].
        pose proof (Hnk e ed (or_introl eq_refl) Hed). lia.
      * intros e2 ed2 [<-|I2] G2.
        -- rewrite Hed in G2. injection G2 as <-.
           rewrite F'; [|lia|]. { rewrite Z1 by lia. rewrite Z.eqb_refl. reflexivity. }
           intros e3 ed3 I3 G3 Ec. assert (e3 = e) by (apply (Hd e3 e ed3 ed); auto; [right; exact I3|left; reflexivity]).
           subst e3. contradiction.
        -- apply (Nl' e2 ed2); assumption.
Qed.

(* a body that inserts the edge when [f] holds and does nothing otherwise *)
Definition ins_body (f : edge -> bool) (body : tree -> Z -> edge -> res tree) : Prop :=
  forall t e ed, body t e ed = if f ed then insert_edge full t (e_parent ed) (e_child ed) e else Ok t.

Lemma ins_loop_good f body es : ins_body f body -> (forall e, In e es -> 0 <= e < num_edges ts) ->
  NoDup es -> distinct_children es f ->
  forall t t', good t ->
  (forall e ed, In e es -> get (ts_edges ts) e = Ok ed -> f ed = true -> zn (t_parent t) (e_child ed) = -1) ->
  lloop ts body es t = Ok t' -> good t'.
Proof.
  intros Hb Hr Hnd. revert Hr. induction Hnd as [|e es He Hnd IH]; intros Hr Hd t t' Gd Hp H.
  - simpl in H. injection H as <-. exact Gd.
  - cbn [lloop] in H. inv_bind H as ed Hed. inv_bind H as t1 Ht1. rewrite Hb in Ht1.
    destruct (f ed) eqn:Ff.
    + destruct (insert_good t e ed t1 Hed Gd (Hp e ed (or_introl eq_refl) Hed Ff) Ht1) as [G1 Z1].
      apply (IH (fun x Hx => Hr x (or_intror Hx))) with (t := t1); auto.
      * intros e1 e2 ed1 ed2 I1 I2. apply Hd; right; assumption.
      * intros e2 ed2 I2 G2 F2. rewrite Z1 by (pose proof (v_edge ts V _ _ G2); lia).
        destruct (e_child ed2 =? e_child ed) eqn:E; [|apply (Hp e2 ed2); [right; exact I2|exact G2|exact F2]].
        exfalso. assert (e2 = e) by (apply (Hd e2 e ed2 ed); auto; [right; exact I2|left; reflexivity|lia]).
        subst e2. contradiction.
    + injection Ht1 as <-. apply (IH (fun x Hx => Hr x (or_intror Hx))) with (t := t); auto.
      * intros e1 e2 ed1 ed2 I1 I2. apply Hd; right; assumption.
      * intros e2 ed2 I2. apply Hp. right; exact I2.
Qed.

(* THE TRANSITION LEMMA FOR THE COUNTS: the two loops that turn the arrays of x into those
   of y keep the recurrence *)
Lemma transition_good t x y es_r es_i f body t1 t2 :
  ins_body f body ->
  NoDup es_r -> NoDup es_i ->
  (forall e, In e es_r -> 0 <= e < num_edges ts) ->
  (forall e, In e es_i -> 0 <= e < num_edges ts) ->
  (forall e ed, In e es_r -> get (ts_edges ts) e = Ok ed -> covers ed x = true /\ covers ed y = false) ->
  (forall e ed, get (ts_edges ts) e = Ok ed -> covers ed x = true -> covers ed y = false -> In e es_r) ->
  (forall e ed, In e es_i -> get (ts_edges ts) e = Ok ed -> f ed = true ->
                covers ed y = true /\ covers ed x = false) ->
  t_parent t = parent_at ts x -> good t ->
  lloop ts (body_remove full) es_r t = Ok t1 -> lloop ts body es_i t1 = Ok t2 -> good t2.
Proof.
  intros Hb Nr Ni Rr Ri R1 R2 J1 Ap Gd W1 W2.
  assert (Dr : distinct_children es_r (fun _ => true)).
  { intros e1 e2 ed1 ed2 I1 I2 G1 G2 _ _ Ec.
    destruct (R1 e1 ed1 I1 G1) as [C1 _]. destruct (R1 e2 ed2 I2 G2) as [C2 _].
    unfold covers in C1, C2. apply (v_disj ts V e1 e2 ed1 ed2 G1 G2 Ec); lia. }
  assert (Di : distinct_children es_i f).
  { intros e1 e2 ed1 ed2 I1 I2 G1 G2 F1 F2 Ec.
    destruct (J1 e1 ed1 I1 G1 F1) as [C1 _]. destruct (J1 e2 ed2 I2 G2 F2) as [C2 _].
    unfold covers in C1, C2. apply (v_disj ts V e1 e2 ed1 ed2 G1 G2 Ec); lia. }
  destruct (rem_loop_good es_r Nr Rr Dr t t1 Gd) as (G1 & F1 & N1); [|exact W1|].
  { intros e ed I G. destruct (R1 e ed I G) as [C _]. rewrite Ap. apply (proj1 (at_some ts V x e ed G C)). }
  apply (ins_loop_good f body es_i Hb Ri Ni Di t1 t2 G1); [|exact W2].
  intros e ed I G Ff. destruct (J1 e ed I G Ff) as [Cy Cx].
  pose proof (v_edge ts V _ _ G) as Ve.
  destruct (at_cases ts x (e_child ed)) as [(e' & ed' & G' & C' & Ch')|None].
  - (* an edge e' covers x above the same child: it cannot cover y, so it was removed *)
    assert (Cy' : covers ed' y = false).
    { destruct (covers ed' y) eqn:Cy'; [|reflexivity]. exfalso.
      assert (e' = e) by (unfold covers in Cy', Cy; apply (v_disj ts V e' e ed' ed G' G Ch'); lia).
      subst e'. rewrite G in G'. injection G' as <-. congruence. }
    rewrite <- Ch'. apply (N1 e' ed' (R2 e' ed' G' C' Cy') G').
  - rewrite F1; [|lia|].
    + rewrite Ap. apply (proj1 (at_none ts x (e_child ed) ltac:(lia) None)).
    + intros e' ed' I' G' Ec. destruct (R1 e' ed' I' G') as [C' _]. rewrite (None e' ed' G' Ec) in C'. discriminate.
Qed.

End Tracked.

(* ------------------------------------------------------------------------------ *)
(* Part C: tsk_tree_clear (with fix fcbdf2e) re-establishes the initial counts        *)

Lemma own_tracked_zn P Ca : forall tr flags k j, 0 <= j < zlen tr ->
  zn (own_tracked P Ca k tr flags) j =
  if (j <? zlen flags) && Z.odd (zn flags j) then zn tr j - children_sum P Ca (k + j) else zn tr j.
Proof.
  induction tr as [|x tr IH]; intros flags k j Hj; [unfold zlen in Hj; simpl in Hj; lia|].
  rewrite zlen_cons in Hj. destruct flags as [|fl flags].
  - simpl. unfold zlen at 1; simpl. replace (j <? 0) with false by lia. reflexivity.
  - cbn [own_tracked]. rewrite zlen_cons. destruct (Z.eq_dec j 0) as [->|Hn].
    + rewrite !zn_cons_0. replace (k + 0) with k by lia.
      pose proof (zlen_nonneg flags). replace (0 <? zlen flags + 1) with true by lia. reflexivity.
    + rewrite !zn_cons_pos by lia. rewrite IH by lia.
      replace (k + 1 + (j - 1)) with (k + j) by lia.
      replace (j - 1 <? zlen flags) with (j <? zlen flags + 1) by lia. reflexivity.
Qed.

Lemma clear_tracked_zn ts tr j : 0 <= j < zlen tr ->
  zn (clear_tracked ts tr) j =
  if j <? zlen (ts_flags ts) then (if Z.odd (zn (ts_flags ts) j) then zn tr j else 0) else zn tr j.
Proof.
  unfold clear_tracked. generalize (ts_flags ts). revert j.
  induction tr as [|x tr IH]; intros j flags Hj; [unfold zlen in Hj; simpl in Hj; lia|].
  rewrite zlen_cons in Hj. destruct flags as [|fl flags].
  - unfold zlen at 1; simpl. replace (j <? 0) with false by lia. reflexivity.
  - rewrite zlen_cons. destruct (Z.eq_dec j 0) as [->|Hn].
    + rewrite !zn_cons_0. pose proof (zlen_nonneg flags). replace (0 <? zlen flags + 1) with true by lia. reflexivity.
    + rewrite !zn_cons_pos by lia. rewrite IH by lia.
      replace (j - 1 <? zlen flags) with (j <? zlen flags + 1) by lia. reflexivity.
Qed.

Lemma sumz_zero f l : (forall v, In v l -> f v = 0) -> sumz f l = 0.
Proof.
  induction l as [|a l IH]; intros H; [reflexivity|]. simpl.
  rewrite (H a (or_introl eq_refl)), IH; [reflexivity|]. intros; apply H; right; assumption.
Qed.

Section Clear.
Variable ts : tseq.
Hypothesis V : valid_ts ts.
Let N := ts_N ts.

Lemma flag_facts : zlen (ts_flags ts) = N /\
  forall u, 0 <= u < N -> Z.odd (zn (ts_flags ts) u) = false -> own0 ts u = 0.
Proof.
  pose proof (v_time ts V) as H. unfold time_ok in H.
  apply andb_true_iff in H as [H H6]. apply andb_true_iff in H as [H H5].
  split; [fold N; lia|]. intros u Hu Hodd. rewrite forallb_forall in H6.
  specialize (H6 u (proj2 (In_zseq _ _) Hu)). unfold flagb in H6.
  rewrite get_zn in H6 by (fold N in H5; lia). rewrite Hodd in H6. simpl in H6. lia.
Qed.

Lemma own0_zn u : 0 <= u <= N -> own0 ts u = zn (ts_tracked0 ts) u.
Proof.
  intros Hu. unfold own0. rewrite get_zn; [reflexivity|].
  pose proof (proj2 (proj2 (proj2 (time_facts ts V)))). fold N in H. lia.
Qed.

(* the cleared state: all links null, counts = the option array *)
Lemma good_null t : t_parent t = repeat TSK_NULL (Z.to_nat (N + 1)) -> t_tracked t = ts_tracked0 ts -> good ts t.
Proof.
  intros Hp Ht. pose proof (v_N ts V) as HN. fold N in HN. unfold good. rewrite Hp, Ht.
  assert (Bn : backed ts (repeat TSK_NULL (Z.to_nat (N + 1)))) by (apply backed_null; fold N; lia).
  split; [exact Bn|]. split; [apply (proj2 (proj2 (proj2 (time_facts ts V))))|].
  split; [|symmetry; apply own0_zn; lia].
  intros u Hu. replace (u =? -1) with false by lia. rewrite own0_zn by (fold N; lia).
  unfold Sx. rewrite sumz_zero; [lia|]. intros v Hv. apply In_zseq in Hv.
  destruct Bn as [_ Bk]. destruct (Bk v ltac:(fold N; lia)) as [A|(A & _)]; [rewrite A|].
  - replace (-1 =? u) with false by lia. reflexivity.
  - exfalso. unfold zn in A. rewrite nth_indep with (d' := TSK_NULL) in A by (rewrite repeat_length; lia).
    rewrite nth_repeat in A. unfold TSK_NULL in A. lia.
Qed.

Lemma clear_good t : good ts t ->
  (t_num_edges t <= 0 -> forall k, 0 <= k <= N -> zn (t_parent t) k = -1) ->
  t_tracked (tree_clear full ts t) = ts_tracked0 ts /\ good ts (tree_clear full ts t).
Proof.
  intros (B & LC & R & RN) Hnull. pose proof B as [L Bk]. fold N in L, Bk, LC, RN.
  pose proof (v_N ts V) as HN. fold N in HN.
  destruct flag_facts as [LF Fz].
  assert (E : t_tracked (tree_clear full ts t) = ts_tracked0 ts).
  { unfold tree_clear; simpl. apply list_eq_zn.
    - unfold zlen. rewrite clear_tracked_len.
      destruct (0 <? t_num_edges t); [rewrite own_tracked_len|];
        pose proof (proj2 (proj2 (proj2 (time_facts ts V)))); unfold zlen in *; fold N in H; lia.
    - intros j Hj.
      assert (Hj' : 0 <= j <= N).
      { unfold zlen in Hj. rewrite clear_tracked_len in Hj.
        destruct (0 <? t_num_edges t); [rewrite own_tracked_len in Hj|]; unfold zlen in LC; lia. }
      rewrite <- own0_zn by exact Hj'.
      assert (Sj : j < N -> t_tracked t <> [] -> zn (t_tracked t) j - Sx ts (t_parent t) (t_tracked t) j = own0 ts j).
      { intros Hl _. specialize (R j ltac:(fold N; lia)). replace (j =? -1) with false in R by lia. fold N in R. lia. }
      destruct (0 <? t_num_edges t) eqn:Ene.
      + rewrite clear_tracked_zn by (unfold zlen; rewrite own_tracked_len; unfold zlen in LC; lia).
        rewrite own_tracked_zn by lia. rewrite LF.
        destruct (j <? N) eqn:Ej.
        * cbn [andb]. destruct (Z.odd (zn (ts_flags ts) j)) eqn:Eo; [|symmetry; apply Fz; [lia|exact Eo]].
          rewrite children_sum_sumz by (unfold zlen in L, LC; lia). rewrite L. replace (0 + j) with j by lia.
          specialize (R j ltac:(fold N; lia)). replace (j =? -1) with false in R by lia.
          unfold Sx in R. fold N in R. lia.
        * cbn [andb]. assert (j = N) by lia. subst j. exact RN.
      + rewrite clear_tracked_zn by lia. rewrite LF.
        destruct (j <? N) eqn:Ej; [|assert (j = N) by lia; subst j; exact RN].
        destruct (Z.odd (zn (ts_flags ts) j)) eqn:Eo; [|symmetry; apply Fz; [lia|exact Eo]].
        specialize (R j ltac:(fold N; lia)). replace (j =? -1) with false in R by lia.
        unfold Sx in R. rewrite sumz_zero in R; [fold N in R; lia|].
        intros v Hv. apply In_zseq in Hv. rewrite (Hnull ltac:(lia) v ltac:(fold N; lia)).
        replace (-1 =? j) with false by lia. reflexivity. }
  split; [exact E|]. apply good_null; [|exact E].
  unfold tree_clear; simpl. rewrite map_const. f_equal. unfold zlen in L. lia.
Qed.

End Clear.

(* ------------------------------------------------------------------------------ *)
(* Part D: which edges the loops of next / prev / seek_from_null visit (any mode)   *)

Section Lists.
Variable ts : tseq.
Hypothesis V : valid_ts ts.
Let M := num_edges ts.
Let T := num_trees ts.

Definition diff_lists (x y : Z) (es_r es_i : list Z) (f : edge -> bool) : Prop :=
  NoDup es_r /\ NoDup es_i /\
  (forall e, In e es_r -> 0 <= e < num_edges ts) /\ (forall e, In e es_i -> 0 <= e < num_edges ts) /\
  (forall e ed, In e es_r -> get (ts_edges ts) e = Ok ed -> covers ed x = true /\ covers ed y = false) /\
  (forall e ed, get (ts_edges ts) e = Ok ed -> covers ed x = true -> covers ed y = false -> In e es_r) /\
  (forall e ed, In e es_i -> get (ts_edges ts) e = Ok ed -> f ed = true ->
                covers ed y = true /\ covers ed x = false).

Lemma next_lists t x b :
  x < b -> (forall v, endpoint ts v -> (v <= x <-> v < b)) ->
  p_out_ord (t_pos t) = ORem -> p_out_start (t_pos t) = cnt_lt (RO ts) b ->
  p_out_stop (t_pos t) = cnt_le (RO ts) b ->
  p_in_ord (t_pos t) = OIns -> p_in_start (t_pos t) = cnt_lt (LI ts) b ->
  p_in_stop (t_pos t) = cnt_le (LI ts) b ->
  exists es_r es_i, diff_lists x b es_r es_i (fun _ => true) /\
    forall m, apply_diffs m ts 1 t =
              (do t1 <- lloop ts (body_remove m) es_r t; lloop ts (body_insert m) es_i t1).
Proof.
  intros Hxb Hbet O1 O2 O3 I1 I2 I3.
  pose proof (cnt_lt_bounds (RO ts) b) as B1. pose proof (cnt_le_bounds (RO ts) b) as B2.
  pose proof (cnt_lt_bounds (LI ts) b) as B3. pose proof (cnt_le_bounds (LI ts) b) as B4.
  pose proof (cnt_lt_le (RO ts) b (v_O_sorted ts V)) as B5.
  pose proof (cnt_lt_le (LI ts) b (v_I_sorted ts V)) as B6.
  rewrite (zlen_RO ts V) in B1, B2. rewrite (zlen_LI ts V) in B3, B4.
  pose proof (scan_fuel_gt ts) as HF.
  set (nr := Z.to_nat (cnt_le (RO ts) b - cnt_lt (RO ts) b)).
  set (ni := Z.to_nat (cnt_le (LI ts) b - cnt_lt (LI ts) b)).
  set (es_r := map (zn (ts_O ts)) (positions (cnt_lt (RO ts) b) 1 nr)).
  set (es_i := map (zn (ts_I ts)) (positions (cnt_lt (LI ts) b) 1 ni)).
  assert (PR : forall p, In p (positions (cnt_lt (RO ts) b) 1 nr) -> 0 <= p < zlen (ts_O ts)).
  { intros p Hp. apply In_positions in Hp as [i [Hi ->]]. rewrite (v_O_len ts V). fold M. lia. }
  assert (PI : forall p, In p (positions (cnt_lt (LI ts) b) 1 ni) -> 0 <= p < zlen (ts_I ts)).
  { intros p Hp. apply In_positions in Hp as [i [Hi ->]]. rewrite (v_I_len ts V). fold M. lia. }
  assert (InR : forall e, In e es_r <-> exists pos, cnt_lt (RO ts) b <= pos < cnt_le (RO ts) b /\ zn (ts_O ts) pos = e).
  { intros e. unfold es_r. rewrite In_ids. split.
    - intros [i [Hi E]]. exists (cnt_lt (RO ts) b + 1 * i). split; [lia|exact E].
    - intros [pos [Hp E]]. exists (pos - cnt_lt (RO ts) b). split; [lia|]. rewrite <- E. f_equal. lia. }
  assert (InI : forall e, In e es_i <-> exists pos, cnt_lt (LI ts) b <= pos < cnt_le (LI ts) b /\ zn (ts_I ts) pos = e).
  { intros e. unfold es_i. rewrite In_ids. split.
    - intros [i [Hi E]]. exists (cnt_lt (LI ts) b + 1 * i). split; [lia|exact E].
    - intros [pos [Hp E]]. exists (pos - cnt_lt (LI ts) b). split; [lia|]. rewrite <- E. f_equal. lia. }
  exists es_r, es_i. split.
  - unfold diff_lists. repeat split.
    + apply NoDup_ids; [apply (NoDup_O ts V)|left; reflexivity|exact PR].
    + apply NoDup_ids; [apply (NoDup_I ts V)|left; reflexivity|exact PI].
    + apply InR in H as [pos [Hp <-]]. apply (v_O_rng ts V). fold M. lia.
    + apply InR in H as [pos [Hp <-]]. apply (v_O_rng ts V). fold M. lia.
    + apply InI in H as [pos [Hp <-]]. apply (v_I_rng ts V). fold M. lia.
    + apply InI in H as [pos [Hp <-]]. apply (v_I_rng ts V). fold M. lia.
    + apply InR in H. apply (O_range_iff ts V b e ed H0) in H.
      destruct (endpoints_of ts V e ed H0) as (EL & ER & R1 & R2). pose proof (Hbet _ EL). unfold covers. lia.
    + apply InR in H. apply (O_range_iff ts V b e ed H0) in H.
      destruct (endpoints_of ts V e ed H0) as (EL & ER & R1 & R2). pose proof (Hbet _ EL). unfold covers. lia.
    + intros e ed G Cx Cy. apply InR. apply (O_range_iff ts V b e ed G).
      destruct (endpoints_of ts V e ed G) as (EL & ER & R1' & R2').
      pose proof (Hbet _ ER). unfold covers in Cx, Cy. lia.
    + apply InI in H. apply (I_range_iff ts V b e ed H0) in H.
      destruct (endpoints_of ts V e ed H0) as (EL & ER & R1' & R2'). unfold covers. lia.
    + apply InI in H. apply (I_range_iff ts V b e ed H0) in H.
      destruct (endpoints_of ts V e ed H0) as (EL & ER & R1' & R2'). unfold covers. lia.
  - intros m. unfold apply_diffs. rewrite O1, O2, O3, I1, I2, I3. cbn [order_list bind].
    rewrite (edge_loop_lloop_eq ts (body_remove m) (ts_O ts) 1 nr);
      [|left; reflexivity|lia|unfold scan_fuel; unfold M, num_edges, zlen in *; lia|exact PR].
    fold es_r. destruct (lloop ts (body_remove m) es_r t); cbn [bind]; try reflexivity.
    rewrite (edge_loop_lloop_eq ts (body_insert m) (ts_I ts) 1 ni);
      [|left; reflexivity|lia|unfold scan_fuel; unfold M, num_edges, zlen in *; lia|exact PI].
    reflexivity.
Qed.

Lemma prev_lists t x y :
  y < x -> (forall v, endpoint ts v -> (v <= y <-> v < x)) ->
  p_out_ord (t_pos t) = OIns -> p_out_start (t_pos t) = cnt_le (LI ts) x - 1 ->
  p_out_stop (t_pos t) = cnt_lt (LI ts) x - 1 ->
  p_in_ord (t_pos t) = ORem -> p_in_start (t_pos t) = cnt_le (RO ts) x - 1 ->
  p_in_stop (t_pos t) = cnt_lt (RO ts) x - 1 ->
  exists es_r es_i, diff_lists x y es_r es_i (fun _ => true) /\
    forall m, apply_diffs m ts (-1) t =
              (do t1 <- lloop ts (body_remove m) es_r t; lloop ts (body_insert m) es_i t1).
Proof.
  intros Hyx Hbet O1 O2 O3 I1 I2 I3.
  pose proof (cnt_lt_bounds (RO ts) x) as B1. pose proof (cnt_le_bounds (RO ts) x) as B2.
  pose proof (cnt_lt_bounds (LI ts) x) as B3. pose proof (cnt_le_bounds (LI ts) x) as B4.
  pose proof (cnt_lt_le (RO ts) x (v_O_sorted ts V)) as B5.
  pose proof (cnt_lt_le (LI ts) x (v_I_sorted ts V)) as B6.
  rewrite (zlen_RO ts V) in B1, B2. rewrite (zlen_LI ts V) in B3, B4.
  pose proof (scan_fuel_gt ts) as HF.
  set (nr := Z.to_nat (cnt_le (LI ts) x - cnt_lt (LI ts) x)).
  set (ni := Z.to_nat (cnt_le (RO ts) x - cnt_lt (RO ts) x)).
  set (es_r := map (zn (ts_I ts)) (positions (cnt_le (LI ts) x - 1) (-1) nr)).
  set (es_i := map (zn (ts_O ts)) (positions (cnt_le (RO ts) x - 1) (-1) ni)).
  assert (PR : forall p, In p (positions (cnt_le (LI ts) x - 1) (-1) nr) -> 0 <= p < zlen (ts_I ts)).
  { intros p Hp. apply In_positions in Hp as [i [Hi ->]]. rewrite (v_I_len ts V). fold M. lia. }
  assert (PI : forall p, In p (positions (cnt_le (RO ts) x - 1) (-1) ni) -> 0 <= p < zlen (ts_O ts)).
  { intros p Hp. apply In_positions in Hp as [i [Hi ->]]. rewrite (v_O_len ts V). fold M. lia. }
  assert (InR : forall e, In e es_r <-> exists pos, cnt_lt (LI ts) x <= pos < cnt_le (LI ts) x /\ zn (ts_I ts) pos = e).
  { intros e. unfold es_r. rewrite In_ids. split.
    - intros [i [Hi E]]. exists (cnt_le (LI ts) x - 1 + -1 * i). split; [lia|exact E].
    - intros [pos [Hp E]]. exists (cnt_le (LI ts) x - 1 - pos). split; [lia|]. rewrite <- E. f_equal. lia. }
  assert (InI : forall e, In e es_i <-> exists pos, cnt_lt (RO ts) x <= pos < cnt_le (RO ts) x /\ zn (ts_O ts) pos = e).
  { intros e. unfold es_i. rewrite In_ids. split.
    - intros [i [Hi E]]. exists (cnt_le (RO ts) x - 1 + -1 * i). split; [lia|exact E].
    - intros [pos [Hp E]]. exists (cnt_le (RO ts) x - 1 - pos). split; [lia|]. rewrite <- E. f_equal. lia. }
  exists es_r, es_i. split.
  - unfold diff_lists. repeat split.
    + apply NoDup_ids; [apply (NoDup_I ts V)|right; reflexivity|exact PR].
    + apply NoDup_ids; [apply (NoDup_O ts V)|right; reflexivity|exact PI].
    + apply InR in H as [pos [Hp <-]]. apply (v_I_rng ts V). fold M. lia.
    + apply InR in H as [pos [Hp <-]]. apply (v_I_rng ts V). fold M. lia.
    + apply InI in H as [pos [Hp <-]]. apply (v_O_rng ts V). fold M. lia.
    + apply InI in H as [pos [Hp <-]]. apply (v_O_rng ts V). fold M. lia.
    + apply InR in H. apply (I_range_iff ts V x e ed H0) in H.
      destruct (endpoints_of ts V e ed H0) as (EL & ER & R1 & R2). unfold covers. lia.
    + apply InR in H. apply (I_range_iff ts V x e ed H0) in H.
      destruct (endpoints_of ts V e ed H0) as (EL & ER & R1 & R2). unfold covers. lia.
    + intros e ed G Cx Cy. apply InR. apply (I_range_iff ts V x e ed G).
      destruct (endpoints_of ts V e ed G) as (EL & ER & R1' & R2').
      pose proof (Hbet _ EL). unfold covers in Cx, Cy. lia.
    + apply InI in H. apply (O_range_iff ts V x e ed H0) in H.
      destruct (endpoints_of ts V e ed H0) as (EL & ER & R1' & R2'). pose proof (Hbet _ EL). unfold covers. lia.
    + apply InI in H. apply (O_range_iff ts V x e ed H0) in H.
      destruct (endpoints_of ts V e ed H0) as (EL & ER & R1' & R2'). pose proof (Hbet _ EL). unfold covers. lia.
  - intros m. unfold apply_diffs. rewrite O1, O2, O3, I1, I2, I3. cbn [order_list bind].
    rewrite (edge_loop_lloop_eq ts (body_remove m) (ts_I ts) (-1) nr);
      [|right; reflexivity|lia|unfold scan_fuel; unfold M, num_edges, zlen in *; lia|exact PR].
    fold es_r. destruct (lloop ts (body_remove m) es_r t); cbn [bind]; try reflexivity.
    rewrite (edge_loop_lloop_eq ts (body_insert m) (ts_O ts) (-1) ni);
      [|right; reflexivity|lia|unfold scan_fuel; unfold M, num_edges, zlen in *; lia|exact PI].
    reflexivity.
Qed.

(* the filtered insertion loop of tsk_tree_seek_from_null, forward scan *)
Lemma seekf_lists a j1 : first_right_gt ts a j1 ->
  exists es, NoDup es /\ (forall e, In e es -> 0 <= e < num_edges ts) /\
    (forall e ed, get (ts_edges ts) e = Ok ed -> covers ed a = true -> In e es) /\
    forall m t, edge_loop (scan_fuel ts) ts 1 (ts_I ts) (body_insert_if_covers_left m a) j1 (cnt_le (LI ts) a) t
                = lloop ts (body_insert_if_covers_left m a) es t.
Proof.
  intros (F1 & F2 & F3).
  pose proof (cnt_le_bounds (LI ts) a) as B. rewrite (zlen_LI ts V) in B.
  pose proof (scan_fuel_gt ts) as HF.
  set (n := Z.to_nat (cnt_le (LI ts) a - j1)).
  set (es := map (zn (ts_I ts)) (positions j1 1 n)).
  assert (PI : forall p, In p (positions j1 1 n) -> 0 <= p < zlen (ts_I ts)).
  { intros q Hq. apply In_positions in Hq as [i [Hi ->]]. rewrite (v_I_len ts V). fold M. lia. }
  assert (InE : forall e, In e es <-> exists pos, j1 <= pos < cnt_le (LI ts) a /\ zn (ts_I ts) pos = e).
  { intros e. unfold es. rewrite In_ids. split.
    - intros [i [Hi Ee]]. exists (j1 + 1 * i). split; [lia|exact Ee].
    - intros [pos [Hp Ee]]. exists (pos - j1). split; [lia|]. rewrite <- Ee. f_equal. lia. }
  exists es. split; [apply NoDup_ids; [apply (NoDup_I ts V)|left; reflexivity|exact PI]|].
  split; [intros e He; apply InE in He as [pos [Hp <-]]; apply (v_I_rng ts V); fold M; lia|].
  split.
  - intros e ed G C. apply InE.
    pose proof (get_ok_range _ _ _ G) as Re. destruct (v_I_surj ts V e Re) as [pos [Hp Ep]].
    exists pos. split; [|exact Ep].
    destruct (edge_of_I ts V pos Hp) as (ed' & G1 & G2 & E1 & E2). rewrite Ep, G in G2. injection G2 as <-.
    assert (R : 0 <= pos < zlen (LI ts)) by (rewrite (zlen_LI ts V); exact Hp).
    pose proof (proj2 (cnt_le_spec (LI ts) a pos (v_I_sorted ts V) R)).
    unfold covers in C. split; [|lia].
    destruct (Z_le_gt_dec j1 pos); [assumption|]. specialize (F2 pos ltac:(lia)). lia.
  - intros m t. rewrite (edge_loop_lloop_eq ts _ (ts_I ts) 1 n);
      [reflexivity|left; reflexivity|lia|unfold scan_fuel; unfold M, num_edges, zlen in *; lia|exact PI].
Qed.

(* ... backward scan *)
Lemma seekb_lists b j1 : last_left_lt ts b j1 ->
  exists es, NoDup es /\ (forall e, In e es -> 0 <= e < num_edges ts) /\
    (forall e ed, get (ts_edges ts) e = Ok ed -> e_left ed < b <= e_right ed -> In e es) /\
    forall m t, edge_loop (scan_fuel ts) ts (-1) (ts_O ts) (body_insert_if_covers_right m b) j1
                          (cnt_lt (RO ts) b - 1) t
                = lloop ts (body_insert_if_covers_right m b) es t.
Proof.
  intros (F1 & F2 & F3).
  pose proof (cnt_lt_bounds (RO ts) b) as B. rewrite (zlen_RO ts V) in B.
  pose proof (scan_fuel_gt ts) as HF.
  set (n := Z.to_nat (j1 - (cnt_lt (RO ts) b - 1))).
  set (es := map (zn (ts_O ts)) (positions j1 (-1) n)).
  assert (PI : forall p, In p (positions j1 (-1) n) -> 0 <= p < zlen (ts_O ts)).
  { intros q Hq. apply In_positions in Hq as [i [Hi ->]]. rewrite (v_O_len ts V). fold M. fold M in F1. lia. }
  assert (InE : forall e, In e es <-> exists pos, cnt_lt (RO ts) b - 1 < pos <= j1 /\ zn (ts_O ts) pos = e).
  { intros e. unfold es. rewrite In_ids. split.
    - intros [i [Hi Ee]]. exists (j1 + -1 * i). split; [lia|exact Ee].
    - intros [pos [Hp Ee]]. exists (j1 - pos). split; [lia|]. rewrite <- Ee. f_equal. lia. }
  exists es. split; [apply NoDup_ids; [apply (NoDup_O ts V)|right; reflexivity|exact PI]|].
  split; [intros e He; apply InE in He as [pos [Hp <-]]; apply (v_O_rng ts V); fold M; fold M in F1; lia|].
  split.
  - intros e ed G C. apply InE.
    pose proof (get_ok_range _ _ _ G) as Re. destruct (v_O_surj ts V e Re) as [pos [Hp Ep]].
    exists pos. split; [|exact Ep].
    destruct (edge_of_O ts V pos Hp) as (ed' & G1 & G2 & E1 & E2). rewrite Ep, G in G2. injection G2 as <-.
    assert (R : 0 <= pos < zlen (RO ts)) by (rewrite (zlen_RO ts V); exact Hp).
    pose proof (proj1 (cnt_lt_spec (RO ts) b pos (v_O_sorted ts V) R)).
    split; [lia|].
    destruct (Z_le_gt_dec pos j1); [assumption|]. specialize (F2 pos ltac:(fold M in Hp; lia)). lia.
  - intros m t. rewrite (edge_loop_lloop_eq ts _ (ts_O ts) (-1) n);
      [reflexivity|right; reflexivity|fold M in F1; lia|unfold scan_fuel; unfold M, num_edges, zlen in *; lia|exact PI].
Qed.

End Lists.

(* ------------------------------------------------------------------------------ *)
(* Part E: the navigation operations of mode [full] keep the recurrence              *)

Section Ops.
Variable ts : tseq.
Hypothesis V : valid_ts ts.
Let N := ts_N ts.
Let T := num_trees ts.

Definition fine (tf tc : tree) : Prop := sim ts tf tc /\ good ts tf.

Lemma good_same t t' : t_parent t' = t_parent t -> t_tracked t' = t_tracked t -> good ts t -> good ts t'.
Proof. intros E1 E2 H. unfold good in *. rewrite E1, E2. exact H. Qed.

Lemma good_update t t' : update_index_and_interval ts t = Ok t' -> good ts t -> good ts t'.
Proof.
  intros U. unfold update_index_and_interval in U. inv_bind U as s Hs. injection U as <-.
  apply good_same; reflexivity.
Qed.

Lemma no_edges_null tc : tree_ok ts tc -> ne_ok ts tc -> t_num_edges tc <= 0 ->
  forall k, 0 <= k <= N -> zn (t_parent tc) k = -1.
Proof.
  intros H [Hn _] Hz k Hk. unfold cnt_ok in Hn.
  destruct (tree_ok_cases ts tc H) as [(I & _ & (A1 & _))|(K & _ & (A1 & _))].
  - rewrite A1. apply at_none; [fold N; lia|].
    intros e ed G _. pose proof (v_edge ts V _ _ G). unfold covers. lia.
  - rewrite A1. apply at_none; [fold N; lia|].
    intros e ed G _. unfold cur_x in Hn. replace (t_index tc =? -1) with false in Hn by lia.
    unfold num_edges_at in Hn.
    assert (E : filter (covb ts (bp ts (t_index tc))) (zseq (num_edges ts)) = []).
    { destruct (filter (covb ts (bp ts (t_index tc))) (zseq (num_edges ts))) as [|a l]; [reflexivity|].
      rewrite zlen_cons in Hn. pose proof (zlen_nonneg l). lia. }
    destruct (covers ed (bp ts (t_index tc))) eqn:C; [|reflexivity]. exfalso.
    assert (In e (filter (covb ts (bp ts (t_index tc))) (zseq (num_edges ts)))).
    { apply filter_In. split; [apply In_zseq; eapply get_ok_range; eauto|]. unfold covb. rewrite G. exact C. }
    rewrite E in H0. destruct H0.
Qed.

Lemma clear_fine tf tc : inv ts tc -> fine tf tc -> fine (tree_clear full ts tf) (tree_clear core ts tc).
Proof.
  intros [Hok Hne] [S G]. split; [apply clear_sim; assumption|].
  apply (clear_good ts V tf G).
  destruct S as (_ & _ & _ & _ & s5 & _ & s7 & _). rewrite s5, s7. fold N. apply no_edges_null; assumption.
Qed.

Lemma ins_body_true : ins_body (fun _ => true) (body_insert full).
Proof. intros t e ed. reflexivity. Qed.

(* ---- next ---- *)
Lemma tree_next_good tf tc tf' r : inv ts tc -> fine tf tc ->
  tree_next full ts tf = Ok (tf', r) -> good ts tf'.
Proof.
  intros [Hok Hne] [S G] H. pose proof S as (s1 & _ & _ & s4 & s5 & _).
  pose proof Hok as (Hi & _ & _ & Hd).
  assert (PI : pos_inv ts (t_pos tc)) by (destruct Hd as [[N0 _]|[P0 _]]; [left|right]; assumption).
  unfold tree_next in H. rewrite s4, (position_next_spec ts V _ PI) in H. cbn [bind] in H.
  rewrite <- Hi in H. set (k' := t_index tc + 1) in *.
  pose proof (v_T ts V) as HT. fold T in HT.
  destruct (Z.eq_dec k' T) as [E|NE].
  - assert (EP : p_index (next_pos ts k') = -1).
    { unfold next_pos. fold T. rewrite (proj2 (Z.eqb_eq k' T) E). reflexivity. }
    rewrite EP in H. simpl negb in H. cbv iota in H. injection H as <- _.
    apply (clear_good ts V (with_pos tf (next_pos ts k'))); [exact G|].
    simpl. destruct S as (_ & _ & _ & _ & _ & _ & s7 & _). rewrite s5, s7. fold N. apply no_edges_null; assumption.
  - assert (EP : p_index (next_pos ts k') = k') by (unfold next_pos; fold T; replace (k' =? T) with false by lia; reflexivity).
    pose proof (tree_ok_index ts V tc Hok) as Hidx. fold T in Hidx.
    rewrite EP in H. replace (k' =? -1) with false in H by lia. simpl negb in H. cbv iota in H.
    inv_bind H as t2 Ht2. inv_bind H as t3 Ht3. injection H as <- _.
    apply (good_update _ _ Ht3).
    set (x := if t_index tc =? -1 then -1 else bp ts (t_index tc)).
    assert (Ax : t_parent tf = parent_at ts x).
    { rewrite s5. destruct (tree_ok_cases ts tc Hok) as [(I0 & _ & (A1 & _))|(K & _ & (A1 & _))]; subst x.
      - rewrite I0. exact A1.
      - replace (t_index tc =? -1) with false by lia. exact A1. }
    destruct (next_lists ts V (with_pos tf (next_pos ts k')) x (bp ts k')) as (es_r & es_i & DL & Eq);
      try (unfold next_pos; fold T; replace (k' =? T) with false by lia; reflexivity).
    + subst x. destruct (t_index tc =? -1) eqn:E0.
      * replace k' with 0 by (unfold k'; lia). rewrite (v_bp0 ts V). lia.
      * apply (v_bp_strict ts V); fold T; unfold k'; lia.
    + intros v Hv. subst x. destruct (t_index tc =? -1) eqn:E0.
      * apply (endpoint_nonneg ts V) in Hv. replace k' with 0 by (unfold k'; lia). rewrite (v_bp0 ts V). lia.
      * unfold k'. apply (between ts V); [fold T; lia|exact Hv].
    + rewrite (Eq full) in Ht2. inv_bind Ht2 as t1 Ht1.
      destruct DL as (Nr & Ni & Rr & Ri & R1 & R2 & J1).
      apply (transition_good ts V (with_pos tf (next_pos ts k')) x (bp ts k') es_r es_i (fun _ => true)
               (body_insert full) t1 t2 ins_body_true Nr Ni Rr Ri R1 R2 J1 Ax G Ht1 Ht2).
Qed.

(* ---- prev ---- *)
Lemma tree_prev_good tf tc tf' r : inv ts tc -> fine tf tc ->
  tree_prev full ts tf = Ok (tf', r) -> good ts tf'.
Proof.
  intros [Hok Hne] [S G] H. pose proof S as (s1 & _ & _ & s4 & s5 & _).
  pose proof Hok as (Hi & _ & _ & Hd).
  assert (PI : pos_inv ts (t_pos tc)) by (destruct Hd as [[N0 _]|[P0 _]]; [left|right]; assumption).
  unfold tree_prev in H. rewrite s4, (position_prev_spec ts V _ PI) in H. cbn [bind] in H.
  unfold prev_from in H. fold T in H. rewrite <- Hi in H.
  set (k := if t_index tc =? -1 then T else t_index tc) in *.
  pose proof (v_T ts V) as HT. fold T in HT.
  pose proof (tree_ok_index ts V tc Hok) as Hidx. fold T in Hidx.
  assert (Hk : 0 <= k <= T) by (subst k; destruct (t_index tc =? -1) eqn:E0; lia).
  destruct (Z.eq_dec k 0) as [E|NE].
  - assert (EP : p_index (prev_pos ts k) = -1) by (rewrite E; reflexivity).
    rewrite EP in H. simpl negb in H. cbv iota in H. injection H as <- _.
    apply (clear_good ts V (with_pos tf (prev_pos ts k))); [exact G|].
    simpl. destruct S as (_ & _ & _ & _ & _ & _ & s7 & _). rewrite s5, s7. fold N. apply no_edges_null; assumption.
  - assert (EP : p_index (prev_pos ts k) = k - 1) by (unfold prev_pos; replace (k - 1 =? -1) with false by lia; reflexivity).
    rewrite EP in H. replace (k - 1 =? -1) with false in H by lia. simpl negb in H. cbv iota in H.
    inv_bind H as t2 Ht2. inv_bind H as t3 Ht3. injection H as <- _.
    apply (good_update _ _ Ht3).
    assert (Ax : t_parent tf = parent_at ts (bp ts k)).
    { rewrite s5. destruct (tree_ok_cases ts tc Hok) as [(I0 & _ & A)|(K & _ & (A1 & _))]; subst k.
      - rewrite I0. simpl.
        destruct (arrays_outside ts V tc (-1) (bp ts T) ltac:(lia)) as [A1 _]; [|exact A|exact A1].
        right. unfold T. rewrite (v_bpT ts V). lia.
      - replace (t_index tc =? -1) with false by lia. exact A1. }
    destruct (prev_lists ts V (with_pos tf (prev_pos ts k)) (bp ts k) (bp ts (k - 1))) as (es_r & es_i & DL & Eq);
      try (unfold prev_pos; replace (k - 1 =? -1) with false by lia; reflexivity).
    + apply (v_bp_strict ts V); fold T; lia.
    + intros v Hv. pose proof (between ts V (k - 1) v ltac:(fold T; lia) Hv) as Hb.
      replace (k - 1 + 1) with k in Hb by lia. exact Hb.
    + rewrite (Eq full) in Ht2. inv_bind Ht2 as t1 Ht1.
      destruct DL as (Nr & Ni & Rr & Ri & R1 & R2 & J1).
      apply (transition_good ts V (with_pos tf (prev_pos ts k)) (bp ts k) (bp ts (k - 1)) es_r es_i (fun _ => true)
               (body_insert full) t1 t2 ins_body_true Nr Ni Rr Ri R1 R2 J1 Ax G Ht1 Ht2).
Qed.

Lemma tree_next_fine tf tc tc' r : inv ts tc -> fine tf tc -> tree_next core ts tc = Ok (tc', r) ->
  exists tf', tree_next full ts tf = Ok (tf', r) /\ fine tf' tc'.
Proof.
  intros I F H. destruct (tree_next_sim ts V tf tc tc' r (proj1 F) H) as [tf' [E S']].
  exists tf'. split; [exact E|]. split; [exact S'|]. eapply tree_next_good; eauto.
Qed.

Lemma tree_prev_fine tf tc tc' r : inv ts tc -> fine tf tc -> tree_prev core ts tc = Ok (tc', r) ->
  exists tf', tree_prev full ts tf = Ok (tf', r) /\ fine tf' tc'.
Proof.
  intros I F H. destruct (tree_prev_sim ts V tf tc tc' r (proj1 F) H) as [tf' [E S']].
  exists tf'. split; [exact E|]. split; [exact S'|]. eapply tree_prev_good; eauto.
Qed.

(* ---- seek from null ---- *)
Lemma no_cover_neg e ed : get (ts_edges ts) e = Ok ed -> covers ed (-1) = false.
Proof. intros G. pose proof (v_edge ts V _ _ G). unfold covers. lia. Qed.

Lemma seek_from_null_good tf tc tf' v : inv ts tc -> fine tf tc -> t_index tc = -1 -> 0 <= v < ts_L ts ->
  tree_seek_from_null full ts tf (Fin v) = Ok tf' -> good ts tf'.
Proof.
  intros [Hok Hne] [S G] I0 Hv H. pose proof S as (s1 & _ & _ & s4 & s5 & _).
  destruct (tree_ok_cases ts tc Hok) as [(_ & Nl & (A1 & _))|(K & _)]; [|lia].
  destruct (seek_index_calc ts V v Hv) as (k & Hk & Hb & i0 & b0 & S1 & S2 & S3).
  unfold tree_seek_from_null in H. rewrite S1 in H. cbn [bind] in H. rewrite S2 in H. cbn [bind] in H.
  rewrite S3, s4 in H.
  assert (Ax : t_parent tf = parent_at ts (-1)) by (rewrite s5; exact A1).
  destruct (x_le_half (Fin v) (ts_L ts)).
  - destruct (position_seek_forward_null_spec ts V (t_pos tc) k Nl Hk) as (j1 & F & E).
    rewrite E in H. cbn [bind] in H. simpl p_in_ord in H. cbn [order_list bind] in H.
    simpl p_left in H. simpl p_in_start in H. simpl p_in_stop in H.
    destruct (seekf_lists ts V (bp ts k) j1 F) as (es & Nd & Rg & _ & Eq).
    rewrite (Eq full) in H. inv_bind H as t1 Ht1. apply (good_update _ _ H).
    match type of Ht1 with lloop _ ?bd _ ?t0 = _ =>
      apply (transition_good ts V t0 (-1) (bp ts k) [] es
               (fun ed => (e_left ed <=? bp ts k) && (bp ts k <? e_right ed)) bd t0 t1) end.
    + intros t e ed. reflexivity.
    + constructor.
    + exact Nd.
    + intros e He; destruct He.
    + exact Rg.
    + intros e ed He; destruct He.
    + intros e ed Ge C _. rewrite (no_cover_neg e ed Ge) in C. discriminate.
    + intros e ed _ Ge Ff. split; [exact Ff|apply (no_cover_neg e ed Ge)].
    + exact Ax.
    + exact G.
    + reflexivity.
    + exact Ht1.
  - destruct (position_seek_backward_null_spec ts V (t_pos tc) k Nl Hk) as (j1 & F & E).
    rewrite E in H. cbn [bind] in H. simpl p_in_ord in H. cbn [order_list bind] in H.
    simpl p_right in H. simpl p_in_start in H. simpl p_in_stop in H.
    destruct (seekb_lists ts V (bp ts (k + 1)) j1 F) as (es & Nd & Rg & _ & Eq).
    rewrite (Eq full) in H. inv_bind H as t1 Ht1. apply (good_update _ _ H).
    match type of Ht1 with lloop _ ?bd _ ?t0 = _ =>
      apply (transition_good ts V t0 (-1) (bp ts k) [] es
               (fun ed => (bp ts (k + 1) <=? e_right ed) && (e_left ed <? bp ts (k + 1))) bd t0 t1) end.
    + intros t e ed. reflexivity.
    + constructor.
    + exact Nd.
    + intros e He; destruct He.
    + exact Rg.
    + intros e ed He; destruct He.
    + intros e ed Ge C _. rewrite (no_cover_neg e ed Ge) in C. discriminate.
    + intros e ed _ Ge Ff. split; [|apply (no_cover_neg e ed Ge)].
      destruct (endpoints_of ts V e ed Ge) as (EL & ER & R1 & R2).
      pose proof (between ts V k _ Hk EL). pose proof (between ts V k _ Hk ER). unfold covers. lia.
    + exact Ax.
    + exact G.
    + reflexivity.
    + exact Ht1.
Qed.

(* ---- the seek loops ---- *)
Lemma seek_loop_next_fine x : forall fuel tf tc tc', inv ts tc -> fine tf tc ->
  seek_loop fuel (tree_next core ts) x tc = Ok tc' ->
  exists tf', seek_loop fuel (tree_next full ts) x tf = Ok tf' /\ fine tf' tc'.
Proof.
  induction fuel as [|f IH]; intros tf tc tc' I F H; [discriminate|].
  cbn [seek_loop] in *. rewrite (in_interval_sim ts tf tc x (proj1 F)).
  destruct (in_interval tc x); [injection H as <-; eauto|].
  destruct (tree_next_ok ts V tc (proj1 I)) as (t1 & r & E & Ok1 & _ & N1). rewrite E in H. cbn [bind] in H.
  destruct (tree_next_fine tf tc t1 r I F E) as [tf1 [E1 F1]]. rewrite E1. cbn [bind].
  apply (IH tf1 t1 tc'); [split; [exact Ok1|exact (N1 (proj2 I))]|exact F1|exact H].
Qed.

Lemma seek_loop_prev_fine x : forall fuel tf tc tc', inv ts tc -> fine tf tc ->
  seek_loop fuel (tree_prev core ts) x tc = Ok tc' ->
  exists tf', seek_loop fuel (tree_prev full ts) x tf = Ok tf' /\ fine tf' tc'.
Proof.
  induction fuel as [|f IH]; intros tf tc tc' I F H; [discriminate|].
  cbn [seek_loop] in *. rewrite (in_interval_sim ts tf tc x (proj1 F)).
  destruct (in_interval tc x); [injection H as <-; eauto|].
  destruct (tree_prev_ok ts V tc (proj1 I)) as (t1 & r & E & Ok1 & _ & N1). rewrite E in H. cbn [bind] in H.
  destruct (tree_prev_fine tf tc t1 r I F E) as [tf1 [E1 F1]]. rewrite E1. cbn [bind].
  apply (IH tf1 t1 tc'); [split; [exact Ok1|exact (N1 (proj2 I))]|exact F1|exact H].
Qed.

Lemma tree_seek_fine fuel tf tc tc' v : inv ts tc -> fine tf tc -> 0 <= v < ts_L ts ->
  tree_seek fuel core ts tc (Fin v) = Ok tc' ->
  exists tf', tree_seek fuel full ts tf (Fin v) = Ok tf' /\ fine tf' tc'.
Proof.
  intros I F Hv H. destruct (tree_seek_sim ts V fuel tf tc tc' (Fin v) (proj1 F) H) as [tf' [E S']].
  exists tf'. split; [exact E|]. split; [exact S'|].
  unfold tree_seek, tree_seek_linear in *. pose proof (proj1 F) as (s1 & s2 & s3 & _).
  unfold x_ge_z, x_lt_z in *.
  replace (negb ((0 <=? v) && (v <? ts_L ts))) with false in * by lia.
  rewrite s1, s2, s3 in E. destruct (t_index tc =? -1) eqn:E0.
  - eapply seek_from_null_good; eauto. lia.
  - destruct (v <? t_left tc); cbv iota beta in *;
      match type of H with context [if ?c then _ else _] => destruct c end.
    + destruct (seek_loop_next_fine (Fin v) fuel tf tc tc' I F H) as [tf2 [E2 F2]].
      rewrite E in E2. injection E2 as <-. exact (proj2 F2).
    + destruct (seek_loop_prev_fine (Fin v) fuel tf tc tc' I F H) as [tf2 [E2 F2]].
      rewrite E in E2. injection E2 as <-. exact (proj2 F2).
    + destruct (seek_loop_next_fine (Fin v) fuel tf tc tc' I F H) as [tf2 [E2 F2]].
      rewrite E in E2. injection E2 as <-. exact (proj2 F2).
    + destruct (seek_loop_prev_fine (Fin v) fuel tf tc tc' I F H) as [tf2 [E2 F2]].
      rewrite E in E2. injection E2 as <-. exact (proj2 F2).
Qed.

Lemma tree_seek_index_fine fuel tf tc tc' i : inv ts tc -> fine tf tc -> 0 <= i < T ->
  tree_seek_index fuel core ts tc i = Ok tc' ->
  exists tf', tree_seek_index fuel full ts tf i = Ok tf' /\ fine tf' tc'.
Proof.
  intros I F Hi H. unfold T in Hi. unfold tree_seek_index in *.
  replace ((i <? 0) || (num_trees ts <=? i)) with false in * by lia.
  rewrite get_bp in * by lia. cbn [bind] in *.
  apply (tree_seek_fine fuel tf tc tc' (bp ts i)); auto.
  pose proof (bp_range ts V i ltac:(lia)). pose proof (bp_lt_L ts V i ltac:(lia)). lia.
Qed.

(* ---- the Python level ---- *)
Definition fine2 (sf sc : tree * tree) : Prop := fine (fst sf) (fst sc) /\ fine (snd sf) (snd sc).

Lemma py_step_fine sf sc o sc' r : fine2 sf sc -> inv ts (fst sc) -> inv ts (snd sc) ->
  py_step core ts sc o = Ok (sc', r) ->
  exists sf', py_step full ts sf o = Ok (sf', r) /\ fine2 sf' sc'.
Proof.
  destruct sf as [cf of], sc as [cc oc]. intros [Fc Fo] Ic Io H. simpl in Fc, Fo, Ic, Io.
  unfold py_step, py_step_fuel in *. pose proof (seek_fuel_gt ts) as HF. unfold T in *.
  destruct o as [| | | | |x|i| | |x|i]; rewrite ?tree_copy_id in *.
  - inv_bind H as a Ha. destruct a as [t r0]. injection H as <- <-. unfold tree_first in *.
    assert (Icl : inv ts (tree_clear core ts cc)) by (split; [apply (tree_clear_ok ts V cc (proj1 Ic))|apply (ne_ok_clear ts V)]).
    destruct (tree_next_fine _ _ _ _ Icl (clear_fine cf cc Ic Fc) Ha) as [tf' [E F']].
    rewrite E. cbn [bind]. eexists. split; [reflexivity|]. split; assumption.
  - inv_bind H as a Ha. destruct a as [t r0]. injection H as <- <-. unfold tree_last in *.
    assert (Icl : inv ts (tree_clear core ts cc)) by (split; [apply (tree_clear_ok ts V cc (proj1 Ic))|apply (ne_ok_clear ts V)]).
    destruct (tree_prev_fine _ _ _ _ Icl (clear_fine cf cc Ic Fc) Ha) as [tf' [E F']].
    rewrite E. cbn [bind]. eexists. split; [reflexivity|]. split; assumption.
  - inv_bind H as a Ha. destruct a as [t r0]. injection H as <- <-.
    destruct (tree_next_fine _ _ _ _ Ic Fc Ha) as [tf' [E F']].
    rewrite E. cbn [bind]. eexists. split; [reflexivity|]. split; assumption.
  - inv_bind H as a Ha. destruct a as [t r0]. injection H as <- <-.
    destruct (tree_prev_fine _ _ _ _ Ic Fc Ha) as [tf' [E F']].
    rewrite E. cbn [bind]. eexists. split; [reflexivity|]. split; assumption.
  - injection H as <- <-. eexists. split; [reflexivity|]. split; [apply clear_fine|]; assumption.
  - destruct (negb (x_ge_z x 0 && x_lt_z x (ts_L ts))) eqn:G.
    + injection H as <- <-. eexists. split; [reflexivity|]. split; assumption.
    + destruct x as [v|]; [|discriminate]. unfold x_ge_z, x_lt_z in G.
      destruct (tree_seek_ok ts V (seek_fuel ts) cc v (proj1 Ic) ltac:(lia) HF) as (t' & S & _).
      rewrite S in H. cbn [lib_call] in H. injection H as <- <-.
      destruct (tree_seek_fine _ _ _ _ v Ic Fc ltac:(lia) S) as [tf' [E F']]. rewrite E. cbn [lib_call].
      eexists. split; [reflexivity|]. split; assumption.
  - set (i' := if i <? 0 then i + num_trees ts else i) in *.
    destruct ((i' <? 0) || (num_trees ts <=? i')) eqn:G.
    + injection H as <- <-. eexists. split; [reflexivity|]. split; assumption.
    + destruct (tree_seek_index_ok ts V (seek_fuel ts) cc i' (proj1 Ic) ltac:(lia) HF) as (t' & S & _).
      rewrite S in H. cbn [lib_call] in H. injection H as <- <-.
      destruct (tree_seek_index_fine _ _ _ _ i' Ic Fc ltac:(lia) S) as [tf' [E F']]. rewrite E. cbn [lib_call].
      eexists. split; [reflexivity|]. split; assumption.
  - injection H as <- <-. eexists. split; [reflexivity|]. split; assumption.
  - injection H as <- <-. eexists. split; [reflexivity|]. split; assumption.
  - destruct x as [v|].
    + destruct (negb ((0 <=? v) && (v <? ts_L ts))) eqn:G.
      * unfold tree_seek, x_ge_z, x_lt_z in *. rewrite G in *. cbn [lib_call] in *.
        injection H as <- <-. eexists. split; [reflexivity|]. split; assumption.
      * destruct (tree_seek_ok ts V (seek_fuel ts) cc v (proj1 Ic) ltac:(lia) HF) as (t' & S & _).
        rewrite S in H. cbn [lib_call] in H. injection H as <- <-.
        destruct (tree_seek_fine _ _ _ _ v Ic Fc ltac:(lia) S) as [tf' [E F']]. rewrite E. cbn [lib_call].
        eexists. split; [reflexivity|]. split; assumption.
    + unfold tree_seek in *. cbn [x_ge_z x_lt_z andb negb lib_call] in *.
      injection H as <- <-. eexists. split; [reflexivity|]. split; assumption.
  - destruct ((i <? 0) || (num_trees ts <=? i)) eqn:G.
    + unfold tree_seek_index in *. rewrite G in *. cbn [lib_call] in *.
      injection H as <- <-. eexists. split; [reflexivity|]. split; assumption.
    + destruct (tree_seek_index_ok ts V (seek_fuel ts) cc i (proj1 Ic) ltac:(lia) HF) as (t' & S & _).
      rewrite S in H. cbn [lib_call] in H. injection H as <- <-.
      destruct (tree_seek_index_fine _ _ _ _ i Ic Fc ltac:(lia) S) as [tf' [E F']]. rewrite E. cbn [lib_call].
      eexists. split; [reflexivity|]. split; assumption.
Qed.

Lemma run_from_fine ops : forall sf sc sc' outs, fine2 sf sc -> inv ts (fst sc) -> inv ts (snd sc) ->
  run_from core ts sc ops = Ok (sc', outs) ->
  exists sf', run_from full ts sf ops = Ok (sf', outs) /\ fine2 sf' sc' /\ inv ts (fst sc') /\ inv ts (snd sc').
Proof.
  induction ops as [|o ops IH]; intros sf sc sc' outs S I1 I2 H.
  - simpl in *. injection H as <- <-. eauto.
  - cbn [run_from] in *.
    destruct (py_step_ok ts V sc o I1 I2) as (s1 & r & P & J1 & J2). rewrite P in H. cbn [bind] in H.
    destruct (run_from core ts s1 ops) as [[s2 rs]| | |] eqn:R; cbn [bind] in H; try discriminate.
    injection H as <- <-.
    destruct (py_step_fine sf sc o s1 r S I1 I2 P) as [sf1 [Pf S1]]. rewrite Pf. cbn [bind].
    destruct (IH sf1 s1 s2 rs S1 J1 J2 R) as [sf2 [Rf S2]]. rewrite Rf. cbn [bind]. eauto.
Qed.

Lemma fine_init : fine (tree_init ts) (tree_init ts).
Proof.
  split; [apply (sim_init ts V)|]. apply (good_null ts V); reflexivity.
Qed.

End Ops.

(* ------------------------------------------------------------------------------ *)
(* THE THEOREM: after any op list the tracked-sample counts of the machine [full] satisfy
   the subtree-sum recurrence over the (canonical) parent array, and are therefore the
   counts of a fresh Tree moved directly to the same index.                         *)

Definition counts_rec (ts : tseq) (t : tree) : Prop :=
  zlen (t_tracked t) = ts_N ts + 1 /\ zn (t_tracked t) (ts_N ts) = own0 ts (ts_N ts) /\
  forall u, 0 <= u < ts_N ts ->
    zn (t_tracked t) u = own0 ts u + children_sum (t_parent t) (t_tracked t) u.

Lemma good_counts_rec ts (V : valid_ts ts) t : good ts t -> counts_rec ts t.
Proof.
  intros (B & LC & R & RN). pose proof B as [L _]. split; [exact LC|]. split; [exact RN|].
  intros u Hu. specialize (R u Hu). replace (u =? -1) with false in R by lia.
  rewrite children_sum_sumz by (unfold zlen in L, LC; lia). rewrite L. unfold Sx in R. lia.
Qed.

Lemma good_unique ts (V : valid_ts ts) t1 t2 : good ts t1 -> good ts t2 -> t_parent t1 = t_parent t2 ->
  t_tracked t1 = t_tracked t2.
Proof.
  intros (B1 & L1 & R1 & N1) (B2 & L2 & R2 & N2) E. apply list_eq_zn; [lia|].
  intros j Hj. rewrite L1 in Hj. destruct (Z.eq_dec j (ts_N ts)) as [->|Hn]; [lia|].
  apply (rec_unique ts V (own0 ts) (t_parent t1)); auto; [|lia]. rewrite E. exact R2.
Qed.

Lemma counts_canonical_proof ts ops : valid_tsb ts = true ->
  exists sf outs fr outs',
    run full ts ops = Ok (sf, outs) /\
    run full ts (fresh_ops (t_index (fst sf))) = Ok (fr, outs') /\
    abs (fst sf) = abs (fst fr) /\ t_tracked (fst sf) = t_tracked (fst fr) /\
    counts_rec ts (fst sf) /\ counts_rec ts (snd sf).
Proof.
  intros Hv. pose proof (valid_tsb_sound ts Hv) as V.
  destruct (nav_canonical_proof ts ops Hv) as (sc & outs & Rc & frc & outs' & Rfc & Eabs).
  destruct (run_ok ts V ops) as (sc0 & outs0 & Rc0 & I1 & I2). rewrite Rc in Rc0. injection Rc0 as <- <-.
  assert (F0 : fine2 ts (init_state ts) (init_state ts)) by (split; apply (fine_init ts V)).
  destruct (run_from_fine ts V ops _ _ sc outs F0 (inv_init ts V) (inv_init ts V) Rc) as (sf & Rf & [F1 F2] & _).
  destruct (run_ok ts V (fresh_ops (t_index (fst sc)))) as (frc0 & o0 & Rfc0 & _). rewrite Rfc in Rfc0. injection Rfc0 as <- <-.
  destruct (run_from_fine ts V _ _ _ frc outs' F0 (inv_init ts V) (inv_init ts V) Rfc) as (fr & Rfr & [G1 _] & _).
  pose proof (sim_abs ts _ _ (proj1 F1)) as A1. pose proof (sim_abs ts _ _ (proj1 G1)) as A2.
  assert (Ei : t_index (fst sf) = t_index (fst sc)) by (destruct F1 as [(s1 & _) _]; exact s1).
  exists sf, outs, fr, outs'. split; [exact Rf|]. split; [rewrite Ei; exact Rfr|].
  assert (Ea : abs (fst sf) = abs (fst fr)) by congruence.
  split; [exact Ea|]. split.
  - apply (good_unique ts V); [exact (proj2 F1)|exact (proj2 G1)|]. unfold abs in Ea. congruence.
  - split; apply (good_counts_rec ts V); [exact (proj2 F1)|exact (proj2 F2)].
Qed.

(* the derived views (children sets, number of children, roots for any root_threshold) are
   functions of (parent array, count array), hence canonical as well *)
Lemma views_canonical_proof ts ops thr : valid_tsb ts = true ->
  exists sf outs fr outs',
    run full ts ops = Ok (sf, outs) /\
    run full ts (fresh_ops (t_index (fst sf))) = Ok (fr, outs') /\
    (forall u, children_of (t_parent (fst sf)) (ts_N ts) u = children_of (t_parent (fst fr)) (ts_N ts) u) /\
    roots_of (t_parent (fst sf)) (t_tracked (fst sf)) (ts_N ts) thr =
    roots_of (t_parent (fst fr)) (t_tracked (fst fr)) (ts_N ts) thr /\
    obs_views ts thr (fst sf) = obs_views ts thr (fst fr).
Proof.
  intros Hv. destruct (counts_canonical_proof ts ops Hv) as (sf & outs & fr & outs' & R1 & R2 & Ea & Et & _).
  exists sf, outs, fr, outs'. split; [exact R1|]. split; [exact R2|].
  assert (Ep : t_parent (fst sf) = t_parent (fst fr)) by (unfold abs in Ea; congruence).
  unfold obs_views. rewrite Ep, Et. auto.
Qed.

(* NAV_CANONICAL, the statement of the property text except the sample lists: after any op
   list the state of the machine [full] equals that of a fresh Tree moved directly to the same
   index in index, interval, parent array, edge array, num_edges, site list ([abs]), counts,
   children sets and roots (for any root_threshold). *)
Lemma nav_canonical_full_proof ts ops thr : valid_tsb ts = true ->
  exists sf outs fr outs',
    run full ts ops = Ok (sf, outs) /\
    run full ts (fresh_ops (t_index (fst sf))) = Ok (fr, outs') /\
    abs (fst sf) = abs (fst fr) /\ t_tracked (fst sf) = t_tracked (fst fr) /\
    obs_views ts thr (fst sf) = obs_views ts thr (fst fr).
Proof.
  intros Hv. destruct (counts_canonical_proof ts ops Hv) as (sf & outs & fr & outs' & R1 & R2 & Ea & Et & _).
  exists sf, outs, fr, outs'. split; [exact R1|]. split; [exact R2|]. split; [exact Ea|]. split; [exact Et|].
  assert (Ep : t_parent (fst sf) = t_parent (fst fr)) by (unfold abs in Ea; congruence).
  unfold obs_views. rewrite Ep, Et. reflexivity.
Qed.

(* ------------------------------------------------------------------------------ *)
(* tsk_tree_copy: a copy is the original, and whatever is done to it afterwards it stays
   canonical                                                                        *)

Lemma run_from_app_m m ts ops1 ops2 st st1 o1 :
  run_from m ts st ops1 = Ok (st1, o1) ->
  run_from m ts st (ops1 ++ ops2) = (do '(st2, o2) <- run_from m ts st1 ops2; Ok (st2, o1 ++ o2)).
Proof.
  revert st st1 o1; induction ops1 as [|o ops IH]; intros st st1 o1 H.
  - simpl in H. injection H as <- <-. simpl. destruct (run_from m ts st ops2) as [[s o]| | |]; reflexivity.
  - cbn [run_from app] in *. destruct (py_step m ts st o) as [[s r]| | |]; cbn [bind] in *; try discriminate.
    destruct (run_from m ts s ops) as [[s' rs]| | |] eqn:E; cbn [bind] in *; try discriminate.
    injection H as <- <-. rewrite (IH _ _ _ E).
    destruct (run_from m ts s' ops2) as [[s2 o2]| | |]; reflexivity.
Qed.

Lemma copy_canonical_proof ts ops1 ops2 thr : valid_tsb ts = true ->
  exists s1 o1 s2 o2 fr o3,
    (* the state reached by ops1 ... *)
    run full ts ops1 = Ok (s1, o1) /\
    (* ... copy(): the new current tree IS the original (every field, incl. the cursors), the
       original becomes the other tree, None is returned *)
    run full ts (ops1 ++ [OpCopy]) = Ok ((fst s1, fst s1), o1 ++ [RET_NONE]) /\
    (* ... and after ANY further ops the copy is the fresh tree of its index *)
    run full ts (ops1 ++ OpCopy :: ops2) = Ok (s2, o2) /\
    run full ts (fresh_ops (t_index (fst s2))) = Ok (fr, o3) /\
    abs (fst s2) = abs (fst fr) /\ t_tracked (fst s2) = t_tracked (fst fr) /\
    obs_views ts thr (fst s2) = obs_views ts thr (fst fr).
Proof.
  intros Hv.
  destruct (nav_canonical_full_proof ts ops1 thr Hv) as (s1 & o1 & _ & _ & R1 & _).
  destruct (nav_canonical_full_proof ts (ops1 ++ OpCopy :: ops2) thr Hv) as (s2 & o2 & fr & o3 & R2 & R3 & E1 & E2 & E3).
  exists s1, o1, s2, o2, fr, o3. split; [exact R1|]. split; [|auto].
  unfold run in *. rewrite (run_from_app_m full ts ops1 [OpCopy] _ s1 o1 R1).
  destruct s1 as [c o]. cbn [run_from py_step py_step_fuel bind fst]. rewrite tree_copy_id. reflexivity.
Qed.
