(* C06 — the edge loops of tsk_tree_next / _prev / _seek_from_null as sequences of array
   writes ([core] mode), their pointwise effect, the pointwise reading of the SPEC
   [parent_at] / [edges_at], and the transition lemma: removing exactly the edges that
   cover x but not y and inserting exactly those that cover y but not x turns the arrays
   of position x into the arrays of position y. *)
From Coq Require Import List ZArith Bool Lia ZifyBool.
From TskVerif Require Import Base.Common C06.Model C06.BasicProofs C06.ListFacts C06.Valid.
Import ListNotations.
Open Scope Z_scope.

(* ---- one write ---- *)

Definition write (t : tree) (c pv ev dn : Z) : res tree :=
  do par <- set (t_parent t) c pv;
  do edg <- set (t_edge t) c ev;
  Ok (mkTree (t_index t) (t_left t) (t_right t) (t_pos t) par edg (t_num_edges t + dn)
             (t_tracked t) (t_sites t)).

Lemma remove_edge_core t p c : remove_edge core t p c = write t c (-1) (-1) (-1).
Proof. reflexivity. Qed.
Lemma insert_edge_core t p c e : insert_edge core t p c e = write t c p e 1.
Proof. reflexivity. Qed.

Definition selector := Z -> edge -> option (Z * Z * Z * Z).

Definition sel_body (sel : selector) (t : tree) (e : Z) (ed : edge) : res tree :=
  match sel e ed with
  | Some (c, pv, ev, dn) => write t c pv ev dn
  | None => Ok t
  end.

Definition sel_rem : selector := fun _ ed => Some (e_child ed, -1, -1, -1).
Definition sel_ins (f : edge -> bool) : selector :=
  fun e ed => if f ed then Some (e_child ed, e_parent ed, e, 1) else None.

Lemma body_remove_sel t e ed : body_remove core t e ed = sel_body sel_rem t e ed.
Proof. reflexivity. Qed.
Lemma body_insert_sel t e ed : body_insert core t e ed = sel_body (sel_ins (fun _ => true)) t e ed.
Proof. reflexivity. Qed.
Lemma body_insert_left_sel a t e ed :
  body_insert_if_covers_left core a t e ed = sel_body (sel_ins (fun ed => (e_left ed <=? a) && (a <? e_right ed))) t e ed.
Proof.
  unfold body_insert_if_covers_left, sel_body, sel_ins.
  destruct ((e_left ed <=? a) && (a <? e_right ed)); reflexivity.
Qed.
Lemma body_insert_right_sel b t e ed :
  body_insert_if_covers_right core b t e ed = sel_body (sel_ins (fun ed => (b <=? e_right ed) && (e_left ed <? b))) t e ed.
Proof.
  unfold body_insert_if_covers_right, sel_body, sel_ins.
  destruct ((b <=? e_right ed) && (e_left ed <? b)); reflexivity.
Qed.

Lemma edge_loop_ext ts d order b1 b2 :
  (forall t e ed, b1 t e ed = b2 t e ed) ->
  forall fuel j stop t, edge_loop fuel ts d order b1 j stop t = edge_loop fuel ts d order b2 j stop t.
Proof.
  intros H fuel; induction fuel as [|f IH]; intros j stop t; simpl; [reflexivity|].
  destruct (j =? stop); [reflexivity|].
  destruct (get order j); simpl; try reflexivity.
  destruct (get (ts_edges ts) a); simpl; try reflexivity.
  rewrite H. destruct (b2 t a a0); simpl; try reflexivity. apply IH.
Qed.

(* ---- a loop over positions = a loop over the list of edge ids it visits ---- *)

Fixpoint wloop (ts : tseq) (sel : selector) (es : list Z) (t : tree) : res tree :=
  match es with
  | [] => Ok t
  | e :: r => do ed <- get (ts_edges ts) e; do t' <- sel_body sel t e ed; wloop ts sel r t'
  end.

Definition positions (j d : Z) (n : nat) : list Z := map (fun i => j + d * Z.of_nat i) (seq 0 n).

Lemma positions_S j d n : positions j d (S n) = j :: positions (j + d) d n.
Proof.
  unfold positions. cbn [seq map]. f_equal; [cbn; ring|]. rewrite <- seq_shift, map_map.
  apply map_ext. intros i. rewrite Nat2Z.inj_succ. ring.
Qed.

Lemma In_positions p j d n : In p (positions j d n) <-> exists i, 0 <= i < Z.of_nat n /\ p = j + d * i.
Proof.
  unfold positions. rewrite in_map_iff. split.
  - intros [i [<- Hi]]. apply in_seq in Hi. exists (Z.of_nat i). split; [lia|reflexivity].
  - intros [i [Hi ->]]. exists (Z.to_nat i). split; [rewrite Z2Nat.id by lia; reflexivity|]. apply in_seq. lia.
Qed.

Lemma edge_loop_wloop ts sel order d : d = 1 \/ d = -1 ->
  forall n fuel j t, (n < fuel)%nat ->
  (forall p, In p (positions j d n) -> 0 <= p < zlen order) ->
  edge_loop fuel ts d order (sel_body sel) j (j + d * Z.of_nat n) t
  = wloop ts sel (map (zn order) (positions j d n)) t.
Proof.
  intros Hd n; induction n as [|n IH]; intros fuel j t Hf Hp.
  - destruct fuel; [lia|]. simpl. replace (j + d * 0) with j by lia. rewrite Z.eqb_refl. reflexivity.
  - destruct fuel as [|f]; [lia|]. rewrite positions_S. cbn [map wloop edge_loop].
    assert (Hne : (j =? j + d * Z.of_nat (S n)) = false) by (destruct Hd; subst d; lia).
    rewrite Hne.
    rewrite get_zn by (apply Hp; rewrite positions_S; left; reflexivity). cbn [bind].
    destruct (get (ts_edges ts) (zn order j)); cbn [bind]; try reflexivity.
    destruct (sel_body sel t (zn order j) a); cbn [bind]; try reflexivity.
    replace (j + d * Z.of_nat (S n)) with (j + d + d * Z.of_nat n) by (destruct Hd; subst d; lia).
    apply IH; [lia|]. intros p Hin. apply Hp. rewrite positions_S. right; exact Hin.
Qed.

(* ---- pointwise effect of a write loop ---- *)

Definition writes_to (ts : tseq) (sel : selector) (c : Z) (e : Z) : bool :=
  match get (ts_edges ts) e with
  | Ok ed => match sel e ed with Some (c', _, _, _) => c' =? c | None => false end
  | _ => false
  end.

Definition frame (t t' : tree) : Prop :=
  t_index t' = t_index t /\ t_left t' = t_left t /\ t_right t' = t_right t /\ t_pos t' = t_pos t /\
  t_tracked t' = t_tracked t /\ t_sites t' = t_sites t /\
  zlen (t_parent t') = zlen (t_parent t) /\ zlen (t_edge t') = zlen (t_edge t).

Lemma frame_refl t : frame t t.
Proof. unfold frame; intuition. Qed.
Lemma frame_trans a b c : frame a b -> frame b c -> frame a c.
Proof. unfold frame; intuition congruence. Qed.

Lemma write_spec t c pv ev dn : 0 <= c < zlen (t_parent t) -> 0 <= c < zlen (t_edge t) ->
  exists t', write t c pv ev dn = Ok t' /\ frame t t' /\
    (forall k, 0 <= k -> zn (t_parent t') k = if k =? c then pv else zn (t_parent t) k) /\
    (forall k, 0 <= k -> zn (t_edge t') k = if k =? c then ev else zn (t_edge t) k).
Proof.
  intros H1 H2. unfold write.
  destruct (set_spec (t_parent t) c pv H1) as [par [E1 [L1 N1]]].
  destruct (set_spec (t_edge t) c ev H2) as [edg [E2 [L2 N2]]].
  rewrite E1; cbn [bind]. rewrite E2; cbn [bind]. eexists; split; [reflexivity|].
  unfold frame; simpl. intuition.
Qed.

Section Wloop.
Variable ts : tseq.
Variable sel : selector.
Variable len : Z.

Hypothesis sel_rng : forall e ed c pv ev dn, get (ts_edges ts) e = Ok ed ->
  sel e ed = Some (c, pv, ev, dn) -> 0 <= c < len.

Lemma wloop_spec es : (forall e, In e es -> 0 <= e < num_edges ts) ->
  forall t, zlen (t_parent t) = len -> zlen (t_edge t) = len ->
  exists t', wloop ts sel es t = Ok t' /\ frame t t' /\
    forall c v w, 0 <= c ->
      (forall e ed pv ev dn, In e es -> get (ts_edges ts) e = Ok ed -> sel e ed = Some (c, pv, ev, dn) ->
                             pv = v /\ ev = w) ->
      zn (t_parent t') c = (if existsb (writes_to ts sel c) es then v else zn (t_parent t) c) /\
      zn (t_edge t') c = (if existsb (writes_to ts sel c) es then w else zn (t_edge t) c).
Proof.
  induction es as [|e r IH]; intros Hes t Lp Le.
  - exists t. split; [reflexivity|]. split; [apply frame_refl|]. intros; simpl; auto.
  - simpl wloop.
    destruct (get_in_range (ts_edges ts) e) as [ed Hed]; [apply Hes; left; reflexivity|].
    rewrite Hed; cbn [bind]. unfold sel_body.
    assert (Hr : forall e0, In e0 r -> 0 <= e0 < num_edges ts) by (intros; apply Hes; right; assumption).
    destruct (sel e ed) as [[[[c0 pv0] ev0] dn0]|] eqn:S.
    + pose proof (sel_rng _ _ _ _ _ _ Hed S) as Hc0.
      destruct (write_spec t c0 pv0 ev0 dn0) as [t1 [W [F1 [P1 E1]]]]; [lia|lia|].
      rewrite W; cbn [bind].
      destruct (IH Hr t1) as [t' [Wl [F2 Sp]]];
        [destruct F1 as (_&_&_&_&_&_&A&B); lia|destruct F1 as (_&_&_&_&_&_&A&B); lia|].
      exists t'. split; [exact Wl|]. split; [eapply frame_trans; eauto|].
      intros c v w Hc Hu.
      destruct (Sp c v w Hc) as [Sp1 Sp2]; [intros; eapply Hu; eauto; right; assumption|].
      assert (Ew : writes_to ts sel c e = (c0 =? c)) by (unfold writes_to; rewrite Hed, S; reflexivity).
      rewrite Sp1, Sp2. cbn [existsb]. rewrite Ew.
      destruct (existsb (writes_to ts sel c) r); [rewrite orb_true_r; auto|]. rewrite orb_false_r.
      rewrite (P1 c Hc), (E1 c Hc). rewrite (Z.eqb_sym c c0).
      destruct (c0 =? c) eqn:Ec; [|auto].
      apply Z.eqb_eq in Ec. subst c0.
      destruct (Hu e ed pv0 ev0 dn0 (or_introl eq_refl) Hed S) as [-> ->]. auto.
    + cbn [bind]. destruct (IH Hr t Lp Le) as [t' [Wl [F2 Sp]]].
      exists t'. split; [exact Wl|]. split; [exact F2|].
      intros c v w Hc Hu.
      destruct (Sp c v w Hc) as [Sp1 Sp2]; [intros; eapply Hu; eauto; right; assumption|].
      assert (Ew : writes_to ts sel c e = false) by (unfold writes_to; rewrite Hed, S; reflexivity).
      rewrite Sp1, Sp2. cbn [existsb]. rewrite Ew. simpl. auto.
Qed.

End Wloop.

Lemma existsb_writes_true ts sel c es :
  existsb (writes_to ts sel c) es = true <->
  exists e ed pv ev dn, In e es /\ get (ts_edges ts) e = Ok ed /\ sel e ed = Some (c, pv, ev, dn).
Proof.
  rewrite existsb_exists. split.
  - intros [e [Hin W]]. unfold writes_to in W. destruct (get (ts_edges ts) e) as [ed| | |] eqn:G; try discriminate.
    destruct (sel e ed) as [[[[c' pv] ev] dn]|] eqn:S; [|discriminate].
    apply Z.eqb_eq in W. subst c'. exists e, ed, pv, ev, dn. auto.
  - intros (e & ed & pv & ev & dn & Hin & G & S). exists e. split; [exact Hin|].
    unfold writes_to. rewrite G, S. apply Z.eqb_refl.
Qed.

(* ---- the SPEC, pointwise ---- *)

Section Spec.
Variable ts : tseq.
Hypothesis V : valid_ts ts.

Definition cov (x : Z) (c : Z) (ed : edge) : bool := covers ed x && (e_child ed =? c).

Lemma zn_map_zseq (g : Z -> Z) n c : 0 <= c < n -> zn (map g (zseq n)) c = g c.
Proof.
  intros H. unfold zn, zseq. rewrite map_map.
  rewrite nth_indep with (d' := g (Z.of_nat 0)) by (rewrite map_length, seq_length; lia).
  rewrite (map_nth (fun k => g (Z.of_nat k)) (seq 0 (Z.to_nat n)) 0%nat).
  rewrite seq_nth by lia. f_equal. lia.
Qed.

Lemma zlen_zseq n : 0 <= n -> zlen (zseq n) = n.
Proof. intros H. unfold zlen, zseq. rewrite map_length, seq_length. lia. Qed.

Lemma zlen_parent_at x : zlen (parent_at ts x) = ts_N ts + 1.
Proof. unfold parent_at. rewrite zlen_map, zlen_zseq; [reflexivity|pose proof (v_N ts V); lia]. Qed.
Lemma zlen_edges_at x : zlen (edges_at ts x) = ts_N ts + 1.
Proof. unfold edges_at. rewrite zlen_map, zlen_zseq; [reflexivity|pose proof (v_N ts V); lia]. Qed.

Lemma find_index_none {A} (f : A -> bool) l i : (forall a, In a l -> f a = false) -> find_index f l i = TSK_NULL.
Proof.
  revert i; induction l as [|a l IH]; intros i H; simpl; [reflexivity|].
  rewrite (H a (or_introl eq_refl)). apply IH. intros; apply H; right; assumption.
Qed.

Lemma find_index_some {A} (f : A -> bool) l i : (exists a, In a l /\ f a = true) ->
  exists k a, get l k = Ok a /\ f a = true /\ find_index f l i = i + k.
Proof.
  revert i; induction l as [|a l IH]; intros i [a0 [Hin Hf]]; [destruct Hin|].
  simpl. destruct (f a) eqn:Fa.
  - exists 0, a. split; [reflexivity|]. split; [exact Fa|lia].
  - destruct Hin as [->|Hin]; [congruence|].
    destruct (IH (i + 1) (ex_intro _ a0 (conj Hin Hf))) as [k [a1 [G [F E]]]].
    pose proof (get_ok_range _ _ _ G).
    exists (k + 1), a1. split; [|split; [exact F|lia]].
    rewrite get_cons_pos by lia. replace (k + 1 - 1) with k by lia. exact G.
Qed.

Lemma at_some x e ed : get (ts_edges ts) e = Ok ed -> covers ed x = true ->
  zn (parent_at ts x) (e_child ed) = e_parent ed /\ zn (edges_at ts x) (e_child ed) = e.
Proof.
  intros G C. pose proof (v_edge ts V _ _ G) as R.
  assert (U : forall e' ed', get (ts_edges ts) e' = Ok ed' -> cov x (e_child ed) ed' = true -> e' = e).
  { intros e' ed' G' C'. unfold cov, covers in C', C.
    apply (v_disj ts V e' e ed' ed G' G); lia. }
  unfold parent_at, edges_at. rewrite !zn_map_zseq by lia. split.
  - unfold parent_at_node. fold (cov x (e_child ed)).
    destruct (find (cov x (e_child ed)) (ts_edges ts)) as [ed'|] eqn:F.
    + apply find_some in F as [Hin C']. apply In_get in Hin as [e' G'].
      rewrite (U e' ed' G' C') in G'. congruence.
    + exfalso. pose proof (find_none _ _ F ed (get_In _ _ _ G)) as N.
      unfold cov in N. rewrite C, Z.eqb_refl in N. discriminate.
  - unfold edge_at_node. fold (cov x (e_child ed)).
    destruct (find_index_some (cov x (e_child ed)) (ts_edges ts) 0) as [k [a [G' [C' E]]]].
    + exists ed. split; [eapply get_In; eauto|]. unfold cov. rewrite C, Z.eqb_refl. reflexivity.
    + rewrite E. rewrite (U k a G' C'). lia.
Qed.

Lemma at_none x c : 0 <= c < ts_N ts + 1 ->
  (forall e ed, get (ts_edges ts) e = Ok ed -> e_child ed = c -> covers ed x = false) ->
  zn (parent_at ts x) c = -1 /\ zn (edges_at ts x) c = -1.
Proof.
  intros Hc H. unfold parent_at, edges_at. rewrite !zn_map_zseq by lia.
  assert (N : forall a, In a (ts_edges ts) -> cov x c a = false).
  { intros a Hin. apply In_get in Hin as [e G]. unfold cov.
    destruct (e_child a =? c) eqn:E; [|apply andb_false_r].
    rewrite (H e a G) by lia. reflexivity. }
  split.
  - unfold parent_at_node. fold (cov x c).
    destruct (find (cov x c) (ts_edges ts)) as [ed'|] eqn:F; [|reflexivity].
    apply find_some in F as [Hin C']. rewrite (N _ Hin) in C'. discriminate.
  - unfold edge_at_node. fold (cov x c). apply find_index_none. exact N.
Qed.

(* either some (unique) edge covers x above c, or none does *)
Lemma at_cases x c :
  (exists e ed, get (ts_edges ts) e = Ok ed /\ covers ed x = true /\ e_child ed = c) \/
  (forall e ed, get (ts_edges ts) e = Ok ed -> e_child ed = c -> covers ed x = false).
Proof.
  destruct (find (cov x c) (ts_edges ts)) as [ed|] eqn:F.
  - left. apply find_some in F as [Hin C]. apply In_get in Hin as [e G].
    unfold cov in C. exists e, ed. split; [exact G|]. split; lia.
  - right. intros e ed G Hc. pose proof (find_none _ _ F ed (get_In _ _ _ G)) as N.
    unfold cov in N. destruct (covers ed x); [|reflexivity]. lia.
Qed.

Definition arrays_at (t : tree) (x : Z) : Prop :=
  t_parent t = parent_at ts x /\ t_edge t = edges_at ts x.

Lemma outside_null x : x < 0 \/ ts_L ts <= x ->
  parent_at ts x = repeat TSK_NULL (Z.to_nat (ts_N ts + 1)) /\
  edges_at ts x = repeat TSK_NULL (Z.to_nat (ts_N ts + 1)).
Proof.
  intros Hx. pose proof (v_N ts V) as HN.
  assert (Lr : zlen (repeat TSK_NULL (Z.to_nat (ts_N ts + 1))) = ts_N ts + 1)
    by (unfold zlen; rewrite repeat_length; lia).
  assert (Zr : forall j, 0 <= j < ts_N ts + 1 -> zn (repeat TSK_NULL (Z.to_nat (ts_N ts + 1))) j = -1).
  { intros j Hj. unfold zn. rewrite nth_indep with (d' := TSK_NULL) by (rewrite repeat_length; lia).
    apply nth_repeat. }
  split; apply list_eq_zn.
  - rewrite zlen_parent_at, Lr. reflexivity.
  - intros j Hj. rewrite zlen_parent_at in Hj. rewrite Zr by lia.
    apply at_none; [lia|]. intros e ed G _. pose proof (v_edge ts V _ _ G). unfold covers. lia.
  - rewrite zlen_edges_at, Lr. reflexivity.
  - intros j Hj. rewrite zlen_edges_at in Hj. rewrite Zr by lia.
    apply at_none; [lia|]. intros e ed G _. pose proof (v_edge ts V _ _ G). unfold covers. lia.
Qed.

(* ---- THE TRANSITION LEMMA ---- *)

Lemma transition t x y es_r es_i (f : edge -> bool) :
  arrays_at t x ->
  (forall e, In e es_r -> 0 <= e < num_edges ts) ->
  (forall e, In e es_i -> 0 <= e < num_edges ts) ->
  (forall e ed, In e es_r -> get (ts_edges ts) e = Ok ed -> covers ed x = true /\ covers ed y = false) ->
  (forall e ed, get (ts_edges ts) e = Ok ed -> covers ed x = true -> covers ed y = false -> In e es_r) ->
  (forall e ed, In e es_i -> get (ts_edges ts) e = Ok ed -> f ed = true -> covers ed y = true) ->
  (forall e ed, get (ts_edges ts) e = Ok ed -> covers ed y = true -> covers ed x = false ->
                In e es_i /\ f ed = true) ->
  exists t1 t2, wloop ts sel_rem es_r t = Ok t1 /\ wloop ts (sel_ins f) es_i t1 = Ok t2 /\
                frame t t2 /\ arrays_at t2 y.
Proof.
  intros [Ap Ae] Rr Ri R1 R2 I1 I2.
  set (len := ts_N ts + 1).
  assert (Lp : zlen (t_parent t) = len) by (rewrite Ap; apply zlen_parent_at).
  assert (Le : zlen (t_edge t) = len) by (rewrite Ae; apply zlen_edges_at).
  assert (SR : forall e ed c pv ev dn, get (ts_edges ts) e = Ok ed -> sel_rem e ed = Some (c, pv, ev, dn) -> 0 <= c < len).
  { intros e ed c pv ev dn G S. unfold sel_rem in S. inversion S; subst.
    pose proof (v_edge ts V _ _ G). unfold len. lia. }
  assert (SI : forall e ed c pv ev dn, get (ts_edges ts) e = Ok ed -> sel_ins f e ed = Some (c, pv, ev, dn) -> 0 <= c < len).
  { intros e ed c pv ev dn G S. unfold sel_ins in S. destruct (f ed); [|discriminate]. inversion S; subst.
    pose proof (v_edge ts V _ _ G). unfold len. lia. }
  destruct (wloop_spec ts sel_rem len SR es_r Rr t Lp Le) as [t1 [W1 [F1 S1]]].
  destruct (wloop_spec ts (sel_ins f) len SI es_i Ri t1) as [t2 [W2 [F2 S2]]];
    [destruct F1 as (_&_&_&_&_&_&A&B); lia|destruct F1 as (_&_&_&_&_&_&A&B); lia|].
  exists t1, t2. split; [exact W1|]. split; [exact W2|]. split; [eapply frame_trans; eauto|].
  assert (Lp2 : zlen (t_parent t2) = len)
    by (destruct F1 as (_&_&_&_&_&_&A&B); destruct F2 as (_&_&_&_&_&_&A2&B2); lia).
  assert (Le2 : zlen (t_edge t2) = len)
    by (destruct F1 as (_&_&_&_&_&_&A&B); destruct F2 as (_&_&_&_&_&_&A2&B2); lia).
  (* pointwise *)
  assert (PW : forall c, 0 <= c < len ->
            zn (t_parent t2) c = zn (parent_at ts y) c /\ zn (t_edge t2) c = zn (edges_at ts y) c).
  { intros c Hc.
    (* removal phase: everything written is -1 *)
    destruct (S1 c (-1) (-1) ltac:(lia)) as [P1 E1].
    { intros e ed pv ev dn _ _ S. unfold sel_rem in S. inversion S; auto. }
    destruct (at_cases y c) as [(e' & ed' & G' & C' & Ch')|None].
    - (* the unique edge e' covers y above c *)
      assert (U : forall e ed, get (ts_edges ts) e = Ok ed -> covers ed y = true -> e_child ed = c -> e = e').
      { intros e ed G C Ch. unfold covers in C, C'. apply (v_disj ts V e e' ed ed' G G'); lia. }
      destruct (S2 c (e_parent ed') e' ltac:(lia)) as [P2 E2].
      { intros e ed pv ev dn Hin G S. unfold sel_ins in S. destruct (f ed) eqn:Ff; [|discriminate].
        injection S as S1' S2' S3' S4'. pose proof (I1 e ed Hin G Ff) as Cy.
        pose proof (U e ed G Cy S1') as Ee. rewrite Ee in G. rewrite G in G'.
        injection G' as G''. rewrite <- S2', <- S3', G'', Ee. auto. }
      destruct (at_some y e' ed' G' C') as [Q1 Q2]. rewrite Ch' in Q1, Q2. rewrite Q1, Q2.
      rewrite P2, E2.
      destruct (existsb (writes_to ts (sel_ins f) c) es_i) eqn:X; [auto|].
      (* not inserted: then e' covers x as well, and nothing removed it *)
      destruct (covers ed' x) eqn:Cx.
      + rewrite P1, E1.
        destruct (existsb (writes_to ts sel_rem c) es_r) eqn:Y.
        * exfalso. apply existsb_writes_true in Y as (e & ed & pv & ev & dn & Hin & G & S).
          unfold sel_rem in S. injection S as S1' S2' S3' S4'.
          destruct (R1 e ed Hin G) as [Cx' Cy'].
          assert (Ee : e = e').
          { unfold covers in Cx', Cx. apply (v_disj ts V e e' ed ed' G G'); lia. }
          rewrite Ee in G. rewrite G in G'. injection G' as G''. rewrite G'' in Cy'. congruence.
        * rewrite Ap, Ae. destruct (at_some x e' ed' G' Cx) as [Z1 Z2]. rewrite Ch' in Z1, Z2. auto.
      + exfalso. destruct (I2 e' ed' G' C' Cx) as [Hin Ff].
        assert (existsb (writes_to ts (sel_ins f) c) es_i = true); [|congruence].
        apply existsb_writes_true. exists e', ed', (e_parent ed'), e', 1. split; [exact Hin|]. split; [exact G'|].
        unfold sel_ins. rewrite Ff, Ch'. reflexivity.
    - (* nothing covers y above c *)
      destruct (at_none y c Hc None) as [Q1 Q2]. rewrite Q1, Q2.
      destruct (S2 c (-1) (-1) ltac:(lia)) as [P2 E2].
      { intros e ed pv ev dn Hin G S. exfalso. unfold sel_ins in S. destruct (f ed) eqn:Ff; [|discriminate].
        injection S as S1' S2' S3' S4'. pose proof (I1 e ed Hin G Ff) as Cy.
        rewrite (None e ed G S1') in Cy. discriminate. }
      rewrite P2, E2.
      destruct (existsb (writes_to ts (sel_ins f) c) es_i) eqn:X; [auto|].
      rewrite P1, E1.
      destruct (existsb (writes_to ts sel_rem c) es_r) eqn:Y; [auto|].
      rewrite Ap, Ae.
      destruct (at_cases x c) as [(e' & ed' & G' & C' & Ch')|None'].
      + exfalso. pose proof (R2 e' ed' G' C' (None e' ed' G' Ch')) as Hin.
        assert (existsb (writes_to ts sel_rem c) es_r = true); [|congruence].
        apply existsb_writes_true. exists e', ed', (-1), (-1), (-1). split; [exact Hin|]. split; [exact G'|].
        unfold sel_rem. rewrite Ch'. reflexivity.
      + apply at_none; [exact Hc|exact None']. }
  split; apply list_eq_zn.
  - rewrite Lp2, zlen_parent_at. reflexivity.
  - intros j Hj. apply PW. lia.
  - rewrite Le2, zlen_edges_at. reflexivity.
  - intros j Hj. apply PW. lia.
Qed.

End Spec.
