(* C06 — mode [full] (the ancestor walks of tsk_tree_insert_edge / tsk_tree_remove_edge on
   num_tracked_samples, the partial reset of tsk_tree_clear) REFINES mode [core]:
   the walks are total because node times strictly increase along the parent array
   (acyclicity, from valid_tsb), so every run of [full] succeeds exactly like the run of
   [core] and agrees with it on everything except the tracked counts.  Hence every theorem
   about [abs] also holds for the machine the correspondence runs ([full]). *)
From Coq Require Import List ZArith Bool Lia ZifyBool.
From TskVerif Require Import Base.Common C06.Model C06.BasicProofs C06.ListFacts C06.Valid
  C06.CursorProofs C06.WriteLoops C06.NumEdges C06.NavProofs C06.SeekProofs C06.Theorems.
Import ListNotations.
Open Scope Z_scope.

Section Full.
Variable ts : tseq.
Hypothesis V : valid_ts ts.

Let N := ts_N ts.

(* ---- what time_ok gives ---- *)

Lemma time_facts :
  zlen (ts_time ts) = N /\ (forall u, 0 <= u < N -> 0 <= tm ts u < N) /\
  (forall e ed, get (ts_edges ts) e = Ok ed -> tm ts (e_child ed) < tm ts (e_parent ed)) /\
  zlen (ts_tracked0 ts) = N + 1.
Proof.
  pose proof (v_time ts V) as H. unfold time_ok in H.
  apply andb_true_iff in H as [H _]. apply andb_true_iff in H as [H _].
  apply andb_true_iff in H as [H H4]. apply andb_true_iff in H as [H H3]. apply andb_true_iff in H as [H1 H2].
  split; [fold N; lia|]. split; [|split; [|fold N; lia]].
  - intros u Hu. unfold tm. rewrite forallb_forall in H2.
    destruct (get_in_range (ts_time ts) u) as [x Hx]; [fold N in H1; lia|]. rewrite Hx.
    specialize (H2 x (get_In _ _ _ Hx)). fold N in H2. lia.
  - intros e ed G. rewrite forallb_forall in H3. specialize (H3 ed (get_In _ _ _ G)). lia.
Qed.

(* a parent array all of whose links go to a strictly older node in [0, N) *)
Definition backed (P : list Z) : Prop :=
  zlen P = N + 1 /\
  forall c, 0 <= c <= N -> zn P c = -1 \/ (0 <= zn P c < N /\ 0 <= c < N /\ tm ts c < tm ts (zn P c)).

Lemma backed_set P c v P' : backed P -> set P c v = Ok P' ->
  (v = -1 \/ (0 <= v < N /\ 0 <= c < N /\ tm ts c < tm ts v)) -> backed P'.
Proof.
  intros [L B] S Hv. pose proof (set_ok_range _ _ _ _ S) as R.
  destruct (set_spec P c v R) as [P2 [E [L2 Z2]]]. rewrite S in E. injection E as <-.
  split; [lia|]. intros k Hk. rewrite Z2 by lia. destruct (k =? c) eqn:E.
  - assert (k = c) by lia. subst k. exact Hv.
  - apply B. exact Hk.
Qed.

Lemma backed_null n : Z.of_nat n = N + 1 -> backed (repeat TSK_NULL n).
Proof.
  intros Hn. split; [unfold zlen; rewrite repeat_length; exact Hn|].
  intros c Hc. left. unfold zn. rewrite nth_indep with (d' := TSK_NULL) by (rewrite repeat_length; lia).
  apply nth_repeat.
Qed.

(* ---- the ancestor walk terminates ---- *)

Definition wmeasure (u : Z) : Z := if u =? -1 then 0 else N - tm ts u + 1.

Lemma walk_up_total P : backed P -> forall fuel C d u, zlen C = N + 1 ->
  (u = -1 \/ 0 <= u < N) -> Z.of_nat fuel > wmeasure u ->
  exists C', walk_up fuel P C d u = Ok C' /\ zlen C' = N + 1.
Proof.
  intros [L B]. induction fuel as [|f IH]; intros C d u LC Hu Hf.
  - exfalso. unfold wmeasure in Hf. destruct (u =? -1) eqn:E; [lia|].
    destruct Hu as [->|Hu]; [lia|]. pose proof (proj1 (proj2 time_facts) u Hu). lia.
  - cbn [walk_up]. unfold TSK_NULL. destruct (u =? -1) eqn:E; [eauto|].
    destruct Hu as [->|Hu]; [lia|].
    rewrite get_zn by lia. cbn [bind].
    destruct (set_spec C u (zn C u + d)) as [C1 [S1 [L1 _]]]; [lia|]. rewrite S1. cbn [bind].
    rewrite get_zn by lia. cbn [bind].
    pose proof (proj1 (proj2 time_facts) u Hu) as Tu.
    destruct (B u ltac:(lia)) as [Pn|(Pr & _ & Pt)].
    + rewrite Pn. apply IH; [lia|left; reflexivity|]. unfold wmeasure in *. rewrite E in Hf. simpl. lia.
    + apply IH; [lia|right; exact Pr|].
      pose proof (proj1 (proj2 time_facts) _ Pr) as Tp.
      unfold wmeasure in *. rewrite E in Hf. replace (zn P u =? -1) with false by lia. lia.
Qed.

(* ---- the simulation relation ---- *)

Definition sim (tf tc : tree) : Prop :=
  t_index tf = t_index tc /\ t_left tf = t_left tc /\ t_right tf = t_right tc /\
  t_pos tf = t_pos tc /\ t_parent tf = t_parent tc /\ t_edge tf = t_edge tc /\
  t_num_edges tf = t_num_edges tc /\ t_sites tf = t_sites tc /\
  zlen (t_tracked tf) = N + 1 /\ backed (t_parent tf).

Lemma sim_abs tf tc : sim tf tc -> abs tf = abs tc.
Proof. intros (a & b & c & d & e & f & g & h & _). unfold abs. congruence. Qed.

Lemma wmeasure_bound u : u = -1 \/ 0 <= u < N -> wmeasure u <= N + 1.
Proof.
  intros [->|Hu]; unfold wmeasure; simpl; [pose proof (v_N ts V); fold N; lia|].
  replace (u =? -1) with false by lia. pose proof (proj1 (proj2 time_facts) u Hu). lia.
Qed.

Lemma edge_facts e ed : get (ts_edges ts) e = Ok ed ->
  0 <= e_child ed < N /\ 0 <= e_parent ed < N /\ tm ts (e_child ed) < tm ts (e_parent ed).
Proof.
  intros G. pose proof (v_edge ts V _ _ G). pose proof (proj1 (proj2 (proj2 time_facts)) _ _ G).
  fold N in H. lia.
Qed.

Lemma remove_sim tf tc e ed tc' : get (ts_edges ts) e = Ok ed -> sim tf tc ->
  remove_edge core tc (e_parent ed) (e_child ed) = Ok tc' ->
  exists tf', remove_edge full tf (e_parent ed) (e_child ed) = Ok tf' /\ sim tf' tc'.
Proof.
  intros G (s1 & s2 & s3 & s4 & s5 & s6 & s7 & s8 & s9 & s10) H.
  destruct (edge_facts e ed G) as (Hc & Hp & Ht).
  unfold remove_edge in *. rewrite s5, s6. rewrite s5 in s10.
  inv_bind H as par Hpar. inv_bind H as edg Hedg. cbn [bind] in H. injection H as <-.
  rewrite Hpar, Hedg. cbn [bind].
  rewrite get_zn by lia. cbn [bind].
  assert (Bp : backed par) by (eapply backed_set; eauto).
  destruct (walk_up_total par Bp (walk_fuel tf) (t_tracked tf) (- zn (t_tracked tf) (e_child ed)) (e_parent ed) s9)
    as [C' [W LC]]; [right; exact Hp| |].
  { pose proof (wmeasure_bound (e_parent ed) (or_intror Hp)). destruct s10 as [L _].
    unfold walk_fuel. rewrite s5. unfold zlen in L. lia. }
  rewrite W. cbn [bind]. eexists. split; [reflexivity|].
  unfold sim; simpl. repeat split; auto; try apply Bp; lia.
Qed.

Lemma insert_sim tf tc e ed tc' : get (ts_edges ts) e = Ok ed -> sim tf tc ->
  insert_edge core tc (e_parent ed) (e_child ed) e = Ok tc' ->
  exists tf', insert_edge full tf (e_parent ed) (e_child ed) e = Ok tf' /\ sim tf' tc'.
Proof.
  intros G (s1 & s2 & s3 & s4 & s5 & s6 & s7 & s8 & s9 & s10) H.
  destruct (edge_facts e ed G) as (Hc & Hp & Ht).
  unfold insert_edge in *. cbn [bind] in H.
  inv_bind H as par Hpar. inv_bind H as edg Hedg. injection H as <-.
  rewrite get_zn by lia. cbn [bind].
  destruct (walk_up_total (t_parent tf) s10 (walk_fuel tf) (t_tracked tf) (zn (t_tracked tf) (e_child ed)) (e_parent ed) s9)
    as [C' [W LC]]; [right; exact Hp| |].
  { pose proof (wmeasure_bound (e_parent ed) (or_intror Hp)). destruct s10 as [L _].
    unfold walk_fuel. unfold zlen in L. lia. }
  rewrite W. cbn [bind]. rewrite s5, s6, Hpar, Hedg. cbn [bind]. eexists. split; [reflexivity|].
  assert (Bp : backed par) by (rewrite s5 in s10; eapply backed_set; eauto).
  unfold sim; simpl. repeat split; auto; try apply Bp; lia.
Qed.

(* ---- loops ---- *)

Definition body_sim (bf bc : tree -> Z -> edge -> res tree) : Prop :=
  forall tf tc e ed tc', get (ts_edges ts) e = Ok ed -> sim tf tc -> bc tc e ed = Ok tc' ->
  exists tf', bf tf e ed = Ok tf' /\ sim tf' tc'.

Lemma body_remove_sim : body_sim (body_remove full) (body_remove core).
Proof. intros tf tc e ed tc' G S H. eapply remove_sim; eauto. Qed.
Lemma body_insert_sim : body_sim (body_insert full) (body_insert core).
Proof. intros tf tc e ed tc' G S H. eapply insert_sim; eauto. Qed.
Lemma body_insert_left_sim a : body_sim (body_insert_if_covers_left full a) (body_insert_if_covers_left core a).
Proof.
  intros tf tc e ed tc' G S H. unfold body_insert_if_covers_left in *.
  destruct ((e_left ed <=? a) && (a <? e_right ed)); [eapply insert_sim; eauto|].
  injection H as <-. eauto.
Qed.
Lemma body_insert_right_sim b : body_sim (body_insert_if_covers_right full b) (body_insert_if_covers_right core b).
Proof.
  intros tf tc e ed tc' G S H. unfold body_insert_if_covers_right in *.
  destruct ((b <=? e_right ed) && (e_left ed <? b)); [eapply insert_sim; eauto|].
  injection H as <-. eauto.
Qed.

Lemma edge_loop_sim bf bc d order : body_sim bf bc ->
  forall fuel j stop tf tc tc', sim tf tc -> edge_loop fuel ts d order bc j stop tc = Ok tc' ->
  exists tf', edge_loop fuel ts d order bf j stop tf = Ok tf' /\ sim tf' tc'.
Proof.
  intros Hb. induction fuel as [|f IH]; intros j stop tf tc tc' S H; [discriminate|].
  cbn [edge_loop] in *. destruct (j =? stop); [injection H as <-; eauto|].
  inv_bind H as e He. inv_bind H as ed Hed. inv_bind H as t1 Ht1.
  rewrite He. cbn [bind]. rewrite Hed. cbn [bind].
  destruct (Hb tf tc e ed t1 Hed S Ht1) as [tf1 [B1 S1]]. rewrite B1. cbn [bind].
  eapply IH; eauto.
Qed.

Lemma sim_with_pos tf tc p : sim tf tc -> sim (with_pos tf p) (with_pos tc p).
Proof. intros (s1 & s2 & s3 & s4 & s5 & s6 & s7 & s8 & s9 & s10). unfold sim; simpl. auto 12. Qed.

Lemma apply_diffs_sim d tf tc tc' : sim tf tc -> apply_diffs core ts d tc = Ok tc' ->
  exists tf', apply_diffs full ts d tf = Ok tf' /\ sim tf' tc'.
Proof.
  intros S H. unfold apply_diffs in *. pose proof S as (_ & _ & _ & s4 & _). rewrite s4.
  inv_bind H as lo Hlo. inv_bind H as t1 Ht1. inv_bind H as li Hli.
  rewrite Hlo. cbn [bind].
  destruct (edge_loop_sim _ _ d lo body_remove_sim _ _ _ tf tc t1 S Ht1) as [tf1 [E1 S1]].
  rewrite E1. cbn [bind]. rewrite Hli. cbn [bind].
  eapply edge_loop_sim; eauto. apply body_insert_sim.
Qed.

Lemma update_sim tf tc tc' : sim tf tc -> update_index_and_interval ts tc = Ok tc' ->
  exists tf', update_index_and_interval ts tf = Ok tf' /\ sim tf' tc'.
Proof.
  intros (s1 & s2 & s3 & s4 & s5 & s6 & s7 & s8 & s9 & s10) H. unfold update_index_and_interval in *.
  rewrite s4, s8. inv_bind H as sites Hs. injection H as <-. rewrite Hs. cbn [bind].
  eexists. split; [reflexivity|]. unfold sim; simpl. auto 12.
Qed.

(* ---- clear ---- *)

Lemma own_tracked_len P Ca : forall tr fl u, length (own_tracked P Ca u tr fl) = length tr.
Proof.
  induction tr as [|x tr IH]; intros [|f fl] u; simpl; try reflexivity. f_equal. apply IH.
Qed.

Lemma clear_tracked_len tr : length (clear_tracked ts tr) = length tr.
Proof.
  unfold clear_tracked. generalize (ts_flags ts). revert tr.
  induction tr as [|x tr IH]; intros [|f fl]; simpl; try reflexivity. f_equal. apply IH.
Qed.

Lemma clear_sim tf tc : sim tf tc -> sim (tree_clear full ts tf) (tree_clear core ts tc).
Proof.
  intros (s1 & s2 & s3 & s4 & s5 & s6 & s7 & s8 & s9 & s10).
  unfold sim, tree_clear; simpl. rewrite s4, s5, s6. repeat split; auto.
  - unfold zlen. rewrite clear_tracked_len.
    destruct (0 <? t_num_edges tf); [rewrite own_tracked_len|]; exact s9.
  - rewrite map_const. apply backed_null. rewrite s5 in s10. destruct s10 as [L _]. exact L.
  - rewrite map_const. apply (backed_null (length (t_parent tc))). rewrite s5 in s10. destruct s10 as [L _]. exact L.
Qed.

(* ---- next / prev / seek ---- *)

Lemma tree_next_sim tf tc tc' r : sim tf tc -> tree_next core ts tc = Ok (tc', r) ->
  exists tf', tree_next full ts tf = Ok (tf', r) /\ sim tf' tc'.
Proof.
  intros S H. unfold tree_next in *. pose proof S as (_ & _ & _ & s4 & _). rewrite s4.
  inv_bind H as p Hp. rewrite Hp. cbn [bind].
  destruct (negb (p_index p =? -1)).
  - inv_bind H as t2 Ht2. inv_bind H as t3 Ht3. injection H as <- <-.
    destruct (apply_diffs_sim 1 _ _ _ (sim_with_pos tf tc p S) Ht2) as [tf2 [A2 S2]]. rewrite A2. cbn [bind].
    destruct (update_sim _ _ _ S2 Ht3) as [tf3 [A3 S3]]. rewrite A3. cbn [bind]. eauto.
  - injection H as <- <-. eexists. split; [reflexivity|]. apply clear_sim. apply sim_with_pos. exact S.
Qed.

Lemma tree_prev_sim tf tc tc' r : sim tf tc -> tree_prev core ts tc = Ok (tc', r) ->
  exists tf', tree_prev full ts tf = Ok (tf', r) /\ sim tf' tc'.
Proof.
  intros S H. unfold tree_prev in *. pose proof S as (_ & _ & _ & s4 & _). rewrite s4.
  inv_bind H as p Hp. rewrite Hp. cbn [bind].
  destruct (negb (p_index p =? -1)).
  - inv_bind H as t2 Ht2. inv_bind H as t3 Ht3. injection H as <- <-.
    destruct (apply_diffs_sim (-1) _ _ _ (sim_with_pos tf tc p S) Ht2) as [tf2 [A2 S2]]. rewrite A2. cbn [bind].
    destruct (update_sim _ _ _ S2 Ht3) as [tf3 [A3 S3]]. rewrite A3. cbn [bind]. eauto.
  - injection H as <- <-. eexists. split; [reflexivity|]. apply clear_sim. apply sim_with_pos. exact S.
Qed.

Lemma seek_from_null_sim tf tc tc' x : sim tf tc -> tree_seek_from_null core ts tc x = Ok tc' ->
  exists tf', tree_seek_from_null full ts tf x = Ok tf' /\ sim tf' tc'.
Proof.
  intros S H. unfold tree_seek_from_null in *. pose proof S as (_ & _ & _ & s4 & _). rewrite s4.
  inv_bind H as i0 Hi0. inv_bind H as b0 Hb0. rewrite Hi0. cbn [bind]. rewrite Hb0. cbn [bind].
  destruct (x_le_half x (ts_L ts)).
  - inv_bind H as p Hp. inv_bind H as li Hli. inv_bind H as t1 Ht1. rewrite Hp. cbn [bind]. rewrite Hli. cbn [bind].
    destruct (edge_loop_sim _ _ 1 li (body_insert_left_sim (p_left p)) _ _ _ _ _ t1 (sim_with_pos tf tc p S) Ht1)
      as [tf1 [E1 S1]]. rewrite E1. cbn [bind]. eapply update_sim; eauto.
  - inv_bind H as p Hp. inv_bind H as li Hli. inv_bind H as t1 Ht1. rewrite Hp. cbn [bind]. rewrite Hli. cbn [bind].
    destruct (edge_loop_sim _ _ (-1) li (body_insert_right_sim (p_right p)) _ _ _ _ _ t1 (sim_with_pos tf tc p S) Ht1)
      as [tf1 [E1 S1]]. rewrite E1. cbn [bind]. eapply update_sim; eauto.
Qed.

Lemma in_interval_sim tf tc x : sim tf tc -> in_interval tf x = in_interval tc x.
Proof. intros (_ & s2 & s3 & _). unfold in_interval. rewrite s2, s3. reflexivity. Qed.

Lemma seek_loop_sim (sf sc : tree -> res (tree * Z)) x :
  (forall tf tc tc' r, sim tf tc -> sc tc = Ok (tc', r) -> exists tf', sf tf = Ok (tf', r) /\ sim tf' tc') ->
  forall fuel tf tc tc', sim tf tc -> seek_loop fuel sc x tc = Ok tc' ->
  exists tf', seek_loop fuel sf x tf = Ok tf' /\ sim tf' tc'.
Proof.
  intros Hs. induction fuel as [|f IH]; intros tf tc tc' S H; [discriminate|].
  cbn [seek_loop] in *. rewrite (in_interval_sim tf tc x S).
  destruct (in_interval tc x); [injection H as <-; eauto|].
  destruct (sc tc) as [[t1 r]| | |] eqn:E; cbn [bind] in H; try discriminate.
  destruct (Hs tf tc t1 r S E) as [tf1 [E1 S1]]. rewrite E1. cbn [bind]. eapply IH; eauto.
Qed.

Lemma tree_seek_sim fuel tf tc tc' x : sim tf tc -> tree_seek fuel core ts tc x = Ok tc' ->
  exists tf', tree_seek fuel full ts tf x = Ok tf' /\ sim tf' tc'.
Proof.
  intros S H. unfold tree_seek, tree_seek_linear in *. pose proof S as (s1 & s2 & s3 & _).
  destruct (negb (x_ge_z x 0 && x_lt_z x (ts_L ts))); [discriminate|].
  rewrite s1, s2, s3. destruct (t_index tc =? -1); [eapply seek_from_null_sim; eauto|].
  destruct (x_lt_z x (t_left tc)); cbv iota beta in *;
    match goal with |- context [if ?c then _ else _] => destruct c end;
    eapply seek_loop_sim; eauto; intros; (eapply tree_next_sim || eapply tree_prev_sim); eauto.
Qed.

Lemma tree_seek_index_sim fuel tf tc tc' i : sim tf tc -> tree_seek_index fuel core ts tc i = Ok tc' ->
  exists tf', tree_seek_index fuel full ts tf i = Ok tf' /\ sim tf' tc'.
Proof.
  intros S H. unfold tree_seek_index in *.
  destruct ((i <? 0) || (num_trees ts <=? i)); [discriminate|].
  inv_bind H as x Hx. rewrite Hx. cbn [bind]. eapply tree_seek_sim; eauto.
Qed.

(* ---- the Python level ---- *)

Definition sim2 (sf sc : tree * tree) : Prop := sim (fst sf) (fst sc) /\ sim (snd sf) (snd sc).

Lemma py_step_sim sf sc o sc' r : sim2 sf sc -> inv ts (fst sc) -> inv ts (snd sc) ->
  py_step core ts sc o = Ok (sc', r) ->
  exists sf', py_step full ts sf o = Ok (sf', r) /\ sim2 sf' sc'.
Proof.
  destruct sf as [cf of], sc as [cc oc]. intros [Sc So] [Ic _] _ H. simpl in Sc, So, Ic.
  unfold py_step, py_step_fuel in *. pose proof (seek_fuel_gt ts) as HF.
  destruct o as [| | | | |x|i| | |x|i]; rewrite ?tree_copy_id in *.
  - inv_bind H as a Ha. destruct a as [t r0]. injection H as <- <-.
    unfold tree_first in *. destruct (tree_next_sim _ _ _ _ (clear_sim _ _ Sc) Ha) as [tf' [E S']].
    rewrite E. cbn [bind]. eexists. split; [reflexivity|]. split; assumption.
  - inv_bind H as a Ha. destruct a as [t r0]. injection H as <- <-.
    unfold tree_last in *. destruct (tree_prev_sim _ _ _ _ (clear_sim _ _ Sc) Ha) as [tf' [E S']].
    rewrite E. cbn [bind]. eexists. split; [reflexivity|]. split; assumption.
  - inv_bind H as a Ha. destruct a as [t r0]. injection H as <- <-.
    destruct (tree_next_sim _ _ _ _ Sc Ha) as [tf' [E S']].
    rewrite E. cbn [bind]. eexists. split; [reflexivity|]. split; assumption.
  - inv_bind H as a Ha. destruct a as [t r0]. injection H as <- <-.
    destruct (tree_prev_sim _ _ _ _ Sc Ha) as [tf' [E S']].
    rewrite E. cbn [bind]. eexists. split; [reflexivity|]. split; assumption.
  - injection H as <- <-. eexists. split; [reflexivity|]. split; [apply clear_sim|]; assumption.
  - destruct (negb (x_ge_z x 0 && x_lt_z x (ts_L ts))) eqn:G.
    + injection H as <- <-. eexists. split; [reflexivity|]. split; assumption.
    + destruct x as [v|]; [|discriminate]. unfold x_ge_z, x_lt_z in G.
      destruct (tree_seek_ok ts V (seek_fuel ts) cc v Ic ltac:(lia) HF) as (t' & S & _).
      rewrite S in H. cbn [lib_call] in H. injection H as <- <-.
      destruct (tree_seek_sim _ _ _ _ _ Sc S) as [tf' [E S']]. rewrite E. cbn [lib_call].
      eexists. split; [reflexivity|]. split; assumption.
  - set (i' := if i <? 0 then i + num_trees ts else i) in *.
    destruct ((i' <? 0) || (num_trees ts <=? i')) eqn:G.
    + injection H as <- <-. eexists. split; [reflexivity|]. split; assumption.
    + destruct (tree_seek_index_ok ts V (seek_fuel ts) cc i' Ic ltac:(lia) HF) as (t' & S & _).
      rewrite S in H. cbn [lib_call] in H. injection H as <- <-.
      destruct (tree_seek_index_sim _ _ _ _ _ Sc S) as [tf' [E S']]. rewrite E. cbn [lib_call].
      eexists. split; [reflexivity|]. split; assumption.
  - injection H as <- <-. eexists. split; [reflexivity|]. split; assumption.
  - injection H as <- <-. eexists. split; [reflexivity|]. split; assumption.
  - destruct x as [v|].
    + destruct (negb ((0 <=? v) && (v <? ts_L ts))) eqn:G.
      * unfold tree_seek, x_ge_z, x_lt_z in *. rewrite G in *. cbn [lib_call] in *.
        injection H as <- <-. eexists. split; [reflexivity|]. split; assumption.
      * destruct (tree_seek_ok ts V (seek_fuel ts) cc v Ic ltac:(lia) HF) as (t' & S & _).
        rewrite S in H. cbn [lib_call] in H. injection H as <- <-.
        destruct (tree_seek_sim _ _ _ _ _ Sc S) as [tf' [E S']]. rewrite E. cbn [lib_call].
        eexists. split; [reflexivity|]. split; assumption.
    + unfold tree_seek in *. cbn [x_ge_z x_lt_z andb negb lib_call] in *.
      injection H as <- <-. eexists. split; [reflexivity|]. split; assumption.
  - destruct ((i <? 0) || (num_trees ts <=? i)) eqn:G.
    + unfold tree_seek_index in *. rewrite G in *. cbn [lib_call] in *.
      injection H as <- <-. eexists. split; [reflexivity|]. split; assumption.
    + destruct (tree_seek_index_ok ts V (seek_fuel ts) cc i Ic ltac:(lia) HF) as (t' & S & _).
      rewrite S in H. cbn [lib_call] in H. injection H as <- <-.
      destruct (tree_seek_index_sim _ _ _ _ _ Sc S) as [tf' [E S']]. rewrite E. cbn [lib_call].
      eexists. split; [reflexivity|]. split; assumption.
Qed.

Lemma run_from_sim ops : forall sf sc sc' outs, sim2 sf sc -> inv ts (fst sc) -> inv ts (snd sc) ->
  run_from core ts sc ops = Ok (sc', outs) ->
  exists sf', run_from full ts sf ops = Ok (sf', outs) /\ sim2 sf' sc'.
Proof.
  induction ops as [|o ops IH]; intros sf sc sc' outs S I1 I2 H.
  - simpl in *. injection H as <- <-. eauto.
  - cbn [run_from] in *.
    destruct (py_step_ok ts V sc o I1 I2) as (s1 & r & P & J1 & J2). rewrite P in H. cbn [bind] in H.
    destruct (run_from core ts s1 ops) as [[s2 rs]| | |] eqn:R; cbn [bind] in H; try discriminate.
    injection H as <- <-.
    destruct (py_step_sim sf sc o s1 r S I1 I2 P) as [sf1 [Pf S1]]. rewrite Pf. cbn [bind].
    destruct (IH sf1 s1 s2 rs S1 J1 J2 R) as [sf2 [Rf S2]]. rewrite Rf. cbn [bind]. eauto.
Qed.

Lemma sim_init : sim (tree_init ts) (tree_init ts).
Proof.
  unfold sim, tree_init; simpl. repeat split; auto.
  - apply (proj2 (proj2 (proj2 time_facts))).
  - apply backed_null. pose proof (v_N ts V). fold N. lia.
  - apply (backed_null (Z.to_nat (ts_N ts + 1))). pose proof (v_N ts V). fold N. lia.
Qed.

End Full.

(* THE REFINEMENT THEOREM: for every op list the run of the machine with tracked counts
   ([full], the one the correspondence evaluates) succeeds, returns the same values as the
   run of [core], and ends in states with the same [abs] — so cursor_invariant,
   nav_state_is_spec, nav_canonical, seek_lands, ... transfer to it. *)
Lemma full_refines_core_proof ts ops : valid_tsb ts = true ->
  exists sc sf outs, run core ts ops = Ok (sc, outs) /\ run full ts ops = Ok (sf, outs) /\
    abs (fst sf) = abs (fst sc) /\ abs (snd sf) = abs (snd sc) /\
    spec_state ts (fst sf) /\ spec_state ts (snd sf).
Proof.
  intros Hv. pose proof (valid_tsb_sound ts Hv) as V.
  destruct (run_ok ts V ops) as (sc & outs & R & A & B).
  destruct (run_from_sim ts V ops (init_state ts) (init_state ts) sc outs) as [sf [Rf [S1 S2]]];
    [split; apply (sim_init ts V)|apply (inv_init ts V)|apply (inv_init ts V)|exact R|].
  exists sc, sf, outs. split; [exact R|]. split; [exact Rf|].
  pose proof (sim_abs ts _ _ S1) as E1. pose proof (sim_abs ts _ _ S2) as E2.
  split; [exact E1|]. split; [exact E2|].
  pose proof (tree_ok_spec ts V _ A) as P1. pose proof (tree_ok_spec ts V _ B) as P2.
  unfold abs in E1, E2. injection E1 as e1 e2 e3 e4 e5 e6 e7. injection E2 as f1 f2 f3 f4 f5 f6 f7.
  unfold spec_state in *. rewrite e1, e2, e3, e4, e5, e6, e7, f1, f2, f3, f4, f5, f6, f7. auto.
Qed.

(* non-vacuity: on ex_ts (tracked sample 1, internal sample 3) the 17-op run of [full] returns
   the same values as [core] and its tracked counts are those of a fresh tree of index 2 *)
Example ex_full_run :
  match run full ex_ts ex_ops, run core ex_ts ex_ops, run full ex_ts [OpSeekIndex 2] with
  | Ok (sf, of), Ok (sc, oc), Ok (fr, _) =>
      of = oc /\ abs (fst sf) = abs (fst sc) /\ t_tracked (fst sf) = t_tracked (fst fr) /\
      t_tracked (fst sf) = [0; 1; 0; 0; 1; 1]
  | _, _, _ => False
  end.
Proof. vm_compute. repeat split. Qed.
