(* C06 — seek_index is TOTAL on every integer argument: in every reachable state
   Tree.seek_index(i) (negative indexes wrap once) either lands on tree  i  (resp. i + T) and
   leaves the other tree alone, or raises IndexError and leaves both trees untouched; the
   low-level call (no wrap) raises LibraryError (TSK_ERR_SEEK_OUT_OF_BOUNDS) instead. *)
From Coq Require Import List ZArith Bool Lia ZifyBool.
From TskVerif Require Import Base.Common C06.Model C06.BasicProofs C06.ListFacts C06.Valid
  C06.CursorProofs C06.WriteLoops C06.NumEdges C06.NavProofs C06.SeekProofs C06.Theorems.
Import ListNotations.
Open Scope Z_scope.

(* Tree.seek_index: `if index < 0: index += num_trees` *)
Definition wrap_index (ts : tseq) (i : Z) : Z := if i <? 0 then i + num_trees ts else i.

Lemma seek_index_total_proof ts ops i : valid_tsb ts = true ->
  exists st outs st' r, run core ts ops = Ok (st, outs) /\
    py_step core ts st (OpSeekIndex i) = Ok (st', r) /\
    ((0 <= wrap_index ts i < num_trees ts /\ r = RET_NONE /\
      t_index (fst st') = wrap_index ts i /\ snd st' = snd st) \/
     (~ 0 <= wrap_index ts i < num_trees ts /\ r = RAISE_INDEX_ERROR /\ st' = st)).
Proof.
  intros Hv. pose proof (valid_tsb_sound ts Hv) as V.
  destruct (run_ok ts V ops) as ([cur other] & outs & R & A & B). simpl in A, B.
  exists (cur, other), outs. unfold py_step, py_step_fuel. fold (wrap_index ts i).
  destruct ((wrap_index ts i <? 0) || (num_trees ts <=? wrap_index ts i)) eqn:G.
  - eexists; eexists. split; [exact R|]. split; [reflexivity|]. right. split; [lia|auto].
  - assert (Hr : 0 <= wrap_index ts i < num_trees ts) by lia.
    destruct (tree_seek_index_ok ts V (seek_fuel ts) cur (wrap_index ts i) (proj1 A) Hr (seek_fuel_gt ts))
      as (t' & S & H' & I' & _).
    rewrite S. cbn [lib_call]. eexists; eexists. split; [exact R|]. split; [reflexivity|]. left.
    simpl. split; [exact Hr|]. split; [reflexivity|]. split; [exact I'|reflexivity].
Qed.

Lemma ll_seek_index_total_proof ts ops i : valid_tsb ts = true ->
  exists st outs st' r, run core ts ops = Ok (st, outs) /\
    py_step core ts st (OpLLSeekIndex i) = Ok (st', r) /\
    ((0 <= i < num_trees ts /\ r = RET_NONE /\ t_index (fst st') = i /\ snd st' = snd st) \/
     (~ 0 <= i < num_trees ts /\ r = RAISE_LIBRARY_ERROR /\ st' = st)).
Proof.
  intros Hv. pose proof (valid_tsb_sound ts Hv) as V.
  destruct (run_ok ts V ops) as ([cur other] & outs & R & A & B). simpl in A, B.
  exists (cur, other), outs. unfold py_step, py_step_fuel.
  destruct ((i <? 0) || (num_trees ts <=? i)) eqn:G.
  - unfold tree_seek_index. rewrite G. cbn [lib_call].
    replace (TSK_ERR_SEEK_OUT_OF_BOUNDS =? ABORT) with false by reflexivity.
    eexists; eexists. split; [exact R|]. split; [reflexivity|]. right. split; [lia|auto].
  - assert (Hr : 0 <= i < num_trees ts) by lia.
    destruct (tree_seek_index_ok ts V (seek_fuel ts) cur i (proj1 A) Hr (seek_fuel_gt ts))
      as (t' & S & H' & I' & _).
    rewrite S. cbn [lib_call]. eexists; eexists. split; [exact R|]. split; [reflexivity|]. left.
    simpl. split; [exact Hr|]. split; [reflexivity|]. split; [exact I'|reflexivity].
Qed.

Lemma run_from_snoc m ts ops : forall s s0 o0 o s1 r st outs,
  run_from m ts s ops = Ok (s0, o0) -> py_step m ts s0 o = Ok (s1, r) ->
  run_from m ts s (ops ++ [o]) = Ok (st, outs) -> st = s1.
Proof.
  induction ops as [|a ops IH]; intros s s0 o0 o s1 r st outs R0 S R.
  - cbn [run_from app bind] in *. injection R0 as <- <-. rewrite S in R. cbn [bind] in R.
    injection R as <- _. reflexivity.
  - cbn [run_from app] in *. destruct (py_step m ts s a) as [[s' r']| | |]; cbn [bind] in *; try discriminate.
    destruct (run_from m ts s' ops) as [[s'' rs]| | |] eqn:Q; cbn [bind] in *; try discriminate.
    injection R0 as <- <-.
    destruct (run_from m ts s' (ops ++ [o])) as [[s3 rs3]| | |] eqn:Q3; cbn [bind] in *; try discriminate.
    injection R as <- _. eapply IH; [exact Q|exact S|exact Q3].
Qed.

(* seek_index(k) from ANY reachable state and from a NEW tree give the same abstract state:
   the direct form of "identical to a fresh Tree moved directly to the same index" for the op
   seek_index itself (a corollary of nav_canonical_proof applied to ops ++ [seek_index k]). *)
Lemma seek_index_is_fresh_proof ts ops k : valid_tsb ts = true -> 0 <= k < num_trees ts ->
  exists st outs fr outs',
    run core ts (ops ++ [OpSeekIndex k]) = Ok (st, outs) /\
    run core ts [OpSeekIndex k] = Ok (fr, outs') /\
    t_index (fst st) = k /\ abs (fst st) = abs (fst fr).
Proof.
  intros Hv Hk.
  destruct (nav_canonical_proof ts (ops ++ [OpSeekIndex k]) Hv) as (st & outs & R & fr & outs' & F & E).
  assert (I : t_index (fst st) = k).
  { destruct (seek_index_total_proof ts ops k Hv) as (s0 & o0 & s1 & r & R0 & S & C).
    assert (W : wrap_index ts k = k) by (unfold wrap_index; replace (k <? 0) with false by lia; reflexivity).
    rewrite W in C. destruct C as [(_ & _ & I & _)|(N & _)]; [|lia].
    unfold run in R, R0. rewrite (run_from_snoc _ _ _ _ _ _ _ _ _ _ _ R0 S R). exact I. }
  exists st, outs, fr, outs'. split; [exact R|]. rewrite I in F. unfold fresh_ops in F.
  replace (k =? -1) with false in F by lia. split; [exact F|]. split; [exact I|exact E].
Qed.

(* non-vacuity: on the 4-tree example, seek_index(-1) wraps to the last tree, seek_index(T)
   raises IndexError and leaves the tree where it is *)
Example ex_seek_index_wrap :
  exists st, run core ex_ts [OpFirst; OpSeekIndex (-1); OpSeekIndex (num_trees ex_ts)]
             = Ok (st, [RET_NONE; RET_NONE; RAISE_INDEX_ERROR]) /\
             t_index (fst st) = num_trees ex_ts - 1.
Proof. eexists. split; [vm_compute; reflexivity|vm_compute; reflexivity]. Qed.
