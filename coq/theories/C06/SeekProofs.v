(* C06 — tsk_tree_seek_linear terminates on every finite in-range position within
   num_trees + 1 loop tests and lands on the tree containing the position; tsk_tree_seek,
   tsk_tree_seek_index.  With a NaN position the loop never ends (finding F4). *)
From Coq Require Import List ZArith Bool Lia ZifyBool.
From TskVerif Require Import Base.Common C06.Model C06.BasicProofs C06.ListFacts C06.Valid
  C06.CursorProofs C06.WriteLoops C06.NavProofs.
Import ListNotations.
Open Scope Z_scope.

Section Seek.
Variable ts : tseq.
Hypothesis V : valid_ts ts.

Let T := num_trees ts.

Lemma tree_ok_index t : tree_ok ts t -> -1 <= t_index t < T.
Proof. intros H. pose proof (v_T ts V). destruct (tree_ok_cases ts t H) as [(I & _)|(K & _)]; unfold T; lia. Qed.

Lemma tree_ok_interval t : tree_ok ts t ->
  (t_index t = -1 /\ t_left t = 0 /\ t_right t = 0) \/
  (0 <= t_index t < T /\ t_left t = bp ts (t_index t) /\ t_right t = bp ts (t_index t + 1)).
Proof.
  intros H. pose proof H as (Hi & Hl & Hr & _).
  destruct (tree_ok_cases ts t H) as [(I & (N1 & N2 & N3) & _)|(K & (P1 & P2 & P3 & _) & _)].
  - left. rewrite Hl, Hr. auto.
  - right. rewrite Hl, Hr, Hi. split; [rewrite <- Hi; unfold T; lia|]. split; assumption.
Qed.

Lemma bp_unique k i v : 0 <= k < T -> 0 <= i < T ->
  bp ts k <= v < bp ts (k + 1) -> bp ts i <= v < bp ts (i + 1) -> k = i.
Proof.
  intros Hk Hi A B. destruct (Z.lt_trichotomy k i) as [L|[E|G]]; [|exact E|]; exfalso.
  - pose proof (bp_mono ts V (k + 1) i ltac:(lia) ltac:(fold T; lia)). lia.
  - pose proof (bp_mono ts V (i + 1) k ltac:(lia) ltac:(fold T; lia)). lia.
Qed.

Lemma in_interval_iff t v kt : tree_ok ts t -> 0 <= kt < T -> bp ts kt <= v < bp ts (kt + 1) ->
  (in_interval t (Fin v) = true <-> t_index t = kt).
Proof.
  intros H Hk Hv. unfold in_interval, z_le_x, x_lt_z.
  pose proof (bp_range ts V kt ltac:(fold T; lia)) as R.
  destruct (tree_ok_interval t H) as [(I & L0 & R0)|(K & L1 & R1)].
  - rewrite L0, R0. split; [lia|lia].
  - rewrite L1, R1. split; intros A.
    + apply (bp_unique (t_index t) kt v); auto; lia.
    + rewrite A. lia.
Qed.

Definition dist_next (kt k : Z) : Z := if k <=? kt then kt - k else T - k + kt + 1.
Definition dist_prev (kt k : Z) : Z := if kt <=? k then k - kt else k + 1 + (T - kt).

Lemma seek_loop_next_ok v kt : 0 <= kt < T -> bp ts kt <= v < bp ts (kt + 1) ->
  forall fuel t, tree_ok ts t -> Z.of_nat fuel > dist_next kt (t_index t) ->
  exists t', seek_loop fuel (tree_next core ts) (Fin v) t = Ok t' /\ tree_ok ts t' /\ t_index t' = kt /\
             (ne_ok ts t -> ne_ok ts t').
Proof.
  intros Hk Hv. induction fuel as [|f IH]; intros t H Hf.
  - exfalso. pose proof (tree_ok_index t H). unfold dist_next in Hf. destruct (t_index t <=? kt) eqn:E; lia.
  - cbn [seek_loop]. destruct (in_interval t (Fin v)) eqn:E.
    + exists t. split; [reflexivity|]. split; [exact H|]. split; [|auto]. apply (in_interval_iff t v kt H Hk Hv). exact E.
    + assert (NE : t_index t <> kt).
      { intros A. apply (in_interval_iff t v kt H Hk Hv) in A. congruence. }
      destruct (tree_next_ok ts V t H) as (t1 & r & S & H1 & I1 & N1). rewrite S. cbn [bind].
      destruct (IH t1 H1) as (t' & S' & H' & I' & N'); [|exists t'; split; [exact S'|]; split; [exact H'|]; split; [exact I'|auto]].
      rewrite I1. pose proof (tree_ok_index t H).
      unfold dist_next, nxt in *. fold T.
      destruct (t_index t <=? kt) eqn:E1; destruct (t_index t + 1 =? T) eqn:E2;
        try (destruct (-1 <=? kt) eqn:E3); try (destruct (t_index t + 1 <=? kt) eqn:E4); lia.
Qed.

Lemma seek_loop_prev_ok v kt : 0 <= kt < T -> bp ts kt <= v < bp ts (kt + 1) ->
  forall fuel t, tree_ok ts t -> Z.of_nat fuel > dist_prev kt (t_index t) ->
  exists t', seek_loop fuel (tree_prev core ts) (Fin v) t = Ok t' /\ tree_ok ts t' /\ t_index t' = kt /\
             (ne_ok ts t -> ne_ok ts t').
Proof.
  intros Hk Hv. induction fuel as [|f IH]; intros t H Hf.
  - exfalso. pose proof (tree_ok_index t H). unfold dist_prev in Hf. destruct (kt <=? t_index t) eqn:E; lia.
  - cbn [seek_loop]. destruct (in_interval t (Fin v)) eqn:E.
    + exists t. split; [reflexivity|]. split; [exact H|]. split; [|auto]. apply (in_interval_iff t v kt H Hk Hv). exact E.
    + assert (NE : t_index t <> kt).
      { intros A. apply (in_interval_iff t v kt H Hk Hv) in A. congruence. }
      destruct (tree_prev_ok ts V t H) as (t1 & r & S & H1 & I1 & N1). rewrite S. cbn [bind].
      destruct (IH t1 H1) as (t' & S' & H' & I' & N'); [|exists t'; split; [exact S'|]; split; [exact H'|]; split; [exact I'|auto]].
      rewrite I1. pose proof (tree_ok_index t H).
      unfold dist_prev, prv in *. fold T.
      destruct (kt <=? t_index t) eqn:E1; destruct (t_index t =? -1) eqn:E2;
        try (destruct (kt <=? T - 1) eqn:E3); try (destruct (kt <=? t_index t - 1) eqn:E4); lia.
Qed.

Lemma dist_bounds kt k : 0 <= kt < T -> -1 <= k < T -> dist_next kt k <= T /\ dist_prev kt k <= T.
Proof.
  intros A B. unfold dist_next, dist_prev.
  destruct (k <=? kt) eqn:E1; destruct (kt <=? k) eqn:E2; lia.
Qed.

(* tsk_tree_seek_linear: whichever direction the distance comparison picks *)
Lemma tree_seek_linear_ok fuel t v : tree_ok ts t -> 0 <= v < ts_L ts -> Z.of_nat fuel > T ->
  exists t', tree_seek_linear fuel core ts t (Fin v) = Ok t' /\ tree_ok ts t' /\
             (0 <= t_index t' < T /\ bp ts (t_index t') <= v < bp ts (t_index t' + 1)) /\
             (ne_ok ts t -> ne_ok ts t').
Proof.
  intros H Hv Hf.
  destruct (seek_index_calc ts V v Hv) as (kt & Hk & Hb & _).
  pose proof (tree_ok_index t H) as Hi.
  destruct (dist_bounds kt (t_index t) Hk Hi) as [D1 D2].
  unfold tree_seek_linear.
  destruct (x_lt_z (Fin v) (t_left t)); cbv iota beta;
    match goal with |- context [if ?c then _ else _] => destruct c end.
  - destruct (seek_loop_next_ok v kt Hk Hb fuel t H ltac:(lia)) as (t' & S & H' & I' & N').
    exists t'. rewrite I'. auto.
  - destruct (seek_loop_prev_ok v kt Hk Hb fuel t H ltac:(lia)) as (t' & S & H' & I' & N').
    exists t'. rewrite I'. auto.
  - destruct (seek_loop_next_ok v kt Hk Hb fuel t H ltac:(lia)) as (t' & S & H' & I' & N').
    exists t'. rewrite I'. auto.
  - destruct (seek_loop_prev_ok v kt Hk Hb fuel t H ltac:(lia)) as (t' & S & H' & I' & N').
    exists t'. rewrite I'. auto.
Qed.

Lemma tree_seek_ok fuel t v : tree_ok ts t -> 0 <= v < ts_L ts -> Z.of_nat fuel > T ->
  exists t', tree_seek fuel core ts t (Fin v) = Ok t' /\ tree_ok ts t' /\
             (0 <= t_index t' < T /\ bp ts (t_index t') <= v < bp ts (t_index t' + 1)) /\
             (ne_ok ts t -> ne_ok ts t').
Proof.
  intros H Hv Hf. unfold tree_seek, x_lt_z, x_ge_z.
  replace (negb ((0 <=? v) && (v <? ts_L ts))) with false by lia.
  destruct (t_index t =? -1) eqn:E.
  - apply tree_seek_from_null_ok; auto. lia.
  - apply tree_seek_linear_ok; auto.
Qed.

Lemma tree_seek_index_ok fuel t i : tree_ok ts t -> 0 <= i < T -> Z.of_nat fuel > T ->
  exists t', tree_seek_index fuel core ts t i = Ok t' /\ tree_ok ts t' /\ t_index t' = i /\
             (ne_ok ts t -> ne_ok ts t').
Proof.
  intros H Hi Hf. unfold tree_seek_index. fold T.
  replace ((i <? 0) || (T <=? i)) with false by lia.
  rewrite get_bp by (fold T; lia). cbn [bind].
  assert (Hv : 0 <= bp ts i < ts_L ts).
  { pose proof (bp_range ts V i ltac:(fold T; lia)). pose proof (bp_lt_L ts V i ltac:(fold T; lia)). lia. }
  destruct (tree_seek_ok fuel t (bp ts i) H Hv Hf) as (t' & S & H' & (K & B) & N').
  exists t'. split; [exact S|]. split; [exact H'|]. split; [|exact N'].
  apply (bp_unique (t_index t') i (bp ts i)); auto.
  pose proof (v_bp_strict ts V i (i + 1) ltac:(lia) ltac:(fold T; lia)). lia.
Qed.

Lemma seek_fuel_gt : Z.of_nat (seek_fuel ts) > T.
Proof. unfold seek_fuel, T, num_trees, zlen. lia. Qed.

End Seek.
