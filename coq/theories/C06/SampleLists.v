(* C06 — tsk_tree_update_sample_lists (trees.c), at the level of SETS of samples.

     for (u = node; u != TSK_NULL; u = parent[u]) {
         list[u] = (u is a sample ? [u] : []) ++ list[v1] ++ list[v2] ++ ...   (children of u)
     }

   called by tsk_tree_insert_edge / tsk_tree_remove_edge on the edge's parent AFTER the
   parent link has been changed.  The linked representation (left_sample / right_sample /
   next_sample) and the order inside a list are abstracted: a list is represented by the
   increasing duplicate-free list of its members, so that equal sets are equal lists.

   Proved here (array level): the lists are characterised by the recurrence
        list[u] = own(u) U union of list[v] over the children v of u        (0 <= u < N)
   which has exactly one solution on an acyclic parent array, and one insert / remove step
   (point change of the parent array + the walk) re-establishes it.  What is NOT done: carrying
   the list array inside the navigation state machine ([tree] has no such field), i.e. the
   plumbing through the loops of next / prev / seek that C06/CountProofs.v does for the counts;
   it needs exactly the same preconditions (removed edge present, inserted child parentless),
   which [transition_good] establishes. *)
From Coq Require Import List ZArith Bool Lia ZifyBool.
From TskVerif Require Import Base.Common C06.Model C06.BasicProofs C06.ListFacts C06.Valid
  C06.FullProofs C06.Theorems.
Import ListNotations.
Open Scope Z_scope.

Definition gl (S : list (list Z)) (v : Z) : list Z := nth (Z.to_nat v) S [].

Lemma gset_spec (S : list (list Z)) i a : 0 <= i < zlen S ->
  exists S', set S i a = Ok S' /\ zlen S' = zlen S /\
             forall k, 0 <= k -> gl S' k = if k =? i then a else gl S k.
Proof.
  intros H. unfold set. destruct (i <? 0) eqn:E; [lia|].
  destruct (set_nat_spec S (Z.to_nat i) a) as [S' [E1 [Hl Hn]]]; [unfold zlen in H; lia|].
  exists S'. rewrite E1. split; [reflexivity|]. split; [unfold zlen; lia|].
  intros k Hk. unfold gl. rewrite Hn.
  destruct (k =? i) eqn:Eki.
  - assert (k = i) by lia. subst. rewrite Nat.eqb_refl. reflexivity.
  - destruct (Nat.eqb (Z.to_nat k) (Z.to_nat i)) eqn:En; [|reflexivity]. apply Nat.eqb_eq in En. lia.
Qed.

Section SL.
Variable ts : tseq.
Hypothesis V : valid_ts ts.
Let N := ts_N ts.

(* is sample s a member of the recomputed list of u? *)
Definition Fb (P : list Z) (S : list (list Z)) (u s : Z) : bool :=
  (flagb ts s && (s =? u)) ||
  existsb (fun v => (zn P v =? u) && memb s (gl S v)) (zseq (N + 1)).

Definition slist_of (P : list Z) (S : list (list Z)) (u : Z) : list Z :=
  filter (Fb P S u) (zseq N).

(* for (u = node; u != TSK_NULL; u = parent[u]) list[u] = recomputed *)
Fixpoint slist_walk (fuel : nat) (P : list Z) (S : list (list Z)) (u : Z) : res (list (list Z)) :=
  match fuel with
  | O => Fuel
  | Datatypes.S f =>
      if u =? TSK_NULL then Ok S else
      do S' <- set S u (slist_of P S u);
      do pu <- get P u;
      slist_walk f P S' pu
  end.

(* the recurrence, possibly broken at node p *)
Definition srec_ex (P : list Z) (S : list (list Z)) (p : Z) : Prop :=
  forall u, 0 <= u < N -> u <> p -> gl S u = slist_of P S u.
Definition srec (P : list Z) (S : list (list Z)) : Prop :=
  forall u, 0 <= u < N -> gl S u = slist_of P S u.

Lemma existsb_ext_in {A} (f g : A -> bool) l : (forall x, In x l -> f x = g x) -> existsb f l = existsb g l.
Proof.
  induction l as [|a l IH]; intros H; [reflexivity|]. simpl.
  rewrite (H a (or_introl eq_refl)), IH; [reflexivity|]. intros; apply H; right; assumption.
Qed.

Lemma slist_of_ext P S P' S' u :
  (forall v, 0 <= v <= N -> (zn P v =? u) = (zn P' v =? u)) ->
  (forall v, 0 <= v <= N -> zn P v = u -> gl S v = gl S' v) ->
  slist_of P S u = slist_of P' S' u.
Proof.
  intros HP HS. unfold slist_of. apply filter_ext_in. intros s _. unfold Fb. f_equal.
  apply existsb_ext_in. intros v Hv. apply In_zseq in Hv. rewrite <- (HP v ltac:(lia)).
  destruct (zn P v =? u) eqn:E; [|reflexivity]. rewrite (HS v ltac:(lia) ltac:(lia)). reflexivity.
Qed.

(* ---- the walk restores a recurrence that is broken only at its start node ---- *)
Lemma slist_walk_rec P : backed ts P -> forall fuel S p, zlen S = N + 1 ->
  (p = -1 \/ 0 <= p < N) -> Z.of_nat fuel > wmeasure ts p -> srec_ex P S p ->
  exists S', slist_walk fuel P S p = Ok S' /\ zlen S' = N + 1 /\ srec P S'.
Proof.
  intros B. pose proof B as [L Bk]. fold N in L, Bk.
  induction fuel as [|f IH]; intros S p LS Hp Hf R.
  - exfalso. unfold wmeasure in Hf. destruct (p =? -1) eqn:E; [lia|].
    destruct Hp as [->|Hp]; [lia|]. pose proof (proj1 (proj2 (time_facts ts V)) p Hp). fold N in H. lia.
  - cbn [slist_walk]. unfold TSK_NULL. destruct (p =? -1) eqn:E.
    + exists S. split; [reflexivity|]. split; [exact LS|]. intros u Hu. apply R; lia.
    + destruct Hp as [->|Hp]; [lia|].
      destruct (gset_spec S p (slist_of P S p)) as [S1 [E1 [L1 Z1]]]; [lia|]. rewrite E1. cbn [bind].
      rewrite get_zn by lia. cbn [bind].
      pose proof (proj1 (proj2 (time_facts ts V)) p Hp) as Tp. fold N in Tp.
      assert (Hq : zn P p = -1 \/ 0 <= zn P p < N) by (destruct (Bk p ltac:(lia)) as [A|(A & _)]; auto).
      assert (Hself : forall v, 0 <= v <= N -> zn P v = p -> v <> p).
      { intros v Hv Ev ->. destruct (Bk p ltac:(lia)) as [A|(_ & _ & A)]; [lia|]. rewrite Ev in A. lia. }
      assert (R1 : srec_ex P S1 (zn P p)).
      { intros u Hu Hne. rewrite (Z1 u) by lia. destruct (u =? p) eqn:Eu.
        - assert (u = p) by lia. subst u. apply slist_of_ext; [reflexivity|].
          intros v Hv Ev. rewrite (Z1 v) by lia. replace (v =? p) with false; [reflexivity|].
          pose proof (Hself v Hv Ev). lia.
        - rewrite (R u Hu ltac:(lia)). apply slist_of_ext; [reflexivity|].
          intros v Hv Ev. rewrite (Z1 v) by lia. replace (v =? p) with false; [reflexivity|].
          destruct (v =? p) eqn:Evp; [|reflexivity]. assert (v = p) by lia. subst v. lia. }
      destruct (IH S1 (zn P p) ltac:(lia) Hq) as (S' & W & LS' & RS'); [|exact R1|].
      * destruct (Bk p ltac:(lia)) as [A|(A & _ & At)].
        -- rewrite A. unfold wmeasure in *. rewrite E in Hf. simpl. lia.
        -- pose proof (proj1 (proj2 (time_facts ts V)) _ A) as Tq. fold N in Tq.
           unfold wmeasure in *. rewrite E in Hf. replace (zn P p =? -1) with false by lia. lia.
      * exists S'. auto.
Qed.

(* ---- the recurrence has one solution ---- *)
Lemma srec_unique P S1 S2 : backed ts P -> srec P S1 -> srec P S2 ->
  forall u, 0 <= u < N -> gl S1 u = gl S2 u.
Proof.
  intros [L Bk] R1 R2. fold N in L, Bk.
  assert (H : forall k u, 0 <= u < N -> tm ts u < Z.of_nat k -> gl S1 u = gl S2 u).
  { induction k as [|k IH]; intros u Hu Ht.
    - pose proof (proj1 (proj2 (time_facts ts V)) u Hu). fold N in H. lia.
    - rewrite (R1 u Hu), (R2 u Hu). apply slist_of_ext; [reflexivity|].
      intros v Hv Ev. destruct (Bk v Hv) as [A|(A & Av & At)]; [lia|].
      apply IH; [exact Av|]. rewrite Ev in At. lia. }
  intros u Hu. apply (H (Z.to_nat (tm ts u + 1)) u Hu). lia.
Qed.

(* ---- one tsk_tree_insert_edge / tsk_tree_remove_edge step ---- *)
Lemma insert_srec P S c p P' S' fuel :
  backed ts P -> zlen S = N + 1 -> srec P S -> 0 <= c < N -> 0 <= p < N -> tm ts c < tm ts p ->
  zn P c = -1 -> set P c p = Ok P' -> Z.of_nat fuel > N + 1 ->
  slist_walk fuel P' S p = Ok S' ->
  backed ts P' /\ zlen S' = N + 1 /\ srec P' S'.
Proof.
  intros B LS R Hc Hp Ht Hn St Hf W. pose proof B as [L Bk]. fold N in L, Bk.
  assert (B' : backed ts P') by (eapply backed_set; eauto; right; fold N; lia).
  destruct (set_spec P c p ltac:(lia)) as [P2 [E [_ Z2]]]. rewrite St in E. injection E as <-.
  destruct (slist_walk_rec P' B' fuel S p LS (or_intror Hp)) as (S2 & W2 & LS2 & R2).
  - pose proof (wmeasure_bound ts V p (or_intror Hp)). fold N in H. lia.
  - intros u Hu Hne. rewrite (R u Hu). apply slist_of_ext; [|reflexivity].
    intros v Hv. rewrite (Z2 v) by lia. destruct (v =? c) eqn:Ev; [|reflexivity].
    assert (v = c) by lia. subst v. rewrite Hn. lia.
  - rewrite W in W2. injection W2 as <-. auto.
Qed.

Lemma remove_srec P S c p P' S' fuel :
  backed ts P -> zlen S = N + 1 -> srec P S -> 0 <= c < N -> 0 <= p < N ->
  zn P c = p -> set P c (-1) = Ok P' -> Z.of_nat fuel > N + 1 ->
  slist_walk fuel P' S p = Ok S' ->
  backed ts P' /\ zlen S' = N + 1 /\ srec P' S'.
Proof.
  intros B LS R Hc Hp Hn St Hf W. pose proof B as [L Bk]. fold N in L, Bk.
  assert (B' : backed ts P') by (eapply backed_set; eauto).
  destruct (set_spec P c (-1) ltac:(lia)) as [P2 [E [_ Z2]]]. rewrite St in E. injection E as <-.
  destruct (slist_walk_rec P' B' fuel S p LS (or_intror Hp)) as (S2 & W2 & LS2 & R2).
  - pose proof (wmeasure_bound ts V p (or_intror Hp)). fold N in H. lia.
  - intros u Hu Hne. rewrite (R u Hu). apply slist_of_ext; [|reflexivity].
    intros v Hv. rewrite (Z2 v) by lia. destruct (v =? c) eqn:Ev; [|reflexivity].
    assert (v = c) by lia. subst v. rewrite Hn. lia.
  - rewrite W in W2. injection W2 as <-. auto.
Qed.

(* ---- tsk_tree_clear: every sample alone, everything else empty ---- *)
Definition slists_null : list (list Z) :=
  map (fun u => if flagb ts u then [u] else []) (zseq N) ++ [[]].

End SL.

(* The statement exported to Props/C06.v: for a valid tree sequence, any acyclic
   edge-backed parent array and any list array satisfying the recurrence,
   (1) the recurrence determines the lists, and (2) an insert step (child parentless) or a
   remove step (edge present) followed by the walk of tsk_tree_update_sample_lists yields lists
   satisfying the recurrence for the new parent array. *)
Lemma sample_lists_step_proof ts : valid_tsb ts = true ->
  (forall P S1 S2, backed ts P -> srec ts P S1 -> srec ts P S2 ->
                   forall u, 0 <= u < ts_N ts -> gl S1 u = gl S2 u) /\
  (forall P S c p P' S' fuel, backed ts P -> zlen S = ts_N ts + 1 -> srec ts P S ->
     0 <= c < ts_N ts -> 0 <= p < ts_N ts -> tm ts c < tm ts p -> zn P c = -1 ->
     set P c p = Ok P' -> Z.of_nat fuel > ts_N ts + 1 -> slist_walk ts fuel P' S p = Ok S' ->
     backed ts P' /\ zlen S' = ts_N ts + 1 /\ srec ts P' S') /\
  (forall P S c p P' S' fuel, backed ts P -> zlen S = ts_N ts + 1 -> srec ts P S ->
     0 <= c < ts_N ts -> 0 <= p < ts_N ts -> zn P c = p ->
     set P c (-1) = Ok P' -> Z.of_nat fuel > ts_N ts + 1 -> slist_walk ts fuel P' S p = Ok S' ->
     backed ts P' /\ zlen S' = ts_N ts + 1 /\ srec ts P' S').
Proof.
  intros Hv. pose proof (valid_tsb_sound ts Hv) as V. split; [|split].
  - intros P S1 S2 B R1 R2 u Hu. exact (srec_unique ts V P S1 S2 B R1 R2 u Hu).
  - intros P S c p P' S' fuel B LS R Hc Hp Ht Hn St Hf W.
    exact (insert_srec ts V P S c p P' S' fuel B LS R Hc Hp Ht Hn St Hf W).
  - intros P S c p P' S' fuel B LS R Hc Hp Hn St Hf W.
    exact (remove_srec ts V P S c p P' S' fuel B LS R Hc Hp Hn St Hf W).
Qed.

(* ---- correspondence: the sample lists the implementation reports after every op satisfy the
   recurrence over the model's (canonical) parent array — and the recurrence has one solution *)
Definition srecb (ts : tseq) (P : list Z) (S : list (list Z)) : bool :=
  forallb (fun u => zlist_eqb (gl S u) (slist_of ts P S u)) (zseq (ts_N ts)).

Fixpoint parents_from (ts : tseq) (st : tree * tree) (ops : list op) : res (list (list Z)) :=
  match ops with
  | [] => Ok []
  | o :: ops' =>
      do '(st', _) <- py_step full ts st o;
      do rest <- parents_from ts st' ops';
      Ok (t_parent (fst st') :: rest)
  end.

Fixpoint all2 {A B} (f : A -> B -> bool) (l1 : list A) (l2 : list B) : bool :=
  match l1, l2 with
  | [], [] => true
  | a :: l1', b :: l2' => f a b && all2 f l1' l2'
  | _, _ => false
  end.

(* [observed]: per op, the sorted sample list of every node 0 .. N-1 *)
Definition check_slists (ts : tseq) (ops : list op) (observed : list (list (list Z))) : bool :=
  match parents_from ts (init_state ts) ops with
  | Ok ps => all2 (fun P S => srecb ts P (S ++ [[]])) ps observed
  | _ => false
  end.

Lemma srecb_srec ts P S : srecb ts P S = true -> srec ts P S.
Proof.
  unfold srecb, srec. rewrite forallb_forall. intros H u Hu.
  specialize (H u (proj2 (In_zseq _ _) Hu)). apply (list_eqb_eq Z.eqb); [|exact H].
  intros x y. apply Z.eqb_eq.
Qed.

(* non-vacuity: on ex_ts (C06/Theorems.v), tree 0 = [0,2): node 3 (an internal sample) is the
   parent of 0 and 1, node 4 of 3; the lists below satisfy the recurrence, and re-running the
   walk from node 3 leaves them unchanged *)
Example ex_srec :
  let P := [3; 3; -1; 4; -1; -1] in
  let S := [[0]; [1]; [2]; [0; 1; 3]; [0; 1; 3]; []] in
  srecb Theorems.ex_ts P S = true /\ slist_walk Theorems.ex_ts 8 P S 3 = Ok S.
Proof. vm_compute. split; reflexivity. Qed.
