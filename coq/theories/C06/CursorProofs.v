(* C06 — the cursor invariant of tsk_tree_position_t and the exact result of
   tsk_tree_position_next / _prev / _seek_forward / _seek_backward on a state that
   satisfies it (trees.c l. 5191-5437). *)
From Coq Require Import List ZArith Bool Lia ZifyBool.
From TskVerif Require Import Base.Common C06.Model C06.ListFacts C06.Valid.
Import ListNotations.
Open Scope Z_scope.

Section WithTs.
Variable ts : tseq.
Hypothesis V : valid_ts ts.

Let M := num_edges ts.
Let T := num_trees ts.

(* ---- coordinates through the two index orders ---- *)

Lemma edge_of_I j : 0 <= j < M ->
  exists ed, get (ts_I ts) j = Ok (zn (ts_I ts) j) /\ get (ts_edges ts) (zn (ts_I ts) j) = Ok ed /\
             zn (LI ts) j = e_left ed /\ zn (RI ts) j = e_right ed.
Proof.
  intros Hj. pose proof (v_I_len ts V) as Hl. pose proof (v_I_rng ts V j Hj) as Hr.
  assert (G : get (ts_I ts) j = Ok (zn (ts_I ts) j)) by (apply get_zn; fold M in Hl; lia).
  destruct (get_in_range (ts_edges ts) (zn (ts_I ts) j)) as [ed Hed]; [exact Hr|].
  exists ed. split; [exact G|]. split; [exact Hed|].
  unfold LI, RI, coords. rewrite !(zn_map_get _ _ _ _ G), Hed. split; reflexivity.
Qed.

Lemma edge_of_O j : 0 <= j < M ->
  exists ed, get (ts_O ts) j = Ok (zn (ts_O ts) j) /\ get (ts_edges ts) (zn (ts_O ts) j) = Ok ed /\
             zn (LO ts) j = e_left ed /\ zn (RO ts) j = e_right ed.
Proof.
  intros Hj. pose proof (v_O_len ts V) as Hl. pose proof (v_O_rng ts V j Hj) as Hr.
  assert (G : get (ts_O ts) j = Ok (zn (ts_O ts) j)) by (apply get_zn; fold M in Hl; lia).
  destruct (get_in_range (ts_edges ts) (zn (ts_O ts) j)) as [ed Hed]; [exact Hr|].
  exists ed. split; [exact G|]. split; [exact Hed|].
  unfold LO, RO, coords. rewrite !(zn_map_get _ _ _ _ G), Hed. split; reflexivity.
Qed.

Lemma zlen_LI : zlen (LI ts) = M.
Proof. unfold LI, coords. rewrite zlen_map. apply (v_I_len ts V). Qed.
Lemma zlen_RI : zlen (RI ts) = M.
Proof. unfold RI, coords. rewrite zlen_map. apply (v_I_len ts V). Qed.
Lemma zlen_RO : zlen (RO ts) = M.
Proof. unfold RO, coords. rewrite zlen_map. apply (v_O_len ts V). Qed.
Lemma zlen_LO : zlen (LO ts) = M.
Proof. unfold LO, coords. rewrite zlen_map. apply (v_O_len ts V). Qed.

Lemma test_left_I f j : 0 <= j < M -> test_left ts (ts_I ts) f j = Ok (f (zn (LI ts) j)).
Proof.
  intros Hj. destruct (edge_of_I j Hj) as (ed & G1 & G2 & E1 & E2).
  unfold test_left, edge_at. rewrite G1; simpl. rewrite G2; simpl. rewrite E1. reflexivity.
Qed.
Lemma test_right_I f j : 0 <= j < M -> test_right ts (ts_I ts) f j = Ok (f (zn (RI ts) j)).
Proof.
  intros Hj. destruct (edge_of_I j Hj) as (ed & G1 & G2 & E1 & E2).
  unfold test_right, edge_at. rewrite G1; simpl. rewrite G2; simpl. rewrite E2. reflexivity.
Qed.
Lemma test_left_O f j : 0 <= j < M -> test_left ts (ts_O ts) f j = Ok (f (zn (LO ts) j)).
Proof.
  intros Hj. destruct (edge_of_O j Hj) as (ed & G1 & G2 & E1 & E2).
  unfold test_left, edge_at. rewrite G1; simpl. rewrite G2; simpl. rewrite E1. reflexivity.
Qed.
Lemma test_right_O f j : 0 <= j < M -> test_right ts (ts_O ts) f j = Ok (f (zn (RO ts) j)).
Proof.
  intros Hj. destruct (edge_of_O j Hj) as (ed & G1 & G2 & E1 & E2).
  unfold test_right, edge_at. rewrite G1; simpl. rewrite G2; simpl. rewrite E2. reflexivity.
Qed.

Lemma scan_fuel_gt : Z.of_nat (scan_fuel ts) > M.
Proof. unfold scan_fuel, M, num_edges, zlen. lia. Qed.


(* the eight scans of the four position functions, on the sorted coordinate lists *)
Lemma scan_up_eq_LI b :
  scan_up (scan_fuel ts) (num_edges ts) (test_left ts (ts_I ts) (fun l => l =? b)) (cnt_lt (LI ts) b)
  = Ok (cnt_le (LI ts) b).
Proof.
  change (num_edges ts) with M. rewrite <- zlen_LI.
  apply scan_up_eq_sorted; [apply (v_I_sorted ts V)| |rewrite zlen_LI; apply scan_fuel_gt].
  intros j Hj; rewrite zlen_LI in Hj; apply (test_left_I (fun r => r =? b)); exact Hj.
Qed.
Lemma scan_up_eq_RO b :
  scan_up (scan_fuel ts) (num_edges ts) (test_right ts (ts_O ts) (fun l => l =? b)) (cnt_lt (RO ts) b)
  = Ok (cnt_le (RO ts) b).
Proof.
  change (num_edges ts) with M. rewrite <- zlen_RO.
  apply scan_up_eq_sorted; [apply (v_O_sorted ts V)| |rewrite zlen_RO; apply scan_fuel_gt].
  intros j Hj; rewrite zlen_RO in Hj; apply (test_right_O (fun r => r =? b)); exact Hj.
Qed.
Lemma scan_up_le_LI a s : 0 <= s <= cnt_le (LI ts) a ->
  scan_up (scan_fuel ts) (num_edges ts) (test_left ts (ts_I ts) (fun l => l <=? a)) s = Ok (cnt_le (LI ts) a).
Proof.
  intros Hs. change (num_edges ts) with M. rewrite <- zlen_LI.
  apply scan_up_le_sorted; [apply (v_I_sorted ts V)| |rewrite zlen_LI; apply scan_fuel_gt|exact Hs].
  intros j Hj; rewrite zlen_LI in Hj; apply (test_left_I (fun r => r <=? a)); exact Hj.
Qed.
Lemma scan_up_le_RO a s : 0 <= s <= cnt_le (RO ts) a ->
  scan_up (scan_fuel ts) (num_edges ts) (test_right ts (ts_O ts) (fun l => l <=? a)) s = Ok (cnt_le (RO ts) a).
Proof.
  intros Hs. change (num_edges ts) with M. rewrite <- zlen_RO.
  apply scan_up_le_sorted; [apply (v_O_sorted ts V)| |rewrite zlen_RO; apply scan_fuel_gt|exact Hs].
  intros j Hj; rewrite zlen_RO in Hj; apply (test_right_O (fun r => r <=? a)); exact Hj.
Qed.
Lemma scan_down_eq_LI x :
  scan_down (scan_fuel ts) (test_left ts (ts_I ts) (fun l => l =? x)) (cnt_le (LI ts) x - 1)
  = Ok (cnt_lt (LI ts) x - 1).
Proof.
  apply scan_down_eq_sorted; [apply (v_I_sorted ts V)| |rewrite zlen_LI; apply scan_fuel_gt].
  intros j Hj; rewrite zlen_LI in Hj; apply (test_left_I (fun r => r =? x)); exact Hj.
Qed.
Lemma scan_down_eq_RO x :
  scan_down (scan_fuel ts) (test_right ts (ts_O ts) (fun l => l =? x)) (cnt_le (RO ts) x - 1)
  = Ok (cnt_lt (RO ts) x - 1).
Proof.
  apply scan_down_eq_sorted; [apply (v_O_sorted ts V)| |rewrite zlen_RO; apply scan_fuel_gt].
  intros j Hj; rewrite zlen_RO in Hj; apply (test_right_O (fun r => r =? x)); exact Hj.
Qed.
Lemma scan_down_ge_LI b s : cnt_lt (LI ts) b - 1 <= s <= M - 1 ->
  scan_down (scan_fuel ts) (test_left ts (ts_I ts) (fun l => b <=? l)) s = Ok (cnt_lt (LI ts) b - 1).
Proof.
  intros Hs.
  apply scan_down_ge_sorted; [apply (v_I_sorted ts V)| |rewrite zlen_LI; apply scan_fuel_gt|rewrite zlen_LI; exact Hs].
  intros j Hj; rewrite zlen_LI in Hj; apply (test_left_I (fun r => b <=? r)); exact Hj.
Qed.
Lemma scan_down_ge_RO b s : cnt_lt (RO ts) b - 1 <= s <= M - 1 ->
  scan_down (scan_fuel ts) (test_right ts (ts_O ts) (fun l => b <=? l)) s = Ok (cnt_lt (RO ts) b - 1).
Proof.
  intros Hs.
  apply scan_down_ge_sorted; [apply (v_O_sorted ts V)| |rewrite zlen_RO; apply scan_fuel_gt|rewrite zlen_RO; exact Hs].
  intros j Hj; rewrite zlen_RO in Hj; apply (test_right_O (fun r => b <=? r)); exact Hj.
Qed.

(* ---- breakpoints: no edge end-point lies strictly inside a tree ---- *)

Definition endpoint (v : Z) : Prop := exists i, 0 <= i <= T /\ bp ts i = v.

Lemma bp_mono i j : 0 <= i <= j -> j <= T -> bp ts i <= bp ts j.
Proof.
  intros H1 H2. destruct (Z.eq_dec i j) as [->|N]; [lia|].
  pose proof (v_bp_strict ts V i j ltac:(lia) H2). lia.
Qed.

Lemma between k v : 0 <= k < T -> endpoint v -> (v <= bp ts k <-> v < bp ts (k + 1)).
Proof.
  intros Hk [i [Hi <-]]. split; intros H.
  - pose proof (v_bp_strict ts V k (k + 1) ltac:(lia) ltac:(fold T; lia)). lia.
  - destruct (Z_le_gt_dec i k) as [L|G]; [apply bp_mono; fold T; lia|].
    pose proof (bp_mono (k + 1) i ltac:(lia) ltac:(fold T; lia)). lia.
Qed.

Lemma bp_range k : 0 <= k <= T -> 0 <= bp ts k <= ts_L ts.
Proof.
  intros Hk. rewrite <- (v_bp0 ts V), <- (v_bpT ts V). fold T.
  split; apply bp_mono; lia.
Qed.

Lemma bp_lt_L k : 0 <= k < T -> bp ts k < ts_L ts.
Proof. intros Hk. rewrite <- (v_bpT ts V). apply (v_bp_strict ts V); fold T; lia. Qed.

Lemma In_LI v : In v (LI ts) -> endpoint v /\ 0 <= v < ts_L ts.
Proof.
  intros H. apply In_zn in H as [j [Hj <-]]. rewrite zlen_LI in Hj.
  destruct (edge_of_I j Hj) as (ed & G1 & G2 & E1 & E2). rewrite E1.
  pose proof (v_edge ts V _ _ G2). split; [apply (v_bp_mem ts V _ _ G2)|lia].
Qed.
Lemma In_RO v : In v (RO ts) -> endpoint v /\ 0 < v <= ts_L ts.
Proof.
  intros H. apply In_zn in H as [j [Hj <-]]. rewrite zlen_RO in Hj.
  destruct (edge_of_O j Hj) as (ed & G1 & G2 & E1 & E2). rewrite E2.
  pose proof (v_edge ts V _ _ G2). split; [apply (v_bp_mem ts V _ _ G2)|lia].
Qed.

Lemma cnt_LI_between k : 0 <= k < T -> cnt_le (LI ts) (bp ts k) = cnt_lt (LI ts) (bp ts (k + 1)).
Proof.
  intros Hk. apply cnt_le_eq_lt; [apply (v_I_sorted ts V)|].
  intros v Hv. apply between; [exact Hk|apply In_LI; exact Hv].
Qed.
Lemma cnt_RO_between k : 0 <= k < T -> cnt_le (RO ts) (bp ts k) = cnt_lt (RO ts) (bp ts (k + 1)).
Proof.
  intros Hk. apply cnt_le_eq_lt; [apply (v_O_sorted ts V)|].
  intros v Hv. apply between; [exact Hk|apply In_RO; exact Hv].
Qed.

Lemma cnt_lt_LI_0 : cnt_lt (LI ts) 0 = 0.
Proof. apply cnt_lt_none. intros v Hv. apply In_LI in Hv. lia. Qed.
Lemma cnt_lt_RO_0 : cnt_lt (RO ts) 0 = 0.
Proof. apply cnt_lt_none. intros v Hv. apply In_RO in Hv. lia. Qed.
Lemma cnt_le_RO_0 : cnt_le (RO ts) 0 = 0.
Proof. apply cnt_le_none. intros v Hv. apply In_RO in Hv. lia. Qed.
Lemma cnt_le_LI_L : cnt_le (LI ts) (ts_L ts) = M.
Proof. rewrite <- zlen_LI. apply cnt_le_all. intros v Hv. apply In_LI in Hv. lia. Qed.
Lemma cnt_lt_LI_L : cnt_lt (LI ts) (ts_L ts) = M.
Proof. rewrite <- zlen_LI. apply cnt_lt_all. intros v Hv. apply In_LI in Hv. lia. Qed.
Lemma cnt_le_RO_L : cnt_le (RO ts) (ts_L ts) = M.
Proof. rewrite <- zlen_RO. apply cnt_le_all. intros v Hv. apply In_RO in Hv. lia. Qed.

(* ---- the invariant ---- *)

(* THE CURSOR INVARIANT (DESIGN 4/C06): for tree k = [a, b) the stops are the counting
   characterisation of a (FORWARD) resp. of b (REVERSE). *)
Definition pos_ok (p : tpos) : Prop :=
  let k := p_index p in
  0 <= k < T /\ p_left p = bp ts k /\ p_right p = bp ts (k + 1) /\
  match p_dir p with
  | DFwd => p_in_stop p = cnt_le (LI ts) (bp ts k) /\ p_out_stop p = cnt_le (RO ts) (bp ts k)
  | DRev => p_out_stop p = cnt_lt (LI ts) (bp ts (k + 1)) - 1 /\
            p_in_stop p = cnt_lt (RO ts) (bp ts (k + 1)) - 1
  | DNone => False
  end.

Definition pos_null (p : tpos) : Prop := p_index p = -1 /\ p_left p = 0 /\ p_right p = 0.

Definition pos_inv (p : tpos) : Prop := pos_null p \/ pos_ok p.

Lemma get_bp k : 0 <= k <= T -> get (ts_bps ts) k = Ok (bp ts k).
Proof. intros Hk. apply get_zn. unfold T, num_trees in Hk. lia. Qed.

(* the result of position_next: the cursors of the tree starting at b = bp (index + 1) *)
Definition next_pos (k' : Z) : tpos :=
  let b := bp ts k' in
  if k' =? T
  then mkPos (-1) 0 0 DFwd (cnt_lt (LI ts) b) (cnt_le (LI ts) b) OIns (cnt_lt (RO ts) b) (cnt_le (RO ts) b) ORem
  else mkPos k' b (bp ts (k' + 1)) DFwd (cnt_lt (LI ts) b) (cnt_le (LI ts) b) OIns
             (cnt_lt (RO ts) b) (cnt_le (RO ts) b) ORem.

Lemma position_next_spec p : pos_inv p -> position_next ts p = Ok (next_pos (p_index p + 1)).
Proof.
  intros Hp. unfold position_next. fold M.
  set (p1 := if p_index p =? -1 then _ else p).
  assert (H1 : p_index p1 = p_index p /\ 0 <= p_index p + 1 <= T /\ p_right p1 = bp ts (p_index p + 1) /\
               (match p_dir p1 with DFwd => (p_in_stop p1, p_out_stop p1)
                                  | _ => (p_out_stop p1 + 1, p_in_stop p1 + 1) end)
               = (cnt_lt (LI ts) (bp ts (p_index p + 1)), cnt_lt (RO ts) (bp ts (p_index p + 1)))).
  { pose proof (v_T ts V) as HT. fold T in HT. destruct Hp as [(Hi & Hl & Hr)|(Hk & Hl & Hr & Hd)].
    - subst p1. rewrite Hi. simpl.
      rewrite (v_bp0 ts V), cnt_lt_LI_0, cnt_lt_RO_0. repeat split; lia.
    - subst p1. destruct (p_index p =? -1) eqn:E; [lia|].
      split; [reflexivity|]. split; [lia|]. split; [exact Hr|].
      destruct (p_dir p); [contradiction| |]; destruct Hd as [D1 D2].
      + rewrite D1, D2, cnt_LI_between, cnt_RO_between by exact Hk. reflexivity.
      + rewrite D1, D2. f_equal; lia. }
  destruct H1 as (Ei & Hk' & Er & Ec). rewrite Ec, Er, Ei. clear Ec.
  set (b := bp ts (p_index p + 1)).
  unfold M. rewrite scan_up_eq_RO. cbn [bind]. rewrite scan_up_eq_LI.
  cbn [bind]. unfold next_pos. fold T. fold b.
  destruct (p_index p + 1 =? T) eqn:E; [reflexivity|].
  rewrite get_bp by lia. reflexivity.
Qed.

Lemma next_pos_ok k' : 0 <= k' < T -> pos_ok (next_pos k').
Proof.
  intros Hk. unfold next_pos. destruct (k' =? T) eqn:E; [lia|].
  unfold pos_ok; simpl. repeat split; lia.
Qed.

Lemma next_pos_null : pos_null (next_pos T).
Proof. unfold next_pos. rewrite Z.eqb_refl. unfold pos_null; simpl. auto. Qed.

(* the result of position_prev: the cursors of the tree ending at x = bp k *)
Definition prev_pos (k : Z) : tpos :=
  let x := bp ts k in
  if k - 1 =? -1
  then mkPos (-1) 0 0 DRev (cnt_le (RO ts) x - 1) (cnt_lt (RO ts) x - 1) ORem
             (cnt_le (LI ts) x - 1) (cnt_lt (LI ts) x - 1) OIns
  else mkPos (k - 1) (bp ts (k - 1)) x DRev (cnt_le (RO ts) x - 1) (cnt_lt (RO ts) x - 1) ORem
             (cnt_le (LI ts) x - 1) (cnt_lt (LI ts) x - 1) OIns.

Definition prev_from (p : tpos) : Z := if p_index p =? -1 then T else p_index p.

Lemma position_prev_spec p : pos_inv p -> position_prev ts p = Ok (prev_pos (prev_from p)).
Proof.
  intros Hp. unfold position_prev. fold M. fold T.
  set (p1 := if p_index p =? -1 then _ else p).
  set (k := prev_from p).
  assert (H1 : p_index p1 = k /\ 0 <= k <= T /\ p_left p1 = bp ts k /\
               (match p_dir p1 with DRev => (p_out_stop p1, p_in_stop p1)
                                  | _ => (p_in_stop p1 - 1, p_out_stop p1 - 1) end)
               = (cnt_le (LI ts) (bp ts k) - 1, cnt_le (RO ts) (bp ts k) - 1)).
  { pose proof (v_T ts V) as HT. fold T in HT. subst k. unfold prev_from.
    destruct Hp as [(Hi & Hl & Hr)|(Hk & Hl & Hr & Hd)].
    - subst p1. rewrite Hi. simpl.
      unfold T. rewrite (v_bpT ts V), cnt_le_LI_L, cnt_le_RO_L. fold T. repeat split; lia.
    - subst p1. destruct (p_index p =? -1) eqn:E; [lia|].
      split; [reflexivity|]. split; [lia|]. split; [exact Hl|].
      destruct (p_dir p); [contradiction| |]; destruct Hd as [D1 D2].
      + rewrite D1, D2. reflexivity.
      + rewrite D1, D2, cnt_LI_between, cnt_RO_between by exact Hk. reflexivity. }
  destruct H1 as (Ei & Hk' & El & Ec). rewrite Ec, El, Ei. clear Ec.
  set (x := bp ts k).
  rewrite scan_down_eq_LI. cbn [bind]. rewrite scan_down_eq_RO.
  cbn [bind]. unfold prev_pos. fold x.
  destruct (k - 1 =? -1) eqn:E; [reflexivity|].
  rewrite get_bp by lia. reflexivity.
Qed.

Lemma prev_pos_ok k : 1 <= k <= T -> pos_ok (prev_pos k).
Proof.
  intros Hk. unfold prev_pos. destruct (k - 1 =? -1) eqn:E; [lia|].
  unfold pos_ok; simpl. replace (k - 1 + 1) with k by lia. repeat split; lia.
Qed.

Lemma prev_pos_null : pos_null (prev_pos 0).
Proof. unfold prev_pos. simpl. unfold pos_null; simpl. auto. Qed.

(* ---- seek from the null position ---- *)

(* first position (in insertion order) whose edge ends after a: everything before it
   cannot cover a *)
Definition first_right_gt (a : Z) (j1 : Z) : Prop :=
  0 <= j1 <= cnt_le (LI ts) a /\ (forall j, 0 <= j < j1 -> zn (RI ts) j <= a) /\
  (j1 < M -> a < zn (RI ts) j1).

Lemma LI_lt_RI j : 0 <= j < M -> zn (LI ts) j < zn (RI ts) j.
Proof.
  intros Hj. destruct (edge_of_I j Hj) as (ed & G1 & G2 & E1 & E2).
  pose proof (v_edge ts V _ _ G2). lia.
Qed.
Lemma LO_lt_RO j : 0 <= j < M -> zn (LO ts) j < zn (RO ts) j.
Proof.
  intros Hj. destruct (edge_of_O j Hj) as (ed & G1 & G2 & E1 & E2).
  pose proof (v_edge ts V _ _ G2). lia.
Qed.

Lemma position_seek_forward_null_spec p k : pos_null p -> 0 <= k < T ->
  exists j1, first_right_gt (bp ts k) j1 /\
    position_seek_forward ts p k =
    Ok (mkPos k (bp ts k) (bp ts (k + 1)) DFwd j1 (cnt_le (LI ts) (bp ts k)) OIns
              (cnt_le (RO ts) (bp ts k)) (cnt_le (RO ts) (bp ts k)) ORem).
Proof.
  intros (Hi & Hl & Hr) Hk. unfold position_seek_forward. fold M. fold T. rewrite Hi.
  replace ((-1 <=? k) && (k <? T)) with true by lia. simpl negb. cbv iota.
  simpl p_dir. cbv iota. simpl p_in_stop. simpl p_out_stop. simpl p_index.
  rewrite get_bp by lia. cbn [bind]. set (a := bp ts k).
  pose proof (cnt_le_bounds (RO ts) a) as B1. pose proof (cnt_le_bounds (LI ts) a) as B2.
  unfold M. rewrite scan_up_le_RO by lia.
  cbn [bind]. fold M.
  destruct (scan_up_spec (scan_fuel ts) M (test_right ts (ts_I ts) (fun r => r <=? a))
                         (fun j => zn (RI ts) j <=? a) 0) as [j1 [Hj1 [Hb [Ha Hn]]]];
    [intros j Hj; apply (test_right_I (fun r => r <=? a)); lia
    |unfold M; apply zlen_nonneg|pose proof scan_fuel_gt; lia|].
  rewrite Hj1. cbn [bind].
  assert (F : first_right_gt a j1).
  { split; [|split].
    - split; [lia|]. destruct (Z_le_gt_dec j1 (cnt_le (LI ts) a)) as [|G]; [assumption|exfalso].
      rewrite zlen_LI in B2.
      assert (R : 0 <= cnt_le (LI ts) a < zlen (LI ts)) by (rewrite zlen_LI; lia).
      specialize (Ha (cnt_le (LI ts) a) ltac:(lia)).
      pose proof (LI_lt_RI (cnt_le (LI ts) a) ltac:(lia)).
      pose proof (proj2 (cnt_le_spec (LI ts) a _ (v_I_sorted ts V) R)). lia.
    - intros j Hj. specialize (Ha j Hj). lia.
    - intros Hlt. specialize (Hn Hlt). lia. }
  exists j1. split; [exact F|].
  unfold M. rewrite scan_up_le_LI by (destruct F; lia).
  cbn [bind]. rewrite get_bp by lia. reflexivity.
Qed.

(* last position (in removal order) whose edge starts before b: everything after it
   cannot cover the tree ending at b *)
Definition last_left_lt (b : Z) (j1 : Z) : Prop :=
  cnt_lt (RO ts) b - 1 <= j1 <= M - 1 /\ (forall j, j1 < j < M -> b <= zn (LO ts) j) /\
  (0 <= j1 -> zn (LO ts) j1 < b).

Lemma position_seek_backward_null_spec p k : pos_null p -> 0 <= k < T ->
  exists j1, last_left_lt (bp ts (k + 1)) j1 /\
    position_seek_backward ts p k =
    Ok (mkPos k (bp ts k) (bp ts (k + 1)) DRev j1 (cnt_lt (RO ts) (bp ts (k + 1)) - 1) ORem
              (cnt_lt (LI ts) (bp ts (k + 1)) - 1) (cnt_lt (LI ts) (bp ts (k + 1)) - 1) OIns).
Proof.
  intros (Hi & Hl & Hr) Hk. unfold position_seek_backward. fold M. fold T. rewrite Hi.
  simpl p_index. replace (k <=? T) with true by lia. simpl negb. cbv iota.
  simpl p_dir. cbv iota. simpl p_in_stop. simpl p_out_stop.
  rewrite get_bp by lia. cbn [bind]. set (b := bp ts (k + 1)).
  pose proof (cnt_lt_bounds (RO ts) b) as B1. pose proof (cnt_lt_bounds (LI ts) b) as B2.
  rewrite zlen_RO in B1. rewrite zlen_LI in B2.
  rewrite scan_down_ge_LI by (fold M; lia).
  cbn [bind]. rewrite Z.eqb_refl.
  destruct (scan_down_spec (scan_fuel ts) (test_left ts (ts_O ts) (fun l => b <=? l))
                           (fun j => b <=? zn (LO ts) j) (M - 1)) as [j1 [Hj1 [Hb [Ha Hn]]]];
    [intros j Hj; apply (test_left_O (fun l => b <=? l)); lia
    |unfold M; pose proof (zlen_nonneg (ts_edges ts)); unfold num_edges; lia|pose proof scan_fuel_gt; lia|].
  rewrite Hj1. cbn [bind].
  assert (F : last_left_lt b j1).
  { split; [|split].
    - split; [|lia]. destruct (Z_le_gt_dec (cnt_lt (RO ts) b - 1) j1) as [|G]; [assumption|exfalso].
      assert (R : 0 <= cnt_lt (RO ts) b - 1 < zlen (RO ts)) by (rewrite zlen_RO; lia).
      specialize (Ha (cnt_lt (RO ts) b - 1) ltac:(lia)).
      pose proof (LO_lt_RO (cnt_lt (RO ts) b - 1) ltac:(lia)).
      pose proof (proj1 (cnt_lt_spec (RO ts) b _ (v_O_sorted ts V) R)). lia.
    - intros j Hj. specialize (Ha j ltac:(lia)). lia.
    - intros Hge. specialize (Hn Hge). lia. }
  exists j1. split; [exact F|].
  rewrite scan_down_ge_RO by (destruct F; fold M; lia).
  cbn [bind]. rewrite get_bp by lia. reflexivity.
Qed.

End WithTs.
