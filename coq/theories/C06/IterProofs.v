(* C06 — python/tskit/trees.py class TreeIterator (l. 3997-4024): `ts.trees()` and
   `reversed(ts.trees())`.

     def __next__(self):
         if self.forward: self.more_trees = self.more_trees and self.tree.next()
         else:            self.more_trees = self.more_trees and self.tree.prev()
         if not self.more_trees: raise StopIteration()
         return self.tree

   Theorem: n calls of __next__ on a new iterator yield the trees 0, 1, ..., T-1 in order
   (T-1, ..., 0 when reversed), each satisfying the navigation invariant (hence equal to a
   fresh tree of that index), then StopIteration for ever, with the tree in the null state. *)
From Coq Require Import List ZArith Bool Lia ZifyBool.
From TskVerif Require Import Base.Common C06.Model C06.BasicProofs C06.ListFacts C06.Valid
  C06.CursorProofs C06.WriteLoops C06.NumEdges C06.NavProofs C06.SeekProofs C06.Theorems.
Import ListNotations.
Open Scope Z_scope.

Record titer := mkIter { it_tree : tree; it_more : bool; it_forward : bool }.

(* TreeIterator(tree) on a new Tree; reversed() flips the direction flag *)
Definition iter_new (ts : tseq) (forward : bool) : titer := mkIter (tree_init ts) true forward.

(* one __next__: the new iterator and whether a tree was yielded (false = StopIteration) *)
Definition iter_next (m : counts_mode) (ts : tseq) (it : titer) : res (titer * bool) :=
  if it_more it then
    do '(t, r) <- (if it_forward it then tree_next m ts (it_tree it) else tree_prev m ts (it_tree it));
    Ok (mkIter t (r =? 1) (it_forward it), r =? 1)
  else Ok (it, false).

(* n calls: what each call yielded (Some index of the yielded tree / None = StopIteration) *)
Fixpoint iter_n (m : counts_mode) (ts : tseq) (it : titer) (n : nat) : res (titer * list (option Z)) :=
  match n with
  | O => Ok (it, [])
  | S n' =>
      do '(it1, y) <- iter_next m ts it;
      do '(it2, l) <- iter_n m ts it1 n';
      Ok (it2, (if y then Some (t_index (it_tree it1)) else None) :: l)
  end.

Section Iter.
Variable ts : tseq.
Hypothesis V : valid_ts ts.
Let T := num_trees ts.

(* expected yields when the tree currently has index k (more_trees still true) *)
Fixpoint expect_fwd (k : Z) (n : nat) : list (option Z) :=
  match n with
  | O => []
  | S n' => if k + 1 <? T then Some (k + 1) :: expect_fwd (k + 1) n' else repeat None (S n')
  end.

Fixpoint expect_rev (k : Z) (n : nat) : list (option Z) :=
  match n with
  | O => []
  | S n' => if 0 <=? k - 1 then Some (k - 1) :: expect_rev (k - 1) n' else repeat None (S n')
  end.

Lemma iter_exhausted it n : it_more it = false ->
  iter_n core ts it n = Ok (it, repeat None n).
Proof.
  intros H. induction n as [|n IH]; [reflexivity|].
  cbn [iter_n]. unfold iter_next. rewrite H. cbn [bind]. rewrite IH. reflexivity.
Qed.

Lemma iter_forward_from t n : inv ts t -> -1 <= t_index t < T ->
  exists it', iter_n core ts (mkIter t true true) n = Ok (it', expect_fwd (t_index t) n) /\
              inv ts (it_tree it') /\
              (Z.of_nat n >= T - t_index t -> it_more it' = false /\ t_index (it_tree it') = -1).
Proof.
  revert t. induction n as [|n IH]; intros t [H Hn] Hk.
  - eexists. split; [reflexivity|]. split; [split; assumption|]. simpl. lia.
  - cbn [iter_n]. unfold iter_next. cbn [it_more it_forward it_tree].
    destruct (tree_next_ok ts V t H) as (t1 & r & S & H1 & I1 & N1). rewrite S. cbn [bind].
    pose proof (tree_next_ret _ _ _ _ _ S) as Hr.
    unfold nxt in I1. cbv zeta in I1. change (num_trees ts) with T in I1. cbn [expect_fwd].
    destruct (t_index t + 1 =? T) eqn:E.
    + (* past the last tree: StopIteration now and for ever *)
      destruct Hr as [[-> Hne]|[-> _]]; [lia|]. simpl (0 =? 1).
      rewrite iter_exhausted by reflexivity. cbn [bind it_tree].
      replace (t_index t + 1 <? T) with false by lia.
      eexists. split; [reflexivity|]. cbn [it_tree it_more]. split; [split; auto|]. intros _. auto.
    + destruct Hr as [[-> Hne]|[-> Hz]]; [|lia]. simpl (1 =? 1).
      destruct (IH t1 (conj H1 (N1 Hn))) as (it' & R & Hi & Hend); [rewrite I1; lia|].
      rewrite R. cbn [bind it_tree]. replace (t_index t + 1 <? T) with true by lia.
      rewrite I1 in *. eexists. split; [reflexivity|]. split; [exact Hi|].
      intros Hge. apply Hend. lia.
Qed.

Lemma iter_reverse_from t n : inv ts t -> -1 <= t_index t < T ->
  let k := if t_index t =? -1 then T else t_index t in
  exists it', iter_n core ts (mkIter t true false) n = Ok (it', expect_rev k n) /\
              inv ts (it_tree it') /\
              (Z.of_nat n >= k + 1 -> it_more it' = false /\ t_index (it_tree it') = -1).
Proof.
  revert t. induction n as [|n IH]; intros t [H Hn] Hk k.
  - eexists. split; [reflexivity|]. split; [split; assumption|]. simpl. pose proof (v_T ts V). subst k.
    unfold T in *. destruct (t_index t =? -1) eqn:E0; lia.
  - cbn [iter_n]. unfold iter_next. cbn [it_more it_forward it_tree].
    destruct (tree_prev_ok ts V t H) as (t1 & r & S & H1 & I1 & N1). rewrite S. cbn [bind].
    pose proof (tree_prev_ret _ _ _ _ _ S) as Hr.
    unfold prv in I1. cbv zeta in I1. change (num_trees ts) with T in I1. cbn [expect_rev]. pose proof (v_T ts V) as HT. fold T in HT.
    assert (Ek : t_index t1 = k - 1) by (subst k; destruct (t_index t =? -1) eqn:E0; lia).
    assert (Hk0 : 0 <= k <= T) by (subst k; destruct (t_index t =? -1) eqn:E0; lia).
    destruct (0 <=? k - 1) eqn:E.
    + destruct Hr as [[-> Hne]|[-> Hz]]; [|lia]. simpl (1 =? 1).
      assert (Hk1 : -1 <= t_index t1 < T) by (subst k; destruct (t_index t =? -1) eqn:E0; lia).
      destruct (IH t1 (conj H1 (N1 Hn)) Hk1) as (it' & R & Hi & Hend).
      assert (Ek' : (if t_index t1 =? -1 then T else t_index t1) = k - 1)
        by (rewrite Ek; destruct (k - 1 =? -1) eqn:E1; lia).
      cbv zeta in R, Hend. rewrite Ek' in R, Hend.
      rewrite R. cbn [bind it_tree]. rewrite Ek.
      eexists. split; [reflexivity|]. split; [exact Hi|]. intros Hge. apply Hend. lia.
    + destruct Hr as [[-> Hne]|[-> _]]; [lia|]. simpl (0 =? 1).
      rewrite iter_exhausted by reflexivity. cbn [bind it_tree].
      eexists. split; [reflexivity|]. cbn [it_tree it_more]. split; [split; auto|]. intros _. split; [reflexivity|lia].
Qed.

End Iter.

(* for t in ts.trees(): 0, 1, ..., T-1, then StopIteration for ever; the tree ends null *)
Lemma iter_forward_proof ts n : valid_tsb ts = true ->
  exists it', iter_n core ts (iter_new ts true) n = Ok (it', expect_fwd ts (-1) n) /\
              inv ts (it_tree it') /\
              (Z.of_nat n >= num_trees ts + 1 -> it_more it' = false /\ t_index (it_tree it') = -1).
Proof.
  intros Hv. pose proof (valid_tsb_sound ts Hv) as V. pose proof (v_T ts V).
  destruct (iter_forward_from ts V (tree_init ts) n (inv_init ts V)) as (it' & R & Hi & He); [simpl; lia|].
  exists it'. split; [exact R|]. split; [exact Hi|]. intros Hge. apply He. simpl. lia.
Qed.

(* for t in reversed(ts.trees()): T-1, ..., 0, then StopIteration for ever *)
Lemma iter_reverse_proof ts n : valid_tsb ts = true ->
  exists it', iter_n core ts (iter_new ts false) n = Ok (it', expect_rev (num_trees ts) n) /\
              inv ts (it_tree it') /\
              (Z.of_nat n >= num_trees ts + 1 -> it_more it' = false /\ t_index (it_tree it') = -1).
Proof.
  intros Hv. pose proof (valid_tsb_sound ts Hv) as V. pose proof (v_T ts V).
  destruct (iter_reverse_from ts V (tree_init ts) n (inv_init ts V)) as (it' & R & Hi & He); [simpl; lia|].
  exists it'. split; [exact R|]. split; [exact Hi|]. intros Hge. apply He. simpl. lia.
Qed.

(* non-vacuity: ex_ts has 4 trees; 6 calls yield 0,1,2,3 then StopIteration twice *)
Example ex_iter_forward :
  expect_fwd ex_ts (-1) 6 = [Some 0; Some 1; Some 2; Some 3; None; None].
Proof. reflexivity. Qed.
Example ex_iter_reverse :
  expect_rev (num_trees ex_ts) 6 = [Some 3; Some 2; Some 1; Some 0; None; None].
Proof. reflexivity. Qed.
Example ex_iter_run :
  match iter_n core ex_ts (iter_new ex_ts true) 6 with
  | Ok (it, l) => l = [Some 0; Some 1; Some 2; Some 3; None; None] /\ t_index (it_tree it) = -1
  | _ => False
  end.
Proof. vm_compute. split; reflexivity. Qed.

(* ---- correspondence: every __next__ call of the real TreeIterator vs the model ---- *)
Fixpoint iter_trace (m : counts_mode) (ts : tseq) (it : titer) (n : nat) : res (list J) :=
  match n with
  | O => Ok []
  | S n' =>
      do '(it1, y) <- iter_next m ts it;
      do rest <- iter_trace m ts it1 n';
      Ok (JL [jbool y; obs_tree (it_tree it1)] :: rest)
  end.

Definition check_iter (ts : tseq) (forward : bool) (expected : list J) : bool :=
  match iter_trace full ts (iter_new ts forward) (length expected) with
  | Ok l => J_eqb (JL l) (JL expected)
  | _ => false
  end.
