(* C06 — the theorems about op sequences (the Python API level), their non-vacuity
   examples, and the refutations (findings F4, F14, F15). *)
From Coq Require Import List ZArith Bool Lia ZifyBool.
From TskVerif Require Import Base.Common C06.Model C06.BasicProofs C06.ListFacts C06.Valid
  C06.CursorProofs C06.WriteLoops C06.NumEdges C06.NavProofs C06.SeekProofs.
Import ListNotations.
Open Scope Z_scope.

(* every op except seek(NaN): a NaN position is finding F4, treated at the end *)
Definition finite_op (o : op) : Prop :=
  match o with OpSeek NaN => False | OpLLSeek NaN => False | _ => True end.

(* what the property compares: everything of the modelled state that navigation can change
   and that has a canonical value (the tracked counts and the site list do NOT: F14, F15) *)
Definition abs (t : tree) : Z * Z * Z * list Z * list Z * Z :=
  (t_index t, t_left t, t_right t, t_parent t, t_edge t, t_num_edges t).

(* THE CURSOR INVARIANT, written out (DESIGN 4/C06) *)
Definition cursor_ok (ts : tseq) (t : tree) : Prop :=
  let p := t_pos t in let k := t_index t in
  p_index p = k /\
  (k = -1 \/
   (0 <= k < num_trees ts /\ p_left p = bp ts k /\ p_right p = bp ts (k + 1) /\
    match p_dir p with
    | DFwd => p_in_stop p = cnt_le (LI ts) (bp ts k) /\ p_out_stop p = cnt_le (RO ts) (bp ts k)
    | DRev => p_out_stop p = cnt_lt (LI ts) (bp ts (k + 1)) - 1 /\
              p_in_stop p = cnt_lt (RO ts) (bp ts (k + 1)) - 1
    | DNone => False
    end)).

(* the canonical state of index k, straight from the rows *)
Definition spec_state (ts : tseq) (t : tree) : Prop :=
  let k := t_index t in
  (k = -1 /\ t_left t = 0 /\ t_right t = 0 /\
   t_parent t = repeat TSK_NULL (Z.to_nat (ts_N ts + 1)) /\ t_edge t = repeat TSK_NULL (Z.to_nat (ts_N ts + 1)) /\
   t_num_edges t = 0) \/
  (0 <= k < num_trees ts /\ t_left t = bp ts k /\ t_right t = bp ts (k + 1) /\
   t_parent t = parent_at ts (bp ts k) /\ t_edge t = edges_at ts (bp ts k) /\
   t_num_edges t = num_edges_at ts (bp ts k)).

Section Ops.
Variable ts : tseq.
Hypothesis V : valid_ts ts.

Let T := num_trees ts.

Lemma tree_ok_cursor t : tree_ok ts t -> cursor_ok ts t.
Proof.
  intros H. pose proof H as (Hi & _). unfold cursor_ok. split; [symmetry; exact Hi|].
  destruct (tree_ok_cases ts t H) as [(I & _)|(K & (P1 & P2 & P3 & P4) & _)]; [left; exact I|right].
  rewrite <- Hi in *. auto.
Qed.

(* the invariant of the machine: cursor invariant + arrays = SPEC + edge counter *)
Definition inv (t : tree) : Prop := tree_ok ts t /\ ne_ok ts t.

Lemma tree_ok_spec t : inv t -> spec_state ts t.
Proof.
  intros [H Hn]. pose proof H as (Hi & Hl & Hr & _). unfold spec_state. unfold ne_ok, cur_x in Hn.
  destruct (tree_ok_cases ts t H) as [(I & (N1 & N2 & N3) & (A1 & A2))|(K & (P1 & P2 & P3 & P4) & (A1 & A2))].
  - left. destruct (outside_null ts V (-1) ltac:(lia)) as [E1 E2].
    rewrite I in Hn. simpl in Hn. rewrite (num_edges_outside ts V (-1)) in Hn by lia.
    rewrite Hl, Hr, A1, A2, E1, E2. auto 10.
  - right. replace (t_index t =? -1) with false in Hn by lia.
    rewrite Hl, Hr. rewrite <- Hi in *. auto 10.
Qed.

Lemma spec_state_abs t1 t2 : spec_state ts t1 -> spec_state ts t2 -> t_index t1 = t_index t2 -> abs t1 = abs t2.
Proof.
  unfold spec_state, abs. intros [S1|S1] [S2|S2] E; try lia;
    destruct S1 as (a1 & a2 & a3 & a4 & a5 & a6); destruct S2 as (b1 & b2 & b3 & b4 & b5 & b6).
  - rewrite a2, a3, a4, a5, a6, b2, b3, b4, b5, b6, E. reflexivity.
  - rewrite a2, a3, a4, a5, a6, b2, b3, b4, b5, b6, E. reflexivity.
Qed.

(* ---- one Python call ---- *)

Lemma py_step_ok st o : inv (fst st) -> inv (snd st) -> finite_op o ->
  exists st' r, py_step core ts st o = Ok (st', r) /\ inv (fst st') /\ inv (snd st').
Proof.
  destruct st as [cur other]. simpl fst; simpl snd. intros [Hc Nc] [Ho No] Hf.
  unfold py_step, py_step_fuel. pose proof (seek_fuel_gt ts) as HF. fold T in HF.
  destruct o as [| | | | |x|i| | |x|i].
  - destruct (tree_clear_ok ts V cur Hc) as [C _].
    destruct (tree_next_ok ts V _ C) as (t' & r & S & H' & _ & N'). unfold tree_first. rewrite S. cbn [bind].
    eexists; eexists; split; [reflexivity|]. simpl. pose proof (ne_ok_clear ts V cur). unfold inv. auto.
  - destruct (tree_clear_ok ts V cur Hc) as [C _].
    destruct (tree_prev_ok ts V _ C) as (t' & r & S & H' & _ & N'). unfold tree_last. rewrite S. cbn [bind].
    eexists; eexists; split; [reflexivity|]. simpl. pose proof (ne_ok_clear ts V cur). unfold inv. auto.
  - destruct (tree_next_ok ts V _ Hc) as (t' & r & S & H' & _ & N'). rewrite S. cbn [bind].
    eexists; eexists; split; [reflexivity|]. simpl. unfold inv. auto.
  - destruct (tree_prev_ok ts V _ Hc) as (t' & r & S & H' & _ & N'). rewrite S. cbn [bind].
    eexists; eexists; split; [reflexivity|]. simpl. unfold inv. auto.
  - destruct (tree_clear_ok ts V cur Hc) as [C _].
    eexists; eexists; split; [reflexivity|]. simpl. pose proof (ne_ok_clear ts V cur). unfold inv. auto.
  - destruct x as [v|]; [|destruct Hf]. unfold x_lt_z, x_ge_z.
    destruct ((v <? 0) || (ts_L ts <=? v)) eqn:G.
    + eexists; eexists; split; [reflexivity|]. simpl. unfold inv. auto.
    + destruct (tree_seek_ok ts V (seek_fuel ts) cur v Hc ltac:(lia) HF) as (t' & S & H' & _ & N').
      rewrite S. cbn [lib_call]. eexists; eexists; split; [reflexivity|]. simpl. unfold inv. auto.
  - fold T. set (i' := if i <? 0 then i + T else i).
    destruct ((i' <? 0) || (T <=? i')) eqn:G.
    + eexists; eexists; split; [reflexivity|]. simpl. unfold inv. auto.
    + destruct (tree_seek_index_ok ts V (seek_fuel ts) cur i' Hc ltac:(lia) HF) as (t' & S & H' & _ & N').
      rewrite S. cbn [lib_call]. eexists; eexists; split; [reflexivity|]. simpl. unfold inv. auto.
  - eexists; eexists; split; [reflexivity|]. simpl. unfold inv. auto.
  - eexists; eexists; split; [reflexivity|]. simpl. unfold inv. auto.
  - (* the C guard of tsk_tree_seek alone *)
    destruct x as [v|]; [|destruct Hf].
    destruct ((v <? 0) || (ts_L ts <=? v)) eqn:G.
    + unfold tree_seek, x_lt_z, x_ge_z. rewrite G. cbn [lib_call].
      eexists; eexists; split; [reflexivity|]. simpl. unfold inv. auto.
    + destruct (tree_seek_ok ts V (seek_fuel ts) cur v Hc ltac:(lia) HF) as (t' & S & H' & _ & N').
      rewrite S. cbn [lib_call]. eexists; eexists; split; [reflexivity|]. simpl. unfold inv. auto.
  - (* the C guard of tsk_tree_seek_index alone *)
    destruct ((i <? 0) || (T <=? i)) eqn:G.
    + unfold tree_seek_index. fold T. rewrite G. cbn [lib_call].
      eexists; eexists; split; [reflexivity|]. simpl. unfold inv. auto.
    + destruct (tree_seek_index_ok ts V (seek_fuel ts) cur i Hc ltac:(lia) HF) as (t' & S & H' & _ & N').
      rewrite S. cbn [lib_call]. eexists; eexists; split; [reflexivity|]. simpl. unfold inv. auto.
Qed.

Lemma run_from_ok ops : Forall finite_op ops -> forall st, inv (fst st) -> inv (snd st) ->
  exists st' outs, run_from core ts st ops = Ok (st', outs) /\ inv (fst st') /\ inv (snd st').
Proof.
  induction 1 as [|o ops Ho Hops IH]; intros st H1 H2.
  - exists st, []. auto.
  - destruct (py_step_ok st o H1 H2 Ho) as (st1 & r & S & A & B).
    destruct (IH st1 A B) as (st2 & outs & R & C & D).
    exists st2, (r :: outs). cbn [run_from]. rewrite S. cbn [bind]. rewrite R. cbn [bind]. auto.
Qed.

Lemma inv_init : inv (tree_init ts).
Proof. split; [apply (tree_init_ok ts V)|apply (ne_ok_init ts V)]. Qed.

Lemma run_ok ops : Forall finite_op ops ->
  exists st outs, run core ts ops = Ok (st, outs) /\ inv (fst st) /\ inv (snd st).
Proof.
  intros H. apply run_from_ok; [exact H| |]; apply inv_init.
Qed.

Lemma run_from_app ops1 ops2 st st1 o1 :
  run_from core ts st ops1 = Ok (st1, o1) ->
  run_from core ts st (ops1 ++ ops2) =
  (do '(st2, o2) <- run_from core ts st1 ops2; Ok (st2, o1 ++ o2)).
Proof.
  revert st st1 o1; induction ops1 as [|o ops IH]; intros st st1 o1 H.
  - simpl in H. injection H as <- <-. simpl. destruct (run_from core ts st ops2) as [[s o]| | |]; reflexivity.
  - cbn [run_from app] in *. destruct (py_step core ts st o) as [[s r]| | |]; cbn [bind] in *; try discriminate.
    destruct (run_from core ts s ops) as [[s' rs]| | |] eqn:E; cbn [bind] in *; try discriminate.
    injection H as <- <-. rewrite (IH _ _ _ E).
    destruct (run_from core ts s' ops2) as [[s2 o2]| | |]; reflexivity.
Qed.

(* ---- fuel of the linear seek ---- *)

Lemma seek_loop_mono stepf x : forall f t t', seek_loop f stepf x t = Ok t' ->
  forall f', (f <= f')%nat -> seek_loop f' stepf x t = Ok t'.
Proof.
  induction f as [|f IH]; intros t t' H f' Hf; [discriminate|].
  destruct f' as [|f']; [lia|]. cbn [seek_loop] in *.
  destruct (in_interval t x); [exact H|].
  destruct (stepf t) as [[t1 r]| | |]; cbn [bind] in *; try discriminate.
  apply IH with (f' := f') in H; [exact H|lia].
Qed.

Lemma tree_seek_mono m x t t' f : tree_seek f m ts t x = Ok t' ->
  forall f', (f <= f')%nat -> tree_seek f' m ts t x = Ok t'.
Proof.
  unfold tree_seek, tree_seek_linear. intros H f' Hf.
  destruct (x_lt_z x 0 || x_ge_z x (ts_L ts)); [discriminate|].
  destruct (t_index t =? -1); [exact H|].
  destruct (x_lt_z x (t_left t)); cbv iota beta in *;
    match goal with |- context [if ?c then _ else _] => destruct c end;
    eapply seek_loop_mono; eauto.
Qed.

(* with a NaN position tsk_tree_seek_linear never leaves its loop *)
Lemma seek_loop_nan : forall fuel t, tree_ok ts t -> seek_loop fuel (tree_prev core ts) NaN t = Fuel.
Proof.
  induction fuel as [|f IH]; intros t H; [reflexivity|].
  cbn [seek_loop]. unfold in_interval, z_le_x. cbn [andb].
  destruct (tree_prev_ok ts V t H) as (t1 & r & S & H1 & _). rewrite S. cbn [bind]. apply IH. exact H1.
Qed.

Lemma seek_nan_fuel t other fuel : tree_ok ts t -> t_index t <> -1 ->
  py_step_fuel fuel core ts (t, other) (OpSeek NaN) = Fuel.
Proof.
  intros H N. unfold py_step_fuel, tree_seek, tree_seek_linear. cbn [x_lt_z x_ge_z orb].
  replace (t_index t =? -1) with false by lia. cbn [c_sub c_add c_le].
  rewrite seek_loop_nan by exact H. reflexivity.
Qed.

End Ops.

(* ------------------------------------------------------------------------------ *)
(* the theorems of Props/C06.v                                                      *)

(* (a) after any op sequence both trees satisfy the cursor invariant *)
Lemma cursor_invariant_proof ts ops : valid_tsb ts = true -> Forall finite_op ops ->
  exists st outs, run core ts ops = Ok (st, outs) /\ cursor_ok ts (fst st) /\ cursor_ok ts (snd st).
Proof.
  intros Hv Hf. pose proof (valid_tsb_sound ts Hv) as V.
  destruct (run_ok ts V ops Hf) as (st & outs & R & A & B).
  exists st, outs. split; [exact R|]. destruct A, B. split; apply tree_ok_cursor; assumption.
Qed.

(* (b) the state is the SPEC state of its index ... *)
Lemma nav_state_is_spec_proof ts ops : valid_tsb ts = true -> Forall finite_op ops ->
  exists st outs, run core ts ops = Ok (st, outs) /\ spec_state ts (fst st) /\ spec_state ts (snd st).
Proof.
  intros Hv Hf. pose proof (valid_tsb_sound ts Hv) as V.
  destruct (run_ok ts V ops Hf) as (st & outs & R & A & B).
  exists st, outs. split; [exact R|]. split; apply (tree_ok_spec ts V); assumption.
Qed.

(* ... and equal to the state of a fresh Tree moved directly there (seek_index from a new
   Tree; a new Tree for the null state) *)
Definition fresh_ops (k : Z) : list op := if k =? -1 then [] else [OpSeekIndex k].

Lemma fresh_ops_finite k : Forall finite_op (fresh_ops k).
Proof. unfold fresh_ops. destruct (k =? -1); repeat constructor. Qed.

Lemma nav_canonical_proof ts ops : valid_tsb ts = true -> Forall finite_op ops ->
  exists st outs, run core ts ops = Ok (st, outs) /\
  exists fr outs', run core ts (fresh_ops (t_index (fst st))) = Ok (fr, outs') /\
                   abs (fst st) = abs (fst fr).
Proof.
  intros Hv Hf. pose proof (valid_tsb_sound ts Hv) as V.
  destruct (run_ok ts V ops Hf) as (st & outs & R & A & B).
  exists st, outs. split; [exact R|].
  destruct (run_ok ts V _ (fresh_ops_finite (t_index (fst st)))) as (fr & outs' & R' & A' & B').
  exists fr, outs'. split; [exact R'|].
  apply (spec_state_abs ts); try (apply (tree_ok_spec ts V); assumption).
  (* the fresh run ends at the same index *)
  pose proof (tree_ok_index ts V _ (proj1 A)) as Hi.
  unfold fresh_ops in R'. destruct (t_index (fst st) =? -1) eqn:E.
  - unfold run in R'. simpl in R'. injection R' as <- _. simpl. lia.
  - unfold run in R'. cbn [run_from] in R'.
    unfold py_step, py_step_fuel, init_state in R'.
    replace (t_index (fst st) <? 0) with false in R' by lia.
    replace ((t_index (fst st) <? 0) || (num_trees ts <=? t_index (fst st))) with false in R' by lia.
    destruct (tree_seek_index_ok ts V (seek_fuel ts) (tree_init ts) (t_index (fst st)))
      as (t' & S & H' & I' & _); [apply (tree_init_ok ts V)|lia|apply seek_fuel_gt|].
    rewrite S in R'. cbn [lib_call bind] in R'. injection R' as <- _. simpl. symmetry. exact I'.
Qed.

(* (c) index transitions of next / prev *)
Lemma next_prev_index_proof ts ops o : valid_tsb ts = true -> Forall finite_op ops ->
  o = OpNext \/ o = OpPrev ->
  exists st outs st' r, run core ts ops = Ok (st, outs) /\ py_step core ts st o = Ok (st', r) /\
    t_index (fst st') = (match o with OpNext => nxt ts | _ => prv ts end) (t_index (fst st)) /\
    (r = 0 <-> t_index (fst st') = -1) /\ (r = 0 \/ r = 1).
Proof.
  intros Hv Hf Ho. pose proof (valid_tsb_sound ts Hv) as V.
  destruct (run_ok ts V ops Hf) as ([cur other] & outs & R & A & B). simpl in A, B.
  exists (cur, other), outs.
  destruct Ho; subst o; unfold py_step, py_step_fuel.
  - destruct (tree_next_ok ts V cur (proj1 A)) as (t' & r & S & H' & I' & _). rewrite S. cbn [bind].
    eexists; eexists; split; [exact R|]. split; [reflexivity|]. simpl. split; [exact I'|].
    apply tree_next_ret in S as [[-> Hn]|[-> Hn]]; simpl; split; try lia; split; intros; lia.
  - destruct (tree_prev_ok ts V cur (proj1 A)) as (t' & r & S & H' & I' & _). rewrite S. cbn [bind].
    eexists; eexists; split; [exact R|]. split; [reflexivity|]. simpl. split; [exact I'|].
    apply tree_prev_ret in S as [[-> Hn]|[-> Hn]]; simpl; split; try lia; split; intros; lia.
Qed.

(* (d) seek(x) with 0 <= x < L returns None and lands on the tree containing x *)
Lemma seek_lands_proof ts ops v : valid_tsb ts = true -> Forall finite_op ops -> 0 <= v < ts_L ts ->
  exists st outs st', run core ts ops = Ok (st, outs) /\
    py_step core ts st (OpSeek (Fin v)) = Ok (st', RET_NONE) /\
    t_left (fst st') <= v < t_right (fst st') /\ snd st' = snd st.
Proof.
  intros Hv Hf Hr. pose proof (valid_tsb_sound ts Hv) as V.
  destruct (run_ok ts V ops Hf) as ([cur other] & outs & R & A & B). simpl in A, B.
  exists (cur, other), outs. unfold py_step, py_step_fuel, x_lt_z, x_ge_z.
  replace ((v <? 0) || (ts_L ts <=? v)) with false by lia.
  destruct (tree_seek_ok ts V (seek_fuel ts) cur v (proj1 A) Hr (seek_fuel_gt ts)) as (t' & S & H' & (K & Bd) & _).
  rewrite S. cbn [lib_call]. eexists. split; [exact R|]. split; [reflexivity|]. simpl. split; [|reflexivity].
  destruct (tree_ok_interval ts t' H') as [(I & _)|(_ & L1 & R1)]; [lia|]. rewrite L1, R1. exact Bd.
Qed.

(* (e) the linear seek never needs more than num_trees + 1 loop tests: every fuel above
   num_trees gives the same (non-Fuel) result *)
Lemma seek_linear_terminates_proof ts ops v : valid_tsb ts = true -> Forall finite_op ops ->
  0 <= v < ts_L ts ->
  exists st outs t', run core ts ops = Ok (st, outs) /\
    forall fuel, Z.of_nat fuel >= num_trees ts + 1 -> tree_seek fuel core ts (fst st) (Fin v) = Ok t'.
Proof.
  intros Hv Hf Hr. pose proof (valid_tsb_sound ts Hv) as V.
  destruct (run_ok ts V ops Hf) as (st & outs & R & A & B).
  pose proof (v_T ts V) as HT.
  destruct (tree_seek_ok ts V (Z.to_nat (num_trees ts + 1)) (fst st) v (proj1 A) Hr ltac:(lia)) as (t' & S & _).
  exists st, outs, t'. split; [exact R|]. intros fuel Hfu.
  eapply tree_seek_mono; [exact S|lia].
Qed.

(* F4: a NaN position passes both guards; from any non-null reachable state no amount of
   fuel is enough *)
Lemma seek_nan_diverges_proof ts ops : valid_tsb ts = true -> Forall finite_op ops ->
  exists st outs, run core ts ops = Ok (st, outs) /\
    (t_index (fst st) <> -1 -> forall fuel, py_step_fuel fuel core ts st (OpSeek NaN) = Fuel).
Proof.
  intros Hv Hf. pose proof (valid_tsb_sound ts Hv) as V.
  destruct (run_ok ts V ops Hf) as ([cur other] & outs & R & A & B). simpl in A, B.
  exists (cur, other), outs. split; [exact R|]. intros N fuel. apply (seek_nan_fuel ts V); [exact (proj1 A)|exact N].
Qed.

(* ------------------------------------------------------------------------------ *)
(* non-vacuity: a tree sequence with three trees, gaps at both ends of one node's
   ancestry, several equal end-points; and the refutation witnesses                 *)

(* nodes 0,1,2 samples, 3 internal SAMPLE, 4 root.  Coordinates on the lattice * 2.
   edges: (0,4,3,0) (0,4,3,1) (4,8,4,0) (4,8,4,1) (0,8,4,3) (2,6,3,2) *)
Definition ex_ts : tseq :=
  mkTs 8 5
    [mkEdge 0 4 3 0; mkEdge 0 4 3 1; mkEdge 2 6 3 2; mkEdge 0 8 4 3; mkEdge 4 8 4 0; mkEdge 4 8 4 1]
    [0; 1; 3; 2; 4; 5] [0; 1; 2; 3; 4; 5] [0; 2; 4; 6; 8]
    [1; 1; 1; 1; 0] [[0]; []; [1]; []] 2 [0; 1; 0; 0; 0; 1].

Example ex_ts_valid : valid_tsb ex_ts = true.
Proof. vm_compute. reflexivity. Qed.

Definition ex_ops : list op :=
  [OpLast; OpPrev; OpSeek (Fin 1); OpNext; OpCopy; OpSeekIndex (-1); OpSwap; OpPrev; OpPrev; OpPrev;
   OpSeek (Fin 7); OpClear; OpLLSeek (Fin 5); OpLLSeekIndex 9; OpLLSeek (Fin 8)].

Example ex_ops_finite : Forall finite_op ex_ops.
Proof. repeat constructor. Qed.

(* the run visits non-null trees, reverses direction, wraps through null, seeks from null
   into the second half; it ends on tree 2 = [4, 6) with the other tree on tree 3 *)
Example ex_run :
  match run core ex_ts ex_ops with
  | Ok (st, outs) => abs (fst st) = (2, 4, 6, [4; 4; 3; 4; -1; -1], [4; 5; 2; 3; -1; -1], 4) /\
                     t_index (snd st) = 3 /\ outs = [2; 1; 2; 1; 2; 2; 2; 1; 0; 1; 2; 2; 2; -3; -3]
  | _ => False
  end.
Proof. vm_compute. repeat split. Qed.

(* F14: after first(); clear() the tree still shows the sites of tree 0 *)
Lemma nav_sites_refuted_proof :
  exists ts ops st outs, valid_tsb ts = true /\ Forall finite_op ops /\
    run core ts ops = Ok (st, outs) /\ t_index (fst st) = -1 /\
    t_sites (fst st) <> t_sites (tree_init ts).
Proof.
  exists ex_ts, [OpFirst; OpClear].
  destruct (run core ex_ts [OpFirst; OpClear]) as [[st outs]| | |] eqn:E; vm_compute in E; try discriminate.
  injection E as <- <-. eexists; eexists. split; [exact ex_ts_valid|]. split; [repeat constructor|].
  split; [reflexivity|]. split; [reflexivity|]. vm_compute. discriminate.
Qed.

(* F15: with tracked sample 1 and the internal sample 3, first(); last() and a fresh
   seek_index(3) end on the same tree with different tracked counts *)
Lemma nav_tracked_refuted_proof :
  exists ts ops st outs fr outs', valid_tsb ts = true /\ Forall finite_op ops /\
    run full ts ops = Ok (st, outs) /\
    run full ts (fresh_ops (t_index (fst st))) = Ok (fr, outs') /\
    t_index (fst st) = t_index (fst fr) /\ t_tracked (fst st) <> t_tracked (fst fr).
Proof.
  exists ex_ts, [OpFirst; OpLast].
  destruct (run full ex_ts [OpFirst; OpLast]) as [[st outs]| | |] eqn:E; vm_compute in E; try discriminate.
  injection E as <- <-.
  destruct (run full ex_ts (fresh_ops 3)) as [[fr outs']| | |] eqn:E'; vm_compute in E'; try discriminate.
  injection E' as <- <-.
  eexists; eexists; eexists; eexists. split; [exact ex_ts_valid|]. split; [repeat constructor|].
  split; [reflexivity|]. split; [reflexivity|]. split; [reflexivity|]. vm_compute. discriminate.
Qed.

(* F4 witness: from tree 0 of ex_ts, seek(NaN) exhausts every fuel *)
Lemma seek_nan_diverges_refuted_proof :
  exists ts ops st outs, valid_tsb ts = true /\ Forall finite_op ops /\
    run core ts ops = Ok (st, outs) /\ t_index (fst st) = 0 /\
    forall fuel, py_step_fuel fuel core ts st (OpSeek NaN) = Fuel.
Proof.
  destruct (seek_nan_diverges_proof ex_ts [OpFirst] ex_ts_valid ltac:(repeat constructor))
    as (st & outs & R & D).
  assert (I : t_index (fst st) = 0).
  { revert R. destruct (run core ex_ts [OpFirst]) as [[s o]| | |] eqn:E; vm_compute in E; try discriminate.
    injection E as <- <-. intros R. injection R as <- _. reflexivity. }
  exists ex_ts, [OpFirst], st, outs. split; [exact ex_ts_valid|]. split; [repeat constructor|].
  split; [exact R|]. split; [exact I|]. apply D. lia.
Qed.

(* F4, second facet: from the NULL state seek(NaN) is accepted and silently lands on tree 0
   (tsk_search_sorted returns 0, `x <= L/2` is false, backward scan) *)
Lemma seek_nan_accepted_refuted_proof :
  exists ts st', valid_tsb ts = true /\
    py_step core ts (init_state ts) (OpSeek NaN) = Ok (st', RET_NONE) /\ t_index (fst st') = 0.
Proof.
  exists ex_ts.
  destruct (py_step core ex_ts (init_state ex_ts) (OpSeek NaN)) as [[st' r]| | |] eqn:E;
    vm_compute in E; try discriminate.
  injection E as <- <-. eexists. split; [exact ex_ts_valid|]. split; reflexivity.
Qed.
