(* C06 — the theorems about op sequences (the Python API level), their non-vacuity
   examples, and the refutations (findings F4, F14, F15). *)
From Coq Require Import List ZArith Bool Lia ZifyBool.
From TskVerif Require Import Base.Common C06.Model C06.BasicProofs C06.ListFacts C06.Valid
  C06.CursorProofs C06.WriteLoops C06.NumEdges C06.NavProofs C06.SeekProofs.
Import ListNotations.
Open Scope Z_scope.

(* what the property compares: everything of the modelled state that navigation can change,
   except the tracked counts (mode [full] only; tied by correspondence) *)
Definition abs (t : tree) : Z * Z * Z * list Z * list Z * Z * list Z :=
  (t_index t, t_left t, t_right t, t_parent t, t_edge t, t_num_edges t, t_sites t).

(* THE CURSOR INVARIANT, written out (DESIGN 4/C06) *)
Definition cursor_ok (ts : tseq) (t : tree) : Prop :=
  let p := t_pos t in let k := t_index t in
  p_index p = k /\
  (k = -1 \/
   (0 <= k < num_trees ts /\ p_left p = bp ts k /\ p_right p = bp ts (k + 1) /\
    match p_dir p with
    | DFwd => p_in_stop p = cnt_le (LI ts) (bp ts k) /\ p_out_stop p = cnt_le (RO ts) (bp ts k)
    | DRev => p_out_stop p = cnt_lt (LI ts) (bp ts (k + 1)) - 1 /\
              p_in_stop p = cnt_lt (RO ts) (bp ts (k + 1)) - 1
    | DNone => False
    end)).

(* the canonical state of index k, straight from the rows *)
Definition spec_state (ts : tseq) (t : tree) : Prop :=
  let k := t_index t in
  (k = -1 /\ t_left t = 0 /\ t_right t = 0 /\
   t_parent t = repeat TSK_NULL (Z.to_nat (ts_N ts + 1)) /\ t_edge t = repeat TSK_NULL (Z.to_nat (ts_N ts + 1)) /\
   t_num_edges t = 0 /\ t_sites t = []) \/
  (0 <= k < num_trees ts /\ t_left t = bp ts k /\ t_right t = bp ts (k + 1) /\
   t_parent t = parent_at ts (bp ts k) /\ t_edge t = edges_at ts (bp ts k) /\
   t_num_edges t = num_edges_at ts (bp ts k) /\ t_sites t = sites_at ts k).

Section Ops.
Variable ts : tseq.
Hypothesis V : valid_ts ts.

Let T := num_trees ts.

Lemma tree_ok_cursor t : tree_ok ts t -> cursor_ok ts t.
Proof.
  intros H. pose proof H as (Hi & _). unfold cursor_ok. split; [symmetry; exact Hi|].
  destruct (tree_ok_cases ts t H) as [(I & _)|(K & (P1 & P2 & P3 & P4) & _)]; [left; exact I|right].
  rewrite <- Hi in *. auto.
Qed.

(* the invariant of the machine: cursor invariant + arrays = SPEC + edge counter *)
Definition inv (t : tree) : Prop := tree_ok ts t /\ ne_ok ts t.

Lemma tree_ok_spec t : inv t -> spec_state ts t.
Proof.
  intros [H [Hn Hs]]. pose proof H as (Hi & Hl & Hr & _). unfold spec_state. unfold cnt_ok, cur_x in Hn.
  unfold sites_ok in Hs.
  destruct (tree_ok_cases ts t H) as [(I & (N1 & N2 & N3) & (A1 & A2))|(K & (P1 & P2 & P3 & P4) & (A1 & A2))].
  - left. destruct (outside_null ts V (-1) ltac:(lia)) as [E1 E2].
    rewrite I in Hn. simpl in Hn. rewrite (num_edges_outside ts V (-1)) in Hn by lia.
    rewrite Hs, I. rewrite Hl, Hr, A1, A2, E1, E2. auto 10.
  - right. replace (t_index t =? -1) with false in Hn by lia.
    rewrite Hs. rewrite Hl, Hr. rewrite <- Hi in *. auto 12.
Qed.

Lemma spec_state_abs t1 t2 : spec_state ts t1 -> spec_state ts t2 -> t_index t1 = t_index t2 -> abs t1 = abs t2.
Proof.
  unfold spec_state, abs. intros [S1|S1] [S2|S2] E; try lia;
    destruct S1 as (a1 & a2 & a3 & a4 & a5 & a6 & a7); destruct S2 as (b1 & b2 & b3 & b4 & b5 & b6 & b7).
  - rewrite a2, a3, a4, a5, a6, a7, b2, b3, b4, b5, b6, b7, E. reflexivity.
  - rewrite a2, a3, a4, a5, a6, a7, b2, b3, b4, b5, b6, b7, E. reflexivity.
Qed.

(* ---- one Python call ---- *)

Lemma py_step_ok st o : inv (fst st) -> inv (snd st) ->
  exists st' r, py_step core ts st o = Ok (st', r) /\ inv (fst st') /\ inv (snd st').
Proof.
  destruct st as [cur other]. simpl fst; simpl snd. intros [Hc Nc] [Ho No].
  unfold py_step, py_step_fuel. pose proof (seek_fuel_gt ts) as HF. fold T in HF.
  destruct o as [| | | | |x|i| | |x|i]; rewrite ?tree_copy_id.
  - destruct (tree_clear_ok ts V cur Hc) as [C _].
    destruct (tree_next_ok ts V _ C) as (t' & r & S & H' & _ & N'). unfold tree_first. rewrite S. cbn [bind].
    eexists; eexists; split; [reflexivity|]. simpl. pose proof (ne_ok_clear ts V cur). unfold inv. auto.
  - destruct (tree_clear_ok ts V cur Hc) as [C _].
    destruct (tree_prev_ok ts V _ C) as (t' & r & S & H' & _ & N'). unfold tree_last. rewrite S. cbn [bind].
    eexists; eexists; split; [reflexivity|]. simpl. pose proof (ne_ok_clear ts V cur). unfold inv. auto.
  - destruct (tree_next_ok ts V _ Hc) as (t' & r & S & H' & _ & N'). rewrite S. cbn [bind].
    eexists; eexists; split; [reflexivity|]. simpl. unfold inv. auto.
  - destruct (tree_prev_ok ts V _ Hc) as (t' & r & S & H' & _ & N'). rewrite S. cbn [bind].
    eexists; eexists; split; [reflexivity|]. simpl. unfold inv. auto.
  - destruct (tree_clear_ok ts V cur Hc) as [C _].
    eexists; eexists; split; [reflexivity|]. simpl. pose proof (ne_ok_clear ts V cur). unfold inv. auto.
  - destruct x as [v|]; [|eexists; eexists; split; [reflexivity|]; simpl; unfold inv; auto].
    unfold x_lt_z, x_ge_z.
    destruct (negb ((0 <=? v) && (v <? ts_L ts))) eqn:G.
    + eexists; eexists; split; [reflexivity|]. simpl. unfold inv. auto.
    + destruct (tree_seek_ok ts V (seek_fuel ts) cur v Hc ltac:(lia) HF) as (t' & S & H' & _ & N').
      rewrite S. cbn [lib_call]. eexists; eexists; split; [reflexivity|]. simpl. unfold inv. auto.
  - fold T. set (i' := if i <? 0 then i + T else i).
    destruct ((i' <? 0) || (T <=? i')) eqn:G.
    + eexists; eexists; split; [reflexivity|]. simpl. unfold inv. auto.
    + destruct (tree_seek_index_ok ts V (seek_fuel ts) cur i' Hc ltac:(lia) HF) as (t' & S & H' & _ & N').
      rewrite S. cbn [lib_call]. eexists; eexists; split; [reflexivity|]. simpl. unfold inv. auto.
  - eexists; eexists; split; [reflexivity|]. simpl. unfold inv. auto.
  - eexists; eexists; split; [reflexivity|]. simpl. unfold inv. auto.
  - (* the C guard of tsk_tree_seek alone *)
    destruct x as [v|]; [|eexists; eexists; split; [reflexivity|]; simpl; unfold inv; auto].
    destruct (negb ((0 <=? v) && (v <? ts_L ts))) eqn:G.
    + unfold tree_seek, x_lt_z, x_ge_z. rewrite G. cbn [lib_call].
      eexists; eexists; split; [reflexivity|]. simpl. unfold inv. auto.
    + destruct (tree_seek_ok ts V (seek_fuel ts) cur v Hc ltac:(lia) HF) as (t' & S & H' & _ & N').
      rewrite S. cbn [lib_call]. eexists; eexists; split; [reflexivity|]. simpl. unfold inv. auto.
  - (* the C guard of tsk_tree_seek_index alone *)
    destruct ((i <? 0) || (T <=? i)) eqn:G.
    + unfold tree_seek_index. fold T. rewrite G. cbn [lib_call].
      eexists; eexists; split; [reflexivity|]. simpl. unfold inv. auto.
    + destruct (tree_seek_index_ok ts V (seek_fuel ts) cur i Hc ltac:(lia) HF) as (t' & S & H' & _ & N').
      rewrite S. cbn [lib_call]. eexists; eexists; split; [reflexivity|]. simpl. unfold inv. auto.
Qed.

Lemma run_from_ok ops : forall st, inv (fst st) -> inv (snd st) ->
  exists st' outs, run_from core ts st ops = Ok (st', outs) /\ inv (fst st') /\ inv (snd st').
Proof.
  induction ops as [|o ops IH]; intros st H1 H2.
  - exists st, []. auto.
  - destruct (py_step_ok st o H1 H2) as (st1 & r & S & A & B).
    destruct (IH st1 A B) as (st2 & outs & R & C & D).
    exists st2, (r :: outs). cbn [run_from]. rewrite S. cbn [bind]. rewrite R. cbn [bind]. auto.
Qed.

Lemma inv_init : inv (tree_init ts).
Proof. split; [apply (tree_init_ok ts V)|apply (ne_ok_init ts V)]. Qed.

Lemma run_ok ops :
  exists st outs, run core ts ops = Ok (st, outs) /\ inv (fst st) /\ inv (snd st).
Proof. apply run_from_ok; apply inv_init. Qed.

Lemma run_from_app ops1 ops2 st st1 o1 :
  run_from core ts st ops1 = Ok (st1, o1) ->
  run_from core ts st (ops1 ++ ops2) =
  (do '(st2, o2) <- run_from core ts st1 ops2; Ok (st2, o1 ++ o2)).
Proof.
  revert st st1 o1; induction ops1 as [|o ops IH]; intros st st1 o1 H.
  - simpl in H. injection H as <- <-. simpl. destruct (run_from core ts st ops2) as [[s o]| | |]; reflexivity.
  - cbn [run_from app] in *. destruct (py_step core ts st o) as [[s r]| | |]; cbn [bind] in *; try discriminate.
    destruct (run_from core ts s ops) as [[s' rs]| | |] eqn:E; cbn [bind] in *; try discriminate.
    injection H as <- <-. rewrite (IH _ _ _ E).
    destruct (run_from core ts s' ops2) as [[s2 o2]| | |]; reflexivity.
Qed.

(* ---- fuel of the linear seek ---- *)

Lemma seek_loop_mono stepf x : forall f t t', seek_loop f stepf x t = Ok t' ->
  forall f', (f <= f')%nat -> seek_loop f' stepf x t = Ok t'.
Proof.
  induction f as [|f IH]; intros t t' H f' Hf; [discriminate|].
  destruct f' as [|f']; [lia|]. cbn [seek_loop] in *.
  destruct (in_interval t x); [exact H|].
  destruct (stepf t) as [[t1 r]| | |]; cbn [bind] in *; try discriminate.
  apply IH with (f' := f') in H; [exact H|lia].
Qed.

Lemma tree_seek_mono m x t t' f : tree_seek f m ts t x = Ok t' ->
  forall f', (f <= f')%nat -> tree_seek f' m ts t x = Ok t'.
Proof.
  unfold tree_seek, tree_seek_linear. intros H f' Hf.
  destruct (negb (x_ge_z x 0 && x_lt_z x (ts_L ts))); [discriminate|].
  destruct (t_index t =? -1); [exact H|].
  destruct (x_lt_z x (t_left t)); cbv iota beta in *;
    match goal with |- context [if ?c then _ else _] => destruct c end;
    eapply seek_loop_mono; eauto.
Qed.

End Ops.

(* ------------------------------------------------------------------------------ *)
(* the theorems of Props/C06.v                                                      *)

(* (a) after any op sequence both trees satisfy the cursor invariant *)
Lemma cursor_invariant_proof ts ops : valid_tsb ts = true ->
  exists st outs, run core ts ops = Ok (st, outs) /\ cursor_ok ts (fst st) /\ cursor_ok ts (snd st).
Proof.
  intros Hv. pose proof (valid_tsb_sound ts Hv) as V.
  destruct (run_ok ts V ops) as (st & outs & R & A & B).
  exists st, outs. split; [exact R|]. destruct A, B. split; apply tree_ok_cursor; assumption.
Qed.

(* (b) the state is the SPEC state of its index ... *)
Lemma nav_state_is_spec_proof ts ops : valid_tsb ts = true ->
  exists st outs, run core ts ops = Ok (st, outs) /\ spec_state ts (fst st) /\ spec_state ts (snd st).
Proof.
  intros Hv. pose proof (valid_tsb_sound ts Hv) as V.
  destruct (run_ok ts V ops) as (st & outs & R & A & B).
  exists st, outs. split; [exact R|]. split; apply (tree_ok_spec ts V); assumption.
Qed.

(* ... and equal to the state of a fresh Tree moved directly there (seek_index from a new
   Tree; a new Tree for the null state) *)
Definition fresh_ops (k : Z) : list op := if k =? -1 then [] else [OpSeekIndex k].

Lemma nav_canonical_proof ts ops : valid_tsb ts = true ->
  exists st outs, run core ts ops = Ok (st, outs) /\
  exists fr outs', run core ts (fresh_ops (t_index (fst st))) = Ok (fr, outs') /\
                   abs (fst st) = abs (fst fr).
Proof.
  intros Hv. pose proof (valid_tsb_sound ts Hv) as V.
  destruct (run_ok ts V ops) as (st & outs & R & A & B).
  exists st, outs. split; [exact R|].
  destruct (run_ok ts V (fresh_ops (t_index (fst st)))) as (fr & outs' & R' & A' & B').
  exists fr, outs'. split; [exact R'|].
  apply (spec_state_abs ts); try (apply (tree_ok_spec ts V); assumption).
  (* the fresh run ends at the same index *)
  pose proof (tree_ok_index ts V _ (proj1 A)) as Hi.
  unfold fresh_ops in R'. destruct (t_index (fst st) =? -1) eqn:E.
  - unfold run in R'. simpl in R'. injection R' as <- _. simpl. lia.
  - unfold run in R'. cbn [run_from] in R'.
    unfold py_step, py_step_fuel, init_state in R'.
    replace (t_index (fst st) <? 0) with false in R' by lia.
    replace ((t_index (fst st) <? 0) || (num_trees ts <=? t_index (fst st))) with false in R' by lia.
    destruct (tree_seek_index_ok ts V (seek_fuel ts) (tree_init ts) (t_index (fst st)))
      as (t' & S & H' & I' & _); [apply (tree_init_ok ts V)|lia|apply seek_fuel_gt|].
    rewrite S in R'. cbn [lib_call bind] in R'. injection R' as <- _. simpl. symmetry. exact I'.
Qed.

(* (c) index transitions of next / prev *)
Lemma next_prev_index_proof ts ops o : valid_tsb ts = true ->
  o = OpNext \/ o = OpPrev ->
  exists st outs st' r, run core ts ops = Ok (st, outs) /\ py_step core ts st o = Ok (st', r) /\
    t_index (fst st') = (match o with OpNext => nxt ts | _ => prv ts end) (t_index (fst st)) /\
    (r = 0 <-> t_index (fst st') = -1) /\ (r = 0 \/ r = 1).
Proof.
  intros Hv Ho. pose proof (valid_tsb_sound ts Hv) as V.
  destruct (run_ok ts V ops) as ([cur other] & outs & R & A & B). simpl in A, B.
  exists (cur, other), outs.
  destruct Ho; subst o; unfold py_step, py_step_fuel.
  - destruct (tree_next_ok ts V cur (proj1 A)) as (t' & r & S & H' & I' & _). rewrite S. cbn [bind].
    eexists; eexists; split; [exact R|]. split; [reflexivity|]. simpl. split; [exact I'|].
    apply tree_next_ret in S as [[-> Hn]|[-> Hn]]; simpl; split; try lia; split; intros; lia.
  - destruct (tree_prev_ok ts V cur (proj1 A)) as (t' & r & S & H' & I' & _). rewrite S. cbn [bind].
    eexists; eexists; split; [exact R|]. split; [reflexivity|]. simpl. split; [exact I'|].
    apply tree_prev_ret in S as [[-> Hn]|[-> Hn]]; simpl; split; try lia; split; intros; lia.
Qed.

(* (d) seek(x) with 0 <= x < L returns None and lands on the tree containing x *)
Lemma seek_lands_proof ts ops v : valid_tsb ts = true -> 0 <= v < ts_L ts ->
  exists st outs st', run core ts ops = Ok (st, outs) /\
    py_step core ts st (OpSeek (Fin v)) = Ok (st', RET_NONE) /\
    t_left (fst st') <= v < t_right (fst st') /\ snd st' = snd st.
Proof.
  intros Hv Hr. pose proof (valid_tsb_sound ts Hv) as V.
  destruct (run_ok ts V ops) as ([cur other] & outs & R & A & B). simpl in A, B.
  exists (cur, other), outs. unfold py_step, py_step_fuel, x_lt_z, x_ge_z.
  replace (negb ((0 <=? v) && (v <? ts_L ts))) with false by lia.
  destruct (tree_seek_ok ts V (seek_fuel ts) cur v (proj1 A) Hr (seek_fuel_gt ts)) as (t' & S & H' & (K & Bd) & _).
  rewrite S. cbn [lib_call]. eexists. split; [exact R|]. split; [reflexivity|]. simpl. split; [|reflexivity].
  destruct (tree_ok_interval ts t' H') as [(I & _)|(_ & L1 & R1)]; [lia|]. rewrite L1, R1. exact Bd.
Qed.

(* (e) the linear seek never needs more than num_trees + 1 loop tests: every fuel above
   num_trees gives the same (non-Fuel) result *)
Lemma seek_linear_terminates_proof ts ops v : valid_tsb ts = true ->
  0 <= v < ts_L ts ->
  exists st outs t', run core ts ops = Ok (st, outs) /\
    forall fuel, Z.of_nat fuel >= num_trees ts + 1 -> tree_seek fuel core ts (fst st) (Fin v) = Ok t'.
Proof.
  intros Hv Hr. pose proof (valid_tsb_sound ts Hv) as V.
  destruct (run_ok ts V ops) as (st & outs & R & A & B).
  pose proof (v_T ts V) as HT.
  destruct (tree_seek_ok ts V (Z.to_nat (num_trees ts + 1)) (fst st) v (proj1 A) Hr ltac:(lia)) as (t' & S & _).
  exists st, outs, t'. split; [exact R|]. intros fuel Hfu.
  eapply tree_seek_mono; [exact S|lia].
Qed.

(* seek is TOTAL on every argument (fix eee123e): in every reachable state Tree.seek(x)
   either lands on the tree containing x (0 <= x < L) or raises ValueError and leaves both
   trees untouched — in particular for x = NaN; the low-level call raises LibraryError. *)
Definition in_range (ts : tseq) (x : coord) : Prop :=
  match x with Fin v => 0 <= v < ts_L ts | NaN => False end.

Lemma seek_total_proof ts ops x : valid_tsb ts = true ->
  exists st outs st' r, run core ts ops = Ok (st, outs) /\
    py_step core ts st (OpSeek x) = Ok (st', r) /\
    ((in_range ts x /\ r = RET_NONE /\ in_interval (fst st') x = true /\ snd st' = snd st) \/
     (~ in_range ts x /\ r = RAISE_VALUE_ERROR /\ st' = st)).
Proof.
  intros Hv. pose proof (valid_tsb_sound ts Hv) as V.
  destruct (run_ok ts V ops) as ([cur other] & outs & R & A & B). simpl in A, B.
  exists (cur, other), outs. unfold py_step, py_step_fuel.
  destruct x as [v|].
  - unfold x_lt_z, x_ge_z. destruct (negb ((0 <=? v) && (v <? ts_L ts))) eqn:G.
    + eexists; eexists. split; [exact R|]. split; [reflexivity|]. right. simpl. split; [lia|auto].
    + assert (Hr : 0 <= v < ts_L ts) by lia.
      destruct (tree_seek_ok ts V (seek_fuel ts) cur v (proj1 A) Hr (seek_fuel_gt ts)) as (t' & S & H' & (K & Bd) & _).
      rewrite S. cbn [lib_call]. eexists; eexists. split; [exact R|]. split; [reflexivity|]. left.
      simpl. split; [exact Hr|]. split; [reflexivity|]. split; [|reflexivity].
      unfold in_interval, z_le_x, x_lt_z.
      destruct (tree_ok_interval ts t' H') as [(I & _)|(_ & L1 & R1)]; [lia|]. rewrite L1, R1. lia.
  - eexists; eexists. split; [exact R|]. split; [reflexivity|]. right. simpl. auto.
Qed.

Lemma ll_seek_total_proof ts ops x : valid_tsb ts = true ->
  exists st outs st' r, run core ts ops = Ok (st, outs) /\
    py_step core ts st (OpLLSeek x) = Ok (st', r) /\
    ((in_range ts x /\ r = RET_NONE /\ in_interval (fst st') x = true /\ snd st' = snd st) \/
     (~ in_range ts x /\ r = RAISE_LIBRARY_ERROR /\ st' = st)).
Proof.
  intros Hv. pose proof (valid_tsb_sound ts Hv) as V.
  destruct (run_ok ts V ops) as ([cur other] & outs & R & A & B). simpl in A, B.
  exists (cur, other), outs. unfold py_step, py_step_fuel.
  destruct x as [v|].
  - destruct (negb ((0 <=? v) && (v <? ts_L ts))) eqn:G.
    + unfold tree_seek, x_lt_z, x_ge_z. rewrite G. cbn [lib_call].
      eexists; eexists. split; [exact R|]. split; [reflexivity|]. right. simpl. split; [lia|auto].
    + assert (Hr : 0 <= v < ts_L ts) by lia.
      destruct (tree_seek_ok ts V (seek_fuel ts) cur v (proj1 A) Hr (seek_fuel_gt ts)) as (t' & S & H' & (K & Bd) & _).
      rewrite S. cbn [lib_call]. eexists; eexists. split; [exact R|]. split; [reflexivity|]. left.
      simpl. split; [exact Hr|]. split; [reflexivity|]. split; [|reflexivity].
      unfold in_interval, z_le_x, x_lt_z.
      destruct (tree_ok_interval ts t' H') as [(I & _)|(_ & L1 & R1)]; [lia|]. rewrite L1, R1. lia.
  - eexists; eexists. split; [exact R|]. split; [reflexivity|]. right. simpl. auto.
Qed.

(* ------------------------------------------------------------------------------ *)
(* non-vacuity: a tree sequence with three trees, gaps at both ends of one node's
   ancestry, several equal end-points; and the refutation witnesses                 *)

(* nodes 0,1,2 samples, 3 internal SAMPLE, 4 root.  Coordinates on the lattice * 2.
   edges: (0,4,3,0) (0,4,3,1) (4,8,4,0) (4,8,4,1) (0,8,4,3) (2,6,3,2) *)
Definition ex_ts : tseq :=
  mkTs 8 5
    [mkEdge 0 4 3 0; mkEdge 0 4 3 1; mkEdge 2 6 3 2; mkEdge 0 8 4 3; mkEdge 4 8 4 0; mkEdge 4 8 4 1]
    [0; 1; 3; 2; 4; 5] [0; 1; 2; 3; 4; 5] [0; 2; 4; 6; 8]
    [1; 1; 1; 1; 0] [[0]; []; [1]; []] 2 [0; 1; 0; 0; 0; 1] [0; 0; 0; 1; 2].

Example ex_ts_valid : valid_tsb ex_ts = true.
Proof. vm_compute. reflexivity. Qed.

Definition ex_ops : list op :=
  [OpLast; OpPrev; OpSeek (Fin 1); OpNext; OpCopy; OpSeekIndex (-1); OpSwap; OpPrev; OpPrev; OpPrev;
   OpSeek (Fin 7); OpClear; OpLLSeek (Fin 5); OpLLSeekIndex 9; OpLLSeek (Fin 8); OpSeek NaN; OpLLSeek NaN].

(* the run visits non-null trees, reverses direction, wraps through null, seeks from null
   into the second half; it ends on tree 2 = [4, 6) with the other tree on tree 3 *)
Example ex_run :
  match run core ex_ts ex_ops with
  | Ok (st, outs) => abs (fst st) = (2, 4, 6, [4; 4; 3; 4; -1; -1], [4; 5; 2; 3; -1; -1], 4, [1]) /\
                     t_index (snd st) = 3 /\ outs = [2; 1; 2; 1; 2; 2; 2; 1; 0; 1; 2; 2; 2; -3; -3; -1; -3]
  | _ => False
  end.
Proof. vm_compute. repeat split. Qed.

(* the three defects the pinned code had (F4, F14, F15) are repaired in /repo and in this
   model; what used to be refutation witnesses are now positive examples *)

(* first(); clear(): the null tree has no sites (was F14) *)
Example ex_sites_after_clear :
  match run core ex_ts [OpFirst; OpClear] with
  | Ok (st, _) => t_sites (fst st) = t_sites (tree_init ex_ts) /\ t_sites (fst st) = []
  | _ => False
  end.
Proof. vm_compute. split; reflexivity. Qed.

(* first(); last() and a fresh seek_index end with the same tracked counts (was F15;
   tracked sample 1, internal sample 3; mode full) *)
Example ex_tracked_after_clear :
  match run full ex_ts [OpFirst; OpLast], run full ex_ts [OpSeekIndex 3] with
  | Ok (st, _), Ok (fr, _) => t_index (fst st) = 3 /\ t_tracked (fst st) = t_tracked (fst fr)
  | _, _ => False
  end.
Proof. vm_compute. split; reflexivity. Qed.

(* seek(NaN) from a tree and from the null state: ValueError, state unchanged (was F4) *)
Example ex_seek_nan :
  match run core ex_ts [OpFirst; OpSeek NaN; OpClear; OpSeek NaN] with
  | Ok (st, outs) => outs = [2; -1; 2; -1] /\ t_index (fst st) = -1
  | _ => False
  end.
Proof. vm_compute. split; reflexivity. Qed.
