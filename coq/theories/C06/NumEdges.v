(* C06 — num_edges: the counter maintained by tsk_tree_insert_edge / tsk_tree_remove_edge
   equals the number of edge rows covering the current position (counted over edge ids),
   because each cursor range visits every edge at most once (the index orders are
   permutations) and the counting identity
      #cov(y) = #cov(x) - #(cov(x) \ cov(y)) + #(cov(y) \ cov(x)). *)
From Coq Require Import List ZArith Bool Lia ZifyBool Permutation FinFun.
From TskVerif Require Import Base.Common C06.Model C06.BasicProofs C06.ListFacts C06.Valid
  C06.CursorProofs C06.WriteLoops.
Import ListNotations.
Open Scope Z_scope.

Lemma count_identity (a b : Z -> bool) l :
  zlen (filter b l) = zlen (filter a l) - zlen (filter (fun e => a e && negb (b e)) l)
                      + zlen (filter (fun e => b e && negb (a e)) l).
Proof.
  induction l as [|x l IH]; [reflexivity|]. cbn [filter].
  destruct (a x), (b x); cbn [andb negb]; rewrite ?zlen_cons; lia.
Qed.

Lemma NoDup_zseq n : NoDup (zseq n).
Proof.
  unfold zseq. apply Injective_map_NoDup; [|apply seq_NoDup]. intros x y H. lia.
Qed.

Lemma NoDup_count l (P : Z -> bool) M : NoDup l ->
  (forall e, In e l <-> (0 <= e < M /\ P e = true)) -> zlen l = zlen (filter P (zseq M)).
Proof.
  intros N H. unfold zlen. f_equal. apply Permutation_length. apply NoDup_Permutation.
  - exact N.
  - apply NoDup_filter. apply NoDup_zseq.
  - intros e. rewrite filter_In, In_zseq. apply H.
Qed.

Lemma NoDup_map_inj_on {A B} (f : A -> B) l : NoDup l ->
  (forall x y, In x l -> In y l -> f x = f y -> x = y) -> NoDup (map f l).
Proof.
  induction 1 as [|a l Ha N IH]; intros Hf; simpl; constructor.
  - intros Hin. apply in_map_iff in Hin as [y [E Hy]].
    assert (y = a) by (apply Hf; [right; exact Hy|left; reflexivity|exact E]). subst. contradiction.
  - apply IH. intros x y Hx Hy. apply Hf; right; assumption.
Qed.

Lemma NoDup_positions j d n : d = 1 \/ d = -1 -> NoDup (positions j d n).
Proof.
  intros Hd. unfold positions. apply NoDup_map_inj_on; [apply seq_NoDup|].
  intros x y _ _ H. destruct Hd; subst d; lia.
Qed.

Lemma zn_inj l i j : NoDup l -> 0 <= i < zlen l -> 0 <= j < zlen l -> zn l i = zn l j -> i = j.
Proof.
  intros N Hi Hj E. unfold zn in E. unfold zlen in Hi, Hj.
  pose proof (proj1 (NoDup_nth l 0) N (Z.to_nat i) (Z.to_nat j) ltac:(lia) ltac:(lia) E). lia.
Qed.

Lemma NoDup_ids order j d n : NoDup order -> d = 1 \/ d = -1 ->
  (forall p, In p (positions j d n) -> 0 <= p < zlen order) ->
  NoDup (map (zn order) (positions j d n)).
Proof.
  intros N Hd Hr. apply NoDup_map_inj_on; [apply NoDup_positions; exact Hd|].
  intros x y Hx Hy E. apply (zn_inj order); auto.
Qed.

(* ---- the counter along a write loop ---- *)

Definition dn_of (ts : tseq) (sel : selector) (e : Z) : Z :=
  match get (ts_edges ts) e with
  | Ok ed => match sel e ed with Some (_, _, _, dn) => dn | None => 0 end
  | _ => 0
  end.

Lemma write_ne t c pv ev dn t' : write t c pv ev dn = Ok t' -> t_num_edges t' = t_num_edges t + dn.
Proof.
  unfold write. intros H. inv_bind H as par Hp. inv_bind H as edg He. injection H as <-. reflexivity.
Qed.

Lemma wloop_ne ts sel es : forall t t', wloop ts sel es t = Ok t' ->
  t_num_edges t' = t_num_edges t + fold_right (fun e acc => dn_of ts sel e + acc) 0 es.
Proof.
  induction es as [|e r IH]; intros t t' H; cbn [wloop fold_right] in *.
  - injection H as <-. lia.
  - inv_bind H as ed Hed. inv_bind H as t1 Ht1. apply IH in H. rewrite H.
    assert (Ed : dn_of ts sel e = match sel e ed with Some (_, _, _, dn) => dn | None => 0 end)
      by (unfold dn_of; rewrite Hed; reflexivity).
    rewrite Ed. unfold sel_body in Ht1.
    destruct (sel e ed) as [[[[c pv] ev] dn]|].
    + apply write_ne in Ht1. lia.
    + injection Ht1 as <-. lia.
Qed.

Lemma sum_rem ts es : (forall e, In e es -> 0 <= e < num_edges ts) ->
  fold_right (fun e acc => dn_of ts sel_rem e + acc) 0 es = - zlen es.
Proof.
  induction es as [|e r IH]; intros H; [reflexivity|]. cbn [fold_right]. rewrite zlen_cons.
  rewrite IH by (intros; apply H; right; assumption).
  destruct (get_in_range (ts_edges ts) e) as [ed Hed]; [apply H; left; reflexivity|].
  unfold dn_of. rewrite Hed. unfold sel_rem. lia.
Qed.

Definition fb (ts : tseq) (f : edge -> bool) (e : Z) : bool :=
  match get (ts_edges ts) e with Ok ed => f ed | _ => false end.

Lemma sum_ins ts f es :
  fold_right (fun e acc => dn_of ts (sel_ins f) e + acc) 0 es = zlen (filter (fb ts f) es).
Proof.
  induction es as [|e r IH]; [reflexivity|]. cbn [fold_right filter]. rewrite IH.
  unfold dn_of, fb, sel_ins. destruct (get (ts_edges ts) e) as [ed| | |]; try lia.
  destruct (f ed); rewrite ?zlen_cons; lia.
Qed.

Section Ne.
Variable ts : tseq.
Hypothesis V : valid_ts ts.

Lemma NoDup_O : NoDup (ts_O ts).
Proof.
  apply (@NoDup_incl_NoDup Z (zseq (num_edges ts))); [apply NoDup_zseq| |].
  - pose proof (v_O_len ts V) as H. unfold zlen in H. unfold zseq. rewrite map_length, seq_length.
    unfold num_edges, zlen in *. lia.
  - intros e He. apply In_zseq in He. destruct (v_O_surj ts V e He) as [j [Hj <-]].
    apply zn_In. rewrite (v_O_len ts V). exact Hj.
Qed.

Lemma NoDup_I : NoDup (ts_I ts).
Proof.
  apply (@NoDup_incl_NoDup Z (zseq (num_edges ts))); [apply NoDup_zseq| |].
  - pose proof (v_I_len ts V) as H. unfold zlen in H. unfold zseq. rewrite map_length, seq_length.
    unfold num_edges, zlen in *. lia.
  - intros e He. apply In_zseq in He. destruct (v_I_surj ts V e He) as [j [Hj <-]].
    apply zn_In. rewrite (v_I_len ts V). exact Hj.
Qed.

Lemma num_edges_outside x : x < 0 \/ ts_L ts <= x -> num_edges_at ts x = 0.
Proof.
  intros Hx. unfold num_edges_at. rewrite filter_none; [reflexivity|].
  intros e _. unfold covb. destruct (get (ts_edges ts) e) as [ed| | |] eqn:G; try reflexivity.
  pose proof (v_edge ts V _ _ G). unfold covers. lia.
Qed.

(* the counter after the two loops of a transition *)
Lemma transition_ne t x y es_r es_i (f : edge -> bool) t1 t2 :
  NoDup es_r -> NoDup es_i ->
  (forall e, In e es_r -> 0 <= e < num_edges ts) ->
  (forall e, In e es_i -> 0 <= e < num_edges ts) ->
  (forall e ed, In e es_r -> get (ts_edges ts) e = Ok ed -> covers ed x = true /\ covers ed y = false) ->
  (forall e ed, get (ts_edges ts) e = Ok ed -> covers ed x = true -> covers ed y = false -> In e es_r) ->
  (forall e ed, In e es_i -> get (ts_edges ts) e = Ok ed -> f ed = true ->
                covers ed y = true /\ covers ed x = false) ->
  (forall e ed, get (ts_edges ts) e = Ok ed -> covers ed y = true -> covers ed x = false ->
                In e es_i /\ f ed = true) ->
  wloop ts sel_rem es_r t = Ok t1 -> wloop ts (sel_ins f) es_i t1 = Ok t2 ->
  t_num_edges t = num_edges_at ts x -> t_num_edges t2 = num_edges_at ts y.
Proof.
  intros Nr Ni Rr Ri R1 R2 I1 I2 W1 W2 E.
  apply wloop_ne in W1. apply wloop_ne in W2. rewrite W2, W1, E, sum_rem, sum_ins by exact Rr.
  unfold num_edges_at.
  rewrite (count_identity (covb ts x) (covb ts y)).
  rewrite (NoDup_count es_r (fun e => covb ts x e && negb (covb ts y e)) (num_edges ts) Nr).
  2:{ intros e. split.
      - intros He. split; [apply Rr; exact He|].
        destruct (get_in_range (ts_edges ts) e (Rr e He)) as [ed G].
        destruct (R1 e ed He G) as [A B]. unfold covb. rewrite G, A, B. reflexivity.
      - intros [Hr Hp]. unfold covb in Hp. destruct (get (ts_edges ts) e) as [ed| | |] eqn:G; try discriminate.
        apply (R2 e ed G); destruct (covers ed x), (covers ed y); simpl in Hp; congruence. }
  rewrite (NoDup_count (filter (fb ts f) es_i) (fun e => covb ts y e && negb (covb ts x e)) (num_edges ts)).
  - lia.
  - apply NoDup_filter. exact Ni.
  - intros e. rewrite filter_In. split.
    + intros [He Hf]. split; [apply Ri; exact He|].
      unfold fb in Hf. destruct (get (ts_edges ts) e) as [ed| | |] eqn:G; try discriminate.
      destruct (I1 e ed He G Hf) as [A B]. unfold covb. rewrite G, A, B. reflexivity.
    + intros [Hr Hp]. unfold covb in Hp. destruct (get (ts_edges ts) e) as [ed| | |] eqn:G; try discriminate.
      destruct (I2 e ed G) as [A B]; [destruct (covers ed y); simpl in Hp; congruence
                                     |destruct (covers ed x), (covers ed y); simpl in Hp; congruence|].
      split; [exact A|]. unfold fb. rewrite G. exact B.
Qed.

End Ne.
