(* C06 — renumbering invariance of the canonical state.  tskit puts no constraint on node ids;
   if the nodes of a tree sequence are renumbered by an injective map pi (edge rows keep
   their order and coordinates, parent / child ids are mapped), the SPEC arrays of any
   position are the renumbered SPEC arrays:  parent'[pi c] = pi (parent[c]),  edge'[pi c] =
   edge[c], the same number of edges.  Since every reachable state IS the SPEC state of its
   index (nav_state_is_spec), two runs — any op lists — that stand on the same index have
   states that correspond under the renumbering. *)
From Coq Require Import List ZArith Bool Lia ZifyBool.
From TskVerif Require Import Base.Common C06.Model C06.BasicProofs C06.ListFacts C06.Valid
  C06.CursorProofs C06.WriteLoops C06.NumEdges C06.NavProofs C06.SeekProofs C06.Theorems.
Import ListNotations.
Open Scope Z_scope.

Definition ren (pi : Z -> Z) (ed : edge) : edge :=
  mkEdge (e_left ed) (e_right ed) (pi (e_parent ed)) (pi (e_child ed)).
Definition pmap (pi : Z -> Z) (p : Z) : Z := if p =? -1 then -1 else pi p.

Section Ren.
Variables ts ts' : tseq.
Variable pi : Z -> Z.
Hypothesis V : valid_ts ts.
Hypothesis V' : valid_ts ts'.
Hypothesis HN : ts_N ts' = ts_N ts.
Hypothesis HE : ts_edges ts' = map (ren pi) (ts_edges ts).
Hypothesis Hrng : forall c, 0 <= c < ts_N ts -> 0 <= pi c < ts_N ts.
Hypothesis Hinj : forall a b, 0 <= a < ts_N ts -> 0 <= b < ts_N ts -> pi a = pi b -> a = b.

Lemma get_ren e ed : get (ts_edges ts) e = Ok ed -> get (ts_edges ts') e = Ok (ren pi ed).
Proof. intros G. rewrite HE. apply get_map. exact G. Qed.

Lemma get_ren_inv e ed' : get (ts_edges ts') e = Ok ed' ->
  exists ed, get (ts_edges ts) e = Ok ed /\ ed' = ren pi ed.
Proof.
  intros G. pose proof (get_ok_range _ _ _ G) as R. rewrite HE, zlen_map in R.
  destruct (get_in_range (ts_edges ts) e R) as [ed Hed]. exists ed. split; [exact Hed|].
  rewrite (get_ren e ed Hed) in G. injection G as <-. reflexivity.
Qed.

Lemma covers_ren ed x : covers (ren pi ed) x = covers ed x.
Proof. reflexivity. Qed.

(* the SPEC arrays commute with the renumbering *)
Lemma spec_renumber x c : 0 <= c < ts_N ts ->
  zn (parent_at ts' x) (pi c) = pmap pi (zn (parent_at ts x) c) /\
  zn (edges_at ts' x) (pi c) = zn (edges_at ts x) c.
Proof.
  intros Hc. destruct (at_cases ts x c) as [(e & ed & G & C & Ch)|None].
  - destruct (at_some ts V x e ed G C) as [A1 A2]. rewrite Ch in A1, A2.
    pose proof (get_ren e ed G) as G'.
    destruct (at_some ts' V' x e (ren pi ed) G') as [B1 B2]; [rewrite covers_ren; exact C|].
    simpl in B1, B2. rewrite Ch in B1, B2. rewrite A1, A2, B1, B2.
    pose proof (v_edge ts V _ _ G). unfold pmap. replace (e_parent ed =? -1) with false by lia. auto.
  - destruct (at_none ts x c ltac:(lia) None) as [A1 A2]. rewrite A1, A2.
    destruct (at_none ts' x (pi c)) as [B1 B2].
    + rewrite HN. pose proof (Hrng c Hc). lia.
    + intros e ed' G' Ch'. destruct (get_ren_inv e ed' G') as (ed & G & ->).
      rewrite covers_ren. simpl in Ch'. apply (None e ed G).
      pose proof (v_edge ts V _ _ G). apply Hinj; [lia|exact Hc|exact Ch'].
    + rewrite B1, B2. auto.
Qed.

Lemma num_edges_renumber x : num_edges_at ts' x = num_edges_at ts x.
Proof.
  unfold num_edges_at, num_edges. rewrite HE, zlen_map. f_equal. apply filter_ext_in.
  intros e He. apply In_zseq in He. unfold covb.
  destruct (get_in_range (ts_edges ts) e He) as [ed G]. rewrite G. rewrite (get_ren e ed G).
  apply covers_ren.
Qed.

End Ren.

(* a reachable state's arrays are the SPEC arrays of its position (-1 for the null tree) *)
Lemma spec_state_arrays ts (V : valid_ts ts) t : spec_state ts t ->
  let x := if t_index t =? -1 then -1 else bp ts (t_index t) in
  t_parent t = parent_at ts x /\ t_edge t = edges_at ts x /\ t_num_edges t = num_edges_at ts x.
Proof.
  intros [S|S]; destruct S as (a1 & a2 & a3 & a4 & a5 & a6 & a7).
  - rewrite a1. simpl. destruct (outside_null ts V (-1) ltac:(lia)) as [E1 E2].
    rewrite E1, E2, (num_edges_outside ts V (-1)) by lia. auto.
  - replace (t_index t =? -1) with false by lia. auto.
Qed.

Lemma renumbering_invariance_proof ts ts' pi ops ops' :
  valid_tsb ts = true -> valid_tsb ts' = true -> ts_N ts' = ts_N ts ->
  ts_edges ts' = map (ren pi) (ts_edges ts) -> ts_bps ts' = ts_bps ts ->
  (forall c, 0 <= c < ts_N ts -> 0 <= pi c < ts_N ts) ->
  (forall a b, 0 <= a < ts_N ts -> 0 <= b < ts_N ts -> pi a = pi b -> a = b) ->
  exists st outs st' outs',
    run core ts ops = Ok (st, outs) /\ run core ts' ops' = Ok (st', outs') /\
    (t_index (fst st') = t_index (fst st) ->
     t_left (fst st') = t_left (fst st) /\ t_right (fst st') = t_right (fst st) /\
     t_num_edges (fst st') = t_num_edges (fst st) /\
     forall c, 0 <= c < ts_N ts ->
       zn (t_parent (fst st')) (pi c) = pmap pi (zn (t_parent (fst st)) c) /\
       zn (t_edge (fst st')) (pi c) = zn (t_edge (fst st)) c).
Proof.
  intros Hv Hv' HN HE HB Hr Hi.
  pose proof (valid_tsb_sound ts Hv) as V. pose proof (valid_tsb_sound ts' Hv') as V'.
  destruct (nav_state_is_spec_proof ts ops Hv) as (st & outs & R & S & _).
  destruct (nav_state_is_spec_proof ts' ops' Hv') as (st' & outs' & R' & S' & _).
  exists st, outs, st', outs'. split; [exact R|]. split; [exact R'|]. intros Ei.
  destruct (spec_state_arrays ts V _ S) as (P1 & E1 & N1).
  destruct (spec_state_arrays ts' V' _ S') as (P2 & E2 & N2).
  assert (Hbp : forall k, bp ts' k = bp ts k) by (intros k; unfold bp; rewrite HB; reflexivity).
  rewrite Ei, Hbp in P2, E2, N2.
  split; [|split; [|split]].
  - destruct S as [S|S], S' as [S'|S']; destruct S as (a1 & a2 & _); destruct S' as (b1 & b2 & _); try lia.
    rewrite Ei, Hbp in b2. lia.
  - destruct S as [S|S], S' as [S'|S']; destruct S as (a1 & _ & a3 & _); destruct S' as (b1 & _ & b3 & _); try lia.
    rewrite Ei, Hbp in b3. lia.
  - rewrite N1, N2. apply (num_edges_renumber ts ts' pi HE).
  - intros c Hc. rewrite P1, P2, E1, E2. apply (spec_renumber ts ts' pi V V' HN HE Hr Hi). exact Hc.
Qed.

(* non-vacuity: ex_ts with its five nodes reversed (pi c = 4 - c) *)
Definition ex_ts_rev : tseq :=
  mkTs 8 5
    [mkEdge 0 4 1 4; mkEdge 0 4 1 3; mkEdge 2 6 1 2; mkEdge 0 8 0 1; mkEdge 4 8 0 4; mkEdge 4 8 0 3]
    [0; 1; 3; 2; 4; 5] [0; 1; 2; 3; 4; 5] [0; 2; 4; 6; 8]
    [0; 1; 1; 1; 1] [[0]; []; [1]; []] 2 [0; 0; 0; 1; 0; 1] [2; 1; 0; 0; 0].

Example ex_ts_rev_valid : valid_tsb ex_ts_rev = true.
Proof. vm_compute. reflexivity. Qed.

Example ex_ts_rev_is_renumbered :
  ts_edges ex_ts_rev = map (ren (fun c => 4 - c)) (ts_edges ex_ts) /\ ts_bps ex_ts_rev = ts_bps ex_ts.
Proof. split; reflexivity. Qed.
