(* C06 — the NAVIGATION STATE MACHINE of tskit.Tree.

   Executable model (definitions only) of
     c/tskit/trees.c   tsk_tree_position_set_null / _next / _prev / _seek_forward /
                       _seek_backward                                  (l. 5154-5437)
                       tsk_tree_remove_edge / tsk_tree_insert_edge      (l. 6286-6366)
                       tsk_tree_first / _last / _next / _prev           (l. 6368-6473)
                       tsk_tree_update_index_and_interval               (l. 6396-6409)
                       tsk_tree_seek_from_null / _seek_index / _seek_linear / _seek /
                       tsk_tree_clear                                   (l. 6481-6679)
                       tsk_tree_copy                                    (l. 5681-5738)
     c/tskit/core.c    tsk_search_sorted                                (l. 847-869)
     python/tskit/trees.py  Tree.first/last/next/prev/clear/seek_index/seek/copy (l. 696-866)
     python/_tskitmodule.c  Tree_next/Tree_prev (`err == 1`), Tree_copy (TSK_NO_INIT copy)

   The model follows /repo HEAD including the repairs eee123e (F4: NaN-proof guards of
   tsk_tree_seek / Tree.seek), 9583b70 (F14: tsk_tree_clear resets the site list) and fcbdf2e
   (F15: tsk_tree_clear removes the descendants' tracked counts from internal samples).

   Abstraction: of the quintuply linked tree only the [parent] array, the [edge] array,
   [num_edges], the tracked-sample counts and the site-list pointer are kept (children
   order, sample counts, roots and sample lists are property C01's business).  Genome
   coordinates of table rows are [Z] (only compared); the argument of seek is a [coord]
   which may be NaN (the guards of the code do not exclude it).  Every C loop has explicit
   fuel and every array access is checked ([OOB] is a visible outcome). *)
From Coq Require Import List ZArith Bool Lia.
From TskVerif Require Import Base.Common.
Import ListNotations.
Open Scope Z_scope.

(* ------------------------------------------------------------------------------ *)
(* tables                                                                           *)

Record edge := mkEdge { e_left : Z; e_right : Z; e_parent : Z; e_child : Z }.

Record tseq := mkTs {
  ts_L : Z;                      (* sequence length *)
  ts_N : Z;                      (* number of nodes; slot N of the arrays = virtual root *)
  ts_edges : list edge;          (* edge table, row id = position *)
  ts_I : list Z;                 (* indexes.edge_insertion_order (sorted by left) *)
  ts_O : list Z;                 (* indexes.edge_removal_order  (sorted by right) *)
  ts_bps : list Z;               (* tree_sequence->breakpoints, num_trees + 1 entries *)
  ts_flags : list Z;             (* node flags (bit 0 = TSK_NODE_IS_SAMPLE) *)
  ts_tree_sites : list (list Z); (* tree_sites[k] as site ids *)
  ts_nsites : Z;                 (* tables->sites.num_rows *)
  ts_tracked0 : list Z;          (* num_tracked_samples after tsk_tree_set_tracked_samples
                                    on the new (null) tree: the tree option *)
  ts_time : list Z               (* node times, as ranks 0 .. N-1 (only compared): strictly
                                    increasing along every edge = the forest is acyclic, which
                                    is what makes the ancestor walks of insert / remove_edge
                                    terminate *)
}.

Definition num_edges (ts : tseq) : Z := zlen (ts_edges ts).
Definition num_trees (ts : tseq) : Z := zlen (ts_bps ts) - 1.
Definition TSK_NULL : Z := -1.
Definition TSK_ERR_SEEK_OUT_OF_BOUNDS : Z := -201.
Definition ABORT : Z := -99.      (* tsk_bug_assert failure: the process aborts *)

(* a double that is either a lattice point or NaN (all comparisons with NaN are false) *)
Inductive coord := Fin (z : Z) | NaN.

Definition x_lt_z (x : coord) (z : Z) : bool := match x with Fin a => a <? z | NaN => false end.
Definition x_ge_z (x : coord) (z : Z) : bool := match x with Fin a => z <=? a | NaN => false end.
Definition z_le_x (z : Z) (x : coord) : bool := match x with Fin a => z <=? a | NaN => false end.
Definition z_lt_x (z : Z) (x : coord) : bool := match x with Fin a => z <? a | NaN => false end.
Definition z_gt_x (z : Z) (x : coord) : bool := match x with Fin a => a <? z | NaN => false end.
Definition c_le (a b : coord) : bool :=
  match a, b with Fin x, Fin y => x <=? y | _, _ => false end.
Definition c_sub (a b : coord) : coord :=
  match a, b with Fin x, Fin y => Fin (x - y) | _, _ => NaN end.
Definition c_add (a b : coord) : coord :=
  match a, b with Fin x, Fin y => Fin (x + y) | _, _ => NaN end.
(* x <= L / 2.0  (division by two is exact in binary floating point) *)
Definition x_le_half (x : coord) (L : Z) : bool :=
  match x with Fin a => 2 * a <=? L | NaN => false end.

(* ------------------------------------------------------------------------------ *)
(* tsk_tree_position_t                                                              *)

Inductive dir := DNone | DFwd | DRev.       (* 0 (memset) | TSK_DIR_FORWARD | TSK_DIR_REVERSE *)
Inductive ord := ONull | OIns | ORem.       (* in.order / out.order: NULL | insertion | removal *)

Record tpos := mkPos {
  p_index : Z; p_left : Z; p_right : Z; p_dir : dir;
  p_in_start : Z; p_in_stop : Z; p_in_ord : ord;
  p_out_start : Z; p_out_stop : Z; p_out_ord : ord }.

(* tsk_tree_position_init: memset 0 + set_null *)
Definition pos_init : tpos := mkPos (-1) 0 0 DNone 0 0 ONull 0 0 ONull.

Definition pos_set_null (p : tpos) : tpos :=
  mkPos (-1) 0 0 (p_dir p) (p_in_start p) (p_in_stop p) (p_in_ord p)
        (p_out_start p) (p_out_stop p) (p_out_ord p).

(* coords[order[j]] *)
Definition edge_at (ts : tseq) (order : list Z) (j : Z) : res edge :=
  do e <- get order j; get (ts_edges ts) e.

(* while (j < M && test j) j++ *)
Fixpoint scan_up (fuel : nat) (M : Z) (test : Z -> res bool) (j : Z) : res Z :=
  match fuel with
  | O => Fuel
  | S f => if j <? M then
             (do b <- test j; if b then scan_up f M test (j + 1) else Ok j)
           else Ok j
  end.

(* while (j >= 0 && test j) j-- *)
Fixpoint scan_down (fuel : nat) (test : Z -> res bool) (j : Z) : res Z :=
  match fuel with
  | O => Fuel
  | S f => if 0 <=? j then
             (do b <- test j; if b then scan_down f test (j - 1) else Ok j)
           else Ok j
  end.

Definition scan_fuel (ts : tseq) : nat := S (S (length (ts_edges ts))).

Definition test_left (ts : tseq) (order : list Z) (f : Z -> bool) (j : Z) : res bool :=
  do ed <- edge_at ts order j; Ok (f (e_left ed)).
Definition test_right (ts : tseq) (order : list Z) (f : Z -> bool) (j : Z) : res bool :=
  do ed <- edge_at ts order j; Ok (f (e_right ed)).

(* tsk_tree_position_next, trees.c l. 5191-5247; the returned bool is [p_index <> -1] *)
Definition position_next (ts : tseq) (p0 : tpos) : res tpos :=
  let M := num_edges ts in
  let p := if p_index p0 =? -1
           then mkPos (p_index p0) (p_left p0) 0 DFwd (p_in_start p0) 0 (p_in_ord p0)
                      (p_out_start p0) 0 (p_out_ord p0)
           else p0 in
  let '(lci, rci) := match p_dir p with
                     | DFwd => (p_in_stop p, p_out_stop p)
                     | _ => (p_out_stop p + 1, p_in_stop p + 1)
                     end in
  let left := p_right p in
  do jo <- scan_up (scan_fuel ts) M (test_right ts (ts_O ts) (fun r => r =? left)) rci;
  do ji <- scan_up (scan_fuel ts) M (test_left ts (ts_I ts) (fun l => l =? left)) lci;
  let index := p_index p + 1 in
  if index =? num_trees ts then
    Ok (mkPos (-1) 0 0 DFwd lci ji OIns rci jo ORem)
  else
    do r <- get (ts_bps ts) (index + 1);
    Ok (mkPos index left r DFwd lci ji OIns rci jo ORem).

(* tsk_tree_position_prev, trees.c l. 5249-5307 *)
Definition position_prev (ts : tseq) (p0 : tpos) : res tpos :=
  let M := num_edges ts in
  let p := if p_index p0 =? -1
           then mkPos (num_trees ts) (ts_L ts) (p_right p0) DRev (p_in_start p0) (M - 1) (p_in_ord p0)
                      (p_out_start p0) (M - 1) (p_out_ord p0)
           else p0 in
  let '(lci, rci) := match p_dir p with
                     | DRev => (p_out_stop p, p_in_stop p)
                     | _ => (p_in_stop p - 1, p_out_stop p - 1)
                     end in
  let right := p_left p in
  do jo <- scan_down (scan_fuel ts) (test_left ts (ts_I ts) (fun l => l =? right)) lci;
  do ji <- scan_down (scan_fuel ts) (test_right ts (ts_O ts) (fun r => r =? right)) rci;
  let index := p_index p - 1 in
  if index =? -1 then
    Ok (mkPos (-1) 0 0 DRev rci ji ORem lci jo OIns)
  else
    do l <- get (ts_bps ts) index;
    Ok (mkPos index l right DRev rci ji ORem lci jo OIns).

(* tsk_tree_position_seek_forward, trees.c l. 5309-5371 *)
Definition position_seek_forward (ts : tseq) (p0 : tpos) (index : Z) : res tpos :=
  let M := num_edges ts in
  if negb ((p_index p0 <=? index) && (index <? num_trees ts)) then Err ABORT else
  let p := if p_index p0 =? -1
           then mkPos (p_index p0) (p_left p0) 0 DFwd (p_in_start p0) 0 (p_in_ord p0)
                      (p_out_start p0) 0 (p_out_ord p0)
           else p0 in
  let '(lci, rci) := match p_dir p with
                     | DFwd => (p_in_stop p, p_out_stop p)
                     | _ => (p_out_stop p + 1, p_in_stop p + 1)
                     end in
  do left <- get (ts_bps ts) index;
  do jo <- scan_up (scan_fuel ts) M (test_right ts (ts_O ts) (fun r => r <=? left)) rci;
  let out_start := if p_index p =? -1 then jo else rci in
  do j1 <- scan_up (scan_fuel ts) M (test_right ts (ts_I ts) (fun r => r <=? left)) lci;
  do j2 <- scan_up (scan_fuel ts) M (test_left ts (ts_I ts) (fun l => l <=? left)) j1;
  do r <- get (ts_bps ts) (index + 1);
  Ok (mkPos index left r DFwd j1 j2 OIns out_start jo ORem).

(* tsk_tree_position_seek_backward, trees.c l. 5373-5437 *)
Definition position_seek_backward (ts : tseq) (p0 : tpos) (index : Z) : res tpos :=
  let M := num_edges ts in
  let p := if p_index p0 =? -1
           then mkPos (num_trees ts) (ts_L ts) (p_right p0) DRev (p_in_start p0) (M - 1) (p_in_ord p0)
                      (p_out_start p0) (M - 1) (p_out_ord p0)
           else p0 in
  if negb (index <=? p_index p) then Err ABORT else
  let '(lci, rci) := match p_dir p with
                     | DRev => (p_out_stop p, p_in_stop p)
                     | _ => (p_in_stop p - 1, p_out_stop p - 1)
                     end in
  do right <- get (ts_bps ts) (index + 1);
  do jo <- scan_down (scan_fuel ts) (test_left ts (ts_I ts) (fun l => right <=? l)) lci;
  let out_start := if p_index p =? num_trees ts then jo else lci in
  do j1 <- scan_down (scan_fuel ts) (test_left ts (ts_O ts) (fun l => right <=? l)) rci;
  do j2 <- scan_down (scan_fuel ts) (test_right ts (ts_O ts) (fun r => right <=? r)) j1;
  do l <- get (ts_bps ts) index;
  Ok (mkPos index l right DRev j1 j2 ORem out_start jo OIns).

(* ------------------------------------------------------------------------------ *)
(* tsk_tree_t (the part that navigation can change)                                 *)

Record tree := mkTree {
  t_index : Z; t_left : Z; t_right : Z;
  t_pos : tpos;
  t_parent : list Z;          (* N + 1 entries *)
  t_edge : list Z;            (* N + 1 entries *)
  t_num_edges : Z;
  t_tracked : list Z;         (* num_tracked_samples, N + 1 entries *)
  t_sites : list Z            (* self->sites[0 .. sites_length) as site ids *)
}.

Definition with_pos (t : tree) (p : tpos) : tree :=
  mkTree (t_index t) (t_left t) (t_right t) p (t_parent t) (t_edge t) (t_num_edges t)
         (t_tracked t) (t_sites t).

(* how the sample-count part of insert/remove/clear is modelled:
   [core]  not at all (tracked counts are left alone);  used by the theorems
   [full]  the ancestor walk of tsk_tree_insert_edge / tsk_tree_remove_edge and the
           partial reset of tsk_tree_clear;  used by the correspondence and by the
           refutation of history independence of tracked counts *)
Inductive counts_mode := core | full.

(* u = p; while (u != TSK_NULL) { tracked[u] += sign * delta; u = parent[u]; } *)
Fixpoint walk_up (fuel : nat) (parent tracked : list Z) (delta : Z) (u : Z) : res (list Z) :=
  match fuel with
  | O => Fuel
  | S f => if u =? TSK_NULL then Ok tracked else
           do cu <- get tracked u;
           do tr <- set tracked u (cu + delta);
           do pu <- get parent u;
           walk_up f parent tr delta pu
  end.

Definition walk_fuel (t : tree) : nat := S (S (length (t_parent t))).

(* tsk_tree_remove_edge, trees.c l. 6286-6325 (remove_branch: parent[c] = NULL) *)
Definition remove_edge (m : counts_mode) (t : tree) (p c : Z) : res tree :=
  do par <- set (t_parent t) c TSK_NULL;
  do edg <- set (t_edge t) c TSK_NULL;
  do tr <- match m with
           | core => Ok (t_tracked t)
           | full => do cc <- get (t_tracked t) c;
                     walk_up (walk_fuel t) par (t_tracked t) (- cc) p
           end;
  Ok (mkTree (t_index t) (t_left t) (t_right t) (t_pos t) par edg (t_num_edges t - 1) tr (t_sites t)).

(* tsk_tree_insert_edge, trees.c l. 6327-6366 (the walk precedes insert_branch) *)
Definition insert_edge (m : counts_mode) (t : tree) (p c e : Z) : res tree :=
  do tr <- match m with
           | core => Ok (t_tracked t)
           | full => do cc <- get (t_tracked t) c;
                     walk_up (walk_fuel t) (t_parent t) (t_tracked t) cc p
           end;
  do par <- set (t_parent t) c p;
  do edg <- set (t_edge t) c e;
  Ok (mkTree (t_index t) (t_left t) (t_right t) (t_pos t) par edg (t_num_edges t + 1) tr (t_sites t)).

(* tsk_tree_clear.  self->sites / sites_length are reset (fix 9583b70).  Tracked counts:
   first (fix fcbdf2e, only when num_edges > 0) every SAMPLE node u keeps only its own
   tracked status  num_tracked[u] - sum over its children v of num_tracked[v]  (two passes,
   the old values are read); then num_tracked_samples is zeroed for the non-sample nodes
   j < num_nodes.  The children of u are the nodes whose parent is u (their order does not
   matter for the sum). *)
Definition children_sum (parent tracked : list Z) (u : Z) : Z :=
  fold_right (fun pv acc => if fst pv =? u then snd pv + acc else acc) 0 (combine parent tracked).

Fixpoint own_tracked (parent tracked_all : list Z) (u : Z) (tr flags : list Z) : list Z :=
  match tr, flags with
  | x :: tr', fl :: flags' =>
      (if Z.odd fl then x - children_sum parent tracked_all u else x)
      :: own_tracked parent tracked_all (u + 1) tr' flags'
  | tr, [] => tr
  | [], _ => []
  end.

Definition clear_tracked (ts : tseq) (tr : list Z) : list Z :=
  let fix go (tr flags : list Z) : list Z :=
    match tr, flags with
    | x :: tr', fl :: flags' => (if Z.odd fl then x else 0) :: go tr' flags'
    | tr, [] => tr                      (* the virtual-root slot is not touched *)
    | [], _ => []
    end in go tr (ts_flags ts).

Definition tree_clear (m : counts_mode) (ts : tseq) (t : tree) : tree :=
  mkTree (-1) 0 0 (pos_set_null (t_pos t))
         (map (fun _ => TSK_NULL) (t_parent t)) (map (fun _ => TSK_NULL) (t_edge t)) 0
         (match m with
          | core => t_tracked t
          | full => clear_tracked ts
                      (if 0 <? t_num_edges t
                       then own_tracked (t_parent t) (t_tracked t) 0 (t_tracked t) (ts_flags ts)
                       else t_tracked t)
          end)
         [].

(* tsk_tree_init + tsk_tree_set_tracked_samples: a new Tree *)
Definition tree_init (ts : tseq) : tree :=
  let n := Z.to_nat (ts_N ts + 1) in
  mkTree (-1) 0 0 pos_init (repeat TSK_NULL n) (repeat TSK_NULL n) 0 (ts_tracked0 ts) [].

(* tsk_tree_update_index_and_interval, trees.c l. 6396-6409 *)
Definition update_index_and_interval (ts : tseq) (t : tree) : res tree :=
  let p := t_pos t in
  do sites <- (if 0 <? ts_nsites ts then get (ts_tree_sites ts) (p_index p) else Ok (t_sites t));
  Ok (mkTree (p_index p) (p_left p) (p_right p) p (t_parent t) (t_edge t) (t_num_edges t)
             (t_tracked t) sites).

Definition order_list (ts : tseq) (o : ord) : res (list Z) :=
  match o with OIns => Ok (ts_I ts) | ORem => Ok (ts_O ts) | ONull => OOB end.

(* for (j = start; j != stop; j += d) { e = order[j]; body(e) } *)
Fixpoint edge_loop (fuel : nat) (ts : tseq) (d : Z) (order : list Z)
         (body : tree -> Z -> edge -> res tree) (j stop : Z) (t : tree) : res tree :=
  match fuel with
  | O => Fuel
  | S f => if j =? stop then Ok t else
           do e <- get order j;
           do ed <- get (ts_edges ts) e;
           do t' <- body t e ed;
           edge_loop f ts d order body (j + d) stop t'
  end.

Definition body_remove (m : counts_mode) (t : tree) (_ : Z) (ed : edge) : res tree :=
  remove_edge m t (e_parent ed) (e_child ed).
Definition body_insert (m : counts_mode) (t : tree) (e : Z) (ed : edge) : res tree :=
  insert_edge m t (e_parent ed) (e_child ed) e.

(* the two loops shared by tsk_tree_next (d = 1) and tsk_tree_prev (d = -1) *)
Definition apply_diffs (m : counts_mode) (ts : tseq) (d : Z) (t : tree) : res tree :=
  let p := t_pos t in
  do lo <- order_list ts (p_out_ord p);
  do t1 <- edge_loop (scan_fuel ts) ts d lo (body_remove m) (p_out_start p) (p_out_stop p) t;
  do li <- order_list ts (p_in_ord p);
  edge_loop (scan_fuel ts) ts d li (body_insert m) (p_in_start p) (p_in_stop p) t1.

(* tsk_tree_next, trees.c l. 6411-6441; result = (tree, C return value) *)
Definition tree_next (m : counts_mode) (ts : tseq) (t : tree) : res (tree * Z) :=
  do p <- position_next ts (t_pos t);
  let t := with_pos t p in
  if negb (p_index p =? -1) then
    do t2 <- apply_diffs m ts 1 t;
    do t3 <- update_index_and_interval ts t2;
    Ok (t3, 1)
  else Ok (tree_clear m ts t, 0).

(* tsk_tree_prev, trees.c l. 6443-6473 *)
Definition tree_prev (m : counts_mode) (ts : tseq) (t : tree) : res (tree * Z) :=
  do p <- position_prev ts (t_pos t);
  let t := with_pos t p in
  if negb (p_index p =? -1) then
    do t2 <- apply_diffs m ts (-1) t;
    do t3 <- update_index_and_interval ts t2;
    Ok (t3, 1)
  else Ok (tree_clear m ts t, 0).

Definition tree_first (m : counts_mode) (ts : tseq) (t : tree) : res (tree * Z) :=
  tree_next m ts (tree_clear m ts t).
Definition tree_last (m : counts_mode) (ts : tseq) (t : tree) : res (tree * Z) :=
  tree_prev m ts (tree_clear m ts t).

(* tsk_search_sorted, core.c l. 847-869 *)
Fixpoint search_loop (fuel : nat) (a : list Z) (x : coord) (lower upper : Z) : res Z :=
  match fuel with
  | O => Fuel
  | S f => if 1 <? upper - lower then
             let mid := (upper + lower) / 2 in
             do am <- get a mid;
             if x_ge_z x am then search_loop f a x mid upper else search_loop f a x lower mid
           else Ok lower
  end.

Definition search_sorted (a : list Z) (x : coord) : res Z :=
  if zlen a =? 0 then Ok 0 else
  do lower <- search_loop (S (length a)) a x 0 (zlen a);
  do al <- get a lower;
  Ok (lower + (if z_lt_x al x then 1 else 0)).

(* tsk_tree_seek_from_null, trees.c l. 6481-6533 *)
Definition body_insert_if_covers_left (m : counts_mode) (a : Z) (t : tree) (e : Z) (ed : edge) : res tree :=
  if (e_left ed <=? a) && (a <? e_right ed) then insert_edge m t (e_parent ed) (e_child ed) e else Ok t.
Definition body_insert_if_covers_right (m : counts_mode) (b : Z) (t : tree) (e : Z) (ed : edge) : res tree :=
  if (b <=? e_right ed) && (e_left ed <? b) then insert_edge m t (e_parent ed) (e_child ed) e else Ok t.

Definition tree_seek_from_null (m : counts_mode) (ts : tseq) (t : tree) (x : coord) : res tree :=
  do i0 <- search_sorted (ts_bps ts) x;
  do b0 <- get (ts_bps ts) i0;
  let index := if z_gt_x b0 x then i0 - 1 else i0 in
  if x_le_half x (ts_L ts) then
    do p <- position_seek_forward ts (t_pos t) index;
    let t := with_pos t p in
    do li <- order_list ts (p_in_ord p);
    do t1 <- edge_loop (scan_fuel ts) ts 1 li (body_insert_if_covers_left m (p_left p))
                       (p_in_start p) (p_in_stop p) t;
    update_index_and_interval ts t1
  else
    do p <- position_seek_backward ts (t_pos t) index;
    let t := with_pos t p in
    do li <- order_list ts (p_in_ord p);
    do t1 <- edge_loop (scan_fuel ts) ts (-1) li (body_insert_if_covers_right m (p_right p))
                       (p_in_start p) (p_in_stop p) t;
    update_index_and_interval ts t1.

Definition in_interval (t : tree) (x : coord) : bool := z_le_x (t_left t) x && x_lt_z x (t_right t).

(* while (!tsk_tree_position_in_interval(self, x)) { ret = step(self); if (ret < 0) goto out; } *)
Fixpoint seek_loop (fuel : nat) (stepf : tree -> res (tree * Z)) (x : coord) (t : tree) : res tree :=
  match fuel with
  | O => Fuel
  | S f => if in_interval t x then Ok t else
           do '(t', _) <- stepf t;
           seek_loop f stepf x t'
  end.

(* tsk_tree_seek_linear, trees.c l. 6551-6589 *)
Definition tree_seek_linear (fuel : nat) (m : counts_mode) (ts : tseq) (t : tree) (x : coord) : res tree :=
  let L := Fin (ts_L ts) in
  let t_l := Fin (t_left t) in
  let t_r := Fin (t_right t) in
  let '(distance_left, distance_right) :=
    if x_lt_z x (t_left t)
    then (c_sub t_l x, c_add (c_sub L t_r) x)
    else (c_sub (c_add t_l L) x, c_sub x t_r) in
  if c_le distance_right distance_left
  then seek_loop fuel (tree_next m ts) x t
  else seek_loop fuel (tree_prev m ts) x t.

(* tsk_tree_seek, trees.c l. 6591-6610; [Err] = a library error code, tree untouched *)
Definition tree_seek (fuel : nat) (m : counts_mode) (ts : tseq) (t : tree) (x : coord) : res tree :=
  (* if (!(x >= 0 && x < L))   -- false for NaN too (fix eee123e) *)
  if negb (x_ge_z x 0 && x_lt_z x (ts_L ts)) then Err TSK_ERR_SEEK_OUT_OF_BOUNDS else
  if t_index t =? -1 then tree_seek_from_null m ts t x else tree_seek_linear fuel m ts t x.

(* tsk_tree_seek_index, trees.c l. 6535-6549 *)
Definition tree_seek_index (fuel : nat) (m : counts_mode) (ts : tseq) (t : tree) (i : Z) : res tree :=
  if (i <? 0) || (num_trees ts <=? i) then Err TSK_ERR_SEEK_OUT_OF_BOUNDS else
  do x <- get (ts_bps ts) i;
  tree_seek fuel m ts t (Fin x).

(* fuel handed to the linear seek by the op interpreter; [seek_fuel_sufficient] (C06/SeekProofs)
   shows that it is never exhausted for a finite position *)
Definition seek_fuel (ts : tseq) : nat := S (length (ts_bps ts)).

(* ------------------------------------------------------------------------------ *)
(* the Python API: tskit.Tree methods                                               *)

Inductive op :=
| OpFirst | OpLast | OpNext | OpPrev | OpClear
| OpSeek (x : coord) | OpSeekIndex (i : Z)
| OpCopy                       (* other := cur; cur := cur.copy()  (tree_copy) *)
| OpSwap                       (* continue with the other tree *)
| OpLLSeek (x : coord)         (* tree._ll_tree.seek(x): only the C guard of tsk_tree_seek *)
| OpLLSeekIndex (i : Z).       (* tree._ll_tree.seek_index(i): only the C guard of tsk_tree_seek_index *)

(* tsk_tree_copy (trees.c, with TSK_NO_INIT as Tree_copy in _tskitmodule.c calls it): every
   field is transferred — interval, index, sites, num_edges, the WHOLE tree_pos (index, interval,
   direction and the in / out cursor ranges with their orders: a copy continues in the edge
   indexes exactly where the original stands), and the arrays (memcpy). *)
Definition pos_copy (p : tpos) : tpos :=
  mkPos (p_index p) (p_left p) (p_right p) (p_dir p)
        (p_in_start p) (p_in_stop p) (p_in_ord p) (p_out_start p) (p_out_stop p) (p_out_ord p).
Definition tree_copy (t : tree) : tree :=
  mkTree (t_index t) (t_left t) (t_right t) (pos_copy (t_pos t))
         (t_parent t) (t_edge t) (t_num_edges t) (t_tracked t) (t_sites t).

(* what the Python call returned / raised *)
Definition RET_NONE : Z := 2.
Definition RAISE_VALUE_ERROR : Z := -1.
Definition RAISE_INDEX_ERROR : Z := -2.
Definition RAISE_LIBRARY_ERROR : Z := -3.

(* a C call whose negative return value becomes a LibraryError (tree untouched by the
   guards that produce it); OOB / Fuel / ABORT are not survivable *)
Definition lib_call (cur other : tree) (r : res tree) (ret : Z) : res ((tree * tree) * Z) :=
  match r with
  | Ok t => Ok ((t, other), ret)
  | Err c => if c =? ABORT then Err c else Ok ((cur, other), RAISE_LIBRARY_ERROR)
  | OOB => OOB
  | Fuel => Fuel
  end.

Definition py_step_fuel (fuel : nat) (m : counts_mode) (ts : tseq) (st : tree * tree) (o : op)
  : res ((tree * tree) * Z) :=
  let '(cur, other) := st in
  match o with
  | OpFirst => do '(t, _) <- tree_first m ts cur; Ok ((t, other), RET_NONE)
  | OpLast => do '(t, _) <- tree_last m ts cur; Ok ((t, other), RET_NONE)
  | OpNext => do '(t, r) <- tree_next m ts cur; Ok ((t, other), if r =? 1 then 1 else 0)
  | OpPrev => do '(t, r) <- tree_prev m ts cur; Ok ((t, other), if r =? 1 then 1 else 0)
  | OpClear => Ok ((tree_clear m ts cur, other), RET_NONE)
  | OpSeek x =>
      (* Tree.seek: if not (0 <= position < sequence_length): raise ValueError *)
      if negb (x_ge_z x 0 && x_lt_z x (ts_L ts)) then Ok (st, RAISE_VALUE_ERROR)
      else lib_call cur other (tree_seek fuel m ts cur x) RET_NONE
  | OpSeekIndex i =>
      (* Tree.seek_index: negative indexes wrap once, then IndexError *)
      let i := if i <? 0 then i + num_trees ts else i in
      if (i <? 0) || (num_trees ts <=? i) then Ok (st, RAISE_INDEX_ERROR)
      else lib_call cur other (tree_seek_index fuel m ts cur i) RET_NONE
  | OpCopy => Ok ((tree_copy cur, cur), RET_NONE)
  | OpSwap => Ok ((other, cur), RET_NONE)
  | OpLLSeek x => lib_call cur other (tree_seek fuel m ts cur x) RET_NONE
  | OpLLSeekIndex i => lib_call cur other (tree_seek_index fuel m ts cur i) RET_NONE
  end.

Definition py_step (m : counts_mode) (ts : tseq) := py_step_fuel (seek_fuel ts) m ts.

Definition init_state (ts : tseq) : tree * tree := (tree_init ts, tree_init ts).

(* final state and the list of outcomes *)
Fixpoint run_from (m : counts_mode) (ts : tseq) (st : tree * tree) (ops : list op)
  : res ((tree * tree) * list Z) :=
  match ops with
  | [] => Ok (st, [])
  | o :: ops' =>
      do '(st', r) <- py_step m ts st o;
      do '(st'', rs) <- run_from m ts st' ops';
      Ok (st'', r :: rs)
  end.

Definition run (m : counts_mode) (ts : tseq) (ops : list op) := run_from m ts (init_state ts) ops.

(* ------------------------------------------------------------------------------ *)
(* observations (correspondence with the implementation)                            *)

Definition obs_tree (t : tree) : J :=
  JL [JZ (t_index t); JZ (t_left t); JZ (t_right t); jz_list (t_parent t); jz_list (t_edge t);
      JZ (t_num_edges t); jz_list (t_tracked t); jz_list (t_sites t)].

(* after every op: [outcome; observation of the current tree; index of the other tree] *)
Fixpoint trace_from (m : counts_mode) (ts : tseq) (st : tree * tree) (ops : list op) : res (list J) :=
  match ops with
  | [] => Ok []
  | o :: ops' =>
      do '(st', r) <- py_step m ts st o;
      do rest <- trace_from m ts st' ops';
      Ok (JL [JZ r; obs_tree (fst st'); JZ (t_index (snd st'))] :: rest)
  end.

Definition trace (m : counts_mode) (ts : tseq) (ops : list op) : res (list J) :=
  trace_from m ts (init_state ts) ops.

Definition check_trace (m : counts_mode) (ts : tseq) (ops : list op) (expected : list J) : bool :=
  match trace m ts ops with
  | Ok l => J_eqb (JL l) (JL expected)
  | _ => false
  end.

(* ------------------------------------------------------------------------------ *)
(* validity of the inputs, as a boolean (evaluated on every correspondence case) and the
   specification of the tree at a position                                          *)

Definition zseq (n : Z) : list Z := map Z.of_nat (seq 0 (Z.to_nat n)).

Definition edge_ok (ts : tseq) (ed : edge) : bool :=
  (0 <=? e_left ed) && (e_left ed <? e_right ed) && (e_right ed <=? ts_L ts) &&
  (0 <=? e_child ed) && (e_child ed <? ts_N ts) && (0 <=? e_parent ed) && (e_parent ed <? ts_N ts).

Fixpoint sortedb (l : list Z) : bool :=
  match l with
  | a :: ((b :: _) as t) => (a <=? b) && sortedb t
  | _ => true
  end.

Fixpoint strictb (l : list Z) : bool :=
  match l with
  | a :: ((b :: _) as t) => (a <? b) && strictb t
  | _ => true
  end.

Definition memb (x : Z) (l : list Z) : bool := existsb (Z.eqb x) l.

(* an index order: M entries, all in [0, M), every edge id present *)
Definition order_ok (M : Z) (o : list Z) : bool :=
  (zlen o =? M) && forallb (fun e => (0 <=? e) && (e <? M)) o && forallb (fun e => memb e o) (zseq M).

Definition coords (ts : tseq) (f : edge -> Z) (o : list Z) : list Z :=
  map (fun e => match get (ts_edges ts) e with Ok ed => f ed | _ => 0 end) o.

(* two edges with the same child never overlap *)
Definition disjointb (es : list edge) : bool :=
  let fix go (l : list edge) : bool :=
    match l with
    | [] => true
    | a :: t => forallb (fun b => negb (e_child a =? e_child b) ||
                                  (e_right a <=? e_left b) || (e_right b <=? e_left a)) t && go t
    end in go es.

(* node times: one rank in [0, N) per node, parent strictly older than child on every edge;
   the tracked-count option has one entry per node + the virtual root *)
Definition tm (ts : tseq) (u : Z) : Z := match get (ts_time ts) u with Ok x => x | _ => 0 end.
Definition flagb (ts : tseq) (u : Z) : bool :=
  match get (ts_flags ts) u with Ok f => Z.odd f | _ => false end.
(* a node's own tracked status: the tree option (1 for a tracked sample) *)
Definition own0 (ts : tseq) (u : Z) : Z := match get (ts_tracked0 ts) u with Ok x => x | _ => 0 end.
Definition time_ok (ts : tseq) : bool :=
  (zlen (ts_time ts) =? ts_N ts) &&
  forallb (fun x => (0 <=? x) && (x <? ts_N ts)) (ts_time ts) &&
  forallb (fun ed => tm ts (e_child ed) <? tm ts (e_parent ed)) (ts_edges ts) &&
  (zlen (ts_tracked0 ts) =? ts_N ts + 1) &&
  (* only sample nodes can be tracked (tsk_tree_set_tracked_samples: TSK_ERR_BAD_SAMPLES) *)
  (zlen (ts_flags ts) =? ts_N ts) &&
  forallb (fun u => flagb ts u || (own0 ts u =? 0)) (zseq (ts_N ts)).

Definition valid_tsb (ts : tseq) : bool :=
  (0 <? ts_L ts) && (0 <=? ts_N ts) &&
  forallb (edge_ok ts) (ts_edges ts) &&
  order_ok (num_edges ts) (ts_I ts) && order_ok (num_edges ts) (ts_O ts) &&
  sortedb (coords ts e_left (ts_I ts)) && sortedb (coords ts e_right (ts_O ts)) &&
  disjointb (ts_edges ts) &&
  (hd 1 (ts_bps ts) =? 0) && (last (ts_bps ts) 0 =? ts_L ts) && strictb (ts_bps ts) &&
  forallb (fun ed => memb (e_left ed) (ts_bps ts) && memb (e_right ed) (ts_bps ts)) (ts_edges ts) &&
  ((ts_nsites ts <=? 0) || (zlen (ts_tree_sites ts) =? num_trees ts)) &&
  time_ok ts.

(* SPEC: the parent of node c at position x, straight from the rows *)
Definition covers (ed : edge) (x : Z) : bool := (e_left ed <=? x) && (x <? e_right ed).

Definition parent_at_node (ts : tseq) (x : Z) (c : Z) : Z :=
  match find (fun ed => covers ed x && (e_child ed =? c)) (ts_edges ts) with
  | Some ed => e_parent ed
  | None => TSK_NULL
  end.

Fixpoint find_index {A} (f : A -> bool) (l : list A) (i : Z) : Z :=
  match l with
  | [] => TSK_NULL
  | a :: t => if f a then i else find_index f t (i + 1)
  end.

Definition edge_at_node (ts : tseq) (x : Z) (c : Z) : Z :=
  find_index (fun ed => covers ed x && (e_child ed =? c)) (ts_edges ts) 0.

(* arrays of N + 1 entries (the virtual root has no parent) *)
Definition parent_at (ts : tseq) (x : Z) : list Z := map (parent_at_node ts x) (zseq (ts_N ts + 1)).
Definition edges_at (ts : tseq) (x : Z) : list Z := map (edge_at_node ts x) (zseq (ts_N ts + 1)).
(* the site list of tree k (tree_sites[k]); empty for the null tree and when there are no sites *)
Definition sites_at (ts : tseq) (k : Z) : list Z :=
  if k =? -1 then [] else
  if 0 <? ts_nsites ts then match get (ts_tree_sites ts) k with Ok s => s | _ => [] end else [].

(* number of edge rows (ids) covering x *)
Definition covb (ts : tseq) (x : Z) (e : Z) : bool :=
  match get (ts_edges ts) e with Ok ed => covers ed x | _ => false end.
Definition num_edges_at (ts : tseq) (x : Z) : Z := zlen (filter (covb ts x) (zseq (num_edges ts))).

(* the [core] machine (the one the theorems are about) agrees with the implementation on
   everything except the tracked counts, which it does not maintain *)
Definition erase_tracked (j : J) : J :=
  match j with
  | JL [r; JL [i; a; b; par; edg; ne; _; sites]; oi] => JL [r; JL [i; a; b; par; edg; ne; JL []; sites]; oi]
  | _ => j
  end.

Definition check_both (ts : tseq) (ops : list op) (expected : list J) : bool :=
  check_trace full ts ops expected &&
  match trace core ts ops with
  | Ok l => J_eqb (JL (map erase_tracked l)) (JL (map erase_tracked expected))
  | _ => false
  end.

(* ------------------------------------------------------------------------------ *)
(* derived views of (parent array, count array): what the quintuply linked arrays present,
   up to the order of children.  With every sample tracked the count array is num_samples. *)
Definition children_of (P : list Z) (n u : Z) : list Z :=
  filter (fun v => match get P v with Ok p => p =? u | _ => false end) (zseq n).
(* the children of the virtual root: parentless nodes with at least root_threshold samples *)
Definition roots_of (P C : list Z) (n thr : Z) : list Z :=
  filter (fun u => match get P u, get C u with
                   | Ok p, Ok c => (p =? TSK_NULL) && (thr <=? c)
                   | _, _ => false
                   end) (zseq n).

Definition obs_views (ts : tseq) (thr : Z) (t : tree) : J :=
  let n := ts_N ts in
  JL [jz_list (firstn (Z.to_nat n) (t_tracked t));
      JL (map (fun u => jz_list (children_of (t_parent t) n u)) (zseq n));
      jz_list (roots_of (t_parent t) (t_tracked t) n thr)].

Fixpoint views_from (ts : tseq) (thr : Z) (st : tree * tree) (ops : list op) : res (list J) :=
  match ops with
  | [] => Ok []
  | o :: ops' =>
      do '(st', _) <- py_step full ts st o;
      do rest <- views_from ts thr st' ops';
      Ok (obs_views ts thr (fst st') :: rest)
  end.

(* [ts] must carry the option "every sample is tracked": then t_tracked is num_samples *)
Definition check_views (ts : tseq) (thr : Z) (ops : list op) (expected : list J) : bool :=
  match views_from ts thr (init_state ts) ops with
  | Ok l => J_eqb (JL l) (JL expected)
  | _ => false
  end.
