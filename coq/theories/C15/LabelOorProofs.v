(* Out-of-range LABEL ranks are rejected by Tree.unrank for every n >= 2 (unbounded):
   if shape_unrank n s succeeds with a shape that has num_labellings = N, every
   label rank l >= N makes tree_unrank n s l = Err E_RANK.
   Mechanism: N = C(n, |G1|) * labellings(G1) * labellings(rest); the first group's
   combination rank l // (labellings(G1)*labellings(rest)) is then >= C(n,|G1|) and
   Combination.unrank rejects it (CombRankProofs.unrank_out_of_range). *)
From Coq Require Import List ZArith Bool Lia Arith.
From TskVerif Require Import Base.Common C15.Combination C15.Partitions C15.RankTree
  C15.CombProofs C15.CombRankProofs C15.WRProofs C15.OorProofs.
Import ListNotations.
Open Scope Z_scope.

(* ---- group_by ---- *)
Definition wf_group {A} (equal : A -> A -> bool) (g : list A) : Prop :=
  exists g0 r, g = g0 :: r /\ Forall (fun x => equal x g0 = true) r.

Lemma group_by_aux_concat {A} (equal : A -> A -> bool) : forall vals groups cur,
  concat (group_by_aux equal vals groups cur) = concat groups ++ cur ++ vals.
Proof.
  induction vals as [|x r IH]; intros groups cur; simpl.
  - destruct cur; [rewrite app_nil_r; reflexivity|].
    rewrite concat_app. simpl. rewrite !app_nil_r. reflexivity.
  - destruct cur as [|c0 cr].
    + rewrite IH. reflexivity.
    + destruct (equal x c0).
      * rewrite IH. rewrite <- !app_assoc. reflexivity.
      * rewrite IH, concat_app. simpl. rewrite app_nil_r, <- !app_assoc. reflexivity.
Qed.

Lemma group_by_aux_wf {A} (equal : A -> A -> bool) : forall vals groups cur,
  Forall (wf_group equal) groups -> (cur = [] \/ wf_group equal cur) ->
  Forall (wf_group equal) (group_by_aux equal vals groups cur).
Proof.
  induction vals as [|x r IH]; intros groups cur Hg Hc; simpl.
  - destruct cur; [exact Hg|]. apply Forall_app. split; [exact Hg|].
    constructor; [|constructor]. destruct Hc as [E|W]; [discriminate | exact W].
  - destruct cur as [|c0 cr].
    + apply IH; [exact Hg|]. right. exists x, []. split; [reflexivity | constructor].
    + destruct Hc as [E|[g0 [rr [E W]]]]; [discriminate|]. inversion E; subst g0 rr.
      destruct (equal x c0) eqn:Ex.
      * apply IH; [exact Hg|]. right. exists c0, (cr ++ [x]). split; [reflexivity|].
        apply Forall_app. split; [exact W | constructor; [exact Ex | constructor]].
      * apply IH.
        -- apply Forall_app. split; [exact Hg|]. constructor; [|constructor].
           exists c0, cr. split; [reflexivity | exact W].
        -- right. exists x, []. split; [reflexivity | constructor].
Qed.

Lemma group_by_concat {A} (l : list A) equal : concat (group_by l equal) = l.
Proof. unfold group_by. rewrite group_by_aux_concat. reflexivity. Qed.

Lemma group_by_wf {A} (l : list A) equal : Forall (wf_group equal) (group_by l equal).
Proof. unfold group_by. apply group_by_aux_wf; [constructor | left; reflexivity]. Qed.

(* ---- sizes ---- *)
Lemma zsum_app a b : zsum (a ++ b) = zsum a + zsum b.
Proof. induction a as [|x a IH]; simpl; [reflexivity | rewrite IH; lia]. Qed.

Lemma wf_same_shape_sum g g0 r :
  g = g0 :: r -> Forall (fun x => same_shape x g0 = true) r ->
  zsum (map c_nl g) = zlength g * c_nl g0.
Proof.
  intros -> W. unfold zlength. cbn [map zsum fold_right length].
  assert (E: zsum (map c_nl r) = Z.of_nat (length r) * c_nl g0).
  { induction W as [|x r Hx W IH]; [reflexivity|].
    unfold same_shape in Hx. apply andb_true_iff in Hx as [Hx _]. apply Z.eqb_eq in Hx.
    cbn [map zsum fold_right length]. unfold zsum in IH. rewrite IH, Hx. lia. }
  unfold zsum in E. rewrite E. lia.
Qed.

Lemma group_sizes_sum : forall groups sz,
  Forall (wf_group same_shape) groups -> group_sizes groups = Ok sz ->
  zsum sz = zsum (map c_nl (concat groups)).
Proof.
  induction groups as [|g r IH]; intros sz W H; simpl in H.
  - inversion H. reflexivity.
  - inversion W as [|? ? [g0 [rr [E Wg]]] Wr]; subst.
    apply bind_ok in H as [l [Hl H]]. inversion H; subst sz.
    change (concat ((g0 :: rr) :: r)) with ((g0 :: rr) ++ concat r).
    rewrite map_app, zsum_app. rewrite <- (IH l Wr Hl).
    rewrite (wf_same_shape_sum (g0 :: rr) g0 rr eq_refl Wg). reflexivity.
Qed.

(* ---- positivity ---- *)
Lemma naig_loop_pos : forall g n, 1 <= naig_loop g n.
Proof.
  induction g as [|t r IH]; intros n; simpl; [lia|].
  pose proof (comb_pos (n - 1) (c_nl t - 1)). specialize (IH (n - c_nl t)). nia.
Qed.

Lemma pow_pos_ge1 a b : 1 <= a -> 0 <= b -> 1 <= a ^ b.
Proof. intros Ha Hb. pose proof (Z.pow_le_mono_l 1 a b). rewrite Z.pow_1_l in H by lia. lia. Qed.

Lemma num_group_labellings_pos g v :
  Forall (fun c => 1 <= c_nlab c) g -> num_group_labellings g = Ok v -> 1 <= v.
Proof.
  intros F H. unfold num_group_labellings in H. destruct g as [|g0 r]; [discriminate|].
  inversion H. inversion F; subst.
  pose proof (naig_loop_pos (g0 :: r) (zsum (map c_nl (g0 :: r)))).
  unfold num_assignments_in_group.
  pose proof (pow_pos_ge1 (c_nlab g0) (zlength (g0 :: r))). unfold zlength in *. nia.
Qed.

Lemma nlgl_loop_pos : forall groups R v,
  Forall (Forall (fun c => 1 <= c_nlab c)) groups -> nlgl_loop groups R = Ok v -> 1 <= v.
Proof.
  induction groups as [|g r IH]; intros R v F H; cbn [nlgl_loop] in H.
  - inversion H. lia.
  - destruct g as [|g0 g']; [discriminate|]. inversion F; subst.
    apply bind_ok in H as [ngl [Hn H]]. apply bind_ok in H as [rest [Hr H]].
    pose proof (num_group_labellings_pos _ _ H2 Hn) as P1.
    pose proof (IH _ _ H3 Hr) as P2.
    pose proof (comb_pos R (zlength (g0 :: g') * c_nl g0)) as P3.
    set (C := comb R (zlength (g0 :: g') * c_nl g0)) in *.
    assert (E: v = C * ngl * rest) by congruence. rewrite E.
    assert (1 <= C * ngl) by nia. nia.
Qed.

Lemma Forall_concat_groups {A} (P : A -> Prop) (groups : list (list A)) :
  Forall P (concat groups) -> Forall (Forall P) groups.
Proof.
  induction groups as [|g r IH]; intros H; [constructor|].
  simpl in H. apply Forall_app in H as [H1 H2]. constructor; [exact H1 | apply IH, H2].
Qed.

Lemma node_num_labellings_pos cl v :
  Forall (fun c => 1 <= c_nlab c) cl -> node_num_labellings cl = Ok v -> 1 <= v.
Proof.
  intros F H. unfold node_num_labellings, num_list_of_group_labellings in H.
  apply bind_ok in H as [sz [_ H]].
  eapply nlgl_loop_pos; [|exact H].
  apply Forall_concat_groups. rewrite group_by_concat. exact F.
Qed.

(* ---- invariants of shapes produced by shape_unrank ---- *)
Inductive shape_ok : shape -> Prop :=
| shape_ok_intro : forall rk nl nlab ch,
    1 <= nl -> 1 <= nlab -> Forall shape_ok ch ->
    nl = node_num_leaves (map summary_s ch) ->
    node_num_labellings (map summary_s ch) = Ok nlab ->
    shape_ok (Sh rk nl nlab ch).

Lemma shape_ok_nl s : shape_ok s -> 1 <= sh_nl s.
Proof. intros H. inversion H; subst. simpl. assumption. Qed.
Lemma shape_ok_nlab s : shape_ok s -> 1 <= sh_nlab s.
Proof. intros H. inversion H; subst. simpl. assumption. Qed.

Lemma node_num_leaves_pos cl : Forall (fun c => 1 <= c_nl c) cl -> 1 <= node_num_leaves cl.
Proof.
  intros F. unfold node_num_leaves. destruct cl as [|c r]; [lia|].
  inversion F; subst. simpl.
  assert (0 <= zsum (map c_nl r)).
  { clear -H2. induction H2; simpl; lia. }
  lia.
Qed.

Lemma mk_shape_ok rk ch s :
  Forall shape_ok ch -> mk_shape rk ch = Ok s -> shape_ok s.
Proof.
  intros F H. unfold mk_shape in H. apply bind_ok in H as [nlab [Hn H]]. inversion H.
  constructor; try assumption; try reflexivity.
  - apply node_num_leaves_pos. rewrite Forall_map. eapply Forall_impl; [|exact F].
    intros a Ha. simpl. apply shape_ok_nl, Ha.
  - eapply node_num_labellings_pos; [|exact Hn]. rewrite Forall_map.
    eapply Forall_impl; [|exact F]. intros a Ha. simpl. apply shape_ok_nlab, Ha.
Qed.

Lemma rmap_Forall {A B} (f : A -> res B) (P : B -> Prop) : forall l out,
  (forall a b, In a l -> f a = Ok b -> P b) -> rmap f l = Ok out -> Forall P out.
Proof.
  induction l as [|x r IH]; intros out Hf H; simpl in H.
  - inversion H. constructor.
  - apply bind_ok in H as [y [Hy H]]. apply bind_ok in H as [ys [Hys H]]. inversion H.
    constructor; [apply (Hf x y); [left; reflexivity | exact Hy]|].
    apply IH; [|exact Hys]. intros a b Ia. apply Hf. right. exact Ia.
Qed.

Lemma rmap_length {A B} (f : A -> res B) : forall l out, rmap f l = Ok out -> length out = length l.
Proof.
  induction l as [|x r IH]; intros out H; simpl in H.
  - inversion H. reflexivity.
  - apply bind_ok in H as [y [Hy H]]. apply bind_ok in H as [ys [Hys H]]. inversion H.
    simpl. f_equal. apply IH, Hys.
Qed.

Lemma shape_unrank_ok : forall fuel n s sh, shape_unrank fuel n s = Ok sh -> shape_ok sh.
Proof.
  induction fuel as [|f IH]; intros n s sh H; [discriminate|].
  cbn [shape_unrank] in H. apply bind_ok in H as [[part crs] [Hc H]].
  apply bind_ok in H as [children [Hch H]].
  eapply mk_shape_ok; [|exact H].
  eapply rmap_Forall; [|exact Hch]. intros a b _ Hab. eapply IH. exact Hab.
Qed.

(* ---- the partition selected by children_shape_ranks has >= 2 parts when n >= 2 ---- *)
Lemma takewhile_Forall {A} (p : A -> bool) l : Forall (fun x => p x = true) (takewhile p l).
Proof.
  induction l as [|x r IH]; simpl; [constructor|].
  destruct (p x) eqn:E; constructor; assumption.
Qed.

Lemma partitions_len2 n ps : partitions n = Ok ps -> Forall (fun p => (2 <= length p)%nat) ps.
Proof.
  unfold partitions. destruct (0 <? n); [|intros H; inversion H; constructor].
  intros H. apply bind_ok in H as [l [_ H]]. inversion H.
  eapply Forall_impl; [|apply takewhile_Forall]. intros a Ha. simpl in Ha.
  apply Z.ltb_lt in Ha. lia.
Qed.

Lemma csr_find_In : forall ps r p r', csr_find ps r = Ok (Some p, r') -> In p ps.
Proof.
  induction ps as [|q ps IH]; intros r p r' H; simpl in H; [inversion H|].
  apply bind_ok in H as [np [_ H]]. destruct (r <? np).
  - inversion H. left. reflexivity.
  - right. eapply IH. exact H.
Qed.

Lemma wr_unrank_length : forall k rank n l, with_replacement_unrank rank n k = Some l -> length l = k.
Proof.
  induction k as [|k IH]; intros rank n l H; simpl in H.
  - inversion H. reflexivity.
  - destruct (wr_unrank_loop rank n (Z.of_nat k)) as [[r' i]|]; [|discriminate].
    destruct (with_replacement_unrank r' (n - i) k) eqn:E; [|discriminate].
    inversion H. simpl. rewrite map_length. f_equal. eapply IH. exact E.
Qed.

Lemma csr_unrank_groups_length : forall gs next part rank out,
  csr_unrank_groups gs next part rank = Ok out -> length out = length (concat gs).
Proof.
  induction gs as [|g r IH]; intros next part rank out H; simpl in H.
  - inversion H. reflexivity.
  - destruct g as [|k g']; [discriminate|].
    apply bind_ok in H as [a [_ H]]. apply bind_ok in H as [b [_ H]].
    apply bind_ok in H as [c [_ H]]. apply bind_ok in H as [d [Hd H]].
    apply bind_ok in H as [e [_ H]]. apply bind_ok in H as [f [Hf H]].
    inversion H. change (concat ((k :: g') :: r)) with ((k :: g') ++ concat r).
    rewrite !app_length. rewrite (IH _ _ _ _ Hf).
    unfold of_fuel in Hd. destruct (with_replacement_unrank b c (length (k :: g'))) eqn:E; [|discriminate].
    inversion Hd; subst. rewrite (wr_unrank_length _ _ _ _ E). reflexivity.
Qed.

Lemma children_shape_ranks_len n s part crs :
  2 <= n -> children_shape_ranks s n = Ok (part, crs) ->
  (2 <= length part)%nat /\ length crs = length part.
Proof.
  intros Hn H. unfold children_shape_ranks in H.
  apply bind_ok in H as [ps [Hps H]]. apply bind_ok in H as [[sel r'] [Hf H]].
  apply bind_ok in H as [p [Hp H]]. apply bind_ok in H as [cr [Hcr H]]. inversion H; subst.
  destruct sel as [q|].
  - inversion Hp; subst q. pose proof (partitions_len2 n ps Hps) as F.
    rewrite Forall_forall in F. specialize (F part (csr_find_In _ _ _ _ Hf)).
    split; [exact F|]. rewrite (csr_unrank_groups_length _ _ _ _ _ Hcr).
    unfold group_partition. rewrite group_by_concat. reflexivity.
  - replace (n =? 1) with false in Hp by (symmetry; apply Z.eqb_neq; lia). simpl in Hp. discriminate.
Qed.

(* ---- the main theorem ---- *)
Lemma children_label_ranks_oor groups l labels nlab :
  groups <> [] ->
  Forall (wf_group same_shape) groups ->
  Forall (Forall (fun c => 1 <= c_nlab c /\ 1 <= c_nl c)) groups ->
  num_list_of_group_labellings groups = Ok nlab ->
  Z.of_nat (length labels) = zsum (map c_nl (concat groups)) ->
  nlab <= l ->
  children_label_ranks groups l labels = Err E_RANK.
Proof.
  intros Hne W Pos Hn Hlen Hl.
  destruct groups as [|g rest]; [congruence|].
  unfold num_list_of_group_labellings in Hn. apply bind_ok in Hn as [sz [Hsz Hn]].
  pose proof (group_sizes_sum _ _ W Hsz) as Hsum.
  cbn [group_sizes] in Hsz. cbn [nlgl_loop] in Hn. cbn [children_label_ranks].
  destruct g as [|g0 g']; [discriminate|].
  apply bind_ok in Hsz as [sz' [Hsz' Hsz]].
  assert (Esz: sz = zlength (g0 :: g') * c_nl g0 :: sz') by congruence. subst sz. clear Hsz.
  apply bind_ok in Hn as [ngl [Hngl Hn]]. apply bind_ok in Hn as [restv [Hrest Hn]].
  assert (Enl: nlab = comb (zsum (zlength (g0 :: g') * c_nl g0 :: sz')) (zlength (g0 :: g') * c_nl g0) * ngl * restv)
    by congruence.
  subst nlab. clear Hn.
  rewrite Hngl. cbn [bind].
  unfold num_list_of_group_labellings. rewrite Hsz'. cbn [bind].
  change (zsum (zlength (g0 :: g') * c_nl g0 :: sz')) with (zlength (g0 :: g') * c_nl g0 + zsum sz') in *.
  replace (zlength (g0 :: g') * c_nl g0 + zsum sz' - zlength (g0 :: g') * c_nl g0)
    with (zsum sz') in Hrest by lia.
  rewrite Hrest. cbn [bind].
  inversion Pos as [|? ? Pg Prest]; subst.
  assert (1 <= ngl).
  { eapply num_group_labellings_pos; [|exact Hngl]. eapply Forall_impl; [|exact Pg]. intros a [Ha _]. exact Ha. }
  assert (1 <= restv).
  { eapply nlgl_loop_pos; [|exact Hrest]. eapply Forall_impl; [|exact Prest].
    intros a Fa. eapply Forall_impl; [|exact Fa]. intros b [Hb _]. exact Hb. }
  unfold zdiv at 1. replace (ngl * restv =? 0) with false by (symmetry; apply Z.eqb_neq; nia).
  cbn [bind]. unfold zmod at 1.
  replace (ngl * restv =? 0) with false by (symmetry; apply Z.eqb_neq; nia). cbn [bind].
  unfold zdiv at 1. replace (restv =? 0) with false by (symmetry; apply Z.eqb_neq; lia). cbn [bind].
  (* the combination rank is out of range *)
  set (xk := zlength (g0 :: g') * c_nl g0) in *.
  set (R := xk + zsum sz') in *.
  assert (Hxk: 1 <= xk).
  { inversion Pg as [|? ? [_ Hnl0] _]; subst. unfold xk, zlength. cbn [length]. nia. }
  assert (Hcr: comb R xk <= l / (ngl * restv)).
  { apply Z.div_le_lower_bound; [nia|]. nia. }
  replace (c_nl g0 * zlength (g0 :: g')) with xk by (unfold xk; lia).
  rewrite unrank_out_of_range; [reflexivity | lia |].
  assert (HR: Z.of_nat (length labels) = R) by (rewrite Hlen, <- Hsum; reflexivity).
  destruct (Z_le_dec xk R) as [Le|Gt].
  - replace (length labels) with (Z.to_nat R) by lia.
    pose proof (comb_binom_nat (Z.to_nat R) (Z.to_nat xk)) as B.
    rewrite !Z2Nat.id in B by lia. rewrite <- B by lia. exact Hcr.
  - rewrite binom_gt by lia. pose proof (comb_pos R xk). lia.
Qed.

Lemma label_unrank_oor sh l :
  shape_ok sh -> (2 <= length (sh_ch sh))%nat -> sh_nlab sh <= l ->
  label_unrank sh l (default_labels (sh_nl sh)) = Err E_RANK.
Proof.
  intros Hok Hlen Hl. inversion Hok as [rk nl nlab ch Hnl Hnlab Fch Enl Enlab]; subst sh.
  simpl in Hlen, Hl. cbn [label_unrank sh_nl].
  destruct ch as [|c1 ch']; [simpl in Hlen; lia|].
  set (ch := c1 :: ch') in *.
  rewrite (children_label_ranks_oor (group_by (map summary_s ch) same_shape) l
             (default_labels nl) nlab); [reflexivity | | | | exact Enlab | | exact Hl].
  - intros E. pose proof (group_by_concat (map summary_s ch) same_shape) as C.
    rewrite E in C. discriminate.
  - apply group_by_wf.
  - apply Forall_concat_groups. rewrite group_by_concat. rewrite Forall_map.
    eapply Forall_impl; [|exact Fch]. intros a Ha. simpl.
    split; [apply shape_ok_nlab | apply shape_ok_nl]; exact Ha.
  - rewrite group_by_concat. unfold default_labels. rewrite zrange_length.
    rewrite Z2Nat.id by lia. rewrite Enl. reflexivity.
Qed.

Lemma tree_unrank_label_oor n s l sh :
  2 <= n -> 0 <= s ->
  shape_unrank (S (Z.to_nat n)) n s = Ok sh -> sh_nlab sh <= l ->
  tree_unrank n s l = Err E_RANK.
Proof.
  intros Hn Hs Hsh Hl.
  pose proof (shape_unrank_ok _ _ _ _ Hsh) as Hok.
  pose proof (shape_ok_nlab _ Hok) as Hpos.
  unfold tree_unrank, rt_unrank.
  replace ((s <? 0) || (l <? 0)) with false
    by (symmetry; apply orb_false_iff; split; apply Z.ltb_ge; lia).
  rewrite Hsh. cbn [bind].
  rewrite label_unrank_oor; [reflexivity | exact Hok | | exact Hl].
  (* at least two children *)
  cbn [shape_unrank] in Hsh. apply bind_ok in Hsh as [[part crs] [Hc H]].
  apply bind_ok in H as [children [Hch H]].
  destruct (children_shape_ranks_len n s part crs Hn Hc) as [L2 Leq].
  unfold mk_shape in H. apply bind_ok in H as [nlab [_ H]]. inversion H. simpl.
  rewrite (rmap_length _ _ _ Hch), combine_length, Leq, Nat.min_id. exact L2.
Qed.

Example tree_unrank_label_oor_ex :
  num_labellings 6 17 = Ok 30 /\ tree_unrank 6 17 30 = Err E_RANK /\
  exists t, tree_unrank 6 17 29 = Ok t.
Proof. vm_compute. repeat split. eexists; reflexivity. Qed.
