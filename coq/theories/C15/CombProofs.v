From Coq Require Import List ZArith Bool Lia Arith.
From TskVerif Require Import C15.Combination.
Import ListNotations.

(* Pascal's triangle on nat: the specification of "n choose k". *)
Fixpoint binom (n k : nat) : nat :=
  match n, k with
  | _, O => 1
  | O, S _ => 0
  | S n', S k' => binom n' k' + binom n' k
  end.

Lemma binom_gt n : forall k, (n < k)%nat -> binom n k = 0%nat.
Proof.
  induction n as [|n IH]; intros [|k] H; simpl; try lia.
  rewrite !IH by lia. reflexivity.
Qed.

(* absorption identity: (k+1) * C(n+1, k+1) = (n+1) * C(n, k) *)
Lemma binom_absorb n : forall k, ((k + 1) * binom (S n) (S k) = (n + 1) * binom n k)%nat.
Proof.
  induction n as [|n IH]; intros k.
  - destruct k; simpl; lia.
  - destruct k as [|k].
    + clear IH. simpl binom at 2.
      assert (H: forall m, binom m 1 = m).
      { induction m as [|m IHm]; simpl; [reflexivity|]. destruct m; simpl in *; lia. }
      change (binom (S (S n)) 1) with (binom (S n) 0 + binom (S n) 1)%nat.
      rewrite H. simpl. lia.
    + change (binom (S (S n)) (S (S k))) with (binom (S n) (S k) + binom (S n) (S (S k)))%nat.
      pose proof (IH k) as H1. pose proof (IH (S k)) as H2.
      change (binom (S n) (S k)) with (binom n k + binom n (S k))%nat in *.
      nia.
Qed.

Open Scope Z_scope.

(* loop invariant of Combination.comb: after j iterations res = C(n-k+j, j) *)
Lemma comb_iter_binom (m : nat) : forall j : nat,
  comb_iter (Z.of_nat m + Z.of_nat j) (Z.of_nat j) 0 = 1 /\
  forall i : nat, (i <= j)%nat ->
    comb_iter (Z.of_nat m + Z.of_nat j) (Z.of_nat j) i = Z.of_nat (binom (m + i) i).
Proof.
  intros j. split; [reflexivity|].
  induction i as [|i IH]; intros Hi.
  - simpl. destruct (m + 0)%nat; reflexivity.
  - change (comb_iter (Z.of_nat m + Z.of_nat j) (Z.of_nat j) (S i)) with
      ((comb_iter (Z.of_nat m + Z.of_nat j) (Z.of_nat j) i
        * (Z.of_nat m + Z.of_nat j - Z.of_nat j + Z.of_nat (S i))) / Z.of_nat (S i)).
    rewrite IH by lia.
    replace (Z.of_nat m + Z.of_nat j - Z.of_nat j + Z.of_nat (S i)) with (Z.of_nat (m + i + 1)) by lia.
    pose proof (binom_absorb (m + i) i) as A.
    replace (m + S i)%nat with (S (m + i)) by lia.
    assert (E: Z.of_nat (binom (m + i) i) * Z.of_nat (m + i + 1)
               = Z.of_nat (binom (S (m + i)) (S i)) * Z.of_nat (S i)) by nia.
    rewrite E. apply Z.div_mul. lia.
Qed.

Lemma binom_diag m : binom m m = 1%nat.
Proof.
  induction m as [|m IH]; [reflexivity|].
  change (binom (S m) (S m)) with (binom m m + binom m (S m))%nat.
  rewrite IH, (binom_gt m (S m)) by lia. reflexivity.
Qed.

Lemma binom_sym n : forall k, (k <= n)%nat -> binom n k = binom n (n - k).
Proof.
  induction n as [|n IH]; intros k H.
  - assert (k = 0)%nat by lia. subst. reflexivity.
  - destruct k as [|k].
    + replace (S n - 0)%nat with (S n) by lia. rewrite binom_diag. reflexivity.
    + destruct (Nat.eq_dec k n) as [->|Hne].
      * replace (S n - S n)%nat with 0%nat by lia. rewrite binom_diag. reflexivity.
      * replace (S n - S k)%nat with (S (n - S k)) by lia.
        change (binom (S n) (S k)) with (binom n k + binom n (S k))%nat.
        change (binom (S n) (S (n - S k))) with (binom n (n - S k) + binom n (S (n - S k)))%nat.
        rewrite (IH k) by lia. rewrite (IH (S k)) by lia.
        replace (n - k)%nat with (S (n - S k)) by lia. lia.
Qed.

(* Combination.comb computes the binomial coefficient for 0 <= k <= n *)
Lemma comb_binom_nat (n k : nat) : (k <= n)%nat ->
  comb (Z.of_nat n) (Z.of_nat k) = Z.of_nat (binom n k).
Proof.
  intros H. unfold comb.
  destruct (Z.min_spec (Z.of_nat k) (Z.of_nat n - Z.of_nat k)) as [[Hlt ->]|[Hge ->]].
  - rewrite Nat2Z.id.
    replace (Z.of_nat n) with (Z.of_nat (n - k) + Z.of_nat k) by lia.
    destruct (comb_iter_binom (n - k) k) as [_ R]. rewrite R by lia.
    replace (n - k + k)%nat with n by lia. reflexivity.
  - replace (Z.of_nat n - Z.of_nat k) with (Z.of_nat (n - k)) by lia. rewrite Nat2Z.id.
    replace (Z.of_nat n) with (Z.of_nat k + Z.of_nat (n - k)) by lia.
    destruct (comb_iter_binom k (n - k)) as [_ R]. rewrite R by lia.
    replace (k + (n - k))%nat with n by lia. symmetry. f_equal. apply binom_sym. exact H.
Qed.

(* outside 0 <= k <= n the loop body never runs: comb returns 1 (documented quirk;
   the rank/unrank callers never reach it with k > n, see comb_unrank lemmas) *)
Lemma comb_out_of_range n k : (k < 0 \/ n < k) -> comb n k = 1.
Proof.
  intros H. unfold comb.
  assert (Z.min k (n - k) < 0) by lia.
  destruct (Z.min k (n - k)); try lia. reflexivity.
Qed.
