(* rule_asc(n) yields every ascending composition of n exactly once, in lexicographic
   order -- UNBOUNDED proof:  rule_asc n = Ok (asc_compositions n) for every n >= 1.
   Layers: (1) the array loop refines a function [next_fn] on compositions;
   (2) iterating [next_fn] from the first composition walks through the specification
   list [asc_spec]; (3) the number of turns is below the 2^(n+1) bound of [iter_pow]. *)
From Coq Require Import List ZArith Bool Lia Arith.
From TskVerif Require Import Base.Common C15.Combination C15.Partitions C15.RankTree
  C15.CombRankProofs C15.WRProofs C15.RankTreeBounded C15.OorProofs C15.PartitionProofs.
Import ListNotations.
Open Scope Z_scope.

(* ---- the fill step:  x, x, ..., x, x + rest ---- *)
Fixpoint fill (fuel : nat) (x y : Z) : list Z :=
  match fuel with
  | O => [x + y]
  | S f => if x <=? y then x :: fill f x (y - x) else [x + y]
  end.

Definition fillc (x y : Z) : list Z := fill (S (Z.to_nat y)) x y.

Lemma fill_fuel_indep x : 1 <= x -> forall f f' y,
  (Z.to_nat y < f)%nat -> (Z.to_nat y < f')%nat -> fill f x y = fill f' x y.
Proof.
  intros Hx. induction f as [|f IH]; intros f' y Hf Hf'; [lia|].
  destruct f' as [|f']; [lia|]. cbn [fill].
  destruct (Z.leb_spec x y); [|reflexivity].
  f_equal. apply IH; lia.
Qed.

Lemma fillc_unfold x y : 1 <= x ->
  fillc x y = if x <=? y then x :: fillc x (y - x) else [x + y].
Proof.
  intros Hx. unfold fillc at 1. cbn [fill]. destruct (Z.leb_spec x y); [|reflexivity].
  f_equal. apply fill_fuel_indep; lia.
Qed.

Lemma fillc_sum x : 1 <= x -> forall f y, (Z.to_nat y < f)%nat -> zsum' (fill f x y) = x + y.
Proof.
  intros Hx. induction f as [|f IH]; intros y Hf; [lia|]. cbn [fill].
  destruct (Z.leb_spec x y).
  - cbn [zsum' fold_right]. unfold zsum' in IH. rewrite IH by lia. lia.
  - simpl. lia.
Qed.

Lemma fill_nonempty f x y : fill f x y <> [].
Proof. destruct f; simpl; [discriminate|]. destruct (x <=? y); discriminate. Qed.

Lemma fill_ge x : 1 <= x -> forall f y, 0 <= y -> Forall (fun e => x <= e) (fill f x y).
Proof.
  intros Hx. induction f as [|f IH]; intros y Hy; cbn [fill].
  - constructor; [lia | constructor].
  - destruct (Z.leb_spec x y).
    + constructor; [lia|]. apply IH. lia.
    + constructor; [lia | constructor].
Qed.

(* ---- checked array writes ---- *)
Lemma set_nat_app {A} (pre : list A) v w post :
  set_nat (pre ++ v :: post) (length pre) w = Some (pre ++ w :: post).
Proof.
  induction pre as [|p pre IH]; simpl; [reflexivity|]. rewrite IH. reflexivity.
Qed.

Lemma set_app {A} (pre : list A) v w post :
  set (pre ++ v :: post) (zlen pre) w = Ok (pre ++ w :: post).
Proof.
  unfold set, zlen. destruct (Z.of_nat (length pre) <? 0) eqn:E; [apply Z.ltb_lt in E; lia|].
  rewrite Nat2Z.id, set_nat_app. reflexivity.
Qed.

Lemma get_app_mid {A} (pre : list A) v post : get (pre ++ v :: post) (zlen pre) = Ok v.
Proof.
  unfold get, zlen. destruct (Z.of_nat (length pre) <? 0) eqn:E; [apply Z.ltb_lt in E; lia|].
  rewrite Nat2Z.id, nth_error_app2 by lia. rewrite Nat.sub_diag. reflexivity.
Qed.

Lemma zlen_app {A} (a b : list A) : zlen (a ++ b) = zlen a + zlen b.
Proof. unfold zlen. rewrite app_length. lia. Qed.

(* the inner while loop followed by  a[k] = x + y  writes [fillc x y] after the prefix *)
Lemma inner_then_set x : 1 <= x -> forall fuel y pre post,
  (Z.to_nat y < fuel)%nat ->
  (length (fillc x y) <= length post)%nat ->
  exists a1 k1 y1 a2,
    asc_inner fuel (pre ++ post) (zlen pre) x y = Ok (a1, k1, y1) /\
    set a1 k1 (x + y1) = Ok a2 /\
    a2 = pre ++ fillc x y ++ skipn (length (fillc x y)) post /\
    k1 = zlen pre + Z.of_nat (length (fillc x y)) - 1.
Proof.
  intros Hx. induction fuel as [|f IH]; intros y pre post Hf Hroom; [lia|].
  cbn [asc_inner]. rewrite (fillc_unfold x y Hx) in *.
  destruct (Z.leb_spec x y) as [Hle|Hgt].
  - cbn [length] in Hroom.
    destruct post as [|p0 post']; [simpl in Hroom; lia|].
    rewrite set_app.
    destruct (IH (y - x) (pre ++ [x]) post') as [a1 [k1 [y1 [a2 [E1 [E2 [E3 E4]]]]]]];
      [lia | simpl in Hroom; lia |].
    exists a1, k1, y1, a2.
    rewrite <- app_assoc in E1. cbn [app] in E1.
    replace (zlen pre + 1) with (zlen (pre ++ [x])) by (rewrite zlen_app; reflexivity).
    split; [exact E1|]. split; [exact E2|]. split.
    + rewrite E3. rewrite <- app_assoc. reflexivity.
    + rewrite E4, zlen_app. cbn [length]. unfold zlen. simpl length. lia.
  - destruct post as [|p0 post']; [simpl in Hroom; lia|].
    exists (pre ++ p0 :: post'), (zlen pre), y, (pre ++ (x + y) :: post').
    split; [reflexivity|]. split; [apply set_app|]. split; [reflexivity|]. simpl. lia.
Qed.

(* ---- one turn of the outer loop on the list level ---- *)
Definition next_fn (p : list Z) : list Z :=
  match rev p with
  | v :: u :: rq => rev rq ++ fillc (u + 1) (v - 1)
  | _ => p
  end.

Lemma next_fn_snoc q u v : next_fn (q ++ [u; v]) = q ++ fillc (u + 1) (v - 1).
Proof.
  unfold next_fn. rewrite rev_app_distr. cbn [rev app]. rewrite rev_involutive. reflexivity.
Qed.

Lemma firstn_app_exact {A} (a b : list A) : firstn (length a) (a ++ b) = a.
Proof. rewrite firstn_app, Nat.sub_diag, firstn_all. simpl. apply app_nil_r. Qed.

Lemma zsum'_app a b : zsum' (a ++ b) = zsum' a + zsum' b.
Proof. unfold zsum'. induction a as [|x a IH]; simpl; [reflexivity | rewrite IH; lia]. Qed.

(* array invariant: the current composition is a prefix of the array *)
Lemma asc_step_refines n q u v junk acc :
  Forall (fun e => 1 <= e) q -> 0 <= u -> 1 <= v ->
  zsum' (q ++ [u; v]) = n ->
  length (q ++ [u; v] ++ junk) = S (Z.to_nat n) -> 0 <= n ->
  exists junk',
    asc_step (q ++ [u; v] ++ junk, zlen q + 1, acc) =
      Ok (inl ((q ++ fillc (u + 1) (v - 1)) ++ junk',
               zlen (q ++ fillc (u + 1) (v - 1)) - 1,
               (q ++ fillc (u + 1) (v - 1)) :: acc)) /\
    length ((q ++ fillc (u + 1) (v - 1)) ++ junk') = S (Z.to_nat n).
Proof.
  intros Fq Hu Hv Hsum Hlen Hn.
  set (x := u + 1). set (y := v - 1).
  assert (Hx: 1 <= x) by (unfold x; lia).
  assert (Hy: 0 <= y) by (unfold y; lia).
  (* room: the new composition has positive parts and sum n *)
  assert (Hs: zsum' (fillc x y) = x + y) by (apply fillc_sum; lia).
  assert (Hge: Forall (fun e => x <= e) (fillc x y)) by (apply fill_ge; assumption).
  assert (Hl1: Z.of_nat (length (fillc x y)) <= zsum' (fillc x y)).
  { clear -Hge Hx. induction Hge as [|e l He _ IH]; simpl; [lia|].
    unfold zsum' in *. lia. }
  assert (Hq1: Z.of_nat (length q) <= zsum' q).
  { clear -Fq. induction Fq as [|e l He _ IH]; simpl; [lia|]. unfold zsum' in *. lia. }
  assert (Hsq: zsum' q + u + v = n).
  { rewrite zsum'_app in Hsum. unfold zsum' in *. simpl in Hsum. lia. }
  assert (Hroom: (length (fillc x y) <= length ([u; v] ++ junk))%nat).
  { rewrite !app_length in Hlen. cbn [length] in *. rewrite app_length. cbn [length].
    unfold x, y in *. lia. }
  unfold asc_step.
  replace (zlen q + 1 =? 0) with false by (symmetry; apply Z.eqb_neq; unfold zlen; lia).
  replace (zlen q + 1 - 1) with (zlen q) by lia.
  change (q ++ [u; v] ++ junk) with (q ++ u :: (v :: junk)).
  rewrite get_app_mid. cbn [bind].
  replace (q ++ u :: v :: junk) with ((q ++ [u]) ++ v :: junk) by (rewrite <- app_assoc; reflexivity).
  replace (zlen q + 1) with (zlen (q ++ [u])) by (rewrite zlen_app; reflexivity).
  rewrite get_app_mid. cbn [bind].
  rewrite <- app_assoc. cbn [app].
  fold x. fold y.
  destruct (inner_then_set x Hx (S (Z.to_nat y)) y q (u :: v :: junk))
    as [a1 [k1 [y1 [a2 [E1 [E2 [E3 E4]]]]]]]; [lia | exact Hroom |].
  rewrite E1. cbn [bind]. rewrite E2. cbn [bind].
  exists (skipn (length (fillc x y)) (u :: v :: junk)).
  assert (Ea2: a2 = (q ++ fillc x y) ++ skipn (length (fillc x y)) (u :: v :: junk))
    by (rewrite E3, app_assoc; reflexivity).
  assert (Ek: k1 = zlen (q ++ fillc x y) - 1) by (rewrite E4, zlen_app; unfold zlen; lia).
  split.
  - f_equal. f_equal. f_equal; [f_equal; [exact Ea2 | exact Ek]|].
    f_equal. rewrite Ek. replace (zlen (q ++ fillc x y) - 1 + 1) with (zlen (q ++ fillc x y)) by lia.
    unfold zlen. rewrite Nat2Z.id. rewrite Ea2. apply firstn_app_exact.
  - rewrite app_length, app_length, skipn_length.
    rewrite !app_length in Hlen. cbn [length] in *. lia.
Qed.

(* ------------------------------------------------------------------------------
   (2) iterating next_fn walks through the specification list *)
Fixpoint nexts (cnt : nat) (p : list Z) : list (list Z) :=
  match cnt with
  | O => []
  | S c => p :: nexts c (next_fn p)
  end.

Lemma nexts_length cnt : forall p, length (nexts cnt p) = cnt.
Proof. induction cnt; intros; simpl; [reflexivity | f_equal; auto]. Qed.

(* splitting a walk: the second part starts at next_fn of the last state of the first *)
Lemma nexts_app a : forall b p, (1 <= a)%nat ->
  nexts (a + b) p = nexts a p ++ nexts b (next_fn (last (nexts a p) [])).
Proof.
  induction a as [|a IH]; intros b p Ha; [lia|].
  destruct a as [|a'].
  - simpl. reflexivity.
  - change (nexts (S (S a') + b) p) with (p :: nexts (S a' + b) (next_fn p)).
    rewrite IH by lia.
    change (nexts (S (S a')) p) with (p :: nexts (S a') (next_fn p)).
    cbn [app]. f_equal.
Qed.

Definition first_comp (m T : Z) : list Z := fillc m (T - m).

Definition blocks (f : nat) (m : Z) (c : nat) (T : Z) : list (list Z) :=
  flat_map (fun x => map (cons x) (asc_spec f x (T - x))) (zrange m c).

Lemma asc_spec_S f m T :
  asc_spec (S f) m T = blocks f m (Z.to_nat (T / 2 - m + 1)) T ++ (if m <=? T then [[T]] else []).
Proof. reflexivity. Qed.

Lemma blocks_S f m c T :
  blocks f m (S c) T = map (cons m) (asc_spec f m (T - m)) ++ blocks f (m + 1) c T.
Proof. reflexivity. Qed.

Lemma last_app_single {A} (l : list A) x d : last (l ++ [x]) d = x.
Proof. induction l as [|a l IH]; [reflexivity|]. simpl. destruct (l ++ [x]) eqn:E; [destruct l; discriminate | exact IH]. Qed.

Lemma last_map_app q (l : list (list Z)) : l <> [] -> last (map (app q) l) [] = q ++ last l [].
Proof.
  induction l as [|a l IH]; intros N; [congruence|].
  destruct l as [|b l']; [reflexivity|].
  change (map (app q) (a :: b :: l')) with ((q ++ a) :: map (app q) (b :: l')).
  change (last ((q ++ a) :: map (app q) (b :: l')) []) with (last (map (app q) (b :: l')) []).
  rewrite IH by discriminate. reflexivity.
Qed.

Definition claimA (f : nat) : Prop :=
  forall T m q, 1 <= m -> m <= T -> (Z.to_nat T <= f)%nat ->
    nexts (length (asc_spec f m T)) (q ++ first_comp m T) = map (app q) (asc_spec f m T) /\
    last (asc_spec f m T) [] = [T] /\ asc_spec f m T <> [].

Lemma div2_bounds T : 2 * (T / 2) <= T < 2 * (T / 2) + 2.
Proof. pose proof (Z.div_mod T 2). pose proof (Z.mod_pos_bound T 2). lia. Qed.

Lemma inner_claim f T : claimA f -> (Z.to_nat T <= S f)%nat ->
  forall c m q, 1 <= m -> m <= T -> Z.of_nat c = Z.max 0 (T / 2 - m + 1) ->
    nexts (length (blocks f m c T) + 1) (q ++ first_comp m T) =
      map (app q) (blocks f m c T ++ [[T]]).
Proof.
  intros IHf HT. pose proof (div2_bounds T) as D.
  induction c as [|c IHc]; intros m q Hm HmT Hc.
  - (* 2m > T: the first composition with parts >= m is [T] *)
    assert (T < 2 * m) by lia.
    unfold blocks. simpl. unfold first_comp. rewrite fillc_unfold by lia.
    replace (m <=? T - m) with false by (symmetry; apply Z.leb_gt; lia).
    replace (m + (T - m)) with T by lia. reflexivity.
  - assert (2 * m <= T) by lia.
    rewrite blocks_S, app_length, map_length.
    destruct (IHf (T - m) m (q ++ [m])) as [A1 [A2 A3]]; [lia | lia | lia |].
    assert (F1: first_comp m T = m :: first_comp m (T - m)).
    { unfold first_comp. rewrite fillc_unfold by lia.
      replace (m <=? T - m) with true by (symmetry; apply Z.leb_le; lia). reflexivity. }
    rewrite F1. replace (q ++ m :: first_comp m (T - m)) with ((q ++ [m]) ++ first_comp m (T - m))
      by (rewrite <- app_assoc; reflexivity).
    set (L1 := length (asc_spec f m (T - m))) in *.
    assert (HL1: (1 <= L1)%nat).
    { unfold L1. destruct (asc_spec f m (T - m)); [congruence | simpl; lia]. }
    replace (L1 + length (blocks f (m + 1) c T) + 1)%nat
      with (L1 + (length (blocks f (m + 1) c T) + 1))%nat by lia.
    rewrite nexts_app by exact HL1. rewrite A1.
    rewrite last_map_app by exact A3. rewrite A2.
    rewrite <- app_assoc. cbn [app].
    rewrite next_fn_snoc.
    replace (fillc (m + 1) (T - m - 1)) with (first_comp (m + 1) T)
      by (unfold first_comp; f_equal; lia).
    rewrite (IHc (m + 1) q) by lia.
    rewrite <- app_assoc. rewrite (map_app (app q) (map (cons m) (asc_spec f m (T - m)))).
    rewrite map_map. f_equal. apply map_ext. intros a. rewrite <- app_assoc. reflexivity.
Qed.

Lemma claimA_all : forall f, claimA f.
Proof.
  induction f as [|f IHf]; intros T m q Hm HmT HT; [lia|].
  rewrite asc_spec_S. replace (m <=? T) with true by (symmetry; apply Z.leb_le; lia).
  set (c := Z.to_nat (T / 2 - m + 1)).
  split; [|split].
  - rewrite app_length. cbn [length].
    apply (inner_claim f T IHf HT c m q Hm HmT). unfold c. lia.
  - apply last_app_single.
  - intros E. apply app_eq_nil in E as [_ E]. discriminate.
Qed.

(* ------------------------------------------------------------------------------
   counting: the specification list has at most 2^(T-m+1) entries *)
Lemma pow2_ge1 k : (1 <= 2 ^ k)%nat.
Proof. induction k; simpl; lia. Qed.

Lemma pow2_mono a b : (a <= b)%nat -> (2 ^ a <= 2 ^ b)%nat.
Proof. intros H. apply Nat.pow_le_mono_r; lia. Qed.

Lemma asc_spec_count : forall f m T, 1 <= m ->
  (length (asc_spec f m T) <= 2 ^ Z.to_nat (T - m + 1))%nat.
Proof.
  induction f as [|f IHf]; intros m T Hm; [simpl; apply pow2_ge1 || lia|].
  rewrite asc_spec_S, app_length.
  assert (B: forall c m', 1 <= m' ->
             (length (blocks f m' c T) + 1 <= 2 ^ Z.to_nat (T - m' + 1))%nat).
  { induction c as [|c IHc]; intros m' Hm'.
    - simpl. apply pow2_ge1.
    - rewrite blocks_S, app_length, map_length.
      specialize (IHc (m' + 1)). specialize (IHf m' (T - m') Hm').
      assert (IHc' : (length (blocks f (m' + 1) c T) + 1 <= 2 ^ Z.to_nat (T - (m' + 1) + 1))%nat)
        by (apply IHc; lia).
      replace (T - m' - m' + 1) with (T - 2 * m' + 1) in IHf by lia.
      destruct (Z_le_dec m' T) as [Le|Gt].
      + replace (Z.to_nat (T - m' + 1)) with (S (Z.to_nat (T - (m' + 1) + 1))) by lia.
        simpl Nat.pow.
        assert ((2 ^ Z.to_nat (T - 2 * m' + 1) <= 2 ^ Z.to_nat (T - (m' + 1) + 1))%nat)
          by (apply pow2_mono; lia).
        lia.
      + (* m' > T: every inner list is empty or tiny; bound by 1+1 <= 2^0 + ... *)
        replace (Z.to_nat (T - 2 * m' + 1)) with 0%nat in IHf by lia.
        replace (Z.to_nat (T - (m' + 1) + 1)) with 0%nat in IHc' by lia.
        simpl in IHf, IHc'.
        (* with T < m' the block for m' is empty: asc_spec f m' (T - m') has T-m' < 0 *)
        assert (E: asc_spec f m' (T - m') = []).
        { destruct f as [|f']; [reflexivity|]. rewrite asc_spec_S.
          replace (m' <=? T - m') with false by (symmetry; apply Z.leb_gt; lia).
          replace (Z.to_nat ((T - m') / 2 - m' + 1)) with 0%nat; [reflexivity|].
          assert ((T - m') / 2 < 0) by (apply Z.div_lt_upper_bound; lia). lia. }
        rewrite E. simpl length. replace (Z.to_nat (T - m' + 1)) with 0%nat by lia. simpl. lia. }
  specialize (B (Z.to_nat (T / 2 - m + 1)) m Hm).
  destruct (m <=? T); simpl length; lia.
Qed.

(* ------------------------------------------------------------------------------
   (3) the array loop follows the walk *)
Definition steppable (n : Z) (p : list Z) : Prop :=
  exists q u v, p = q ++ [u; v] /\ Forall (fun e => 1 <= e) q /\ 0 <= u /\ 1 <= v /\ zsum' p = n.

Lemma removelast_cons2 {A} (a b : A) l : removelast (a :: b :: l) = a :: removelast (b :: l).
Proof. reflexivity. Qed.

Lemma run_list n : 0 <= n -> forall l p junk acc fuel,
  steppable n p ->
  l = nexts (length l) (next_fn p) ->
  Forall (steppable n) (removelast l) ->
  l <> [] ->
  length (p ++ junk) = S (Z.to_nat n) ->
  exists junk',
    iter_nat asc_step (length l + fuel) (p ++ junk, zlen p - 1, acc) =
    iter_nat asc_step fuel (last l [] ++ junk', zlen (last l []) - 1, rev l ++ acc) /\
    length (last l [] ++ junk') = S (Z.to_nat n).
Proof.
  intros Hn. induction l as [|a l' IH]; intros p junk acc fuel Hp Hl Hs Hne Hlen; [congruence|].
  destruct Hp as [q [u [v [Ep [Fq [Hu [Hv Hsum]]]]]]]. subst p.
  cbn [length nexts] in Hl.
  assert (Ea: a = next_fn (q ++ [u; v])) by congruence.
  assert (El: l' = nexts (length l') (next_fn (next_fn (q ++ [u; v])))) by congruence.
  clear Hl. rewrite next_fn_snoc in Ea.
  rewrite <- app_assoc in Hlen.
  destruct (asc_step_refines n q u v junk acc Fq Hu Hv Hsum Hlen Hn) as [junk' [Estep Hlen']].
  change (length (a :: l') + fuel)%nat with (S (length l' + fuel)).
  cbn [iter_nat].
  replace (zlen (q ++ [u; v]) - 1) with (zlen q + 1) by (rewrite zlen_app; unfold zlen; simpl; lia).
  rewrite <- app_assoc. rewrite Estep. rewrite <- Ea in *.
  destruct l' as [|b l''].
  - exists junk'. split; [reflexivity | exact Hlen'].
  - rewrite removelast_cons2 in Hs.
    assert (Sa: steppable n a) by (inversion Hs; assumption).
    assert (Sl: Forall (steppable n) (removelast (b :: l''))) by (inversion Hs; assumption).
    rewrite next_fn_snoc in El. rewrite <- Ea in El.
    destruct (IH a junk' (a :: acc) fuel Sa El Sl) as [junk'' [E1 E2]]; [discriminate | exact Hlen' |].
    exists junk''. split; [|exact E2].
    rewrite E1.
    change (last (a :: b :: l'') []) with (last (b :: l'') []).
    f_equal. f_equal. cbn [rev]. rewrite <- !app_assoc. reflexivity.
Qed.

Lemma nondecr_all_ge : forall c m, nondecr_from m c -> Forall (fun e => m <= e) c.
Proof.
  induction c as [|x r IH]; intros m H; [constructor|]. destruct H as [H1 H2].
  constructor; [exact H1|]. eapply Forall_impl; [|apply IH, H2]. intros a Ha. simpl in Ha. lia.
Qed.

Lemma split_last2 {A} (l : list A) : (2 <= length l)%nat -> exists q u v, l = q ++ [u; v].
Proof.
  intros H. destruct (exists_last (l := l)) as [l1 [v E1]]; [destruct l; simpl in H; [lia | discriminate]|].
  subst l. rewrite app_length in H. simpl in H.
  destruct (exists_last (l := l1)) as [q [u E2]]; [destruct l1; simpl in H; [lia | discriminate]|].
  subst l1. exists q, u, v. rewrite <- app_assoc. reflexivity.
Qed.

Lemma blocks_steppable f T : forall c m, 1 <= m ->
  Forall (steppable T) (blocks f m c T).
Proof.
  intros c m Hm. unfold blocks. apply Forall_forall. intros p Hp.
  apply in_flat_map in Hp as [x [Hx Hp]]. apply In_zrange in Hx.
  apply in_map_iff in Hp as [c' [<- Hc']].
  destruct (asc_spec_sound f x (T - x) c') as [S1 [S2 S3]]; [lia | exact Hc' |].
  assert (L: (2 <= length (x :: c'))%nat) by (destruct c'; [congruence | simpl; lia]).
  destruct (split_last2 (x :: c') L) as [q [u [v E]]].
  exists q, u, v. split; [exact E|].
  assert (G: Forall (fun e => 1 <= e) (x :: c')).
  { constructor; [lia|]. eapply Forall_impl; [|apply nondecr_all_ge, S1]. intros a Ha. simpl in Ha. lia. }
  rewrite E in G. apply Forall_app in G as [G1 G2].
  inversion G2 as [|? ? Gu G3]; subst. inversion G3 as [|? ? Gv _]; subst.
  split; [exact G1|]. split; [lia|]. split; [lia|].
  unfold zsum' in *. simpl. lia.
Qed.

Lemma repeat_S {A} (x : A) k : repeat x (S k) = x :: repeat x k.
Proof. reflexivity. Qed.

Theorem rule_asc_complete n : 1 <= n -> rule_asc n = Ok (asc_compositions n).
Proof.
  intros Hn. unfold rule_asc, asc_init.
  (* a = [0; n; 0; ...; 0] *)
  destruct (Z.to_nat (n + 1)) as [|[|m]] eqn:Em; try lia.
  rewrite !repeat_S.
  change (0 :: 0 :: repeat 0 m) with ([0] ++ 0 :: repeat 0 m).
  change 1 with (zlen [0]) at 1. rewrite set_app. cbn [bind app].
  rewrite iter_pow_nat.
  set (l := asc_compositions n).
  unfold asc_compositions in l.
  destruct (claimA_all (Z.to_nat n) n 1 []) as [A1 [A2 A3]]; [lia | lia | lia |].
  fold l in A1, A2, A3.
  assert (Hid: forall ll : list (list Z), map (app []) ll = ll)
    by (induction ll as [|x ll IHll]; [reflexivity |
        change (map (app []) (x :: ll)) with (x :: map (app []) ll); rewrite IHll; reflexivity]).
  rewrite Hid in A1. change ([] ++ first_comp 1 n) with (first_comp 1 n) in A1.
  assert (Hrem: Forall (steppable n) (removelast l)).
  { unfold l. destruct (Z.to_nat n) as [|f] eqn:Ef; [lia|].
    rewrite asc_spec_S. replace (1 <=? n) with true by (symmetry; apply Z.leb_le; lia).
    rewrite removelast_last. apply blocks_steppable. lia. }
  assert (Hp0: steppable n [0; n]).
  { exists [], 0, n. split; [reflexivity|]. split; [constructor|]. split; [lia|]. split; [lia|]. simpl. lia. }
  assert (Hwalk: l = nexts (length l) (next_fn [0; n])).
  { change [0; n] with ([] ++ [0; n]). rewrite next_fn_snoc. cbn [app].
    replace (fillc (0 + 1) (n - 1)) with (first_comp 1 n) by reflexivity. symmetry. exact A1. }
  destruct (run_list n (ltac:(lia)) l [0; n] (repeat 0 m) [] 1 Hp0 Hwalk Hrem A3)
    as [junk' [E1 E2]].
  { cbn [app length]. rewrite repeat_length. lia. }
  cbn [app] in E1. change (zlen [0; n] - 1) with 1 in E1.
  (* the final turn sees k = 0 *)
  assert (Efin: iter_nat asc_step (length l + 1) (0 :: n :: repeat 0 m, 1, []) = Ok (inr l)).
  { rewrite E1. rewrite A2. cbn [iter_nat asc_step app].
    change (zlen [n] - 1 =? 0) with true. cbn iota. rewrite app_nil_r, rev_involutive. reflexivity. }
  rewrite (iter_nat_mono asc_step _ _ _ _ Efin); [reflexivity|].
  pose proof (asc_spec_count (Z.to_nat n) 1 n (Z.le_refl 1)) as C. fold l in C.
  replace (n - 1 + 1) with n in C by lia.
  replace (Z.to_nat n + 1)%nat with (S (Z.to_nat n)) by lia. simpl Nat.pow.
  pose proof (pow2_ge1 (Z.to_nat n)). lia.
Qed.

Corollary partitions_complete n : 1 <= n -> partitions n = Ok (removelast (asc_compositions n)).
Proof.
  intros Hn. unfold partitions. replace (0 <? n) with true by (symmetry; apply Z.ltb_lt; lia).
  rewrite rule_asc_complete by exact Hn. cbn [bind]. f_equal.
  unfold asc_compositions. destruct (Z.to_nat n) as [|f] eqn:Ef; [lia|].
  rewrite asc_spec_S. replace (1 <=? n) with true by (symmetry; apply Z.leb_le; lia).
  rewrite removelast_last.
  (* every block entry has length >= 2, [n] has length 1 *)
  assert (B: Forall (fun a => (1 <? Z.of_nat (length a)) = true)
                    (blocks f 1 (Z.to_nat (n / 2 - 1 + 1)) n)).
  { apply Forall_forall. intros p Hp. unfold blocks in Hp.
    apply in_flat_map in Hp as [x [Hx Hp]]. apply In_zrange in Hx.
    apply in_map_iff in Hp as [c' [<- Hc']].
    destruct (asc_spec_sound f x (n - x) c') as [_ [_ S3]]; [lia | exact Hc' |].
    destruct c'; [congruence|]. simpl. apply Z.ltb_lt. lia. }
  induction B as [|a r Ha _ IH]; [reflexivity|].
  simpl. simpl in Ha. rewrite Ha. f_equal. exact IH.
Qed.
