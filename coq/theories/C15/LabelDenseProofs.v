(* Density of the label ranks, UNBOUNDED: for every nice shape and every label rank in
   [0, num_labellings) label_unrank succeeds; hence RankTree.unrank(n,(s,l)) succeeds for
   every n >= 1, 0 <= s < num_shapes n, 0 <= l < num_labellings(n,s). *)
From Coq Require Import List ZArith Bool Lia Arith Permutation Sorted.
From TskVerif Require Import Base.Common C15.Combination C15.Partitions C15.RankTree
  C15.CombProofs C15.CombRankProofs C15.WRProofs C15.RankTreeBounded C15.OorProofs
  C15.PartitionProofs C15.ChildOrderProofs C15.LabelOorProofs C15.RuleAscProofs
  C15.NumShapesTotal C15.ShapeRankProofs C15.ShapeDenseProofs C15.LabelRankProofs
  C15.LabelTreeProofs.
Import ListNotations.
Open Scope Z_scope.

Lemma unrank_total_in_range {A} (els : list A) k r :
  0 <= r < Z.of_nat (binom (length els) k) -> exists c, unrank r els k = Some c.
Proof.
  intros Hr. destruct k as [|k]; [destruct els; eexists; reflexivity|].
  destruct (unrank_in_range els (S k) r ltac:(lia) Hr) as [c [Hc _]]. eauto.
Qed.

Lemma group_label_ranks_total : forall g r labels k y,
  uniform k y g -> 1 <= k -> 1 <= y -> zsorted labels ->
  Z.of_nat (length labels) = zlength g * k ->
  0 <= r < naig_loop g (zlength g * k) * y ^ zlength g ->
  exists out, group_label_ranks r g labels = Ok out.
Proof.
  induction g as [|t rest IH]; intros r labels k y U Hk Hy Hs Hlen Hr; [eexists; reflexivity|].
  pose proof (Forall_inv U) as [Hkt Hyt]. pose proof (Forall_inv_tail U) as U'. subst k y.
  set (k := c_nl t) in *. set (y := c_nlab t) in *.
  assert (Zl: zlength (t :: rest) = zlength rest + 1) by (unfold zlength; cbn [length]; lia).
  cbn [group_label_ranks]. fold k y.
  unfold num_assignments_in_group. rewrite (uniform_sum k y rest U').
  set (nra := naig_loop rest (zlength rest * k)) in *.
  set (nrl := nra * y ^ zlength rest) in *.
  pose proof (naig_loop_pos rest (zlength rest * k)) as Pnra. fold nra in Pnra.
  assert (Py: 1 <= y ^ zlength rest) by (apply pow_pos_ge1; [lia | unfold zlength; lia]).
  assert (Pnrl: 1 <= nrl) by (unfold nrl; nia).
  unfold zdiv, zmod.
  replace (y * nrl =? 0) with false by (symmetry; apply Z.eqb_neq; nia).
  replace (nrl =? 0) with false by (symmetry; apply Z.eqb_neq; lia).
  cbn [bind].
  destruct labels as [|m ltl]; [cbn [length] in Hlen; pose proof (Zlength_nonneg_c rest); nia|].
  cbn [naig_loop] in Hr. fold k in Hr.
  replace (zlength (t :: rest) * k - k) with (zlength rest * k) in Hr by lia. fold nra in Hr.
  rewrite Zl in Hr. rewrite Z.pow_add_r in Hr by (unfold zlength; lia). rewrite Z.pow_1_r in Hr.
  assert (Hlen': Z.of_nat (length ltl) = (zlength rest + 1) * k - 1) by (cbn [length] in Hlen; lia).
  set (C := comb ((zlength rest + 1) * k - 1) (k - 1)) in *.
  assert (Hcr: 0 <= r / (y * nrl) < C).
  { split; [apply Z.div_pos; nia|]. apply Z.div_lt_upper_bound; [nia|]. unfold nrl. nia. }
  assert (EC: C = Z.of_nat (binom (length ltl) (Z.to_nat (k - 1)))).
  { unfold C. rewrite <- Hlen'. rewrite <- (Z2Nat.id (k - 1)) at 1 by lia.
    apply comb_binom_nat. unfold zlength in *. nia. }
  destruct (unrank_total_in_range ltl (Z.to_nat (k - 1)) (r / (y * nrl)) ltac:(lia)) as [oth Eo].
  rewrite Eo. cbn [of_opt bind].
  destruct (unrank_subseq _ _ _ _ Eo) as [Sub Lo].
  inversion Hs as [|? ? Hs' Fm]; subst.
  pose proof (subseq_sorted _ _ Sub Hs') as So.
  assert (Stl: zsorted (m :: oth)).
  { constructor; [exact So|]. rewrite Forall_forall in *. intros x Hx. apply Fm. eapply subseq_In; eassumption. }
  assert (Subl: forall x, In x (m :: oth) -> In x (m :: ltl)).
  { intros x [->|Hx]; [left; reflexivity | right; eapply subseq_In; eassumption]. }
  pose proof (set_minus_length (m :: ltl) (m :: oth) (zsorted_NoDup _ Hs) (zsorted_NoDup _ Stl) Subl) as Lsm.
  cbn [length] in Lsm. rewrite Lo in Lsm.
  destruct (IH (r mod nrl) (set_minus (m :: ltl) (m :: oth)) k y U' Hk Hy) as [out Hout].
  { apply set_minus_sorted. exact Hs. }
  { cbn [length] in Hlen. lia. }
  { fold nra. fold nrl. apply Z.mod_pos_bound. lia. }
  rewrite Hout. cbn [bind]. eexists; reflexivity.
Qed.

Lemma children_label_ranks_total : forall gs rank labels N,
  Forall good_group gs -> zsorted labels ->
  Z.of_nat (length labels) = zsum (map c_nl (concat gs)) ->
  num_list_of_group_labellings gs = Ok N -> 0 <= rank < N ->
  exists out, children_label_ranks gs rank labels = Ok out.
Proof.
  induction gs as [|g rest IH]; intros rank labels N G Hs Hlen HN Hr; [eexists; reflexivity|].
  pose proof (Forall_inv G) as [k [y [Gne [U [Hk Hy]]]]]. pose proof (Forall_inv_tail G) as G'.
  destruct g as [|g0 g']; [congruence|]. set (g := g0 :: g') in *.
  pose proof (Forall_inv U) as [Ek Ey].
  unfold g at 1. cbn [children_label_ranks]. fold g.
  unfold num_list_of_group_labellings in HN. apply bind_ok in HN as [sz [Hsz HN]].
  cbn [group_sizes] in Hsz. fold g in Hsz. apply bind_ok in Hsz as [sz' [Hsz' Hsz]].
  assert (Esz: sz = zlength g * c_nl g0 :: sz') by congruence. subst sz.
  cbn [nlgl_loop] in HN. fold g in HN.
  apply bind_ok in HN as [ngl [Hngl HN]]. apply bind_ok in HN as [nrl [Hnrl HN]].
  change (zsum (zlength g * c_nl g0 :: sz')) with (zlength g * c_nl g0 + zsum sz') in *.
  replace (zlength g * c_nl g0 + zsum sz' - zlength g * c_nl g0) with (zsum sz') in Hnrl by lia.
  rewrite Ek in *.
  set (xk := zlength g * k) in *. set (R := xk + zsum sz') in *.
  assert (EN: N = comb R xk * ngl * nrl) by congruence. clear HN.
  destruct (good_sizes rest sz' G' Hsz') as [Ssz Psz].
  rewrite Hngl. cbn [bind].
  assert (Hnrl': num_list_of_group_labellings rest = Ok nrl)
    by (unfold num_list_of_group_labellings; rewrite Hsz'; exact Hnrl).
  rewrite Hnrl'. cbn [bind].
  assert (Pall: Forall (Forall (fun c => 1 <= c_nlab c)) (g :: rest)).
  { eapply Forall_impl; [|exact G]. intros a [k' [y' [_ [U' [_ Hy']]]]].
    eapply Forall_impl; [|exact U']. intros c [_ E]. simpl. lia. }
  pose proof (num_group_labellings_pos g ngl (Forall_inv Pall) Hngl) as Pngl.
  pose proof (nlgl_loop_pos rest (zsum sz') nrl (Forall_inv_tail Pall) Hnrl) as Pnrl.
  unfold zdiv, zmod.
  replace (ngl * nrl =? 0) with false by (symmetry; apply Z.eqb_neq; nia).
  replace (nrl =? 0) with false by (symmetry; apply Z.eqb_neq; lia).
  cbn [bind]. rewrite ?Ek. replace (k * zlength g) with xk by (unfold xk; lia).
  destruct (mixed3 rank ngl nrl ltac:(lia) ltac:(lia)) as [Er Hgr].
  assert (Hxk1: 1 <= xk) by (unfold xk, zlength, g; cbn [length]; nia).
  assert (HR: Z.of_nat (length labels) = R).
  { rewrite Hlen. cbn [concat]. rewrite map_app, zsum_app, (uniform_sum k y g U), <- Ssz. reflexivity. }
  assert (Hcr: 0 <= rank / (ngl * nrl) < comb R xk).
  { split; [apply Z.div_pos; nia|]. apply Z.div_lt_upper_bound; [nia|]. nia. }
  assert (EC: comb R xk = Z.of_nat (binom (length labels) (Z.to_nat xk))).
  { rewrite <- HR. rewrite <- (Z2Nat.id xk) at 1 by lia. apply comb_binom_nat. lia. }
  destruct (unrank_total_in_range labels (Z.to_nat xk) (rank / (ngl * nrl)) ltac:(lia)) as [gl Eg].
  rewrite Eg. cbn [of_opt bind].
  destruct (unrank_subseq _ _ _ _ Eg) as [Sub Lg].
  pose proof (subseq_sorted _ _ Sub Hs) as Sg.
  assert (Engl: ngl = naig_loop g (zlength g * k) * y ^ zlength g).
  { unfold num_group_labellings in Hngl. unfold g in Hngl at 1. fold g in Hngl.
    unfold num_assignments_in_group in Hngl. rewrite (uniform_sum k y g U), Ey in Hngl. congruence. }
  destruct (group_label_ranks_total g (rank mod (ngl * nrl) / nrl) gl k y U Hk Hy Sg) as [gout Hgout];
    [lia | rewrite <- Engl; exact Hgr |].
  rewrite Hgout. cbn [bind].
  assert (Subl: forall x, In x gl -> In x labels) by (intros x; apply subseq_In; exact Sub).
  pose proof (set_minus_length labels gl (zsorted_NoDup _ Hs) (zsorted_NoDup _ Sg) Subl) as Lsm.
  destruct (IH (rank mod nrl) (set_minus labels gl) nrl G') as [rout Hrout];
    [apply set_minus_sorted; exact Hs | lia | exact Hnrl' | apply Z.mod_pos_bound; lia |].
  rewrite Hrout. cbn [bind]. eexists; reflexivity.
Qed.

(* label_unrank accepts every label rank of the dense range *)
Definition D_label (c : shape) : Prop :=
  forall l labels, shape_nice c -> zsorted labels -> Z.of_nat (length labels) = sh_nl c ->
    0 <= l < sh_nlab c -> exists t, label_unrank c l labels = Ok t.

Lemma lu_kids_total : forall ch, Forall D_label ch -> forall rs ls,
  Forall2 (fun c r => 0 <= r < sh_nlab c) ch rs ->
  Forall2 (fun c l => zsorted l /\ Z.of_nat (length l) = sh_nl c) ch ls ->
  Forall shape_nice ch -> exists out, lu_kids ch rs ls = Ok out.
Proof.
  induction 1 as [|c ch Dc _ IH]; intros rs ls Fr Fl Fn.
  - inversion Fr; subst. inversion Fl; subst. eexists; reflexivity.
  - inversion Fr as [|? r ? rs' Hr Fr']; subst. inversion Fl as [|? l ? ls' [Hl1 Hl2] Fl']; subst.
    inversion Fn as [|? ? Nc Fn']; subst. cbn [lu_kids].
    destruct (Dc r l Nc Hl1 Hl2 Hr) as [t Ht]. rewrite Ht. cbn [bind].
    destruct (IH rs' ls' Fr' Fl' Fn') as [ts Hts]. rewrite Hts. cbn [bind]. eexists; reflexivity.
Qed.

Theorem label_unrank_dense : forall sh, D_label sh.
Proof.
  induction sh as [rk nl nlab ch IH] using shape_ind'.
  intros l labels N Hs Hlen Hl. cbn [sh_nl sh_rk sh_nlab] in *.
  revert Hlen Hl.
  inversion N as [? ? ? ? Hnl Hnlab Enl Enlab Hleaf Hcoh Fch]; subst.
  intros Hlen Hl.
  destruct ch as [|c1 ch'].
  - vm_compute in Enlab. injection Enlab as <-. cbn [map node_num_leaves] in *.
    assert (l = 0) by lia. subst l.
    destruct labels as [|l0 labels]; [simpl in Hlen; lia|].
    cbn [label_unrank]. change (negb (0 =? 0)) with false. cbn iota.
    rewrite mk_ltree_fresh_leaf. eexists; reflexivity.
  - set (ch := c1 :: ch') in *. set (cs_s := map summary_s ch) in *.
    set (gs := group_by cs_s same_shape) in *.
    unfold ch. rewrite label_unrank_node. fold ch cs_s gs.
    pose proof (group_by_concat cs_s same_shape) as Cgs. fold gs in Cgs.
    assert (Ennl: node_num_leaves cs_s = zsum (map c_nl cs_s)) by reflexivity.
    pose proof (groups_good rk _ nlab ch N) as GG. fold cs_s gs in GG.
    destruct (children_label_ranks_total gs l labels nlab GG Hs) as [[cls clrs] Hclr];
      [rewrite Cgs, <- Ennl; exact Hlen | exact Enlab | exact Hl |].
    rewrite Hclr. cbn [bind].
    destruct (children_level gs l labels cls clrs nlab GG Hs) as [CL1 [CL2 [CL3 [CL4 [CL5 [CL6 CL7]]]]]];
      [rewrite Cgs, <- Ennl; exact Hlen | exact Hclr | exact Enlab | exact Hl |].
    rewrite Cgs in CL2, CL3, CL6, CL7.
    destruct (lu_kids_total ch IH clrs cls) as [labelled Hkids].
    { unfold cs_s in CL7. apply Forall2_map_l in CL7. exact CL7. }
    { unfold cs_s in CL6. apply Forall2_map_l in CL6. cbn [c_nl summary_s] in CL6.
      clear -CL6 CL4. revert CL4. induction CL6 as [|c tl ch0 cls0 Hc _ IHF]; intros CL4; [constructor|].
      inversion CL4; subst. constructor; [split; assumption | apply IHF; assumption]. }
    { exact Fch. }
    rewrite Hkids. cbn [bind].
    (* mk_ltree_cached only needs node_num_labellings of the labelled children *)
    unfold mk_ltree_cached, node_num_labellings, num_list_of_group_labellings.
    pose proof (group_by_wf (map summary_l labelled) same_shape) as W.
    destruct (group_sizes_total _ W) as [sz Hsz]. rewrite Hsz. cbn [bind].
    destruct (nlgl_loop_total _ W (zsum sz)) as [v Hv]. rewrite Hv. cbn [bind].
    eexists; reflexivity.
Qed.

(* RankTree.unrank accepts exactly the dense ranges, for every n >= 1 *)
Theorem rt_unrank_dense n nS s l sh :
  1 <= n -> num_shapes n = Ok nS -> 0 <= s < nS ->
  shape_unrank (S (Z.to_nat n)) n s = Ok sh -> 0 <= l < sh_nlab sh ->
  exists t, rt_unrank n s l = Ok t.
Proof.
  intros Hn HS Hs Hsh Hl. unfold rt_unrank.
  replace ((s <? 0) || (l <? 0)) with false
    by (symmetry; apply orb_false_iff; split; apply Z.ltb_ge; lia).
  rewrite Hsh. cbn [bind].
  destruct (shape_unrank_consistent _ n s sh Hn (proj1 Hs) Hsh) as [_ [Hnl _]].
  apply (label_unrank_dense sh l (default_labels (sh_nl sh))).
  - eapply shape_unrank_nice; [exact Hn | | exact Hsh]. lia.
  - apply zrange_sorted.
  - unfold default_labels. rewrite zrange_length. lia.
  - exact Hl.
Qed.

(* Step (1) in one statement, for every n >= 1: every (s,l) of the dense ranges is accepted by
   RankTree.unrank, and the tree that comes out carries, at every node, cached shape and label
   ranks equal to the recomputed ones; at the root they are (s,l). *)
Theorem rank_unrank_on_dense_ranges n nS s :
  1 <= n -> num_shapes n = Ok nS -> 0 <= s < nS ->
  exists sh, shape_unrank (S (Z.to_nat n)) n s = Ok sh /\ shape_consistent sh /\
    forall l, 0 <= l < sh_nlab sh ->
      exists t, rt_unrank n s l = Ok t /\ label_consistent t /\
                summary_l t = mkcs n s (sh_nlab sh) l (default_labels n).
Proof.
  intros Hn HS Hs.
  destruct (shape_unrank_dense (S (Z.to_nat n)) n nS s Hn ltac:(lia) HS Hs) as [sh Hsh].
  exists sh. split; [exact Hsh|].
  destruct (shape_unrank_consistent _ n s sh Hn (proj1 Hs) Hsh) as [Hc _]. split; [exact Hc|].
  intros l Hl. destruct (rt_unrank_dense n nS s l sh Hn HS Hs Hsh Hl) as [t Ht].
  exists t. split; [exact Ht|].
  destruct (rt_unrank_consistent n s l t Hn Ht) as [sh' [Hsh' [_ [LC [LS _]]]]].
  assert (sh' = sh) by congruence. subst sh'. split; assumption.
Qed.

(* Passage through a tskit Tree.  MISSING LEMMA, stated as the explicit hypothesis [Hround]:
   to_tsk_tree followed by from_tsk_tree (which re-sorts the children by canonical_order and
   recomputes both ranks) gives back the cached ranks of the RankTree that RankTree.unrank
   built -- this needs "label_unrank returns the children of every node in canonical order".
   Under it, Tree.unrank(n,(s,l)).rank() = (s,l) for every n. *)
Theorem unrank_then_rank_partial n s l p :
  1 <= n -> tree_unrank n s l = Ok p ->
  (forall t, rt_unrank n s l = Ok t ->
     exists t', from_plain (to_plain t) = Ok t' /\ lt_srk t' = lt_srk t /\ lt_lrk t' = lt_lrk t) ->
  tree_rank p = Ok (s, l).
Proof.
  intros Hn H Hround. unfold tree_unrank in H. apply bind_ok in H as [t [Ht H]].
  unfold to_tsk_tree in H. destruct (labels_are_range (lt_labels t) (lt_nl t)); [|discriminate].
  injection H as <-.
  destruct (Hround t Ht) as [t' [E [E1 E2]]].
  destruct (rt_unrank_consistent n s l t Hn Ht) as [sh [_ [_ [_ [LS _]]]]].
  unfold tree_rank. rewrite E. cbn [bind]. rewrite E1, E2.
  pose proof (f_equal c_srk LS) as A. pose proof (f_equal c_lrk LS) as B.
  cbn [c_srk c_lrk summary_l] in A, B. rewrite A, B. reflexivity.
Qed.
