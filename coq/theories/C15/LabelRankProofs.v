(* Label half of the RankTree bijection, UNBOUNDED (work in stages):
   (A) Combination.rank / unrank over an arbitrary strictly increasing element list;
   (B) one group of same-shape trees: group_label_ranks (decode) is inverted by group_rank;
   (C) one node: children_label_ranks (decode) is inverted by compute_label_rank. *)
From Coq Require Import List ZArith Bool Lia Arith Permutation Sorted.
From TskVerif Require Import Base.Common C15.Combination C15.Partitions C15.RankTree
  C15.CombProofs C15.CombRankProofs C15.WRProofs C15.RankTreeBounded C15.OorProofs
  C15.PartitionProofs C15.ChildOrderProofs C15.LabelOorProofs.
Import ListNotations.
Open Scope Z_scope.

Definition zsorted (l : list Z) : Prop := StronglySorted Z.lt l.

Lemma zsorted_NoDup l : zsorted l -> NoDup l.
Proof.
  induction 1 as [|x l S IH F]; constructor; [|exact IH].
  intros I. rewrite Forall_forall in F. specialize (F x I). lia.
Qed.

Lemma zsorted_tail x l : zsorted (x :: l) -> zsorted l.
Proof. intros H. inversion H; assumption. Qed.

(* ---- (A) naturality of unrank, and rank over arbitrary sorted elements ---- *)
Lemma unrank_map {A B} (f : A -> B) : forall (els : list A) k r,
  unrank r (map f els) k = option_map (map f) (unrank r els k).
Proof.
  induction els as [|e rest IH]; intros [|k] r; try reflexivity.
  cbn [map]. rewrite !unrank_cons, !map_length, !IH.
  destruct (r <? comb (Z.of_nat (length rest)) (Z.of_nat k)).
  - destruct (unrank r rest k); reflexivity.
  - reflexivity.
Qed.

Lemma map_nth_zrange_gen : forall (l : list Z) off,
  map (fun i => nth (Z.to_nat i - off)%nat l 0) (zrange (Z.of_nat off) (length l)) = l.
Proof.
  induction l as [|x l IH]; intros off; [reflexivity|]. cbn [length zrange map].
  rewrite Nat2Z.id, Nat.sub_diag. cbn [nth]. f_equal.
  replace (Z.of_nat off + 1) with (Z.of_nat (S off)) by lia.
  etransitivity; [|apply (IH (S off))]. apply map_ext_in. intros i Hi. apply In_zrange in Hi.
  replace (Z.to_nat i - off)%nat with (S (Z.to_nat i - S off)) by lia. reflexivity.
Qed.

Lemma map_nth_zrange (els : list Z) :
  map (fun i => nth (Z.to_nat i) els 0) (zrange 0 (length els)) = els.
Proof.
  etransitivity; [|apply (map_nth_zrange_gen els 0)]. apply map_ext. intros i.
  rewrite Nat.sub_0_r. reflexivity.
Qed.

Lemma index_of_nth : forall (els : list Z) i, NoDup els -> (i < length els)%nat ->
  index_of (nth i els 0) els = Some (Z.of_nat i).
Proof.
  induction els as [|x els IH]; intros i N Hi; [simpl in Hi; lia|].
  inversion N; subst. destruct i as [|i].
  - simpl. rewrite Z.eqb_refl. reflexivity.
  - cbn [nth index_of]. simpl in Hi.
    destruct (Z.eqb_spec (nth i els 0) x) as [E|E].
    + exfalso. apply H1. rewrite <- E. apply nth_In. lia.
    + rewrite IH by (try assumption; lia). f_equal. lia.
Qed.

Lemma indices_of_map_nth (els : list Z) : NoDup els -> forall ci,
  Forall (fun i => 0 <= i < Z.of_nat (length els)) ci ->
  indices_of (map (fun i => nth (Z.to_nat i) els 0) ci) els = Some ci.
Proof.
  intros N. induction 1 as [|i ci Hi _ IH]; [reflexivity|].
  cbn [map indices_of]. rewrite index_of_nth by (try assumption; lia). rewrite IH.
  f_equal. f_equal. lia.
Qed.

Lemma combs_zrange_upper lo cnt k c x :
  In c (combs (zrange lo cnt) k) -> In x c -> lo <= x < lo + Z.of_nat cnt.
Proof.
  intros Hc Hx. apply combs_spec in Hc as [S _].
  assert (I: In x (zrange lo cnt)).
  { clear -S Hx. induction S as [l|y c l S IH|y c l S IH].
    - destruct Hx.
    - destruct Hx as [E|Hx]; [left; exact E | right; apply IH, Hx].
    - right. apply IH, Hx. }
  apply In_zrange in I. exact I.
Qed.

Lemma comb_rank_unrank_sorted els k r c :
  zsorted els -> 0 <= r < Z.of_nat (binom (length els) k) ->
  unrank r els k = Some c -> comb_rank c els = Some r.
Proof.
  intros Hs Hr U. pose proof (zsorted_NoDup _ Hs) as N.
  rewrite <- (map_nth_zrange els) in U. rewrite unrank_map in U.
  set (n := length els) in *. set (f := fun i => nth (Z.to_nat i) els 0) in *.
  destruct (unrank r (zrange 0 n) k) as [ci|] eqn:Ui; cbn [option_map] in U; [|discriminate].
  injection U as <-. unfold comb_rank.
  destruct k as [|k].
  - assert (ci = []) by (destruct (zrange 0 n); simpl in Ui; congruence). subst ci.
    rewrite binom_0 in Hr. assert (r = 0) by lia. subst r. destruct els; reflexivity.
  - assert (Hci: In ci (combs (zrange 0 n) (S k))).
    { rewrite unrank_spec in Ui by lia. eapply nth_error_In. exact Ui. }
    unfold f. rewrite indices_of_map_nth.
    + destruct (comb_unrank_then_rank n (S k) r ci) as [R _]; [lia | lia | exact Ui | exact R].
    + exact N.
    + apply Forall_forall. intros x Hx.
      pose proof (combs_zrange_upper 0 n (S k) ci x Hci Hx). fold n. lia.
Qed.

(* the "implicit min label" of group_rank: prepending the smallest element to both the
   combination and the element list does not change the rank *)
Lemma index_of_cons_neq x m l : x <> m ->
  index_of x (m :: l) = match index_of x l with Some i => Some (i + 1) | None => None end.
Proof. intros H. cbn [index_of]. destruct (Z.eqb_spec x m); [contradiction | reflexivity]. Qed.

Lemma indices_of_cons m l : forall c, ~ In m c ->
  indices_of c (m :: l) = option_map (map (fun i => i + 1)) (indices_of c l).
Proof.
  induction c as [|x c IH]; intros H; [reflexivity|].
  cbn [indices_of]. rewrite index_of_cons_neq by (intros E; apply H; left; auto).
  rewrite IH by (intros I; apply H; right; exact I).
  destruct (index_of x l), (indices_of c l); reflexivity.
Qed.

Lemma indices_of_length : forall c els idx, indices_of c els = Some idx -> length idx = length c.
Proof.
  induction c as [|x c IH]; intros els idx H; cbn [indices_of] in H.
  - injection H as <-. reflexivity.
  - destruct (index_of x els); [|discriminate]. destruct (indices_of c els) eqn:E; [|discriminate].
    injection H as <-. simpl. f_equal. eapply IH. exact E.
Qed.

Lemma comb_rank_min m c l : ~ In m c ->
  comb_rank (m :: c) (m :: l) = comb_rank c l.
Proof.
  intros H. unfold comb_rank. cbn [indices_of index_of]. rewrite Z.eqb_refl.
  rewrite indices_of_cons by exact H.
  destruct (indices_of c l) as [idx|] eqn:E; [|reflexivity]. cbn [option_map].
  pose proof (indices_of_length _ _ _ E) as L.
  cbn [length]. set (n := length l).
  change (from_range_rank (S (S n)) (0 :: map (fun i => i + 1) idx) (Z.of_nat (S n)))
    with (let kk := Z.of_nat (length (0 :: map (fun i => i + 1) idx)) in
          if (kk =? 0) || (kk =? Z.of_nat (S n)) then Some 0
          else from_range_rank (S n) (tl (map (fun x => x - 1) (0 :: map (fun i => i + 1) idx))) (Z.of_nat (S n) - 1)).
  cbn zeta. cbn [length]. rewrite map_length.
  replace (Z.of_nat (S (length idx)) =? 0) with false by (symmetry; apply Z.eqb_neq; lia).
  cbn [orb map tl]. rewrite map_map.
  rewrite (map_ext (fun x => x + 1 - 1) (fun x => x)) by (intros; lia). rewrite map_id.
  replace (Z.of_nat (S n) - 1) with (Z.of_nat n) by lia.
  destruct (Z.eqb_spec (Z.of_nat (S (length idx))) (Z.of_nat (S n))) as [E1|E1].
  - (* k = n: both sides are rank 0 *)
    cbn [from_range_rank]. assert (length idx = n) by lia.
    replace (Z.of_nat (length idx) =? Z.of_nat n) with true by (symmetry; apply Z.eqb_eq; lia).
    rewrite orb_true_r. reflexivity.
  - reflexivity.
Qed.

(* ---- sorted label lists ---- *)
Lemma unrank_subseq {A} : forall (els : list A) k r c,
  unrank r els k = Some c -> subseq c els /\ length c = k.
Proof.
  induction els as [|e rest IH]; intros [|k] r c H.
  - injection H as <-. split; [constructor | reflexivity].
  - discriminate.
  - injection H as <-. split; [constructor | reflexivity].
  - rewrite unrank_cons in H.
    destruct (r <? comb (Z.of_nat (length rest)) (Z.of_nat k)).
    + destruct (unrank r rest k) as [c'|] eqn:E; [|discriminate]. injection H as <-.
      destruct (IH k r c' E) as [S L]. split; [constructor; exact S | simpl; congruence].
    + destruct (IH (S k) _ c H) as [S L]. split; [constructor; exact S | exact L].
Qed.

Lemma subseq_In {A} (c l : list A) x : subseq c l -> In x c -> In x l.
Proof.
  induction 1 as [l|y c l S IH|y c l S IH]; intros H.
  - destruct H.
  - destruct H as [E|H]; [left; exact E | right; apply IH, H].
  - right. apply IH, H.
Qed.

Lemma subseq_sorted c l : subseq c l -> zsorted l -> zsorted c.
Proof.
  induction 1 as [l|y c l S IH|y c l S IH]; intros H.
  - constructor.
  - inversion H; subst. constructor; [apply IH; assumption|].
    rewrite Forall_forall in *. intros x Hx. apply H3. eapply subseq_In; eassumption.
  - inversion H; subst. apply IH. assumption.
Qed.

Lemma zmem_In x l : zmem x l = true <-> In x l.
Proof.
  unfold zmem. rewrite existsb_exists. split.
  - intros [y [Hy E]]. apply Z.eqb_eq in E. subst. exact Hy.
  - intros H. exists x. split; [exact H | apply Z.eqb_refl].
Qed.

Lemma set_minus_In x a b : In x (set_minus a b) <-> In x a /\ ~ In x b.
Proof.
  unfold set_minus. rewrite filter_In. rewrite negb_true_iff.
  split; intros [H1 H2]; split; try assumption.
  - intros I. apply zmem_In in I. congruence.
  - destruct (zmem x b) eqn:E; [apply zmem_In in E; contradiction | reflexivity].
Qed.

Lemma filter_sorted (p : Z -> bool) l : zsorted l -> zsorted (filter p l).
Proof.
  induction 1 as [|x l S IH F]; simpl; [constructor|].
  destruct (p x); [|exact IH]. constructor; [exact IH|].
  rewrite Forall_forall in *. intros y Hy. apply filter_In in Hy as [Hy _]. apply F, Hy.
Qed.

Lemma set_minus_sorted a b : zsorted a -> zsorted (set_minus a b).
Proof. apply filter_sorted. Qed.

Lemma NoDup_app_intro {A} (a b : list A) :
  NoDup a -> NoDup b -> (forall x, In x a -> In x b -> False) -> NoDup (a ++ b).
Proof.
  induction 1 as [|x a Hx Na IH]; intros Nb D; [exact Nb|].
  simpl. constructor.
  - intros I. apply in_app_or in I as [I|I]; [contradiction | apply (D x); [left; reflexivity | exact I]].
  - apply IH; [exact Nb|]. intros y Ha Hb. apply (D y); [right; exact Ha | exact Hb].
Qed.

Lemma set_minus_perm a c : NoDup a -> NoDup c -> (forall x, In x c -> In x a) ->
  Permutation a (c ++ set_minus a c).
Proof.
  intros Na Nc Sub. apply NoDup_Permutation; [exact Na | |].
  - apply NoDup_app_intro; [exact Nc | apply NoDup_filter; exact Na |].
    intros x H1 H2. apply set_minus_In in H2 as [_ H2]. contradiction.
  - intros x. rewrite in_app_iff, set_minus_In. split.
    + intros H. destruct (in_dec Z.eq_dec x c); [left; assumption | right; split; assumption].
    + intros [H|[H _]]; [apply Sub, H | exact H].
Qed.

Lemma set_minus_length a c : NoDup a -> NoDup c -> (forall x, In x c -> In x a) ->
  length a = (length c + length (set_minus a c))%nat.
Proof.
  intros Na Nc Sub. rewrite (Permutation_length (set_minus_perm a c Na Nc Sub)), app_length. reflexivity.
Qed.

(* two strictly sorted lists with the same members are equal *)
Lemma zsorted_ext : forall a b, zsorted a -> zsorted b -> (forall x, In x a <-> In x b) -> a = b.
Proof.
  induction a as [|x a IH]; intros b Sa Sb E.
  - destruct b as [|y b]; [reflexivity|]. exfalso. apply (proj2 (E y)). left. reflexivity.
  - destruct b as [|y b]; [exfalso; apply (proj1 (E x)); left; reflexivity|].
    inversion Sa as [|? ? Sa' Fa]; subst. inversion Sb as [|? ? Sb' Fb]; subst.
    rewrite Forall_forall in Fa, Fb.
    assert (x = y).
    { destruct (proj1 (E x) (or_introl eq_refl)) as [Hy|Hy]; [symmetry; exact Hy|].
      destruct (proj2 (E y) (or_introl eq_refl)) as [Hx|Hx]; [exact Hx|].
      specialize (Fa y Hx). specialize (Fb x Hy). lia. }
    subst y. f_equal. apply IH; try assumption. intros z. split; intros Hz.
    + destruct (proj1 (E z) (or_intror Hz)) as [->|H]; [specialize (Fa z Hz); lia | exact H].
    + destruct (proj2 (E z) (or_intror Hz)) as [->|H]; [specialize (Fb z Hz); lia | exact H].
Qed.

(* merging sorted lists *)
Lemma merge2_In x : forall a b, In x (merge2 a b) <-> In x a \/ In x b.
Proof.
  intros a b. split.
  - intros H. apply in_app_or. eapply Permutation_in; [apply merge2_perm | exact H].
  - intros H. eapply Permutation_in; [symmetry; apply merge2_perm|]. apply in_or_app. exact H.
Qed.

Lemma merge2_sorted_le : forall a b,
  StronglySorted Z.le a -> StronglySorted Z.le b -> StronglySorted Z.le (merge2 a b).
Proof.
  induction a as [|x a IHa]; intros b Sa Sb; [exact Sb|].
  induction b as [|y b IHb]; [exact Sa|].
  inversion Sa as [|? ? Sa' Fa]; subst. inversion Sb as [|? ? Sb' Fb]; subst.
  cbn [merge2]. destruct (Z.leb_spec x y).
  - constructor; [apply IHa; assumption|].
    apply Forall_forall. intros z Hz. apply merge2_In in Hz as [Hz|Hz].
    + rewrite Forall_forall in Fa. apply Fa, Hz.
    + destruct Hz as [<-|Hz]; [lia|]. rewrite Forall_forall in Fb. specialize (Fb z Hz). lia.
  - change ((fix inner (b0 : list Z) : list Z :=
               match b0 with
               | [] => x :: a
               | y0 :: b' => if x <=? y0 then x :: merge2 a b0 else y0 :: inner b'
               end) b) with (merge2 (x :: a) b).
    constructor; [apply IHb; assumption|].
    apply Forall_forall. intros z Hz. apply merge2_In in Hz as [Hz|Hz].
    + destruct Hz as [<-|Hz]; [lia|]. rewrite Forall_forall in Fa. specialize (Fa z Hz). lia.
    + rewrite Forall_forall in Fb. apply Fb, Hz.
Qed.

Lemma sorted_le_nodup_lt l : StronglySorted Z.le l -> NoDup l -> zsorted l.
Proof.
  induction 1 as [|x l S IH F]; intros N; [constructor|]. inversion N; subst.
  constructor; [apply IH; assumption|]. rewrite Forall_forall in *. intros y Hy.
  specialize (F y Hy). assert (x <> y) by (intros ->; contradiction). lia.
Qed.

Lemma zsorted_le l : zsorted l -> StronglySorted Z.le l.
Proof.
  induction 1 as [|x l S IH F]; constructor; [exact IH|].
  eapply Forall_impl; [|exact F]. intros; simpl in *; lia.
Qed.

Lemma merge_all_sorted_le : forall ls acc,
  StronglySorted Z.le acc -> Forall (StronglySorted Z.le) ls ->
  StronglySorted Z.le (fold_left merge2 ls acc).
Proof.
  induction ls as [|l r IH]; intros acc Sa F; [exact Sa|]. inversion F; subst.
  simpl. apply IH; [apply merge2_sorted_le; assumption | assumption].
Qed.

(* merging sorted pieces that partition a sorted list gives the list back *)
Lemma merge_all_partition ls labels :
  Forall zsorted ls -> zsorted labels -> Permutation (concat ls) labels ->
  merge_all ls = labels.
Proof.
  intros F S P. apply zsorted_ext; [| exact S |].
  - apply sorted_le_nodup_lt.
    + apply merge_all_sorted_le; [constructor|]. eapply Forall_impl; [|exact F]. apply zsorted_le.
    + eapply Permutation_NoDup; [|apply zsorted_NoDup; exact S].
      symmetry. etransitivity; [apply merge_all_perm | exact P].
  - intros x. split; intros H.
    + eapply Permutation_in; [|exact H]. etransitivity; [apply merge_all_perm | exact P].
    + eapply Permutation_in; [|exact H]. symmetry. etransitivity; [apply merge_all_perm | exact P].
Qed.

(* ---- (B) one group of same-shape trees ---- *)
Fixpoint relabel (g : list cs) (tls : list (list Z)) (trs : list Z) : list cs :=
  match g, tls, trs with
  | c :: g', tl :: tls', tr :: trs' =>
      mkcs (c_nl c) (c_srk c) (c_nlab c) tr tl :: relabel g' tls' trs'
  | _, _, _ => []
  end.

Definition uniform (k y : Z) (g : list cs) : Prop := Forall (fun c => c_nl c = k /\ c_nlab c = y) g.

Lemma uniform_sum k y g : uniform k y g -> zsum (map c_nl g) = zlength g * k.
Proof.
  unfold zlength. induction 1 as [|c g [Hk _] _ IH]; [reflexivity|].
  cbn [map zsum fold_right length]. unfold zsum in IH. rewrite IH, Hk. lia.
Qed.

Lemma prod_rest_naig k y R : forall rest j, uniform k y rest ->
  prod_rest_combs R k j (length rest) = naig_loop rest (R - j * k).
Proof.
  induction rest as [|t rest IH]; intros j U; [reflexivity|].
  pose proof (Forall_inv U) as [Hk _]. pose proof (Forall_inv_tail U) as U'.
  cbn [length prod_rest_combs naig_loop]. rewrite IH by exact U'.
  rewrite Hk. f_equal; f_equal; lia.
Qed.

Lemma mixed3 r a b : 0 < a -> 0 < b ->
  r = (r / (a * b)) * (a * b) + ((r mod (a * b)) / b) * b + r mod b /\
  0 <= (r mod (a * b)) / b < a.
Proof.
  intros Ha Hb. pose proof (Z.div_mod r (a * b) ltac:(nia)) as D1.
  pose proof (Z.mod_pos_bound r (a * b) ltac:(nia)) as B1.
  set (q := r mod (a * b)) in *.
  pose proof (Z.div_mod q b ltac:(lia)) as D2.
  assert (E: q mod b = r mod b).
  { unfold q. rewrite (Z.mul_comm a b). rewrite Z.rem_mul_r by lia.
    rewrite (Z.mul_comm b (r / b mod a)). rewrite Z.mod_add by lia. apply Z.mod_mod. lia. }
  split; [lia|]. split; [apply Z.div_pos; lia | apply Z.div_lt_upper_bound; nia].
Qed.

Lemma Zlength_nonneg_c (l : list cs) : 0 <= zlength l.
Proof. unfold zlength. lia. Qed.

Lemma group_level : forall g r labels tls trs i len_g k y,
  uniform k y g -> 1 <= k -> 1 <= y -> zsorted labels ->
  Z.of_nat (length labels) = zlength g * k ->
  len_g - i = zlength g ->
  group_label_ranks r g labels = Ok (tls, trs) ->
  0 <= r < naig_loop g (zlength g * k) * y ^ zlength g ->
  group_rank_loop (relabel g tls trs) i len_g k (len_g * k) y labels = Ok r /\
  Forall zsorted tls /\ Permutation (concat tls) labels /\
  length tls = length g /\ length trs = length g /\
  Forall (fun tl => Z.of_nat (length tl) = k) tls /\ Forall (fun tr => 0 <= tr < y) trs.
Proof.
  induction g as [|t rest IH]; intros r labels tls trs i len_g k y U Hk Hy Hs Hlen Hi H Hr.
  - cbn [group_label_ranks] in H. injection H as <- <-.
    cbn [naig_loop] in Hr. unfold zlength in Hr. simpl in Hr.
    destruct labels; [|unfold zlength in Hlen; simpl in Hlen; lia].
    cbn [relabel group_rank_loop]. repeat split; try constructor. f_equal. lia.
  - pose proof (Forall_inv U) as [Hkt Hyt]. pose proof (Forall_inv_tail U) as U'. subst k y.
    set (k := c_nl t) in *. set (y := c_nlab t) in *.
    assert (Zl: zlength (t :: rest) = zlength rest + 1) by (unfold zlength; cbn [length]; lia).
    cbn [group_label_ranks] in H. fold k y in H.
    unfold num_assignments_in_group in H. rewrite (uniform_sum k y rest U') in H.
    set (nra := naig_loop rest (zlength rest * k)) in *.
    set (nrl := nra * y ^ zlength rest) in *.
    pose proof (naig_loop_pos rest (zlength rest * k)) as Pnra. fold nra in Pnra.
    assert (Py: 1 <= y ^ zlength rest) by (apply pow_pos_ge1; [lia | unfold zlength; lia]).
    assert (Pnrl: 1 <= nrl) by (unfold nrl; nia).
    unfold zdiv, zmod in H.
    replace (y * nrl =? 0) with false in H by (symmetry; apply Z.eqb_neq; nia).
    replace (nrl =? 0) with false in H by (symmetry; apply Z.eqb_neq; lia).
    cbn [bind] in H.
    destruct labels as [|m ltl]; [cbn [length] in Hlen; pose proof (Zlength_nonneg_c rest); nia|].
    apply bind_ok in H as [others [Hoth H]]. apply bind_ok in H as [[tls' trs'] [Hrest H]].
    cbn [fst snd] in H. injection H as <- <-.
    destruct (unrank (r / (y * nrl)) ltl (Z.to_nat (k - 1))) as [oth|] eqn:Eo; [|discriminate].
    cbn [of_opt] in Hoth. injection Hoth as <-.
    destruct (unrank_subseq _ _ _ _ Eo) as [Sub Lo].
    inversion Hs as [|? ? Hs' Fm]; subst.
    pose proof (subseq_sorted _ _ Sub Hs') as So.
    assert (Stl: zsorted (m :: oth)).
    { constructor; [exact So|]. rewrite Forall_forall in *. intros x Hx. apply Fm. eapply subseq_In; eassumption. }
    assert (Hm: ~ In m oth).
    { intros I. rewrite Forall_forall in Fm. specialize (Fm m (subseq_In _ _ _ Sub I)). lia. }
    (* the mixed-radix split of r *)
    destruct (mixed3 r y nrl ltac:(lia) ltac:(lia)) as [Er Htr].
    (* bound on the combination rank *)
    cbn [naig_loop] in Hr. fold k in Hr.
    replace (zlength (t :: rest) * k - k) with (zlength rest * k) in Hr by lia. fold nra in Hr.
    rewrite Zl in Hr. rewrite Z.pow_add_r in Hr by (unfold zlength; lia). rewrite Z.pow_1_r in Hr.
    assert (Hlen': Z.of_nat (length ltl) = (zlength rest + 1) * k - 1) by (cbn [length] in Hlen; lia).
    set (C := comb ((zlength rest + 1) * k - 1) (k - 1)) in *.
    assert (Hcr: 0 <= r / (y * nrl) < C).
    { split; [apply Z.div_pos; nia|]. apply Z.div_lt_upper_bound; [nia|]. unfold nrl. nia. }
    assert (EC: C = Z.of_nat (binom (length ltl) (Z.to_nat (k - 1)))).
    { unfold C. rewrite <- Hlen'. rewrite <- (Z2Nat.id (k - 1)) at 1 by lia.
      apply comb_binom_nat. unfold zlength in *. nia. }
    assert (Hcomb: comb_rank (m :: oth) (m :: ltl) = Some (r / (y * nrl))).
    { rewrite comb_rank_min by exact Hm. apply (comb_rank_unrank_sorted ltl (Z.to_nat (k - 1))); [exact Hs' | lia | exact Eo]. }
    (* the rest of the group *)
    set (labels' := set_minus (m :: ltl) (m :: oth)) in *.
    assert (Ntl: NoDup (m :: oth)) by (apply zsorted_NoDup, Stl).
    assert (Subl: forall x, In x (m :: oth) -> In x (m :: ltl)).
    { intros x [->|Hx]; [left; reflexivity | right; eapply subseq_In; eassumption]. }
    pose proof (set_minus_length (m :: ltl) (m :: oth) (zsorted_NoDup _ Hs) Ntl Subl) as Lsm.
    fold labels' in Lsm. cbn [length] in Lsm. rewrite Lo in Lsm.
    destruct (IH (r mod nrl) labels' tls' trs' (i + 1) len_g k y U' Hk Hy) as [G1 [G2 [G3 [G4 [G5 [G6 G7]]]]]].
    { apply set_minus_sorted. exact Hs. }
    { cbn [length] in Hlen. lia. }
    { lia. }
    { exact Hrest. }
    { fold nra. fold nrl. apply Z.mod_pos_bound. lia. }
    split.
    + cbn [relabel group_rank_loop c_labels c_lrk]. rewrite Hcomb. cbn [of_opt bind].
      fold labels'. rewrite G1. cbn [bind]. f_equal.
      replace (len_g - i - 1) with (zlength rest) by lia.
      replace (Z.to_nat (zlength rest)) with (length rest) by (unfold zlength; lia).
      rewrite (prod_rest_naig k y _ rest 0 U').
      replace (len_g * k - (i + 1) * k - 0 * k) with (zlength rest * k) by nia. fold nra.
      replace (len_g - i) with (zlength rest + 1) by lia.
      rewrite Z.pow_add_r by (unfold zlength; lia). rewrite Z.pow_1_r.
      unfold nrl in Er. unfold nrl. nia.
    + split; [constructor; assumption|]. split.
      { cbn [concat]. rewrite G3. symmetry. apply set_minus_perm; [apply zsorted_NoDup; exact Hs | exact Ntl | exact Subl]. }
      split; [cbn [length]; congruence|]. split; [cbn [length]; congruence|].
      split; [constructor; [cbn [length]; lia | exact G6] | constructor; [exact Htr | exact G7]].
Qed.

(* ---- (C) one node: all groups ---- *)
Fixpoint relabel_groups (gs : list (list cs)) (cls : list (list Z)) (clrs : list Z) : list (list cs) :=
  match gs with
  | [] => []
  | g :: rest =>
      relabel g (firstn (length g) cls) (firstn (length g) clrs)
      :: relabel_groups rest (skipn (length g) cls) (skipn (length g) clrs)
  end.

Lemma relabel_fields : forall g tls trs, length tls = length g -> length trs = length g ->
  map c_nl (relabel g tls trs) = map c_nl g /\ map c_nlab (relabel g tls trs) = map c_nlab g /\
  map c_labels (relabel g tls trs) = tls /\ length (relabel g tls trs) = length g /\
  (forall d, c_nl (hd d (relabel g tls trs)) = c_nl (hd d g) \/ g = []) /\
  (forall d, c_nlab (hd d (relabel g tls trs)) = c_nlab (hd d g) \/ g = []).
Proof.
  induction g as [|c g IH]; intros [|tl tls] [|tr trs] L1 L2; simpl in *; try lia.
  - repeat split; auto.
  - destruct (IH tls trs) as [A [B [C [D _]]]]; try lia.
    rewrite A, B, C, D. repeat split; auto.
Qed.

Lemma naig_loop_ext : forall g g' n, map c_nl g = map c_nl g' -> naig_loop g n = naig_loop g' n.
Proof.
  induction g as [|c g IH]; intros [|c' g'] n H; simpl in *; try discriminate; [reflexivity|].
  injection H as H1 H2. rewrite H1. f_equal. apply IH. exact H2.
Qed.

Definition same_counts (g g' : list cs) : Prop :=
  map c_nl g = map c_nl g' /\ map c_nlab g = map c_nlab g'.

Lemma same_counts_length g g' : same_counts g g' -> length g = length g'.
Proof. intros [H _]. rewrite <- (map_length c_nl g), H, map_length. reflexivity. Qed.

Lemma ngl_ext g g' : same_counts g g' -> num_group_labellings g = num_group_labellings g'.
Proof.
  intros SC. pose proof (same_counts_length g g' SC) as L. destruct SC as [H1 H2].
  unfold num_group_labellings, num_assignments_in_group, zlength.
  destruct g as [|c g], g' as [|c' g']; try discriminate; [reflexivity|].
  rewrite H1, L. rewrite (naig_loop_ext (c :: g) (c' :: g') _ H1).
  cbn [map] in H2. injection H2 as E2 _. rewrite E2. reflexivity.
Qed.

Lemma group_sizes_ext : forall gs gs', Forall2 same_counts gs gs' -> group_sizes gs = group_sizes gs'.
Proof.
  induction 1 as [|g g' r r' SC _ IH]; [reflexivity|]. cbn [group_sizes].
  pose proof (same_counts_length g g' SC) as L. destruct SC as [H1 _].
  destruct g as [|c g], g' as [|c' g']; try discriminate; [reflexivity|].
  rewrite IH. unfold zlength. rewrite L. cbn [map] in H1. injection H1 as E _. rewrite E. reflexivity.
Qed.

Lemma nlgl_loop_ext : forall gs gs', Forall2 same_counts gs gs' -> forall R,
  nlgl_loop gs R = nlgl_loop gs' R.
Proof.
  induction 1 as [|g g' r r' SC _ IH]; intros R; [reflexivity|]. cbn [nlgl_loop].
  rewrite (ngl_ext g g' SC). pose proof (same_counts_length g g' SC) as L. destruct SC as [H1 _].
  destruct g as [|c g], g' as [|c' g']; try discriminate; [reflexivity|].
  unfold zlength. rewrite L. cbn [map] in H1. injection H1 as E _. rewrite E.
  destruct (num_group_labellings (c' :: g')); try reflexivity. cbn [bind]. rewrite IH. reflexivity.
Qed.

Lemma nlgl_ext gs gs' : Forall2 same_counts gs gs' ->
  num_list_of_group_labellings gs = num_list_of_group_labellings gs'.
Proof.
  intros F. unfold num_list_of_group_labellings. rewrite (group_sizes_ext gs gs' F).
  destruct (group_sizes gs'); try reflexivity. cbn [bind]. apply nlgl_loop_ext, F.
Qed.

Definition good_group (g : list cs) : Prop :=
  exists k y, g <> [] /\ uniform k y g /\ 1 <= k /\ 1 <= y.

Lemma firstn_app_len {A} (a b : list A) : firstn (length a) (a ++ b) = a.
Proof. rewrite firstn_app, Nat.sub_diag, firstn_all. simpl. apply app_nil_r. Qed.

Lemma skipn_app_len {A} (a b : list A) : skipn (length a) (a ++ b) = b.
Proof. induction a; [reflexivity | assumption]. Qed.

Lemma relabel_groups_same : forall gs cls clrs,
  length cls = length (concat gs) -> length clrs = length (concat gs) ->
  Forall2 same_counts gs (relabel_groups gs cls clrs).
Proof.
  induction gs as [|g rest IH]; intros cls clrs L1 L2; [constructor|].
  cbn [relabel_groups concat] in *. rewrite app_length in L1, L2.
  constructor.
  - destruct (relabel_fields g (firstn (length g) cls) (firstn (length g) clrs)) as [A [B _]];
      [rewrite firstn_length; lia | rewrite firstn_length; lia |].
    split; symmetry; assumption.
  - apply IH; rewrite skipn_length; lia.
Qed.

Lemma uniform_Forall2 {B} (R : cs -> B -> Prop) (Q : B -> Prop) : forall (g : list cs) (l : list B),
  length l = length g -> Forall Q l -> Forall (fun c => forall b, Q b -> R c b) g -> Forall2 R g l.
Proof.
  induction g as [|c g IH]; intros [|b l] L FQ FR; simpl in L; try lia; [constructor|].
  inversion FQ; subst. inversion FR; subst. constructor; [auto | apply IH; [lia | assumption | assumption]].
Qed.

Lemma good_sizes : forall gs sz, Forall good_group gs -> group_sizes gs = Ok sz ->
  zsum sz = zsum (map c_nl (concat gs)) /\ 0 <= zsum sz.
Proof.
  induction gs as [|g rest IH]; intros sz G H; cbn [group_sizes] in H.
  - injection H as <-. simpl. lia.
  - pose proof (Forall_inv G) as [k [y [Gne [U [Hk Hy]]]]]. pose proof (Forall_inv_tail G) as G'.
    destruct g as [|g0 g']; [congruence|]. apply bind_ok in H as [l [Hl H]].
    assert (E: sz = zlength (g0 :: g') * c_nl g0 :: l) by congruence. subst sz.
    destruct (IH l G' Hl) as [I1 I2]. pose proof (Forall_inv U) as [Ek _].
    cbn [concat]. rewrite map_app, zsum_app, (uniform_sum k y _ U), <- I1, Ek.
    change (zsum (zlength (g0 :: g') * k :: l)) with (zlength (g0 :: g') * k + zsum l).
    unfold zlength. split; [lia | nia].
Qed.

Lemma children_level : forall gs rank labels cls clrs N,
  Forall good_group gs -> zsorted labels ->
  Z.of_nat (length labels) = zsum (map c_nl (concat gs)) ->
  children_label_ranks gs rank labels = Ok (cls, clrs) ->
  num_list_of_group_labellings gs = Ok N -> 0 <= rank < N ->
  clr_loop (relabel_groups gs cls clrs) labels = Ok rank /\
  length cls = length (concat gs) /\ length clrs = length (concat gs) /\
  Forall zsorted cls /\ Permutation (concat cls) labels /\
  Forall2 (fun c tl => Z.of_nat (length tl) = c_nl c) (concat gs) cls /\
  Forall2 (fun c tr => 0 <= tr < c_nlab c) (concat gs) clrs.
Proof.
  induction gs as [|g rest IH]; intros rank labels cls clrs N G Hs Hlen H HN Hr.
  - cbn [children_label_ranks] in H. injection H as <- <-. vm_compute in HN. injection HN as <-.
    simpl in Hlen. destruct labels; [|simpl in Hlen; lia].
    cbn [relabel_groups clr_loop concat]. repeat split; try constructor. f_equal. lia.
  - pose proof (Forall_inv G) as [k [y [Gne [U [Hk Hy]]]]]. pose proof (Forall_inv_tail G) as G'.
    destruct g as [|g0 g']; [congruence|]. set (g := g0 :: g') in *.
    pose proof (Forall_inv U) as [Ek Ey].
    cbn [children_label_ranks] in H. fold g in H.
    unfold num_list_of_group_labellings in HN. apply bind_ok in HN as [sz [Hsz HN]].
    cbn [group_sizes] in Hsz. fold g in Hsz. apply bind_ok in Hsz as [sz' [Hsz' Hsz]].
    assert (Esz: sz = zlength g * c_nl g0 :: sz') by congruence. subst sz.
    cbn [nlgl_loop] in HN. fold g in HN.
    apply bind_ok in HN as [ngl [Hngl HN]]. apply bind_ok in HN as [nrl [Hnrl HN]].
    change (zsum (zlength g * c_nl g0 :: sz')) with (zlength g * c_nl g0 + zsum sz') in *.
    replace (zlength g * c_nl g0 + zsum sz' - zlength g * c_nl g0) with (zsum sz') in Hnrl by lia.
    rewrite Ek in *.
    set (xk := zlength g * k) in *. set (R := xk + zsum sz') in *.
    assert (EN: N = comb R xk * ngl * nrl) by congruence. clear HN.
    destruct (good_sizes rest sz' G' Hsz') as [Ssz Psz].
    rewrite Hngl in H. cbn [bind] in H.
    assert (Hnrl': num_list_of_group_labellings rest = Ok nrl)
      by (unfold num_list_of_group_labellings; rewrite Hsz'; exact Hnrl).
    rewrite Hnrl' in H. cbn [bind] in H.
    assert (Pall: Forall (Forall (fun c => 1 <= c_nlab c)) (g :: rest)).
    { eapply Forall_impl; [|exact G]. intros a [k' [y' [_ [U' [_ Hy']]]]].
      eapply Forall_impl; [|exact U']. intros c [_ E]. simpl. lia. }
    pose proof (num_group_labellings_pos g ngl (Forall_inv Pall) Hngl) as Pngl.
    pose proof (nlgl_loop_pos rest (zsum sz') nrl (Forall_inv_tail Pall) Hnrl) as Pnrl.
    unfold zdiv, zmod in H.
    replace (ngl * nrl =? 0) with false in H by (symmetry; apply Z.eqb_neq; nia).
    replace (nrl =? 0) with false in H by (symmetry; apply Z.eqb_neq; lia).
    cbn [bind] in H.
    apply bind_ok in H as [g_labels [Hgl H]]. apply bind_ok in H as [[tls trs] [Hgrp H]].
    apply bind_ok in H as [[cls' clrs'] [Hrest H]]. cbn [fst snd] in H. injection H as <- <-.
    rewrite ?Ek in Hgl. replace (k * zlength g) with xk in Hgl by (unfold xk; lia).
    destruct (unrank (rank / (ngl * nrl)) labels (Z.to_nat xk)) as [gl|] eqn:Eg; [|discriminate].
    cbn [of_opt] in Hgl. injection Hgl as <-.
    destruct (mixed3 rank ngl nrl ltac:(lia) ltac:(lia)) as [Er Hgr].
    destruct (unrank_subseq _ _ _ _ Eg) as [Sub Lg].
    pose proof (subseq_sorted _ _ Sub Hs) as Sg.
    assert (Hxk1: 1 <= xk) by (unfold xk, zlength, g; cbn [length]; nia).
    assert (HR: Z.of_nat (length labels) = R).
    { rewrite Hlen. cbn [concat]. rewrite map_app, zsum_app, (uniform_sum k y g U), <- Ssz. reflexivity. }
    (* the combination rank of the group's labels *)
    assert (Hcr: 0 <= rank / (ngl * nrl) < comb R xk).
    { split; [apply Z.div_pos; nia|]. apply Z.div_lt_upper_bound; [nia|]. nia. }
    assert (EC: comb R xk = Z.of_nat (binom (length labels) (Z.to_nat xk))).
    { rewrite <- HR. rewrite <- (Z2Nat.id xk) at 1 by lia. apply comb_binom_nat. lia. }
    assert (Hcomb: comb_rank gl labels = Some (rank / (ngl * nrl))).
    { apply (comb_rank_unrank_sorted labels (Z.to_nat xk)); [exact Hs | lia | exact Eg]. }
    (* the group *)
    assert (Engl: ngl = naig_loop g (zlength g * k) * y ^ zlength g).
    { unfold num_group_labellings in Hngl. unfold g in Hngl at 1. fold g in Hngl.
      unfold num_assignments_in_group in Hngl. rewrite (uniform_sum k y g U), Ey in Hngl. congruence. }
    destruct (group_level g (rank mod (ngl * nrl) / nrl) gl tls trs 0 (zlength g) k y U Hk Hy Sg)
      as [GL1 [GL2 [GL3 [GL4 [GL5 [GL6 GL7]]]]]]; [lia | lia | exact Hgrp | rewrite <- Engl; exact Hgr |].
    (* the remaining groups *)
    assert (Subl: forall x, In x gl -> In x labels) by (intros x; apply subseq_In; exact Sub).
    pose proof (set_minus_length labels gl (zsorted_NoDup _ Hs) (zsorted_NoDup _ Sg) Subl) as Lsm.
    destruct (IH (rank mod nrl) (set_minus labels gl) cls' clrs' nrl G')
      as [I1 [I2 [I3 [I4 [I5 [I6 I7]]]]]];
      [apply set_minus_sorted; exact Hs | lia | exact Hrest | exact Hnrl' | apply Z.mod_pos_bound; lia |].
    (* assemble *)
    assert (Ef1: firstn (length g) (tls ++ cls') = tls) by (rewrite <- GL4; apply firstn_app_len).
    assert (Ef2: firstn (length g) (trs ++ clrs') = trs) by (rewrite <- GL5; apply firstn_app_len).
    assert (Es1: skipn (length g) (tls ++ cls') = cls') by (rewrite <- GL4; apply skipn_app_len).
    assert (Es2: skipn (length g) (trs ++ clrs') = clrs') by (rewrite <- GL5; apply skipn_app_len).
    destruct (relabel_fields g tls trs GL4 GL5) as [F1 [F2 [F3 [F4 _]]]].
    split; [|split; [|split; [|split; [|split; [|split]]]]].
    + cbn [relabel_groups]. rewrite Ef1, Ef2, Es1, Es2.
      set (g2 := relabel g tls trs) in *.
      assert (SC: same_counts g g2) by (split; symmetry; assumption).
      cbn [clr_loop]. rewrite F3.
      rewrite (merge_all_partition tls gl GL2 Sg GL3).
      rewrite <- (nlgl_ext rest (relabel_groups rest cls' clrs')) by (apply relabel_groups_same; assumption).
      rewrite Hnrl'. cbn [bind]. rewrite Hcomb. cbn [of_opt bind].
      rewrite <- (ngl_ext g g2 SC), Hngl. cbn [bind].
      (* group_rank of the relabelled group *)
      assert (Hgrk: group_rank g2 = Ok (rank mod (ngl * nrl) / nrl)).
      { assert (Zg2: zlength g2 = zlength g) by (unfold zlength; rewrite F4; reflexivity).
        unfold group_rank. destruct g2 as [|c2 g2'] eqn:E2; [subst g; simpl in F4; lia|].
        assert (c_nl c2 = k /\ c_nlab c2 = y) as [E2k E2y].
        { pose proof (f_equal (hd 0) F1) as Ea. pose proof (f_equal (hd 0) F2) as Ec.
          subst g. simpl in Ea, Ec. split; congruence. }
        rewrite E2k, E2y. rewrite <- E2. fold g2.
        rewrite <- E2 in Zg2, F3. rewrite Zg2. rewrite F3. rewrite (merge_all_partition tls gl GL2 Sg GL3).
        rewrite E2. exact GL1. }
      rewrite Hgrk. cbn [bind]. rewrite I1. cbn [bind]. f_equal. nia.
    + cbn [concat]. rewrite !app_length. lia.
    + cbn [concat]. rewrite !app_length. lia.
    + apply Forall_app. split; assumption.
    + rewrite concat_app. rewrite GL3, I5. symmetry.
      apply set_minus_perm; [apply zsorted_NoDup; exact Hs | apply zsorted_NoDup; exact Sg | exact Subl].
    + cbn [concat]. apply Forall2_app; [|exact I6].
      apply (uniform_Forall2 (fun c tl => Z.of_nat (length tl) = c_nl c) (fun tl => Z.of_nat (length tl) = k) g tls);
        [exact GL4 | exact GL6 |]. eapply Forall_impl; [|exact U]. intros c [E _] tl Htl. congruence.
    + cbn [concat]. apply Forall2_app; [|exact I7].
      apply (uniform_Forall2 (fun c tr => 0 <= tr < c_nlab c) (fun tr => 0 <= tr < y) g trs);
        [exact GL5 | exact GL7 |]. eapply Forall_impl; [|exact U]. intros c [_ E] tr Htr. rewrite E. exact Htr.
Qed.
