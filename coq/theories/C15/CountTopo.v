(* Model of tskit/combinatorics.py: TopologyCounter, PartialTopologyCounter,
   combine_child_topologies, tree_count_topologies (lines 480-651).  Definitions only.
   Python dicts / collections.Counter are association lists (insertion order kept; the
   observable result is compared as a finite map, see [tc_eqb]). *)
From Coq Require Import List ZArith Bool Lia.
From TskVerif Require Import Base.Common C15.Combination C15.Partitions C15.RankTree.
Import ListNotations.
Open Scope Z_scope.

Definition key := list Z.                 (* sorted tuple of sample-set indexes *)
Definition rk := (Z * Z)%type.            (* Rank(shape, label) *)
Definition counter := list (rk * Z).      (* collections.Counter: rank -> count *)
Definition tcounter := list (key * counter).      (* TopologyCounter.topologies *)
Definition topo := (key * rk)%type.
Definition pcounter := list (list topo * Z).      (* Counter: tuple of topologies -> count *)
Definition partials := list (key * pcounter).     (* PartialTopologyCounter.partials *)

Definition rk_eqb (a b : rk) : bool := (fst a =? fst b) && (snd a =? snd b).
Definition topo_eqb (a b : topo) : bool := zlist_eqb (fst a) (fst b) && rk_eqb (snd a) (snd b).
Definition topos_eqb := list_eqb topo_eqb.

(* d[k] += v on an association list (new keys are appended, as dict insertion does) *)
Fixpoint cadd {K} (eqb : K -> K -> bool) (k : K) (v : Z) (l : list (K * Z)) : list (K * Z) :=
  match l with
  | [] => [(k, v)]
  | (k', v') :: r => if eqb k k' then (k', v' + v) :: r else (k', v') :: cadd eqb k v r
  end.

(* d[k] = f(d[k]) with a default for a missing key (defaultdict) *)
Fixpoint dupd {K V} (eqb : K -> K -> bool) (k : K) (dflt : V) (f : V -> V) (l : list (K * V))
  : list (K * V) :=
  match l with
  | [] => [(k, f dflt)]
  | (k', v') :: r => if eqb k k' then (k', f v') :: r else (k', v') :: dupd eqb k dflt f r
  end.

(* Counter += Counter (all counts are positive here) *)
Definition counter_add {K} (eqb : K -> K -> bool) (a b : list (K * Z)) : list (K * Z) :=
  fold_left (fun acc kv => cadd eqb (fst kv) (snd kv) acc) b a.

(* TopologyCounter.merge(topology_counters)                        (553-563) *)
Definition tc_merge (tcs : list tcounter) : tcounter :=
  fold_left (fun total tc =>
               fold_left (fun tot kv => dupd zlist_eqb (fst kv) [] (fun c => counter_add rk_eqb c (snd kv)) tot)
                         tc total)
            tcs [].

(* TopologyCounter.from_sample(i): RankTree(children=[], label=i).rank() -> count 1   (565-575) *)
Definition from_sample (i : Z) : res tcounter :=
  do t <- mk_ltree_fresh [] i;
  Ok [([i], [((lt_srk t, lt_lrk t), 1)])].

(* isdisjoint / merge_tuple                                        (1511-1516) *)
Definition disjoint (a b : list Z) : bool := forallb (fun x => negb (zmem x b)) a.

(* Python tuple comparison on (tuple_of_ints, Rank) *)
Fixpoint zlist_lt (a b : list Z) : bool :=
  match a, b with
  | [], [] => false
  | [], _ :: _ => true
  | _ :: _, [] => false
  | x :: a', y :: b' => if x <? y then true else if y <? x then false else zlist_lt a' b'
  end.
Definition topo_le (a b : topo) : bool :=
  if zlist_lt (fst a) (fst b) then true else if zlist_lt (fst b) (fst a) then false else
  if fst (snd a) <? fst (snd b) then true else if fst (snd b) <? fst (snd a) then false else
  snd (snd a) <=? snd (snd b).

Fixpoint tmerge (a : list topo) : list topo -> list topo :=
  match a with
  | [] => fun b => b
  | x :: a' =>
      fix inner (b : list topo) : list topo :=
        match b with
        | [] => a
        | y :: b' => if topo_le x y then x :: tmerge a' b else y :: inner b'
        end
  end.

(* PartialTopologyCounter.add_sibling_topologies(topology_counter)  (596-622) *)
Definition padd (k : key) (ts : list topo) (v : Z) (m : partials) : partials :=
  dupd zlist_eqb k [] (fun pc => cadd topos_eqb ts v pc) m.

Definition add_sibling_topologies (self : partials) (tc : tcounter) : partials :=
  let merged :=
    fold_left (fun merged kc =>
      let ssi := fst kc in
      fold_left (fun merged rc =>
        let rank := fst rc in let count := snd rc in
        let topology := [(ssi, rank)] in
        let merged :=
          fold_left (fun merged sib =>
            let sib_ssi := fst sib in
            if disjoint ssi sib_ssi then
              fold_left (fun merged st =>
                           padd (merge2 sib_ssi ssi) (tmerge (fst st) topology) (count * snd st) merged)
                        (snd sib) merged
            else merged) self merged in
        padd ssi topology count merged) (snd kc) merged) tc [] in
  fold_left (fun self kc => dupd zlist_eqb (fst kc) [] (fun pc => counter_add topos_eqb pc (snd kc)) self)
            merged self.

(* PartialTopologyCounter.join_topologies(child_topologies)        (643-651) *)
Definition join_topologies (child_topologies : list topo) : res rk :=
  do children <- rmap (fun t : topo =>
                         rt_unrank_labels (zlength (fst t)) (fst (snd t)) (snd (snd t)) (fst t))
                      child_topologies;
  do t <- mk_ltree_fresh (stable_sort canon_key_le children) 0;
  Ok (lt_srk t, lt_lrk t).

(* PartialTopologyCounter.join_all_combinations()                  (624-641) *)
Definition tc_add (k : key) (r : rk) (v : Z) (tc : tcounter) : tcounter :=
  dupd zlist_eqb k [] (fun c => cadd rk_eqb r v c) tc.

Fixpoint jac_inner (ssi : key) (l : pcounter) (tc : tcounter) : res tcounter :=
  match l with
  | [] => Ok tc
  | (topologies, count) :: r =>
      if (2 <=? zlength topologies) then
        do rank <- join_topologies topologies;
        jac_inner ssi r (tc_add ssi rank count tc)
      else
        jac_inner ssi r (fold_left (fun tc t => tc_add ssi (snd t) count tc) topologies tc)
  end.

Fixpoint join_all_combinations (p : partials) (tc : tcounter) : res tcounter :=
  match p with
  | [] => Ok tc
  | (ssi, sibs) :: r => do tc' <- jac_inner ssi sibs tc; join_all_combinations r tc'
  end.

(* combine_child_topologies(topology_counters)                     (507-520) *)
Definition combine_child_topologies (tcs : list tcounter) : res tcounter :=
  join_all_combinations (fold_left add_sibling_topologies tcs []) [].

(* tree_count_topologies(tree, sample_sets)                        (480-504)
   A marginal forest: every node carries the index of the sample set it belongs to (if any)
   and its children.  (Internal samples are refused by the code before this point.) *)
Inductive ctree : Type := CT (sidx : option Z) (ch : list ctree).

Fixpoint node_counter (t : ctree) : res (option tcounter) :=
  match t with
  | CT sidx ch =>
      do cs <- (fix go (l : list ctree) : res (list tcounter) :=
                  match l with
                  | [] => Ok []
                  | c :: r => do x <- node_counter c; do xs <- go r;
                              Ok (match x with Some tc => tc :: xs | None => xs end)
                  end) ch;
      match cs with
      | [] => match sidx with
              | Some i => do tc <- from_sample i; Ok (Some tc)
              | None => Ok None
              end
      | _ => do tc <- combine_child_topologies cs; Ok (Some tc)
      end
  end.

Definition tree_count_topologies (roots : list ctree) : res tcounter :=
  do cs <- rmap node_counter roots;
  Ok (tc_merge (flat_map (fun o => match o with Some tc => [tc] | None => [] end) cs)).

(* finite-map equality of the observable result *)
Definition counter_get (c : counter) (r : rk) : Z :=
  fold_left (fun acc kv => if rk_eqb (fst kv) r then acc + snd kv else acc) c 0.
Definition counter_sub (a b : counter) : bool :=
  forallb (fun kv => counter_get a (fst kv) =? counter_get b (fst kv)) a.
Definition tc_get (tc : tcounter) (k : key) : counter :=
  flat_map (fun kc => if zlist_eqb (fst kc) k then snd kc else []) tc.
Definition tc_sub (a b : tcounter) : bool :=
  forallb (fun kc => counter_sub (tc_get a (fst kc)) (tc_get b (fst kc))
                     && counter_sub (tc_get b (fst kc)) (tc_get a (fst kc))) a.
Definition tc_eqb (a b : tcounter) : bool := tc_sub a b && tc_sub b a.

(* TopologyCounter._to_key / __getitem__                            (536-551)
   A key given as a scalar i is (i,); any iterable of indexes is sorted: the counter is indexed
   by the SET of sample-set indexes, in whatever order (and container) they are written. *)
Definition to_key (sample_set_indexes : list Z) : key := stable_sort Z.leb sample_set_indexes.
Definition tc_getitem (tc : tcounter) (sample_set_indexes : list Z) : counter :=
  tc_get tc (to_key sample_set_indexes).
Definition counter_eqb (a b : counter) : bool := counter_sub a b && counter_sub b a.
