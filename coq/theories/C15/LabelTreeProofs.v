(* Closing the label half over the whole tree, UNBOUNDED:
   for every shape produced by shape_unrank, label_unrank with a label rank in
   [0, num_labellings) returns a labelled tree in which, at EVERY node, the label rank
   recomputed by compute_label_rank equals the rank requested there, the shape fields
   (num_leaves, shape rank, num_labellings) are those of the shape, and the labels are the
   ones handed in. *)
From Coq Require Import List ZArith Bool Lia Arith Permutation Sorted.
From TskVerif Require Import Base.Common C15.Combination C15.Partitions C15.RankTree
  C15.CombProofs C15.CombRankProofs C15.WRProofs C15.RankTreeBounded C15.OorProofs
  C15.PartitionProofs C15.ChildOrderProofs C15.LabelOorProofs C15.RuleAscProofs
  C15.NumShapesTotal C15.ShapeRankProofs C15.LabelRankProofs.
Import ListNotations.
Open Scope Z_scope.

Section ShapeInd.
  Variable P : shape -> Prop.
  Hypothesis HS : forall rk nl nlab ch, Forall P ch -> P (Sh rk nl nlab ch).
  Fixpoint shape_ind' (s : shape) : P s :=
    match s with
    | Sh rk nl nlab ch =>
        HS rk nl nlab ch ((fix go (l : list shape) : Forall P l :=
                             match l with
                             | [] => Forall_nil P
                             | x :: r => Forall_cons x (shape_ind' x) (go r)
                             end) ch)
    end.
End ShapeInd.

(* what we need to know about a shape *)
Inductive shape_nice : shape -> Prop :=
| shape_nice_intro : forall rk nl nlab ch,
    1 <= nl -> 1 <= nlab ->
    nl = node_num_leaves (map summary_s ch) ->
    node_num_labellings (map summary_s ch) = Ok nlab ->
    (ch = [] -> rk = 0) ->
    (forall c c', In c ch -> In c' ch -> sh_nl c = sh_nl c' -> sh_rk c = sh_rk c' ->
                  sh_nlab c = sh_nlab c') ->
    Forall shape_nice ch ->
    shape_nice (Sh rk nl nlab ch).

Inductive label_consistent : ltree -> Prop :=
| label_consistent_intro : forall srk lrk nl nlab labels ch,
    compute_label_rank (map summary_l ch) labels = Ok lrk ->
    Forall label_consistent ch ->
    label_consistent (LT srk lrk nl nlab labels ch).

(* ---- splitting a list into groups is determined by the group lengths ---- *)
Lemma split_unique {A} : forall (G G' : list (list A)),
  concat G = concat G' -> map (@length A) G = map (@length A) G' -> G = G'.
Proof.
  induction G as [|g G IH]; intros [|g' G'] C L; simpl in L; try discriminate; [reflexivity|].
  injection L as L1 L2. cbn [concat] in C.
  destruct (app_inv_length _ _ _ _ C L1) as [-> C']. f_equal. apply IH; assumption.
Qed.

Lemma relabel_length : forall g tls trs, length tls = length g -> length trs = length g ->
  length (relabel g tls trs) = length g.
Proof. intros g tls trs L1 L2. destruct (relabel_fields g tls trs L1 L2) as [_ [_ [_ [L _]]]]. exact L. Qed.

Lemma relabel_app : forall g1 g2 tls trs,
  length tls = length (g1 ++ g2) -> length trs = length (g1 ++ g2) ->
  relabel (g1 ++ g2) tls trs =
  relabel g1 (firstn (length g1) tls) (firstn (length g1) trs) ++
  relabel g2 (skipn (length g1) tls) (skipn (length g1) trs).
Proof.
  induction g1 as [|c g1 IH]; intros g2 tls trs L1 L2; [reflexivity|].
  destruct tls as [|tl tls], trs as [|tr trs]; simpl in L1, L2; try lia.
  cbn [app relabel length firstn skipn]. f_equal. apply IH; lia.
Qed.

Lemma concat_relabel_groups : forall gs cls clrs,
  length cls = length (concat gs) -> length clrs = length (concat gs) ->
  concat (relabel_groups gs cls clrs) = relabel (concat gs) cls clrs.
Proof.
  induction gs as [|g rest IH]; intros cls clrs L1 L2.
  - destruct cls, clrs; reflexivity.
  - cbn [relabel_groups concat] in *. rewrite relabel_app by assumption.
    rewrite app_length in L1, L2. f_equal. apply IH; rewrite skipn_length; lia.
Qed.

Lemma relabel_groups_lengths : forall gs cls clrs,
  length cls = length (concat gs) -> length clrs = length (concat gs) ->
  map (@length cs) (relabel_groups gs cls clrs) = map (@length cs) gs.
Proof.
  induction gs as [|g rest IH]; intros cls clrs L1 L2; [reflexivity|].
  cbn [relabel_groups concat map] in *. rewrite app_length in L1, L2.
  rewrite relabel_length by (rewrite firstn_length; lia). f_equal.
  apply IH; rewrite skipn_length; lia.
Qed.

(* grouping by shape only looks at (num_leaves, shape_rank) *)
Definition pkey (c : cs) : Z * Z := (c_nl c, c_srk c).
Definition pkey_eqb (a b : Z * Z) : bool := (fst a =? fst b) && (snd a =? snd b).

Lemma group_by_same_shape_key (l : list cs) :
  map (map pkey) (group_by l same_shape) = group_by (map pkey l) pkey_eqb.
Proof. apply (group_by_map pkey pkey_eqb l). Qed.

Lemma group_by_relabel : forall (l : list cs) cls clrs,
  length cls = length l -> length clrs = length l ->
  group_by (relabel l cls clrs) same_shape = relabel_groups (group_by l same_shape) cls clrs.
Proof.
  intros l cls clrs L1 L2.
  pose proof (group_by_concat l same_shape) as C.
  apply split_unique.
  - rewrite group_by_concat, concat_relabel_groups by (rewrite C; assumption). rewrite C. reflexivity.
  - rewrite relabel_groups_lengths by (rewrite C; assumption).
    assert (K: map pkey (relabel l cls clrs) = map pkey l).
    { clear C. revert cls clrs L1 L2. induction l as [|c l IH]; intros [|tl cls] [|tr clrs] L1 L2;
        simpl in L1, L2; try lia; [reflexivity|]. cbn [relabel map]. f_equal. apply IH; lia. }
    transitivity (map (@length (Z * Z)) (map (map pkey) (group_by (relabel l cls clrs) same_shape))).
    { rewrite map_map. apply map_ext. intros a. rewrite map_length. reflexivity. }
    rewrite group_by_same_shape_key, K, <- group_by_same_shape_key.
    rewrite map_map. apply map_ext. intros a. rewrite map_length. reflexivity.
Qed.

(* ---- label_unrank, unfolded at a node ---- *)
Definition lu_kids : list shape -> list Z -> list (list Z) -> res (list ltree) :=
  fix go (cs : list shape) (rs : list Z) (ls : list (list Z)) : res (list ltree) :=
    match cs, rs, ls with
    | c :: cs', r :: rs', l :: ls' =>
        do t <- label_unrank c r l; do ts <- go cs' rs' ls'; Ok (t :: ts)
    | _, _, _ => Ok []
    end.

Lemma label_unrank_node rk nl nlab c ch' l labels :
  label_unrank (Sh rk nl nlab (c :: ch')) l labels =
    (do clr <- children_label_ranks (group_by (map summary_s (c :: ch')) same_shape) l labels;
     let '(child_labels, child_label_ranks) := clr in
     do labelled <- lu_kids (c :: ch') child_label_ranks child_labels;
     mk_ltree_cached rk l labelled).
Proof. reflexivity. Qed.

Lemma mk_ltree_fresh_leaf l0 : mk_ltree_fresh [] l0 = Ok (LT 0 0 1 1 [l0] []).
Proof. vm_compute. reflexivity. Qed.

Lemma Forall2_map_l {A B C} (f : A -> B) (R : B -> C -> Prop) : forall l l',
  Forall2 R (map f l) l' -> Forall2 (fun a c => R (f a) c) l l'.
Proof.
  induction l as [|a l IH]; intros l' H; inversion H; subst; constructor; auto.
Qed.

(* the groups of a nice shape satisfy the hypotheses of the node-level lemma *)
Lemma groups_good rk nl nlab ch : shape_nice (Sh rk nl nlab ch) ->
  Forall good_group (group_by (map summary_s ch) same_shape).
Proof.
  intros N. inversion N as [? ? ? ? Hnl Hnlab Enl Enlab Hleaf Hcoh Fch]; subst.
  pose proof (group_by_wf (map summary_s ch) same_shape) as W.
  pose proof (group_by_concat (map summary_s ch) same_shape) as C.
  apply Forall_forall. intros g Hg. rewrite Forall_forall in W.
  destruct (W g Hg) as [g0 [r [-> Wr]]].
  assert (Mem: forall x, In x (g0 :: r) -> exists c, In c ch /\ x = summary_s c).
  { intros x Hx. assert (In x (map summary_s ch)).
    { rewrite <- C. apply in_concat. exists (g0 :: r). split; assumption. }
    apply in_map_iff in H as [c [E I]]. exists c. split; [exact I | symmetry; exact E]. }
  destruct (Mem g0 (or_introl eq_refl)) as [c0 [I0 E0]].
  exists (c_nl g0), (c_nlab g0). split; [discriminate|].
  rewrite Forall_forall in Fch. pose proof (Fch c0 I0) as N0.
  assert (B0: 1 <= sh_nl c0 /\ 1 <= sh_nlab c0) by (inversion N0; subst; simpl; split; assumption).
  subst g0. cbn [c_nl c_nlab summary_s] in *.
  split; [|split; apply B0].
  constructor; [split; reflexivity|].
  apply Forall_forall. intros x Hx. rewrite Forall_forall in Wr. specialize (Wr x Hx).
  unfold same_shape in Wr. apply andb_true_iff in Wr as [W1 W2]. apply Z.eqb_eq in W1, W2.
  destruct (Mem x (or_intror Hx)) as [c [Ic Ec]]. subst x. cbn [c_nl c_srk c_nlab summary_s] in *.
  split; [exact W1|]. apply Hcoh; assumption.
Qed.

Lemma node_labels_ne cl d : cl <> [] -> node_labels cl d = merge_all (map c_labels cl).
Proof. destruct cl; [congruence | reflexivity]. Qed.

Lemma node_num_leaves_ne cl : cl <> [] -> node_num_leaves cl = zsum (map c_nl cl).
Proof. destruct cl; [congruence | reflexivity]. Qed.

Definition P_label (c : shape) : Prop :=
  forall l labels t, shape_nice c -> zsorted labels -> Z.of_nat (length labels) = sh_nl c ->
    0 <= l < sh_nlab c -> label_unrank c l labels = Ok t ->
    label_consistent t /\ summary_l t = mkcs (sh_nl c) (sh_rk c) (sh_nlab c) l labels.

Lemma kids_lemma : forall ch, Forall P_label ch -> forall rs ls out,
  lu_kids ch rs ls = Ok out ->
  Forall2 (fun c r => 0 <= r < sh_nlab c) ch rs ->
  Forall2 (fun c l => zsorted l /\ Z.of_nat (length l) = sh_nl c) ch ls ->
  Forall shape_nice ch ->
  Forall label_consistent out /\ map summary_l out = relabel (map summary_s ch) ls rs.
Proof.
  induction 1 as [|c ch Pc _ IH]; intros rs ls out H Fr Fl Fn.
  - inversion Fr; subst. inversion Fl; subst. injection H as <-. split; [constructor | reflexivity].
  - inversion Fr as [|? r ? rs' Hr Fr']; subst. inversion Fl as [|? l ? ls' [Hl1 Hl2] Fl']; subst.
    inversion Fn as [|? ? Nc Fn']; subst.
    cbn [lu_kids] in H. apply bind_ok in H as [t [Ht H]]. apply bind_ok in H as [ts [Hts H]].
    injection H as <-.
    destruct (Pc r l t Nc Hl1 Hl2 Hr Ht) as [C1 C2].
    destruct (IH rs' ls' ts Hts Fr' Fl' Fn') as [K1 K2].
    split; [constructor; assumption|]. cbn [map relabel]. rewrite C2, K2. reflexivity.
Qed.

Theorem label_unrank_consistent : forall sh, P_label sh.
Proof.
  induction sh as [rk nl nlab ch IH] using shape_ind'.
  intros l labels t N Hs Hlen Hl H. cbn [sh_nl sh_rk sh_nlab] in *.
  revert Hlen Hl H.
  inversion N as [? ? ? ? Hnl Hnlab Enl Enlab Hleaf Hcoh Fch]; subst.
  intros Hlen Hl H.
  destruct ch as [|c1 ch'].
  - (* a leaf *)
    vm_compute in Enlab. injection Enlab as <-. rewrite (Hleaf eq_refl) in *.
    cbn [map node_num_leaves] in *. assert (l = 0) by lia. subst l.
    destruct labels as [|l0 [|l1 labels]]; simpl in Hlen; try lia.
    cbn [label_unrank] in H. change (negb (0 =? 0)) with false in H. cbn iota in H.
    rewrite mk_ltree_fresh_leaf in H. injection H as <-.
    split; [constructor; [reflexivity | constructor] | reflexivity].
  - set (ch := c1 :: ch') in *. set (cs_s := map summary_s ch) in *.
    set (gs := group_by cs_s same_shape) in *.
    unfold ch in H. rewrite label_unrank_node in H. fold ch cs_s gs in H.
    apply bind_ok in H as [[cls clrs] [Hclr H]]. apply bind_ok in H as [labelled [Hkids H]].
    pose proof (group_by_concat cs_s same_shape) as Cgs. fold gs in Cgs.
    assert (Ennl: node_num_leaves cs_s = zsum (map c_nl cs_s)) by reflexivity.
    destruct (children_level gs l labels cls clrs nlab) as [CL1 [CL2 [CL3 [CL4 [CL5 [CL6 CL7]]]]]].
    { apply (groups_good rk _ nlab ch N). }
    { exact Hs. }
    { rewrite Cgs, <- Ennl. exact Hlen. }
    { exact Hclr. }
    { exact Enlab. }
    { exact Hl. }
    rewrite Cgs in CL2, CL3, CL6, CL7.
    assert (Lcs: length cs_s = length ch) by (unfold cs_s; apply map_length).
    destruct (kids_lemma ch IH clrs cls labelled Hkids) as [K1 K2].
    { unfold cs_s in CL7. apply Forall2_map_l in CL7. exact CL7. }
    { unfold cs_s in CL6. apply Forall2_map_l in CL6. cbn [c_nl summary_s] in CL6.
      clear -CL6 CL4. revert CL4. induction CL6 as [|c tl ch0 cls0 Hc _ IHF]; intros CL4; [constructor|].
      inversion CL4; subst. constructor; [split; assumption | apply IHF; assumption]. }
    { exact Fch. }
    fold cs_s in K2. set (R := relabel cs_s cls clrs) in *.
    assert (GR: group_by R same_shape = relabel_groups gs cls clrs)
      by (apply group_by_relabel; assumption).
    destruct (relabel_fields cs_s cls clrs CL2 CL3) as [F1 [F2 [F3 [F4 _]]]]. fold R in F1, F2, F3, F4.
    unfold mk_ltree_cached in H. rewrite K2 in H. apply bind_ok in H as [nlab' [Hnl' H]].
    assert (nlab' = nlab).
    { unfold node_num_labellings in Hnl', Enlab. rewrite GR in Hnl'.
      rewrite <- (nlgl_ext gs (relabel_groups gs cls clrs)) in Hnl'
        by (apply relabel_groups_same; rewrite Cgs; assumption).
      fold gs in Enlab. congruence. }
    subst nlab'.
    assert (Rne: R <> []) by (intros E; rewrite E in F4; unfold cs_s, ch in F4; simpl in F4; lia).
    assert (Elab: node_labels R 0 = labels).
    { rewrite (node_labels_ne R 0 Rne), F3. apply merge_all_partition; assumption. }
    assert (Enn: node_num_leaves R = node_num_leaves cs_s).
    { rewrite (node_num_leaves_ne R Rne), F1. unfold cs_s, ch. reflexivity. }
    injection H as <-. rewrite Elab, Enn.
    split.
    + constructor; [|exact K1]. rewrite K2. unfold compute_label_rank. fold R. rewrite GR. exact CL1.
    + reflexivity.
Qed.

(* ---- shapes produced by shape_unrank are nice ---- *)
Lemma Forall2_In_r {A B} (R : A -> B -> Prop) : forall l l' b,
  Forall2 R l l' -> In b l' -> exists a, In a l /\ R a b.
Proof.
  induction 1 as [|x y l l' Hxy _ IH]; intros Hb; [destruct Hb|].
  destruct Hb as [<-|Hb]; [exists x; split; [left; reflexivity | exact Hxy]|].
  destruct (IH Hb) as [a [Ia Ra]]. exists a. split; [right; exact Ia | exact Ra].
Qed.

Lemma shape_unrank_nice : forall fuel n r sh,
  1 <= n -> 0 <= r -> shape_unrank fuel n r = Ok sh -> shape_nice sh.
Proof.
  induction fuel as [|f IH]; intros n r sh Hn Hr H; [discriminate|].
  pose proof (shape_unrank_ok _ _ _ _ H) as Hok.
  destruct (shape_unrank_consistent _ _ _ _ Hn Hr H) as [Hcons [Hnl Hrk]].
  cbn [shape_unrank] in H. apply bind_ok in H as [[part crs] [Hc H]].
  apply bind_ok in H as [children [Hch H]].
  unfold mk_shape in H. apply bind_ok in H as [nlab [Hnlab H]]. injection H as <-.
  assert (Onl: 1 <= node_num_leaves (map summary_s children) /\ 1 <= nlab)
    by (inversion Hok; subst; split; assumption).
  destruct Onl as [Onl Onlab]. clear Hnl Hrk.
  pose proof (rmap_Forall2 _ _ _ Hch) as F2.
  (* facts about the requests made for the children *)
  assert (Hreq: Forall (fun kr => 1 <= fst kr /\ 0 <= snd kr) (combine part crs)).
  { destruct (Z.eq_dec n 1) as [->|Hne].
    - unfold children_shape_ranks in Hc. change (partitions 1) with (Ok (@nil (list Z))) in Hc.
      cbn [bind csr_find] in Hc. change (1 =? 1) with true in Hc.
      destruct (r =? 0); [|discriminate]. vm_compute in Hc. injection Hc as <- <-. constructor.
    - assert (Hn2: 2 <= n) by lia.
      destruct (children_shape_ranks_len n r part crs Hn2 Hc) as [L2 Leq].
      set (cl0 := map (fun kr => mkcs (fst kr) (snd kr) 0 0 []) (combine part crs)).
      assert (E0nl: map c_nl cl0 = part)
        by (unfold cl0; rewrite map_map; cbn [c_nl]; apply combine_fst; lia).
      assert (E0srk: map c_srk cl0 = crs)
        by (unfold cl0; rewrite map_map; cbn [c_srk]; apply combine_snd; lia).
      destruct (level_inverse n r part crs cl0 Hn2 Hr Hc E0nl E0srk) as [_ [Hrange [_ [Hpos _]]]].
      unfold cl0 in Hrange. rewrite Forall_map in Hrange. cbn [c_nl c_srk] in Hrange.
      rewrite Forall_forall in *. intros [k c] Hin. cbn [fst snd].
      split; [apply Hpos; eapply in_combine_l; exact Hin|].
      destruct (Hrange (k, c) Hin) as [v [_ Hv]]. cbn [snd] in Hv. lia. }
  constructor; try assumption; try reflexivity.
  - (* a leaf has shape rank 0 *)
    intros E. subst children. inversion Hcons as [? ? ? ? Hcsr _]; subst.
    vm_compute in Hcsr. congruence.
  - (* same (num_leaves, shape rank) => the same request => the same subtree *)
    intros c c' Ic Ic' E1 E2.
    destruct (Forall2_In_r _ _ _ c F2 Ic) as [[k1 r1] [I1 R1]].
    destruct (Forall2_In_r _ _ _ c' F2 Ic') as [[k2 r2] [I2 R2]].
    rewrite Forall_forall in Hreq. pose proof (Hreq _ I1) as [A1 B1]. pose proof (Hreq _ I2) as [A2 B2].
    cbn [fst snd] in *.
    destruct (shape_unrank_consistent _ _ _ _ A1 B1 R1) as [_ [N1 K1]].
    destruct (shape_unrank_consistent _ _ _ _ A2 B2 R2) as [_ [N2 K2]].
    assert (k1 = k2) by congruence. assert (r1 = r2) by congruence. subst.
    assert (c = c') by congruence. subst. reflexivity.
  - apply Forall_forall. intros c Ic.
    destruct (Forall2_In_r _ _ _ c F2 Ic) as [[k1 r1] [I1 R1]].
    rewrite Forall_forall in Hreq. pose proof (Hreq _ I1) as [A1 B1]. cbn [fst snd] in *.
    eapply IH; eassumption.
Qed.

Lemma zrange_sorted : forall cnt lo, zsorted (zrange lo cnt).
Proof.
  induction cnt as [|c IH]; intros lo; [constructor|]. cbn [zrange]. constructor; [apply IH|].
  apply Forall_forall. intros x Hx. apply In_zrange in Hx. lia.
Qed.

(* RankTree.unrank(n, (s, l)): every cached rank of the result, at every node, is what
   compute_shape_rank / compute_label_rank recompute from the children *)
Theorem rt_unrank_consistent n s l t :
  1 <= n -> rt_unrank n s l = Ok t ->
  exists sh,
    shape_unrank (S (Z.to_nat n)) n s = Ok sh /\
    shape_consistent sh /\ label_consistent t /\
    summary_l t = mkcs n s (sh_nlab sh) l (default_labels n) /\
    0 <= s /\ 0 <= l < sh_nlab sh.
Proof.
  intros Hn H. unfold rt_unrank in H.
  destruct ((s <? 0) || (l <? 0)) eqn:E; [discriminate|].
  apply orb_false_iff in E as [E1 E2]. apply Z.ltb_ge in E1, E2.
  apply bind_ok in H as [sh [Hsh H]]. exists sh. split; [exact Hsh|].
  destruct (shape_unrank_consistent _ _ _ _ Hn E1 Hsh) as [Hcons [Hnl Hrk]].
  pose proof (shape_unrank_nice _ _ _ _ Hn E1 Hsh) as Hnice.
  pose proof (shape_unrank_ok _ _ _ _ Hsh) as Hok.
  rewrite Hnl in H.
  (* the label rank is in range, otherwise label_unrank fails *)
  assert (Hl: l < sh_nlab sh).
  { destruct (Z_lt_dec l (sh_nlab sh)) as [L|G]; [exact L|]. exfalso.
    destruct (Z.eq_dec n 1) as [->|Hne].
    - (* one leaf: only l = 0 passes, and num_labellings = 1 *)
      clear Hcons Hnice Hok. cbn [shape_unrank] in Hsh. unfold children_shape_ranks in Hsh.
      change (partitions 1) with (Ok (@nil (list Z))) in Hsh. cbn [bind csr_find] in Hsh.
      change (1 =? 1) with true in Hsh. destruct (s =? 0); [|discriminate].
      vm_compute in Hsh. injection Hsh as <-. cbn [sh_nlab] in G.
      cbn [label_unrank] in H. destruct (l =? 0) eqn:E0; [apply Z.eqb_eq in E0; lia | discriminate].
    - assert (Hn2: 2 <= n) by lia.
      pose proof (tree_unrank_label_oor n s l sh Hn2 E1 Hsh ltac:(lia)) as Hoor.
      unfold tree_unrank, rt_unrank in Hoor.
      replace ((s <? 0) || (l <? 0)) with false in Hoor
        by (symmetry; apply orb_false_iff; split; apply Z.ltb_ge; lia).
      rewrite Hsh in Hoor. cbn [bind] in Hoor. rewrite Hnl in Hoor. rewrite H in Hoor.
      cbn [bind] in Hoor. unfold to_tsk_tree in Hoor.
      destruct (labels_are_range (lt_labels t) (lt_nl t)); discriminate. }
  destruct (label_unrank_consistent sh l (default_labels n) t Hnice) as [LC LS].
  - apply zrange_sorted.
  - unfold default_labels. rewrite zrange_length. lia.
  - lia.
  - exact H.
  - split; [exact Hcons|]. split; [exact LC|]. rewrite LS, Hnl, Hrk. repeat split; lia.
Qed.
