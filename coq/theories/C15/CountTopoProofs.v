(* Key-order invariance of TopologyCounter indexing, UNBOUNDED: the key is a function of the
   multiset of sample-set indexes (sorted canonical form), so tc[k] = tc[k'] for every
   permutation k' of k. *)
From Coq Require Import List ZArith Bool Lia Permutation Sorted.
From TskVerif Require Import Base.Common C15.Combination C15.Partitions C15.RankTree
  C15.TopoSpec C15.RankTreeBounded C15.OorProofs C15.ChildOrderProofs C15.CountTopo.
Import ListNotations.
Open Scope Z_scope.

Lemma zleb_total x y : (x <=? y) = true \/ (y <=? x) = true.
Proof. destruct (Z.leb_spec x y); [left; reflexivity | right; apply Z.leb_le; lia]. Qed.

Lemma zleb_trans x y z : (x <=? y) = true -> (y <=? z) = true -> (x <=? z) = true.
Proof. rewrite !Z.leb_le. lia. Qed.

Lemma to_key_perm k k' : Permutation k k' -> to_key k = to_key k'.
Proof.
  intros P. unfold to_key. apply (sort_perm_eq Z.leb zleb_total zleb_trans k k' P).
  intros x y _ _ H1 H2. apply Z.leb_le in H1, H2. lia.
Qed.

Lemma to_key_sorted k : StronglySorted Z.le (to_key k).
Proof.
  pose proof (sort_sorted Z.leb zleb_total zleb_trans k) as S. unfold to_key.
  induction S as [|x l S IH F]; constructor; [exact IH|].
  eapply Forall_impl; [|exact F]. intros a Ha. apply Z.leb_le. exact Ha.
Qed.

Lemma to_key_members k : Permutation (to_key k) k.
Proof. apply sort_perm. Qed.

Lemma to_key_idem k : to_key (to_key k) = to_key k.
Proof. apply to_key_perm, to_key_members. Qed.

(* indexing does not depend on the order in which the indexes are written *)
Theorem tc_getitem_perm tc k k' : Permutation k k' -> tc_getitem tc k = tc_getitem tc k'.
Proof. intros P. unfold tc_getitem. rewrite (to_key_perm k k' P). reflexivity. Qed.

Example tc_getitem_perm_ex :
  to_key [3; 0; 2] = [0; 2; 3] /\ to_key [2; 3; 0] = [0; 2; 3] /\ to_key [5] = [5].
Proof. vm_compute. repeat split. Qed.
