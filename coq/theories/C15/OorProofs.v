(* Out-of-range shape ranks are rejected by Tree.unrank for every n >= 1 (unbounded):
   whenever num_shapes n evaluates to S, every shape rank s >= S makes tree_unrank
   return Err E_RANK (= ValueError "Rank is out of bounds.").  Before fix 7829e32 this was
   false for n = 1 (F13; see unrank_oor_n1_pinned_refuted). *)
From Coq Require Import List ZArith Bool Lia Arith.
From TskVerif Require Import Base.Common C15.Combination C15.Partitions C15.RankTree
  C15.CombProofs C15.CombRankProofs C15.WRProofs.
Import ListNotations.
Open Scope Z_scope.

Lemma bind_ok {A B} (r : res A) (f : A -> res B) b :
  bind r f = Ok b -> exists a, r = Ok a /\ f a = Ok b.
Proof. destruct r; simpl; intros H; try discriminate. eauto. Qed.

Lemma get_app_lt {A} (l l' : list A) i : 0 <= i < zlen l -> get (l ++ l') i = get l i.
Proof.
  unfold get, zlen. intros H. destruct (i <? 0) eqn:E; [apply Z.ltb_lt in E; lia|].
  rewrite nth_error_app1 by lia. reflexivity.
Qed.

Lemma get_app_last {A} (l : list A) v : get (l ++ [v]) (zlen l) = Ok v.
Proof.
  unfold get, zlen. destruct (Z.of_nat (length l) <? 0) eqn:E; [apply Z.ltb_lt in E; lia|].
  rewrite Nat2Z.id, nth_error_app2 by lia. rewrite Nat.sub_diag. reflexivity.
Qed.

Lemma get_ok_range {A} (l : list A) i v : get l i = Ok v -> 0 <= i < zlen l.
Proof. intros H. apply get_ok_iff. eauto. Qed.

Lemma ns_table_length : forall m t, ns_table m = Ok t -> length t = S m.
Proof.
  induction m as [|m IH]; intros t H; simpl in H.
  - inversion H. reflexivity.
  - apply bind_ok in H as [t' [H1 H]]. apply bind_ok in H as [v [H2 H]].
    inversion H. rewrite app_length, (IH t' H1). simpl. lia.
Qed.

(* the table for a smaller bound is a prefix *)
Lemma ns_table_prefix : forall m t, ns_table m = Ok t ->
  forall j, (j <= m)%nat -> exists tj, ns_table j = Ok tj /\
    forall k, 0 <= k <= Z.of_nat j -> get t k = get tj k.
Proof.
  induction m as [|m IH]; intros t H j Hj.
  - assert (j = 0)%nat by lia. subst. exists t. split; [exact H | reflexivity].
  - destruct (Nat.eq_dec j (S m)) as [->|Hne]; [exists t; split; [exact H | reflexivity]|].
    pose proof H as H0. simpl in H. apply bind_ok in H as [t' [H1 H]].
    apply bind_ok in H as [v [H2 H]]. inversion H; subst t.
    destruct (IH t' H1 j) as [tj [Hj1 Hj2]]; [lia|].
    exists tj. split; [exact Hj1|]. intros k Hk.
    rewrite get_app_lt; [apply Hj2, Hk|].
    unfold zlen. rewrite (ns_table_length m t' H1). lia.
Qed.

(* a successful table lookup agrees with num_shapes *)
Lemma ns_lookup_num_shapes m t k v :
  ns_table m = Ok t -> ns_lookup t k = Ok v -> num_shapes k = Ok v.
Proof.
  intros Ht Hl. unfold ns_lookup in Hl. unfold num_shapes.
  destruct (k <=? 1) eqn:E; [exact Hl|]. apply Z.leb_gt in E.
  pose proof (get_ok_range _ _ _ Hl) as R. unfold zlen in R.
  rewrite (ns_table_length m t Ht) in R.
  destruct (ns_table_prefix m t Ht (Z.to_nat k)) as [tk [Hk1 Hk2]]; [lia|].
  rewrite Hk1. simpl. rewrite <- Hk2 by lia. exact Hl.
Qed.

Lemma ntp_groups_lookup m t gs v :
  ns_table m = Ok t -> ntp_groups (ns_lookup t) gs = Ok v -> ntp_groups num_shapes gs = Ok v.
Proof.
  intros Ht. revert v. induction gs as [|g r IH]; intros v H; [exact H|].
  cbn [ntp_groups] in *. destruct g as [|k g']; [exact H|].
  apply bind_ok in H as [s [H1 H]]. apply bind_ok in H as [x [H2 H]].
  rewrite (ns_lookup_num_shapes m t k s Ht H1). simpl.
  rewrite (IH x H2). simpl. exact H.
Qed.

(* csr_find runs off the end when the rank is at least the sum over all partitions *)
Lemma csr_find_exhausted m t : ns_table m = Ok t ->
  forall ps v s, sum_ntp (ns_lookup t) ps = Ok v -> v <= s ->
    csr_find ps s = Ok (None, s - v).
Proof.
  intros Ht. induction ps as [|p r IH]; intros v s H Hs.
  - simpl in H. inversion H. simpl. f_equal. f_equal. lia.
  - cbn [sum_ntp] in H. apply bind_ok in H as [a [H1 H]]. apply bind_ok in H as [b [H2 H]].
    inversion H; subst v. cbn [csr_find].
    unfold num_tree_pairings, ntp_with in *.
    rewrite (ntp_groups_lookup m t _ a Ht H1). simpl.
    (* every term is >= 0?  not needed: we only need s >= a + b ... but the branch test is
       s < a; a may exceed s only if b < 0.  b >= 0 holds because each term is a product
       of comb values; prove it on the fly *)
    assert (Hb: 0 <= b).
    { clear -H2 Ht. revert b H2. induction r as [|p' r' IHr]; intros b H2.
      - simpl in H2. inversion H2. lia.
      - cbn [sum_ntp] in H2. apply bind_ok in H2 as [a' [Ha H2]].
        apply bind_ok in H2 as [b' [Hb' H2]]. inversion H2.
        assert (0 <= a').
        { clear -Ha. unfold ntp_with in Ha. revert a' Ha.
          induction (group_partition p') as [|g gs IHg]; intros a' Ha.
          - simpl in Ha. inversion Ha. lia.
          - cbn [ntp_groups] in Ha. destruct g as [|k g']; [discriminate|].
            apply bind_ok in Ha as [s [_ Ha]]. apply bind_ok in Ha as [x [Hx Ha]].
            inversion Ha. specialize (IHg x Hx).
            assert (1 <= comb_with_replacement s (zlength (k :: g'))).
            { unfold comb_with_replacement.
              (* comb >= 1 everywhere *)
              set (nn := s + zlength (k :: g') - 1). set (kk := zlength (k :: g')).
              destruct (Z_lt_dec kk 0) as [L|L];
                [rewrite comb_out_of_range by lia; lia|].
              destruct (Z_lt_dec nn kk) as [L'|L'];
                [rewrite comb_out_of_range by lia; lia|].
              replace nn with (Z.of_nat (Z.to_nat nn)) by lia.
              replace kk with (Z.of_nat (Z.to_nat kk)) by lia.
              rewrite comb_binom_nat by lia.
              pose proof (binom_pos (Z.to_nat kk) (Z.to_nat nn)). lia. }
            nia. }
        specialize (IHr b' Hb'). lia. }
    replace (s <? a) with false by (symmetry; apply Z.ltb_ge; lia).
    rewrite (IH b (s - a) H2) by lia. f_equal. f_equal. lia.
Qed.

(* num_shapes n = Ok S for n >= 2 unfolds to the sum over the partitions of n *)
Lemma num_shapes_unfold n nS :
  2 <= n -> num_shapes n = Ok nS ->
  exists m t ps, ns_table m = Ok t /\ partitions n = Ok ps /\ sum_ntp (ns_lookup t) ps = Ok nS.
Proof.
  intros Hn H. unfold num_shapes in H.
  replace (n <=? 1) with false in H by (symmetry; apply Z.leb_gt; lia).
  apply bind_ok in H as [t [Ht Hg]].
  destruct (Z.to_nat n) as [|m] eqn:Em; [lia|].
  cbn [ns_table] in Ht. apply bind_ok in Ht as [t' [Ht' Ht]]. apply bind_ok in Ht as [v [Hv Ht]].
  inversion Ht; subst t.
  assert (n = zlen t').
  { unfold zlen. rewrite (ns_table_length m t' Ht'). lia. }
  rewrite H in Hg. rewrite get_app_last in Hg. inversion Hg; subst v.
  unfold num_shapes_step in Hv.
  replace (Z.of_nat (S m)) with n in Hv by lia.
  replace (n <=? 1) with false in Hv by (symmetry; apply Z.leb_gt; lia).
  apply bind_ok in Hv as [ps [Hp Hs]].
  exists m, t', ps. auto.
Qed.

Lemma children_shape_ranks_oor n nS s :
  1 <= n -> num_shapes n = Ok nS -> nS <= s -> children_shape_ranks s n = Err E_RANK.
Proof.
  intros Hn HS Hs.
  destruct (Z.eq_dec n 1) as [->|Hne].
  - (* one leaf: num_shapes 1 = 1, no partition, the remaining rank s >= 1 is not 0 *)
    assert (nS = 1) by (vm_compute in HS; congruence). subst nS.
    unfold children_shape_ranks.
    change (partitions 1) with (Ok (@nil (list Z))). cbn [bind csr_find].
    change (1 =? 1) with true.
    replace (s =? 0) with false by (symmetry; apply Z.eqb_neq; lia). reflexivity.
  - assert (2 <= n) as Hn2 by lia.
    destruct (num_shapes_unfold n nS Hn2 HS) as [m [t [ps [Ht [Hp Hsum]]]]].
    unfold children_shape_ranks. rewrite Hp. simpl.
    rewrite (csr_find_exhausted m t Ht ps nS s Hsum Hs). simpl.
    replace (n =? 1) with false by (symmetry; apply Z.eqb_neq; lia). reflexivity.
Qed.

Lemma tree_unrank_shape_oor n nS s l :
  1 <= n -> num_shapes n = Ok nS -> nS <= s -> 0 <= nS -> 0 <= l ->
  tree_unrank n s l = Err E_RANK.
Proof.
  intros Hn HS Hs HS0 Hl. unfold tree_unrank, rt_unrank.
  replace ((s <? 0) || (l <? 0)) with false
    by (symmetry; apply orb_false_iff; split; apply Z.ltb_ge; lia).
  cbn [shape_unrank]. rewrite (children_shape_ranks_oor n nS s Hn HS Hs). reflexivity.
Qed.

(* negative ranks are rejected for every n *)
Lemma tree_unrank_negative n s l : s < 0 \/ l < 0 -> tree_unrank n s l = Err E_RANK.
Proof.
  intros H. unfold tree_unrank, rt_unrank.
  replace ((s <? 0) || (l <? 0)) with true; [reflexivity|].
  symmetry. apply orb_true_iff. destruct H; [left | right]; apply Z.ltb_lt; assumption.
Qed.

Example tree_unrank_shape_oor_ex : num_shapes 8 = Ok 261 /\ tree_unrank 8 261 0 = Err E_RANK.
Proof. vm_compute. split; reflexivity. Qed.
