(* Bounded RankTree theorems: the bound on the number of leaves is part of every
   statement; the proofs evaluate a boolean check with vm_compute and lift it with
   forallb_forall.  Also the historical F13 witness about the pinned variant. *)
From Coq Require Import List ZArith Bool Lia Permutation.
From TskVerif Require Import Base.Common C15.Combination C15.Partitions C15.RankTree C15.TopoSpec.
Import ListNotations.
Open Scope Z_scope.

Lemma In_zrange x : forall cnt lo, In x (zrange lo cnt) <-> lo <= x < lo + Z.of_nat cnt.
Proof.
  induction cnt as [|c IH]; intros lo; simpl.
  - lia.
  - rewrite IH. lia.
Qed.

Lemma In_zrange_to_nat x lo hi : lo <= x < hi -> In x (zrange lo (Z.to_nat (hi - lo))).
Proof. intros H. apply In_zrange. lia. Qed.

(* ---- decidable equality of plain trees ---- *)
Section PtInd.
  Variable P : pt -> Prop.
  Hypothesis HL : forall l, P (PL l).
  Hypothesis HN : forall ch, Forall P ch -> P (PN ch).
  Fixpoint pt_ind' (t : pt) : P t :=
    match t with
    | PL l => HL l
    | PN ch => HN ch ((fix go (l : list pt) : Forall P l :=
                         match l with
                         | [] => Forall_nil P
                         | x :: r => Forall_cons x (pt_ind' x) (go r)
                         end) ch)
    end.
End PtInd.

Lemma pt_eqb_eq : forall a b, pt_eqb a b = true <-> a = b.
Proof.
  induction a as [l|ch IH] using pt_ind'; intros [l'|ch']; simpl; split; intro H;
    try discriminate.
  - apply Z.eqb_eq in H. congruence.
  - inversion H. apply Z.eqb_refl.
  - f_equal. revert ch' H. induction IH as [|x xs Hx _ IHxs]; intros [|y ys] H;
      try discriminate; try reflexivity.
    apply andb_true_iff in H as [H1 H2]. apply Hx in H1. subst. f_equal. apply IHxs, H2.
  - inversion H as [E]. subst ch'. clear H. induction IH as [|x xs Hx _ IHxs]; [reflexivity|].
    apply andb_true_iff; split; [apply Hx; reflexivity | exact IHxs].
Qed.

Fixpoint nodupb (l : list pt) : bool :=
  match l with
  | [] => true
  | x :: r => negb (existsb (pt_eqb x) r) && nodupb r
  end.

Lemma existsb_pt_In x l : existsb (pt_eqb x) l = true <-> In x l.
Proof.
  rewrite existsb_exists. split.
  - intros [y [Hy E]]. apply pt_eqb_eq in E. subst. exact Hy.
  - intros H. exists x. split; [exact H | apply pt_eqb_eq; reflexivity].
Qed.

Lemma nodupb_NoDup l : nodupb l = true -> NoDup l.
Proof.
  induction l as [|x r IH]; simpl; intros H; constructor.
  - apply andb_true_iff in H as [H _]. intros Hin. apply existsb_pt_In in Hin.
    rewrite Hin in H. discriminate.
  - apply IH. apply andb_true_iff in H as [_ H]. exact H.
Qed.

Definition rank_is (r : res (Z * Z)) (s l : Z) : bool :=
  match r with Ok (a, b) => (a =? s) && (b =? l) | _ => false end.

Lemma rank_is_eq r s l : rank_is r s l = true -> r = Ok (s, l).
Proof.
  destruct r as [[a b]| | |]; simpl; try discriminate.
  intros H. apply andb_true_iff in H as [H1 H2].
  apply Z.eqb_eq in H1, H2. congruence.
Qed.

(* ------------------------------------------------------------------------------
   rank (unrank (s,l)) = (s,l) on the dense ranges, n <= 6 *)
Definition chk_unrank_rank (n : Z) : bool :=
  match num_shapes n with
  | Ok nS =>
      forallb (fun s =>
        match num_labellings n s with
        | Ok N => forallb (fun l => match tree_unrank n s l with
                                    | Ok t => rank_is (tree_rank t) s l
                                    | _ => false
                                    end) (zrange 0 (Z.to_nat N))
        | _ => false
        end) (zrange 0 (Z.to_nat nS))
  | _ => false
  end.

Lemma chk_unrank_rank_all : forallb chk_unrank_rank (zrange 1 6) = true.
Proof. vm_compute. reflexivity. Qed.

Lemma unrank_then_rank_bounded n s l S N :
  1 <= n <= 6 -> num_shapes n = Ok S -> 0 <= s < S ->
  num_labellings n s = Ok N -> 0 <= l < N ->
  exists t, tree_unrank n s l = Ok t /\ tree_rank t = Ok (s, l).
Proof.
  intros Hn HS Hs HN Hl.
  pose proof chk_unrank_rank_all as A. rewrite forallb_forall in A.
  specialize (A n). unfold chk_unrank_rank in A. rewrite HS in A.
  assert (In n (zrange 1 6)) as I by (apply In_zrange; lia). specialize (A I).
  rewrite forallb_forall in A. specialize (A s).
  assert (In s (zrange 0 (Z.to_nat S))) as Is by (apply In_zrange; lia). specialize (A Is).
  rewrite HN in A. rewrite forallb_forall in A. specialize (A l).
  assert (In l (zrange 0 (Z.to_nat N))) as Il by (apply In_zrange; lia). specialize (A Il).
  destruct (tree_unrank n s l) as [t| | |]; try discriminate.
  exists t. split; [reflexivity | apply rank_is_eq, A].
Qed.

Example unrank_then_rank_bounded_ex :
  num_shapes 6 = Ok 33 /\ num_labellings 6 17 = Ok 30 /\
  tree_unrank 6 17 21 = Ok (PN [PL 4; PN [PL 1; PN [PL 0; PL 2; PL 3; PL 5]]]).
Proof. vm_compute. repeat split. Qed.

(* ------------------------------------------------------------------------------
   all_trees n lists every topology exactly once, in rank order, n <= 6 *)
Definition rank_pair_eqb (a b : Z * Z) : bool := (fst a =? fst b) && (snd a =? snd b).

Lemma rank_pair_eqb_eq a b : rank_pair_eqb a b = true <-> a = b.
Proof.
  destruct a, b; unfold rank_pair_eqb; simpl. rewrite andb_true_iff, !Z.eqb_eq.
  split; [intros [-> ->]; reflexivity | intros H; inversion H; auto].
Qed.

Definition chk_all_trees (n : Z) : bool :=
  match all_trees n, dense_ranks n with
  | Ok ts, Ok rs =>
      let cs := map pt_canon ts in
      let sp := map pt_canon (spec_trees n) in
      nodupb cs
      && forallb (fun t => existsb (pt_eqb t) sp) cs
      && forallb (fun t => existsb (pt_eqb t) cs) sp
      && match rmap tree_rank ts with
         | Ok got => list_eqb rank_pair_eqb got rs
         | _ => false
         end
  | _, _ => false
  end.

Lemma chk_all_trees_all : forallb chk_all_trees (zrange 1 6) = true.
Proof. vm_compute. reflexivity. Qed.

Lemma all_trees_enumerates_bounded n :
  1 <= n <= 6 ->
  exists ts rs,
    all_trees n = Ok ts /\ dense_ranks n = Ok rs /\
    NoDup (map pt_canon ts) /\
    (forall t, In t (map pt_canon ts) <-> In t (map pt_canon (spec_trees n))) /\
    rmap tree_rank ts = Ok rs.
Proof.
  intros Hn. pose proof chk_all_trees_all as A. rewrite forallb_forall in A.
  specialize (A n). assert (In n (zrange 1 6)) as I by (apply In_zrange; lia).
  specialize (A I). unfold chk_all_trees in A.
  destruct (all_trees n) as [ts| | |]; try discriminate.
  destruct (dense_ranks n) as [rs| | |]; try discriminate.
  exists ts, rs.
  apply andb_true_iff in A as [A A4]. apply andb_true_iff in A as [A A3].
  apply andb_true_iff in A as [A1 A2].
  split; [reflexivity|]. split; [reflexivity|]. split; [apply nodupb_NoDup, A1|].
  split.
  - intros t. rewrite forallb_forall in A2, A3. split; intros H.
    + apply existsb_pt_In. apply A2, H.
    + apply existsb_pt_In. apply A3, H.
  - destruct (rmap tree_rank ts) as [got| | |]; try discriminate.
    f_equal. apply (list_eqb_eq rank_pair_eqb rank_pair_eqb_eq). exact A4.
Qed.

Example all_trees_enumerates_bounded_ex :
  length (spec_trees 5) = 236%nat /\
  (do ts <- all_trees 3; Ok ts) =
    Ok [PN [PL 0; PL 1; PL 2]; PN [PL 0; PN [PL 1; PL 2]];
        PN [PL 1; PN [PL 0; PL 2]]; PN [PL 2; PN [PL 0; PL 1]]].
Proof. vm_compute. split; reflexivity. Qed.

(* ------------------------------------------------------------------------------
   unrank (rank t) = t for every topology t (children in any listed order), n <= 6 *)
Definition chk_rank_unrank (n : Z) : bool :=
  forallb (fun t => match tree_rank t with
                    | Ok (s, l) => match tree_unrank n s l with
                                   | Ok t' => pt_eqb (pt_canon t') (pt_canon t)
                                   | _ => false
                                   end
                    | _ => false
                    end) (spec_trees n).

Lemma chk_rank_unrank_all : forallb chk_rank_unrank (zrange 1 6) = true.
Proof. vm_compute. reflexivity. Qed.

Lemma rank_then_unrank_bounded n t :
  1 <= n <= 6 -> In t (spec_trees n) ->
  exists s l t', tree_rank t = Ok (s, l) /\ tree_unrank n s l = Ok t' /\ pt_canon t' = pt_canon t.
Proof.
  intros Hn Ht. pose proof chk_rank_unrank_all as A. rewrite forallb_forall in A.
  specialize (A n). assert (In n (zrange 1 6)) as I by (apply In_zrange; lia).
  specialize (A I). unfold chk_rank_unrank in A. rewrite forallb_forall in A.
  specialize (A t Ht).
  destruct (tree_rank t) as [[s l]| | |] eqn:E1; try discriminate.
  destruct (tree_unrank n s l) as [t'| | |] eqn:E2; try discriminate.
  exists s, l, t'. split; [reflexivity|]. split; [exact E2|]. apply pt_eqb_eq, A.
Qed.

(* ------------------------------------------------------------------------------
   rank is invariant under the order of the children of every node, n <= 5 *)
Definition res_rank_eqb (a b : res (Z * Z)) : bool :=
  match a, b with
  | Ok x, Ok y => rank_pair_eqb x y
  | _, _ => false
  end.

Definition chk_child_order (n : Z) : bool :=
  forallb (fun t => forallb (fun t' => res_rank_eqb (tree_rank t') (tree_rank t)) (reorderings t))
          (spec_trees n).

Lemma chk_child_order_all : forallb chk_child_order (zrange 1 5) = true.
Proof. vm_compute. reflexivity. Qed.

Lemma rank_child_order_invariant_bounded n t t' :
  1 <= n <= 5 -> In t (spec_trees n) -> In t' (reorderings t) ->
  exists r, tree_rank t = Ok r /\ tree_rank t' = Ok r.
Proof.
  intros Hn Ht Ht'. pose proof chk_child_order_all as A. rewrite forallb_forall in A.
  specialize (A n). assert (In n (zrange 1 5)) as I by (apply In_zrange; lia).
  specialize (A I). unfold chk_child_order in A. rewrite forallb_forall in A.
  specialize (A t Ht). rewrite forallb_forall in A. specialize (A t' Ht').
  destruct (tree_rank t') as [x| | |], (tree_rank t) as [y| | |]; try discriminate.
  exists y. split; [reflexivity|]. f_equal. apply rank_pair_eqb_eq, A.
Qed.

Example rank_child_order_ex :
  In (PN [PN [PL 3; PL 1]; PL 0; PL 2]) (reorderings (PN [PL 0; PN [PL 1; PL 3]; PL 2])) /\
  tree_rank (PN [PN [PL 3; PL 1]; PL 0; PL 2]) = tree_rank (PN [PL 0; PN [PL 1; PL 3]; PL 2]).
Proof. vm_compute. split; [|reflexivity]. auto 10. Qed.

(* ------------------------------------------------------------------------------
   F13 (historical, repaired by /repo commit 7829e32): the PINNED variant of
   children_shape_ranks accepted every shape rank when n = 1 (num_shapes 1 = 1, so only
   rank 0 is valid); the current model -- the one the correspondence uses -- rejects it. *)
Lemma unrank_oor_n1_pinned_refuted_w :
  exists s, num_shapes 1 = Ok 1 /\ s >= 1 /\
            children_shape_ranks_pinned s 1 = Ok ([], []) /\
            children_shape_ranks s 1 = Err E_RANK /\
            tree_unrank 1 s 0 = Err E_RANK.
Proof. exists 5. vm_compute. repeat split; discriminate. Qed.

(* for every n in 1..5 the first out-of-range shape rank and label rank are rejected
   (the unbounded statements are in OorProofs.v) *)
Definition chk_oor (n : Z) : bool :=
  match num_shapes n with
  | Ok nS =>
      match tree_unrank n nS 0 with Err 1 => true | _ => false end &&
      forallb (fun s => match num_labellings n s with
                        | Ok N => match tree_unrank n s N with Err 1 => true | _ => false end
                        | _ => false
                        end) (zrange 0 (Z.to_nat nS))
  | _ => false
  end.

Lemma chk_oor_all : forallb chk_oor (zrange 1 5) = true.
Proof. vm_compute. reflexivity. Qed.
