(* Model of tskit/combinatorics.py: num_shapes, num_tree_pairings, num_labellings,
   class RankTree and the helper functions children_shape_ranks, children_label_ranks,
   group_rank, group_label_ranks, num_list_of_group_labellings, num_group_labellings,
   num_assignments_in_group, and the enumeration generators (lines 654-1340).
   Definitions only.  Python ints are Z; `//` and `%` are Z.div / Z.modulo (both floor,
   as in Python) behind a checked wrapper that reports a zero divisor.

   A Python RankTree object stores  children, num_leaves, labels  and the lazily cached
   _shape_rank / _label_rank.  Every function of the ranking code reads, of a child,
   only these fields plus the pure method num_labellings().  The model therefore keeps,
   in every node, the values these accessors return:
     rk / srk  = what c.shape_rank() returns (cached by shape_unrank / label_unrank,
                 otherwise computed by compute_shape_rank on first use),
     lrk       = what c.label_rank() returns,
     nl        = c.num_leaves,   labels = c.labels,
     nlab      = what c.num_labellings() returns (pure; memoised here).
   A node built by RankTree(children=...) without cache assignment is built by the
   *_fresh constructors, which evaluate compute_shape_rank / compute_label_rank. *)
From Coq Require Import List ZArith Bool Lia.
From TskVerif Require Import Base.Common C15.Combination C15.Partitions.
Import ListNotations.
Open Scope Z_scope.

(* error classes *)
Definition E_RANK : Z := 1.     (* ValueError("Rank is out of bounds.") *)
Definition E_ZDIV : Z := 2.     (* ZeroDivisionError *)
Definition E_INDEX : Z := 3.    (* IndexError / list.index ValueError / g[0] of an empty group *)
Definition E_UNARY : Z := 4.    (* ValueError("Cannot rank trees with unary nodes") *)
Definition E_LABELS : Z := 5.   (* ValueError("Labels set must be equivalent to [0, num_leaves)") *)
Definition E_ASSERT : Z := 6.   (* AssertionError *)
Definition E_RECURSION : Z := 7. (* RecursionError in Combination.from_range_rank *)

Definition zdiv (a b : Z) : res Z := if b =? 0 then Err E_ZDIV else Ok (a / b).
Definition zmod (a b : Z) : res Z := if b =? 0 then Err E_ZDIV else Ok (a mod b).
Definition of_opt {A} (code : Z) (o : option A) : res A :=
  match o with Some a => Ok a | None => Err code end.
Definition of_fuel {A} (o : option A) : res A :=
  match o with Some a => Ok a | None => Fuel end.

Fixpoint rmap {A B} (f : A -> res B) (l : list A) : res (list B) :=
  match l with
  | [] => Ok []
  | x :: r => do y <- f x; do ys <- rmap f r; Ok (y :: ys)
  end.

Fixpoint rflat_map {A B} (f : A -> res (list B)) (l : list A) : res (list B) :=
  match l with
  | [] => Ok []
  | x :: r => do y <- f x; do ys <- rflat_map f r; Ok (y ++ ys)
  end.

Definition zsum (l : list Z) : Z := fold_right Z.add 0 l.
Definition zlength {A} (l : list A) : Z := Z.of_nat (length l).

(* ------------------------------------------------------------------------------
   num_tree_pairings(part)                                         (1140-1154)
     total = 1
     for g in group_partition(part): total *= comb_with_replacement(num_shapes(g[0]), len(g))
   num_shapes(n) (lru_cache)                                       (1129-1137)
     n if n <= 1 else sum(num_tree_pairings(part) for part in partitions(n))
   The mutual recursion descends to strictly smaller n; the model memoises exactly as
   lru_cache does: [ns_table m] holds num_shapes(0..m), built bottom-up. *)
Fixpoint ntp_groups (ns : Z -> res Z) (gs : list (list Z)) : res Z :=
  match gs with
  | [] => Ok 1
  | g :: r =>
      match g with
      | [] => Err E_INDEX
      | k :: _ =>
          do s <- ns k;
          do t <- ntp_groups ns r;
          Ok (comb_with_replacement s (zlength g) * t)
      end
  end.

Definition ntp_with (ns : Z -> res Z) (part : list Z) : res Z :=
  ntp_groups ns (group_partition part).

Fixpoint sum_ntp (ns : Z -> res Z) (parts : list (list Z)) : res Z :=
  match parts with
  | [] => Ok 0
  | p :: r => do a <- ntp_with ns p; do b <- sum_ntp ns r; Ok (a + b)
  end.

Definition ns_lookup (tab : list Z) (n : Z) : res Z :=
  if n <=? 1 then Ok n else get tab n.

Definition num_shapes_step (tab : list Z) (n : Z) : res Z :=
  if n <=? 1 then Ok n else
  do ps <- partitions n; sum_ntp (ns_lookup tab) ps.

Fixpoint ns_table (m : nat) : res (list Z) :=
  match m with
  | O => Ok [0]
  | S m' =>
      do t <- ns_table m';
      do v <- num_shapes_step t (Z.of_nat (S m'));
      Ok (t ++ [v])
  end.

Definition num_shapes (n : Z) : res Z :=
  if n <=? 1 then Ok n else
  do t <- ns_table (Z.to_nat n); get t n.

Definition num_tree_pairings (part : list Z) : res Z := ntp_with num_shapes part.

(* ------------------------------------------------------------------------------
   What the ranking code reads of a child tree. *)
Record cs := mkcs { c_nl : Z; c_srk : Z; c_nlab : Z; c_lrk : Z; c_labels : list Z }.

Definition same_num_leaves (a b : cs) : bool := c_nl a =? c_nl b.
Definition same_shape (a b : cs) : bool := (c_nl a =? c_nl b) && (c_srk a =? c_srk b).

(* num_assignments_in_group(g)                                     (1293-1306) *)
Fixpoint naig_loop (g : list cs) (n : Z) : Z :=
  match g with
  | [] => 1
  | t :: r => comb (n - 1) (c_nl t - 1) * naig_loop r (n - c_nl t)
  end.
Definition num_assignments_in_group (g : list cs) : Z :=
  naig_loop g (zsum (map c_nl g)).

(* num_group_labellings(g) = num_assignments_in_group(g) * g[0].num_labellings() ** len(g)
                                                                   (1281-1290) *)
Definition num_group_labellings (g : list cs) : res Z :=
  match g with
  | [] => Err E_INDEX
  | g0 :: _ => Ok (num_assignments_in_group g * c_nlab g0 ^ zlength g)
  end.

(* num_list_of_group_labellings(groups)                            (1263-1278) *)
Fixpoint group_sizes (groups : list (list cs)) : res (list Z) :=
  match groups with
  | [] => Ok []
  | g :: r => match g with
              | [] => Err E_INDEX
              | g0 :: _ => do l <- group_sizes r; Ok (zlength g * c_nl g0 :: l)
              end
  end.

Fixpoint nlgl_loop (groups : list (list cs)) (remaining : Z) : res Z :=
  match groups with
  | [] => Ok 1
  | g :: r =>
      match g with
      | [] => Err E_INDEX
      | g0 :: _ =>
          let k := c_nl g0 in
          let x := zlength g in
          do ngl <- num_group_labellings g;
          do rest <- nlgl_loop r (remaining - x * k);
          Ok (comb remaining (x * k) * ngl * rest)
      end
  end.

Definition num_list_of_group_labellings (groups : list (list cs)) : res Z :=
  do sz <- group_sizes groups;
  nlgl_loop groups (zsum sz).

(* RankTree.num_labellings(self)                                   (812-814) *)
Definition node_num_labellings (children : list cs) : res Z :=
  num_list_of_group_labellings (group_by children same_shape).

(* heapq.merge( *lists ): repeatedly output the smallest head, ties to the earliest list *)
Fixpoint merge2 (a : list Z) : list Z -> list Z :=
  match a with
  | [] => fun b => b
  | x :: a' =>
      fix inner (b : list Z) : list Z :=
        match b with
        | [] => a
        | y :: b' => if x <=? y then x :: merge2 a' b else y :: inner b'
        end
  end.
Definition merge_all (ls : list (list Z)) : list Z := fold_left merge2 ls [].

(* ------------------------------------------------------------------------------
   RankTree.compute_shape_rank(self)                               (719-758) *)
Fixpoint sum_until (parts : list (list Z)) (part : list Z) : res Z :=
  match parts with
  | [] => Ok 0
  | p :: r =>
      if zlist_eqb p part then Ok 0
      else do a <- num_tree_pairings p; do b <- sum_until r part; Ok (a + b)
  end.

Fixpoint csr_groups (gs : list (list cs)) (next : nat) (part : list Z) : res Z :=
  match gs with
  | [] => Ok 0
  | g :: r =>
      let next' := (next + length g)%nat in
      match g with
      | [] => Err E_INDEX
      | g0 :: _ =>
          do S_k <- num_shapes (c_nl g0);
          do g_rank <- of_fuel (with_replacement_rank (map c_srk g) S_k);
          do total_rest <- num_tree_pairings (skipn next' part);
          do rest <- csr_groups r next' part;
          Ok (g_rank * total_rest + rest)
      end
  end.

Definition node_num_leaves (children : list cs) : Z :=
  match children with [] => 1 | _ => zsum (map c_nl children) end.

Definition compute_shape_rank (children : list cs) : res Z :=
  let part := map c_nl children in
  do ps <- partitions (node_num_leaves children);
  do total <- sum_until ps part;
  do rest <- csr_groups (group_by children same_num_leaves) 0 part;
  Ok (total + rest).

(* ------------------------------------------------------------------------------
   group_rank(g)                                                   (1232-1258) *)
Fixpoint prod_rest_combs (remaining_leaves k : Z) (j : Z) (cnt : nat) : Z :=
  (* prod_{j' = j}^{j+cnt-1} comb(remaining_leaves - j'*k - 1, k - 1) *)
  match cnt with
  | O => 1
  | S c => comb (remaining_leaves - j * k - 1) (k - 1) * prod_rest_combs remaining_leaves k (j + 1) c
  end.

Fixpoint group_rank_loop (ts : list cs) (i len_g k n y : Z) (all_labels : list Z) : res Z :=
  match ts with
  | [] => Ok 0
  | t :: r =>
      let u_labels := c_labels t in
      let curr_trees := len_g - i in
      do comb_rk <- of_opt E_INDEX (comb_rank u_labels all_labels);
      let remaining_leaves := n - (i + 1) * k in
      let num_rest_combs := prod_rest_combs remaining_leaves k 0 (Z.to_nat (curr_trees - 1)) in
      let preceding_combs := comb_rk * num_rest_combs * y ^ curr_trees in
      let curr_comb := c_lrk t * num_rest_combs * y ^ (curr_trees - 1) in
      do rest <- group_rank_loop r (i + 1) len_g k n y (set_minus all_labels u_labels);
      Ok (preceding_combs + curr_comb + rest)
  end.

Definition group_rank (g : list cs) : res Z :=
  match g with
  | [] => Err E_INDEX
  | g0 :: _ =>
      let k := c_nl g0 in
      let n := zlength g * k in
      group_rank_loop g 0 (zlength g) k n (c_nlab g0) (merge_all (map c_labels g))
  end.

(* RankTree.compute_label_rank(self)                               (760-808) *)
Fixpoint clr_loop (groups : list (list cs)) (all_labels : list Z) : res Z :=
  match groups with
  | [] => Ok 0
  | g :: rest_groups =>
      let g_labels := merge_all (map c_labels g) in
      do num_rest_labellings <- num_list_of_group_labellings rest_groups;
      do comb_rk <- of_opt E_INDEX (comb_rank g_labels all_labels);
      do num_g_labellings <- num_group_labellings g;
      let preceding_comb := comb_rk * num_g_labellings * num_rest_labellings in
      do grk <- group_rank g;
      let rank_from_g := grk * num_rest_labellings in
      do rest <- clr_loop rest_groups (set_minus all_labels g_labels);
      Ok (preceding_comb + rank_from_g + rest)
  end.

Definition compute_label_rank (children : list cs) (labels : list Z) : res Z :=
  clr_loop (group_by children same_shape) labels.

(* ------------------------------------------------------------------------------
   children_shape_ranks(rank, n)                                   (1161-1196)
   The for/else (after fix 7829e32): when no partition was selected the error is raised
   unless n == 1 and the remaining rank is 0 (the single one-leaf shape).
   [children_shape_ranks_pinned] below is the pre-fix variant (error skipped for every
   rank when n == 1), kept only as the historical record of finding F13. *)
Fixpoint csr_find (parts : list (list Z)) (rank : Z) : res (option (list Z) * Z) :=
  match parts with
  | [] => Ok (None, rank)
  | p :: r =>
      do np <- num_tree_pairings p;
      if rank <? np then Ok (Some p, rank) else csr_find r (rank - np)
  end.

Fixpoint csr_unrank_groups (gs : list (list Z)) (next : nat) (part : list Z) (rank : Z)
  : res (list Z) :=
  match gs with
  | [] => Ok []
  | g :: r =>
      let next' := (next + length g)%nat in
      match g with
      | [] => Err E_INDEX
      | k :: _ =>
          do rest_num_pairings <- num_tree_pairings (skipn next' part);
          do shapes_comb_rank <- zdiv rank rest_num_pairings;
          do nsk <- num_shapes k;
          do g_shape_ranks <- of_fuel (with_replacement_unrank shapes_comb_rank nsk (length g));
          do rank' <- zmod rank rest_num_pairings;
          do rest <- csr_unrank_groups r next' part rank';
          Ok (g_shape_ranks ++ rest)
      end
  end.

Definition children_shape_ranks (rank n : Z) : res (list Z * list Z) :=
  do ps <- partitions n;
  do f <- csr_find ps rank;
  let '(sel, rank') := f in
  do part <- match sel with
             | Some p => Ok p
             | None => if (n =? 1) && (rank' =? 0) then Ok [] else Err E_RANK
             end;
  do child_ranks <- csr_unrank_groups (group_partition part) 0 part rank';
  Ok (part, child_ranks).

(* the pinned (pre-fix, commit 380c75d) behaviour:  else: if n != 1: raise *)
Definition children_shape_ranks_pinned (rank n : Z) : res (list Z * list Z) :=
  do ps <- partitions n;
  do f <- csr_find ps rank;
  let '(sel, rank') := f in
  do part <- match sel with
             | Some p => Ok p
             | None => if n =? 1 then Ok [] else Err E_RANK
             end;
  do child_ranks <- csr_unrank_groups (group_partition part) 0 part rank';
  Ok (part, child_ranks).

(* ------------------------------------------------------------------------------
   Unlabelled trees. *)
Inductive shape : Type := Sh (rk nl nlab : Z) (ch : list shape).

Definition sh_rk (s : shape) := let '(Sh rk _ _ _) := s in rk.
Definition sh_nl (s : shape) := let '(Sh _ nl _ _) := s in nl.
Definition sh_nlab (s : shape) := let '(Sh _ _ nlab _) := s in nlab.
Definition sh_ch (s : shape) := let '(Sh _ _ _ ch) := s in ch.
Definition summary_s (s : shape) : cs := mkcs (sh_nl s) (sh_rk s) (sh_nlab s) 0 [].

(* RankTree(children=ch) followed by  t._shape_rank = rk *)
Definition mk_shape (rk : Z) (ch : list shape) : res shape :=
  let cl := map summary_s ch in
  do nlab <- node_num_labellings cl;
  Ok (Sh rk (node_num_leaves cl) nlab ch).

(* RankTree(children=ch) with the rank computed on demand *)
Definition mk_shape_fresh (ch : list shape) : res shape :=
  do rk <- compute_shape_rank (map summary_s ch);
  mk_shape rk ch.

(* RankTree.shape_unrank(n, shape_rank)                            (843-856)
   The children have strictly fewer leaves; fuel = recursion depth (n suffices). *)
Fixpoint shape_unrank (fuel : nat) (n shape_rank : Z) : res shape :=
  match fuel with
  | O => Fuel
  | S f =>
      do pc <- children_shape_ranks shape_rank n;
      let '(part, child_shape_ranks) := pc in
      do children <- rmap (fun kr => shape_unrank f (fst kr) (snd kr))
                          (combine part child_shape_ranks);
      mk_shape shape_rank children
  end.

(* num_labellings(n, shape_rk)                                     (1157-1158) *)
Definition num_labellings (n shape_rk : Z) : res Z :=
  do s <- shape_unrank (S (Z.to_nat n)) n shape_rk; Ok (sh_nlab s).

(* ------------------------------------------------------------------------------
   group_label_ranks(rank, child_group, labels)                    (1309-1340) *)
Fixpoint group_label_ranks (rank : Z) (child_group : list cs) (labels : list Z)
  : res (list (list Z) * list Z) :=
  match child_group with
  | [] => Ok ([], [])
  | t :: rest_trees =>
      let k := c_nl t in
      let num_t_labellings := c_nlab t in
      let num_rest_assignments := num_assignments_in_group rest_trees in
      let num_rest_labellings := num_rest_assignments * num_t_labellings ^ zlength rest_trees in
      let num_labellings_per_label_comb := num_t_labellings * num_rest_labellings in
      do comb_rk <- zdiv rank num_labellings_per_label_comb;
      do rank_given_comb <- zmod rank num_labellings_per_label_comb;
      do t_rank <- zdiv rank_given_comb num_rest_labellings;
      do rank' <- zmod rank num_rest_labellings;
      match labels with
      | [] => Err E_INDEX
      | min_label :: labels_tl =>
          do others <- of_opt E_RANK (unrank comb_rk labels_tl (Z.to_nat (k - 1)));
          let t_labels := min_label :: others in
          do r <- group_label_ranks rank' rest_trees (set_minus labels t_labels);
          Ok (t_labels :: fst r, t_rank :: snd r)
      end
  end.

(* children_label_ranks(child_groups, rank, labels)                (1199-1229) *)
Fixpoint children_label_ranks (child_groups : list (list cs)) (rank : Z) (labels : list Z)
  : res (list (list Z) * list Z) :=
  match child_groups with
  | [] => Ok ([], [])
  | g :: rest_groups =>
      match g with
      | [] => Err E_INDEX
      | g0 :: _ =>
          let k := c_nl g0 in
          let g_num_leaves := k * zlength g in
          do num_g_labellings <- num_group_labellings g;
          do num_rest_labellings <- num_list_of_group_labellings rest_groups;
          let num_labellings_per_label_comb := num_g_labellings * num_rest_labellings in
          do comb_rk <- zdiv rank num_labellings_per_label_comb;
          do rank_given_label_comb <- zmod rank num_labellings_per_label_comb;
          do g_rank <- zdiv rank_given_label_comb num_rest_labellings;
          do g_labels <- of_opt E_RANK (unrank comb_rk labels (Z.to_nat g_num_leaves));
          do gl <- group_label_ranks g_rank g g_labels;
          do rank' <- zmod rank num_rest_labellings;
          do r <- children_label_ranks rest_groups rank' (set_minus labels g_labels);
          Ok (fst gl ++ fst r, snd gl ++ snd r)
      end
  end.

(* ------------------------------------------------------------------------------
   Labelled trees. *)
Inductive ltree : Type := LT (srk lrk nl nlab : Z) (labels : list Z) (ch : list ltree).

Definition lt_srk (t : ltree) := let '(LT a _ _ _ _ _) := t in a.
Definition lt_lrk (t : ltree) := let '(LT _ a _ _ _ _) := t in a.
Definition lt_nl (t : ltree) := let '(LT _ _ a _ _ _) := t in a.
Definition lt_nlab (t : ltree) := let '(LT _ _ _ a _ _) := t in a.
Definition lt_labels (t : ltree) := let '(LT _ _ _ _ a _) := t in a.
Definition lt_ch (t : ltree) := let '(LT _ _ _ _ _ a) := t in a.
Definition summary_l (t : ltree) : cs :=
  mkcs (lt_nl t) (lt_srk t) (lt_nlab t) (lt_lrk t) (lt_labels t).

(* RankTree.__init__: labels = [label] for a leaf, else heapq.merge of the children's *)
Definition node_labels (cl : list cs) (label : Z) : list Z :=
  match cl with [] => [label] | _ => merge_all (map c_labels cl) end.

(* RankTree(children=ch, label=label); ranks computed on demand *)
Definition mk_ltree_fresh (ch : list ltree) (label : Z) : res ltree :=
  let cl := map summary_l ch in
  let labels := node_labels cl label in
  do srk <- compute_shape_rank cl;
  do lrk <- compute_label_rank cl labels;
  do nlab <- node_num_labellings cl;
  Ok (LT srk lrk (node_num_leaves cl) nlab labels ch).

(* RankTree(children=ch) followed by t._shape_rank = srk; t._label_rank = lrk *)
Definition mk_ltree_cached (srk lrk : Z) (ch : list ltree) : res ltree :=
  let cl := map summary_l ch in
  do nlab <- node_num_labellings cl;
  Ok (LT srk lrk (node_num_leaves cl) nlab (node_labels cl 0) ch).

(* RankTree.label_unrank(self, label_rank, labels)                 (858-885) *)
Fixpoint label_unrank (s : shape) (label_rank : Z) (labels : list Z) {struct s} : res ltree :=
  match s with
  | Sh rk _ _ ch =>
      match ch with
      | [] =>
          if negb (label_rank =? 0) then Err E_RANK else
          match labels with
          | [] => Err E_INDEX
          | l :: _ => mk_ltree_fresh [] l
          end
      | _ =>
          let child_groups := group_by (map summary_s ch) same_shape in
          do clr <- children_label_ranks child_groups label_rank labels;
          let '(child_labels, child_label_ranks) := clr in
          do labelled <-
             (fix go (cs : list shape) (rs : list Z) (ls : list (list Z)) : res (list ltree) :=
                match cs, rs, ls with
                | c :: cs', r :: rs', l :: ls' =>
                    do t <- label_unrank c r l; do ts <- go cs' rs' ls'; Ok (t :: ts)
                | _, _, _ => Ok []
                end) ch child_label_ranks child_labels;
          mk_ltree_cached rk label_rank labelled
      end
  end.

(* RankTree.unrank(num_leaves, rank, labels=None)                  (830-841) *)
Definition default_labels (n : Z) : list Z := zrange 0 (Z.to_nat n).

Definition rt_unrank_labels (num_leaves shape_rank label_rank : Z) (labels : list Z) : res ltree :=
  if (shape_rank <? 0) || (label_rank <? 0) then Err E_RANK else
  do unlabelled <- shape_unrank (S (Z.to_nat num_leaves)) num_leaves shape_rank;
  label_unrank unlabelled label_rank labels.

Definition rt_unrank (num_leaves shape_rank label_rank : Z) : res ltree :=
  if (shape_rank <? 0) || (label_rank <? 0) then Err E_RANK else
  do unlabelled <- shape_unrank (S (Z.to_nat num_leaves)) num_leaves shape_rank;
  label_unrank unlabelled label_rank (default_labels (sh_nl unlabelled)).

(* ------------------------------------------------------------------------------
   Plain trees = what a tskit.Tree with one root gives: leaves carry node ids, the
   children of an internal node come in some order. *)
Inductive pt : Type := PL (label : Z) | PN (ch : list pt).

(* RankTree.to_tsk_tree: structure + leaf labels; requires set(labels) = {0..n-1}  (917-955) *)
Fixpoint to_plain (t : ltree) : pt :=
  match t with
  | LT _ _ _ _ labels ch =>
      match ch with
      | [] => PL (hd 0 labels)
      | _ => PN (map to_plain ch)
      end
  end.

Definition labels_are_range (labels : list Z) (n : Z) : bool :=
  forallb (fun l => (0 <=? l) && (l <? n)) labels &&
  forallb (fun i => zmem i labels) (zrange 0 (Z.to_nat n)).

Definition to_tsk_tree (t : ltree) : res pt :=
  if labels_are_range (lt_labels t) (lt_nl t) then Ok (to_plain t) else Err E_LABELS.

(* Tree.unrank(num_leaves, rank)                                   (trees.py 879-902) *)
Definition tree_unrank (num_leaves shape_rank label_rank : Z) : res pt :=
  do t <- rt_unrank num_leaves shape_rank label_rank; to_tsk_tree t.

(* RankTree.canonical_order(c) = (num_leaves, shape_rank, min_label); sorted() is stable *)
Definition canon_key_le (a b : ltree) : bool :=
  let ka := (lt_nl a, lt_srk a, hd 0 (lt_labels a)) in
  let kb := (lt_nl b, lt_srk b, hd 0 (lt_labels b)) in
  if lt_nl a <? lt_nl b then true else if lt_nl b <? lt_nl a then false else
  if lt_srk a <? lt_srk b then true else if lt_srk b <? lt_srk a then false else
  hd 0 (lt_labels a) <=? hd 0 (lt_labels b).

Fixpoint insert_sorted {A} (le : A -> A -> bool) (x : A) (l : list A) : list A :=
  match l with
  | [] => [x]
  | y :: r => if le x y then x :: l else y :: insert_sorted le x r
  end.
(* stable: scanning from the right and inserting before the first not-smaller element
   keeps equal keys in input order *)
Definition stable_sort {A} (le : A -> A -> bool) (l : list A) : list A :=
  fold_right (insert_sorted le) [] l.

(* RankTree.from_tsk_tree_node(tree, u)                            (894-908) *)
Fixpoint from_plain (t : pt) : res ltree :=
  match t with
  | PL u => mk_ltree_fresh [] u
  | PN ch =>
      match ch with
      | [] => Err E_INDEX                  (* not representable: a childless node is a leaf *)
      | [_] => Err E_UNARY
      | _ =>
          do cl <- (fix go (l : list pt) : res (list ltree) :=
                      match l with
                      | [] => Ok []
                      | c :: r => do x <- from_plain c; do xs <- go r; Ok (x :: xs)
                      end) ch;
          mk_ltree_fresh (stable_sort canon_key_le cl) 0
      end
  end.

(* Tree.rank()                                                     (trees.py 868-876) *)
Definition tree_rank (t : pt) : res (Z * Z) :=
  do r <- from_plain t; Ok (lt_srk r, lt_lrk r).

(* ------------------------------------------------------------------------------
   Enumeration generators (as lists).  itertools.combinations_with_replacement is
   [cwr_list] (Combination.v). *)
(* RankTree.all_unlabelled_trees(n) / all_subtree_pairings(grouped_part)   (965-994) *)
Definition all_subtree_pairings_with (rec : Z -> res (list shape))
  : list (list Z) -> res (list (list shape)) :=
  fix asp (grouped_part : list (list Z)) : res (list (list shape)) :=
    match grouped_part with
    | [] => Ok [[]]
    | g :: rest =>
        match g with
        | [] => Err E_INDEX
        | k :: _ =>
            do all_k <- rec k;
            do rests <- asp rest;
            Ok (flat_map (fun first_trees => map (fun r => first_trees ++ r) rests)
                         (cwr_list (length g) all_k))
        end
    end.

Fixpoint all_unlabelled_trees (fuel : nat) (n : Z) : res (list shape) :=
  match fuel with
  | O => Fuel
  | S f =>
      if n =? 1 then do s <- mk_shape_fresh []; Ok [s] else
      do ps <- partitions n;
      rflat_map (fun part =>
                   do pairings <- all_subtree_pairings_with (all_unlabelled_trees f)
                                                            (group_partition part);
                   rmap mk_shape_fresh pairings) ps
  end.

(* RankTree.all_labellings / label_all_groups / label_tree_group           (996-1042) *)
Definition same_shape_s (a b : shape) : bool := same_shape (summary_s a) (summary_s b).

Definition label_tree_group_with (rec : shape -> list Z -> res (list ltree))
  : list shape -> list Z -> res (list (list ltree)) :=
  fix ltg (trees : list shape) (labels : list Z) : res (list (list ltree)) :=
    match trees with
    | [] => match labels with [] => Ok [[]] | _ => Err E_ASSERT end
    | first :: rest =>
        let k := sh_nl first in
        match labels with
        | [] => Err E_INDEX
        | min_label :: labels_tl =>
            rflat_map (fun first_other_labels =>
                         let first_labels := min_label :: first_other_labels in
                         let rest_labels := set_minus labels first_labels in
                         do lfs <- rec first first_labels;
                         do lrs <- ltg rest rest_labels;
                         Ok (flat_map (fun lf => map (cons lf) lrs) lfs))
                      (combs labels_tl (Z.to_nat (k - 1)))
        end
    end.

Definition label_all_groups_with (rec : shape -> list Z -> res (list ltree))
  : list (list shape) -> list Z -> res (list (list ltree)) :=
  fix lag (groups : list (list shape)) (labels : list Z) : res (list (list ltree)) :=
    match groups with
    | [] => Ok [[]]
    | g :: rest =>
        match g with
        | [] => Err E_INDEX
        | g0 :: _ =>
            let x := zlength g in
            let k := sh_nl g0 in
            rflat_map (fun g_labels =>
                         let rest_labels := set_minus labels g_labels in
                         do lgs <- label_tree_group_with rec g g_labels;
                         do lrs <- lag rest rest_labels;
                         Ok (flat_map (fun lg => map (fun lr => lg ++ lr) lrs) lgs))
                      (combs labels (Z.to_nat (x * k)))
        end
    end.

Fixpoint all_labellings (fuel : nat) (tree : shape) (labels : list Z) : res (list ltree) :=
  match fuel with
  | O => Fuel
  | S f =>
      match sh_ch tree with
      | [] => match labels with
              | [l] => do t <- mk_ltree_fresh [] l; Ok [t]
              | _ => Err E_ASSERT
              end
      | ch =>
          do lcs <- label_all_groups_with (all_labellings f) (group_by ch same_shape_s) labels;
          rmap (fun lc => mk_ltree_fresh lc 0) lcs
      end
  end.

(* RankTree.all_labelled_trees(n)                                  (957-963) *)
Definition all_labelled_trees (n : Z) : res (list ltree) :=
  let fuel := S (Z.to_nat n) in
  do shapes <- all_unlabelled_trees fuel n;
  rflat_map (fun s => all_labellings fuel s (default_labels (sh_nl s))) shapes.

(* tskit.all_trees(n), all_tree_shapes(n), all_tree_labellings(tree)   (654-696) *)
Definition all_trees (n : Z) : res (list pt) :=
  do ts <- all_labelled_trees n; rmap to_tsk_tree ts.

Definition all_tree_shapes (n : Z) : res (list pt) :=
  do shapes <- all_unlabelled_trees (S (Z.to_nat n)) n;
  rmap (fun s => do t <- label_unrank s 0 (default_labels (sh_nl s)); to_tsk_tree t) shapes.

Fixpoint shape_of_l (t : ltree) : shape :=
  match t with LT srk _ nl nlab _ ch => Sh srk nl nlab (map shape_of_l ch) end.

Definition all_tree_labellings (t : pt) : res (list pt) :=
  do r <- from_plain t;
  do ls <- all_labellings (S (Z.to_nat (lt_nl r))) (shape_of_l r) (default_labels (lt_nl r));
  rmap to_tsk_tree ls.

(* ------------------------------------------------------------------------------
   Canonical form of a plain tree used to compare with the implementation: children
   sorted by their smallest leaf label (leaf labels are distinct). *)
Fixpoint pt_min (t : pt) : Z :=
  match t with
  | PL l => l
  | PN ch => match map pt_min ch with [] => 0 | m :: r => fold_left Z.min r m end
  end.

Fixpoint pt_canon (t : pt) : pt :=
  match t with
  | PL l => PL l
  | PN ch => PN (stable_sort (fun a b => pt_min a <=? pt_min b) (map pt_canon ch))
  end.

Fixpoint pt_eqb (a b : pt) {struct a} : bool :=
  match a, b with
  | PL x, PL y => x =? y
  | PN xs, PN ys =>
      (fix go (xs ys : list pt) {struct xs} : bool :=
         match xs, ys with
         | [], [] => true
         | x :: xs', y :: ys' => pt_eqb x y && go xs' ys'
         | _, _ => false
         end) xs ys
  | _, _ => false
  end.
