(* Combination.with_replacement_rank / with_replacement_unrank are mutually inverse
   bijections between the k-multisets over [0,n), listed in lexicographic order
   ([cwr_list], the itertools.combinations_with_replacement order), and
   [0, multichoose(n,k)).  Unbounded proofs.  The unrank helper does NOT reject
   out-of-range ranks (witness at the end). *)
From Coq Require Import List ZArith Bool Lia Arith.
From TskVerif Require Import Base.Common C15.Combination C15.CombProofs C15.CombRankProofs.
Import ListNotations.
Open Scope Z_scope.

(* ---- generic loop facts ---- *)
Section LoopFacts.
  Context {St Out : Type}.
  Variable step : St -> res (St + Out).

  Lemma iter_nat_add a : forall b s,
    iter_nat step (a + b) s =
      match iter_nat step a s with
      | Ok (inl s') => iter_nat step b s'
      | r => r
      end.
  Proof.
    induction a as [|a IH]; intros b s; simpl; [reflexivity|].
    destruct (step s) as [[s'|o]| | |]; try reflexivity. apply IH.
  Qed.

  Lemma iter_pow_nat d : forall s, iter_pow step d s = iter_nat step (2 ^ d) s.
  Proof.
    induction d as [|d IH]; intros s.
    - simpl. destruct (step s) as [[s'|o]| | |]; reflexivity.
    - cbn [iter_pow]. replace (2 ^ S d)%nat with (2 ^ d + 2 ^ d)%nat by (simpl; lia).
      rewrite iter_nat_add, IH.
      destruct (iter_nat step (2 ^ d) s) as [[s'|o]| | |]; try reflexivity. apply IH.
  Qed.

  Lemma iter_nat_mono f g s o :
    iter_nat step f s = Ok (inr o) -> (f <= g)%nat -> iter_nat step g s = Ok (inr o).
  Proof.
    intros H L. replace g with (f + (g - f))%nat by lia.
    rewrite iter_nat_add, H. reflexivity.
  Qed.
End LoopFacts.

(* ---- counting ---- *)
Fixpoint mchoose (n k : nat) : nat :=
  match k with
  | O => 1%nat
  | S k' => (fix aux (n : nat) : nat :=
               match n with O => 0%nat | S n' => (mchoose (S n') k' + aux n')%nat end) n
  end.

Lemma mchoose_0 k : mchoose 0 (S k) = 0%nat.
Proof. reflexivity. Qed.

Lemma mchoose_S n k : mchoose (S n) (S k) = (mchoose (S n) k + mchoose n (S k))%nat.
Proof. reflexivity. Qed.

Lemma binom_0 n : binom n 0 = 1%nat.
Proof. destruct n; reflexivity. Qed.

Lemma mchoose_binom : forall k n, mchoose (S n) k = binom (n + k) k.
Proof.
  induction k as [|k IHk]; intros n.
  - rewrite binom_0. reflexivity.
  - induction n as [|n IHn].
    + rewrite mchoose_S, mchoose_0, IHk. simpl plus. rewrite !binom_diag. reflexivity.
    + rewrite mchoose_S, IHk, IHn.
      replace (S n + S k)%nat with (S (S n + k)) by lia.
      replace (n + S k)%nat with (S n + k)%nat by lia.
      reflexivity.
Qed.

Lemma binom_pos : forall k a, (k <= a)%nat -> (1 <= binom a k)%nat.
Proof.
  induction k as [|k IHk]; intros a L; [rewrite binom_0; lia|].
  destruct a as [|a]; [lia|].
  change (binom (S a) (S k)) with (binom a k + binom a (S k))%nat.
  specialize (IHk a). lia.
Qed.

Lemma cwr_mchoose n k :
  comb_with_replacement (Z.of_nat (S n)) (Z.of_nat k) = Z.of_nat (mchoose (S n) k).
Proof.
  unfold comb_with_replacement.
  replace (Z.of_nat (S n) + Z.of_nat k - 1) with (Z.of_nat (n + k)) by lia.
  rewrite comb_binom_nat by lia. rewrite mchoose_binom. reflexivity.
Qed.

Lemma cwr_list_cons {A} k (e : A) rest :
  cwr_list (S k) (e :: rest) = map (cons e) (cwr_list k (e :: rest)) ++ cwr_list (S k) rest.
Proof. reflexivity. Qed.

Lemma cwr_list_nil {A} k : @cwr_list A (S k) [] = [].
Proof. reflexivity. Qed.

Lemma cwr_list_length {A} : forall k (pool : list A),
  length (cwr_list k pool) = mchoose (length pool) k.
Proof.
  induction k as [|k IHk]; intros pool; [reflexivity|].
  induction pool as [|e rest IHp]; [reflexivity|].
  rewrite cwr_list_cons, app_length, map_length, IHk, IHp. reflexivity.
Qed.

(* ---- the closed form of the rank ---- *)
Fixpoint nondecr_from (lo : Z) (c : list Z) : Prop :=
  match c with
  | [] => True
  | x :: r => lo <= x /\ nondecr_from x r
  end.

Fixpoint G (off : Z) (c : list Z) (n : Z) : Z :=
  match c with
  | [] => 0
  | x :: rest =>
      let j := x - off in
      sum_cwr n (Z.of_nat (length rest)) 0 (Z.to_nat j) + G x rest (n - j)
  end.

Lemma G_cons off x rest n :
  G off (x :: rest) n =
    sum_cwr n (Z.of_nat (length rest)) 0 (Z.to_nat (x - off)) + G x rest (n - (x - off)).
Proof. reflexivity. Qed.

Lemma G_shift d : forall c off n, G off c n = G (off - d) (map (fun x => x - d) c) n.
Proof.
  induction c as [|x rest IH]; intros off n; [reflexivity|].
  cbn [G map]. rewrite map_length.
  replace (x - d - (off - d)) with (x - off) by lia.
  f_equal. rewrite (IH x). reflexivity.
Qed.

Lemma comb_k0 n : comb n 0 = 1.
Proof.
  unfold comb. replace (Z.to_nat (Z.min 0 (n - 0))) with 0%nat by lia. reflexivity.
Qed.

Lemma sum_cwr_k0 n : forall cnt i0, sum_cwr n 0 i0 cnt = Z.of_nat cnt.
Proof.
  induction cnt as [|c IH]; intros i0; [reflexivity|].
  cbn [sum_cwr]. rewrite IH. unfold comb_with_replacement. rewrite comb_k0. lia.
Qed.

Lemma sum_cwr_shift n km1 : forall cnt i0,
  sum_cwr (n + 1) km1 (i0 + 1) cnt = sum_cwr n km1 i0 cnt.
Proof.
  induction cnt as [|c IH]; intros i0; [reflexivity|].
  cbn [sum_cwr]. rewrite IH. f_equal. f_equal. lia.
Qed.

Lemma nondecr_map d : forall c lo,
  nondecr_from lo c -> nondecr_from (lo - d) (map (fun x => x - d) c).
Proof.
  induction c as [|x r IH]; intros lo H; [exact I|].
  destruct H as [H1 H2]. split; [lia | apply IH, H2].
Qed.

(* the model's recursion (with its k = 1 and j = 0 shortcuts) computes G *)
Lemma wr_rank_f_G : forall fuel c n,
  (length c < fuel)%nat -> nondecr_from 0 c -> wr_rank_f fuel c n = Some (G 0 c n).
Proof.
  induction fuel as [|f IH]; intros c n Hf Hs; [lia|].
  destruct c as [|j rest]; [reflexivity|].
  destruct rest as [|y rest'].
  - cbn [wr_rank_f G length]. destruct Hs as [Hj _].
    rewrite sum_cwr_k0. f_equal. replace (j - 0) with j by lia. lia.
  - destruct Hs as [Hj [Hy Hr]].
    cbn [wr_rank_f]. destruct (j =? 0) eqn:E.
    + apply Z.eqb_eq in E. subst j.
      rewrite IH; [| simpl in *; lia | split; [lia | exact Hr]].
      rewrite (G_cons 0 0). replace (0 - 0) with 0 by lia. cbn [Z.to_nat sum_cwr].
      replace (n - 0) with n by lia. reflexivity.
    + rewrite IH.
      * rewrite G_cons. replace (j - 0) with j by lia.
        replace (Z.of_nat (length (j :: y :: rest')) - 1) with (Z.of_nat (length (y :: rest')))
          by (cbn [length]; lia).
        f_equal. f_equal.
        rewrite (G_shift j (y :: rest') j (n - j)). replace (j - j) with 0 by lia. reflexivity.
      * rewrite map_length. simpl in *. lia.
      * pose proof (nondecr_map j (y :: rest') j (conj Hy Hr)) as P.
        replace (j - j) with 0 in P by lia. exact P.
Qed.

(* ---- rank of the r-th multiset ---- *)
Lemma rank_spec_G : forall k m lo r c,
  nth_error (cwr_list k (zrange lo m)) r = Some c ->
  G lo c (Z.of_nat m) = Z.of_nat r /\ nondecr_from lo c /\ length c = k.
Proof.
  induction k as [|k IHk]; intros m lo r c H.
  - simpl in H. destruct r; [|destruct r; discriminate]. inversion H; subst.
    repeat split.
  - revert lo r c H. induction m as [|m IHm]; intros lo r c H.
    + simpl in H. destruct r; discriminate.
    + cbn [zrange] in H. rewrite cwr_list_cons in H.
      change (lo :: zrange (lo + 1) m) with (zrange lo (S m)) in H.
      destruct (lt_dec r (mchoose (S m) k)) as [Hlt|Hge].
      * rewrite nth_error_app1 in H
          by (rewrite map_length, cwr_list_length, zrange_length; exact Hlt).
        rewrite nth_error_map_cons in H.
        destruct (nth_error (cwr_list k (zrange lo (S m))) r) as [c1|] eqn:E1; [|discriminate].
        inversion H; subst c. destruct (IHk (S m) lo r c1 E1) as [G1 [S1 L1]].
        split; [|split; [split; [lia | exact S1] | simpl; congruence]].
        cbn [G]. replace (lo - lo) with 0 by lia. cbn [Z.to_nat sum_cwr].
        replace (Z.of_nat (S m) - 0) with (Z.of_nat (S m)) by lia. rewrite G1. lia.
      * rewrite nth_error_app2 in H
          by (rewrite map_length, cwr_list_length, zrange_length; lia).
        rewrite map_length, cwr_list_length, zrange_length in H.
        destruct (IHm (lo + 1) _ c H) as [G1 [S1 L1]].
        destruct c as [|x rest]; [discriminate|].
        destruct S1 as [Hx S1]. simpl in L1.
        split; [|split; [split; [lia | exact S1] | simpl; lia]].
        cbn [G] in G1 |- *.
        replace (Z.to_nat (x - lo)) with (S (Z.to_nat (x - (lo + 1)))) by lia.
        cbn [sum_cwr].
        replace (sum_cwr (Z.of_nat (S m)) (Z.of_nat (length rest)) (0 + 1) (Z.to_nat (x - (lo + 1))))
          with (sum_cwr (Z.of_nat m) (Z.of_nat (length rest)) 0 (Z.to_nat (x - (lo + 1))))
          by (rewrite <- sum_cwr_shift; f_equal; lia).
        replace (Z.of_nat (S m) - (x - lo)) with (Z.of_nat m - (x - (lo + 1))) by lia.
        replace (Z.of_nat (S m) - 0) with (Z.of_nat (S m)) by lia.
        assert (length rest = k) by lia. subst k.
        rewrite cwr_mchoose. lia.
Qed.

Lemma wr_rank_spec n k r c :
  nth_error (cwr_list k (zrange 0 n)) r = Some c ->
  with_replacement_rank c (Z.of_nat n) = Some (Z.of_nat r).
Proof.
  intros H. destruct (rank_spec_G k n 0 r c H) as [G1 [S1 _]].
  unfold with_replacement_rank. rewrite wr_rank_f_G by (try lia; exact S1).
  rewrite G1. reflexivity.
Qed.

(* ---- unrank of the r-th multiset ---- *)
Lemma unrank_loop_spec k n : forall m lo r c f i,
  n - i = Z.of_nat m ->
  nth_error (cwr_list (S k) (zrange lo m)) r = Some c ->
  (r < f)%nat ->
  exists x c1 r1 m1,
    c = x :: c1 /\
    iter_nat (wr_unrank_step n (Z.of_nat k)) f (Z.of_nat r, i) = Ok (inr (Z.of_nat r1, i + (x - lo))) /\
    lo <= x /\ n - (i + (x - lo)) = Z.of_nat m1 /\
    nth_error (cwr_list k (zrange x m1)) r1 = Some c1.
Proof.
  induction m as [|m IH]; intros lo r c f i Hn H Hf.
  - simpl in H. destruct r; discriminate.
  - destruct f as [|f]; [lia|].
    cbn [zrange] in H. rewrite cwr_list_cons in H.
    change (lo :: zrange (lo + 1) m) with (zrange lo (S m)) in H.
    cbn [iter_nat wr_unrank_step].
    replace (n - i) with (Z.of_nat (S m)) by lia. rewrite cwr_mchoose.
    destruct (lt_dec r (mchoose (S m) k)) as [Hlt|Hge].
    + rewrite nth_error_app1 in H
        by (rewrite map_length, cwr_list_length, zrange_length; exact Hlt).
      rewrite nth_error_map_cons in H.
      destruct (nth_error (cwr_list k (zrange lo (S m))) r) as [c1|] eqn:E1; [|discriminate].
      inversion H; subst c.
      replace (Z.of_nat r >=? Z.of_nat (mchoose (S m) k)) with false
        by (symmetry; rewrite Z.geb_leb; apply Z.leb_gt; lia).
      exists lo, c1, r, (S m). replace (i + (lo - lo)) with i by lia.
      repeat split; try assumption; lia.
    + rewrite nth_error_app2 in H
        by (rewrite map_length, cwr_list_length, zrange_length; lia).
      rewrite map_length, cwr_list_length, zrange_length in H.
      replace (Z.of_nat r >=? Z.of_nat (mchoose (S m) k)) with true
        by (symmetry; rewrite Z.geb_leb; apply Z.leb_le; lia).
      assert (Hpos: (1 <= mchoose (S m) k)%nat).
      { rewrite mchoose_binom. apply binom_pos. lia. }
      replace (Z.of_nat r - Z.of_nat (mchoose (S m) k)) with (Z.of_nat (r - mchoose (S m) k)) by lia.
      destruct (IH (lo + 1) (r - mchoose (S m) k)%nat c f (i + 1)) as [x [c1 [r1 [m1 [E [It [Hx [Hm1 Hn1]]]]]]]];
        [lia | exact H | lia |].
      exists x, c1, r1, m1.
      replace (i + (x - lo)) with (i + 1 + (x - (lo + 1))) by lia.
      repeat split; try assumption; lia.
Qed.

Lemma pow2_log2 r : 0 <= r -> (Z.to_nat r < 2 ^ S (Z.to_nat (Z.log2 r)))%nat.
Proof.
  intros Hr. destruct (Z.eq_dec r 0) as [->|Hne]; [simpl; lia|].
  assert (0 < r) as Hp by lia.
  pose proof (Z.log2_spec r Hp) as [_ Hu].
  pose proof (Z.log2_nonneg r) as Hl.
  apply Nat2Z.inj_lt. rewrite Nat2Z.inj_pow. rewrite Z2Nat.id by lia.
  replace (Z.of_nat (S (Z.to_nat (Z.log2 r)))) with (Z.succ (Z.log2 r)) by lia.
  exact Hu.
Qed.

Lemma wr_unrank_spec_gen : forall k m lo r c,
  nth_error (cwr_list k (zrange lo m)) r = Some c ->
  with_replacement_unrank (Z.of_nat r) (Z.of_nat m) k = Some (map (fun y => y - lo) c).
Proof.
  induction k as [|k IHk]; intros m lo r c H.
  - simpl in H. destruct r; [|destruct r; discriminate]. inversion H; subst. reflexivity.
  - assert (P1: Z.of_nat m - 0 = Z.of_nat m) by lia.
    assert (P3: (r < S r)%nat) by lia.
    destruct (unrank_loop_spec k (Z.of_nat m) m lo r c (S r) 0 P1 H P3)
      as [x [c1 [r1 [m1 [E [It [Hx [Hm1 Hn1]]]]]]]].
    cbn [with_replacement_unrank]. unfold wr_unrank_loop.
    rewrite iter_pow_nat.
    rewrite (iter_nat_mono _ _ _ _ _ It)
      by (pose proof (pow2_log2 (Z.of_nat r)); rewrite Nat2Z.id in *; lia).
    replace (Z.of_nat m - (0 + (x - lo))) with (Z.of_nat m1) by lia.
    rewrite (IHk m1 x r1 c1 Hn1). subst c. cbn [map]. f_equal. f_equal.
    rewrite map_map. apply map_ext. intros; lia.
Qed.

(* unrank o rank = id, rank o unrank = id, on the lexicographic list of k-multisets of [0,n) *)
Lemma wr_unrank_spec n k r c :
  nth_error (cwr_list k (zrange 0 n)) r = Some c ->
  with_replacement_unrank (Z.of_nat r) (Z.of_nat n) k = Some c.
Proof.
  intros H. rewrite (wr_unrank_spec_gen k n 0 r c H).
  rewrite (map_ext (fun y => y - 0) (fun y => y)) by (intros; lia). rewrite map_id. reflexivity.
Qed.

Lemma wr_rank_unrank_bijection n k :
  length (cwr_list k (zrange 0 n)) = mchoose n k /\
  forall r c, nth_error (cwr_list k (zrange 0 n)) r = Some c ->
    with_replacement_rank c (Z.of_nat n) = Some (Z.of_nat r) /\
    with_replacement_unrank (Z.of_nat r) (Z.of_nat n) k = Some c.
Proof.
  split.
  - rewrite cwr_list_length, zrange_length. reflexivity.
  - intros r c H. split; [eapply wr_rank_spec | eapply wr_unrank_spec]; exact H.
Qed.

Example wr_bijection_ex :
  cwr_list 2 (zrange 0 3) = [[0;0];[0;1];[0;2];[1;1];[1;2];[2;2]] /\
  with_replacement_rank [1;2] 3 = Some 4 /\ with_replacement_unrank 4 3 2 = Some [1;2] /\
  mchoose 3 2 = 6%nat /\ comb_with_replacement 3 2 = 6.
Proof. vm_compute. repeat split. Qed.

(* the members of the specification list are exactly the non-decreasing k-sequences over
   the pool [lo, lo+m) *)
Lemma cwr_list_members : forall k m lo c,
  In c (cwr_list k (zrange lo m)) ->
  length c = k /\ nondecr_from lo c /\ Forall (fun x => x < lo + Z.of_nat m) c.
Proof.
  intros k m lo c H. apply In_nth_error in H as [r H].
  destruct (rank_spec_G k m lo r c H) as [_ [S1 L1]]. split; [exact L1|]. split; [exact S1|].
  clear S1 L1. revert m lo r c H. induction k as [|k IHk]; intros m lo r c H.
  - simpl in H. destruct r; [|destruct r; discriminate]. inversion H. constructor.
  - revert lo r c H. induction m as [|m IHm]; intros lo r c H.
    + simpl in H. destruct r; discriminate.
    + cbn [zrange] in H. rewrite cwr_list_cons in H.
      change (lo :: zrange (lo + 1) m) with (zrange lo (S m)) in H.
      destruct (lt_dec r (mchoose (S m) k)) as [Hlt|Hge].
      * rewrite nth_error_app1 in H
          by (rewrite map_length, cwr_list_length, zrange_length; exact Hlt).
        rewrite nth_error_map_cons in H.
        destruct (nth_error (cwr_list k (zrange lo (S m))) r) as [c1|] eqn:E1; [|discriminate].
        inversion H; subst c. constructor; [lia|]. eapply IHk; exact E1.
      * rewrite nth_error_app2 in H
          by (rewrite map_length, cwr_list_length, zrange_length; lia).
        specialize (IHm (lo + 1) _ c H). eapply Forall_impl; [|exact IHm].
        intros a Ha. simpl in Ha. lia.
Qed.

(* The helper does NOT reject out-of-range ranks (comb returns 1 outside 0 <= k <= n, so the
   while loop walks past n): rank 5 among the single 1-multiset over [0,1) gives [5].
   Every call made by children_shape_ranks is in range (rank // rest < cwr(num_shapes k, |g|)),
   which is why this is not observable through Tree.unrank. *)
Lemma wr_unrank_oor_not_rejected :
  mchoose 1 1 = 1%nat /\ with_replacement_unrank 5 1 1 = Some [5].
Proof. vm_compute. split; reflexivity. Qed.

(* the while loop always terminates within its bound: comb >= 1 everywhere *)
Lemma comb_pos n k : 1 <= comb n k.
Proof.
  destruct (Z_lt_dec k 0) as [Hk|Hk]; [rewrite comb_out_of_range by lia; lia|].
  destruct (Z_lt_dec n k) as [Hn|Hn]; [rewrite comb_out_of_range by lia; lia|].
  replace n with (Z.of_nat (Z.to_nat n)) by lia. replace k with (Z.of_nat (Z.to_nat k)) by lia.
  rewrite comb_binom_nat by lia.
  pose proof (binom_pos (Z.to_nat k) (Z.to_nat n)). lia.
Qed.

Lemma wr_unrank_loop_total n km1 : forall f rank i,
  (Z.to_nat rank < f)%nat ->
  exists o, iter_nat (wr_unrank_step n km1) f (rank, i) = Ok (inr o).
Proof.
  induction f as [|f IH]; intros rank i Hf; [lia|].
  cbn [iter_nat wr_unrank_step].
  destruct (rank >=? comb_with_replacement (n - i) km1) eqn:E; [|eauto].
  rewrite Z.geb_leb in E. apply Z.leb_le in E.
  pose proof (comb_pos (n - i + km1 - 1) km1) as P. unfold comb_with_replacement in *.
  apply IH. lia.
Qed.

Lemma wr_unrank_total : forall k rank n, exists l, with_replacement_unrank rank n k = Some l.
Proof.
  induction k as [|k IH]; intros rank n; [eexists; reflexivity|].
  cbn [with_replacement_unrank]. unfold wr_unrank_loop. rewrite iter_pow_nat.
  destruct (wr_unrank_loop_total n (Z.of_nat k) (2 ^ S (Z.to_nat (Z.log2 rank))) rank 0) as [[r' i'] Ho].
  - destruct (Z_lt_dec rank 0) as [L|L].
    + replace (Z.to_nat rank) with 0%nat by lia. apply Nat.lt_le_trans with 1%nat; [lia|].
      clear. induction (S (Z.to_nat (Z.log2 rank))); simpl; lia.
    + apply pow2_log2. lia.
  - rewrite Ho. destruct (IH r' (n - i')) as [l Hl]. rewrite Hl. eexists; reflexivity.
Qed.
