(* Model of tskit/combinatorics.py: rule_asc, partitions, group_by, group_partition
   (lines 1457-1508).  Definitions only. *)
From Coq Require Import List ZArith Bool Lia.
From TskVerif Require Import Base.Common C15.Combination.
Import ListNotations.
Open Scope Z_scope.

(* ------------------------------------------------------------------------------
   rule_asc(n)                                              (combinatorics.py 1472-1489)
     a = [0 for _ in range(n + 1)]; k = 1; a[1] = n
     while k != 0:
         x = a[k - 1] + 1; y = a[k] - 1; k -= 1
         while x <= y: a[k] = x; y -= x; k += 1
         a[k] = x + y
         yield a[: k + 1]
   The array is a list with checked get/set: an index outside [0,n] is OOB
   (Python: IndexError; note Python would wrap a negative index, the model reports
   it).  rule_asc(0) and rule_asc(negative) are OOB at "a[1] = n". *)
Fixpoint asc_inner (fuel : nat) (a : list Z) (k x y : Z) : res (list Z * Z * Z) :=
  match fuel with
  | O => Fuel
  | S f =>
      if x <=? y then
        match set a k x with
        | Ok a' => asc_inner f a' (k + 1) x (y - x)
        | Err c => Err c | OOB => OOB | Fuel => Fuel
        end
      else Ok (a, k, y)
  end.

Definition asc_state : Type := (list Z * Z * list (list Z))%type.   (* a, k, yielded (reversed) *)

Definition asc_step (s : asc_state) : res (asc_state + list (list Z)) :=
  let '(a, k, acc) := s in
  if k =? 0 then Ok (inr (rev acc)) else
  do x0 <- get a (k - 1);
  do y0 <- get a k;
  let x := x0 + 1 in
  let y := y0 - 1 in
  do r <- asc_inner (S (Z.to_nat y)) a (k - 1) x y;
  let '(a1, k1, y1) := r in
  do a2 <- set a1 k1 (x + y1);
  Ok (inl (a2, k1, firstn (Z.to_nat (k1 + 1)) a2 :: acc)).

Definition asc_init (n : Z) : res asc_state :=
  do a <- set (repeat 0 (Z.to_nat (n + 1))) 1 n;
  Ok (a, 1, []).

(* number of loop turns available: 2^(n+1) >= p(n) + 1 *)
Definition rule_asc (n : Z) : res (list (list Z)) :=
  do s <- asc_init n;
  match iter_pow asc_step (Z.to_nat n + 1) s with
  | Ok (inr l) => Ok l
  | Ok (inl _) => Fuel
  | Err c => Err c | OOB => OOB | Fuel => Fuel
  end.

(* the same with explicit unary fuel (used by the bounded theorems) *)
Definition rule_asc_fuel (fuel : nat) (n : Z) : res (list (list Z)) :=
  do s <- asc_init n;
  match iter_nat asc_step fuel s with
  | Ok (inr l) => Ok l
  | Ok (inl _) => Fuel
  | Err c => Err c | OOB => OOB | Fuel => Fuel
  end.

(* partitions(n): if n > 0: takewhile(lambda a: len(a) > 1, rule_asc(n))   (1461-1469) *)
Fixpoint takewhile {A} (p : A -> bool) (l : list A) : list A :=
  match l with
  | [] => []
  | x :: r => if p x then x :: takewhile p r else []
  end.

Definition partitions (n : Z) : res (list (list Z)) :=
  if 0 <? n then
    do l <- rule_asc n;
    Ok (takewhile (fun a => (1 <? Z.of_nat (length a))) l)
  else Ok [].

(* ------------------------------------------------------------------------------
   group_by(values, equal)                                  (combinatorics.py 1492-1504)
     a new group starts when  not equal(x, curr_group[0]) *)
Fixpoint group_by_aux {A} (equal : A -> A -> bool) (values : list A)
         (groups : list (list A)) (cur : list A) : list (list A) :=
  match values with
  | [] => match cur with [] => groups | _ => groups ++ [cur] end
  | x :: r =>
      match cur with
      | [] => group_by_aux equal r groups [x]
      | c0 :: _ => if equal x c0 then group_by_aux equal r groups (cur ++ [x])
                   else group_by_aux equal r (groups ++ [cur]) [x]
      end
  end.

Definition group_by {A} (values : list A) (equal : A -> A -> bool) : list (list A) :=
  group_by_aux equal values [] [].

Definition group_partition (part : list Z) : list (list Z) := group_by part Z.eqb.

(* ------------------------------------------------------------------------------
   Specification used by the theorems: the ascending compositions of n (partitions of
   n written as non-decreasing sequences) with all parts >= m, in lexicographic order.
   [fuel] bounds the recursion depth (n itself suffices). *)
Fixpoint asc_spec (fuel : nat) (m n : Z) : list (list Z) :=
  match fuel with
  | O => []
  | S f =>
      flat_map (fun x => map (cons x) (asc_spec f x (n - x)))
               (zrange m (Z.to_nat (n / 2 - m + 1)))
      ++ (if m <=? n then [[n]] else [])
  end.

Definition asc_compositions (n : Z) : list (list Z) := asc_spec (Z.to_nat n) 1 n.
