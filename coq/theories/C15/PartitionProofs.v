(* rule_asc / partitions.
   (1) The specification list [asc_compositions n] contains exactly the ascending
       compositions of n (non-decreasing sequences of positive integers with sum n), each
       once -- unbounded proof.
   (2) rule_asc n = asc_compositions n for every 1 <= n <= 30 -- bounded, by evaluation;
       the unbounded statement is kept as a comment in Props/C15.v. *)
From Coq Require Import List ZArith Bool Lia Arith.
From TskVerif Require Import Base.Common C15.Combination C15.Partitions C15.RankTree
  C15.CombRankProofs C15.WRProofs C15.RankTreeBounded.
Import ListNotations.
Open Scope Z_scope.

Definition zsum' (l : list Z) : Z := fold_right Z.add 0 l.

(* ---- (1) the specification list ---- *)
Lemma asc_spec_sound : forall fuel m n c,
  1 <= m -> In c (asc_spec fuel m n) ->
  nondecr_from m c /\ zsum' c = n /\ c <> [].
Proof.
  induction fuel as [|f IH]; intros m n c Hm H; [destruct H|].
  cbn [asc_spec] in H. apply in_app_or in H as [H|H].
  - apply in_flat_map in H as [x [Hx H]]. apply in_map_iff in H as [c' [<- H]].
    apply In_zrange in Hx.
    destruct (IH x (n - x) c') as [S1 [S2 S3]]; [lia | exact H |].
    split; [split; [lia | exact S1]|]. split; [simpl; lia | discriminate].
  - destruct (m <=? n) eqn:E; [|destruct H]. apply Z.leb_le in E.
    destruct H as [<-|[]]. split; [split; [lia | exact I]|]. split; [simpl; lia | discriminate].
Qed.

Lemma nondecr_sum_ge : forall c x, nondecr_from x c -> c <> [] -> x <= zsum' c \/ x <= 0.
Proof.
  induction c as [|y r IH]; intros x H N; [congruence|].
  destruct H as [H1 H2]. destruct r as [|z r'].
  - simpl. lia.
  - destruct (IH y H2) as [L|L]; [discriminate | simpl in *; lia | simpl in *; lia].
Qed.

Lemma asc_spec_complete : forall fuel m n c,
  1 <= m -> (length c <= fuel)%nat ->
  nondecr_from m c -> zsum' c = n -> c <> [] -> In c (asc_spec fuel m n).
Proof.
  induction fuel as [|f IH]; intros m n c Hm Hf S1 S2 S3.
  { destruct c; [congruence | simpl in Hf; lia]. }
  cbn [asc_spec]. apply in_or_app.
  destruct c as [|x r]; [congruence|]. destruct S1 as [Hx Sr].
  destruct r as [|y r'].
  - right. simpl in S2. replace (m <=? n) with true by (symmetry; apply Z.leb_le; lia).
    left. f_equal. lia.
  - left. apply in_flat_map. exists x.
    assert (x <= zsum' (y :: r')).
    { destruct (nondecr_sum_ge (y :: r') x Sr) as [L|L]; [discriminate | exact L | lia]. }
    simpl in S2. simpl in H.
    assert (x <= n / 2) by (apply Z.div_le_lower_bound; lia).
    split.
    + apply In_zrange. lia.
    + apply in_map. apply IH; try lia; try assumption; try discriminate.
      * simpl in *. lia.
      * simpl. lia.
Qed.

Lemma nondecr_length_le_sum : forall c m, 1 <= m -> nondecr_from m c -> Z.of_nat (length c) <= zsum' c.
Proof.
  induction c as [|x r IH]; intros m Hm H; [simpl; lia|].
  destruct H as [H1 H2]. specialize (IH x). simpl length. simpl zsum'.
  assert (Z.of_nat (length r) <= zsum' r) by (apply IH; [lia | exact H2]). lia.
Qed.

(* different heads give disjoint blocks; NoDup by induction *)
Lemma NoDup_map_cons {A} (x : A) l : NoDup l -> NoDup (map (cons x) l).
Proof.
  induction 1 as [|c l Hn Hd IH]; simpl; constructor; [|exact IH].
  intros H. apply in_map_iff in H as [c' [E H]]. inversion E; subst. contradiction.
Qed.

Lemma NoDup_flat_map_heads (f : Z -> list (list Z)) : forall xs,
  NoDup xs ->
  (forall x, In x xs -> NoDup (f x)) ->
  (forall x c, In c (f x) -> hd_error c = Some x) ->
  NoDup (flat_map f xs).
Proof.
  induction xs as [|x xs IH]; intros Hn Hf Hh; simpl; [constructor|].
  inversion Hn; subst.
  assert (D: forall c, In c (f x) -> ~ In c (flat_map f xs)).
  { intros c Hc Hc'. apply in_flat_map in Hc' as [x' [Hx' Hc']].
    apply Hh in Hc. apply Hh in Hc'. congruence. }
  assert (R: NoDup (flat_map f xs)) by (apply IH; [assumption | intros; apply Hf; right; assumption | assumption]).
  revert D. generalize (Hf x (or_introl eq_refl)). generalize (f x) as l.
  intros l Hl. induction Hl as [|c l Hc Hl IHl]; intros D.
  - exact R.
  - simpl. constructor.
    + intros H. apply in_app_or in H as [H|H]; [contradiction|]. apply (D c); [left; reflexivity | exact H].
    + apply IHl. intros c' Hc'. apply D. right. exact Hc'.
Qed.

Lemma zrange_NoDup : forall cnt lo, NoDup (zrange lo cnt).
Proof.
  induction cnt as [|c IH]; intros lo; simpl; constructor; [|apply IH].
  intros H. apply In_zrange in H. lia.
Qed.

Lemma NoDup_app_single {A} (l : list A) a : NoDup l -> ~ In a l -> NoDup (l ++ [a]).
Proof.
  induction 1 as [|x l Hx Hl IH]; intros N; simpl.
  - constructor; [intros []| constructor].
  - constructor.
    + intros H. apply in_app_or in H as [H|[H|[]]]; [contradiction|]. subst. apply N. left. reflexivity.
    + apply IH. intros H. apply N. right. exact H.
Qed.

Lemma asc_spec_NoDup : forall fuel m n, 1 <= m -> NoDup (asc_spec fuel m n).
Proof.
  induction fuel as [|f IH]; intros m n Hm; [constructor|].
  cbn [asc_spec].
  assert (N1: NoDup (flat_map (fun x => map (cons x) (asc_spec f x (n - x)))
                              (zrange m (Z.to_nat (n / 2 - m + 1))))).
  { apply NoDup_flat_map_heads.
    - apply zrange_NoDup.
    - intros x Hx. apply In_zrange in Hx. apply NoDup_map_cons. apply IH. lia.
    - intros x c H. apply in_map_iff in H as [c' [<- _]]. reflexivity. }
  destruct (m <=? n) eqn:E; [|rewrite app_nil_r; exact N1].
  apply NoDup_app_single; [exact N1|].
  intros H. apply in_flat_map in H as [x [Hx H]]. apply in_map_iff in H as [c' [E' H]].
  apply In_zrange in Hx.
  inversion E'; subst.
  apply asc_spec_sound in H as [_ [_ N]]; [congruence | lia].
Qed.

(* the specification: exactly the ascending compositions of n, each once *)
Lemma asc_compositions_spec n c :
  1 <= n ->
  (In c (asc_compositions n) <-> (nondecr_from 1 c /\ zsum' c = n /\ c <> [])).
Proof.
  intros Hn. unfold asc_compositions. split.
  - apply asc_spec_sound. lia.
  - intros [S1 [S2 S3]].
    apply asc_spec_complete; try lia; try assumption.
    pose proof (nondecr_length_le_sum c 1 (Z.le_refl 1) S1). lia.
Qed.

Lemma asc_compositions_NoDup n : NoDup (asc_compositions n).
Proof. apply asc_spec_NoDup. lia. Qed.

(* ---- (2) rule_asc = the specification list, n <= 30 ---- *)
Definition chk_rule_asc (n : Z) : bool :=
  match rule_asc n with
  | Ok l => list_eqb zlist_eqb l (asc_compositions n)
  | _ => false
  end.

Lemma chk_rule_asc_all : forallb chk_rule_asc (zrange 1 30) = true.
Proof. vm_compute. reflexivity. Qed.

Lemma zlist_eqb_eq a b : zlist_eqb a b = true <-> a = b.
Proof. apply list_eqb_eq. intros x y. apply Z.eqb_eq. Qed.

Lemma rule_asc_complete_bounded n : 1 <= n <= 30 -> rule_asc n = Ok (asc_compositions n).
Proof.
  intros Hn. pose proof chk_rule_asc_all as A. rewrite forallb_forall in A.
  specialize (A n). assert (In n (zrange 1 30)) as I by (apply In_zrange; lia).
  specialize (A I). unfold chk_rule_asc in A.
  destruct (rule_asc n) as [l| | |]; try discriminate.
  f_equal. apply (list_eqb_eq zlist_eqb zlist_eqb_eq). exact A.
Qed.

(* partitions(n) = all ascending compositions except [n] *)
Lemma partitions_bounded n : 1 <= n <= 30 ->
  partitions n = Ok (removelast (asc_compositions n)).
Proof.
  intros Hn. assert (A: forallb (fun n => match partitions n with
                                          | Ok l => list_eqb zlist_eqb l (removelast (asc_compositions n))
                                          | _ => false end) (zrange 1 30) = true)
    by (vm_compute; reflexivity).
  rewrite forallb_forall in A. specialize (A n).
  assert (In n (zrange 1 30)) as I by (apply In_zrange; lia). specialize (A I).
  destruct (partitions n) as [l| | |]; try discriminate.
  f_equal. apply (list_eqb_eq zlist_eqb zlist_eqb_eq). exact A.
Qed.

Example rule_asc_ex : rule_asc 5 = Ok [[1;1;1;1;1];[1;1;1;2];[1;1;3];[1;2;2];[1;4];[2;3];[5]].
Proof. vm_compute. reflexivity. Qed.
