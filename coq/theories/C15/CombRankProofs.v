(* Combination.unrank / from_range_rank / rank are mutually inverse bijections between
   the k-subsets of the element list, listed in lexicographic order ([combs], the
   itertools.combinations order), and [0, C(n,k)).  Unbounded proofs. *)
From Coq Require Import List ZArith Bool Lia Arith.
From TskVerif Require Import Base.Common C15.Combination C15.CombProofs.
Import ListNotations.
Open Scope Z_scope.

(* ---- the specification list ---- *)
Lemma combs_length {A} (els : list A) : forall k, length (combs els k) = binom (length els) k.
Proof.
  induction els as [|e r IH]; intros [|k]; simpl; try reflexivity.
  rewrite app_length, map_length, !IH. reflexivity.
Qed.

Lemma combs_short {A} (els : list A) : forall k, (length els < k)%nat -> combs els k = [].
Proof.
  intros k H. pose proof (combs_length els k) as L. rewrite binom_gt in L by exact H.
  destruct (combs els k); [reflexivity | discriminate].
Qed.

Lemma combs_elem_length {A} (els : list A) : forall k c, In c (combs els k) -> length c = k.
Proof.
  induction els as [|e r IH]; intros [|k] c H; simpl in H.
  - destruct H as [<-|[]]; reflexivity.
  - destruct H.
  - destruct H as [<-|[]]; reflexivity.
  - apply in_app_or in H as [H|H].
    + apply in_map_iff in H as [c' [<- H]]. simpl. f_equal. apply IH, H.
    + apply IH, H.
Qed.

(* sub-sequence relation: c is obtained from els by deleting elements *)
Inductive subseq {A} : list A -> list A -> Prop :=
| subseq_nil : forall l, subseq [] l
| subseq_take : forall x c l, subseq c l -> subseq (x :: c) (x :: l)
| subseq_skip : forall x c l, subseq c l -> subseq c (x :: l).

Lemma combs_spec {A} (els : list A) : forall k c,
  In c (combs els k) <-> (subseq c els /\ length c = k).
Proof.
  induction els as [|e r IH]; intros k c.
  - destruct k; simpl.
    + split; [intros [<-|[]]; split; [constructor | reflexivity]|].
      intros [_ L]. destruct c; [left; reflexivity | discriminate].
    + split; [intros []|]. intros [S L]. inversion S; subst. discriminate.
  - destruct k as [|k]; simpl.
    + split; [intros [<-|[]]; split; [constructor | reflexivity]|].
      intros [_ L]. destruct c; [left; reflexivity | discriminate].
    + rewrite in_app_iff, in_map_iff. split.
      * intros [[c' [<- H]]|H].
        -- apply IH in H as [S L]. split; [constructor; exact S | simpl; congruence].
        -- apply IH in H as [S L]. split; [constructor; exact S | exact L].
      * intros [S L]. inversion S; subst.
        -- discriminate.
        -- left. exists c0. split; [reflexivity|]. apply IH. split; [assumption | simpl in L; lia].
        -- right. apply IH. split; assumption.
Qed.

(* ---- unrank ---- *)
Lemma unrank_nil {A} r k : @unrank A r [] (S k) = None.
Proof. reflexivity. Qed.

Lemma unrank_cons {A} r (e : A) rest k :
  unrank r (e :: rest) (S k) =
    if r <? comb (Z.of_nat (length rest)) (Z.of_nat k)
    then match unrank r rest k with Some l => Some (e :: l) | None => None end
    else unrank (r - comb (Z.of_nat (length rest)) (Z.of_nat k)) rest (S k).
Proof.
  cbn [unrank].
  replace (Z.of_nat (length (e :: rest)) - 1) with (Z.of_nat (length rest))
    by (cbn [length]; lia).
  replace (Z.of_nat (S k) - 1) with (Z.of_nat k) by lia.
  destruct (r <? comb (Z.of_nat (length rest)) (Z.of_nat k)); [reflexivity|].
  destruct rest as [|e' rest']; [reflexivity|].
  cbn [unrank].
  replace (Z.of_nat (length (e' :: rest')) - 1) with (Z.of_nat (length rest'))
    by (cbn [length]; lia).
  replace (Z.of_nat (S k) - 1) with (Z.of_nat k) by lia.
  reflexivity.
Qed.

Lemma unrank_short {A} (els : list A) : forall k r, (length els < k)%nat -> unrank r els k = None.
Proof.
  induction els as [|e rest IH]; intros [|k] r H; simpl in H; try lia.
  - reflexivity.
  - rewrite unrank_cons.
    rewrite (IH k) by lia. rewrite (IH (S k)) by lia.
    destruct (_ <? _); reflexivity.
Qed.

Lemma nth_error_map_cons {A} (e : A) l i :
  nth_error (map (cons e) l) i = match nth_error l i with Some c => Some (e :: c) | None => None end.
Proof. rewrite nth_error_map. destruct (nth_error l i); reflexivity. Qed.

(* Combination.unrank returns the r-th combination of the lexicographic list, and
   rejects (None = ValueError) exactly the ranks r >= C(n,k), for every k >= 1 *)
Lemma unrank_spec {A} (els : list A) : forall k r,
  (1 <= k)%nat -> 0 <= r ->
  unrank r els k = nth_error (combs els k) (Z.to_nat r).
Proof.
  induction els as [|e rest IH]; intros k r Hk Hr.
  - destruct k; [lia|]. simpl. destruct (Z.to_nat r); reflexivity.
  - destruct k as [|k]; [lia|].
    destruct (le_lt_dec (S k) (length (e :: rest))) as [Hle|Hgt].
    2:{ rewrite unrank_short by exact Hgt. rewrite combs_short by exact Hgt.
        destruct (Z.to_nat r); reflexivity. }
    rewrite unrank_cons. cbn [combs].
    simpl in Hle.
    rewrite (comb_binom_nat (length rest) k) by lia.
    destruct (r <? Z.of_nat (binom (length rest) k)) eqn:E.
    + apply Z.ltb_lt in E.
      rewrite nth_error_app1 by (rewrite map_length, combs_length; lia).
      rewrite nth_error_map_cons.
      destruct k as [|k'].
      * (* k = 1: the tail call has k = 0 and returns [] ; r must be 0 *)
        assert (B0: binom (length rest) 0 = 1%nat) by (destruct (length rest); reflexivity).
        rewrite B0 in E. assert (r = 0) by lia. subst. simpl.
        destruct rest; reflexivity.
      * rewrite IH by lia. reflexivity.
    + apply Z.ltb_ge in E.
      rewrite nth_error_app2 by (rewrite map_length, combs_length; lia).
      rewrite map_length, combs_length.
      rewrite IH by lia. f_equal. lia.
Qed.

Lemma unrank_out_of_range {A} (els : list A) k r :
  (1 <= k)%nat -> Z.of_nat (binom (length els) k) <= r -> unrank r els k = None.
Proof.
  intros Hk Hr. rewrite unrank_spec by lia.
  apply nth_error_None. rewrite combs_length. lia.
Qed.

Lemma unrank_in_range {A} (els : list A) k r :
  (1 <= k)%nat -> 0 <= r < Z.of_nat (binom (length els) k) ->
  exists c, unrank r els k = Some c /\ nth_error (combs els k) (Z.to_nat r) = Some c.
Proof.
  intros Hk Hr. rewrite unrank_spec by lia.
  destruct (nth_error (combs els k) (Z.to_nat r)) eqn:E; [eauto|].
  apply nth_error_None in E. rewrite combs_length in E. lia.
Qed.

(* ---- from_range_rank ---- *)
Lemma zrange_length lo cnt : length (zrange lo cnt) = cnt.
Proof. revert lo; induction cnt; intros; simpl; [reflexivity | f_equal; auto]. Qed.

Lemma combs_zrange_lower lo cnt : forall k c x,
  In c (combs (zrange lo cnt) k) -> In x c -> lo <= x.
Proof.
  revert lo. induction cnt as [|m IH]; intros lo [|k] c x Hc Hx; simpl in Hc.
  - destruct Hc as [<-|[]]. destruct Hx.
  - destruct Hc.
  - destruct Hc as [<-|[]]. destruct Hx.
  - apply in_app_or in Hc as [Hc|Hc].
    + apply in_map_iff in Hc as [c' [<- Hc]]. destruct Hx as [<-|Hx]; [lia|].
      specialize (IH (lo + 1) k c' x Hc Hx). lia.
    + specialize (IH (lo + 1) (S k) c x Hc Hx). lia.
Qed.

Lemma binom_full m : binom m m = 1%nat.
Proof. apply binom_diag. Qed.

(* the index list handed to from_range_rank is the combination shifted by -lo *)
Lemma from_range_rank_spec : forall m lo k r c fuel,
  nth_error (combs (zrange lo m) k) r = Some c ->
  (m < fuel)%nat ->
  from_range_rank fuel (map (fun x => x - lo) c) (Z.of_nat m) = Some (Z.of_nat r).
Proof.
  induction m as [|m IH]; intros lo k r c fuel Hn Hf.
  - destruct fuel; [lia|]. destruct k; simpl in Hn.
    + destruct r; [|destruct r; discriminate]. inversion Hn; subst. reflexivity.
    + destruct r; discriminate.
  - destruct fuel as [|f]; [lia|].
    assert (Lc: length c = k).
    { apply (combs_elem_length (zrange lo (S m)) k). eapply nth_error_In; eauto. }
    destruct k as [|k].
    + simpl in Hn. destruct r; [|destruct r; discriminate]. inversion Hn; subst. reflexivity.
    + cbn [from_range_rank]. rewrite map_length, Lc.
      destruct (Z.of_nat (S k) =? 0) eqn:E0; [apply Z.eqb_eq in E0; lia|].
      cbn [orb].
      destruct (Z.of_nat (S k) =? Z.of_nat (S m)) eqn:Ekn.
      * (* k = n: the only combination, index 0 *)
        apply Z.eqb_eq in Ekn. assert (k = m) by lia. subst k.
        assert (r < length (combs (zrange lo (S m)) (S m)))%nat
          by (apply nth_error_Some; congruence).
        rewrite combs_length, zrange_length, binom_full in H.
        assert (r = 0)%nat by lia. subst. reflexivity.
      * apply Z.eqb_neq in Ekn.
        assert (Hkm: (k <= m)%nat).
        { destruct (le_lt_dec k m) as [L|G]; [exact L|].
          rewrite combs_short in Hn by (rewrite zrange_length; lia).
          destruct r; discriminate. }
        cbn [zrange combs] in Hn.
        destruct (lt_dec r (binom m k)) as [Hlt|Hge].
        -- rewrite nth_error_app1 in Hn
             by (rewrite map_length, combs_length, zrange_length; exact Hlt).
           rewrite nth_error_map_cons in Hn.
           destruct (nth_error (combs (zrange (lo + 1) m) k) r) as [c1|] eqn:E1; [|discriminate].
           inversion Hn; subst c. cbn [map].
           replace (lo - lo =? 0) with true by (symmetry; apply Z.eqb_eq; lia).
           cbn [tl map]. rewrite map_map.
           replace (Z.of_nat (S m) - 1) with (Z.of_nat m) by lia.
           rewrite (map_ext (fun x => x - lo - 1) (fun x => x - (lo + 1))) by (intros; lia).
           apply (IH (lo + 1) k r c1 f); [exact E1 | lia].
        -- rewrite nth_error_app2 in Hn
             by (rewrite map_length, combs_length, zrange_length; lia).
           rewrite map_length, combs_length, zrange_length in Hn.
           destruct c as [|j c']; [discriminate|].
           assert (lo + 1 <= j).
           { eapply combs_zrange_lower; [eapply nth_error_In; exact Hn | left; reflexivity]. }
           cbn [map].
           replace (j - lo =? 0) with false by (symmetry; apply Z.eqb_neq; lia).
           change ((j - lo - 1) :: map (fun x => x - 1) (map (fun x => x - lo) c'))
             with (map (fun x => x - 1) (map (fun x => x - lo) (j :: c'))).
           rewrite map_map.
           rewrite (map_ext (fun x => x - lo - 1) (fun x => x - (lo + 1))) by (intros; lia).
           replace (Z.of_nat (S m) - 1) with (Z.of_nat m) by lia.
           rewrite (IH (lo + 1) (S k) (r - binom m k)%nat (j :: c') f Hn) by lia.
           replace (Z.of_nat (S k) - 1) with (Z.of_nat k) by lia.
           rewrite (comb_binom_nat m k) by lia.
           f_equal. lia.
Qed.

(* rank o unrank = id and unrank o rank = id on [0,n) *)
Lemma comb_rank_of_nth n k r c :
  nth_error (combs (zrange 0 n) k) r = Some c ->
  from_range_rank (S n) c (Z.of_nat n) = Some (Z.of_nat r).
Proof.
  intros H. pose proof (from_range_rank_spec n 0 k r c (S n) H (Nat.lt_succ_diag_r n)) as P.
  rewrite (map_ext (fun x => x - 0) (fun x => x)) in P by (intros; lia).
  rewrite map_id in P. exact P.
Qed.

Lemma comb_unrank_then_rank n k r c :
  (1 <= k)%nat -> 0 <= r ->
  unrank r (zrange 0 n) k = Some c ->
  from_range_rank (S n) c (Z.of_nat n) = Some r /\ r < Z.of_nat (binom n k).
Proof.
  intros Hk Hr U. rewrite unrank_spec in U by assumption.
  split.
  - rewrite (comb_rank_of_nth n k (Z.to_nat r) c U). f_equal. lia.
  - assert (Z.to_nat r < length (combs (zrange 0 n) k))%nat by (apply nth_error_Some; congruence).
    rewrite combs_length, zrange_length in H. lia.
Qed.

Lemma comb_rank_then_unrank n k c :
  In c (combs (zrange 0 n) k) ->
  exists r, from_range_rank (S n) c (Z.of_nat n) = Some r /\
            0 <= r < Z.of_nat (binom n k) /\
            (k = 0%nat \/ unrank r (zrange 0 n) k = Some c).
Proof.
  intros H. apply In_nth_error in H as [i Hi].
  exists (Z.of_nat i). split; [apply (comb_rank_of_nth n k i c Hi)|].
  assert (i < length (combs (zrange 0 n) k))%nat by (apply nth_error_Some; congruence).
  rewrite combs_length, zrange_length in H. split; [lia|].
  destruct k; [left; reflexivity|]. right.
  rewrite unrank_spec by lia. rewrite Nat2Z.id. exact Hi.
Qed.

(* the combination list of a strictly increasing element list is strictly increasing in
   the lexicographic order: [combs] IS "lexicographic order" *)
Fixpoint lex_lt (a b : list Z) : Prop :=
  match a, b with
  | [], _ :: _ => True
  | x :: a', y :: b' => x < y \/ (x = y /\ lex_lt a' b')
  | _, _ => False
  end.

Inductive chain {A} (R : A -> A -> Prop) : list A -> Prop :=
| chain_nil : chain R []
| chain_one : forall x, chain R [x]
| chain_cons : forall x y l, R x y -> chain R (y :: l) -> chain R (x :: y :: l).

Lemma chain_app {A} (R : A -> A -> Prop) l1 l2 :
  chain R l1 -> chain R l2 ->
  (forall x y, last l1 x = x -> hd y l2 = y -> l1 <> [] -> l2 <> [] -> R (last l1 x) (hd y l2)) ->
  chain R (l1 ++ l2).
Proof.
  intros C1 C2 H. induction C1 as [|x|x y l Rxy C IH].
  - exact C2.
  - destruct l2 as [|y l2]; [constructor|]. simpl. constructor; [|exact C2].
    apply (H x y); try reflexivity; discriminate.
  - simpl. constructor; [exact Rxy|]. apply IH. intros a b Ha Hb N1 N2.
    specialize (H a b). simpl in H. apply H; try assumption. discriminate.
Qed.

Lemma last_In {A} (l : list A) d : l <> [] -> In (last l d) l.
Proof.
  induction l as [|a l IH]; intros N; [congruence|].
  destruct l as [|b l]; [left; reflexivity|]. right. apply IH. discriminate.
Qed.

Lemma chain_map_cons e (l : list (list Z)) : chain lex_lt l -> chain lex_lt (map (cons e) l).
Proof.
  induction 1; simpl; constructor; auto. right. split; [reflexivity | assumption].
Qed.

Lemma combs_lex_sorted : forall cnt lo k, chain lex_lt (combs (zrange lo cnt) k).
Proof.
  induction cnt as [|m IH]; intros lo [|k]; simpl; try constructor.
  apply chain_app.
  - apply chain_map_cons, IH.
  - apply IH.
  - intros x y Hx Hy N1 N2.
    (* last of the first block starts with lo, every combination of the second block
       starts with an element >= lo+1 (or is empty, impossible since k+1 >= 1) *)
    pose proof (last_In (map (cons lo) (combs (zrange (lo + 1) m) k)) x N1) as H.
    apply in_map_iff in H as [c1 [E1 _]].
    assert (In (hd y (combs (zrange (lo + 1) m) (S k))) (combs (zrange (lo + 1) m) (S k))).
    { destruct (combs (zrange (lo + 1) m) (S k)); [congruence | left; reflexivity]. }
    pose proof (combs_elem_length _ _ _ H) as L2.
    destruct (hd y (combs (zrange (lo + 1) m) (S k))) as [|j c2] eqn:E2; [discriminate|].
    rewrite <- E1. simpl. left.
    assert (lo + 1 <= j) by (eapply combs_zrange_lower; [exact H | left; reflexivity]). lia.
Qed.
