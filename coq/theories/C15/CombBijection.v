(* C15 — Combination.unrank is a BIJECTION from [0, C(n,k)) onto the k-subsets of range(n):
   total on the range, injective, and every k-subset is hit (surjectivity is
   comb_rank_then_unrank).  Corollaries of CombRankProofs. *)
From Coq Require Import List ZArith Lia.
From TskVerif Require Import Base.Common C15.Combination C15.CombProofs C15.CombRankProofs.
Import ListNotations.
Open Scope Z_scope.

(* total on the range: every rank below C(len els, k) unranks to a k-subset of els *)
Lemma comb_unrank_total_proof (els : list Z) k r :
  (1 <= k)%nat -> 0 <= r < Z.of_nat (binom (length els) k) ->
  exists c, unrank r els k = Some c /\ In c (combs els k) /\ length c = k.
Proof.
  intros Hk Hr. rewrite (unrank_spec els k r Hk (proj1 Hr)).
  destruct (nth_error (combs els k) (Z.to_nat r)) as [c|] eqn:E.
  - exists c. split; [reflexivity|]. apply nth_error_In in E. split; [exact E|].
    apply (combs_spec els k c) in E. exact (proj2 E).
  - apply nth_error_None in E. rewrite combs_length in E. lia.
Qed.

(* injective: two ranks giving the same combination are equal *)
Lemma comb_unrank_injective_proof n k r1 r2 c :
  (1 <= k)%nat -> 0 <= r1 -> 0 <= r2 ->
  unrank r1 (zrange 0 n) k = Some c -> unrank r2 (zrange 0 n) k = Some c -> r1 = r2.
Proof.
  intros Hk H1 H2 U1 U2.
  destruct (comb_unrank_then_rank n k r1 c Hk H1 U1) as (E1 & _).
  destruct (comb_unrank_then_rank n k r2 c Hk H2 U2) as (E2 & _).
  congruence.
Qed.

(* rank is injective on combinations it accepts as images of unrank: distinct k-subsets
   have distinct ranks *)
Lemma comb_rank_injective_proof n k c1 c2 r :
  (1 <= k)%nat -> In c1 (combs (zrange 0 n) k) -> In c2 (combs (zrange 0 n) k) ->
  from_range_rank (S n) c1 (Z.of_nat n) = Some r -> from_range_rank (S n) c2 (Z.of_nat n) = Some r ->
  c1 = c2.
Proof.
  intros Hk I1 I2 R1 R2.
  destruct (comb_rank_then_unrank n k c1 I1) as (r1 & E1 & _ & [K|U1]); [lia|].
  destruct (comb_rank_then_unrank n k c2 I2) as (r2 & E2 & _ & [K|U2]); [lia|].
  congruence.
Qed.
