(* Specification side for the RankTree theorems: what "a leaf-labelled topology without
   unary nodes on the labels 0..n-1" is, as a predicate and as a brute-force enumerator
   (recursive set partitions), both independent of the ranking code. *)
From Coq Require Import List ZArith Bool Lia Permutation.
From TskVerif Require Import Base.Common C15.Combination C15.Partitions C15.RankTree.
Import ListNotations.
Open Scope Z_scope.

Fixpoint pt_leaves (t : pt) : list Z :=
  match t with
  | PL l => [l]
  | PN ch => flat_map pt_leaves ch
  end.

(* no node has exactly one child, none has zero children *)
Fixpoint pt_unary_free (t : pt) : bool :=
  match t with
  | PL _ => true
  | PN ch => (2 <=? Z.of_nat (length ch)) && forallb pt_unary_free ch
  end.

(* the definition: leaves are exactly 0..n-1, each once; every internal node >= 2 children *)
Definition is_topology (n : Z) (t : pt) : Prop :=
  pt_unary_free t = true /\ Permutation (pt_leaves t) (zrange 0 (Z.to_nat n)).

(* ---- brute-force enumeration ---- *)
(* put x into each block in turn *)
Fixpoint insert_each (x : Z) (p : list (list Z)) : list (list (list Z)) :=
  match p with
  | [] => []
  | b :: r => ((x :: b) :: r) :: map (cons b) (insert_each x r)
  end.

Fixpoint set_partitions (l : list Z) : list (list (list Z)) :=
  match l with
  | [] => [[]]
  | x :: r => flat_map (fun p => ([x] :: p) :: insert_each x p) (set_partitions r)
  end.

(* all ways to pick one element from every list *)
Fixpoint cartesian {A} (ls : list (list A)) : list (list A) :=
  match ls with
  | [] => [[]]
  | l :: r => flat_map (fun x => map (cons x) (cartesian r)) l
  end.

Fixpoint spec_trees_on (fuel : nat) (labels : list Z) : list pt :=
  match fuel with
  | O => []
  | S f =>
      match labels with
      | [l] => [PL l]
      | _ =>
          flat_map (fun p => if (2 <=? Z.of_nat (length p))
                             then map PN (cartesian (map (spec_trees_on f) p))
                             else [])
                   (set_partitions labels)
      end
  end.

Definition spec_trees (n : Z) : list pt :=
  spec_trees_on (S (Z.to_nat n)) (zrange 0 (Z.to_nat n)).

(* all trees obtained from t by reordering the children of every node *)
Fixpoint perms {A} (l : list A) : list (list A) :=
  match l with
  | [] => [[]]
  | x :: r =>
      flat_map (fun p =>
                  (fix ins (pre post : list A) : list (list A) :=
                     match post with
                     | [] => [pre ++ [x]]
                     | y :: post' => (pre ++ x :: post) :: ins (pre ++ [y]) post'
                     end) [] p)
               (perms r)
  end.

Fixpoint reorderings (t : pt) : list pt :=
  match t with
  | PL l => [PL l]
  | PN ch => flat_map (fun cs => map PN (perms cs)) (cartesian (map reorderings ch))
  end.

(* the dense rank ranges: (s, l) for s < num_shapes n, l < num_labellings n s, in order *)
Definition dense_ranks (n : Z) : res (list (Z * Z)) :=
  do S <- num_shapes n;
  rflat_map (fun s => do N <- num_labellings n s;
                      Ok (map (fun l => (s, l)) (zrange 0 (Z.to_nat N))))
            (zrange 0 (Z.to_nat S)).
