(* Model of tskit/combinatorics.py: class Combination (Python big ints = Z). *)
From Coq Require Import List ZArith Bool Lia.
Import ListNotations.
Open Scope Z_scope.

(* Combination.comb: k = min(k, n-k); res = 1; for i in 1..k: res = res*(n-k+i) // i *)
Fixpoint comb_iter (n k : Z) (j : nat) : Z :=
  match j with
  | O => 1
  | S j' => (comb_iter n k j' * (n - k + Z.of_nat j)) / Z.of_nat j
  end.

Definition comb (n k : Z) : Z :=
  let k' := Z.min k (n - k) in comb_iter n k' (Z.to_nat k').

Definition comb_with_replacement (n k : Z) : Z := comb (n + k - 1) k.

(* Combination.from_range_rank(combination, n): the Python recursion either drops the
   head (j == 0) or keeps the list and decrements every element and n.  Fuel bounds the
   recursion depth; [None] = Python's RecursionError (n < len on entry, or a negative
   first element). *)
Fixpoint from_range_rank (fuel : nat) (c : list Z) (n : Z) : option Z :=
  match fuel with
  | O => None
  | S f =>
      let k := Z.of_nat (length c) in
      if (k =? 0) || (k =? n) then Some 0 else
      match c with
      | [] => Some 0
      | j :: _ =>
          let c' := map (fun x => x - 1) c in
          if j =? 0 then from_range_rank f (tl c') (n - 1)
          else match from_range_rank f c' (n - 1) with
               | Some r => Some (comb (n - 1) (k - 1) + r)
               | None => None
               end
      end
  end.

(* Combination.unrank(rank, elements, k); None = ValueError("Rank is out of bounds.") *)
Fixpoint unrank {A} (rank : Z) (elements : list A) (k : nat) : option (list A) :=
  match k with
  | O => Some []
  | S k' =>
      match elements with
      | [] => None
      | e :: rest =>
          let n := Z.of_nat (length elements) in
          let nrc := comb (n - 1) (Z.of_nat k - 1) in
          if rank <? nrc then
            match unrank rank rest k' with Some l => Some (e :: l) | None => None end
          else
            (fix skip (rank : Z) (elements : list A) {struct elements} : option (list A) :=
               match elements with
               | [] => None
               | e :: rest =>
                   let n := Z.of_nat (length elements) in
                   let nrc := comb (n - 1) (Z.of_nat k - 1) in
                   if rank <? nrc then
                     match unrank rank rest k' with Some l => Some (e :: l) | None => None end
                   else skip (rank - nrc) rest
               end) (rank - nrc) rest
      end
  end.
