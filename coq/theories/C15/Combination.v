(* Model of tskit/combinatorics.py: class Combination (Python big ints = Z). *)
From Coq Require Import List ZArith Bool Lia.
From TskVerif Require Import Base.Common.
Import ListNotations.
Open Scope Z_scope.

(* ------------------------------------------------------------------------------
   A generic bounded loop.  [step s] either continues with a new state or stops with
   an output.  [iter_pow d s] runs at most 2^d steps without ever building a large
   unary number ([inl] at the end = the bound was hit).  [iter_nat] is the plain
   unary-fuel version used in proofs. *)
Section Loop.
  Context {St Out : Type}.
  Variable step : St -> res (St + Out).

  Fixpoint iter_nat (f : nat) (s : St) : res (St + Out) :=
    match f with
    | O => Ok (inl s)
    | S f' => match step s with
              | Ok (inl s') => iter_nat f' s'
              | r => r
              end
    end.

  Fixpoint iter_pow (d : nat) (s : St) : res (St + Out) :=
    match d with
    | O => step s
    | S d' => match iter_pow d' s with
              | Ok (inl s') => iter_pow d' s'
              | r => r
              end
    end.
End Loop.

(* Combination.comb: k = min(k, n-k); res = 1; for i in 1..k: res = res*(n-k+i) // i *)
Fixpoint comb_iter (n k : Z) (j : nat) : Z :=
  match j with
  | O => 1
  | S j' => (comb_iter n k j' * (n - k + Z.of_nat j)) / Z.of_nat j
  end.

Definition comb (n k : Z) : Z :=
  let k' := Z.min k (n - k) in comb_iter n k' (Z.to_nat k').

Definition comb_with_replacement (n k : Z) : Z := comb (n + k - 1) k.

(* Combination.from_range_rank(combination, n): the Python recursion either drops the
   head (j == 0) or keeps the list and decrements every element and n.  Fuel bounds the
   recursion depth; [None] = Python's RecursionError (n < len on entry, or a negative
   first element). *)
Fixpoint from_range_rank (fuel : nat) (c : list Z) (n : Z) : option Z :=
  match fuel with
  | O => None
  | S f =>
      let k := Z.of_nat (length c) in
      if (k =? 0) || (k =? n) then Some 0 else
      match c with
      | [] => Some 0
      | j :: _ =>
          let c' := map (fun x => x - 1) c in
          if j =? 0 then from_range_rank f (tl c') (n - 1)
          else match from_range_rank f c' (n - 1) with
               | Some r => Some (comb (n - 1) (k - 1) + r)
               | None => None
               end
      end
  end.

(* Combination.unrank(rank, elements, k); None = ValueError("Rank is out of bounds.") *)
Fixpoint unrank {A} (rank : Z) (elements : list A) (k : nat) : option (list A) :=
  match k with
  | O => Some []
  | S k' =>
      match elements with
      | [] => None
      | e :: rest =>
          let n := Z.of_nat (length elements) in
          let nrc := comb (n - 1) (Z.of_nat k - 1) in
          if rank <? nrc then
            match unrank rank rest k' with Some l => Some (e :: l) | None => None end
          else
            (fix skip (rank : Z) (elements : list A) {struct elements} : option (list A) :=
               match elements with
               | [] => None
               | e :: rest =>
                   let n := Z.of_nat (length elements) in
                   let nrc := comb (n - 1) (Z.of_nat k - 1) in
                   if rank <? nrc then
                     match unrank rank rest k' with Some l => Some (e :: l) | None => None end
                   else skip (rank - nrc) rest
               end) (rank - nrc) rest
      end
  end.

(* ------------------------------------------------------------------------------
   Combination.rank(combination, elements)   (combinatorics.py 1369-1376)
     indices = [elements.index(x) for x in combination]      ValueError if absent
     return Combination.from_range_rank(indices, len(elements))
   Result: None = Python exception (ValueError of list.index, or the unbounded
   recursion of from_range_rank when k > n).  The recursion of from_range_rank
   decrements n at every call and stops at k = 0 or k = n, hence needs at most n+1
   calls whenever k <= n on entry (proved: from_range_rank_fuel_ok in CombRankProofs). *)
Fixpoint index_of (x : Z) (l : list Z) : option Z :=
  match l with
  | [] => None
  | y :: r => if x =? y then Some 0
              else match index_of x r with Some i => Some (i + 1) | None => None end
  end.

Fixpoint indices_of (c elements : list Z) : option (list Z) :=
  match c with
  | [] => Some []
  | x :: r => match index_of x elements, indices_of r elements with
              | Some i, Some l => Some (i :: l)
              | _, _ => None
              end
  end.

Definition comb_rank (combination elements : list Z) : option Z :=
  match indices_of combination elements with
  | None => None
  | Some idx => from_range_rank (S (length elements)) idx (Z.of_nat (length elements))
  end.

(* ------------------------------------------------------------------------------
   Combination.with_replacement_rank(combination, n)     (combinatorics.py 1411-1431)
     k = len(c); if k == 0: return 0
     j = c[0];   if k == 1: return j
     if j == 0:  return wrr(c[1:], n)
     rest = [x - j for x in c[1:]]
     preceding = sum(comb_with_replacement(n - i, k - 1) for i in range(j))
     return preceding + wrr(rest, n - j)
   The list shrinks by one at every call; the fuel is the recursion depth and
   [None] means the fuel ran out (never with fuel > length, wr_rank_fuel_ok). *)
Fixpoint sum_cwr (n km1 : Z) (i0 : Z) (cnt : nat) : Z :=
  (* sum_{i = i0}^{i0+cnt-1} comb_with_replacement (n - i) km1 *)
  match cnt with
  | O => 0
  | S c => comb_with_replacement (n - i0) km1 + sum_cwr n km1 (i0 + 1) c
  end.

Fixpoint wr_rank_f (fuel : nat) (c : list Z) (n : Z) : option Z :=
  match fuel with
  | O => None
  | S f =>
      match c with
      | [] => Some 0
      | [j] => Some j
      | j :: rest =>
          if j =? 0 then wr_rank_f f rest n
          else
            let k := Z.of_nat (length c) in
            let preceding := sum_cwr n (k - 1) 0 (Z.to_nat j) in
            match wr_rank_f f (map (fun x => x - j) rest) (n - j) with
            | Some r => Some (preceding + r)
            | None => None
            end
      end
  end.

Definition with_replacement_rank (c : list Z) (n : Z) : option Z :=
  wr_rank_f (S (length c)) c n.

(* ------------------------------------------------------------------------------
   Combination.with_replacement_unrank(rank, n, k)       (combinatorics.py 1433-1450)
     if k == 0: return []
     i = 0; preceding = cwr(n, k - 1)
     while rank >= preceding: rank -= preceding; i += 1; preceding = cwr(n - i, k - 1)
     rest = wru(rank, n - i, k - 1)
     return [i] + [x + i for x in rest]
   There is NO range check: comb returns 1 outside 0 <= k <= n, so an out-of-range
   rank walks i past n and returns elements >= n (e.g. wru(5,1,1) = [5]).
   The while loop subtracts preceding >= 1 at every turn (comb_pos), so it makes at
   most rank+1 turns; the model allows 2^(log2 rank + 1) > rank turns (iter_pow, so
   that no unary number of the size of a big-integer rank is ever built);
   [None] = that bound was hit (never: wr_unrank_total). *)
Definition wr_unrank_step (n km1 : Z) (s : Z * Z) : res ((Z * Z) + (Z * Z)) :=
  let '(rank, i) := s in
  let preceding := comb_with_replacement (n - i) km1 in
  if rank >=? preceding then Ok (inl (rank - preceding, i + 1)) else Ok (inr (rank, i)).

Definition wr_unrank_loop (rank n km1 : Z) : option (Z * Z) :=
  match iter_pow (wr_unrank_step n km1) (S (Z.to_nat (Z.log2 rank))) (rank, 0) with
  | Ok (inr r) => Some r
  | _ => None
  end.

Fixpoint with_replacement_unrank (rank n : Z) (k : nat) : option (list Z) :=
  match k with
  | O => Some []
  | S k' =>
      match wr_unrank_loop rank n (Z.of_nat k') with
      | None => None
      | Some (rank', i) =>
          match with_replacement_unrank rank' (n - i) k' with
          | Some rest => Some (i :: map (fun x => x + i) rest)
          | None => None
          end
      end
  end.

(* set_minus(arr, subset) = [x for x in arr if x not in set(subset)]   (1453-1454) *)
Definition zmem (x : Z) (l : list Z) : bool := existsb (Z.eqb x) l.
Definition set_minus (arr subset : list Z) : list Z :=
  filter (fun x => negb (zmem x subset)) arr.

(* itertools.combinations(pool, r): the r-element sub-sequences of pool in
   lexicographic order of positions.  This is also the specification against which
   Combination.unrank / rank are proved (CombRankProofs). *)
Fixpoint combs {A} (pool : list A) (r : nat) : list (list A) :=
  match r with
  | O => [[]]
  | S r' =>
      match pool with
      | [] => []
      | e :: rest => map (cons e) (combs rest r') ++ combs rest r
      end
  end.

(* range(lo, lo + cnt) *)
Fixpoint zrange (lo : Z) (cnt : nat) : list Z :=
  match cnt with O => [] | S c => lo :: zrange (lo + 1) c end.

(* itertools.combinations_with_replacement(pool, r): index tuples in lexicographic order.
   Also the specification list for with_replacement_rank / with_replacement_unrank. *)
Fixpoint cwr_list {A} (r : nat) (pool : list A) : list (list A) :=
  match r with
  | O => [[]]
  | S r' =>
      (fix aux (p : list A) : list (list A) :=
         match p with
         | [] => []
         | e :: rest => map (cons e) (cwr_list r' p) ++ aux rest
         end) pool
  end.

