(* Density of the shape ranks, UNBOUNDED: for every n >= 1 every shape rank in
   [0, num_shapes n) is accepted by shape_unrank (no error, no fuel exhaustion), and
   (ShapeRankProofs) the shape that comes out ranks back to it.  Together with
   OorProofs (everything >= num_shapes n is rejected) the accepted shape ranks are exactly
   the dense range. *)
From Coq Require Import List ZArith Bool Lia Arith.
From TskVerif Require Import Base.Common C15.Combination C15.Partitions C15.RankTree
  C15.CombProofs C15.CombRankProofs C15.WRProofs C15.RankTreeBounded C15.OorProofs
  C15.PartitionProofs C15.ChildOrderProofs C15.LabelOorProofs C15.RuleAscProofs
  C15.NumShapesTotal C15.ShapeRankProofs.
Import ListNotations.
Open Scope Z_scope.

Lemma proper_nonempty gs : proper gs -> Forall (fun g => exists k r, g = k :: r) gs.
Proof.
  induction 1 as [|k g Hk|k g k' g' r Hk Hne Hp IH].
  - constructor.
  - constructor; [eauto | constructor].
  - constructor; [eauto | exact IH].
Qed.

Lemma ntp_groups_total gs : proper gs -> exists v, ntp_groups num_shapes gs = Ok v /\ 1 <= v.
Proof.
  intros P. pose proof (proper_nonempty gs P) as N. clear P.
  induction N as [|g gs [k [r ->]] _ [v [Hv Pv]]].
  - exists 1. split; [reflexivity | lia].
  - destruct (num_shapes_total k) as [s [Hs _]]. cbn [ntp_groups]. rewrite Hs, Hv. cbn [bind].
    eexists. split; [reflexivity|].
    pose proof (comb_pos (s + zlength (k :: r) - 1) (zlength (k :: r))).
    unfold comb_with_replacement. nia.
Qed.

Lemma ntp_total part : exists v, num_tree_pairings part = Ok v /\ 1 <= v.
Proof. unfold num_tree_pairings, ntp_with. apply ntp_groups_total, group_partition_proper. Qed.

Lemma sum_ntp_lookup m t : ns_table m = Ok t -> forall ps v,
  sum_ntp (ns_lookup t) ps = Ok v -> sum_ntp num_shapes ps = Ok v.
Proof.
  intros Ht. induction ps as [|p r IH]; intros v H; [exact H|].
  cbn [sum_ntp] in *. apply bind_ok in H as [a [Ha H]]. apply bind_ok in H as [b [Hb H]].
  unfold ntp_with in *. rewrite (ntp_groups_lookup m t _ a Ht Ha). cbn [bind].
  rewrite (IH b Hb). exact H.
Qed.

Lemma csr_find_in_range : forall ps r tot,
  0 <= r -> sum_ntp num_shapes ps = Ok tot -> r < tot ->
  exists part r', csr_find ps r = Ok (Some part, r').
Proof.
  induction ps as [|p ps IH]; intros r tot Hr Hs Hlt; cbn [sum_ntp] in Hs.
  - injection Hs as <-. lia.
  - apply bind_ok in Hs as [a [Ha Hs]]. apply bind_ok in Hs as [b [Hb Hs]]. injection Hs as <-.
    cbn [csr_find]. unfold num_tree_pairings. rewrite Ha. cbn [bind].
    destruct (Z.ltb_spec r a); [eauto|]. apply (IH (r - a) b); [lia | exact Hb | lia].
Qed.

Lemma csr_unrank_groups_total part : forall gs next r',
  proper gs -> exists out, csr_unrank_groups gs next part r' = Ok out.
Proof.
  induction gs as [|g rest IH]; intros next r' P; [eexists; reflexivity|].
  pose proof (proper_tail _ _ P) as Pt.
  pose proof (proper_nonempty _ P) as N. inversion N as [|? ? [k [g0 ->]] _]; subst.
  cbn [csr_unrank_groups].
  destruct (ntp_total (skipn (next + length (k :: g0)) part)) as [rnp [Hrnp Hp]]. rewrite Hrnp. cbn [bind].
  unfold zdiv, zmod. replace (rnp =? 0) with false by (symmetry; apply Z.eqb_neq; lia). cbn [bind].
  destruct (num_shapes_total k) as [nsk [Hnsk _]]. rewrite Hnsk. cbn [bind].
  destruct (wr_unrank_total (length (k :: g0)) (r' / rnp) nsk) as [c Hc]. rewrite Hc. cbn [of_fuel bind].
  destruct (IH (next + length (k :: g0))%nat (r' mod rnp) Pt) as [out Hout]. rewrite Hout. cbn [bind].
  eexists; reflexivity.
Qed.

(* mk_shape never fails *)
Lemma group_sizes_total (groups : list (list cs)) :
  Forall (wf_group same_shape) groups -> exists sz, group_sizes groups = Ok sz.
Proof.
  induction 1 as [|g r [g0 [rr [-> _]]] _ [sz Hsz]]; [eexists; reflexivity|].
  cbn [group_sizes]. rewrite Hsz. cbn [bind]. eexists; reflexivity.
Qed.

Lemma nlgl_loop_total (groups : list (list cs)) :
  Forall (wf_group same_shape) groups -> forall R, exists v, nlgl_loop groups R = Ok v.
Proof.
  induction 1 as [|g r [g0 [rr [-> _]]] _ IH]; intros R; [eexists; reflexivity|].
  cbn [nlgl_loop num_group_labellings bind].
  destruct (IH (R - zlength (g0 :: rr) * c_nl g0)) as [v Hv]. rewrite Hv. cbn [bind].
  eexists; reflexivity.
Qed.

Lemma mk_shape_total rk ch : exists sh, mk_shape rk ch = Ok sh.
Proof.
  unfold mk_shape, node_num_labellings, num_list_of_group_labellings.
  pose proof (group_by_wf (map summary_s ch) same_shape) as W.
  destruct (group_sizes_total _ W) as [sz Hsz]. rewrite Hsz. cbn [bind].
  destruct (nlgl_loop_total _ W (zsum sz)) as [v Hv]. rewrite Hv. cbn [bind].
  eexists; reflexivity.
Qed.

Lemma rmap_total {A B} (f : A -> res B) : forall l,
  Forall (fun x => exists y, f x = Ok y) l -> exists out, rmap f l = Ok out.
Proof.
  induction 1 as [|x l [y Hy] _ [out Hout]]; [eexists; reflexivity|].
  cbn [rmap]. rewrite Hy, Hout. cbn [bind]. eexists; reflexivity.
Qed.

(* children_shape_ranks accepts every rank of the dense range *)
Lemma children_shape_ranks_dense n nS r :
  2 <= n -> num_shapes n = Ok nS -> 0 <= r < nS ->
  exists part crs, children_shape_ranks r n = Ok (part, crs).
Proof.
  intros Hn HS Hr.
  destruct (num_shapes_unfold n nS Hn HS) as [m [t [ps [Ht [Hp Hs]]]]].
  pose proof (sum_ntp_lookup m t Ht ps nS Hs) as Hs'.
  destruct (csr_find_in_range ps r nS ltac:(lia) Hs' ltac:(lia)) as [part [r' Hf]].
  unfold children_shape_ranks. rewrite Hp. cbn [bind]. rewrite Hf. cbn [bind].
  destruct (csr_unrank_groups_total part (group_partition part) 0 r' (group_partition_proper part))
    as [crs Hcrs].
  rewrite Hcrs. cbn [bind]. eauto.
Qed.

Theorem shape_unrank_dense : forall fuel n nS r,
  1 <= n -> (Z.to_nat n < fuel)%nat -> num_shapes n = Ok nS -> 0 <= r < nS ->
  exists sh, shape_unrank fuel n r = Ok sh.
Proof.
  induction fuel as [|f IH]; intros n nS r Hn Hf HS Hr; [lia|].
  destruct (Z.eq_dec n 1) as [->|Hne].
  - vm_compute in HS. injection HS as <-. assert (r = 0) by lia. subst r.
    cbn [shape_unrank]. change (children_shape_ranks 0 1) with (Ok (@nil Z, @nil Z)).
    cbn [bind combine rmap]. apply mk_shape_total.
  - assert (Hn2: 2 <= n) by lia.
    destruct (children_shape_ranks_dense n nS r Hn2 HS Hr) as [part [crs Hc]].
    cbn [shape_unrank]. rewrite Hc. cbn [bind].
    destruct (children_shape_ranks_len n r part crs Hn2 Hc) as [L2 Leq].
    set (cl0 := map (fun kr => mkcs (fst kr) (snd kr) 0 0 []) (combine part crs)).
    assert (E0nl: map c_nl cl0 = part)
      by (unfold cl0; rewrite map_map; cbn [c_nl]; apply combine_fst; lia).
    assert (E0srk: map c_srk cl0 = crs)
      by (unfold cl0; rewrite map_map; cbn [c_srk]; apply combine_snd; lia).
    destruct (level_inverse n r part crs cl0 Hn2 ltac:(lia) Hc E0nl E0srk)
      as [_ [Hrange [Hsum [Hpos _]]]].
    (* every child request is in its dense range and has fewer leaves *)
    assert (Hkids: Forall (fun kr => exists y, shape_unrank f (fst kr) (snd kr) = Ok y)
                          (combine part crs)).
    { unfold cl0 in Hrange. rewrite Forall_map in Hrange. cbn [c_nl c_srk] in Hrange.
      pose proof (partitions_parts_range n) as PR.
      assert (Hub: Forall (fun k => 1 <= k <= n - 1) part).
      { unfold children_shape_ranks in Hc. apply bind_ok in Hc as [ps [Hps Hc]].
        apply bind_ok in Hc as [[sel r'] [Hfnd Hc]]. apply bind_ok in Hc as [p' [Hsel Hc]].
        apply bind_ok in Hc as [c' [_ Hc]]. injection Hc as -> ->.
        destruct sel as [p|]; [injection Hsel as ->|
          replace (n =? 1) with false in Hsel by (symmetry; apply Z.eqb_neq; lia); discriminate].
        specialize (PR ps ltac:(lia) Hps). rewrite Forall_forall in PR.
        apply PR. eapply csr_find_In. exact Hfnd. }
      rewrite Forall_forall in *. intros [k c] Hin. cbn [fst snd].
      destruct (Hrange (k, c) Hin) as [v [Hv Hc']]. cbn [fst snd] in *.
      specialize (Hub k (in_combine_l _ _ _ _ Hin)).
      apply (IH k v c); try lia; assumption. }
    destruct (rmap_total _ _ Hkids) as [children Hch]. rewrite Hch. cbn [bind].
    apply mk_shape_total.
Qed.

(* the accepted shape ranks are exactly [0, num_shapes n) *)
Corollary shape_unrank_accepts_iff n nS r :
  1 <= n -> num_shapes n = Ok nS -> 0 <= r ->
  ((exists sh, shape_unrank (S (Z.to_nat n)) n r = Ok sh) <-> r < nS).
Proof.
  intros Hn HS Hr. split.
  - intros [sh H]. destruct (Z_lt_dec r nS) as [L|G]; [exact L|].
    cbn [shape_unrank] in H. rewrite (children_shape_ranks_oor n nS r Hn HS) in H by lia. discriminate.
  - intros L. apply (shape_unrank_dense (S (Z.to_nat n)) n nS r); try lia; assumption.
Qed.
